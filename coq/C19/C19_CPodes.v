(** C19, second model: CPodesIntegratorRep::stepTo (SimTKmath/Integrators/src/CPodesIntegrator.cpp, after the
    committed fixes 83252531 (stale fake stop time) and 6114e029 (stale savedY)).  [CPodes::step] is the oracle.  The model follows the
    code statement by statement; it is written to show which clauses of C19 the wrapper keeps and which it
    does not (DESIGN 7.18 b).  No proofs in this file. *)
From Coq Require Import QArith List Bool Arith.
Require Import C19_Model.
Import ListNotations.
Local Open Scope Q_scope.

(** return codes of CPodes::step the wrapper distinguishes *)
Inductive cres := CSuccess | CTstop | CRoot | CTooMuchWork | CTooClose | CError.
Inductive cmode := Normal | OneStep | NormalTstop | OneStepTstop.

(** wrapper state: the generic communication state plus pendingReturnCode, previousTimeReturned,
    savedY.size()>0, the root window last obtained from CPodes, and the stop time last given to CPodes *)
Record cst := { c_comm : comm; c_tAdv : Q; c_tInterp : Q; c_interp : bool; c_startCI : bool;
                c_pending : option cres; c_prevRet : Q; c_saved : bool;
                c_rootLo : Q; c_rootHi : Q;         (* CPodes::getRootWindow *)
                c_tLow : Q; c_tHigh : Q;            (* IntegratorRep event window (setTriggeredEvents) *)
                c_intProj : bool; c_tstop : option Q }.

Definition tStateC (s:cst) : Q := if c_interp s then c_tInterp s else c_tAdv s.

(** one answer of CPodes::step(tMax, mode): return code, tret, root window (meaningful for CRoot) *)
Record cstep := { cs_res : cres; cs_tret : Q; cs_lo : Q; cs_hi : Q }.
Record cuse := { cu_t0 : Q; cu_tMax : Q; cu_mode : cmode; cu_tstop : option Q; cu_o : cstep }.

Inductive cresult (A:Type) := COk (a:A) | CRefused | CStepFailed | COutOfOracle | CDiverges.
Arguments COk {A}. Arguments CRefused {A}. Arguments CStepFailed {A}. Arguments COutOfOracle {A}. Arguments CDiverges {A}.

Definition upd (s:cst) (cm:comm) (ta ti:Q) (ip:bool) (pend:option cres) (pr:Q) (sv:bool) (lo hi:Q) (ipj:bool) : cst :=
  {| c_comm := cm; c_tAdv := ta; c_tInterp := ti; c_interp := ip; c_startCI := c_startCI s; c_pending := pend;
     c_prevRet := pr; c_saved := sv; c_rootLo := c_rootLo s; c_rootHi := c_rootHi s; c_tLow := lo; c_tHigh := hi;
     c_intProj := ipj; c_tstop := c_tstop s |}.

Definition mode_of (c:cfg) : cmode :=
  match finalT c, allowInterp c with
  | None, true => if everyStep c then OneStep else Normal
  | _, _ => if everyStep c then OneStepTstop else NormalTstop
  end.

Inductive cit := CReturn (st:status) (s:cst) | CFail | CContinue (s:cst).

(** the part of the loop body after (res, tret) have been obtained and the advanced state set to tret.
    [s] already has c_tAdv = tret, c_prevRet updated, c_pending cleared. *)
Definition after_cstep (c:cfg) (report sched tMax:Q) (s:cst) (res:cres) (tret0:Q) (usePending:bool) : cit :=
  match res with
  | CTooMuchWork => CReturn ReachedStepLimit
      (upd s RetNoEvent (c_tAdv s) (c_tInterp s) (c_interp s) (c_pending s) (c_prevRet s) (c_saved s) (c_tLow s) (c_tHigh s) (c_intProj s))
  | CError | CTooClose => CFail
  | _ =>
    let tret := match res with CRoot => c_rootLo s | _ => tret0 end in
    if qle report tret && qle report sched then
      (* reached the report time; interpolate back if CPodes went beyond tMax *)
      let s1 := if qlt tMax tret
                then upd s RetNoEvent (c_tAdv s) tMax true (Some res) (c_prevRet s) false (c_tLow s) (c_tHigh s) (projInterp c)
                else upd s RetNoEvent (c_tAdv s) (c_tInterp s) (c_interp s) (Some res) (c_prevRet s) false (c_tLow s) (c_tHigh s) (c_intProj s) in
      CReturn ReachedReportTime s1
    else if qle sched tret then
      (* reached a scheduled event; back the advanced state up to it if CPodes went beyond *)
      let s1 := if qlt sched tret
                then upd s RetWithEvent sched sched (c_interp s) (Some res) (c_prevRet s) true (c_tLow s) (c_tHigh s) (projInterp c)
                else upd s RetWithEvent (c_tAdv s) (c_tInterp s) (c_interp s) (Some res) (c_prevRet s) false (c_tLow s) (c_tHigh s) (c_intProj s) in
      CReturn ReachedScheduledEvent s1
    else match res with
    | CRoot =>
        CReturn ReachedEventTrigger
          (upd s RetWithEvent (c_tAdv s) tret true (Some CSuccess) (c_prevRet s) false tret (c_prevRet s) (projInterp c))
    | CTstop =>
        if usePending
        then CReturn EndOfSimulation
               (upd s FinalReturned (c_tAdv s) (c_tInterp s) (c_interp s) (c_pending s) (c_prevRet s) (c_saved s) (c_tLow s) (c_tHigh s) (c_intProj s))
        else CReturn (if everyStep c then TimeHasAdvanced else ReachedReportTime)
               (upd s RetNoEvent (c_tAdv s) (c_tInterp s) (c_interp s) (Some res) (c_prevRet s) false (c_tLow s) (c_tHigh s) (c_intProj s))
    | _ =>
        if everyStep c
        then CReturn TimeHasAdvanced
               (upd s RetNoEvent (c_tAdv s) (c_tInterp s) (c_interp s) (c_pending s) (c_prevRet s) (c_saved s) (c_tLow s) (c_tHigh s) (c_intProj s))
        else CContinue s
    end
  end.

Definition set_adv (s:cst) (t:Q) (pend:option cres) (pr:Q) : cst :=
  upd s (c_comm s) t (c_tInterp s) (c_interp s) pend pr (c_saved s) (c_tLow s) (c_tHigh s) (c_intProj s).
Definition set_root (s:cst) (lo hi:Q) : cst :=
  {| c_comm := c_comm s; c_tAdv := c_tAdv s; c_tInterp := c_tInterp s; c_interp := c_interp s; c_startCI := c_startCI s;
     c_pending := c_pending s; c_prevRet := c_prevRet s; c_saved := c_saved s; c_rootLo := lo; c_rootHi := hi;
     c_tLow := c_tLow s; c_tHigh := c_tHigh s; c_intProj := c_intProj s; c_tstop := c_tstop s |}.

(** iterations that do not use a pending return code: either "a report or event is scheduled for the current
    time" (no oracle use) or one CPodes::step *)
Fixpoint cloop (c:cfg) (report sched tMax:Q) (isFake:bool) (s:cst) (orc:list cstep) {struct orc}
  : cresult (status * cst * list cstep * list cuse) :=
  if qeq tMax (tStateC s) then
    match after_cstep c report sched tMax (set_adv s tMax (c_pending s) tMax) CSuccess tMax false with
    | CReturn st s' => COk (st, s', orc, [])
    | CFail => CStepFailed
    | CContinue _ => CDiverges          (* the code would repeat this iteration unchanged *)
    end
  else match orc with
  | [] => COutOfOracle
  | o :: orc' =>
      let res0 := cs_res o in
      let res := match res0 with CTstop => if isFake then CSuccess else CTstop | CTooClose => CSuccess | r => r end in
      let tret := match res0 with CTooClose => tMax | _ => cs_tret o end in
      let s1 := set_adv (match res0 with CRoot => set_root s (cs_lo o) (cs_hi o) | _ => s end) tret (c_pending s) tret in
      let u := {| cu_t0 := c_tAdv s; cu_tMax := tMax; cu_mode := mode_of c; cu_tstop := c_tstop s; cu_o := o |} in
      match after_cstep c report sched tMax s1 res tret false with
      | CReturn st s' => COk (st, s', orc', [u])
      | CFail => CStepFailed
      | CContinue s' =>
          match cloop c report sched tMax isFake s' orc' with
          | COk (st, s2, rest, us) => COk (st, s2, rest, u :: us)
          | r => r
          end
      end
  end.

Definition set_flags (s:cst) (cm:comm) (ip ci:bool) (pend:option cres) (ts:option Q) : cst :=
  {| c_comm := cm; c_tAdv := c_tAdv s; c_tInterp := c_tInterp s; c_interp := ip; c_startCI := ci;
     c_pending := pend; c_prevRet := c_prevRet s; c_saved := c_saved s; c_rootLo := c_rootLo s; c_rootHi := c_rootHi s;
     c_tLow := c_tLow s; c_tHigh := c_tHigh s; c_intProj := c_intProj s; c_tstop := ts |}.

(** savedY.resize(0) *)
Definition clear_saved (s:cst) : cst :=
  upd s (c_comm s) (c_tAdv s) (c_tInterp s) (c_interp s) (c_pending s) (c_prevRet s) false (c_tLow s) (c_tHigh s) (c_intProj s).

Definition stepToC (c:cfg) (s:cst) (report sched:Q) (orc:list cstep)
  : cresult (status * cst * list cstep * list cuse) :=
  match c_comm s with
  | FinalReturned => CRefused
  | _ =>
    if (match c_comm s with RetNoEvent => ge_final c (tStateC s) | _ => false end)
    then COk (EndOfSimulation, set_flags s FinalReturned false (c_startCI s) (c_pending s) (c_tstop s), orc, [])
    else if c_startCI s
    then COk (StartOfContinuousInterval, clear_saved (set_flags s (c_comm s) (c_interp s) false None (c_tstop s)), orc, [])
    else
      let tMax := qmin report sched in
      let isFake := negb (allowInterp c) && match finalT c with None => true | Some f => qlt tMax f end in
      let ts := if allowInterp c then c_tstop s else if isFake then Some tMax else finalT c in
      let s0 := set_flags s (c_comm s) false (c_startCI s) (c_pending s) ts in
      match c_pending s0 with
      | Some r =>
          (* reset to how things were after the last CPodes::step and process that step *)
          let s1 := set_adv s0 (c_prevRet s0) None (c_prevRet s0) in
          match after_cstep c report sched tMax s1 r (c_prevRet s0) true with
          | CReturn st s' => COk (st, s', orc, [])
          | CFail => CStepFailed
          | CContinue s' => cloop c report sched tMax isFake s' orc
          end
      | None => cloop c report sched tMax isFake s0 orc
      end
  end.

(** IntegratorRep::reinitialize + CPodesIntegratorRep::methodReinitialize *)
Definition reinitC (s:cst) (lowStage terminate:bool) : cst :=
  let s1 := if lowStage then set_flags s (c_comm s) false true None (c_tstop s) else s in
  if terminate then set_flags s1 FinalReturned (c_interp s1) (c_startCI s1) (c_pending s1) (c_tstop s1) else s1.

Definition init_stateC (t:Q) (fin:option Q) : cst :=
  {| c_comm := StepNoEvent; c_tAdv := t; c_tInterp := t; c_interp := false; c_startCI := true; c_pending := None;
     c_prevRet := t; c_saved := false; c_rootLo := t; c_rootHi := t; c_tLow := t; c_tHigh := t; c_intProj := false;
     c_tstop := fin |}.

(** contract assumed of CPodes::step (evaluated on every recorded outcome by the replay) *)
Definition tstop_le (ts:option Q) (t:Q) : bool := match ts with None => true | Some x => qle t x end.
Definition is_tstop_mode (m:cmode) : bool := match m with NormalTstop | OneStepTstop => true | _ => false end.
Definition is_normal (m:cmode) : bool := match m with Normal | NormalTstop => true | _ => false end.
Definition cp_okb (u:cuse) : bool :=
  let o := cu_o u in
  match cs_res o with
  | CSuccess => (if is_normal (cu_mode u) then qeq (cs_tret o) (cu_tMax u) else qlt (cu_t0 u) (cs_tret o))
                && (if is_tstop_mode (cu_mode u) then tstop_le (cu_tstop u) (cs_tret o) else true)
  | CTstop => is_tstop_mode (cu_mode u) && match cu_tstop u with Some x => qeq (cs_tret o) x | None => false end
  | CRoot => qle (cu_t0 u) (cs_lo o) && qlt (cs_lo o) (cs_hi o) && qeq (cs_hi o) (cs_tret o)
             && (if is_normal (cu_mode u) then qle (cs_hi o) (cu_tMax u) else true)
             && (if is_tstop_mode (cu_mode u) then tstop_le (cu_tstop u) (cs_hi o) else true)
  | CTooMuchWork => qle (cu_t0 u) (cs_tret o)
  | CTooClose | CError => true
  end.
