(** C19, CPodes wrapper model (C19_CPodes.v): the clauses that hold, and the refutation of
    "the advanced state never passes a scheduled event" (DESIGN 7.18 b). *)
From Coq Require Import QArith List Bool Arith Lqa Lia.
Require Import C19_Model C19_Proofs C19_CPodes.
Import ListNotations.
Local Open Scope Q_scope.

(** what a return of the wrapper's loop body guarantees, for answers other than a root return
    (for a root return the advanced state is at tHi while the times compared are tLo) *)
Definition cret_ok (c:cfg) (report sched:Q) (st:status) (s':cst) : Prop :=
  (st = ReachedScheduledEvent -> tStateC s' == sched /\ sched < report) /\
  (st = ReachedReportTime -> (tStateC s' == report /\ report <= sched) \/
                             (c_pending s' = Some CTstop /\ everyStep c = false /\ tStateC s' < sched /\ tStateC s' < report)) /\
  (st = TimeHasAdvanced -> tStateC s' < sched /\ tStateC s' < report) /\
  st <> StartOfContinuousInterval /\ st <> ReachedEventTrigger /\
  (st = EndOfSimulation -> c_comm s' = FinalReturned).

Lemma after_cstep_nonroot c report sched tMax s res tret up st s' :
  tMax = qmin report sched -> c_interp s = false -> c_tAdv s == tret -> res <> CRoot ->
  after_cstep c report sched tMax s res tret up = CReturn st s' ->
  st = ReachedStepLimit \/ cret_ok c report sched st s'.
Proof.
  intros HM Hi Ha Hr H. unfold after_cstep in H.
  destruct res; try discriminate; try congruence.
  - (* CSuccess *)
    destruct (qle report tret && qle report sched) eqn:E1.
    + apply andb_prop in E1. destruct E1 as [E1 E2]. b2p. right. destruct (qmin_spec report sched) as [[A B]|[A B]]; [lra|].
      destruct (qlt tMax tret) eqn:E3; inversion H; subst; unfold cret_ok, tStateC; simpl; rewrite ?Hi;
      repeat split; intros; try discriminate; b2p; left; split; auto; rewrite B in *; try reflexivity; lra.
    + destruct (qle sched tret) eqn:E2.
      * right. apply andb_false_iff in E1. b2p.
        destruct (qlt sched tret) eqn:E3; inversion H; subst; unfold cret_ok, tStateC; simpl; rewrite ?Hi;
        repeat split; intros; try discriminate; b2p; try reflexivity; destruct E1; b2p; lra.
      * destruct (everyStep c) eqn:Ee; [|discriminate]. inversion H; subst. right.
        apply andb_false_iff in E1. b2p. unfold cret_ok, tStateC; simpl; rewrite Hi.
        repeat split; intros; try discriminate; destruct E1; b2p; lra.
  - (* CTstop *)
    destruct (qle report tret && qle report sched) eqn:E1.
    + apply andb_prop in E1. destruct E1 as [E1 E2]. b2p. right. destruct (qmin_spec report sched) as [[A B]|[A B]]; [lra|].
      destruct (qlt tMax tret) eqn:E3; inversion H; subst; unfold cret_ok, tStateC; simpl; rewrite ?Hi;
      repeat split; intros; try discriminate; b2p; left; split; auto; rewrite B in *; try reflexivity; lra.
    + destruct (qle sched tret) eqn:E2.
      * right. apply andb_false_iff in E1. b2p.
        destruct (qlt sched tret) eqn:E3; inversion H; subst; unfold cret_ok, tStateC; simpl; rewrite ?Hi;
        repeat split; intros; try discriminate; b2p; try reflexivity; destruct E1; b2p; lra.
      * right. apply andb_false_iff in E1. b2p.
        destruct up; [inversion H; subst; unfold cret_ok; simpl; repeat split; intros; try discriminate; auto|].
        destruct (everyStep c) eqn:Ee; inversion H; subst; unfold cret_ok, tStateC; simpl; rewrite Hi;
        repeat split; intros; try discriminate; try (destruct E1; b2p; lra).
        right. repeat split; auto; destruct E1; b2p; lra.
  - (* CTooMuchWork *) inversion H; subst. left; reflexivity.
Qed.

(** EndOfSimulation puts the wrapper into FinalTimeHasBeenReturned, and from there every stepTo is refused,
    whatever reinitialize did in between (the check for that status comes first in CPodesIntegratorRep::stepTo) *)
Lemma after_cstep_eos c report sched tMax s res tret up s' :
  after_cstep c report sched tMax s res tret up = CReturn EndOfSimulation s' -> c_comm s' = FinalReturned.
Proof.
  unfold after_cstep. destruct res; try discriminate;
  repeat match goal with |- context[if ?b then _ else _] => destruct b end; intros H; inversion H; subst; reflexivity.
Qed.

Definition cloop_body (c:cfg) (report sched tMax:Q) (isFake:bool) (s:cst) (orc:list cstep)
  : cresult (status * cst * list cstep * list cuse) :=
  if qeq tMax (tStateC s) then
    match after_cstep c report sched tMax (set_adv s tMax (c_pending s) tMax) CSuccess tMax false with
    | CReturn st s' => COk (st, s', orc, [])
    | CFail => CStepFailed
    | CContinue _ => CDiverges
    end
  else match orc with
  | [] => COutOfOracle
  | o :: orc' =>
      let res0 := cs_res o in
      let res := match res0 with CTstop => if isFake then CSuccess else CTstop | CTooClose => CSuccess | r => r end in
      let tret := match res0 with CTooClose => tMax | _ => cs_tret o end in
      let s1 := set_adv (match res0 with CRoot => set_root s (cs_lo o) (cs_hi o) | _ => s end) tret (c_pending s) tret in
      let u := {| cu_t0 := c_tAdv s; cu_tMax := tMax; cu_mode := mode_of c; cu_tstop := c_tstop s; cu_o := o |} in
      match after_cstep c report sched tMax s1 res tret false with
      | CReturn st s' => COk (st, s', orc', [u])
      | CFail => CStepFailed
      | CContinue s' =>
          match cloop c report sched tMax isFake s' orc' with
          | COk (st, s2, rest, us) => COk (st, s2, rest, u :: us)
          | r => r
          end
      end
  end.
Lemma cloop_eq c report sched tMax isFake s orc :
  cloop c report sched tMax isFake s orc = cloop_body c report sched tMax isFake s orc.
Proof. destruct orc; reflexivity. Qed.

Lemma cloop_eos c report sched tMax isFake : forall orc s s' rest us,
  cloop c report sched tMax isFake s orc = COk (EndOfSimulation, s', rest, us) -> c_comm s' = FinalReturned.
Proof.
  induction orc as [|o orc IH]; intros s s' rest us H; rewrite cloop_eq in H; unfold cloop_body in H;
  destruct (qeq tMax (tStateC s)); try discriminate.
  - destruct (after_cstep c report sched tMax (set_adv s tMax (c_pending s) tMax) CSuccess tMax false) eqn:E; try discriminate.
    inversion H; subst. eapply after_cstep_eos; eauto.
  - destruct (after_cstep c report sched tMax (set_adv s tMax (c_pending s) tMax) CSuccess tMax false) eqn:E; try discriminate.
    inversion H; subst. eapply after_cstep_eos; eauto.
  - cbv zeta in H.
    match type of H with context[after_cstep ?a ?b ?cc ?d ?e ?f ?g ?h] => destruct (after_cstep a b cc d e f g h) eqn:E end; try discriminate.
    + inversion H; subst. eapply after_cstep_eos; eauto.
    + destruct (cloop c report sched tMax isFake s0 orc) as [[[[st2 s2] r2] u2]| | | |] eqn:EL; try discriminate.
      inversion H; subst. eapply IH; eauto.
Qed.

Lemma cp_end_of_simulation_then_refused c s report sched orc s' rest us :
  stepToC c s report sched orc = COk (EndOfSimulation, s', rest, us) ->
  c_comm s' = FinalReturned /\
  forall l t r2 sc2 orc2, stepToC c (reinitC s' l t) r2 sc2 orc2 = CRefused /\ stepToC c s' r2 sc2 orc2 = CRefused.
Proof.
  intros H. assert (HF: c_comm s' = FinalReturned).
  { unfold stepToC in H. destruct (c_comm s) eqn:Ec; try discriminate;
    repeat match type of H with
    | context[if ?b then _ else _] => destruct b; try (inversion H; subst; reflexivity)
    | context[match c_pending ?x with _ => _ end] => destruct (c_pending x) eqn:?
    | context[match after_cstep ?a ?b ?cc ?d ?e ?f ?g ?h with _ => _ end] => destruct (after_cstep a b cc d e f g h) eqn:?; try discriminate
    end;
    try (inversion H; subst; eapply after_cstep_eos; eauto; fail);
    try (eapply cloop_eos; eauto; fail). }
  split; auto. intros l t r2 sc2 orc2. split.
  - unfold stepToC, reinitC. destruct l, t; simpl; rewrite ?HF; reflexivity.
  - unfold stepToC. rewrite HF. reflexivity.
Qed.

(** lifting [after_cstep_nonroot] to a whole call, for runs in which CPODES reports no root *)
Lemma after_cstep_continue c report sched tMax s res tret up s' :
  after_cstep c report sched tMax s res tret up = CContinue s' -> s' = s.
Proof.
  unfold after_cstep. destruct res; try discriminate;
  repeat match goal with |- context[if ?b then _ else _] => destruct b end; intros H; inversion H; subst; reflexivity.
Qed.

Definition nonroot (o:cstep) : Prop := cs_res o <> CRoot.

Lemma cloop_ret c report sched tMax isFake : tMax = qmin report sched -> forall orc s st s' rest us,
  cloop c report sched tMax isFake s orc = COk (st, s', rest, us) -> c_interp s = false -> Forall nonroot orc ->
  st = ReachedStepLimit \/ cret_ok c report sched st s'.
Proof.
  intros HM. induction orc as [|o orc IH]; intros s st s' rest us H Hi Hn; rewrite cloop_eq in H; unfold cloop_body in H;
  destruct (qeq tMax (tStateC s)) eqn:Eq; try discriminate.
  - destruct (after_cstep c report sched tMax (set_adv s tMax (c_pending s) tMax) CSuccess tMax false) eqn:E; try discriminate.
    inversion H; subst. eapply after_cstep_nonroot; [reflexivity| | | |exact E]; simpl; auto; try reflexivity; discriminate.
  - destruct (after_cstep c report sched tMax (set_adv s tMax (c_pending s) tMax) CSuccess tMax false) eqn:E; try discriminate.
    inversion H; subst. eapply after_cstep_nonroot; [reflexivity| | | |exact E]; simpl; auto; try reflexivity; discriminate.
  - cbv zeta in H. inversion Hn as [|o' l' Hn1 Hn2]; subst. unfold nonroot in Hn1.
    match type of H with context[after_cstep ?a ?b ?cc ?d ?e ?f ?g ?h] => destruct (after_cstep a b cc d e f g h) eqn:E end; try discriminate.
    + inversion H; subst. eapply after_cstep_nonroot; [reflexivity| | | |exact E].
      * destruct (cs_res o); simpl; auto.
      * destruct (cs_res o); simpl; reflexivity.
      * destruct (cs_res o); try destruct isFake; congruence.
    + apply after_cstep_continue in E. subst s0.
      destruct (cloop c report sched (qmin report sched) isFake _ orc) as [[[[st2 s2] r2] u2]| | | |] eqn:EL; try discriminate.
      inversion H; subst. eapply IH; eauto. destruct (cs_res o); simpl; auto.
Qed.

Lemma cp_stops_exact_and_not_late_partial c s report sched orc st s' rest us :
  stepToC c s report sched orc = COk (st, s', rest, us) ->
  c_pending s <> Some CRoot -> Forall nonroot orc ->
  st = StartOfContinuousInterval \/ st = ReachedStepLimit \/ cret_ok c report sched st s'.
Proof.
  intros H Hp Hn. unfold stepToC in H.
  assert (EOS: forall x, COk (EndOfSimulation, x, orc, []) = COk (st, s', rest, us) ->
               c_comm x = FinalReturned -> st = StartOfContinuousInterval \/ st = ReachedStepLimit \/ cret_ok c report sched st s').
  { intros x Hx Hc. inversion Hx; subst. right; right. unfold cret_ok. repeat split; intros; try discriminate; auto. }
  assert (REST: (if c_startCI s
       then COk (StartOfContinuousInterval, clear_saved (set_flags s (c_comm s) (c_interp s) false None (c_tstop s)), orc, [])
       else
         let tMax := qmin report sched in
         let isFake := negb (allowInterp c) && match finalT c with None => true | Some f => qlt tMax f end in
         let ts := if allowInterp c then c_tstop s else if isFake then Some tMax else finalT c in
         let s0 := set_flags s (c_comm s) false (c_startCI s) (c_pending s) ts in
         match c_pending s0 with
         | Some r =>
             let s1 := set_adv s0 (c_prevRet s0) None (c_prevRet s0) in
             match after_cstep c report sched tMax s1 r (c_prevRet s0) true with
             | CReturn st s' => COk (st, s', orc, [])
             | CFail => CStepFailed
             | CContinue s' => cloop c report sched tMax isFake s' orc
             end
         | None => cloop c report sched tMax isFake s0 orc
         end) = COk (st, s', rest, us) ->
       st = StartOfContinuousInterval \/ st = ReachedStepLimit \/ cret_ok c report sched st s').
  { clear H EOS. intros H. destruct (c_startCI s); [inversion H; subst; left; reflexivity|]. right.
    cbv zeta in H. simpl c_pending in H. simpl c_prevRet in H.
    destruct (c_pending s) as [r|] eqn:Epd.
    - match type of H with context[after_cstep ?a ?b ?cc ?d ?e ?f ?g ?h] => destruct (after_cstep a b cc d e f g h) eqn:E end; try discriminate.
      + inversion H; subst. eapply after_cstep_nonroot; [reflexivity| | | |exact E]; simpl; auto; try reflexivity; congruence.
      + apply after_cstep_continue in E. subst. eapply cloop_ret; eauto.
    - eapply cloop_ret; eauto. }
  destruct (c_comm s) eqn:Ec; try discriminate; try (apply REST; exact H).
  destruct (ge_final c (tStateC s)); [eapply EOS; [exact H|reflexivity]|apply REST; exact H].
Qed.

(** DESIGN 7.18 (b): with return-every-step (OneStep mode) CPODES returns the end of its internal step, beyond
    min(report,sched); the wrapper interpolates the *reported* state back but leaves the advanced state there.
    Start state = after initialize and the StartOfContinuousInterval call; the request satisfies the documented
    precondition; the oracle answer satisfies the assumed contract. *)
Definition cpb_cfg : cfg := {| finalT := None; allowInterp := true; everyStep := true; stepLimit := None; projInterp := true |}.
Definition cpb_s0 : cst := set_flags (init_stateC 0 None) StepNoEvent false false None None.
Definition cpb_orc : list cstep := [{| cs_res := CSuccess; cs_tret := 3#20; cs_lo := 0; cs_hi := 0 |}].

Lemma cp_advanced_never_passes_sched_refuted :
  exists c s report sched orc st s' rest us,
    stepToC c (init_stateC 0 None) 0 1 [] = COk (StartOfContinuousInterval, s, [], []) /\
    tStateC s <= report /\ tStateC s <= sched /\
    stepToC c s report sched orc = COk (st, s', rest, us) /\ forallb cp_okb us = true /\
    st = ReachedReportTime /\ tStateC s' == report /\ sched < c_tAdv s'.
Proof.
  exists cpb_cfg, cpb_s0, (1#10), (1#10), cpb_orc.
  eexists; eexists; eexists; eexists. split; [vm_compute; reflexivity|].
  split; [vm_compute; discriminate|]. split; [vm_compute; discriminate|].
  split; [vm_compute; reflexivity|]. split; [vm_compute; reflexivity|]. split; [reflexivity|].
  split; vm_compute; [reflexivity|reflexivity].
Qed.
