(** C19 / C21: executable model of the integrator step/report/final-time protocol
    (SimTKmath/Integrators/src/AbstractIntegratorRep.cpp: stepTo, takeOneStep's interface,
    createInterpolatedState as far as the projection flag is concerned; IntegratorRep.h:
    StepCommunicationStatus, reinitialize).

    Times are rationals (doubles and +Infinity embed order-preservingly into Q; the code applies only
    std::min and comparisons to the times that matter here).  [takeOneStep] is an oracle: the model
    consumes one recorded [outcome] per internal step.  No proofs in this file. *)
From Coq Require Import QArith List Bool Arith.
Import ListNotations.
Local Open Scope Q_scope.

(** comparisons exactly as the code writes them *)
Definition qle (a b:Q) : bool := Qle_bool a b.                 (* a <= b *)
Definition qlt (a b:Q) : bool := negb (Qle_bool b a).          (* a <  b *)
Definition qeq (a b:Q) : bool := Qeq_bool a b.                 (* a == b *)
Definition qmin (a b:Q) : Q := if qlt b a then b else a.       (* std::min(a,b) *)

(** IntegratorRep::StepCommunicationStatus (same order as the enum) *)
Inductive comm := StepNoEvent | StepWithEvent | RetNoEvent | RetWithEvent | FinalReturned.
(** Integrator::SuccessfulStepStatus *)
Inductive status := ReachedReportTime | ReachedEventTrigger | ReachedScheduledEvent | TimeHasAdvanced
                  | ReachedStepLimit | EndOfSimulation | StartOfContinuousInterval.

(** integrator state visible to the protocol.
    [tInterp]/[interp]: time of the interpolated-state object and "getState() returns it".
    [advProj]: the advanced state is the end of a step whose projection succeeded (or the projected
    initial / backed-up state); [intProj]: the interpolated state was created with projection (C21). *)
Record ist := { comm_st : comm; tAdv : Q; tInterp : Q; interp : bool; tLow : Q; tHigh : Q;
                startCI : bool; advProj : bool; intProj : bool }.

Definition tState (s:ist) : Q := if interp s then tInterp s else tAdv s.      (* getState().getTime() *)

(** user options: userFinalTime (-1 = none), userAllowInterpolation != 0, userReturnEveryInternalStep == 1,
    userInternalStepLimit > 0, userProjectInterpolatedStates != 0 *)
Record cfg := { finalT : option Q; allowInterp : bool; everyStep : bool; stepLimit : option nat;
                projInterp : bool }.

(** answer of one takeOneStep: time the advanced state ends at, localized event window if any,
    whether the accepted attempt went through the projecting exit of attemptDAEStep (C21), and the end time
    [t1att] of that accepted attempt (= t1 unless an event was localized strictly inside the step) *)
Record outcome := { t1 : Q; ev : option (Q*Q); proj : bool; t1att : Q }.

(** end of takeOneStep: "if (tHigh < getAdvancedTime()) backUpAdvancedStateByInterpolation(tHigh)".
    backUpAdvancedStateByInterpolation ignores the user's project-interpolated-states option: what it produces
    is the advanced state the trajectory continues from (and the one handed to event handlers), so it always
    ends with realizeAndProjectKinematicsWithThrow -- unlike createInterpolatedState ([mk_interp] below). *)
Definition backed_up (o:outcome) : bool :=
  match ev o with Some (_, hi) => qlt hi (t1att o) | None => false end.
Definition back_up_projects : bool := true.
(** has the advanced state at the end of takeOneStep passed projection? *)
Definition step_end_proj (o:outcome) : bool := if backed_up o then back_up_projects else proj o.

Inductive result (A:Type) := Ok (a:A) | Refused | StepFailed | OutOfOracle.
Arguments Ok {A}. Arguments Refused {A}. Arguments StepFailed {A}. Arguments OutOfOracle {A}.

(** field updates *)
Definition set_comm (s:ist) (c:comm) : ist :=
  {| comm_st := c; tAdv := tAdv s; tInterp := tInterp s; interp := interp s; tLow := tLow s; tHigh := tHigh s;
     startCI := startCI s; advProj := advProj s; intProj := intProj s |}.
Definition set_interp (s:ist) (b:bool) : ist :=
  {| comm_st := comm_st s; tAdv := tAdv s; tInterp := tInterp s; interp := b; tLow := tLow s; tHigh := tHigh s;
     startCI := startCI s; advProj := advProj s; intProj := intProj s |}.
Definition set_startCI (s:ist) (b:bool) : ist :=
  {| comm_st := comm_st s; tAdv := tAdv s; tInterp := tInterp s; interp := interp s; tLow := tLow s; tHigh := tHigh s;
     startCI := b; advProj := advProj s; intProj := intProj s |}.
(** createInterpolatedState(t); setUseInterpolatedState(true) *)
Definition mk_interp (c:cfg) (s:ist) (t:Q) : ist :=
  {| comm_st := comm_st s; tAdv := tAdv s; tInterp := t; interp := true; tLow := tLow s; tHigh := tHigh s;
     startCI := startCI s; advProj := advProj s; intProj := projInterp c |}.
(** state after a successful takeOneStep answering [o] *)
Definition after_step (s:ist) (o:outcome) : ist :=
  match ev o with
  | None => {| comm_st := StepNoEvent; tAdv := t1 o; tInterp := tInterp s; interp := interp s;
               tLow := tLow s; tHigh := tHigh s; startCI := startCI s; advProj := step_end_proj o; intProj := intProj s |}
  | Some (lo,hi) => {| comm_st := StepWithEvent; tAdv := t1 o; tInterp := tInterp s; interp := interp s;
               tLow := lo; tHigh := hi; startCI := startCI s; advProj := step_end_proj o; intProj := intProj s |}
  end.

Definition ge_final (c:cfg) (t:Q) : bool := match finalT c with None => false | Some f => qle f t end.
Definition limit_hit (c:cfg) (steps:nat) : bool :=
  match stepLimit c with None => false | Some n => Nat.leb n steps end.

(** the [switch] on the step communication status inside the main loop of stepTo *)
Inductive sw := SwReturn (st:status) (s:ist) | SwRefused | SwAdvance (s:ist).

Definition after_report (c:cfg) (report sched:Q) (steps:nat) (s:ist) : sw :=
  (* cases StepHasBeenReturnedWithEvent (after the fall through) and CompletedInternalStepNoEvent *)
  if qle report (tAdv s) then
    if qlt report (tAdv s) then SwReturn ReachedReportTime (mk_interp c s report)
    else SwReturn ReachedReportTime (set_comm (set_interp s false) RetNoEvent)
  else
    let s := set_interp s false in
    if qle sched (tAdv s) then SwReturn ReachedScheduledEvent (set_comm s RetNoEvent)
    else if everyStep c then SwReturn TimeHasAdvanced (set_comm s RetNoEvent)
    else if ge_final c (tAdv s) then SwReturn ReachedReportTime (set_comm s RetNoEvent)
    else if limit_hit c steps then SwReturn ReachedStepLimit (set_comm s RetNoEvent)
    else SwAdvance s.

Definition switch (c:cfg) (report sched:Q) (steps:nat) (s:ist) : sw :=
  match comm_st s with
  | FinalReturned => SwRefused
  | RetNoEvent =>
      if ge_final c (tAdv s) then SwReturn EndOfSimulation (set_comm (set_interp s false) FinalReturned)
      else SwAdvance s
  | StepWithEvent =>
      if qle report (tLow s) then
        (if qlt report (tAdv s) then SwReturn ReachedReportTime (mk_interp c s report)
         else SwReturn ReachedReportTime (set_interp s false))
      else SwReturn ReachedEventTrigger (set_comm (mk_interp c s (tLow s)) RetWithEvent)
  | RetWithEvent => after_report c report sched steps (set_interp s false)
  | StepNoEvent => after_report c report sched steps s
  end.

(** tMax as computed at the top of stepTo *)
Definition tMax0 (c:cfg) (sched:Q) : Q := match finalT c with None => sched | Some f => qmin sched f end.
Definition tReturnOf (c:cfg) (report sched:Q) : Q := qmin report (tMax0 c sched).
Definition tMaxOf (c:cfg) (report sched:Q) : Q := if allowInterp c then tMax0 c sched else tReturnOf c report sched.

(** one consumption of the oracle: takeOneStep(tMax,tReport) called with previous time t0 *)
Record use := { u_t0 : Q; u_tMax : Q; u_tReport : Q; u_o : outcome }.

(** main stepping loop; [steps] = internalStepsTaken; one oracle answer per iteration that advances.
    Returns status, new state, unused oracle answers and the list of oracle uses of this call. *)
Fixpoint loop (c:cfg) (report sched tMax:Q) (steps:nat) (s:ist) (orc:list outcome) {struct orc}
  : result (status * ist * list outcome * list use) :=
  match switch c report sched steps s with
  | SwRefused => Refused
  | SwReturn st s' => Ok (st, s', orc, [])
  | SwAdvance s' =>
      if qeq (tState s') report then Ok (ReachedReportTime, s', orc, [])
      else if qeq (tState s') sched then Ok (ReachedScheduledEvent, s', orc, [])
      else if qle tMax (tAdv s') then StepFailed      (* takeOneStep: t1 = tMax <= t0, "Unable to advance time" *)
      else match orc with
           | [] => OutOfOracle
           | o :: orc' =>
               match loop c report sched tMax (S steps) (after_step s' o) orc' with
               | Ok (st, s2, rest, us) =>
                   Ok (st, s2, rest, {| u_t0 := tAdv s'; u_tMax := tMax; u_tReport := report; u_o := o |} :: us)
               | Refused => Refused | StepFailed => StepFailed | OutOfOracle => OutOfOracle
               end
           end
  end.

Definition stepTo (c:cfg) (s:ist) (report sched:Q) (orc:list outcome)
  : result (status * ist * list outcome * list use) :=
  if startCI s then Ok (StartOfContinuousInterval, set_comm (set_startCI s false) RetNoEvent, orc, [])
  else loop c report sched (tMaxOf c report sched) 0 s orc.

(** IntegratorRep::reinitialize(stage, shouldTerminate); lowStage = (stage < Stage::Report) *)
Definition reinit (s:ist) (lowStage terminate:bool) : ist :=
  let s1 := if lowStage then set_interp (set_startCI s true) false else s in
  if terminate then set_comm s1 FinalReturned else s1.

(** state right after Integrator::initialize at time t *)
Definition init_state (t:Q) : ist :=
  {| comm_st := StepNoEvent; tAdv := t; tInterp := t; interp := false; tLow := t; tHigh := t;
     startCI := true; advProj := true; intProj := false |}.

(** request sequences *)
Inductive req := StepTo (report sched:Q) | Reinit (lowStage terminate:bool).

Record callrec := { cr_report : Q; cr_sched : Q; cr_pre : ist;
                    cr_res : result (status * ist * list use) }.

Fixpoint run (c:cfg) (s:ist) (reqs:list req) (orc:list outcome) : list callrec :=
  match reqs with
  | [] => []
  | Reinit l t :: rs => run c (reinit s l t) rs orc
  | StepTo r sc :: rs =>
      match stepTo c s r sc orc with
      | Ok (st, s', orc', us) =>
          {| cr_report := r; cr_sched := sc; cr_pre := s; cr_res := Ok (st, s', us) |} :: run c s' rs orc'
      | Refused => {| cr_report := r; cr_sched := sc; cr_pre := s; cr_res := Refused |} :: run c s rs orc
      | StepFailed => [{| cr_report := r; cr_sched := sc; cr_pre := s; cr_res := StepFailed |}]
      | OutOfOracle => [{| cr_report := r; cr_sched := sc; cr_pre := s; cr_res := OutOfOracle |}]
      end
  end.

(** decidable version of the oracle contract, evaluated by the replay driver on every recorded use *)
Definition oracle_okb (u:use) : bool :=
  let o := u_o u in
  qlt (u_t0 u) (t1 o) && qle (t1 o) (u_tMax u) &&
  match ev o with
  | None => true
  | Some (lo,hi) => qle (u_t0 u) lo && qlt lo hi && qeq hi (t1 o) && negb (qlt lo (u_tReport u) && qlt (u_tReport u) hi)
  end.

(** --------------------------------------------------------------------------------------------
    t1 selection of takeOneStep (polymorphic in the number type so that the float instance can be
    run against the recorded values): 0.95 and 1.001 are the correctly rounded quotients 95/100 and
    1001/1000, i.e. exactly the literals of the source. *)
Require Import Num.
Section T1. Context {T:Type} (K:NumOps T).
Definition c095 : T := ndiv K (nofZ K 95) (nofZ K 100).
Definition c1001 : T := ndiv K (nofZ K 1001) (nofZ K 1000).
(** returns (t1, hWasArtificiallyLimited) *)
Definition select_t1 (t0 tMax h:T) : T * bool :=
  if nltb K tMax (nadd K t0 (nmul K c095 h)) then (tMax, true)
  else if nltb K (nadd K t0 (nmul K c1001 h)) tMax then (nadd K t0 h, false)
  else (tMax, false).
End T1.
