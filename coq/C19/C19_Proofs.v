(** C19 / C21: invariants and proofs for the stepTo protocol model (C19_Model.v). *)
From Coq Require Import QArith List Bool Arith Lqa Lia.
Require Import C19_Model.
Import ListNotations.
Local Open Scope Q_scope.

Lemma qle_t a b : qle a b = true <-> a <= b. Proof. unfold qle. apply Qle_bool_iff. Qed.
Lemma qle_f a b : qle a b = false <-> b < a.
Proof. unfold qle. rewrite <- not_true_iff_false, Qle_bool_iff. split; intro H. apply Qnot_le_lt; auto. apply Qlt_not_le; auto. Qed.
Lemma qlt_t a b : qlt a b = true <-> a < b.
Proof. unfold qlt. rewrite negb_true_iff. apply qle_f. Qed.
Lemma qlt_f a b : qlt a b = false <-> b <= a.
Proof. unfold qlt. rewrite negb_false_iff. apply qle_t. Qed.
Lemma qeq_t a b : qeq a b = true <-> a == b. Proof. unfold qeq. apply Qeq_bool_iff. Qed.
Lemma qeq_f a b : qeq a b = false <-> ~ a == b.
Proof. unfold qeq. rewrite <- not_true_iff_false, Qeq_bool_iff. tauto. Qed.
Lemma qmin_spec a b : (b < a /\ qmin a b = b) \/ (a <= b /\ qmin a b = a).
Proof. unfold qmin. destruct (qlt b a) eqn:E. left; split; auto; apply qlt_t; auto. right; split; auto; apply qlt_f; auto. Qed.

Ltac b2p :=
  repeat match goal with
  | H: qle _ _ = true |- _ => apply qle_t in H
  | H: qle _ _ = false |- _ => apply qle_f in H
  | H: qlt _ _ = true |- _ => apply qlt_t in H
  | H: qlt _ _ = false |- _ => apply qlt_f in H
  | H: qeq _ _ = true |- _ => apply qeq_t in H
  | H: qeq _ _ = false |- _ => apply qeq_f in H
  end.

Definition final_le (c:cfg) (t:Q) : Prop := match finalT c with None => True | Some f => t <= f end.

(** the oracle contract (DESIGN Appendix B) *)
Definition oracle_ok (u:use) : Prop :=
  u_t0 u < t1 (u_o u) /\ t1 (u_o u) <= u_tMax u /\
  match ev (u_o u) with
  | None => True
  | Some (lo,hi) => u_t0 u <= lo /\ lo < hi /\ hi == t1 (u_o u) /\ ~ (lo < u_tReport u /\ u_tReport u < hi)
  end.

Definition Inv (c:cfg) (s:ist) : Prop :=
  tState s <= tAdv s /\ final_le c (tAdv s) /\
  (comm_st s = RetNoEvent -> interp s = false) /\
  (startCI s = true -> interp s = false) /\
  (interp s = true -> intProj s = projInterp c) /\
  (startCI s = false -> comm_st s = StepWithEvent ->
     tLow s < tHigh s /\ tHigh s == tAdv s /\ tState s <= tLow s).

Definition final_lt (c:cfg) (t:Q) : Prop := match finalT c with None => True | Some f => t < f end.
Definition LInv (c:cfg) (tE:Q) (s:ist) : Prop :=
  tState s <= tAdv s /\ final_le c (tAdv s) /\
  (comm_st s = RetNoEvent -> interp s = false) /\
  (interp s = true -> intProj s = projInterp c) /\
  (comm_st s = StepWithEvent -> tLow s < tHigh s /\ tHigh s == tAdv s /\ tE <= tLow s).

Lemma tMaxOf_le c report sched : tMaxOf c report sched <= sched /\ final_le c (tMaxOf c report sched).
Proof.
  unfold tMaxOf, tReturnOf, tMax0, final_le. destruct (finalT c) as [f|]; destruct (allowInterp c);
  try (destruct (qmin_spec sched f) as [[? ->]|[? ->]]);
  repeat match goal with |- context[qmin ?a ?b] => destruct (qmin_spec a b) as [[? ->]|[? ->]] end; split; try lra; auto.
Qed.

(** what one successful call establishes, relative to the entry time tE of the call *)
Definition post (c:cfg) (report sched tE:Q) (s:ist) (st:status) (s':ist) : Prop :=
  Inv c s' /\ startCI s' = false /\
  tE <= tState s' /\ tAdv s <= tAdv s' /\
  tState s' <= report /\ tState s' <= sched /\ final_le c (tState s') /\
  tAdv s' <= sched /\
  (st = ReachedReportTime -> tState s' == report \/ exists f, finalT c = Some f /\ tState s' == f) /\
  (st = ReachedScheduledEvent -> tState s' == sched) /\
  (st = EndOfSimulation -> comm_st s' = FinalReturned /\ exists f, finalT c = Some f /\ tState s' == f) /\
  (st = ReachedEventTrigger -> comm_st s' = RetWithEvent /\ tState s' == tLow s' /\ tLow s' < tHigh s' /\
       tHigh s' == tAdv s' /\ ~ (tLow s' < report /\ report < tHigh s')) /\
  (comm_st s' = FinalReturned -> st = EndOfSimulation) /\
  st <> StartOfContinuousInterval.

Ltac spec_hyps :=
  repeat match goal with
  | H: _ /\ _ |- _ => destruct H
  | H: ?a = ?a -> _ |- _ => specialize (H eq_refl)
  | H: ?P -> _, H1: ?P |- _ => specialize (H H1)
  | H: _ \/ _ |- _ => destruct H
  end.
Ltac leaf :=
  intros; simpl in *; spec_hyps; try discriminate; try congruence; b2p;
  first [ lra | assumption | reflexivity | left; lra | right; eexists; split; [reflexivity | lra]
        | eexists; split; [reflexivity | lra] | left; repeat split; (assumption || reflexivity || lra || (left; assumption) || (right; assumption))
        | right; repeat split; (assumption || reflexivity || lra || (left; assumption) || (right; assumption)) | idtac ].
Ltac fin :=
  unfold post, Inv, LInv, final_le, final_lt, ge_final, tState in *; simpl in *; spec_hyps;
  try match goal with |- context[finalT ?c] => destruct (finalT c) eqn:? end;
  repeat match goal with
  | H: context[if interp ?s then _ else _] |- _ => destruct (interp s) eqn:?; simpl in *
  | |- context[if interp ?s then _ else _] => destruct (interp s) eqn:?; simpl in *
  end; spec_hyps;
  repeat split; leaf.

Definition adv_ok (c:cfg) (report sched tE:Q) (s s':ist) : Prop :=
  startCI s' = false /\ tAdv s' == tAdv s /\ interp s' = false /\ final_le c (tAdv s') /\
  tE <= tAdv s' /\ tAdv s' <= sched /\
  ((comm_st s' = RetNoEvent /\ tAdv s' <= report /\ final_lt c (tAdv s')) \/
   ((comm_st s' = StepNoEvent \/ comm_st s' = RetWithEvent) /\
    tAdv s' < report /\ tAdv s' < sched /\ final_lt c (tAdv s'))).

Lemma switch_spec c report sched steps s tE :
  startCI s = false -> LInv c tE s -> tE <= report -> tE <= tState s -> tAdv s <= sched ->
  (comm_st s = StepWithEvent -> ~ (tLow s < report /\ report < tHigh s)) ->
  (comm_st s = RetNoEvent -> tState s <= report) ->
  match switch c report sched steps s with
  | SwRefused => comm_st s = FinalReturned
  | SwReturn st s' => post c report sched tE s st s'
  | SwAdvance s' => adv_ok c report sched tE s s'
  end.
Proof.
  intros Hci HI HE1 HE2 Hs Hw Hr.
  unfold switch, after_report, ge_final, adv_ok, final_lt.
  destruct c as [fT aI eS sL pI]; destruct fT as [f|]; simpl;
  destruct (comm_st s) eqn:Ec; simpl; auto;
  repeat match goal with
  | |- context[if ?b then _ else _] => destruct b eqn:?; simpl
  end; fin; eauto.
Qed.

Lemma after_step_spec c report sched tMax tE s' o s :
  tMax <= sched -> final_le c tMax ->
  adv_ok c report sched tE s s' ->
  ~ tState s' == report -> ~ tState s' == sched -> tAdv s' < tMax ->
  oracle_ok {| u_t0 := tAdv s'; u_tMax := tMax; u_tReport := report; u_o := o |} ->
  let s2 := after_step s' o in
  startCI s2 = false /\ LInv c tE s2 /\ tE <= tState s2 /\ tAdv s2 <= sched /\ tAdv s <= tAdv s2 /\
  (comm_st s2 = StepWithEvent -> ~ (tLow s2 < report /\ report < tHigh s2)) /\
  (comm_st s2 = RetNoEvent -> tState s2 <= report).
Proof.
  intros HM1 HM2 HA N1 N2 HT HO. unfold adv_ok, oracle_ok, after_step in *. simpl in *.
  destruct (ev o) as [[lo hi]|]; fin.
Qed.

Lemma loop_eq c report sched tMax steps s orc :
  loop c report sched tMax steps s orc =
  match switch c report sched steps s with
  | SwRefused => Refused
  | SwReturn st s' => Ok (st, s', orc, [])
  | SwAdvance s' =>
      if qeq (tState s') report then Ok (ReachedReportTime, s', orc, [])
      else if qeq (tState s') sched then Ok (ReachedScheduledEvent, s', orc, [])
      else if qle tMax (tAdv s') then StepFailed
      else match orc with
           | [] => OutOfOracle
           | o :: orc' =>
               match loop c report sched tMax (S steps) (after_step s' o) orc' with
               | Ok (st, s2, rest, us) =>
                   Ok (st, s2, rest, {| u_t0 := tAdv s'; u_tMax := tMax; u_tReport := report; u_o := o |} :: us)
               | Refused => Refused | StepFailed => StepFailed | OutOfOracle => OutOfOracle
               end
           end
  end.
Proof. destruct orc; reflexivity. Qed.

Lemma loop_spec c report sched : forall orc steps s st s' orc' us tE,
  loop c report sched (tMaxOf c report sched) steps s orc = Ok (st, s', orc', us) ->
  startCI s = false -> LInv c tE s -> tE <= report -> tE <= tState s -> tAdv s <= sched ->
  (comm_st s = StepWithEvent -> ~ (tLow s < report /\ report < tHigh s)) ->
  (comm_st s = RetNoEvent -> tState s <= report) ->
  Forall oracle_ok us ->
  post c report sched tE s st s'.
Proof.
  destruct (tMaxOf_le c report sched) as [HM1 HM2]. revert HM1 HM2. generalize (tMaxOf c report sched) as tMax.
  intros tMax HM1 HM2.
  induction orc as [|o orc IH]; intros steps s st s' orc' us tE H Hci HI HE1 HE2 Hs Hw Hr Hu;
  rewrite loop_eq in H; pose proof (switch_spec c report sched steps s tE Hci HI HE1 HE2 Hs Hw Hr) as SS;
  destruct (switch c report sched steps s) as [st0 s0| |s0]; try discriminate.
  - inversion H; subst; auto.
  - destruct (qeq (tState s0) report) eqn:E1; [inversion H; subst; clear H; unfold adv_ok in SS; fin|].
    destruct (qeq (tState s0) sched) eqn:E2; [inversion H; subst; clear H; unfold adv_ok in SS; fin|].
    destruct (qle tMax (tAdv s0)); discriminate.
  - inversion H; subst; auto.
  - destruct (qeq (tState s0) report) eqn:E1; [inversion H; subst; clear H; unfold adv_ok in SS; fin|].
    destruct (qeq (tState s0) sched) eqn:E2; [inversion H; subst; clear H; unfold adv_ok in SS; fin|].
    destruct (qle tMax (tAdv s0)) eqn:E3; [discriminate|].
    destruct (loop c report sched tMax (S steps) (after_step s0 o) orc) as [[[[st2 s2] rest] us2]| | |] eqn:EL; try discriminate.
    inversion H; subst; clear H. inversion Hu as [|u0 l0 Hu1 Hu2]; subst.
    b2p. destruct (after_step_spec c report sched tMax tE s0 o s HM1 HM2 SS E1 E2 E3 Hu1) as (A1 & A2 & A3 & A4 & A5 & A6 & A7).
    specialize (IH _ _ _ _ _ _ tE EL A1 A2 HE1 A3 A4 A6 A7 Hu2).
    unfold post in *. destruct IH as (B1 & B2 & B3 & B4 & B5). split; [exact B1|]. split; [exact B2|]. split; [exact B3|]. split; [lra|exact B5].
Qed.

(** ---------------------------------------------------------------------------------------------
    one call of stepTo *)
(** requests under which the property is claimed: the documented precondition on the report time,
    the scheduled-event time is not earlier than the time already advanced to (DESIGN 7.11), and a new
    report time is not placed strictly inside an event window that was localized by an earlier call
    but has not been reported yet *)
Definition req_ok (s:ist) (report sched:Q) : Prop :=
  tState s <= report /\ tAdv s <= sched /\
  (startCI s = false -> comm_st s = StepWithEvent -> ~ (tLow s < report /\ report < tHigh s)).

Definition cpost (c:cfg) (report sched:Q) (s:ist) (st:status) (s':ist) : Prop :=
  Inv c s' /\ startCI s' = false /\
  tState s <= tState s' /\ tAdv s <= tAdv s' /\
  tState s' <= report /\ tState s' <= sched /\ final_le c (tState s') /\
  tAdv s' <= sched /\ final_le c (tAdv s') /\
  (st = ReachedReportTime -> tState s' == report \/ exists f, finalT c = Some f /\ tState s' == f) /\
  (st = ReachedScheduledEvent -> tState s' == sched) /\
  (st = EndOfSimulation -> comm_st s' = FinalReturned /\ exists f, finalT c = Some f /\ tState s' == f) /\
  (st = ReachedEventTrigger -> comm_st s' = RetWithEvent /\ tState s' == tLow s' /\ tLow s' < tHigh s' /\
       tHigh s' == tAdv s' /\ ~ (tLow s' < report /\ report < tHigh s')) /\
  (comm_st s' = FinalReturned -> st = EndOfSimulation).

Lemma stepTo_spec c s report sched orc st s' orc' us :
  stepTo c s report sched orc = Ok (st, s', orc', us) ->
  Inv c s -> req_ok s report sched -> Forall oracle_ok us ->
  cpost c report sched s st s'.
Proof.
  unfold stepTo. intros H HI HR HU. destruct (startCI s) eqn:Eci.
  - inversion H; subst; clear H. unfold req_ok in HR. unfold cpost. fin.
  - unfold req_ok in HR. destruct HR as (R1 & R2 & R3). specialize (R3 Eci).
    assert (HL: LInv c (tState s) s) by (unfold Inv, LInv in *; intuition).
    assert (HQ: tState s <= tState s) by lra.
    pose proof (loop_spec c report sched orc 0 s st s' orc' us (tState s) H Eci HL R1 HQ R2 R3 (fun _ => R1) HU) as P.
    unfold post in P. destruct P as (P1&P2&P3&P4&P5&P6&P7&P8&P9&P10&P11&P12&P13&P14).
    assert (I2: final_le c (tAdv s')) by (unfold Inv in P1; tauto).
    unfold cpost. repeat (split; [assumption|]). assumption.
Qed.

(** ---------------------------------------------------------------------------------------------
    request sequences *)
Fixpoint reqs_sat (P:ist -> Q -> Q -> Prop) (c:cfg) (s:ist) (reqs:list req) (orc:list outcome) : Prop :=
  match reqs with
  | [] => True
  | Reinit l t :: rs => reqs_sat P c (reinit s l t) rs orc
  | StepTo r sc :: rs =>
      P s r sc /\
      match stepTo c s r sc orc with
      | Ok (st, s', orc', us) => Forall oracle_ok us /\ reqs_sat P c s' rs orc'
      | Refused => reqs_sat P c s rs orc
      | _ => True
      end
  end.
(** every request satisfies [req_ok] in the state it is issued in, and every oracle answer used meets the contract *)
Definition reqs_ok := reqs_sat req_ok.

Definition call_ok (c:cfg) (x:callrec) : Prop :=
  match cr_res x with
  | Ok (st, s', us) => cpost c (cr_report x) (cr_sched x) (cr_pre x) st s'
  | _ => True
  end.

Lemma reinit_Inv c s l t : Inv c s -> Inv c (reinit s l t).
Proof. unfold reinit. destruct l, t; fin. Qed.

Lemma reinit_mono s l t c : Inv c s -> tState s <= tState (reinit s l t).
Proof. unfold reinit. destruct l, t; fin. Qed.

Lemma run_all_ok c : forall reqs s orc, Inv c s -> reqs_ok c s reqs orc -> Forall (call_ok c) (run c s reqs orc).
Proof.
  unfold reqs_ok; induction reqs as [|[r sc|l t] rs IH]; intros s orc HI HR; simpl in *; auto.
  - destruct HR as [HR1 HR2].
    destruct (stepTo c s r sc orc) as [[[[st s'] orc'] us]| | |] eqn:E.
    + destruct HR2 as [HU HR2]. pose proof (stepTo_spec _ _ _ _ _ _ _ _ _ E HI HR1 HU) as P.
      constructor; [unfold call_ok; simpl; exact P|]. apply IH; [|exact HR2]. unfold cpost in P; tauto.
    + constructor; [unfold call_ok; simpl; exact I|]. apply IH; auto.
    + constructor; [unfold call_ok; simpl; exact I|constructor].
    + constructor; [unfold call_ok; simpl; exact I|constructor].
  - apply IH; auto. apply reinit_Inv; auto.
Qed.

(** returned times, in call order *)
Definition ret_time (x:callrec) : option Q :=
  match cr_res x with Ok (_, s', _) => Some (tState s') | _ => None end.
Fixpoint ret_times (l:list callrec) : list Q :=
  match l with [] => [] | x :: tl => match ret_time x with Some t => t :: ret_times tl | None => ret_times tl end end.
Fixpoint nondecreasing (l:list Q) : Prop :=
  match l with [] => True | a :: tl => Forall (fun b => a <= b) tl /\ nondecreasing tl end.

Lemma run_times_ge c : forall reqs s orc, Inv c s -> reqs_ok c s reqs orc ->
  Forall (fun t => tState s <= t) (ret_times (run c s reqs orc)) /\ nondecreasing (ret_times (run c s reqs orc)).
Proof.
  unfold reqs_ok; induction reqs as [|[r sc|l t] rs IH]; intros s orc HI HR; simpl in *; auto.
  - destruct HR as [HR1 HR2].
    destruct (stepTo c s r sc orc) as [[[[st s'] orc'] us]| | |] eqn:E; simpl; auto.
    + destruct HR2 as [HU HR2]. pose proof (stepTo_spec _ _ _ _ _ _ _ _ _ E HI HR1 HU) as P.
      unfold cpost in P. destruct P as (P1 & P2 & P3 & _).
      destruct (IH s' orc' P1 HR2) as [A B]. unfold ret_time; simpl. split; [|split; auto].
      constructor; auto. eapply Forall_impl; [|exact A]. simpl; intros; lra.
  - pose proof (reinit_mono s l t c HI). destruct (IH (reinit s l t) orc (reinit_Inv c s l t HI) HR) as [A B].
    split; auto. eapply Forall_impl; [|exact A]. simpl; intros; lra.
Qed.

(** ---------------------------------------------------------------------------------------------
    the six clauses of the property (C19), for every request sequence satisfying [reqs_ok]
    (which includes "every oracle answer used meets the contract") *)
Section Clauses.
Variables (c:cfg) (s0:ist) (reqs:list req) (orc:list outcome).
Hypothesis HI : Inv c s0.
Hypothesis HR : reqs_ok c s0 reqs orc.

Lemma returned_time_le_earliest_pending : forall x st s' us, In x (run c s0 reqs orc) -> cr_res x = Ok (st, s', us) ->
  tState s' <= cr_report x /\ tState s' <= cr_sched x /\ (forall f, finalT c = Some f -> tState s' <= f).
Proof.
  intros x st s' us Hin E. pose proof (run_all_ok c reqs s0 orc HI HR) as A. rewrite Forall_forall in A.
  specialize (A x Hin). unfold call_ok in A. rewrite E in A. unfold cpost, final_le in A.
  repeat split; try tauto. intros f Hf. rewrite Hf in A. tauto.
Qed.

Lemma time_monotone : nondecreasing (ret_times (run c s0 reqs orc)) /\
  forall x st s' us, In x (run c s0 reqs orc) -> cr_res x = Ok (st, s', us) ->
     tState (cr_pre x) <= tState s' /\ tAdv (cr_pre x) <= tAdv s'.
Proof.
  split. apply (run_times_ge c reqs s0 orc HI HR).
  intros x st s' us Hin E. pose proof (run_all_ok c reqs s0 orc HI HR) as A. rewrite Forall_forall in A.
  specialize (A x Hin). unfold call_ok in A. rewrite E in A. unfold cpost in A. tauto.
Qed.

Lemma advanced_never_passes_sched_or_final : forall x st s' us, In x (run c s0 reqs orc) -> cr_res x = Ok (st, s', us) ->
  tAdv s' <= cr_sched x /\ (forall f, finalT c = Some f -> tAdv s' <= f).
Proof.
  intros x st s' us Hin E. pose proof (run_all_ok c reqs s0 orc HI HR) as A. rewrite Forall_forall in A.
  specialize (A x Hin). unfold call_ok in A. rewrite E in A. unfold cpost, final_le in A.
  split; try tauto. intros f Hf. rewrite Hf in A. tauto.
Qed.

Lemma report_sched_final_stops_exact : forall x st s' us, In x (run c s0 reqs orc) -> cr_res x = Ok (st, s', us) ->
  (st = ReachedReportTime -> tState s' == cr_report x \/ exists f, finalT c = Some f /\ tState s' == f) /\
  (st = ReachedScheduledEvent -> tState s' == cr_sched x) /\
  (st = EndOfSimulation -> exists f, finalT c = Some f /\ tState s' == f).
Proof.
  intros x st s' us Hin E. pose proof (run_all_ok c reqs s0 orc HI HR) as A. rewrite Forall_forall in A.
  specialize (A x Hin). unfold call_ok in A. rewrite E in A. unfold cpost in A. intuition.
Qed.

Lemma no_pending_time_inside_event_window : forall x s' us, In x (run c s0 reqs orc) ->
  cr_res x = Ok (ReachedEventTrigger, s', us) ->
  tLow s' < tHigh s' /\ tState s' == tLow s' /\ tAdv s' == tHigh s' /\
  ~ (tLow s' < cr_report x /\ cr_report x < tHigh s') /\
  ~ (tLow s' < cr_sched x /\ cr_sched x < tHigh s') /\
  (forall f, finalT c = Some f -> ~ (tLow s' < f /\ f < tHigh s')).
Proof.
  intros x s' us Hin E. pose proof (run_all_ok c reqs s0 orc HI HR) as A. rewrite Forall_forall in A.
  specialize (A x Hin). unfold call_ok in A. rewrite E in A. unfold cpost, final_le in A.
  destruct A as (_ & _ & _ & _ & _ & _ & _ & A1 & A2 & _ & _ & _ & A3 & _). specialize (A3 eq_refl).
  destruct A3 as (_ & B1 & B2 & B3 & B4). repeat split; try lra; auto.
  intros f Hf. rewrite Hf in A2. lra.
Qed.
End Clauses.

(** ---------------------------------------------------------------------------------------------
    EndOfSimulation is returned at most once, and afterwards stepping is refused (no oracle contract and
    no request hypothesis needed; only: the integrator is not re-started by reinitialize(stage<Report)
    after the end -- the documentation asks for initialize() in that case) *)
Lemma switch_startCI c report sched steps s :
  match switch c report sched steps s with
  | SwReturn st s' => startCI s' = startCI s /\ (st = EndOfSimulation -> comm_st s' = FinalReturned)
  | SwAdvance s' => startCI s' = startCI s
  | SwRefused => True
  end.
Proof.
  unfold switch, after_report. destruct (comm_st s); simpl;
  repeat match goal with |- context[if ?b then _ else _] => destruct b; simpl end; auto; split; auto; discriminate.
Qed.

Lemma loop_eos c report sched tMax : forall orc steps s st s' orc' us,
  loop c report sched tMax steps s orc = Ok (st, s', orc', us) ->
  startCI s' = startCI s /\ (st = EndOfSimulation -> comm_st s' = FinalReturned).
Proof.
  induction orc as [|o orc IH]; intros steps s st s' orc' us H; rewrite loop_eq in H;
  pose proof (switch_startCI c report sched steps s) as SS;
  destruct (switch c report sched steps s) as [st0 s0| |s0]; try discriminate.
  - inversion H; subst; auto.
  - destruct (qeq (tState s0) report); [inversion H; subst; split; auto; discriminate|].
    destruct (qeq (tState s0) sched); [inversion H; subst; split; auto; discriminate|].
    destruct (qle tMax (tAdv s0)); discriminate.
  - inversion H; subst; auto.
  - destruct (qeq (tState s0) report); [inversion H; subst; split; auto; discriminate|].
    destruct (qeq (tState s0) sched); [inversion H; subst; split; auto; discriminate|].
    destruct (qle tMax (tAdv s0)); [discriminate|].
    destruct (loop c report sched tMax (S steps) (after_step s0 o) orc) as [[[[st2 s2] rest] us2]| | |] eqn:EL; try discriminate.
    inversion H; subst. destruct (IH _ _ _ _ _ _ EL) as [A B]. split; auto.
    rewrite A. unfold after_step. destruct (ev o) as [[lo hi]|]; simpl; auto.
Qed.

Definition no_restart (reqs:list req) : Prop :=
  Forall (fun r => match r with Reinit true _ => False | _ => True end) reqs.
Definition is_refused (x:callrec) : Prop := cr_res x = Refused.
Definition is_eos (x:callrec) : Prop := exists s' us, cr_res x = Ok (EndOfSimulation, s', us).
Fixpoint eos_then_refused (l:list callrec) : Prop :=
  match l with [] => True | x :: tl => (is_eos x -> Forall is_refused tl) /\ eos_then_refused tl end.

Lemma final_refused c : forall reqs s orc, comm_st s = FinalReturned -> startCI s = false -> no_restart reqs ->
  Forall is_refused (run c s reqs orc).
Proof.
  induction reqs as [|[r sc|l t] rs IH]; intros s orc HF HC HN; simpl; auto; inversion HN; subst.
  - unfold stepTo. rewrite HC. destruct orc; simpl; unfold switch; rewrite HF; constructor; auto; reflexivity.
  - destruct l; [contradiction|]. apply IH; auto; unfold reinit; destruct t; simpl; auto.
Qed.

Lemma end_of_simulation_once_then_refused c : forall reqs s orc, no_restart reqs ->
  eos_then_refused (run c s reqs orc).
Proof.
  induction reqs as [|[r sc|l t] rs IH]; intros s orc HN; simpl; auto; inversion HN; subst.
  - destruct (stepTo c s r sc orc) as [[[[st s'] orc'] us]| | |] eqn:E; simpl.
    + split; [|apply IH; auto]. intros (s2 & us2 & Heq). simpl in Heq. inversion Heq; subst.
      unfold stepTo in E. destruct (startCI s) eqn:Eci; [inversion E|].
      destruct (loop_eos _ _ _ _ _ _ _ _ _ _ _ E) as [A B]. apply final_refused; auto. congruence.
    + split; [|apply IH; auto]. intros (s2 & us2 & Heq). discriminate.
    + split; auto.
    + split; auto.
  - apply IH; auto.
Qed.

(** a refused call is one made after the end was reported or after a handler asked for termination *)
Lemma refused_only_after_final c s r sc orc : stepTo c s r sc orc = Refused -> comm_st s = FinalReturned /\ startCI s = false.
Proof.
  unfold stepTo. destruct (startCI s); [discriminate|]. intros H. split; auto.
  revert H. generalize (tMaxOf c r sc) as tM. generalize 0%nat as steps. revert s.
  induction orc as [|o orc IH]; intros s steps tM H; rewrite loop_eq in H; unfold switch, after_report in H;
  destruct (comm_st s) eqn:Ec; auto; exfalso;
  repeat match type of H with context[if ?b then _ else _] => destruct b; try discriminate end;
  try discriminate;
  match type of H with context[loop ?a ?b ?cc ?d ?e ?f orc] =>
    destruct (loop a b cc d e f orc) as [[[[? ?] ?] ?]| | |] eqn:EL; try discriminate;
    apply IH in EL; unfold after_step in EL; destruct (ev o) as [[? ?]|]; simpl in EL; discriminate end.
Qed.

(** ---------------------------------------------------------------------------------------------
    Boolean versions of the request hypotheses and of the contract, for the concrete witnesses below *)
Lemma oracle_okb_sound u : oracle_okb u = true -> oracle_ok u.
Proof.
  unfold oracle_okb, oracle_ok. destruct (ev (u_o u)) as [[lo hi]|]; intros H.
  - apply andb_prop in H. destruct H as [H H5]. apply andb_prop in H. destruct H as [H1 H2].
    apply andb_prop in H5. destruct H5 as [H5 H6]. apply andb_prop in H5. destruct H5 as [H5 H7].
    apply andb_prop in H5. destruct H5 as [H3 H4]. b2p. repeat split; auto.
    intros [A B]. apply negb_true_iff in H6. apply andb_false_iff in H6. destruct H6; b2p; lra.
  - apply andb_prop in H. destruct H as [H _]. apply andb_prop in H. destruct H as [H1 H2]. b2p. auto.
Qed.

Fixpoint reqs_satb (Pb:ist -> Q -> Q -> bool) (c:cfg) (s:ist) (reqs:list req) (orc:list outcome) : bool :=
  match reqs with
  | [] => true
  | Reinit l t :: rs => reqs_satb Pb c (reinit s l t) rs orc
  | StepTo r sc :: rs =>
      Pb s r sc &&
      match stepTo c s r sc orc with
      | Ok (st, s', orc', us) => forallb oracle_okb us && reqs_satb Pb c s' rs orc'
      | Refused => reqs_satb Pb c s rs orc
      | _ => true
      end
  end.

Lemma reqs_satb_sound (P:ist -> Q -> Q -> Prop) Pb c :
  (forall s r sc, Pb s r sc = true -> P s r sc) ->
  forall reqs s orc, reqs_satb Pb c s reqs orc = true -> reqs_sat P c s reqs orc.
Proof.
  intros HP. induction reqs as [|[r sc|l t] rs IH]; intros s orc H; simpl in *; auto.
  apply andb_prop in H. destruct H as [H1 H2]. split; [apply HP; auto|].
  destruct (stepTo c s r sc orc) as [[[[st s'] orc'] us]| | |]; auto.
  apply andb_prop in H2. destruct H2 as [H2 H3]. split; [|apply IH; auto].
  rewrite forallb_forall in H2. apply Forall_forall. intros u Hu. apply oracle_okb_sound; auto.
Qed.

Definition req_okb (s:ist) (report sched:Q) : bool :=
  qle (tState s) report && qle (tAdv s) sched &&
  (startCI s || negb (match comm_st s with StepWithEvent => true | _ => false end)
   || negb (qlt (tLow s) report && qlt report (tHigh s))).
Lemma req_okb_sound s r sc : req_okb s r sc = true -> req_ok s r sc.
Proof.
  unfold req_okb, req_ok. intros H. apply andb_prop in H. destruct H as [H H3]. apply andb_prop in H. destruct H as [H1 H2].
  b2p. repeat split; auto. intros Hc He [A B]. rewrite Hc, He in H3. simpl in H3.
  apply negb_true_iff in H3. apply andb_false_iff in H3. destruct H3; b2p; lra.
Qed.

Lemma Inv_init c t : final_le c t -> Inv c (init_state t).
Proof. unfold Inv, init_state, tState; simpl. intros H. repeat split; intros; try discriminate; auto; lra. Qed.

(** ---------------------------------------------------------------------------------------------
    Refutations: the two request hypotheses of [req_ok] beyond the documented precondition are needed. *)
(** the documented precondition only: report and scheduled time not earlier than the current time *)
Definition req_doc (s:ist) (report sched:Q) : Prop := tState s <= report /\ tState s <= sched.
Definition req_docb (s:ist) (report sched:Q) : bool := qle (tState s) report && qle (tState s) sched.
(** [req_ok] without the clause about windows localized by an earlier call *)
Definition req_nowin (s:ist) (report sched:Q) : Prop := tState s <= report /\ tAdv s <= sched.
Definition req_nowinb (s:ist) (report sched:Q) : bool := qle (tState s) report && qle (tAdv s) sched.
Lemma req_docb_sound s r sc : req_docb s r sc = true -> req_doc s r sc.
Proof. unfold req_docb, req_doc. intros H. apply andb_prop in H. destruct H. b2p. auto. Qed.
Lemma req_nowinb_sound s r sc : req_nowinb s r sc = true -> req_nowin s r sc.
Proof. unfold req_nowinb, req_nowin. intros H. apply andb_prop in H. destruct H. b2p. auto. Qed.

Definition cfg_plain : cfg :=
  {| finalT := None; allowInterp := true; everyStep := false; stepLimit := None; projInterp := true |}.

(** DESIGN 7.11 (RungeKuttaMerson on a pendulum): stepTo(1,10) leaves the advanced state at 1.017473; then
    stepTo(1.008737, 1.004368) returns ReachedReportTime at 1.008737, later than the pending scheduled event,
    with the advanced state beyond it. *)
Definition w711_reqs : list req := [StepTo 1 10; StepTo 1 10; StepTo (1008737#1000000) (1004368#1000000)].
Definition w711_orc : list outcome := [{| t1 := 1017473#1000000; ev := None; proj := true; t1att := 1017473#1000000 |}].
Definition late_report (x:callrec) : bool :=
  match cr_res x with
  | Ok (ReachedReportTime, s', _) => qlt (cr_sched x) (tState s') && qlt (cr_sched x) (tAdv s')
  | _ => false
  end.

Lemma returned_time_le_earliest_pending_refuted :
  exists c s0 reqs orc, Inv c s0 /\ reqs_sat req_doc c s0 reqs orc /\
    exists x s' us, In x (run c s0 reqs orc) /\ cr_res x = Ok (ReachedReportTime, s', us) /\
       cr_sched x < tState s' /\ cr_sched x < tAdv s'.
Proof.
  exists cfg_plain, (init_state 0), w711_reqs, w711_orc. split; [|split].
  - apply Inv_init. exact I.
  - apply (reqs_satb_sound req_doc req_docb cfg_plain req_docb_sound). vm_compute. reflexivity.
  - assert (E: existsb late_report (run cfg_plain (init_state 0) w711_reqs w711_orc) = true) by (vm_compute; reflexivity).
    apply existsb_exists in E. destruct E as (x & Hin & Hx). exists x. unfold late_report in Hx.
    destruct (cr_res x) as [[[st s'] us]| | |]; try discriminate. destruct st; try discriminate.
    apply andb_prop in Hx. destruct Hx. b2p. exists s', us. auto.
Qed.

(** A report time may be placed strictly inside an event window that an earlier call localized but has not
    reported yet: step [0,0.7] localizes an event to (0.6,0.7] while a report at 0.5 is pending; the report is
    delivered first; the next call asks for a report at 0.65 and gets ReachedEventTrigger with 0.65 inside. *)
Definition wwin_reqs : list req := [StepTo 0 100; StepTo (1#2) 100; StepTo (65#100) 100].
Definition wwin_orc : list outcome := [{| t1 := 7#10; ev := Some (6#10, 7#10); proj := true; t1att := 8#10 |}].
Definition report_in_window (x:callrec) : bool :=
  match cr_res x with
  | Ok (ReachedEventTrigger, s', _) => qlt (tLow s') (cr_report x) && qlt (cr_report x) (tHigh s')
  | _ => false
  end.

Lemma no_pending_time_inside_event_window_refuted :
  exists c s0 reqs orc, Inv c s0 /\ reqs_sat req_nowin c s0 reqs orc /\
    exists x s' us, In x (run c s0 reqs orc) /\ cr_res x = Ok (ReachedEventTrigger, s', us) /\
       tLow s' < cr_report x /\ cr_report x < tHigh s'.
Proof.
  exists cfg_plain, (init_state 0), wwin_reqs, wwin_orc. split; [|split].
  - apply Inv_init. exact I.
  - apply (reqs_satb_sound req_nowin req_nowinb cfg_plain req_nowinb_sound). vm_compute. reflexivity.
  - assert (E: existsb report_in_window (run cfg_plain (init_state 0) wwin_reqs wwin_orc) = true) by (vm_compute; reflexivity).
    apply existsb_exists in E. destruct E as (x & Hin & Hx). exists x. unfold report_in_window in Hx.
    destruct (cr_res x) as [[[st s'] us]| | |]; try discriminate. destruct st; try discriminate.
    apply andb_prop in Hx. destruct Hx. b2p. exists s', us. auto.
Qed.

(** ---------------------------------------------------------------------------------------------
    Non-vacuity: a request script satisfying every hypothesis of the clause theorems and exercising
    start-of-interval, an interpolated report, a localized event, a scheduled stop, the final-time stop,
    EndOfSimulation and the refusal afterwards. *)
Definition ex_cfg : cfg :=
  {| finalT := Some 2; allowInterp := true; everyStep := false; stepLimit := None; projInterp := true |}.
Definition ex_reqs : list req :=
  [StepTo 0 1; StepTo (1#2) 1; StepTo (9#10) 1; Reinit true false; StepTo (9#10) 1; StepTo (9#10) 1;
   StepTo 3 1; StepTo 3 5; StepTo 3 5; StepTo 3 5].
Definition ex_orc : list outcome :=
  [{| t1 := 7#10; ev := Some (6#10, 7#10); proj := true; t1att := 8#10 |}; {| t1 := 1; ev := None; proj := true; t1att := 1 |};
   {| t1 := 2; ev := None; proj := true; t1att := 2 |}].
Definition status_eqb (a b:status) : bool :=
  match a, b with
  | ReachedReportTime, ReachedReportTime | ReachedEventTrigger, ReachedEventTrigger
  | ReachedScheduledEvent, ReachedScheduledEvent | TimeHasAdvanced, TimeHasAdvanced
  | ReachedStepLimit, ReachedStepLimit | EndOfSimulation, EndOfSimulation
  | StartOfContinuousInterval, StartOfContinuousInterval => true
  | _, _ => false
  end.
Definition statuses (l:list callrec) : list (option status) :=
  map (fun x => match cr_res x with Ok (st,_,_) => Some st | _ => None end) l.

Lemma clause_hypotheses_satisfiable :
  Inv ex_cfg (init_state 0) /\ reqs_ok ex_cfg (init_state 0) ex_reqs ex_orc /\ no_restart (skipn 4 ex_reqs) /\
  statuses (run ex_cfg (init_state 0) ex_reqs ex_orc) =
    [Some StartOfContinuousInterval; Some ReachedReportTime; Some ReachedEventTrigger; Some StartOfContinuousInterval;
     Some ReachedReportTime; Some ReachedScheduledEvent; Some ReachedReportTime; Some EndOfSimulation; None].
Proof.
  split; [|split; [|split]].
  - apply Inv_init. unfold final_le; simpl. lra.
  - apply (reqs_satb_sound req_ok req_okb ex_cfg req_okb_sound). vm_compute. reflexivity.
  - simpl. repeat constructor.
  - vm_compute. reflexivity.
Qed.

(** ---------------------------------------------------------------------------------------------
    C21 (partial): which state a call returns, in terms of projection.  [advProj]/[proj] say that the step
    ending at the advanced state left attemptDAEStep through its projecting exit; that projection achieves its
    tolerance is C09's contract and is not part of this model. *)
Lemma switch_advProj c report sched steps s :
  match switch c report sched steps s with
  | SwReturn _ s' | SwAdvance s' => advProj s' = advProj s
  | SwRefused => True
  end.
Proof.
  unfold switch, after_report. destruct (comm_st s); simpl;
  repeat match goal with |- context[if ?b then _ else _] => destruct b; simpl end; auto.
Qed.

(** the advanced state at the end of a call is the end of the last internal step taken in it (or unchanged) *)
Fixpoint last_use (us:list use) : option use :=
  match us with [] => None | u :: tl => match last_use tl with None => Some u | r => r end end.

Lemma loop_advProj_last c report sched tMax : forall orc steps s st s' orc' us,
  loop c report sched tMax steps s orc = Ok (st, s', orc', us) ->
  advProj s' = match last_use us with None => advProj s | Some u => step_end_proj (u_o u) end.
Proof.
  induction orc as [|o orc IH]; intros steps s st s' orc' us H; rewrite loop_eq in H;
  pose proof (switch_advProj c report sched steps s) as SS;
  destruct (switch c report sched steps s) as [st0 s0| |s0]; try discriminate.
  - inversion H; subst; simpl; auto.
  - destruct (qeq (tState s0) report); [inversion H; subst; simpl; auto|].
    destruct (qeq (tState s0) sched); [inversion H; subst; simpl; auto|].
    destruct (qle tMax (tAdv s0)); discriminate.
  - inversion H; subst; simpl; auto.
  - destruct (qeq (tState s0) report); [inversion H; subst; simpl; auto|].
    destruct (qeq (tState s0) sched); [inversion H; subst; simpl; auto|].
    destruct (qle tMax (tAdv s0)); [discriminate|].
    destruct (loop c report sched tMax (S steps) (after_step s0 o) orc) as [[[[st2 s2] rest] us2]| | |] eqn:EL; try discriminate.
    inversion H; subst. rewrite (IH _ _ _ _ _ _ EL). simpl.
    destruct (last_use us2); auto. unfold after_step. destruct (ev o) as [[lo hi]|]; reflexivity.
Qed.

(** C21: the state integration resumes from after an event that was localized strictly inside a step (the advanced
    state produced by backUpAdvancedStateByInterpolation, which is also the state handed to event handlers) has
    passed projection -- whatever the project-interpolated-states option, whatever the per-step flag, for every
    state, request and oracle *)
Lemma state_resumed_after_backed_up_event_projected c s report sched orc st s' orc' us u :
  stepTo c s report sched orc = Ok (st, s', orc', us) -> last_use us = Some u -> backed_up (u_o u) = true ->
  advProj s' = true.
Proof.
  unfold stepTo. destruct (startCI s); intros H HL HB; [inversion H; subst; discriminate|].
  rewrite (loop_advProj_last _ _ _ _ _ _ _ _ _ _ _ H), HL. unfold step_end_proj. rewrite HB. reflexivity.
Qed.

(** an oracle answer is acceptable for C21 if its step end was backed up (always projected) or the accepted
    attempt left attemptDAEStep through the projecting exit *)
Definition step_proj_ok (o:outcome) : Prop := step_end_proj o = true.

Lemma loop_advProj c report sched tMax : forall orc steps s st s' orc' us,
  loop c report sched tMax steps s orc = Ok (st, s', orc', us) ->
  advProj s = true -> Forall step_proj_ok orc ->
  advProj s' = true /\ Forall step_proj_ok orc'.
Proof.
  induction orc as [|o orc IH]; intros steps s st s' orc' us H HA HO; rewrite loop_eq in H;
  pose proof (switch_advProj c report sched steps s) as SS;
  destruct (switch c report sched steps s) as [st0 s0| |s0]; try discriminate.
  - inversion H; subst; split; auto; congruence.
  - destruct (qeq (tState s0) report); [inversion H; subst; split; auto; congruence|].
    destruct (qeq (tState s0) sched); [inversion H; subst; split; auto; congruence|].
    destruct (qle tMax (tAdv s0)); discriminate.
  - inversion H; subst; split; auto; congruence.
  - destruct (qeq (tState s0) report); [inversion H; subst; split; auto; congruence|].
    destruct (qeq (tState s0) sched); [inversion H; subst; split; auto; congruence|].
    destruct (qle tMax (tAdv s0)); [discriminate|].
    destruct (loop c report sched tMax (S steps) (after_step s0 o) orc) as [[[[st2 s2] rest] us2]| | |] eqn:EL; try discriminate.
    inversion H; subst. inversion HO; subst. eapply IH; eauto.
    unfold after_step. destruct (ev o) as [[lo hi]|]; simpl; auto.
Qed.

Definition proj_ok (c:cfg) (x:callrec) : Prop :=
  match cr_res x with
  | Ok (_, s', _) => (interp s' = false -> advProj s' = true) /\ (interp s' = true -> intProj s' = projInterp c)
  | _ => True
  end.

Lemma every_returned_state_projected_partial c : forall reqs s orc,
  Inv c s -> reqs_ok c s reqs orc -> advProj s = true -> Forall step_proj_ok orc ->
  Forall (proj_ok c) (run c s reqs orc).
Proof.
  unfold reqs_ok; induction reqs as [|[r sc|l t] rs IH]; intros s orc HI HR HA HO; simpl in *; auto.
  - destruct HR as [HR1 HR2].
    destruct (stepTo c s r sc orc) as [[[[st s'] orc'] us]| | |] eqn:E.
    + destruct HR2 as [HU HR2]. pose proof (stepTo_spec _ _ _ _ _ _ _ _ _ E HI HR1 HU) as P.
      assert (HP: advProj s' = true /\ Forall step_proj_ok orc').
      { unfold stepTo in E. destruct (startCI s); [inversion E; subst; simpl; auto|]. eapply loop_advProj; eauto. }
      destruct HP as [HP1 HP2]. destruct P as (PI & _).
      constructor; [unfold proj_ok; simpl; split; auto; unfold Inv in PI; tauto|]. apply IH; auto.
    + constructor; [exact I|]. apply IH; auto.
    + constructor; [exact I|constructor].
    + constructor; [exact I|constructor].
  - apply IH; auto. apply reinit_Inv; auto. unfold reinit. destruct l, t; simpl; auto.
Qed.

Lemma interp_without_projection_only_when_disabled c reqs s orc x st s' us :
  Inv c s -> reqs_ok c s reqs orc -> In x (run c s reqs orc) -> cr_res x = Ok (st, s', us) ->
  interp s' = true -> intProj s' = false -> projInterp c = false.
Proof.
  intros HI HR Hin E Hi Hp. pose proof (run_all_ok c reqs s orc HI HR) as A. rewrite Forall_forall in A.
  specialize (A x Hin). unfold call_ok in A. rewrite E in A. destruct A as (PI & _). unfold Inv in PI.
  destruct PI as (_ & _ & _ & _ & P & _). rewrite <- (P Hi). exact Hp.
Qed.

Lemma c21_hypotheses_satisfiable :
  Inv ex_cfg (init_state 0) /\ reqs_ok ex_cfg (init_state 0) ex_reqs ex_orc /\ advProj (init_state 0) = true /\
  Forall step_proj_ok ex_orc.
Proof.
  destruct clause_hypotheses_satisfiable as (A & B & _). split; [exact A|]. split; [exact B|]. split; [reflexivity|].
  unfold ex_orc. repeat constructor.
Qed.

Lemma c21_backed_up_example : existsb backed_up ex_orc = true.
Proof. vm_compute. reflexivity. Qed.
