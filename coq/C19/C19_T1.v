(** C19: the part of the oracle contract that follows from the step-size selection arithmetic of
    AbstractIntegratorRep::takeOneStep (over the reals; the float instance of the same definition is
    compared with the recorded values on every run). *)
From Coq Require Import Reals Lra.
Require Import Num C19_Model.
Local Open Scope R_scope.

Lemma select_t1_cases t0 tMax h :
  (tMax < t0 + 95/100*h /\ select_t1 ROps t0 tMax h = (tMax, true)) \/
  (t0 + 95/100*h <= tMax /\ t0 + 1001/1000*h < tMax /\ select_t1 ROps t0 tMax h = (t0 + h, false)) \/
  (t0 + 95/100*h <= tMax /\ tMax <= t0 + 1001/1000*h /\ select_t1 ROps t0 tMax h = (tMax, false)).
Proof.
  unfold select_t1, c095, c1001; simpl.
  destruct (Rltb tMax (t0 + IZR 95 / IZR 100 * h)) eqn:E1.
  - left. apply Rltb_true in E1. split; auto; lra.
  - apply Rltb_false in E1. destruct (Rltb (t0 + IZR 1001 / IZR 1000 * h) tMax) eqn:E2.
    + right; left. apply Rltb_true in E2. repeat split; auto; lra.
    + right; right. apply Rltb_false in E2. repeat split; auto; lra.
Qed.

(** t0 < t1 <= tMax whenever the step size is positive and there is room to advance *)
Lemma oracle_contract_used_is_what_takeOneStep_ensures_partial t0 tMax h :
  0 < h -> t0 < tMax -> t0 < fst (select_t1 ROps t0 tMax h) <= tMax.
Proof.
  intros Hh Ht. destruct (select_t1_cases t0 tMax h) as [[A ->]|[[A [B ->]]|[A [B ->]]]]; simpl; lra.
Qed.

(** with no room to advance the selected t1 is tMax <= t0, which the SimTK_ERRCHK right after turns into
    the exception "Unable to advance time" (StepFailed in the model) *)
Lemma select_t1_no_room t0 tMax h : 0 < h -> tMax <= t0 -> fst (select_t1 ROps t0 tMax h) = tMax.
Proof.
  intros Hh Ht. destruct (select_t1_cases t0 tMax h) as [[A ->]|[[A [B ->]]|[A [B ->]]]]; simpl; lra.
Qed.

(** "hWasArtificiallyLimited" is set exactly when tMax cuts more than 5% off the wanted step *)
Lemma select_t1_limited_iff t0 tMax h : snd (select_t1 ROps t0 tMax h) = true <-> tMax < t0 + 95/100*h.
Proof.
  destruct (select_t1_cases t0 tMax h) as [[A ->]|[[A [B ->]]|[A [B ->]]]]; simpl; split; intros; try discriminate; auto; lra.
Qed.
