(** C20 — the step-size controller AbstractIntegratorRep::adjustStepSize and the retry loop of takeOneStep,
    over the reals with std::pow := Rpower. *)
From Coq Require Import ZArith List Reals Lra Lia Bool.
Require Import Num C20_Model.
Import ListNotations.
Open Scope R_scope.

Definition adjR (fin:bool) (err:R) (p:Z) (limited:bool) (acc cur:R) (umin umax:option R) : bool * R :=
  adjust_core ROps Rpower fin err p limited acc cur umin umax.

Lemma nfinite_R x : nfinite ROps x = true.
Proof.
  cbv [nfinite ROps nleb nsub n0]. replace (x - x) with 0 by ring.
  replace (Rleb 0 0) with true by (symmetry; apply Rleb_true; lra). reflexivity.
Qed.
Lemma adjust_R err p limited acc cur umin umax :
  adjust ROps Rpower err p limited acc cur umin umax = adjR true err p limited acc cur umin umax.
Proof. unfold adjust, adjR. now rewrite nfinite_R. Qed.

(** facts about x^(1/p) *)
Lemma Rpower_pos x y : 0 < Rpower x y.
Proof. unfold Rpower. apply exp_pos. Qed.
Lemma Rpower_lt1 x y : 0 < x < 1 -> 0 < y -> Rpower x y < 1.
Proof.
  intros [H0 H1] Hy. unfold Rpower. rewrite <- exp_0. apply exp_increasing.
  assert (ln x < 0) by (rewrite <- ln_1; apply ln_increasing; lra). nra.
Qed.
Lemma Rpower_ge1 x y : 1 <= x -> 0 < y -> 1 <= Rpower x y.
Proof.
  intros H1 Hy. unfold Rpower. rewrite <- exp_0.
  assert (0 <= ln x). { destruct H1 as [H1| <-]; [left; rewrite <- ln_1; apply ln_increasing; lra | rewrite ln_1; lra]. }
  assert (0 <= y * ln x) by nra.
  destruct H0 as [H0|H0].
  - left. apply exp_increasing. exact H0.
  - rewrite <- H0. right. reflexivity.
Qed.
Lemma inv_order_pos p : (1 <= p)%Z -> 0 < 1 / IZR p.
Proof. intros H. apply IZR_le in H. apply Rdiv_lt_0_compat; lra. Qed.

Ltac no_if t := lazymatch t with context[if _ then _ else _] => fail | _ => idtac end.
Ltac bd := repeat (match goal with
  | |- context[Rltb ?a ?b] => no_if a; no_if b; let H := fresh "B" in
        destruct (Rltb a b) eqn:H; [apply Rltb_true in H | apply Rltb_false in H]
  | |- context[Rleb ?a ?b] => no_if a; no_if b; let H := fresh "B" in
        destruct (Rleb a b) eqn:H; [apply Rleb_true in H | apply Rleb_false in H]
  end; cbv iota beta; cbn [negb andb orb fst snd]).
Ltac open_adj := cbv [adjR adjust_core nmin nmax' ROps n0 n1 nadd nsub nmul ndiv nofZ nleb nltb].

(** adjustStepSize = tail (clamps, user limits, verdict) after head (first guess and the two hysteresis rules) *)
Definition head (err:R) (p:Z) (limited:bool) (acc cur:R) : R :=
  let new0 := if Rleb err 0 && Rleb 0 err then 5*cur else 9/10*cur*Rpower (acc/err) (1/IZR p) in
  let new1 := if Rltb cur new0 then (if limited || Rltb new0 (12/10*cur) then cur else new0) else new0 in
  if Rltb new1 cur then (if Rleb err acc then cur else (if Rltb (9/10*cur) new1 then 9/10*cur else new1)) else new1.
Definition tail (cur:R) (umin umax:option R) (n2:R) : bool * R :=
  let new3 := if Rltb (5*cur) n2 then 5*cur else n2 in
  let new4 := if Rltb new3 (1/10*cur) then 1/10*cur else new3 in
  let new5 := match umin with Some m => if Rltb new4 m then m else new4 | None => new4 end in
  let new6 := match umax with Some m => if Rltb m new5 then m else new5 | None => new5 end in
  (Rleb cur new6, new6).
Lemma adj_split err p limited acc cur umin umax :
  adjR true err p limited acc cur umin umax = tail cur umin umax (head err p limited acc cur).
Proof. reflexivity. Qed.

Section Adjust.
Variables (err:R) (p:Z) (limited:bool) (acc cur:R).
Hypothesis Hcur : 0 < cur.
Hypothesis Hacc : 0 < acc.
Hypothesis Herr : 0 <= err.
Hypothesis Hp : (1 <= p)%Z.

(* the first guess 0.9 h (acc/err)^(1/p), abstracted: w = cur * (acc/err)^(1/p) *)
Lemma guess_facts : let w := cur * Rpower (acc/err) (1 / IZR p) in
  0 < w /\ (0 < err -> err <= acc -> cur <= w) /\ (acc < err -> w < cur).
Proof.
  intros w. pose proof (Rpower_pos (acc/err) (1 / IZR p)) as Hpos.
  pose proof (inv_order_pos p Hp) as Hy. unfold w. repeat split.
  - nra.
  - intros He Hle. assert (1 <= acc/err). { apply Rmult_le_reg_r with err; [lra|]. unfold Rdiv. rewrite Rmult_assoc, Rinv_l; lra. }
    pose proof (Rpower_ge1 _ _ H Hy). nra.
  - intros Hgt. assert (0 < acc/err < 1).
    { split; [apply Rdiv_lt_0_compat; lra|]. apply Rmult_lt_reg_r with err; [lra|]. unfold Rdiv. rewrite Rmult_assoc, Rinv_l; lra. }
    pose proof (Rpower_lt1 _ _ H Hy). nra.
Qed.

(** what the head delivers: with the error test passed, the old step or a step grown by >= 1.2 (never when the
    step was artificially limited); with the error test failed, the guess itself, which is below 0.9 h *)
Lemma head_spec : let n2 := head err p limited acc cur in
  (err <= acc -> n2 = cur \/ (12/10*cur <= n2 /\ limited = false)) /\
  (acc < err -> n2 = 9/10*cur*Rpower (acc/err) (1 / IZR p) /\ 0 < n2 < 9/10*cur).
Proof.
  pose proof guess_facts as (W0 & W1 & W2); cbv zeta in W0, W1, W2.
  cbv [head]. cbv zeta.
  replace (9 / 10 * cur * Rpower (acc / err) (1 / IZR p)) with (9 / 10 * (cur * Rpower (acc / err) (1 / IZR p))) by ring.
  set (w := cur * Rpower (acc / err) (1 / IZR p)) in *; clearbody w.
  split.
  - intros Hle. destruct (Req_dec err 0) as [E0|E0].
    + subst err. replace (Rleb 0 0) with true by (symmetry; apply Rleb_true; lra). cbn [andb].
      destruct limited; cbn [orb]; bd; first [left; lra | right; split; [lra|reflexivity] | exfalso; lra].
    + assert (He: 0 < err) by lra. specialize (W1 He Hle).
      replace (Rleb err 0) with false by (symmetry; apply Rleb_false; lra). cbn [andb].
      destruct limited; cbn [orb]; bd; first [left; lra | right; split; [lra|reflexivity] | exfalso; lra].
  - intros Hgt. specialize (W2 Hgt).
    replace (Rleb err 0) with false by (symmetry; apply Rleb_false; lra). cbn [andb].
    destruct limited; cbn [orb]; bd; first [split; lra | exfalso; lra].
Qed.

Variables (umin umax:option R).
Notation res := (adjR true err p limited acc cur umin umax).

Ltac lims := repeat match goal with
  | H : forall a, ?u = Some a -> _ |- _ => destruct u as [?|]; [specialize (H _ eq_refl) | clear H]
  | H : forall a b, ?u = Some a -> ?v = Some b -> _ |- _ =>
      destruct u as [?|]; destruct v as [?|]; try specialize (H _ _ eq_refl eq_refl); try clear H
  end.
(* case split on the error test, head replaced by a variable n2 with the facts of head_spec *)
Ltac start :=
  rewrite adj_split; pose proof head_spec as [SA SB]; cbv zeta in SA, SB;
  pose proof (Rpower_pos (acc/err) (1 / IZR p)) as PP;
  set (n2 := head err p limited acc cur) in *; clearbody n2;
  set (P := Rpower (acc/err) (1 / IZR p)) in *; clearbody P;
  cbv [tail]; cbv zeta.
Ltac cases SA SB := destruct (Rle_dec err acc) as [Hle|Hgt];
  [ destruct (SA Hle) as [E|[E El]]; clear SA SB | apply Rnot_le_lt in Hgt; destruct (SB Hgt) as [E [E1 E2]]; clear SA SB ].

(** the new step stays within [0.1 h, 5 h] (documented MinShrink / MaxGrow) whenever the user limits allow it,
    in particular when no limits are set or when min <= h <= max *)
Lemma adjust_bounded :
  (forall b, umax = Some b -> 1/10*cur <= b) -> (forall a, umin = Some a -> a <= 5*cur) ->
  1/10*cur <= snd res <= 5*cur.
Proof. intros Hb Ha. start. clear SA SB. lims; destruct umin, umax; bd; lra. Qed.

(** user limits win (max applied last) *)
Lemma adjust_respects_user_limits :
  (forall a b, umin = Some a -> umax = Some b -> a <= b) ->
  (forall a, umin = Some a -> a <= snd res) /\ (forall b, umax = Some b -> snd res <= b).
Proof.
  intros Hab. start. clear SA SB. destruct umin as [a|], umax as [b|]; try specialize (Hab _ _ eq_refl eq_refl);
  (split; intros ? [= <-]); bd; lra.
Qed.

(** the new step is positive (so the retry loop keeps a positive step) *)
Lemma adjust_positive : (forall b, umax = Some b -> 0 < b) -> 0 < snd res.
Proof. intros Hb. start. clear SA SB. lims; destruct umin, umax; bd; lra. Qed.

(** success is exactly "new step >= old step" ... *)
Lemma adjust_success_iff_not_smaller : fst res = true <-> cur <= snd res.
Proof. rewrite adj_split. cbv [tail]. cbn [fst snd]. apply Rleb_true. Qed.

(** never shrinks, and reports success, when the error estimate met the accuracy *)
Lemma adjust_never_shrinks_when_accurate :
  err <= acc -> (forall b, umax = Some b -> cur <= b) -> fst res = true /\ cur <= snd res.
Proof.
  intros Hle Hb. assert (cur <= snd res); [|split; [apply adjust_success_iff_not_smaller|]; assumption].
  start. destruct (SA Hle) as [E|[E El]]; clear SA SB; lims; destruct umin, umax; bd; lra.
Qed.

(** ... which happens exactly when the error test passed or the step is already at the user's minimum *)
Lemma adjust_success_iff :
  (forall b, umax = Some b -> cur <= b) ->
  (fst res = true <-> (err <= acc \/ exists a, umin = Some a /\ cur <= a)).
Proof.
  intros Hb. split.
  - intros Hs. destruct (Rle_dec err acc) as [|Hn]; [now left|right].
    apply Rnot_le_lt in Hn. apply adjust_success_iff_not_smaller in Hs. revert Hs.
    start. destruct (SB Hn) as [E [E1 E2]]; clear SA SB. lims; destruct umin as [a|], umax; bd;
    intros Hs; try (exfalso; lra); try (exists a; split; [reflexivity|lra]).
  - intros [Hle|(a & Ea & Hca)].
    + apply adjust_never_shrinks_when_accurate; auto.
    + apply adjust_success_iff_not_smaller. start. clear SA SB. rewrite Ea. lims; destruct umax; bd; lra.
Qed.

(** a rejected step is retried with a step at most 0.9 h (or the user's minimum) *)
Lemma adjust_reject_shrinks :
  (forall b, umax = Some b -> cur <= b) ->
  fst res = false -> snd res < cur /\ (snd res <= 9/10*cur \/ umin = Some (snd res)).
Proof.
  intros Hb Hs. assert (Hlt: snd res < cur).
  { apply Rnot_le_lt. intros Hc. apply adjust_success_iff_not_smaller in Hc. congruence. }
  split; [exact Hlt|]. revert Hlt. clear Hs.
  start. cases SA SB; lims; destruct umin, umax; bd; intros Hlt; first [left; lra | right; reflexivity | exfalso; lra].
Qed.

(** a step that was cut short by a report/event time never makes the controller grow the step *)
Lemma adjust_limited_never_grows :
  limited = true -> (forall a, umin = Some a -> a <= cur) -> snd res <= cur.
Proof. intros Hl Ha. start. cases SA SB; try congruence; lims; destruct umin, umax; bd; lra. Qed.

(** growth happens only by at least the hysteresis factor 1.2 (unless the user's maximum cuts it) *)
Lemma adjust_growth_hysteresis :
  cur < snd res -> (forall a, umin = Some a -> a <= cur) -> 12/10*cur <= snd res \/ umax = Some (snd res).
Proof.
  intros Hg Ha. revert Hg. start. cases SA SB; lims; destruct umin, umax; bd; intros Hg;
  first [left; lra | right; reflexivity | exfalso; lra].
Qed.

(** a perfect step (err = 0) grows by MaxGrow = 5 when nothing limits it *)
Lemma adjust_zero_error : err = 0 -> limited = false -> umin = None -> umax = None -> res = (true, 5*cur).
Proof.
  intros E Hl Emin Emax. rewrite Emin, Emax, Hl, E. open_adj. cbn [negb orb].
  replace (Rleb 0 0) with true by (symmetry; apply Rleb_true; lra). cbn [andb].
  bd; try (exfalso; lra); f_equal; lra.
Qed.

(** the regime the controller is designed for (rejected step, no clamp active): the new step is
    0.9 h (acc/err)^(1/p), and IF the error scales as h^p the next error is 0.9^p * acc *)
Lemma adjust_targets_accuracy :
  acc < err -> umin = None -> umax = None -> 1/10 <= 9/10 * Rpower (acc/err) (1 / IZR p) ->
  snd res = 9/10 * cur * Rpower (acc/err) (1 / IZR p) /\
  err * Rpower (snd res / cur) (IZR p) = Rpower (9/10) (IZR p) * acc.
Proof.
  intros Hgt Emin Emax Hclamp.
  assert (E: snd res = 9/10 * cur * Rpower (acc/err) (1 / IZR p)).
  { rewrite Emin, Emax. start. destruct (SB Hgt) as [E [E1 E2]]; clear SA SB.
    assert (1/10*cur <= n2) by (rewrite E; nra). bd; lra. }
  split; [exact E|]. rewrite E.
  replace (9 / 10 * cur * Rpower (acc / err) (1 / IZR p) / cur) with (9/10 * Rpower (acc / err) (1 / IZR p)) by (field; lra).
  pose proof (Rpower_pos (acc/err) (1 / IZR p)).
  rewrite <- Rpower_mult_distr by lra. rewrite Rpower_mult.
  replace (1 / IZR p * IZR p) with 1 by (field; apply IZR_le in Hp; lra).
  rewrite Rpower_1 by (apply Rdiv_lt_0_compat; lra). field. lra.
Qed.
End Adjust.

(** non-finite error norm (NaN or +Infinity: isFinite false, err <= acc false): shrink by MinShrink = 0.1, reject *)
Lemma adjust_nonfinite_error err p limited acc cur : 0 < cur -> Rleb err acc = false ->
  adjR false err p limited acc cur None None = (false, 1/10*cur).
Proof.
  intros Hc Hle. open_adj. cbn [negb]. rewrite Hle. bd; try (exfalso; lra); f_equal; try lra;
  try (apply Rleb_false; lra); try (symmetry; apply Rleb_false; lra).
Qed.

(** ------------------------------------------------------------------------------------------
    the retry loop of takeOneStep: a step is accepted only if it converged with error norm <= accuracy,
    or the step size in use was already at (or below) the user's minimum *)
Section Take.
Context {A:Type}.
Variable attempt : R -> bool * R * Z * A.
Variables (inf t0 tMax acc : R) (umin umax : option R).
Hypothesis Hacc : 0 < acc.
Hypothesis Hinf : acc < inf.
Hypothesis Hatt : forall t, let '(_, en, ord, _) := attempt t in 0 <= en /\ (1 <= ord)%Z.

Lemma take_step_accepts_only_accurate fuel : forall cur nfail res t1 h' nf,
  0 < cur -> (forall b, umax = Some b -> cur <= b) -> (forall a b, umin = Some a -> umax = Some b -> a <= b) ->
  take_step ROps Rpower fuel attempt inf t0 tMax acc cur umin umax nfail = Some (res, t1, h', nf) ->
  exists c conv en ord, 0 < c /\ fst (sel_t1 ROps t0 tMax c) = t1 /\ attempt t1 = (conv, en, ord, res) /\
    ((conv = true /\ en <= acc) \/ (exists a, umin = Some a /\ c <= a)).
Proof.
  induction fuel as [|fuel IH]; intros cur nfail res t1 h' nf Hc Hb Hab; [discriminate|].
  cbn [take_step]. destruct (sel_t1 ROps t0 tMax cur) as [t1' lim] eqn:Es.
  pose proof (Hatt t1') as Ht. destruct (attempt t1') as [[[conv en] ord] r] eqn:Ea. destruct Ht as [Hen Hord].
  rewrite adjust_R.
  set (e := if conv then en else inf).
  assert (He : 0 <= e) by (unfold e; destruct conv; lra).
  destruct (adjR true e ord lim acc cur umin umax) as [ok cur'] eqn:Er.
  destruct ok.
  - intros [= <- <- <- <-]. exists cur, conv, en, ord. rewrite Es. cbn [fst]. repeat split; auto.
    pose proof (proj1 (adjust_success_iff e ord lim acc cur Hc Hacc He Hord umin umax Hb)) as Hs.
    rewrite Er in Hs. specialize (Hs eq_refl). destruct Hs as [Hle|Hm]; [left|right; exact Hm].
    unfold e in Hle. destruct conv; [split; auto | lra].
  - intros Hrec. apply IH in Hrec; auto.
    + pose proof (adjust_positive e ord lim acc cur Hc Hacc He Hord umin umax) as Hpos.
      rewrite Er in Hpos. apply Hpos. intros b Eb. specialize (Hb b Eb). lra.
    + intros b Eb. pose proof (adjust_respects_user_limits e ord lim acc cur Hc Hacc He Hord umin umax Hab) as [_ Hhi].
      specialize (Hhi b Eb). rewrite Er in Hhi. cbn [snd] in Hhi.
      pose proof (adjust_reject_shrinks e ord lim acc cur Hc Hacc He Hord umin umax Hb) as Hr. rewrite Er in Hr.
      destruct (Hr eq_refl) as [Hlt _]. cbn [snd] in Hlt. specialize (Hb b Eb). lra.
Qed.
End Take.
