(** C20 — executable model of the one-step formulas of simbody's explicit integrators, of the
    step-size controller and of the cubic Hermite interpolation (DESIGN 5 C20).

    Hand transcription (statement by statement, same operation order and association) of
      SimTKmath/Integrators/src/RungeKutta2Integrator.cpp        attemptODEStep     -> [rk2_step]
      SimTKmath/Integrators/src/RungeKutta3Integrator.cpp        attemptODEStep     -> [rk3_step]
      SimTKmath/Integrators/src/RungeKuttaMersonIntegrator.cpp   attemptODEStep     -> [rkm_step]
      SimTKmath/Integrators/src/RungeKuttaFeldbergIntegrator.cpp attemptODEStep     -> [rkf_step]
      SimTKmath/Integrators/src/ExplicitEulerIntegrator.cpp      attemptDAEStep     -> [euler_step]
      SimTKmath/Integrators/src/SemiExplicitEulerIntegrator.cpp  attemptDAEStep     -> [sxe_step]
      SimTKmath/Integrators/src/SemiExplicitEuler2Integrator.cpp attemptDAEStep     -> [sxe2_step]
      SimTKmath/Integrators/src/VerletIntegrator.cpp             attemptDAEStep     -> [verlet_step]
      SimTKmath/Integrators/src/IntegratorRep.h                  interpolateOrder3  -> [hermite]
                                                                 calcRelativeScaling, calcErrorNorm (RMS / infinity norm) -> [rel_scale], [err_norm], [err_norm_inf]
      SimTKmath/Integrators/src/AbstractIntegratorRep.cpp        adjustStepSize     -> [adjust]
                                                                 takeOneStep (retry loop, no events) -> [take_step]
    for systems without constraints and without prescribed motion (projection and prescribe calls do nothing).
    The tie to the compiled code is the correspondence run of checks/C20.py (extracted float instance against
    the real integrators).  No proofs here.

    The right-hand side of the ODE is an argument [f].  Scalars are a [NumOps T]; state vectors are an
    abstract [VecOps T V]: theorems use V := R and V := I -> R (any index type I); the correspondence uses
    V := list T ([VL]). *)
From Coq Require Import ZArith List Bool.
Require Import Num.
Import ListNotations.

Record VecOps (T V:Type) := mkVO {
  vadd : V->V->V; vsub : V->V->V; vscale : T->V->V; vabs : V->V }.
Arguments vadd {T V}. Arguments vsub {T V}. Arguments vscale {T V}. Arguments vabs {T V}.

(** scalar instance *)
Definition VS {T} (O:NumOps T) : VecOps T T := mkVO T T (nadd O) (nsub O) (nmul O) (nabs O).
(** function space I -> T, componentwise *)
Definition VF {T} (O:NumOps T) (I:Type) : VecOps T (I->T) :=
  mkVO T (I->T) (fun a b i => nadd O (a i) (b i)) (fun a b i => nsub O (a i) (b i))
       (fun s a i => nmul O s (a i)) (fun a i => nabs O (a i)).
(** lists, componentwise (run by the correspondence) *)
Fixpoint map2 {A} (g:A->A->A) (l1 l2:list A) : list A :=
  match l1, l2 with a::l1', b::l2' => g a b :: map2 g l1' l2' | _, _ => [] end.
Definition VL {T} (O:NumOps T) : VecOps T (list T) :=
  mkVO T (list T) (map2 (nadd O)) (map2 (nsub O)) (fun s => map (nmul O s)) (map (nabs O)).

Section Steps.
Context {T V:Type} (O:NumOps T) (VO:VecOps T V).
Local Notation "a + b" := (nadd O a b).
Local Notation "a - b" := (nsub O a b).
Local Notation "a * b" := (nmul O a b).
Local Notation "a / b" := (ndiv O a b).
Local Notation "x +^ y" := (vadd VO x y) (at level 50, left associativity).
Local Notation "x -^ y" := (vsub VO x y) (at level 50, left associativity).
Local Notation "s *^ x" := (vscale VO s x) (at level 40, left associativity).
Local Notation Z2 := (nofZ O).

Variable f : T -> V -> V.      (* ydot = f(t,y): setAdvancedStateAndRealizeDerivatives(t,y); getYDot() *)

(** RungeKutta2IntegratorRep::attemptODEStep; returns (y1, y1err); errOrder = 2 *)
Definition rk2_step (t0 t1:T) (y0 f0:V) : V * V :=
  let h  := t1 - t0 in
  let f1 := f t1 (y0 +^ h *^ f0) in
  let y1 := y0 +^ (h / Z2 2) *^ (f0 +^ f1) in
  (y1, vabs VO (y1 -^ (y0 +^ h *^ f1))).

(** RungeKutta3IntegratorRep::attemptODEStep; errOrder = 3 *)
Definition rk3_step (t0 t1:T) (y0 f0:V) : V * V :=
  let h  := t1 - t0 in
  let f1 := f (t0 + h / Z2 2) (y0 +^ (h / Z2 2) *^ f0) in
  let f2 := f t1 (y0 +^ h *^ (Z2 2 *^ f1 -^ f0)) in
  let y1 := y0 +^ (h / Z2 6) *^ (f0 +^ Z2 4 *^ f1 +^ f2) in
  (y1, vabs VO (y1 -^ (y0 +^ h *^ f1))).

(** RungeKuttaMersonIntegratorRep::attemptODEStep; errOrder = 4 *)
Definition rkm_step (t0 t1:T) (y0 f0:V) : V * V :=
  let h  := t1 - t0 in
  let f1 := f (t0 + h / Z2 3) (y0 +^ (h / Z2 3) *^ f0) in
  let f2 := f (t0 + h / Z2 3) (y0 +^ (h / Z2 6) *^ (f0 +^ f1)) in
  let f3 := f (t0 + h / Z2 2) (y0 +^ (h / Z2 8) *^ (f0 +^ Z2 3 *^ f2)) in
  let ysave := y0 +^ (h / Z2 2) *^ (f0 -^ Z2 3 *^ f2 +^ Z2 4 *^ f3) in
  let f4 := f t1 ysave in
  let y1 := y0 +^ (h / Z2 6) *^ (f0 +^ Z2 4 *^ f3 +^ f4) in
  (y1, (Z2 2 / Z2 10) *^ vabs VO (y1 -^ ysave)).

(** RungeKuttaFeldbergIntegratorRep::attemptODEStep; errOrder = 4; the constants as the source writes them *)
Definition qz (a b:Z) : T := Z2 a / Z2 b.
Definition rkf_step (t0 t1:T) (y0 f0:V) : V * V :=
  let C21 := qz 1 4 in let C22 := qz 1 4 in
  let C31 := qz 3 8 in let C32 := qz 3 32 in let C33 := qz 9 32 in
  let C41 := qz 12 13 in let C42 := qz 1932 2197 in let C43 := qz (-7200) 2197 in let C44 := qz 7296 2197 in
  let C51 := Z2 1 in let C52 := qz 439 216 in let C53 := Z2 (-8) in let C54 := qz 3680 513 in let C55 := qz (-845) 4104 in
  let C61 := qz 1 2 in let C62 := qz (-8) 27 in let C63 := Z2 2 in let C64 := qz (-3544) 2565 in
  let C65 := qz 1859 4104 in let C66 := qz (-11) 40 in
  let dCY1 := qz 25 216 in let dCY2 := qz 1408 2565 in let dCY3 := qz 2197 4104 in let dCY4 := qz (-1) 5 in
  let CE1 := qz 16 135 - dCY1 in let CE2 := qz 6656 12825 - dCY2 in let CE3 := qz 28561 56430 - dCY3 in
  let CE4 := qz (-9) 50 - dCY4 in let CE5 := qz 2 55 in
  let h  := t1 - t0 in
  let k0 := f (t0 + h * C21) (y0 +^ h * C22 *^ f0) in
  let k1 := f (t0 + h * C31) (y0 +^ h * C32 *^ f0 +^ h * C33 *^ k0) in
  let k2 := f (t0 + h * C41) (y0 +^ h * C42 *^ f0 +^ h * C43 *^ k0 +^ h * C44 *^ k1) in
  let k3 := f (t0 + h * C51) (y0 +^ h * C52 *^ f0 +^ h * C53 *^ k0 +^ h * C54 *^ k1 +^ h * C55 *^ k2) in
  let k4 := f (t0 + h * C61) (y0 +^ h * C62 *^ f0 +^ h * C63 *^ k0 +^ h * C64 *^ k1 +^ h * C65 *^ k2 +^ h * C66 *^ k3) in
  let y1 := y0 +^ h * dCY1 *^ f0 +^ h * dCY2 *^ k1 +^ h * dCY3 *^ k2 +^ h * dCY4 *^ k3 in
  (y1, h * CE1 *^ f0 +^ h * CE2 *^ k1 +^ h * CE3 *^ k2 +^ h * CE4 *^ k3 +^ h * CE5 *^ k4).

(** ExplicitEulerIntegratorRep::attemptDAEStep (no constraints); errOrder = 2.  Also returns f1 = f(t1,y1). *)
Definition euler_step (t0 t1:T) (y0 f0:V) : V * V :=
  let h  := t1 - t0 in
  let y1 := y0 +^ h *^ f0 in
  let f1 := f t1 y1 in
  (y1, y1 -^ (y0 +^ (h / Z2 2) *^ (f0 +^ f1))).

(** IntegratorRep::interpolateOrder3 *)
Definition hermite (t0:T) (y0 f0:V) (t1:T) (y1 f1:V) (t:T) : V :=
  let h := t1 - t0 in let d := (t - t0) / h in
  let cy1 := d * d * (Z2 3 - Z2 2 * d) in let cy0 := Z2 1 - cy1 in
  let hdd1 := h * d * (d - Z2 1) in let cf1 := hdd1 * d in let cf0 := cf1 - hdd1 in
  cy0 *^ y0 +^ cy1 *^ y1 +^ cf0 *^ f0 +^ cf1 *^ f1.

(** generic explicit Runge-Kutta step of a Butcher tableau: rows (c_i, [a_i1..a_i,i-1]), weights b, embedded weights bh.
    Stage i: Y_i = y0 + sum_j (h*a_ij) k_j ; k_i = f (t0 + c_i*h) Y_i.  Result (y0 + sum (h*b_i) k_i, y0 + sum (h*bh_i) k_i). *)
Fixpoint axpys (acc:V) (h:T) (cs:list T) (ks:list V) : V :=
  match cs, ks with
  | c::cs', k::ks' => axpys (acc +^ (h * c) *^ k) h cs' ks'
  | _, _ => acc
  end.
Fixpoint rk_stages (t0 h:T) (y0:V) (rows:list (T * list T)) (ks:list V) : list V :=
  match rows with
  | [] => ks
  | (c, a) :: rest => rk_stages t0 h y0 rest (ks ++ [f (t0 + c * h) (axpys y0 h a ks)])
  end.
Record tableau := mkTab { t_rows : list (T * list T); t_b : list T; t_bh : list T }.
Definition rk_generic (tb:tableau) (t0 h:T) (y0:V) : V * V :=
  let ks := rk_stages t0 h y0 (t_rows tb) [] in
  (axpys y0 h (t_b tb) ks, axpys y0 h (t_bh tb) ks).

(** the tableaux read off the code (as the header comments of the sources print them) *)
Definition rk2_tab : tableau := mkTab [(Z2 0, []); (Z2 1, [Z2 1])] [qz 1 2; qz 1 2] [Z2 0; Z2 1].
Definition rk3_tab : tableau :=
  mkTab [(Z2 0, []); (qz 1 2, [qz 1 2]); (Z2 1, [Z2 (-1); Z2 2])] [qz 1 6; qz 2 3; qz 1 6] [Z2 0; Z2 1; Z2 0].
Definition rkm_tab : tableau :=
  mkTab [(Z2 0, []); (qz 1 3, [qz 1 3]); (qz 1 3, [qz 1 6; qz 1 6]); (qz 1 2, [qz 1 8; Z2 0; qz 3 8]);
         (Z2 1, [qz 1 2; Z2 0; qz (-3) 2; Z2 2])]
        [qz 1 6; Z2 0; Z2 0; qz 2 3; qz 1 6] [qz 1 10; Z2 0; qz 3 10; qz 2 5; qz 1 5].
Definition rkf_tab : tableau :=
  mkTab [(Z2 0, []); (qz 1 4, [qz 1 4]); (qz 3 8, [qz 3 32; qz 9 32]);
         (qz 12 13, [qz 1932 2197; qz (-7200) 2197; qz 7296 2197]);
         (Z2 1, [qz 439 216; Z2 (-8); qz 3680 513; qz (-845) 4104]);
         (qz 1 2, [qz (-8) 27; Z2 2; qz (-3544) 2565; qz 1859 4104; qz (-11) 40])]
        [qz 25 216; Z2 0; qz 1408 2565; qz 2197 4104; qz (-1) 5; Z2 0]
        [qz 16 135; Z2 0; qz 6656 12825; qz 28561 56430; qz (-9) 50; qz 2 55].
End Steps.

(** ---------------------------------------------------------------------------------------------
    Methods that treat q, u, z separately (qdot = N(q) u).  [nmulN q u] is System::multiplyByN,
    [facc t q u z] returns (udot, zdot) (realize through Acceleration). *)
Section QUZ.
Context {T V:Type} (O:NumOps T) (VO:VecOps T V).
Local Notation "a + b" := (nadd O a b).
Local Notation "a - b" := (nsub O a b).
Local Notation "a * b" := (nmul O a b).
Local Notation "a / b" := (ndiv O a b).
Local Notation "x +^ y" := (vadd VO x y) (at level 50, left associativity).
Local Notation "x -^ y" := (vsub VO x y) (at level 50, left associativity).
Local Notation "s *^ x" := (vscale VO s x) (at level 40, left associativity).
Local Notation Z2 := (nofZ O).
Variable nmulN : V -> V -> V.
Variable facc : T -> V -> V -> V -> V * V.

(** SemiExplicitEulerIntegratorRep::attemptDAEStep: returns (q1,u1,z1); no error estimate *)
Definition sxe_step (t0 t1:T) (q0 u0 z0 udot0 zdot0:V) : V * V * V :=
  let h  := t1 - t0 in
  let z1 := z0 +^ h *^ zdot0 in
  let u1 := u0 +^ h *^ udot0 in
  let q1 := q0 +^ h *^ nmulN q0 u1 in
  (q1, u1, z1).

(** SemiExplicitEuler2IntegratorRep::attemptDAEStep: ((q1,u1,z1),(qErr,uErr,zErr)); errOrder = 2 *)
Definition sxe2_step (t0 t1:T) (q0 u0 z0 udot0 zdot0:V) : (V * V * V) * (V * V * V) :=
  let h := t1 - t0 in let hHalf := h / Z2 2 in let tHalf := t0 + hHalf in
  let zBig := z0 +^ h *^ zdot0 in
  let uBig := u0 +^ h *^ udot0 in
  let qBig := q0 +^ h *^ nmulN q0 uBig in
  let zH := z0 +^ hHalf *^ zdot0 in
  let uH := u0 +^ hHalf *^ udot0 in
  let qH := q0 +^ hHalf *^ nmulN q0 uH in
  let '(udotH, zdotH) := facc tHalf qH uH zH in
  let z1 := zH +^ hHalf *^ zdotH in
  let u1 := uH +^ hHalf *^ udotH in
  let q1 := qH +^ hHalf *^ nmulN qH u1 in
  ((q1, u1, z1), (q1 -^ qBig, u1 -^ uBig, z1 -^ zBig)).

(** VerletIntegratorRep::attemptDAEStep.  [norm] is Vector::norm (2-norm), [tiny] is TinyReal, [tol] is
    min(1e-4, 0.1*accuracy) computed by the caller.  The functional iteration is the source's
    for (i = 0; !converged && i < 10; ++i) loop with its early exit.
    Returns ((q1,u1,z1),(qErr,uErr,zErr), converged, numIterations); errOrder = 3. *)
Variable norm : V -> T.
Definition nmax (a b:T) : T := if nltb O a b then b else a.     (* std::max(a,b) = (a<b)?b:a *)
Fixpoint verlet_iter (fuel:nat) (i:nat) (t1 h:T) (q1 u0 z0 udot0 zdot0:V) (tiny tol:T)
         (u z udot1 zdot1:V) (prevChange:option T) (nit:nat) : V * V * bool * nat :=
  match fuel with
  | Datatypes.O => (u, z, false, nit)
  | S fuel' =>
    let usave := u in let zsave := z in
    let u' := u0 +^ (h / Z2 2) *^ (udot0 +^ udot1) in
    let z' := z0 +^ (h / Z2 2) *^ (zdot0 +^ zdot1) in
    let '(udot1', zdot1') := facc t1 q1 u' z' in
    let convU := norm (u' -^ usave) / (norm usave + tiny) in
    let convZ := norm (z' -^ zsave) / (norm zsave + tiny) in
    let change := nmax convU convZ in
    let converged := nleb O change tol in
    let worse := match prevChange with Some p => nltb O p change | None => false end in
    if (Nat.ltb 1 i) && worse then (u', z', converged, S nit)          (* break *)
    else if converged then (u', z', true, S nit)
    else verlet_iter fuel' (S i) t1 h q1 u0 z0 udot0 zdot0 tiny tol u' z' udot1' zdot1' (Some change) (S nit)
  end.
Definition verlet_step (t0 t1:T) (q0 u0 z0 qdot0 udot0 zdot0 qdotdot0:V) (tiny tol:T)
  : (V * V * V) * (V * V * V) * bool * nat :=
  let h := t1 - t0 in
  let q1 := q0 +^ h *^ qdot0 +^ (h * h / Z2 2) *^ qdotdot0 in
  let u1e := u0 +^ h *^ udot0 in
  let z1e := z0 +^ h *^ zdot0 in
  let '(udot1, zdot1) := facc t1 q1 u1e z1e in
  let '(u1, z1, conv, nit) := verlet_iter 10 0 t1 h q1 u0 z0 udot0 zdot0 tiny tol u1e z1e udot1 zdot1 None 0 in
  let qErr := q0 +^ (h / Z2 2) *^ (qdot0 +^ nmulN q1 u1) -^ q1 in
  let uErr := h *^ (u1e -^ u1) in
  let zErr := h *^ (z1e -^ z1) in
  ((q1, u1, z1), (qErr, uErr, zErr), conv, nit).
End QUZ.

(** ---------------------------------------------------------------------------------------------
    Step-size controller. *)
Section Control.
Context {T:Type} (O:NumOps T).
Local Notation "a + b" := (nadd O a b).
Local Notation "a - b" := (nsub O a b).
Local Notation "a * b" := (nmul O a b).
Local Notation "a / b" := (ndiv O a b).
Local Notation Z2 := (nofZ O).
Variable powf : T -> T -> T.     (* std::pow *)

Definition nmin (a b:T) : T := if nltb O b a then b else a.      (* std::min(a,b) = (b<a)?b:a *)
Definition nmax' (a b:T) : T := if nltb O a b then b else a.
(** isFinite(x): x - x is 0 for finite x and NaN otherwise (all comparisons with NaN are false) *)
Definition nfinite (x:T) : bool := nleb O (x - x) (n0 O) && nleb O (n0 O) (x - x).

(** AbstractIntegratorRep::adjustStepSize.  [fin] = isFinite(err); user limits None = "not set" (-1 in the source).
    Returns (success, newStepSize). *)
Definition adjust_core (fin:bool) (err:T) (errOrder:Z) (limited:bool) (acc cur:T) (umin umax:option T) : bool * T :=
  let Safety := Z2 9 / Z2 10 in let MinShrink := Z2 1 / Z2 10 in let MaxGrow := Z2 5 in
  let HystLow := Z2 9 / Z2 10 in let HystHigh := Z2 12 / Z2 10 in
  let new0 :=
    if negb fin then MinShrink * cur
    else if nleb O err (n0 O) && nleb O (n0 O) err then MaxGrow * cur
    else Safety * cur * powf (acc / err) (Z2 1 / Z2 errOrder) in
  let new1 := if nltb O cur new0 then (if limited || nltb O new0 (HystHigh * cur) then cur else new0) else new0 in
  let new2 := if nltb O new1 cur then (if nleb O err acc then cur else nmin new1 (HystLow * cur)) else new1 in
  let new3 := nmin new2 (MaxGrow * cur) in
  let new4 := nmax' new3 (MinShrink * cur) in
  let new5 := match umin with Some m => nmax' new4 m | None => new4 end in
  let new6 := match umax with Some m => nmin new5 m | None => new5 end in
  (nleb O cur new6, new6).
Definition adjust (err:T) := adjust_core (nfinite err) err.

(** IntegratorRep::calcRelativeScaling (one entry) and the RMS branch of calcErrorNorm for a state whose
    N is the identity and whose u- and z-weights are [wu], [wz] (1 by default):
    qNorm uses the u weights unscaled, uNorm/zNorm the relative scales frozen at the start of the step. *)
Definition rel_scale (v w:T) : T := let vi := nabs O v in if nltb O (Z2 1) (vi * w) then Z2 1 / vi else w.
Fixpoint sumsq (ws es:list T) : T :=
  match ws, es with w::ws', e::es' => (w * e) * (w * e) + sumsq ws' es' | _, _ => n0 O end.
Definition wrms (ws es:list T) : T :=
  match es with [] => n0 O | _ => nsqrt O (sumsq ws es / Z2 (Z.of_nat (length es))) end.
Definition err_norm (wq:list T) (su sz:list T) (eq eu ez:list T) : T :=
  let qn := wrms wq eq in let un := wrms su eu in let zn := wrms sz ez in
  if nleb O un qn then (if nleb O zn qn then qn else zn) else (if nleb O zn un then un else zn).

(** The infinity-norm branch of calcErrorNorm (userUseInfinityNorm == 1): Vector::weightedNormInf is
      maxabs = 0; for i: wv = |w[i]*v[i]|; if (wv > maxabs) maxabs = wv
    (0 for an empty vector); the q part is normInf of N*Wu*pinv(N)*dq, which for the diagonal N of the test systems is
    the same loop with the u weights.  The three partial norms are combined exactly as in the RMS branch. *)
Fixpoint winf_go (m:T) (ws es:list T) : T :=
  match ws, es with
  | w::ws', e::es' => let wv := nabs O (w * e) in winf_go (if nltb O m wv then wv else m) ws' es'
  | _, _ => m
  end.
Definition winf (ws es:list T) : T := winf_go (n0 O) ws es.
Definition pick3 (qn un zn:T) : T :=
  if nleb O un qn then (if nleb O zn qn then qn else zn) else (if nleb O zn un then un else zn).
Definition err_norm_inf (wq:list T) (su sz:list T) (eq eu ez:list T) : T :=
  pick3 (winf wq eq) (winf su eu) (winf sz ez).
(** calcErrorNorm for either setting of Integrator::setUseInfinityNorm *)
Definition err_norm_sel (useInf:bool) (wq su sz eq eu ez:list T) : T :=
  if useInf then err_norm_inf wq su sz eq eu ez else err_norm wq su sz eq eu ez.

(** t1 selection of takeOneStep (as C19's select_t1; repeated here so that the loop below is self-contained) *)
Definition sel_t1 (t0 tMax h:T) : T * bool :=
  if nltb O tMax (t0 + (Z2 95 / Z2 100) * h) then (tMax, true)
  else if nltb O (t0 + (Z2 1001 / Z2 1000) * h) tMax then (t0 + h, false)
  else (tMax, false).

(** The retry loop of AbstractIntegratorRep::takeOneStep for an error-controlled method without event
    triggers: [attempt t1] = (converged, errNorm, errOrder, result).  Returns
    Some (result, t1, h_next, number of rejected attempts) or None when the fuel runs out. *)
Fixpoint take_step {A} (fuel:nat) (attempt : T -> bool * T * Z * A) (inf:T)
         (t0 tMax acc cur:T) (umin umax:option T) (nfail:nat) : option (A * T * T * nat) :=
  match fuel with
  | Datatypes.O => None
  | S fuel' =>
    let '(t1, limited) := sel_t1 t0 tMax cur in
    let '(conv, en, ord, res) := attempt t1 in
    let errNorm := if conv then en else inf in
    let '(ok, cur') := adjust errNorm ord limited acc cur umin umax in
    if ok then Some (res, t1, cur', nfail)
    else take_step fuel' attempt inf t0 tMax acc cur' umin umax (S nfail)
  end.
End Control.
