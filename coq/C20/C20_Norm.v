(** C20 — calcErrorNorm over the (q,u,z) partition, both norms (IntegratorRep.h), over the reals:
    the infinity norm is the maximum over ALL weighted components of q, u and z (so one bad z component bounds it from
    below and an accepted step has every weighted component within the accuracy); the RMS norm is the largest of the
    three block RMS values and bounds every weighted component up to sqrt(block size). *)
From Coq Require Import ZArith List Reals Lra Lia Bool.
Require Import Num C20_Model C20_Control.
Import ListNotations.
Open Scope R_scope.

Definition wc (ws es:list R) (i:nat) : R := Rabs (nth i ws 0 * nth i es 0).      (* i-th weighted component *)
Definition blen (ws es:list R) : nat := Nat.min (length ws) (length es).

Lemma winf_go_ge_start m ws : forall es, m <= winf_go ROps m ws es.
Proof.
  revert m. induction ws as [|w ws IH]; intros m [|e es]; simpl; try lra.
  cbn [nltb nabs nmul ROps]. destruct (Rltb m (Rabs (w*e))) eqn:E.
  - apply Rltb_true in E. eapply Rle_trans; [|apply IH]. lra.
  - apply IH.
Qed.

Lemma winf_go_ge_component m ws : forall es i, (i < blen ws es)%nat -> wc ws es i <= winf_go ROps m ws es.
Proof.
  revert m. induction ws as [|w ws IH]; intros m [|e es] i Hi; unfold blen in Hi; simpl in Hi; try lia.
  simpl. cbn [nltb nabs nmul ROps]. destruct i as [|i].
  - unfold wc. simpl. destruct (Rltb m (Rabs (w*e))) eqn:E.
    + apply winf_go_ge_start.
    + apply Rltb_false in E. eapply Rle_trans; [exact E|apply winf_go_ge_start].
  - replace (wc (w::ws) (e::es) (S i)) with (wc ws es i) by reflexivity. apply IH. unfold blen. lia.
Qed.

Lemma winf_go_le m ws c : forall es, m <= c -> (forall i, (i < blen ws es)%nat -> wc ws es i <= c) ->
  winf_go ROps m ws es <= c.
Proof.
  revert m. induction ws as [|w ws IH]; intros m [|e es] Hm Hc; simpl; auto.
  cbn [nltb nabs nmul ROps].
  assert (H0: Rabs (w*e) <= c) by (apply (Hc 0%nat); unfold blen; simpl; lia).
  assert (Hr: forall i, (i < blen ws es)%nat -> wc ws es i <= c).
  { intros i Hi. apply (Hc (S i)). unfold blen in *. simpl. lia. }
  destruct (Rltb m (Rabs (w*e))); apply IH; auto.
Qed.

Lemma winf_go_attained m ws : forall es,
  winf_go ROps m ws es = m \/ exists i, (i < blen ws es)%nat /\ winf_go ROps m ws es = wc ws es i.
Proof.
  revert m. induction ws as [|w ws IH]; intros m [|e es]; simpl; auto.
  cbn [nltb nabs nmul ROps].
  assert (Hs: forall m', (winf_go ROps m' ws es = m' \/ exists i, (i < blen ws es)%nat /\ winf_go ROps m' ws es = wc ws es i)) by (intros; apply IH).
  destruct (Rltb m (Rabs (w*e))).
  - destruct (Hs (Rabs (w*e))) as [E|[i [Hi E]]].
    + right. exists 0%nat. split; [unfold blen; simpl; lia|]. rewrite E. reflexivity.
    + right. exists (S i). split; [unfold blen in *; simpl; lia|]. rewrite E. reflexivity.
  - destruct (Hs m) as [E|[i [Hi E]]]; auto.
    right. exists (S i). split; [unfold blen in *; simpl; lia|]. rewrite E. reflexivity.
Qed.

(** Vector::weightedNormInf is the largest weighted component (0 for an empty vector) *)
Lemma winf_nonneg ws es : 0 <= winf ROps ws es.
Proof. unfold winf. apply (winf_go_ge_start 0). Qed.
Lemma winf_ge_component ws es i : (i < blen ws es)%nat -> wc ws es i <= winf ROps ws es.
Proof. apply winf_go_ge_component. Qed.
Lemma winf_le ws es c : 0 <= c -> (forall i, (i < blen ws es)%nat -> wc ws es i <= c) -> winf ROps ws es <= c.
Proof. intros. apply winf_go_le; auto. Qed.
Lemma winf_attained ws es : winf ROps ws es = 0 \/ exists i, (i < blen ws es)%nat /\ winf ROps ws es = wc ws es i.
Proof. apply (winf_go_attained 0). Qed.

(** the selection among the three partial norms returns their maximum *)
Lemma pick3_spec q u z : let p := pick3 ROps q u z in q <= p /\ u <= p /\ z <= p /\ (p = q \/ p = u \/ p = z).
Proof.
  unfold pick3. cbn [nleb ROps].
  destruct (Rleb u q) eqn:A; [apply Rleb_true in A|apply Rleb_false in A];
  [destruct (Rleb z q) eqn:B|destruct (Rleb z u) eqn:B]; [apply Rleb_true in B|apply Rleb_false in B|apply Rleb_true in B|apply Rleb_false in B];
  repeat split; try lra; auto.
Qed.

Section InfNorm.
Variables wq su sz eq eu ez : list R.
Notation NI := (err_norm_inf ROps wq su sz eq eu ez).

(** MAIN: the infinity norm bounds EVERY weighted component of q, u and z from above ... *)
Lemma err_norm_inf_ge_every_component :
  (forall i, (i < blen wq eq)%nat -> wc wq eq i <= NI) /\
  (forall i, (i < blen su eu)%nat -> wc su eu i <= NI) /\
  (forall i, (i < blen sz ez)%nat -> wc sz ez i <= NI).
Proof.
  unfold err_norm_inf. destruct (pick3_spec (winf ROps wq eq) (winf ROps su eu) (winf ROps sz ez)) as [A [B [C _]]].
  repeat split; intros i Hi; (eapply Rle_trans; [apply winf_ge_component; exact Hi|]); auto.
Qed.

(** ... in particular a single bad z component bounds it from below, whatever q and u are *)
Lemma single_bad_z_component_bounds_inf_norm i : (i < blen sz ez)%nat ->
  Rabs (nth i sz 0 * nth i ez 0) <= NI.
Proof. intros Hi. apply (proj2 (proj2 err_norm_inf_ge_every_component) i Hi). Qed.

(** ... and it is no larger than necessary: it IS the maximum (attained, or 0 when all parts are empty/zero) *)
Lemma err_norm_inf_is_max c : 0 <= c ->
  (forall i, (i < blen wq eq)%nat -> wc wq eq i <= c) -> (forall i, (i < blen su eu)%nat -> wc su eu i <= c) ->
  (forall i, (i < blen sz ez)%nat -> wc sz ez i <= c) -> NI <= c.
Proof.
  intros Hc Hq Hu Hz. unfold err_norm_inf.
  destruct (pick3_spec (winf ROps wq eq) (winf ROps su eu) (winf ROps sz ez)) as [_ [_ [_ [E|[E|E]]]]]; rewrite E; apply winf_le; auto.
Qed.
Lemma err_norm_inf_nonneg : 0 <= NI.
Proof.
  unfold err_norm_inf. destruct (pick3_spec (winf ROps wq eq) (winf ROps su eu) (winf ROps sz ez)) as [A _].
  eapply Rle_trans; [apply (winf_nonneg wq eq)|exact A].
Qed.

(** norm within the accuracy <=> every weighted component within the accuracy *)
Lemma inf_norm_le_acc_iff acc : 0 <= acc ->
  (NI <= acc <->
   (forall i, (i < blen wq eq)%nat -> wc wq eq i <= acc) /\ (forall i, (i < blen su eu)%nat -> wc su eu i <= acc) /\
   (forall i, (i < blen sz ez)%nat -> wc sz ez i <= acc)).
Proof.
  intros Ha. destruct err_norm_inf_ge_every_component as [A [B C]]. split.
  - intros H. repeat split; intros i Hi; (eapply Rle_trans; [|exact H]); auto.
  - intros [Hq [Hu Hz]]. apply err_norm_inf_is_max; auto.
Qed.
End InfNorm.

(** ---------------------------------------------------------------------------------------- RMS norm *)
Lemma sumsq_nonneg ws : forall es, 0 <= sumsq ROps ws es.
Proof.
  induction ws as [|w ws IH]; intros [|e es]; simpl; cbn [n0 nadd nmul ROps]; try lra.
  specialize (IH es). pose proof (Rle_0_sqr (w*e)) as H. unfold Rsqr in H. cbn [nadd nmul ROps] in *. lra.
Qed.
Lemma sumsq_ge_component ws : forall es i, (i < blen ws es)%nat -> (wc ws es i)² <= sumsq ROps ws es.
Proof.
  induction ws as [|w ws IH]; intros [|e es] i Hi; unfold blen in Hi; simpl in Hi; try lia.
  simpl. cbn [nadd nmul ROps]. destruct i as [|i].
  - unfold wc. simpl. rewrite <- Rsqr_abs. pose proof (sumsq_nonneg ws es). unfold Rsqr. lra.
  - replace (wc (w::ws) (e::es) (S i)) with (wc ws es i) by reflexivity.
    assert (H: (i < blen ws es)%nat) by (unfold blen; lia). specialize (IH es i H).
    pose proof (Rle_0_sqr (w*e)) as H2. unfold Rsqr in *. lra.
Qed.

(** every weighted component is at most sqrt(n) times the block's weighted RMS value *)
Lemma wrms_component_bound ws es i : (i < blen ws es)%nat ->
  wc ws es i <= sqrt (INR (length es)) * wrms ROps ws es.
Proof.
  intros Hi. unfold wrms. destruct es as [|e es'] eqn:Ee; [unfold blen in Hi; simpl in Hi; lia|]. rewrite <- Ee in *.
  cbn [nsqrt ndiv nofZ ROps]. rewrite <- INR_IZR_INZ.
  assert (Hn: 0 < INR (length es)) by (apply lt_0_INR; subst es; simpl; lia).
  rewrite <- sqrt_mult; [|lra|apply Rmult_le_pos; [apply sumsq_nonneg|apply Rlt_le, Rinv_0_lt_compat; lra]].
  replace (INR (length es) * (sumsq ROps ws es / INR (length es))) with (sumsq ROps ws es) by (field; lra).
  rewrite <- (sqrt_Rsqr (wc ws es i)) by (unfold wc; apply Rabs_pos).
  apply sqrt_le_1_alt. apply sumsq_ge_component; auto.
Qed.

(** the RMS error norm is the largest of the three block values *)
Lemma err_norm_rms_is_max_of_blocks wq su sz eq eu ez :
  let p := err_norm ROps wq su sz eq eu ez in
  wrms ROps wq eq <= p /\ wrms ROps su eu <= p /\ wrms ROps sz ez <= p /\
  (p = wrms ROps wq eq \/ p = wrms ROps su eu \/ p = wrms ROps sz ez).
Proof. apply (pick3_spec (wrms ROps wq eq) (wrms ROps su eu) (wrms ROps sz ez)). Qed.

(** so with the RMS norm, too, no block can be ignored: a z component bounds the norm from below *)
Lemma single_bad_z_component_bounds_rms_norm wq su sz eq eu ez i : (i < blen sz ez)%nat ->
  Rabs (nth i sz 0 * nth i ez 0) <= sqrt (INR (length ez)) * err_norm ROps wq su sz eq eu ez.
Proof.
  intros Hi. destruct (err_norm_rms_is_max_of_blocks wq su sz eq eu ez) as [_ [_ [C _]]].
  eapply Rle_trans; [apply (wrms_component_bound sz ez i Hi)|]. apply Rmult_le_compat_l; [apply sqrt_pos|exact C].
Qed.

(** ---------------------------------------------------------------------------------------- with the controller *)
(** An error-controlled step accepted by the retry loop of takeOneStep under setUseInfinityNorm(true) either converged
    with EVERY weighted error-estimate component of q, u and z within the accuracy, or was taken at the user's minimum
    step size.  [est t1] = the attempt's (converged, (eq,eu,ez), errOrder, result); weights are frozen over the step. *)
Section Accepted.
Context {A:Type}.
Variables wq su sz : list R.
Variable est : R -> bool * (list R * list R * list R) * Z * A.
Definition attempt_inf (t:R) : bool * R * Z * A :=
  let '(conv, (eq, eu, ez), ord, res) := est t in (conv, err_norm_inf ROps wq su sz eq eu ez, ord, res).
Variables (inf t0 tMax acc : R) (umin umax : option R).
Hypothesis Hacc : 0 < acc.
Hypothesis Hinf : acc < inf.
Hypothesis Hord : forall t, let '(_, _, ord, _) := est t in (1 <= ord)%Z.

Lemma accepted_step_every_component_within_accuracy fuel cur nfail res t1 h' nf :
  0 < cur -> (forall b, umax = Some b -> cur <= b) -> (forall a b, umin = Some a -> umax = Some b -> a <= b) ->
  take_step ROps Rpower fuel attempt_inf inf t0 tMax acc cur umin umax nfail = Some (res, t1, h', nf) ->
  exists c conv eq eu ez ord, 0 < c /\ fst (sel_t1 ROps t0 tMax c) = t1 /\ est t1 = (conv, (eq, eu, ez), ord, res) /\
    ((conv = true /\
      (forall i, (i < blen wq eq)%nat -> wc wq eq i <= acc) /\ (forall i, (i < blen su eu)%nat -> wc su eu i <= acc) /\
      (forall i, (i < blen sz ez)%nat -> wc sz ez i <= acc))
     \/ (exists a, umin = Some a /\ c <= a)).
Proof.
  intros Hc Hb Hab E.
  assert (Hatt: forall t, let '(_, en, ord, _) := attempt_inf t in 0 <= en /\ (1 <= ord)%Z).
  { intros t. unfold attempt_inf. pose proof (Hord t) as Ho. destruct (est t) as [[[conv [[eq eu] ez]] ord] r].
    split; [apply err_norm_inf_nonneg|exact Ho]. }
  destruct (take_step_accepts_only_accurate attempt_inf inf t0 tMax acc umin umax Hacc Hinf Hatt fuel cur nfail res t1 h' nf Hc Hb Hab E)
    as [c [conv [en [ord [C1 [C2 [C3 C4]]]]]]].
  unfold attempt_inf in C3. destruct (est t1) as [[[conv' [[eq eu] ez]] ord'] r'] eqn:Ee. inversion C3; subst.
  exists c, conv, eq, eu, ez, ord. repeat split; auto.
  destruct C4 as [[Hcv Hle]|Hm]; [left|right; auto]. split; auto.
  apply (inf_norm_le_acc_iff wq su sz eq eu ez acc); [lra|exact Hle].
Qed.
End Accepted.

(** non-vacuity: q, u fine, one z component bad: the infinity norm is that component *)
Example inf_norm_example : err_norm_inf ROps [1] [1] [1; 2] [1/100] [1/50] [1/100; 3] = 6.
Proof.
  unfold err_norm_inf, winf, pick3. simpl. cbn [nltb nleb nabs nmul n0 ROps].
  repeat (rewrite Rabs_pos_eq by lra).
  repeat match goal with
  | |- context[Rltb ?a ?b] => let H := fresh in destruct (Rltb a b) eqn:H; [apply Rltb_true in H|apply Rltb_false in H]; try (exfalso; lra)
  | |- context[Rleb ?a ?b] => let H := fresh in destruct (Rleb a b) eqn:H; [apply Rleb_true in H|apply Rleb_false in H]; try (exfalso; lra)
  end; lra.
Qed.
