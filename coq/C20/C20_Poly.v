(** C20 — consequences for the transcribed steps themselves (scalar instance over R):
    exactness on polynomial solutions up to the documented order, the stability polynomial on y' = lambda y
    agrees with exp(z) through z^p, the embedded error estimate vanishes one degree earlier and is an exact
    multiple of h^(errOrder) on the next degree, one-step behaviour of the Euler / semi-explicit Euler / Verlet
    formulas, cubic Hermite interpolation reproduces cubics. *)
From Coq Require Import ZArith List Reals Lra Lia.
From Coquelicot Require Import Coquelicot.
Require Import Num C20_Model.
Import ListNotations.
Open Scope R_scope.

Ltac unfS := cbv [ROps VS vadd vsub vscale vabs n0 n1 nadd nsub nmul ndiv nopp nabs nofZ nleb nltb qz].

(** polynomial a0 + a1 t + a2 t^2 + ... and its antiderivative a0 t + a1 t^2/2 + ... *)
Fixpoint poly (cs:list R) (t:R) : R := match cs with [] => 0 | a::cs' => a + t * poly cs' t end.
Fixpoint pint_from (k:nat) (cs:list R) (t:R) : R :=
  match cs with [] => 0 | a::cs' => a * t^(S k) / INR (S k) + pint_from (S k) cs' t end.
Definition pint := pint_from 0.

(** right-hand side y' = g(t) *)
Definition quad (cs:list R) : R -> R -> R := fun t _ => poly cs t.
(** right-hand side y' = lambda y *)
Definition lin (lam:R) : R -> R -> R := fun _ y => lam * y.

Ltac tup := repeat match goal with |- (_,_) = (_,_) => apply f_equal2 end.
Ltac small_list cs := repeat (destruct cs as [|? cs]; [ | cbn [length] in * ]); try (exfalso; cbn [length] in *; lia).
Ltac open_s := cbv [rk2_step rk3_step rkm_step rkf_step euler_step quad lin poly pint pint_from INR fst snd]; unfS.

Section Exact.
Variables (t0 h y0 : R).

(** exact on every solution that is a polynomial of degree <= p (y' = g(t), deg g <= p-1) *)
Lemma rk2_exact_on_polynomials_deg_le_2 cs : (length cs <= 2)%nat ->
  fst (rk2_step ROps (VS ROps) (quad cs) t0 (t0+h) y0 (quad cs t0 y0)) = y0 + (pint cs (t0+h) - pint cs t0).
Proof. intros L. do 3 (destruct cs as [|? cs]; [open_s; field|]). cbn in L; lia. Qed.
Lemma rk3_exact_on_polynomials_deg_le_3 cs : (length cs <= 3)%nat ->
  fst (rk3_step ROps (VS ROps) (quad cs) t0 (t0+h) y0 (quad cs t0 y0)) = y0 + (pint cs (t0+h) - pint cs t0).
Proof. intros L. do 4 (destruct cs as [|? cs]; [open_s; field|]). cbn in L; lia. Qed.
Lemma rkm_exact_on_polynomials_deg_le_4 cs : (length cs <= 4)%nat ->
  fst (rkm_step ROps (VS ROps) (quad cs) t0 (t0+h) y0 (quad cs t0 y0)) = y0 + (pint cs (t0+h) - pint cs t0).
Proof. intros L. do 5 (destruct cs as [|? cs]; [open_s; field|]). cbn in L; lia. Qed.
Lemma rkf_exact_on_polynomials_deg_le_4 cs : (length cs <= 4)%nat ->
  fst (rkf_step ROps (VS ROps) (quad cs) t0 (t0+h) y0 (quad cs t0 y0)) = y0 + (pint cs (t0+h) - pint cs t0).
Proof. intros L. do 5 (destruct cs as [|? cs]; [open_s; field|]). cbn in L; lia. Qed.
Lemma euler_exact_on_polynomials_deg_le_1 cs : (length cs <= 1)%nat ->
  fst (euler_step ROps (VS ROps) (quad cs) t0 (t0+h) y0 (quad cs t0 y0)) = y0 + (pint cs (t0+h) - pint cs t0).
Proof. intros L. do 2 (destruct cs as [|? cs]; [open_s; field|]). cbn in L; lia. Qed.

(** ... and not beyond: on y' = t^p the propagated solution misses the exact value by a fixed multiple of h^(p+1).
    For Fehlberg (documented as fifth order) the defect is h^5/2080 on y' = t^4, t0 = 0. *)
Lemma rkf_not_exact_on_degree_5 :
  fst (rkf_step ROps (VS ROps) (quad [0;0;0;0;1]) 0 h 0 0) = h^5/5 - h^5/2080.
Proof. open_s. field. Qed.
Lemma rkm_not_exact_on_degree_5 :
  fst (rkm_step ROps (VS ROps) (quad [0;0;0;0;1]) 0 h 0 0) = h^5/5 + h^5/120.
Proof. open_s. field. Qed.

(** linear test equation y' = lambda y: y1 = R(h lambda) y0 with R(z) = sum_{k<=p} z^k/k! (+ c z^(p+1) for Merson, Fehlberg) *)
Lemma rk2_stability_function lam :
  fst (rk2_step ROps (VS ROps) (lin lam) t0 (t0+h) y0 (lin lam t0 y0)) = (let z := h*lam in 1 + z + z^2/2) * y0.
Proof. open_s. field. Qed.
Lemma rk3_stability_function lam :
  fst (rk3_step ROps (VS ROps) (lin lam) t0 (t0+h) y0 (lin lam t0 y0)) = (let z := h*lam in 1 + z + z^2/2 + z^3/6) * y0.
Proof. open_s. field. Qed.
Lemma rkm_stability_function lam :
  fst (rkm_step ROps (VS ROps) (lin lam) t0 (t0+h) y0 (lin lam t0 y0)) =
  (let z := h*lam in 1 + z + z^2/2 + z^3/6 + z^4/24 + z^5/144) * y0.
Proof. open_s. field. Qed.
Lemma rkf_stability_function lam :
  fst (rkf_step ROps (VS ROps) (lin lam) t0 (t0+h) y0 (lin lam t0 y0)) =
  (let z := h*lam in 1 + z + z^2/2 + z^3/6 + z^4/24 + z^5/104) * y0.
Proof. open_s. field. Qed.
Lemma euler_stability_function lam :
  fst (euler_step ROps (VS ROps) (lin lam) t0 (t0+h) y0 (lin lam t0 y0)) = (1 + h*lam) * y0.
Proof. open_s. field. Qed.

(** error estimates on y' = g(t): zero while deg g < errOrder - 1, and an exact multiple of h^errOrder of the
    leading coefficient when deg g = errOrder - 1 (errOrder = 2, 3, 4 as the sources set it) *)
Lemma rk2_error_estimate_order a0 a1 :
  snd (rk2_step ROps (VS ROps) (quad [a0;a1]) t0 (t0+h) y0 (quad [a0;a1] t0 y0)) = Rabs (a1 * h^2 / 2).
Proof. open_s. rewrite <- Rabs_Ropp. f_equal. field. Qed.
Lemma rk3_error_estimate_order a0 a1 a2 :
  snd (rk3_step ROps (VS ROps) (quad [a0;a1;a2]) t0 (t0+h) y0 (quad [a0;a1;a2] t0 y0)) = Rabs (a2 * h^3 / 12).
Proof. open_s. f_equal. field. Qed.
Lemma rkm_error_estimate_order a0 a1 a2 a3 :
  snd (rkm_step ROps (VS ROps) (quad [a0;a1;a2;a3]) t0 (t0+h) y0 (quad [a0;a1;a2;a3] t0 y0)) = Rabs (a3 * h^4 / 90).
Proof.
  open_s. replace (2/10) with (Rabs (2/10)) by (apply Rabs_pos_eq; lra). rewrite <- Rabs_mult.
  f_equal. field.
Qed.
(** Fehlberg: the estimate is y5 - y4; it vanishes through deg g = 3 and is a4 h^5/2080 at deg g = 4, i.e. it
    scales as h^5 although the source passes errOrder = 4 to the step-size controller. *)
Lemma rkf_error_estimate_order a0 a1 a2 a3 a4 :
  snd (rkf_step ROps (VS ROps) (quad [a0;a1;a2;a3;a4]) t0 (t0+h) y0 (quad [a0;a1;a2;a3;a4] t0 y0)) = a4 * h^5 / 2080.
Proof. open_s. field. Qed.
Lemma euler_error_estimate_order a0 a1 :
  snd (euler_step ROps (VS ROps) (quad [a0;a1]) t0 (t0+h) y0 (quad [a0;a1] t0 y0)) = - (a1 * h^2 / 2).
Proof. open_s. field. Qed.

(** explicit Euler, any right-hand side: y1 = y0 + h f(t0,y0); the estimate is (h/2)(f0 - f1) *)
Lemma euler_one_step_consistency (f:R->R->R) :
  let r := euler_step ROps (VS ROps) f t0 (t0+h) y0 (f t0 y0) in
  fst r = y0 + h * f t0 y0 /\ snd r = h/2 * (f t0 y0 - f (t0+h) (fst r)).
Proof. open_s. split; field. Qed.
End Exact.

(** ------------------------------------------------------------------------------------------
    q,u,z methods on scalars: qdot = n(q) u *)
Section QUZ.
Variables (t0 h q0 u0 z0 : R) (n : R -> R).
Definition nmulS (q u:R) : R := n q * u.
Ltac open_q := cbv [sxe_step sxe2_step nmulS fst snd]; unfS.

(** semi-explicit Euler: u, z explicit Euler; q advanced with the NEW u; the only O(h^2) term is h^2 n(q0) udot0 *)
Lemma sxe_one_step_consistency udot0 zdot0 :
  sxe_step ROps (VS ROps) nmulS t0 (t0+h) q0 u0 z0 udot0 zdot0 =
  (q0 + h * (n q0 * u0) + h^2 * (n q0 * udot0), u0 + h * udot0, z0 + h * zdot0).
Proof. open_q. tup; field. Qed.
(** free fall (n = 1, constant acceleration a): u exact, q off by h^2 a/2 : first order *)
Lemma sxe_free_fall_error a b : (forall x, n x = 1) ->
  sxe_step ROps (VS ROps) nmulS t0 (t0+h) q0 u0 z0 a b =
  ((q0 + h*u0 + a*h^2/2) + a*h^2/2, u0 + h*a, z0 + h*b).
Proof. intros Hn. open_q. rewrite !Hn. tup; field. Qed.

(** semi-explicit Euler with step doubling on free fall: the propagated (two half steps) q is off by +a h^2/4 and
    the estimate (two halves - one big step) is -a h^2/4: same magnitude, so the estimate is exact there *)
Lemma sxe2_free_fall a b : (forall x, n x = 1) ->
  sxe2_step ROps (VS ROps) nmulS (fun _ _ _ _ => (a, b)) t0 (t0+h) q0 u0 z0 a b =
  (((q0 + h*u0 + a*h^2/2) + a*h^2/4, u0 + h*a, z0 + h*b), (- (a*h^2/4), 0, 0)).
Proof. intros Hn. open_q. rewrite !Hn. tup; field. Qed.
(** any acceleration function: both the big step and the first half step are explicit-Euler consistent *)
Lemma sxe2_one_step_consistency facc udot0 zdot0 :
  let r := sxe2_step ROps (VS ROps) nmulS facc t0 (t0+h) q0 u0 z0 udot0 zdot0 in
  let uH := u0 + h/2*udot0 in let zH := z0 + h/2*zdot0 in let qH := q0 + h/2*(n q0*uH) in
  let a := facc (t0+h/2) qH uH zH in
  snd (fst (fst r)) = u0 + h/2*udot0 + h/2*fst a /\ snd (fst r) = z0 + h/2*zdot0 + h/2*snd a /\
  snd (fst (snd r)) = h/2*(fst a - udot0) /\ snd (snd r) = h/2*(snd a - zdot0).
Proof.
  cbv [sxe2_step nmulS]; unfS. cbv zeta. replace (t0 + h - t0) with h by ring.
  destruct (facc (t0 + h / 2) (q0 + h / 2 * (n q0 * (u0 + h / 2 * udot0))) (u0 + h / 2 * udot0) (z0 + h / 2 * zdot0)) as [ud zd].
  cbn [fst snd]. repeat split; field.
Qed.
End QUZ.

(** Verlet on scalars with constant derivatives udot = a, zdot = b (n = 1): q, u, z are exact, the functional
    iteration converges in its first pass, all three error estimates are 0 *)
Lemma verlet_exact_constant_acceleration t0 h q0 u0 z0 a b tiny tol : 0 < tiny -> 0 <= tol ->
  verlet_step ROps (VS ROps) (nmulS (fun _ => 1)) (fun _ _ _ _ => (a, b)) Rabs t0 (t0+h) q0 u0 z0 (1*u0) a b a tiny tol =
  ((q0 + h*u0 + a*h^2/2, u0 + h*a, z0 + h*b), (0, 0, 0), true, 1%nat).
Proof.
  intros Ht Hl. cbv [verlet_step verlet_iter nmulS nmax]; unfS. cbv zeta.
  replace (t0 + h - t0) with h by ring.
  replace (u0 + h / 2 * (a + a) - (u0 + h * a)) with 0 by field.
  replace (z0 + h / 2 * (b + b) - (z0 + h * b)) with 0 by field.
  rewrite Rabs_R0.
  assert (E: forall x, 0 / (Rabs x + tiny) = 0).
  { intros x. unfold Rdiv. apply Rmult_0_l. }
  rewrite !E.
  replace (Rltb 0 0) with false by (symmetry; apply Rltb_false; lra).
  replace (Rleb 0 tol) with true by (symmetry; apply Rleb_true; lra).
  cbn [andb Nat.ltb Nat.leb].
  tup; try reflexivity; field.
Qed.
(** Verlet with an acceleration that is linear in time (udot = a + c t, independent of u): whether the functional
    iteration stops after one or two passes, u is the exact integral (trapezoid rule), q is the second-order Taylor
    step, whose local error is c h^3/6 (third order locally, as documented) *)
Lemma verlet_time_linear_acceleration h q0 u0 a c tiny tol : 0 < tiny -> 0 <= tol ->
  let r := verlet_step ROps (VS ROps) (nmulS (fun _ => 1)) (fun t _ _ _ => (a + c*t, 0)) Rabs 0 h q0 u0 0 (1*u0) a 0 a tiny tol in
  fst (fst (fst r)) = ((q0 + h*u0 + a*h^2/2 + c*h^3/6) - c*h^3/6, u0 + h*a + c*h^2/2, 0) /\ snd (fst r) = true.
Proof.
  intros Ht Hl. cbv [verlet_step verlet_iter nmulS nmax]; unfS. cbv zeta.
  replace (h - 0) with h by ring.
  assert (E: forall x, 0 / (Rabs x + tiny) = 0) by (intros x; unfold Rdiv; apply Rmult_0_l).
  replace (0 + h / 2 * (0 + 0) - (0 + h * 0)) with 0 by field. rewrite Rabs_R0, !E.
  replace (0 + h / 2 * (0 + 0) - (0 + h / 2 * (0 + 0))) with 0 by field. rewrite ?Rabs_R0, ?E.
  replace (u0 + h / 2 * (a + (a + c * h)) - (u0 + h / 2 * (a + (a + c * h)))) with 0 by field. rewrite ?Rabs_R0, ?E.
  replace (Rltb 0 0) with false by (symmetry; apply Rltb_false; lra).
  replace (Rleb 0 tol) with true by (symmetry; apply Rleb_true; lra).
  cbn [andb Nat.ltb Nat.leb].
  match goal with |- context[Rltb ?x 0] => destruct (Rltb x 0) end;
  match goal with |- context[Rleb ?x tol] => destruct (Rleb x tol) end; cbn [fst snd]; (split; [tup; field | reflexivity]).
Qed.

(** ------------------------------------------------------------------------------------------
    Beyond quadrature: the cascade y' = g(t), z' = y on the function space bool -> R (true: y, false: z)
    exercises the tableau's A matrix (tree conditions b.A.c^k); it is integrated exactly as long as z is a
    polynomial of degree <= p. *)
Ltac unfF := cbv [ROps VF vadd vsub vscale vabs n0 n1 nadd nsub nmul ndiv nopp nabs nofZ nleb nltb qz].
Definition casc (cs:list R) : R -> (bool->R) -> (bool->R) := fun t y i => if i then poly cs t else y true.
Definition casc0 (y0 z0:R) : bool -> R := fun i => if i then y0 else z0.
(** exact solution after h: y0 + int g ;  z0 + h y0 + int int g *)
Definition casc_exact (cs:list R) (t0 h y0 z0:R) : bool -> R := fun i =>
  if i then y0 + (pint cs (t0+h) - pint cs t0)
  else z0 + h*y0 + (pint_from 1 (map2 Rmult cs [1;1/2;1/3;1/4]) (t0+h) - pint_from 1 (map2 Rmult cs [1;1/2;1/3;1/4]) t0)
       - h * pint cs t0.
Ltac open_c := cbv [rk2_step rk3_step rkm_step rkf_step casc casc0 casc_exact poly pint pint_from map2 INR fst snd]; unfF.

Lemma rk2_exact_on_cascade t0 h y0 z0 cs : (length cs <= 1)%nat -> forall i,
  fst (rk2_step ROps (VF ROps bool) (casc cs) t0 (t0+h) (casc0 y0 z0) (casc cs t0 (casc0 y0 z0))) i = casc_exact cs t0 h y0 z0 i.
Proof. intros L i. do 2 (destruct cs as [|? cs]; [destruct i; open_c; field|]). cbn in L; lia. Qed.
Lemma rk3_exact_on_cascade t0 h y0 z0 cs : (length cs <= 2)%nat -> forall i,
  fst (rk3_step ROps (VF ROps bool) (casc cs) t0 (t0+h) (casc0 y0 z0) (casc cs t0 (casc0 y0 z0))) i = casc_exact cs t0 h y0 z0 i.
Proof. intros L i. do 3 (destruct cs as [|? cs]; [destruct i; open_c; field|]). cbn in L; lia. Qed.
Lemma rkm_exact_on_cascade t0 h y0 z0 cs : (length cs <= 3)%nat -> forall i,
  fst (rkm_step ROps (VF ROps bool) (casc cs) t0 (t0+h) (casc0 y0 z0) (casc cs t0 (casc0 y0 z0))) i = casc_exact cs t0 h y0 z0 i.
Proof. intros L i. do 4 (destruct cs as [|? cs]; [destruct i; open_c; field|]). cbn in L; lia. Qed.
Lemma rkf_exact_on_cascade t0 h y0 z0 cs : (length cs <= 3)%nat -> forall i,
  fst (rkf_step ROps (VF ROps bool) (casc cs) t0 (t0+h) (casc0 y0 z0) (casc cs t0 (casc0 y0 z0))) i = casc_exact cs t0 h y0 z0 i.
Proof. intros L i. do 4 (destruct cs as [|? cs]; [destruct i; open_c; field|]). cbn in L; lia. Qed.

(** ------------------------------------------------------------------------------------------
    cubic Hermite interpolation (IntegratorRep::interpolateOrder3) *)
Section Hermite.
Variables (t0 t1 : R).
Hypothesis Hne : t1 <> t0.
Ltac open_h := cbv [hermite poly]; unfS.

Definition cubic (a0 a1 a2 a3 t:R) : R := a0 + a1*t + a2*t^2 + a3*t^3.
Definition dcubic (a0 a1 a2 a3 t:R) : R := a1 + 2*a2*t + 3*a3*t^2.

Lemma hermite_interp_exact_on_cubics a0 a1 a2 a3 t :
  hermite ROps (VS ROps) t0 (cubic a0 a1 a2 a3 t0) (dcubic a0 a1 a2 a3 t0)
                          t1 (cubic a0 a1 a2 a3 t1) (dcubic a0 a1 a2 a3 t1) t = cubic a0 a1 a2 a3 t.
Proof. open_h. unfold cubic, dcubic. field. lra. Qed.

Lemma hermite_interp_endpoints y0 f0 y1 f1 :
  hermite ROps (VS ROps) t0 y0 f0 t1 y1 f1 t0 = y0 /\ hermite ROps (VS ROps) t0 y0 f0 t1 y1 f1 t1 = y1.
Proof. open_h. split; field; lra. Qed.

(** the interpolant has the prescribed slopes at both ends (it is C1 across steps) *)
Lemma hermite_interp_end_slopes y0 f0 y1 f1 :
  is_derive (fun t => hermite ROps (VS ROps) t0 y0 f0 t1 y1 f1 t) t0 f0 /\
  is_derive (fun t => hermite ROps (VS ROps) t0 y0 f0 t1 y1 f1 t) t1 f1.
Proof.
  open_h. split; auto_derive; try lra; field; lra.
Qed.
End Hermite.
