(** C20 — collects the proofs (C20_Tableau: tableau extraction and order conditions; C20_Poly: exactness on
    polynomials, stability functions, error-estimate order, Euler/semi-explicit Euler/Verlet one-step behaviour,
    Hermite interpolation; C20_Control: adjustStepSize and the retry loop of takeOneStep) and gives
    non-vacuity examples for the hypotheses used there. *)
From Coq Require Import ZArith List Reals Lra.
Require Export Num C20_Model C20_Tableau C20_Poly C20_Control C20_Norm.
Import ListNotations.
Open Scope R_scope.

(** the regime of [adjust_targets_accuracy] is inhabited: acc = 1, err = 2, errOrder = 1: 0.9*(1/2) >= 0.1 *)
Example adjust_regime_nonvacuous :
  exists err p acc cur, 0 < cur /\ 0 < acc /\ 0 <= err /\ (1 <= p)%Z /\ acc < err /\
                        1/10 <= 9/10 * Rpower (acc/err) (1 / IZR p).
Proof.
  exists 2, 1%Z, 1, 1. repeat split; try lra; try reflexivity.
  replace (1 / IZR 1) with 1 by (simpl; field). rewrite Rpower_1 by lra. lra.
Qed.

(** the hypotheses of [take_step_accepts_only_accurate] are inhabited and the loop does return:
    an attempt that reports zero error is accepted at once, the next step is 5 h *)
Example take_step_nonvacuous :
  take_step ROps Rpower 1 (fun _ => (true, 0, 4%Z, tt)) 1000 0 1 (1/1000) (1/10) None None 0
  = Some (tt, 0 + 1/10, 5 * (1/10), 0%nat).
Proof.
  cbv [take_step sel_t1 ROps nltb nadd nmul ndiv nofZ].
  replace (Rltb 1 (0 + 95 / 100 * (1 / 10))) with false by (symmetry; apply Rltb_false; lra).
  replace (Rltb (0 + 1001 / 1000 * (1 / 10)) 1) with true by (symmetry; apply Rltb_true; lra).
  rewrite adjust_R. rewrite (adjust_zero_error 0 4 false (1/1000) (1/10)); try reflexivity; lra.
Qed.

(** a tableau that satisfies no order condition at all is rejected by the predicates (they are not trivially true) *)
Example order_conditions_discriminate : ~ order_conditions 1 (rk2_tab ROps) [1; 1].
Proof. cbv [order_conditions ord1 sumR fold_right]. lra. Qed.
