(** C20 — the transcribed Runge-Kutta steps ARE the generic explicit RK steps of the tableaux printed in the
    source comments (for every right-hand side f on every function space I -> R), and those tableaux satisfy
    Butcher's order conditions up to the documented orders (rational identities). *)
From Coq Require Import ZArith List Reals Lra FunctionalExtensionality.
Require Import Num C20_Model.
Import ListNotations.
Open Scope R_scope.

Ltac unfR := cbv [ROps VF VS vadd vsub vscale vabs n0 n1 nadd nsub nmul ndiv nopp nabs nofZ nleb nltb qz].

(** embedded result as the componentwise |y1 - y1hat| the RK2/RK3/Merson sources compute *)
Definition with_abs_err {I} (p : (I->R) * (I->R)) : (I->R) * (I->R) :=
  (fst p, fun i => Rabs (fst p i - snd p i)).
(** ... and as the signed difference y1hat - y1 the Fehlberg source computes *)
Definition with_diff_err {I} (p : (I->R) * (I->R)) : (I->R) * (I->R) :=
  (fst p, fun i => snd p i - fst p i).

Section F.
Variable I : Type.
Variable f : R -> (I->R) -> (I->R).
Notation VFR := (VF ROps I).

Lemma fcong a b (Y Y':I->R) : a = b -> (forall i, Y i = Y' i) -> f a Y = f b Y'.
Proof. intros -> H. f_equal. extensionality i. apply H. Qed.

(* stage values are named innermost-first; the two spellings of one stage are identified by [field] on the
   stage time and, componentwise, on the stage argument *)
Ltac stage := apply fcong; [ try reflexivity; field | let j := fresh "j" in intro j; cbv beta; try reflexivity; field ].
Ltac absorb k := repeat match goal with |- context[f ?a ?Y] =>
   lazymatch Y with context[f _ _] => fail | _ => idtac end;
   replace (f a Y) with k by (unfold k; stage) end.
Ltac step1 := match goal with |- context[f ?a ?Y] =>
   lazymatch Y with context[f _ _] => fail | _ => idtac end;
   let k := fresh "k" in set (k := f a Y); absorb k; clearbody k end.
Ltac open_step := cbv [with_abs_err with_diff_err rk2_step rk3_step rkm_step rkf_step rk_generic
                       rk2_tab rk3_tab rkm_tab rkf_tab rk_stages axpys t_rows t_b t_bh app fst snd]; unfR.

Lemma rk2_is_tableau t0 h y0 :
  rk2_step ROps VFR f t0 (t0+h) y0 (f t0 y0) = with_abs_err (rk_generic ROps VFR f (rk2_tab ROps) t0 h y0).
Proof.
  open_step. replace (t0 + h - t0) with h by ring.
  step1. step1.
  f_equal; extensionality i; [field | f_equal; field].
Qed.

Lemma rk3_is_tableau t0 h y0 :
  rk3_step ROps VFR f t0 (t0+h) y0 (f t0 y0) = with_abs_err (rk_generic ROps VFR f (rk3_tab ROps) t0 h y0).
Proof.
  open_step. replace (t0 + h - t0) with h by ring.
  step1. step1. step1.
  f_equal; extensionality i; [field | f_equal; field].
Qed.

Lemma rkm_is_tableau t0 h y0 :
  rkm_step ROps VFR f t0 (t0+h) y0 (f t0 y0) = with_abs_err (rk_generic ROps VFR f (rkm_tab ROps) t0 h y0).
Proof.
  open_step. replace (t0 + h - t0) with h by ring.
  step1. step1. step1. step1. step1.
  f_equal; extensionality i.
  - field.
  - replace (2/10) with (Rabs (2/10)) by (apply Rabs_pos_eq; lra). rewrite <- Rabs_mult.
    rewrite <- Rabs_Ropp. f_equal. field.
Qed.

Lemma rkf_is_tableau t0 h y0 :
  rkf_step ROps VFR f t0 (t0+h) y0 (f t0 y0) = with_diff_err (rk_generic ROps VFR f (rkf_tab ROps) t0 h y0).
Proof.
  open_step. replace (t0 + h - t0) with h by ring.
  step1. step1. step1. step1. step1. step1.
  f_equal; extensionality i; field.
Qed.
End F.

(** ------------------------------------------------------------------------------------------
    Butcher's order conditions (rooted trees up to order 5) for a weight vector b of a tableau. *)
Fixpoint dot (a b:list R) : R := match a, b with x::a', y::b' => x*y + dot a' b' | _, _ => 0 end.
Definition had (a b:list R) : list R := map2 Rmult a b.
Definition sumR (a:list R) : R := fold_right Rplus 0 a.
Definition cvec (tb:tableau (T:=R)) : list R := map fst (t_rows tb).
Definition Amul (tb:tableau (T:=R)) (v:list R) : list R := map (fun r => dot (snd r) v) (t_rows tb).

(** c_i = sum_j a_ij and the tableau is strictly lower triangular with one weight per stage *)
Definition row_sums (tb:tableau (T:=R)) : Prop := Forall (fun r => sumR (snd r) = fst r) (t_rows tb).
Fixpoint explicit_from (n:nat) (rows:list (R * list R)) : Prop :=
  match rows with [] => True | r::rest => length (snd r) = n /\ explicit_from (S n) rest end.
Definition well_formed (tb:tableau (T:=R)) : Prop :=
  explicit_from 0 (t_rows tb) /\ length (t_b tb) = length (t_rows tb) /\ length (t_bh tb) = length (t_rows tb).

Definition ord1 (tb:tableau (T:=R)) b := sumR b = 1.
Definition ord2 (tb:tableau (T:=R)) b := dot b (cvec tb) = 1/2.
Definition ord3 (tb:tableau (T:=R)) b := let c := cvec tb in dot b (had c c) = 1/3 /\ dot b (Amul tb c) = 1/6.
Definition ord4 (tb:tableau (T:=R)) b := let c := cvec tb in
  dot b (had c (had c c)) = 1/4 /\ dot b (had c (Amul tb c)) = 1/8 /\
  dot b (Amul tb (had c c)) = 1/12 /\ dot b (Amul tb (Amul tb c)) = 1/24.
Definition ord5 (tb:tableau (T:=R)) b :=
  let c := cvec tb in let c2 := had c c in let c3 := had c c2 in let Ac := Amul tb c in
  dot b (had c c3) = 1/5 /\ dot b (had c2 Ac) = 1/10 /\ dot b (had c (Amul tb c2)) = 1/15 /\
  dot b (had c (Amul tb Ac)) = 1/30 /\ dot b (had Ac Ac) = 1/20 /\ dot b (Amul tb c3) = 1/20 /\
  dot b (Amul tb (had c Ac)) = 1/40 /\ dot b (Amul tb (Amul tb c2)) = 1/60 /\
  dot b (Amul tb (Amul tb Ac)) = 1/120.
(** all conditions of order <= p (p = 1..5) *)
Definition order_conditions (p:nat) (tb:tableau (T:=R)) (b:list R) : Prop :=
  match p with
  | 1%nat => ord1 tb b
  | 2%nat => ord1 tb b /\ ord2 tb b
  | 3%nat => ord1 tb b /\ ord2 tb b /\ ord3 tb b
  | 4%nat => ord1 tb b /\ ord2 tb b /\ ord3 tb b /\ ord4 tb b
  | 5%nat => ord1 tb b /\ ord2 tb b /\ ord3 tb b /\ ord4 tb b /\ ord5 tb b
  | _ => False
  end.

Ltac oc := cbv [order_conditions ord1 ord2 ord3 ord4 ord5 row_sums well_formed explicit_from cvec Amul had dot sumR
               map map2 fold_right fst snd length t_rows t_b t_bh rk2_tab rk3_tab rkm_tab rkf_tab qz ROps ndiv nofZ];
           repeat first [ split | apply Forall_cons | apply Forall_nil ]; try reflexivity; try lra.

Lemma rk2_tableau_well_formed : well_formed (rk2_tab ROps) /\ row_sums (rk2_tab ROps).  Proof. oc. Qed.
Lemma rk3_tableau_well_formed : well_formed (rk3_tab ROps) /\ row_sums (rk3_tab ROps).  Proof. oc. Qed.
Lemma rkm_tableau_well_formed : well_formed (rkm_tab ROps) /\ row_sums (rkm_tab ROps).  Proof. oc. Qed.
Lemma rkf_tableau_well_formed : well_formed (rkf_tab ROps) /\ row_sums (rkf_tab ROps).  Proof. oc. Qed.

(** propagated solution: documented order; embedded solution: one less (RK2 2(1), RK3 3(2), Merson 4(3)) *)
Lemma rk2_order_conditions : order_conditions 2 (rk2_tab ROps) (t_b (rk2_tab ROps)) /\ order_conditions 1 (rk2_tab ROps) (t_bh (rk2_tab ROps)).
Proof. oc. Qed.
Lemma rk3_order_conditions : order_conditions 3 (rk3_tab ROps) (t_b (rk3_tab ROps)) /\ order_conditions 2 (rk3_tab ROps) (t_bh (rk3_tab ROps)).
Proof. oc. Qed.
Lemma rkm_order_conditions : order_conditions 4 (rkm_tab ROps) (t_b (rkm_tab ROps)) /\ order_conditions 3 (rkm_tab ROps) (t_bh (rkm_tab ROps)).
Proof. oc. Qed.
(** Fehlberg 4(5): the PROPAGATED weights (CY1..CY4 of the source) are the 4th-order ones, the weights of the
    comparison solution (propagated + CE) are the 5th-order ones. *)
Lemma rkf_order_conditions : order_conditions 4 (rkf_tab ROps) (t_b (rkf_tab ROps)) /\ order_conditions 5 (rkf_tab ROps) (t_bh (rkf_tab ROps)).
Proof. oc. Qed.

(** The orders are sharp: the next quadrature condition fails for each propagated solution.  For Fehlberg this
    REFUTES the documented order ("fifth order explicit integrator", getMethodMaxOrder() = 5): the solution that
    is propagated satisfies the order-4 conditions but not sum b_i c_i^4 = 1/5. *)
Lemma rk2_order_is_sharp : ~ order_conditions 3 (rk2_tab ROps) (t_b (rk2_tab ROps)).
Proof. cbv [order_conditions ord3 cvec had dot map map2 fst t_rows t_b rk2_tab qz ROps ndiv nofZ]. intros (_ & _ & H & _). lra. Qed.
Lemma rk3_order_is_sharp : ~ order_conditions 4 (rk3_tab ROps) (t_b (rk3_tab ROps)).
Proof. cbv [order_conditions ord4 cvec Amul had dot map map2 fst snd t_rows t_b rk3_tab qz ROps ndiv nofZ]. intros (_ & _ & _ & _ & H & _). lra. Qed.
Lemma rkm_order_is_sharp : ~ order_conditions 5 (rkm_tab ROps) (t_b (rkm_tab ROps)).
Proof. cbv [order_conditions ord5 cvec had dot map map2 fst t_rows t_b rkm_tab qz ROps ndiv nofZ]. intros (_ & _ & _ & _ & H & _). lra. Qed.
Lemma rkf_documented_order5_refuted : ~ order_conditions 5 (rkf_tab ROps) (t_b (rkf_tab ROps)).
Proof. cbv [order_conditions ord5 cvec had dot map map2 fst t_rows t_b rkf_tab qz ROps ndiv nofZ]. intros (_ & _ & _ & _ & H & _). lra. Qed.
