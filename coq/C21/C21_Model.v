(** C21: the attempt loop of AbstractIntegratorRep::takeOneStep together with the default attemptDAEStep and
    adjustStepSize (AbstractIntegratorRep.cpp), as far as "was the accepted step projected" is concerned.
    Polymorphic in the number type: theorems are over R, the float instance is run against the recorded
    adjustStepSize calls.  No proofs in this file. *)
From Coq Require Import ZArith List Bool.
Require Import Num.
Import ListNotations.

Section M. Context {T:Type} (K:NumOps T).
Definition q (a b:Z) : T := ndiv K (nofZ K a) (nofZ K b).
Definition tmin (a b:T) : T := if nltb K b a then b else a.      (* std::min *)
Definition tmax (a b:T) : T := if nltb K a b then b else a.      (* std::max *)

(** adjustStepSize(err, errOrder, hWasArtificiallyLimited).  [fin]/[zero]: isFinite(err), err==0;
    [cand] = Safety*h*pow(accuracy/err, 1/errOrder) as computed by the code (libm pow: an input here);
    [errLeAcc] = (err <= accuracy) as evaluated by the code.  Returns (new step size, success). *)
Definition adj_pre (fin zero limited errLeAcc:bool) (cand h:T) : T :=
  let n0 := if negb fin then nmul K (q 1 10) h else if zero then nmul K (nofZ K 5) h else cand in
  let n1 := if nltb K h n0 then (if limited || nltb K n0 (nmul K (q 12 10) h) then h else n0) else n0 in
  if nltb K n1 h then (if errLeAcc then h else tmin n1 (nmul K (q 9 10) h)) else n1.
Definition adj_clamp (n2 h:T) (minS maxS:option T) : T :=
  let n3 := tmax (tmin n2 (nmul K (nofZ K 5) h)) (nmul K (q 1 10) h) in
  let n4 := match minS with Some m => tmax n3 m | None => n3 end in
  match maxS with Some m => tmin n4 m | None => n4 end.
Definition adjust (fin zero limited errLeAcc:bool) (cand h:T) (minS maxS:option T) : T * bool :=
  let n5 := adj_clamp (adj_pre fin zero limited errLeAcc cand h) h minS maxS in
  (n5, nleb K h n5).

(** "within tolerance" as the projections are asked to judge it: ProjectOptions::UseInfinityNorm (set from
    Integrator::setUseInfinityNorm by realizeAndProjectKinematicsWithThrow and by the two local projections) selects
    the infinity norm of the (weighted) constraint errors, otherwise the RMS norm.  The norm is a parameter of the
    projection oracle's contract: [advProj]/[intProj] of C19_Model mean "passed projection in THIS norm". *)
Definition within_inf (errs:list T) (tol:T) : bool := forallb (fun e => nleb K (nabs K e) tol) errs.
Definition sumsq (errs:list T) : T := fold_right (fun e a => nadd K (nmul K e e) a) (n0 K) errs.
Definition within_rms (errs:list T) (tol:T) : bool :=           (* sqrt(sum e^2 / n) <= tol *)
  nleb K (sumsq errs) (nmul K (nofZ K (Z.of_nat (length errs))) (nmul K tol tol)).
Definition within_tol (useInfinityNorm:bool) (errs:list T) (tol:T) : bool :=
  if useInfinityNorm then within_inf errs tol else within_rms errs tol.

(** one trial step: what attemptODEStep / the projections did and what the error norm looked like *)
Record attempt := { a_conv : bool;       (* attemptODEStep returned true without throwing *)
                    a_big : bool;        (* errNorm > 2^errOrder * accuracy: "not worth projecting" *)
                    a_projOk : bool;     (* both local projections succeeded *)
                    a_fin : bool; a_zero : bool; a_errLeAcc : bool; a_cand : T; a_limited : bool }.

(** default attemptDAEStep: (converged, left through the projecting exit) *)
Definition dae (a:attempt) : bool * bool :=
  if negb (a_conv a) then (false, false)
  else if a_big a then (true, false)
  else if a_projOk a then (true, true) else (false, false).

(** the do-while of takeOneStep: Some (projected?, step size used by the accepted attempt, next step size) *)
Fixpoint attempts (errCtl:bool) (minS maxS:option T) (h:T) (l:list attempt) : option (bool * T * T) :=
  match l with
  | [] => None
  | a :: tl =>
      let (conv, pj) := dae a in
      (* errNorm = Infinity when not converged: not finite *)
      let r := adjust (conv && a_fin a) (conv && a_zero a) (a_limited a) (conv && a_errLeAcc a) (a_cand a) h minS maxS in
      if errCtl then (if snd r then Some (pj, h, fst r) else attempts errCtl minS maxS (fst r) tl)
      else Some (pj, h, h)
  end.
End M.
