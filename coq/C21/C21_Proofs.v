(** C21: proofs about the attempt loop / adjustStepSize model (C21_Model.v), over the reals. *)
From Coq Require Import ZArith Reals Lra List Bool QArith.
Require Import Num C21_Model.
Import ListNotations.
Local Open Scope R_scope.

Lemma tmin_R a b : tmin ROps a b = Rmin a b.
Proof. unfold tmin, Rmin; simpl. destruct (Rltb b a) eqn:E; destruct (Rle_dec a b); auto.
  - apply Rltb_true in E; lra. - apply Rltb_false in E. lra. Qed.
Lemma tmax_R a b : tmax ROps a b = Rmax a b.
Proof. unfold tmax, Rmax; simpl. destruct (Rltb a b) eqn:E; destruct (Rle_dec a b); auto.
  - apply Rltb_true in E; lra. - apply Rltb_false in E. lra. Qed.

Ltac mm := unfold Rmin, Rmax in *; repeat match goal with
  | |- context[Rle_dec ?a ?b] => destruct (Rle_dec a b)
  | H: context[Rle_dec ?a ?b] |- _ => destruct (Rle_dec a b) end; try lra.

Lemma adj_clamp_R n2 h minS maxS :
  adj_clamp ROps n2 h minS maxS =
  (let n3 := Rmax (Rmin n2 (5 * h)) (1 / 10 * h) in
   let n4 := match minS with Some m => Rmax n3 m | None => n3 end in
   match maxS with Some M => Rmin n4 M | None => n4 end).
Proof. unfold adj_clamp, q; simpl nmul; simpl nofZ; simpl ndiv. destruct minS, maxS; rewrite ?tmin_R, ?tmax_R; reflexivity. Qed.

Lemma adj_pre_bad fin zero limited cand h :
  0 < h -> (fin = false \/ (zero = false /\ cand < h)) -> adj_pre ROps fin zero limited false cand h <= 9/10*h.
Proof.
  intros Hh Hbad. unfold adj_pre, q; simpl nmul; simpl nofZ; simpl ndiv; simpl nltb. cbv zeta.
  set (n0 := if negb fin then IZR 1 / IZR 10 * h else if zero then IZR 5 * h else cand).
  assert (H0: n0 < h) by (unfold n0; destruct Hbad as [->|(-> & Hc)]; simpl; [lra|destruct (negb fin); lra]).
  assert (E1: Rltb h n0 = false) by (apply Rltb_false; lra). rewrite E1.
  assert (E2: Rltb n0 h = true) by (apply Rltb_true; lra). rewrite E2.
  rewrite tmin_R. mm.
Qed.

(** a step whose error estimate exceeds the accuracy (or is not finite, e.g. the step did not converge) is
    accepted by adjustStepSize only when the user's minimum step size forbids shrinking *)
Lemma adjust_accepts_bad_step_only_at_min_step fin zero limited cand h minS maxS :
  0 < h -> (fin = false \/ (zero = false /\ cand < h)) ->
  snd (adjust ROps fin zero limited false cand h minS maxS) = true ->
  exists m, minS = Some m /\ h <= m.
Proof.
  intros Hh Hbad HS. pose proof (adj_pre_bad fin zero limited cand h Hh Hbad) as Hn.
  unfold adjust in HS. cbv zeta in HS. simpl snd in HS. apply Rleb_true in HS. rewrite adj_clamp_R in HS. cbv zeta in HS.
  set (n2 := adj_pre ROps fin zero limited false cand h) in *. clearbody n2.
  destruct minS as [m|]; [exists m; split; auto|exfalso]; destruct maxS as [M|]; mm.
Qed.

(** contract of the oracle answers of one attempt, relative to the step size it is tried with *)
Definition att_ok (h:R) (a:attempt) : Prop :=
  (a_big a = true -> a_errLeAcc a = false /\ a_zero a = false) /\
  (a_fin a = true -> a_errLeAcc a = false -> a_zero a = false -> a_cand a < h) /\
  (a_errLeAcc a = true -> a_big a = false).

Fixpoint atts_ok (minS maxS:option R) (h:R) (l:list attempt) : Prop :=
  match l with
  | [] => True
  | a :: tl => att_ok h a /\
      let (conv, _) := dae a in
      atts_ok minS maxS (fst (adjust ROps (conv && a_fin a) (conv && a_zero a) (a_limited a) (conv && a_errLeAcc a) (a_cand a) h minS maxS)) tl
  end.

Lemma adjust_pos fin zero limited ela cand h minS maxS :
  0 < h -> (forall M, maxS = Some M -> 0 < M) ->
  0 < fst (adjust ROps fin zero limited ela cand h minS maxS).
Proof.
  intros Hh HM. unfold adjust. cbv zeta. simpl fst. rewrite adj_clamp_R. cbv zeta.
  set (n2 := adj_pre ROps fin zero limited ela cand h). clearbody n2.
  destruct minS as [m|], maxS as [M|]; try (specialize (HM M eq_refl)); mm.
Qed.

(** the accepted step of takeOneStep was projected, unless it was accepted at (or below) the user's minimum step
    size: an error-controlled integrator using the default attemptDAEStep *)
Lemma unprojected_step_only_at_min_step_partial minS maxS : forall l h hu hn,
  0 < h -> (forall M, maxS = Some M -> 0 < M) -> atts_ok minS maxS h l ->
  attempts ROps true minS maxS h l = Some (false, hu, hn) ->
  exists m, minS = Some m /\ hu <= m.
Proof.
  induction l as [|a tl IH]; intros h hu hn Hh HM HO H; [discriminate|].
  change (atts_ok minS maxS h (a :: tl)) with
    (att_ok h a /\ let (conv, _) := dae a in
       atts_ok minS maxS (fst (adjust ROps (conv && a_fin a) (conv && a_zero a) (a_limited a) (conv && a_errLeAcc a) (a_cand a) h minS maxS)) tl) in HO.
  change (attempts ROps true minS maxS h (a :: tl)) with
    (let (conv, pj) := dae a in
     let r := adjust ROps (conv && a_fin a) (conv && a_zero a) (a_limited a) (conv && a_errLeAcc a) (a_cand a) h minS maxS in
     if snd r then Some (pj, h, fst r) else attempts ROps true minS maxS (fst r) tl) in H.
  destruct HO as [(O1 & O2 & O3) HO].
  destruct (dae a) as [conv pj] eqn:ED. cbv zeta in H.
  set (r := adjust ROps (conv && a_fin a) (conv && a_zero a) (a_limited a) (conv && a_errLeAcc a) (a_cand a) h minS maxS) in *.
  destruct (snd r) eqn:ES.
  - inversion H; subst. clear H.
    (* accepted and unprojected *)
    unfold dae in ED.
    assert (B: (conv && a_errLeAcc a = false) /\ (conv && a_fin a = false \/ (conv && a_zero a = false /\ a_cand a < hu))).
    { destruct (a_conv a), (a_big a) eqn:EB, (a_projOk a); simpl in ED; inversion ED; subst; simpl; auto;
      destruct (O1 eq_refl) as [A1 A2]; rewrite ?A1, ?A2; split; auto; destruct (a_fin a) eqn:EF; auto. }
    destruct B as [B1 B2]. unfold r in ES. rewrite B1 in ES.
    eapply adjust_accepts_bad_step_only_at_min_step; eauto.
  - eapply IH; [| |exact HO|exact H]; auto. apply adjust_pos; auto.
Qed.

(** without the restriction the statement is false: minimum step size 0.1 = current step size, a converged attempt
    whose error estimate is beyond "worth projecting" is accepted unprojected (exact rationals) *)
Definition bad_attempt : attempt (T:=Q) :=
  {| a_conv := true; a_big := true; a_projOk := true; a_fin := true; a_zero := false; a_errLeAcc := false;
     a_cand := (1#100)%Q; a_limited := false |}.
Lemma every_accepted_step_projected_refuted :
  attempts QOps true (Some (1#10)%Q) None (1#10)%Q [bad_attempt] = Some (false, (1#10)%Q, (1#10)%Q).
Proof. vm_compute. reflexivity. Qed.

(** non-vacuity of [unprojected_step_only_at_min_step_partial]: the same attempt over R meets the contract *)
Definition bad_attempt_R : attempt (T:=R) :=
  {| a_conv := true; a_big := true; a_projOk := true; a_fin := true; a_zero := false; a_errLeAcc := false;
     a_cand := 1/100; a_limited := false |}.
Lemma contract_satisfiable : atts_ok (Some (1/10)) None (1/10) [bad_attempt_R] /\ 0 < 1/10.
Proof. simpl. unfold att_ok; simpl. repeat split; intros; try discriminate; auto; lra. Qed.

(** the two norms are not interchangeable: a state accepted in the RMS norm can violate the tolerance in the infinity
    norm the user asked for (one of several constraint equations carries the whole error) -- so a projection judged in
    the wrong norm does not establish the contract (exact rationals) *)
Lemma rms_within_does_not_give_inf_within :
  within_tol QOps false [(3#2)%Q; 0%Q; 0%Q; 0%Q] 1%Q = true /\ within_tol QOps true [(3#2)%Q; 0%Q; 0%Q; 0%Q] 1%Q = false.
Proof. split; vm_compute; reflexivity. Qed.

(** ... while the infinity norm is the stronger requirement (over R, tol >= 0) *)
Lemma inf_within_gives_rms_within errs tol : 0 <= tol -> within_tol ROps true errs tol = true -> within_tol ROps false errs tol = true.
Proof.
  intros Ht. unfold within_tol, within_inf, within_rms. intros H. apply Rleb_true.
  induction errs as [|e tl IH].
  - simpl. nra.
  - simpl in H. apply andb_prop in H. destruct H as [H1 H2]. apply Rleb_true in H1. specialize (IH H2).
    change (length (e :: tl)) with (S (length tl)). rewrite Nat2Z.inj_succ, succ_IZR. simpl sumsq. simpl nmul in *. simpl nadd. simpl nofZ in *.
    assert (A: e * e <= tol * tol).
    { simpl nabs in H1. unfold Rabs in H1. destruct (Rcase_abs e); nra. }
    nra.
Qed.
