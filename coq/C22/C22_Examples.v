(** C22: non-vacuity examples (the hypotheses of the theorems are satisfiable on concrete non-trivial inputs). *)
From Coq Require Import ZArith NArith QArith Reals List Bool Lra.
Require Import Num C22_Model C22_Proofs C22_Loc C22_TS.
Import ListNotations.

(** ---------------------------------------------------------------- localisation over R *)
Section ExLoc.
Local Open Scope R_scope.
(** one trigger monitored in both directions, window 1/10, accuracy*timescale 1/100: the step [0,1] with values
    -1 -> 2 must be localised (requirement 1/1000), whatever the oracle says in between *)
Definition ex_info : list (@trig_info R) := [ {| ti_mask := calcMask true true; ti_window := 1/10; ti_id := 7%nat |} ].
Lemma ex_masks_ok : masks_ok ex_info.
Proof. intros ti [<-|[]]. exists true, true. reflexivity. Qed.

Lemma ex_seen : seenAt ROps ex_info [-1] [2] 0 <> 0%N.
Proof.
  unfold seenAt. simpl nth. unfold ex_info. simpl ti_mask.
  apply (proj2 (proj1 (classify_exhaustive _ _ true true (sgn_in _) (sgn_in _)))).
  apply monitored_change_R. right. repeat split; lra.
Qed.

(** hypotheses of [localisation_brackets] are satisfiable, for every oracle e: an event is reported and the theorem applies *)
Example ex_event_reported (e:R -> list R) :
  exists s tr, event_phase ROps ex_info (1/100) e (1/2) (1/1000) 80 0 1 [-1] [2] = Event s tr /\
               l_tHigh s - l_tLow s <= l_narrowest s /\ ~ (l_tLow s < 1/2 < l_tHigh s) /\ l_cands s <> [].
Proof.
  assert (Hw: 0 < 1/1000) by lra. assert (Hlt: 0 < 1) by lra.
  assert (Hp: (9/10)^78 * (1 - 0) <= 1/1000).
  { replace ((9/10)^78) with (((9/10)^13)^6) by (rewrite <- pow_mult; reflexivity).
    assert ((9/10)^13 <= 3/10) by (simpl; lra).
    assert (0 <= (9/10)^13) by (apply pow_le; lra).
    assert (((9/10)^13)^6 <= (3/10)^6) by (apply pow_incr; lra).
    assert ((3/10)^6 <= 1/1000) by (simpl; lra). lra. }
  destruct (event_detected ex_info (1/100) ex_masks_ok e (1/2) (1/1000) Hw 78 0 1 [-1] [2] Hlt Hp) as [s [tr E]].
  { exists 0%nat. split; [simpl; auto|apply ex_seen]. }
  exists s, tr. split; auto.
  destruct (localisation_brackets ex_info (1/100) ex_masks_ok e (1/2) (1/1000) Hw 80 0 1 [-1] [2] s tr Hlt E) as [I [W N]].
  split; auto. split; auto. destruct I; auto.
Qed.
End ExLoc.

(** ---------------------------------------------------------------- time stepper over Q *)
Local Open Scope Q_scope.
(** a periodic handler (every 1/4, adds 1), a periodic reporter (every 1/2), a triggered handler (adds 10) *)
Definition ex_ss : subsystem Q :=
  {| ss_handlers := [ {| h_id := 0; h_next := fun t incl => Some (periodic_next (1#4) t incl); h_act := fun s _ => (s + 1, false, true) |} ];
     ss_reporters := [ {| h_id := 1; h_next := fun t incl => Some (periodic_next (1#2) t incl); h_act := fun s _ => (s, false, false) |} ] |}.
Definition ex_th : list (thandler Q) := [ {| th_id := 2; th_act := fun s _ => (s + 10, false, true) |} ].
Definition ex_flow (s:Q) (t t':Q) : Q := s.
Definition mkA st t ta ids := {| a_status := st; a_t := t; a_tadv := ta; a_ids := ids |}.
Definition ex_orc : list ians :=
  [ mkA StartOfContinuousInterval 0 0 []; mkA ReachedReportTime 0 0 []; mkA ReachedScheduledEvent 0 0 [];
    mkA StartOfContinuousInterval 0 0 [];
    mkA ReachedScheduledEvent (1#4) (1#4) []; mkA StartOfContinuousInterval (1#4) (1#4) [];
    mkA ReachedEventTrigger (3#10) (5#16) [2%nat]; mkA StartOfContinuousInterval (5#16) (5#16) [];
    mkA ReachedReportTime (1#2) (1#2) []; mkA ReachedScheduledEvent (1#2) (1#2) []; mkA StartOfContinuousInterval (1#2) (1#2) [];
    mkA ReachedScheduledEvent (3#4) (3#4) []; mkA StartOfContinuousInterval (3#4) (3#4) [];
    mkA ReachedReportTime 1 1 [] ].
Definition ex_summary (r:tsres Q) :=
  match r with
  | TSRet _ st s rest log uses => Some (st, length rest, map (fun k => (k_cause k, k_id k, k_time k, k_in k)) log, forallb use_okb uses, ts_pay s)
  | TSOracle _ _ _ _ => None end.

(** one TimeStepper::stepTo(1) consuming 14 integrator answers that all meet the contract: the handler calls are the
    reporter at 0, the periodic handler at 0, 1/4, the triggered handler at 5/16 (state already incremented twice), ... *)
Example ex_ts_run :
  ex_summary (ts_stepTo Q false [ex_ss] ex_th ex_flow false 1 (ts_init Q 0 0) ex_orc) =
  Some (ReachedReportTime, 0%nat,
        [(CReport, 1%nat, 0, 0); (CScheduled, 0%nat, 0, 0); (CScheduled, 0%nat, 1#4, 1); (CTriggered, 2%nat, 5#16, 2);
         (CReport, 1%nat, 1#2, 12); (CScheduled, 0%nat, 1#2, 12); (CScheduled, 0%nat, 3#4, 13); (CReport, 1%nat, 1, 14)],
        true, 14).
Proof. vm_compute. reflexivity. Qed.

Example ex_ids_disjoint : ids_disjoint Q ex_ss.
Proof. intros h r [<-|[]] [<-|[]]. simpl. discriminate. Qed.
