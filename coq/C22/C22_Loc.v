(** C22 proofs, part B continued: findEventCandidates and the localisation loop of takeOneStep, over the reals,
    for an arbitrary trigger-value oracle [e]. *)
From Coq Require Import ZArith NArith Reals List Bool Arith Lra Lia.
Require Import Num C22_Model C22_Proofs.
Import ListNotations.
Local Open Scope R_scope.

Section LOC.
Variable info : list (@trig_info R).
Variable accw : R.
(** every mask comes from EventTriggerInfo::calcTransitionMask *)
Definition masks_ok : Prop := forall ti, In ti info -> exists r f, ti_mask ti = calcMask r f.
Hypothesis Hmask : masks_ok.

Lemma mask_of i : exists r f, ti_mask (nth i info (no_info ROps)) = calcMask r f.
Proof.
  destruct (nth_in_or_default i info (no_info ROps)) as [H|H].
  - apply Hmask; auto.
  - rewrite H. exists false, false. reflexivity.
Qed.

Notation seen := (seenAt ROps info).
Definition window_of (i:nat) : R := accw * ti_window (nth i info (no_info ROps)).
Definition mkc (tLow:R) (eLow:list R) (tHigh:R) (eHigh:list R) (bias mw:R) (i:nat) : @cand R :=
  {| c_idx := i; c_est := estimateRootTime ROps tLow (nth i eLow 0) tHigh (nth i eHigh 0) bias mw;
     c_tr := toReport (seen eLow eHigh i) |}.
Definition has_seen (eLow eHigh:list R) (i:nat) : bool := negb (N.eqb (seen eLow eHigh i) 0).

Notation FE := (findEventCandidates ROps info accw).

Lemma fec_fold_cands tLow eLow tHigh eHigh bias mw : forall viable acc,
  f_cands (fold_left (fec_step ROps info accw tLow eLow tHigh eHigh bias mw) viable acc) =
  f_cands acc ++ map (mkc tLow eLow tHigh eHigh bias mw) (filter (has_seen eLow eHigh) viable).
Proof.
  induction viable as [|i r IH]; intros acc; simpl.
  - rewrite app_nil_r. reflexivity.
  - rewrite IH. unfold fec_step, has_seen.
    destruct (N.eqb (seen eLow eHigh i) 0) eqn:E; simpl; auto.
    rewrite <- app_assoc. reflexivity.
Qed.

(** the candidates are exactly the viable indices with a monitored transition, in order *)
Lemma fec_cands viable tLow eLow tHigh eHigh bias mw :
  f_cands (FE viable tLow eLow tHigh eHigh bias mw) =
  map (mkc tLow eLow tHigh eHigh bias mw) (filter (has_seen eLow eHigh) viable).
Proof. unfold findEventCandidates. rewrite fec_fold_cands. reflexivity. Qed.

Definition fec_inv (mw:R) (a:@fec R) : Prop :=
  (f_cands a = [] /\ f_earliest a = None /\ f_narrowest a = None) \/
  (exists te w, f_earliest a = Some te /\ f_narrowest a = Some w /\
     In te (map c_est (f_cands a)) /\ (forall c, In c (f_cands a) -> te <= c_est c) /\
     mw <= w /\ (forall c, In c (f_cands a) -> w <= Rmax mw (window_of (c_idx c))) /\
     (exists c, In c (f_cands a) /\ w = Rmax mw (window_of (c_idx c)) \/ w = mw)).

Lemma fec_step_inv tLow eLow tHigh eHigh bias mw a i :
  fec_inv mw a -> fec_inv mw (fec_step ROps info accw tLow eLow tHigh eHigh bias mw a i).
Proof.
  intros Ha. unfold fec_step. destruct (N.eqb (seen eLow eHigh i) 0); auto.
  right. cbn [f_cands f_earliest f_narrowest].
  set (est := estimateRootTime ROps tLow (nth i eLow (n0 ROps)) tHigh (nth i eHigh (n0 ROps)) bias mw).
  set (c0 := {| c_idx := i; c_est := est; c_tr := toReport (seen eLow eHigh i) |}).
  fold (window_of i). cbn [nmul ROps].
  destruct Ha as [[Hc [He Hn]]|[te [w [He [Hn [Hin [Hle [Hmw [Hub Hex]]]]]]]]].
  - rewrite Hc, He, Hn. simpl. exists est, (nmax ROps (accw * ti_window (nth i info (no_info ROps))) mw).
    rewrite nmax_R. fold (window_of i).
    repeat split; auto.
    + intros c [<-|[]]. simpl. lra.
    + apply Rmax_r.
    + intros c [<-|[]]. simpl. rewrite Rmax_comm. lra.
    + exists c0. left. split; [left; auto|]. simpl. apply Rmax_comm.
  - rewrite He, Hn. simpl. rewrite nmax_R, !nmin_R. fold (window_of i).
    exists (Rmin te est), (Rmax (Rmin w (window_of i)) mw).
    repeat split; auto.
    + rewrite map_app, in_app_iff. unfold Rmin. destruct (Rle_dec te est); [left; auto|right; simpl; auto].
    + intros c Hc. apply in_app_iff in Hc. destruct Hc as [Hc|[<-|[]]].
      * eapply Rle_trans; [apply Rmin_l|]. auto.
      * simpl. apply Rmin_r.
    + apply Rmax_r.
    + intros c Hc. apply in_app_iff in Hc. destruct Hc as [Hc|[<-|[]]].
      * specialize (Hub c Hc). apply Rmax_lub.
        -- eapply Rle_trans; [apply Rmin_l|]. auto.
        -- apply Rmax_l.
      * simpl. apply Rmax_lub; [|apply Rmax_l]. eapply Rle_trans; [apply Rmin_r|]. apply Rmax_r.
    + unfold Rmin. destruct (Rle_dec w (window_of i)).
      * rewrite Rmax_left by lra. destruct Hex as [c [[Hc E]|E]].
        -- exists c. left. split; auto. apply in_app_iff; auto.
        -- exists c. right. auto.
      * exists c0. left. split; [apply in_app_iff; right; left; auto|]. simpl. apply Rmax_comm.
Qed.

Lemma fec_fold_inv tLow eLow tHigh eHigh bias mw : forall viable a,
  fec_inv mw a -> fec_inv mw (fold_left (fec_step ROps info accw tLow eLow tHigh eHigh bias mw) viable a).
Proof. induction viable; simpl; intros; auto. apply IHviable. apply fec_step_inv. auto. Qed.

Lemma fec_bounds viable tLow eLow tHigh eHigh bias mw :
  let r := FE viable tLow eLow tHigh eHigh bias mw in
  f_cands r <> [] ->
  exists te w, f_earliest r = Some te /\ f_narrowest r = Some w /\
     In te (map c_est (f_cands r)) /\ (forall c, In c (f_cands r) -> te <= c_est c) /\
     mw <= w /\ (forall c, In c (f_cands r) -> w <= Rmax mw (window_of (c_idx c))).
Proof.
  intros r Hne. assert (H: fec_inv mw r).
  { unfold r, findEventCandidates. apply fec_fold_inv. left. auto. }
  destruct H as [[Hc _]|[te [w [A [B [C [D [E [F _]]]]]]]]]; [contradiction|].
  exists te, w. auto 10.
Qed.

(** a trigger is listed iff it was viable and its sign changed in a monitored direction over the interval;
    stated with the real trigger values *)
Definition changed_monitored (lo hi:R) (rising falling:bool) : Prop :=
  (0 < lo /\ hi <= 0 /\ falling = true) \/ (lo < 0 /\ 0 <= hi /\ rising = true).

Lemma monitored_change_R lo hi r f :
  monitored_change (sgnT ROps lo) (sgnT ROps hi) r f = true <-> changed_monitored lo hi r f.
Proof.
  unfold monitored_change, changed_monitored.
  destruct (sgn_cases lo) as [[A ->]|[[A ->]|[A ->]]]; destruct (sgn_cases hi) as [[B ->]|[[B ->]|[B ->]]];
    destruct r, f; simpl; split; intros H; try discriminate; try reflexivity;
    try (destruct H as [[? [? ?]]|[? [? ?]]]; try discriminate; lra);
    try (left; repeat split; auto; lra); try (right; repeat split; auto; lra).
Qed.

Lemma candidate_listed_iff viable tLow eLow tHigh eHigh bias mw i r f :
  ti_mask (nth i info (no_info ROps)) = calcMask r f ->
  (In i (map c_idx (f_cands (FE viable tLow eLow tHigh eHigh bias mw))) <->
   In i viable /\ changed_monitored (nth i eLow 0) (nth i eHigh 0) r f).
Proof.
  intros Hm. rewrite fec_cands, map_map. simpl. rewrite map_id, filter_In.
  unfold has_seen, seenAt. rewrite Hm. rewrite negb_true_iff, N.eqb_neq.
  pose proof (classify_exhaustive (sgnT ROps (nth i eLow 0)) (sgnT ROps (nth i eHigh 0)) r f (sgn_in _) (sgn_in _)) as [H _].
  cbn [n0 ROps]. rewrite H, monitored_change_R. tauto.
Qed.

(** ---------------------------------------------------------------------------------------- the loop *)
Variable e : R -> list R.
Variable tReport : R.
Variable mw : R.
Hypothesis Hmw : 0 < mw.

Notation ITER := (loc_iter ROps info accw e tReport mw).

(** invariant of the localisation loop, relative to the original step [t0,t1] with trigger values e0 at t0 *)
Record linv (t0 t1:R) (e0 e1:list R) (orig:list (@cand R)) (s:@lstate R) : Prop := {
  li_order : t0 <= l_tLow s /\ l_tLow s < l_tHigh s /\ l_tHigh s <= t1;
  li_ne : l_cands s <> [];
  li_seen : forall c, In c (l_cands s) -> seen (l_eLow s) (l_eHigh s) (c_idx c) <> 0%N;
  li_orig : forall c, In c (l_cands s) -> exists c0, In c0 orig /\ c_idx c0 = c_idx c /\ c_tr c0 = c_tr c;
  li_sign : forall c, In c (l_cands s) -> sgnT ROps (nth (c_idx c) (l_eLow s) 0) = sgnT ROps (nth (c_idx c) e0 0);
  li_est : forall c, In c (l_cands s) -> l_tLow s < c_est c < l_tHigh s;
  li_early : l_tLow s < l_earliest s < l_tHigh s /\ In (l_earliest s) (map c_est (l_cands s));
  li_narrow : mw <= l_narrowest s /\ forall c, In c (l_cands s) -> l_narrowest s <= Rmax mw (window_of (c_idx c));
  li_low : (l_tLow s = t0 /\ l_eLow s = e0) \/ l_eLow s = e (l_tLow s);
  li_high : (l_tHigh s = t1 /\ l_eHigh s = e1) \/ l_eHigh s = e (l_tHigh s);
  li_sub : exists keep, map c_idx (l_cands s) = filter keep (map c_idx orig)
}.

Lemma inside_R tLow tHigh : inside ROps tReport tLow tHigh = true <-> tLow < tReport < tHigh.
Proof. unfold inside. cbn [nltb ROps]. rewrite andb_true_iff, !Rltb_true. tauto. Qed.

Lemma tMid_inside t0 t1 e0 e1 orig s : linv t0 t1 e0 e1 orig s ->
  l_tLow s < tMid_of ROps tReport s < l_tHigh s.
Proof.
  intros I. unfold tMid_of. destruct (inside ROps tReport (l_tLow s) (l_tHigh s)) eqn:E.
  - apply inside_R in E. auto.
  - apply (li_early _ _ _ _ _ _ I).
Qed.

Lemma in_mkc_filter c tLow eLow tHigh eHigh bias viable :
  In c (map (mkc tLow eLow tHigh eHigh bias mw) (filter (has_seen eLow eHigh) viable)) ->
  In (c_idx c) viable /\ seen eLow eHigh (c_idx c) <> 0%N /\ c = mkc tLow eLow tHigh eHigh bias mw (c_idx c).
Proof.
  rewrite in_map_iff. intros [i [<- Hi]]. apply filter_In in Hi. destruct Hi as [Hv Hs].
  unfold has_seen in Hs. rewrite negb_true_iff, N.eqb_neq in Hs. simpl. auto.
Qed.

(** expected_report depends only on the sign before; used to show the reported transitions stay the original ones *)
Lemma tr_of_seen eLow eHigh i : seen eLow eHigh i <> 0%N ->
  toReport (seen eLow eHigh i) = expected_report (sgnT ROps (nth i eLow 0)).
Proof.
  intros H. unfold seenAt in *. destruct (mask_of i) as [r [f Hm]]. rewrite Hm in *.
  apply seen_before_only; auto using sgn_in.
Qed.

Definition orig_ok (t0 t1:R) (e0 e1:list R) (orig:list (@cand R)) : Prop :=
  forall c, In c orig -> seen e0 e1 (c_idx c) <> 0%N /\ c_tr c = expected_report (sgnT ROps (nth (c_idx c) e0 0)).

(** one iteration never hits the assert and preserves the invariant; afterwards the report time is not strictly
    inside the bracket, and the bracket shrank to one side of tMid *)
Lemma iter_ok t0 t1 e0 e1 orig s : orig_ok t0 t1 e0 e1 orig -> linv t0 t1 e0 e1 orig s ->
  exists s', ITER s = Some s' /\ linv t0 t1 e0 e1 orig s' /\
    ~ (l_tLow s' < tReport < l_tHigh s') /\
    let tMid := tMid_of ROps tReport s in
    ((l_tLow s' = l_tLow s /\ l_tHigh s' = tMid) \/ (l_tLow s' = tMid /\ l_tHigh s' = l_tHigh s)).
Proof.
  intros Ho I. pose proof (tMid_inside _ _ _ _ _ _ I) as Hmid.
  destruct (li_order _ _ _ _ _ _ I) as [O1 [O2 O3]].
  assert (Hnot: forall a b, (a = l_tLow s /\ b = tMid_of ROps tReport s) \/ (a = tMid_of ROps tReport s /\ b = l_tHigh s) ->
                ~ (a < tReport < b)).
  { intros a b Hab Hin. unfold tMid_of in *. destruct (inside ROps tReport (l_tLow s) (l_tHigh s)) eqn:E.
    - destruct Hab as [[-> ->]|[-> ->]]; lra.
    - assert (~ (l_tLow s < tReport < l_tHigh s)). { intro X. apply inside_R in X. congruence. }
      destruct Hab as [[-> ->]|[-> ->]]; lra. }
  unfold loc_iter. set (tMid := tMid_of ROps tReport s) in *. set (bias := next_bias ROps s).
  set (viable := map c_idx (l_cands s)).
  rewrite !fec_cands.
  set (loF := filter (has_seen (l_eLow s) (e tMid)) viable).
  destruct (map (mkc (l_tLow s) (l_eLow s) tMid (e tMid) bias mw) loF) as [|c1 cr] eqn:Elo.
  - (* nothing in the lower part: every candidate is seen in the upper part *)
    assert (Hall: forall c, In c (l_cands s) -> seen (l_eLow s) (e tMid) (c_idx c) = 0%N).
    { intros c Hc. apply map_eq_nil in Elo. destruct (N.eqb (seen (l_eLow s) (e tMid) (c_idx c)) 0) eqn:E0.
      - apply N.eqb_eq; auto.
      - exfalso. assert (In (c_idx c) loF).
        { unfold loF. apply filter_In. split; [unfold viable; apply in_map; auto|]. unfold has_seen. rewrite E0. auto. }
        rewrite Elo in H. destruct H. }
    assert (Hup: forall c, In c (l_cands s) -> seen (e tMid) (l_eHigh s) (c_idx c) <> 0%N /\
                  sgnT ROps (nth (c_idx c) (e tMid) 0) = sgnT ROps (nth (c_idx c) (l_eLow s) 0)).
    { intros c Hc. pose proof (li_seen _ _ _ _ _ _ I c Hc) as Hs. specialize (Hall c Hc).
      unfold seenAt in *. destruct (mask_of (c_idx c)) as [r [f Hm]]. rewrite Hm in *.
      apply split_transition; auto using sgn_in. }
    set (hiF := filter (has_seen (e tMid) (l_eHigh s)) viable).
    assert (HhiF: hiF = viable).
    { unfold hiF. clear -Hup. unfold viable. induction (l_cands s) as [|c r IH]; simpl; auto.
      assert (has_seen (e tMid) (l_eHigh s) (c_idx c) = true).
      { unfold has_seen. rewrite negb_true_iff, N.eqb_neq. apply Hup. left; auto. }
      rewrite H. f_equal. apply IH. intros; apply Hup; right; auto. }
    destruct (map (mkc tMid (e tMid) (l_tHigh s) (l_eHigh s) bias mw) hiF) as [|c2 cr2] eqn:Ehi.
    { exfalso. apply map_eq_nil in Ehi. rewrite HhiF in Ehi. unfold viable in Ehi. apply map_eq_nil in Ehi.
      apply (li_ne _ _ _ _ _ _ I); auto. }
    eexists. split; [reflexivity|].
    assert (Hne: f_cands (FE viable tMid (e tMid) (l_tHigh s) (l_eHigh s) bias mw) <> []).
    { rewrite fec_cands. fold hiF. rewrite Ehi. discriminate. }
    destruct (fec_bounds viable tMid (e tMid) (l_tHigh s) (l_eHigh s) bias mw Hne) as [te [w [B1 [B2 [B3 [B4 [B5 B6]]]]]]].
    rewrite fec_cands in B3, B4, B6. fold hiF in B3, B4, B6. rewrite Ehi in B3, B4, B6.
    assert (Hmem: forall c, In c (c2 :: cr2) -> In (c_idx c) viable /\ seen (e tMid) (l_eHigh s) (c_idx c) <> 0%N /\
                     c = mkc tMid (e tMid) (l_tHigh s) (l_eHigh s) bias mw (c_idx c)).
    { intros c Hc. rewrite <- Ehi in Hc. apply in_mkc_filter in Hc. auto. }
    assert (Hback: forall c, In c (c2 :: cr2) -> exists c', In c' (l_cands s) /\ c_idx c' = c_idx c).
    { intros c Hc. destruct (Hmem c Hc) as [Hv _]. unfold viable in Hv. apply in_map_iff in Hv.
      destruct Hv as [c' [E' H']]. exists c'. auto. }
    assert (Hest: forall c, In c (c2 :: cr2) -> tMid < c_est c < l_tHigh s).
    { intros c Hc. destruct (Hmem c Hc) as [_ [_ ->]]. simpl. apply root_estimate_inside_interval; lra. }
    split; [constructor; cbn [l_tLow l_tHigh l_eLow l_eHigh l_cands l_earliest l_narrowest]|].
    + lra.
    + discriminate.
    + intros c Hc. apply Hmem; auto.
    + intros c Hc. destruct (Hback c Hc) as [c' [Hc' Ei]]. destruct (li_orig _ _ _ _ _ _ I c' Hc') as [c0 [H0 [E0 T0]]].
      exists c0. split; auto. split; [congruence|]. destruct (Ho c0 H0) as [_ Htr]. rewrite Htr.
      destruct (Hmem c Hc) as [_ [Hs Ec]].
      assert (Et: c_tr c = toReport (seen (e tMid) (l_eHigh s) (c_idx c))) by (pattern c at 1; rewrite Ec; reflexivity).
      rewrite Et, tr_of_seen by auto.
      destruct (Hup c' Hc') as [_ Hsg]. rewrite <- Ei, Hsg, (li_sign _ _ _ _ _ _ I c' Hc'), E0. reflexivity.
    + intros c Hc. destruct (Hback c Hc) as [c' [Hc' Ei]]. destruct (Hup c' Hc') as [_ Hsg].
      rewrite <- Ei, Hsg. apply (li_sign _ _ _ _ _ _ I); auto.
    + auto.
    + rewrite B1. simpl. split; auto. apply in_map_iff in B3. destruct B3 as [c [<- Hc]]. apply Hest; auto.
    + rewrite B2. simpl. auto.
    + right. reflexivity.
    + apply (li_high _ _ _ _ _ _ I).
    + destruct (li_sub _ _ _ _ _ _ I) as [keep Hk]. exists keep. rewrite <- Hk. fold viable.
      rewrite <- Ehi, map_map. simpl. rewrite map_id. fold hiF. auto.
    + split; [apply Hnot; right; auto|]. simpl. right; auto.
  - (* candidates in the lower part *)
    eexists. split; [reflexivity|].
    assert (Hne: f_cands (FE viable (l_tLow s) (l_eLow s) tMid (e tMid) bias mw) <> []).
    { rewrite fec_cands. fold loF. rewrite Elo. discriminate. }
    destruct (fec_bounds viable (l_tLow s) (l_eLow s) tMid (e tMid) bias mw Hne) as [te [w [B1 [B2 [B3 [B4 [B5 B6]]]]]]].
    rewrite fec_cands in B3, B4, B6. fold loF in B3, B4, B6. rewrite Elo in B3, B4, B6.
    assert (Hmem: forall c, In c (c1 :: cr) -> In (c_idx c) viable /\ seen (l_eLow s) (e tMid) (c_idx c) <> 0%N /\
                     c = mkc (l_tLow s) (l_eLow s) tMid (e tMid) bias mw (c_idx c)).
    { intros c Hc. rewrite <- Elo in Hc. apply in_mkc_filter in Hc. auto. }
    assert (Hback: forall c, In c (c1 :: cr) -> exists c', In c' (l_cands s) /\ c_idx c' = c_idx c).
    { intros c Hc. destruct (Hmem c Hc) as [Hv _]. unfold viable in Hv. apply in_map_iff in Hv.
      destruct Hv as [c' [E' H']]. exists c'. auto. }
    assert (Hest: forall c, In c (c1 :: cr) -> l_tLow s < c_est c < tMid).
    { intros c Hc. destruct (Hmem c Hc) as [_ [_ ->]]. simpl. apply root_estimate_inside_interval; lra. }
    split; [constructor; cbn [l_tLow l_tHigh l_eLow l_eHigh l_cands l_earliest l_narrowest]|].
    + lra.
    + discriminate.
    + intros c Hc. apply Hmem; auto.
    + intros c Hc. destruct (Hback c Hc) as [c' [Hc' Ei]]. destruct (li_orig _ _ _ _ _ _ I c' Hc') as [c0 [H0 [E0 T0]]].
      exists c0. split; auto. split; [congruence|]. destruct (Ho c0 H0) as [_ Htr]. rewrite Htr.
      destruct (Hmem c Hc) as [_ [Hs Ec]].
      assert (Et: c_tr c = toReport (seen (l_eLow s) (e tMid) (c_idx c))) by (pattern c at 1; rewrite Ec; reflexivity).
      rewrite Et, tr_of_seen by auto.
      rewrite <- Ei, (li_sign _ _ _ _ _ _ I c' Hc'), E0. reflexivity.
    + intros c Hc. destruct (Hback c Hc) as [c' [Hc' Ei]]. rewrite <- Ei. apply (li_sign _ _ _ _ _ _ I); auto.
    + auto.
    + rewrite B1. simpl. split; auto. apply in_map_iff in B3. destruct B3 as [c [<- Hc]]. apply Hest; auto.
    + rewrite B2. simpl. auto.
    + apply (li_low _ _ _ _ _ _ I).
    + right. reflexivity.
    + destruct (li_sub _ _ _ _ _ _ I) as [keep Hk].
      exists (fun i => keep i && has_seen (l_eLow s) (e tMid) i).
      rewrite <- Elo, map_map. simpl. rewrite map_id. unfold loF, viable. rewrite Hk.
      clear. induction (map c_idx orig) as [|i r IH]; simpl; auto.
      destruct (keep i); simpl; [destruct (has_seen (l_eLow s) (e tMid) i); simpl; rewrite IH; auto|auto].
    + split; [apply Hnot; left; auto|]. simpl. left; auto.
Qed.

(** the estimates of the retained candidates are at least a tenth of the new bracket away from its ends *)
Definition lbuf (s:@lstate R) : Prop :=
  forall c, In c (l_cands s) ->
    l_tLow s + (l_tHigh s - l_tLow s) / 10 <= c_est c <= l_tHigh s - (l_tHigh s - l_tLow s) / 10.

Lemma iter_buf t0 t1 e0 e1 orig s s' : linv t0 t1 e0 e1 orig s -> ITER s = Some s' -> lbuf s'.
Proof.
  intros I. pose proof (tMid_inside _ _ _ _ _ _ I) as Hmid. unfold loc_iter.
  set (tMid := tMid_of ROps tReport s) in *. set (bias := next_bias ROps s). set (viable := map c_idx (l_cands s)).
  rewrite !fec_cands.
  destruct (map (mkc (l_tLow s) (l_eLow s) tMid (e tMid) bias mw) (filter (has_seen (l_eLow s) (e tMid)) viable)) as [|cx lx] eqn:Elo.
  - destruct (map (mkc tMid (e tMid) (l_tHigh s) (l_eHigh s) bias mw) (filter (has_seen (e tMid) (l_eHigh s)) viable)) as [|cy ly] eqn:Ehi;
      [discriminate|].
    intros E; inversion E; subst s'; clear E. intros c Hc. cbn [l_cands l_tLow l_tHigh] in *.
    rewrite <- Ehi in Hc. apply in_mkc_filter in Hc. destruct Hc as [_ [_ ->]]. simpl.
    apply root_estimate_buffer; lra.
  - intros E; inversion E; subst s'; clear E. intros c Hc. cbn [l_cands l_tLow l_tHigh] in *.
    rewrite <- Elo in Hc. apply in_mkc_filter in Hc. destruct Hc as [_ [_ ->]]. simpl.
    apply root_estimate_buffer; lra.
Qed.

Notation LOOP := (loc_loop ROps info accw e tReport mw).

Lemma too_wide_R s : too_wide ROps s = true <-> l_narrowest s < l_tHigh s - l_tLow s.
Proof. unfold too_wide. cbn [nltb nsub ROps]. apply Rltb_true. Qed.

(** the loop never hits the assert; when it finishes, the invariant holds, the bracket is no wider than the
    narrowest window of the retained candidates, and the report time is not strictly inside *)
Lemma loop_ok t0 t1 e0 e1 orig : orig_ok t0 t1 e0 e1 orig -> forall fuel s tr, linv t0 t1 e0 e1 orig s ->
  match LOOP fuel s tr with
  | LDone s' tr' => linv t0 t1 e0 e1 orig s' /\ lbuf s' /\ l_tHigh s' - l_tLow s' <= l_narrowest s' /\
                    ~ (l_tLow s' < tReport < l_tHigh s') /\ (length tr < length tr')%nat
  | LAssert _ => False
  | LFuel _ => True
  end.
Proof.
  intros Ho. induction fuel as [|f IH]; intros s tr I; cbn [loc_loop]; auto.
  destruct (iter_ok _ _ _ _ _ s Ho I) as [s' [E [I' [Hn _]]]]. rewrite E.
  destruct (too_wide ROps s') eqn:W.
  - specialize (IH s' (tr ++ [(l_tLow s, l_tHigh s, tMid_of ROps tReport s)]) I').
    destruct (LOOP f s' _); auto. destruct IH as [A [B [C [D F]]]].
    split; [auto|]. split; [auto|]. split; [auto|]. split; [auto|].
    rewrite app_length in F. simpl in F. lia.
  - split; [auto|]. split; [exact (iter_buf _ _ _ _ _ s s' I E)|]. split; [|split; [auto|]].
    + assert (~ l_narrowest s' < l_tHigh s' - l_tLow s'). { intro X. apply too_wide_R in X. congruence. } lra.
    + rewrite app_length. simpl. lia.
Qed.

(** termination: every iteration after the first keeps at most 9/10 of the bracket, and the loop stops at the latest
    when the bracket is no wider than minWindow; so (9/10)^n (t1-t0) <= minWindow makes n+2 iterations enough *)
Lemma iter_shrink t0 t1 e0 e1 orig s s' : orig_ok t0 t1 e0 e1 orig -> linv t0 t1 e0 e1 orig s -> lbuf s ->
  ITER s = Some s' ->
  l_tHigh s' - l_tLow s' < l_tHigh s - l_tLow s /\
  (~ (l_tLow s < tReport < l_tHigh s) -> l_tHigh s' - l_tLow s' <= 9/10 * (l_tHigh s - l_tLow s)).
Proof.
  intros Ho I Hb E. destruct (iter_ok _ _ _ _ _ s Ho I) as [s2 [E2 [_ [_ Hside]]]]. rewrite E in E2. inversion E2; subst s2.
  pose proof (tMid_inside _ _ _ _ _ _ I) as Hmid. cbv zeta in Hside. split.
  - destruct Hside as [[-> ->]|[-> ->]]; lra.
  - intros Hni. assert (Em: tMid_of ROps tReport s = l_earliest s).
    { unfold tMid_of. destruct (inside ROps tReport (l_tLow s) (l_tHigh s)) eqn:X; auto. apply inside_R in X. tauto. }
    destruct (li_early _ _ _ _ _ _ I) as [_ Hin]. apply in_map_iff in Hin. destruct Hin as [c [Ec Hc]].
    specialize (Hb c Hc). rewrite Ec in Hb. rewrite Em in Hside. destruct Hside as [[-> ->]|[-> ->]]; lra.
Qed.

Lemma loop_terminates_noreport t0 t1 e0 e1 orig : orig_ok t0 t1 e0 e1 orig -> forall n s tr,
  linv t0 t1 e0 e1 orig s -> lbuf s -> ~ (l_tLow s < tReport < l_tHigh s) ->
  (9/10)^n * (l_tHigh s - l_tLow s) <= mw ->
  match LOOP (S n) s tr with LFuel _ => False | _ => True end.
Proof.
  intros Ho. induction n as [|n IH]; intros s tr I Hb Hni Hw.
  - cbn [loc_loop]. destruct (iter_ok _ _ _ _ _ s Ho I) as [s' [E [I' _]]]. rewrite E.
    destruct (iter_shrink _ _ _ _ _ _ _ Ho I Hb E) as [Hlt _].
    destruct (too_wide ROps s') eqn:W; auto. apply too_wide_R in W. destruct (li_narrow _ _ _ _ _ _ I') as [Hn _].
    simpl in Hw. lra.
  - cbn [loc_loop]. destruct (iter_ok _ _ _ _ _ s Ho I) as [s' [E [I' [Hn' _]]]]. rewrite E.
    destruct (iter_shrink _ _ _ _ _ _ _ Ho I Hb E) as [_ H9]. specialize (H9 Hni).
    destruct (too_wide ROps s') eqn:W; auto.
    apply IH; auto.
    + exact (iter_buf _ _ _ _ _ s s' I E).
    + simpl in Hw. assert (0 <= (9/10)^n) by (apply pow_le; lra).
      eapply Rle_trans; [|exact Hw].
      replace (9 / 10 * (9 / 10) ^ n * (l_tHigh s - l_tLow s)) with ((9 / 10) ^ n * (9 / 10 * (l_tHigh s - l_tLow s))) by ring.
      apply Rmult_le_compat_l; auto.
Qed.

Lemma loop_terminates t0 t1 e0 e1 orig : orig_ok t0 t1 e0 e1 orig -> forall n s tr,
  linv t0 t1 e0 e1 orig s -> lbuf s -> (9/10)^n * (l_tHigh s - l_tLow s) <= mw ->
  match LOOP (S (S n)) s tr with LFuel _ => False | _ => True end.
Proof.
  intros Ho n s tr I Hb Hw. cbn [loc_loop]. destruct (iter_ok _ _ _ _ _ s Ho I) as [s' [E [I' [Hn' _]]]]. rewrite E.
  destruct (iter_shrink _ _ _ _ _ _ _ Ho I Hb E) as [Hlt _].
  destruct (too_wide ROps s') eqn:W; auto.
  apply (loop_terminates_noreport t0 t1 e0 e1 orig Ho n s'); auto.
  - exact (iter_buf _ _ _ _ _ s s' I E).
  - assert (0 <= (9/10)^n) by (apply pow_le; lra).
    eapply Rle_trans; [|exact Hw]. apply Rmult_le_compat_l; auto. lra.
Qed.

(** ---------------------------------------------------------------------------------------- event_phase *)
Notation PHASE := (event_phase ROps info accw e tReport mw).

Definition orig_of (t0 t1:R) (e0 e1:list R) : list (@cand R) := f_cands (FE (seq 0 (length e0)) t0 e0 t1 e1 1 mw).

Lemma orig_is_ok t0 t1 e0 e1 : orig_ok t0 t1 e0 e1 (orig_of t0 t1 e0 e1).
Proof.
  intros c Hc. unfold orig_of in Hc. rewrite fec_cands in Hc. apply in_mkc_filter in Hc. destruct Hc as [_ [Hs Ec]].
  split; auto. pattern c at 1; rewrite Ec. simpl. apply tr_of_seen; auto.
Qed.

Definition s_init (t0 t1:R) (e0 e1:list R) : @lstate R :=
  let r := FE (seq 0 (length e0)) t0 e0 t1 e1 1 mw in
  {| l_tLow := t0; l_tHigh := t1; l_eLow := e0; l_eHigh := e1; l_cands := f_cands r;
     l_earliest := oget ROps (f_earliest r); l_narrowest := oget ROps (f_narrowest r); l_bias := 1;
     l_side2 := 0%Z; l_side1 := 0%Z |}.

Lemma init_inv t0 t1 e0 e1 : t0 < t1 -> orig_of t0 t1 e0 e1 <> [] ->
  linv t0 t1 e0 e1 (orig_of t0 t1 e0 e1) (s_init t0 t1 e0 e1) /\ lbuf (s_init t0 t1 e0 e1).
Proof.
  intros Hlt Hne. unfold orig_of in *.
  destruct (fec_bounds _ t0 e0 t1 e1 1 mw Hne) as [te [w [B1 [B2 [B3 [B4 [B5 B6]]]]]]].
  assert (Hmem: forall c, In c (f_cands (FE (seq 0 (length e0)) t0 e0 t1 e1 1 mw)) ->
            seen e0 e1 (c_idx c) <> 0%N /\ c = mkc t0 e0 t1 e1 1 mw (c_idx c)).
  { intros c Hc. rewrite fec_cands in Hc. apply in_mkc_filter in Hc. tauto. }
  split.
  - constructor; unfold s_init; cbn [l_tLow l_tHigh l_eLow l_eHigh l_cands l_earliest l_narrowest].
    + lra.
    + auto.
    + intros c Hc. apply Hmem; auto.
    + intros c Hc. exists c. auto.
    + auto.
    + intros c Hc. destruct (Hmem c Hc) as [_ ->]. simpl. apply root_estimate_inside_interval; auto.
    + rewrite B1. simpl. split; auto. apply in_map_iff in B3. destruct B3 as [c [<- Hc]].
      destruct (Hmem c Hc) as [_ ->]. simpl. apply root_estimate_inside_interval; auto.
    + rewrite B2. simpl. auto.
    + left; auto.
    + left; auto.
    + exists (fun _ => true). clear. induction (map c_idx _) as [|i r IH]; simpl; auto. f_equal; auto.
  - intros c Hc. unfold s_init in *. cbn [l_tLow l_tHigh l_cands] in *. destruct (Hmem c Hc) as [_ ->]. simpl.
    apply root_estimate_buffer; auto.
Qed.

Lemma event_phase_eq fuel t0 t1 e0 e1 :
  PHASE fuel t0 t1 e0 e1 =
  match orig_of t0 t1 e0 e1 with
  | [] => NoEvent
  | _ :: _ =>
      let s0 := s_init t0 t1 e0 e1 in
      if Rleb (t1 - t0) (l_narrowest s0) && negb (inside ROps tReport t0 t1) then Event s0 []
      else match LOOP fuel s0 [] with LDone s tr => Event s tr | LAssert s => EAssert s | LFuel s => EFuel s end
  end.
Proof. unfold event_phase, orig_of, s_init. destruct (f_cands _); reflexivity. Qed.

(** MAIN: whenever the event phase reports an event, for ANY oracle e and any fuel *)
Lemma localisation_brackets fuel t0 t1 e0 e1 s tr : t0 < t1 ->
  PHASE fuel t0 t1 e0 e1 = Event s tr ->
  linv t0 t1 e0 e1 (orig_of t0 t1 e0 e1) s /\
  l_tHigh s - l_tLow s <= l_narrowest s /\
  ~ (l_tLow s < tReport < l_tHigh s).
Proof.
  intros Hlt. rewrite event_phase_eq.
  destruct (orig_of t0 t1 e0 e1) as [|c0 cr] eqn:Eo; [intro X; discriminate X|].
  assert (Hne: orig_of t0 t1 e0 e1 <> []) by (rewrite Eo; discriminate).
  destruct (init_inv t0 t1 e0 e1 Hlt Hne) as [I0 Hb0]. rewrite Eo in I0. cbv zeta.
  destruct (Rleb (t1 - t0) (l_narrowest (s_init t0 t1 e0 e1)) && negb (inside ROps tReport t0 t1)) eqn:Ec.
  - intros E; inversion E; subst; clear E. apply andb_true_iff in Ec. destruct Ec as [A B].
    apply Rleb_true in A. apply negb_true_iff in B.
    split; [exact I0|]. split; [exact A|].
    intro X. apply inside_R in X. unfold s_init in X. cbn [l_tLow l_tHigh] in X. congruence.
  - pose proof (loop_ok t0 t1 e0 e1 _ (orig_is_ok t0 t1 e0 e1) fuel _ [] ltac:(rewrite Eo; exact I0)) as H.
    destruct (LOOP fuel (s_init t0 t1 e0 e1) []); intros E; try discriminate E.
    inversion E; subst; clear E. rewrite Eo in H. tauto.
Qed.

Lemma event_phase_never_asserts fuel t0 t1 e0 e1 s : t0 < t1 -> PHASE fuel t0 t1 e0 e1 <> EAssert s.
Proof.
  intros Hlt. rewrite event_phase_eq.
  destruct (orig_of t0 t1 e0 e1) as [|c0 cr] eqn:Eo; [discriminate|].
  assert (Hne: orig_of t0 t1 e0 e1 <> []) by (rewrite Eo; discriminate).
  destruct (init_inv t0 t1 e0 e1 Hlt Hne) as [I0 _]. cbv zeta.
  destruct (Rleb (t1 - t0) (l_narrowest (s_init t0 t1 e0 e1)) && negb (inside ROps tReport t0 t1)); [discriminate|].
  pose proof (loop_ok t0 t1 e0 e1 _ (orig_is_ok t0 t1 e0 e1) fuel _ [] I0) as H.
  destruct (LOOP fuel (s_init t0 t1 e0 e1) []); try discriminate. destruct H.
Qed.

Lemma event_phase_terminates n t0 t1 e0 e1 s : t0 < t1 -> (9/10)^n * (t1 - t0) <= mw ->
  PHASE (S (S n)) t0 t1 e0 e1 <> EFuel s.
Proof.
  intros Hlt Hw. rewrite event_phase_eq.
  destruct (orig_of t0 t1 e0 e1) as [|c0 cr] eqn:Eo; [discriminate|].
  assert (Hne: orig_of t0 t1 e0 e1 <> []) by (rewrite Eo; discriminate).
  destruct (init_inv t0 t1 e0 e1 Hlt Hne) as [I0 Hb0]. cbv zeta.
  destruct (Rleb (t1 - t0) (l_narrowest (s_init t0 t1 e0 e1)) && negb (inside ROps tReport t0 t1)); [discriminate|].
  pose proof (loop_terminates t0 t1 e0 e1 _ (orig_is_ok t0 t1 e0 e1) n _ [] I0 Hb0 Hw) as H.
  destruct (LOOP (S (S n)) (s_init t0 t1 e0 e1) []); try discriminate. destruct H.
Qed.

(** no event is reported exactly when no trigger changed sign in a monitored direction over the whole step *)
Lemma no_event_iff fuel t0 t1 e0 e1 :
  PHASE fuel t0 t1 e0 e1 = NoEvent <->
  forall i, (i < length e0)%nat -> seen e0 e1 i = 0%N.
Proof.
  unfold event_phase. rewrite fec_cands. split.
  - destruct (map _ _) eqn:E.
    + intros _ i Hi. apply map_eq_nil in E. destruct (N.eqb (seen e0 e1 i) 0) eqn:X; [apply N.eqb_eq; auto|].
      exfalso. assert (In i (filter (has_seen e0 e1) (seq 0 (length e0)))).
      { apply filter_In. split; [apply in_seq; lia|]. unfold has_seen. rewrite X. auto. }
      rewrite E in H. destruct H.
    + match goal with |- (if ?c then _ else _) = _ -> _ => destruct c end; [discriminate|].
      match goal with |- match ?l with _ => _ end = _ -> _ => destruct l end; discriminate.
  - intros H. assert (E: filter (has_seen e0 e1) (seq 0 (length e0)) = []).
    { assert (forall l, (forall i, In i l -> (i < length e0)%nat) -> filter (has_seen e0 e1) l = []).
      { induction l as [|i r IH]; simpl; auto. intros Hl. unfold has_seen at 1. rewrite (H i) by (apply Hl; auto). simpl.
        apply IH. intros; apply Hl; auto. }
      apply H0. intros i Hi. apply in_seq in Hi. lia. }
    rewrite E. reflexivity.
Qed.

(** detection: if some trigger changed sign in a monitored direction over the whole step, an event IS reported (given
    fuel for the loop), i.e. a crossing that persists across a step is not skipped *)
Lemma event_detected n t0 t1 e0 e1 : t0 < t1 -> (9/10)^n * (t1 - t0) <= mw ->
  (exists i, (i < length e0)%nat /\ seen e0 e1 i <> 0%N) ->
  exists s tr, PHASE (S (S n)) t0 t1 e0 e1 = Event s tr.
Proof.
  intros Hlt Hw [i [Hi Hs]].
  destruct (PHASE (S (S n)) t0 t1 e0 e1) as [|s tr|s|s] eqn:E.
  - exfalso. apply Hs. apply (proj1 (no_event_iff (S (S n)) t0 t1 e0 e1) E i Hi).
  - exists s, tr. reflexivity.
  - exfalso. apply (event_phase_never_asserts (S (S n)) t0 t1 e0 e1 s Hlt E).
  - exfalso. apply (event_phase_terminates n t0 t1 e0 e1 s Hlt Hw E).
Qed.
End LOC.
