(** C22: executable model of event detection, localisation and dispatch.  No proofs in this file.

    Part A (finite tables)  SimTKcommon/Simulation/include/SimTKcommon/internal/Event.h:
        Event::classifyTransition, Event::maskTransition, EventTriggerInfo::calcTransitionMask,
        EventTriggerInfo::calcTransitionToReport; SimTK::sign (Scalar.h).
    Part B (numeric, polymorphic in [NumOps T])  SimTKmath/Integrators/src/IntegratorRep.h:
        estimateRootTime, findEventCandidates, calcEventOrder/setTriggeredEvents;
        SimTKmath/Integrators/src/AbstractIntegratorRep.cpp: the event part of takeOneStep (first
        findEventCandidates over the whole step, the "already localised" exit, the localisation loop).
        Trigger values at the interpolated times come from an oracle [e : T -> list T].
    Part C (times in Q)  SimTKmath/Integrators/src/TimeStepper.cpp: TimeStepperRep::stepTo;
        SimTKcommon/Simulation/src/System.cpp: System::Guts::calcTimeOfNextScheduledEventImpl (loop over
        subsystems), DefaultSystemSubsystem::Guts::calcTimeOfNextScheduledEventImpl / handleEventsImpl /
        reportEventsImpl (loops over handlers); EventHandler.cpp: PeriodicEventHandler::getNextEventTime.
        The integrator is an oracle: one recorded answer per Integrator::stepTo call. *)
From Coq Require Import ZArith NArith QArith Qround List Bool Arith.
Require Import Num.
Import ListNotations.

(** ------------------------------------------------------------------------------------------
    Part A: Event::Trigger is the enum {NoEventTrigger=0, PositiveToNegative=Falling=1,
    NegativeToPositive=Rising=2, AnySignChange=3}; masks are unions of these. *)
Definition NoEventTrigger : N := 0.
Definition PositiveToNegative : N := 1.
Definition NegativeToPositive : N := 2.
Definition AnySignChange : N := 3.

(** Event::classifyTransition(int before, int after) *)
Definition classify (before after : Z) : N :=
  if Z.eqb before after then NoEventTrigger
  else if Z.eqb before 0 then NoEventTrigger
  else if Z.eqb before 1 then PositiveToNegative
  else NegativeToPositive.

(** Event::maskTransition(transition, mask) = Trigger(transition & mask) *)
Definition maskT (transition mask : N) : N := N.land transition mask.

(** EventTriggerInfo::calcTransitionMask() from the two "should trigger on ..." flags *)
Definition calcMask (rising falling : bool) : N :=
  N.lor (if rising then NegativeToPositive else 0%N) (if falling then PositiveToNegative else 0%N).

(** EventTriggerInfo::calcTransitionToReport(transitionSeen) *)
Definition toReport (seen : N) : N :=
  if negb (N.eqb (N.land seen NegativeToPositive) 0) then NegativeToPositive
  else if negb (N.eqb (N.land seen PositiveToNegative) 0) then PositiveToNegative
  else NoEventTrigger.   (* the code asserts here *)

(** what findEventCandidates computes for one trigger from the two signs and the mask *)
Definition transitionSeen (sLow sHigh : Z) (mask : N) : N := maskT (classify sLow sHigh) mask.

(** ------------------------------------------------------------------------------------------
    Part B *)
Section Loc.
Context {T:Type} (K:NumOps T).

Definition sgnT (x:T) : Z := if nltb K (n0 K) x then 1%Z else if nltb K x (n0 K) then (-1)%Z else 0%Z.  (* SimTK::sign *)
Definition nmin (a b:T) : T := if nltb K b a then b else a.          (* std::min(a,b) *)
Definition nmax (a b:T) : T := if nltb K a b then b else a.          (* std::max(a,b) *)
Definition omin (o:option T) (x:T) : T := match o with None => x | Some a => nmin a x end.
        (* std::min(a,x) where None stands for a = Infinity *)
Definition two : T := nofZ K 2.
Definition tenth : T := ndiv K (nofZ K 1) (nofZ K 10).      (* the literal 0.1 *)
Definition isz (x:T) : bool := negb (nltb K x (n0 K)) && negb (nltb K (n0 K) x).    (* x==0 for non-NaN x *)

(** IntegratorRep::estimateRootTime *)
Definition estimateRootTime (tLow fLow tHigh fHigh bias minWindow : T) : T :=
  let h := nsub K tHigh tLow in
  if isz fLow || isz fHigh || nleb K h minWindow then nadd K tLow (ndiv K h two)
  else
    let x := ndiv K fHigh (nsub K fHigh (nmul K bias fLow)) in
    let tRoot := nsub K tHigh (nmul K x h) in
    let buffer := nmax (nmul K tenth h) (ndiv K minWindow two) in
    let tRoot := nmax tRoot (nadd K tLow buffer) in
    nmin tRoot (nsub K tHigh buffer).

(** per-trigger data the integrator obtained from System::calcEventTriggerInfo *)
Record trig_info := { ti_mask : N; ti_window : T; ti_id : nat }.
Definition no_info : trig_info := {| ti_mask := 0; ti_window := (n0 K); ti_id := 0 |}.

Record cand := { c_idx : nat; c_est : T; c_tr : N }.
Record fec := { f_cands : list cand; f_earliest : option T; f_narrowest : option T }.

Section Find.
Variable info : list trig_info.
Variable accw : T.      (* accuracyInUse*timeScaleInUse *)

Definition seenAt (eLow eHigh : list T) (i:nat) : N :=
  transitionSeen (sgnT (nth i eLow (n0 K))) (sgnT (nth i eHigh (n0 K))) (ti_mask (nth i info no_info)).

(** one pass of the loop body of findEventCandidates, accumulator = (candidates so far, earliest, narrowest) *)
Definition fec_step (tLow:T) (eLow:list T) (tHigh:T) (eHigh:list T) (bias minWindow:T) (acc:fec) (i:nat) : fec :=
  let seen := seenAt eLow eHigh i in
  if N.eqb seen 0 then acc
  else
    let est := estimateRootTime tLow (nth i eLow (n0 K)) tHigh (nth i eHigh (n0 K)) bias minWindow in
    {| f_cands := f_cands acc ++ [{| c_idx := i; c_est := est; c_tr := toReport seen |}];
       f_narrowest := Some (nmax (omin (f_narrowest acc) (nmul K accw (ti_window (nth i info no_info)))) minWindow);
       f_earliest := Some (omin (f_earliest acc) est) |}.

(** findEventCandidates: [viable] = indices to look at (all of 0..nEvents-1 on the first call) *)
Definition findEventCandidates (viable:list nat) (tLow:T) (eLow:list T) (tHigh:T) (eHigh:list T) (bias minWindow:T) : fec :=
  fold_left (fec_step tLow eLow tHigh eHigh bias minWindow) viable
            {| f_cands := []; f_earliest := None; f_narrowest := None |}.

Definition oget (o:option T) : T := match o with Some x => x | None => (n0 K) end.

(** state of the localisation loop of takeOneStep *)
Record lstate := { l_tLow : T; l_tHigh : T; l_eLow : list T; l_eHigh : list T; l_cands : list cand;
                   l_earliest : T; l_narrowest : T; l_bias : T; l_side2 : Z; l_side1 : Z }.

Variable e : T -> list T.          (* trigger values of the state interpolated at a time *)
Variable tReport : T.
Variable minWindow : T.

Definition inside (tLow tHigh : T) : bool := nltb K tLow tReport && nltb K tReport tHigh.

Definition next_bias (s:lstate) : T :=
  if negb (Z.eqb (l_side2 s) 0) && negb (Z.eqb (l_side1 s) 0) then
    (if negb (Z.eqb (l_side2 s) (l_side1 s)) then (n1 K)
     else if Z.ltb (l_side1 s) 0 then ndiv K (l_bias s) two else nmul K (l_bias s) two)
  else l_bias s.

Definition tMid_of (s:lstate) : T := if inside (l_tLow s) (l_tHigh s) then tReport else l_earliest s.

(** one execution of the body of the do-while; None = the assert(!newEventCandidates.empty()) *)
Definition loc_iter (s:lstate) : option lstate :=
  let bias := next_bias s in
  let tMid := tMid_of s in
  let eMid := e tMid in
  let viable := map c_idx (l_cands s) in
  let lo := findEventCandidates viable (l_tLow s) (l_eLow s) tMid eMid bias minWindow in
  match f_cands lo with
  | _ :: _ =>
      Some {| l_tLow := l_tLow s; l_tHigh := tMid; l_eLow := l_eLow s; l_eHigh := eMid; l_cands := f_cands lo;
              l_earliest := oget (f_earliest lo); l_narrowest := oget (f_narrowest lo); l_bias := bias;
              l_side2 := l_side1 s; l_side1 := (-1)%Z |}
  | [] =>
      let hi := findEventCandidates viable tMid eMid (l_tHigh s) (l_eHigh s) bias minWindow in
      match f_cands hi with
      | [] => None
      | _ :: _ =>
          Some {| l_tLow := tMid; l_tHigh := l_tHigh s; l_eLow := eMid; l_eHigh := l_eHigh s; l_cands := f_cands hi;
                  l_earliest := oget (f_earliest hi); l_narrowest := oget (f_narrowest hi); l_bias := bias;
                  l_side2 := l_side1 s; l_side1 := 1%Z |}
      end
  end.

Inductive lres := LDone (s:lstate) (iters:list (T*T*T))   (* final state; (tLow,tHigh,tMid) of every iteration *)
                | LAssert (s:lstate) | LFuel (s:lstate).

Definition too_wide (s:lstate) : bool := nltb K (l_narrowest s) (nsub K (l_tHigh s) (l_tLow s)).
        (* (tHigh-tLow) > narrowestWindow *)

Fixpoint loc_loop (fuel:nat) (s:lstate) (tr:list (T*T*T)) : lres :=
  match fuel with
  | O => LFuel s
  | S f =>
      match loc_iter s with
      | None => LAssert s
      | Some s' =>
          let tr' := tr ++ [(l_tLow s, l_tHigh s, tMid_of s)] in
          if too_wide s' then loc_loop f s' tr' else LDone s' tr'
      end
  end.

(** the event part of takeOneStep after a successful step from t0 to t1 with trigger values e0, e1 *)
Inductive eres := NoEvent | Event (s:lstate) (iters:list (T*T*T)) | EAssert (s:lstate) | EFuel (s:lstate).

Definition event_phase (fuel:nat) (t0 t1:T) (e0 e1:list T) : eres :=
  let r := findEventCandidates (seq 0 (length e0)) t0 e0 t1 e1 (n1 K) minWindow in
  match f_cands r with
  | [] => NoEvent
  | _ :: _ =>
      let s0 := {| l_tLow := t0; l_tHigh := t1; l_eLow := e0; l_eHigh := e1; l_cands := f_cands r;
                   l_earliest := oget (f_earliest r); l_narrowest := oget (f_narrowest r); l_bias := (n1 K);
                   l_side2 := 0%Z; l_side1 := 0%Z |} in
      if nleb K (nsub K t1 t0) (l_narrowest s0) && negb (inside t0 t1) then Event s0 []
      else match loc_loop fuel s0 [] with
           | LDone s tr => Event s tr
           | LAssert s => EAssert s
           | LFuel s => EFuel s
           end
  end.
End Find.

(** MinWindow = SignificantReal * max(1, advanced time) *)
Definition min_window (significant t1:T) : T := nmul K significant (nmax (n1 K) t1).

(** setTriggeredEvents: the (id, estimated time, transition) triples ordered by calcEventOrder
    (EventSorter::operator<: by estimated time, ties by id) *)
Record trig := { g_id : nat; g_est : T; g_tr : N }.
Definition sorter_lt (a b:trig) : bool :=
  if nltb K (g_est a) (g_est b) then true
  else if nltb K (g_est b) (g_est a) then false
  else Nat.ltb (g_id a) (g_id b).
Fixpoint insert_trig (x:trig) (l:list trig) : list trig :=
  match l with
  | [] => [x]
  | y :: r => if sorter_lt y x then y :: insert_trig x r else x :: l
  end.
Definition order_events (l:list trig) : list trig := fold_right insert_trig [] l.
Definition triggered_of (info:list trig_info) (cs:list cand) : list trig :=
  order_events (map (fun c => {| g_id := ti_id (nth (c_idx c) info no_info); g_est := c_est c; g_tr := c_tr c |}) cs).
End Loc.

(** ------------------------------------------------------------------------------------------
    Part C: TimeStepperRep::stepTo.  Times are rationals; +Infinity is [None]. *)
Local Open Scope Q_scope.

Definition qle (a b:Q) : bool := Qle_bool a b.
Definition qlt (a b:Q) : bool := negb (Qle_bool b a).
Definition qeq (a b:Q) : bool := Qeq_bool a b.
Definition tinf := option Q.                                  (* None = +Infinity *)
Definition ile (a b:tinf) : bool := match a, b with _, None => true | None, Some _ => false | Some x, Some y => qle x y end.
Definition ilt (a b:tinf) : bool := match a, b with None, _ => false | Some _, None => true | Some x, Some y => qlt x y end.
Definition ieq (a b:tinf) : bool := match a, b with None, None => true | Some x, Some y => qeq x y | _, _ => false end.
Definition imin (a b:tinf) : tinf := if ilt b a then b else a.           (* std::min(a,b) *)

(** PeriodicEventHandler::getNextEventTime / PeriodicEventReporter::getNextEventTime with exact arithmetic:
    count = floor(t/interval); eventTime = count*interval; while (eventTime < t || (eventTime == t && !incl)) count++ .
    In exact arithmetic the loop body runs at most once. *)
Definition periodic_next (interval t:Q) (includeCurrent:bool) : Q :=
  let count := Qfloor (t / interval) in
  let ev := inject_Z count * interval in
  if qlt ev t || (qeq ev t && negb includeCurrent) then inject_Z (count + 1) * interval else ev.

(** Integrator::SuccessfulStepStatus *)
Inductive status := ReachedReportTime | ReachedEventTrigger | ReachedScheduledEvent | TimeHasAdvanced
                  | ReachedStepLimit | EndOfSimulation | StartOfContinuousInterval.

Section TS.
Variable S : Type.                      (* continuous + discrete state payload *)

(** a scheduled handler or reporter: event id, getNextEventTime as a function of (time, includeCurrentTime),
    and its action on the state: new state, "should terminate", "modified a stage below Report".
    Reporters have the identity action. *)
Record shandler := { h_id : nat; h_next : Q -> bool -> tinf; h_act : S -> Q -> S * bool * bool }.
(** a triggered handler / reporter *)
Record thandler := { th_id : nat; th_act : S -> Q -> S * bool * bool }.
(** a subsystem owning scheduled handlers and reporters (subsystem 0 is the DefaultSystemSubsystem) *)
Record subsystem := { ss_handlers : list shandler; ss_reporters : list shandler }.

(** DefaultSystemSubsystem::Guts::calcTimeOfNextScheduledEventImpl (also ...ReportImpl): loop over the handlers *)
Definition sub_next_step (t:Q) (incl:bool) (acc:tinf * list nat) (h:shandler) : tinf * list nat :=
  let '(tNext, ids) := acc in
  let time := h_next h t incl in
  if ile time tNext && (ilt (Some t) time || (incl && ieq time (Some t))) then
    (time, (if ilt time tNext then [] else ids) ++ [h_id h])
  else acc.
Definition sub_next (hs:list shandler) (t:Q) (incl:bool) : tinf * list nat :=
  fold_left (sub_next_step t incl) hs (None, []).

(** System::Guts::calcTimeOfNextScheduledEventImpl: loop over the subsystems.  As written in the source,
      if (time <= tNextEvent) { tNextEvent = time; if (time < tNextEvent) eventIds.clear(); append ids }
    the clear can never execute (the comparison follows the assignment), so ids accumulate: [clearFirst = false].
    [clearFirst = true] is the loop with the two statements in the intended order (patches/C22_sched_ids_not_cleared.diff);
    the check determines on every run which of the two the implementation follows. *)
Definition sys_next_step (clearFirst:bool) (sel:subsystem -> list shandler) (t:Q) (incl:bool) (acc:tinf * list nat) (ss:subsystem)
  : tinf * list nat :=
  let '(tNext, ids) := acc in
  let '(time, sids) := sub_next (sel ss) t incl in
  if ile time tNext then
    let cmp := if clearFirst then tNext else time in     (* the value of tNextEvent the "<" test sees *)
    (time, (if ilt time cmp then [] else ids) ++ sids)
  else acc.
Definition sys_next (clearFirst:bool) (sel:subsystem -> list shandler) (subs:list subsystem) (t:Q) (incl:bool) : tinf * list nat :=
  fold_left (sys_next_step clearFirst sel t incl) subs (None, []).

(** handler call log *)
Inductive cause := CTriggered | CScheduled | CTimeAdvanced | CTermination | CReport.
Record call := { k_cause : cause; k_id : nat; k_time : Q; k_in : S }.

Definition memb (i:nat) (l:list nat) : bool := existsb (Nat.eqb i) l.

(** DefaultSystemSubsystem::Guts::handleEventsImpl for one list of handlers: call, in list order, every handler
    whose id is in [ids] on the current state; result = final state, any "should terminate", any modification
    below Stage::Report, the calls made *)
Fixpoint run_handlers {H:Type} (hid:H -> nat) (act:H -> S -> Q -> S * bool * bool) (c:cause)
         (hs:list H) (ids:list nat) (t:Q) (st:S) : S * bool * bool * list call :=
  match hs with
  | [] => (st, false, false, [])
  | h :: r =>
      if memb (hid h) ids then
        let '(st', tm, lw) := act h st t in
        let '(st2, tm2, lw2, l) := run_handlers hid act c r ids t st' in
        (st2, tm || tm2, lw || lw2, {| k_cause := c; k_id := hid h; k_time := t; k_in := st |} :: l)
      else run_handlers hid act c r ids t st
  end.

(** reporters see the state but cannot change it (const State&) *)
Fixpoint run_reporters (hs:list shandler) (ids:list nat) (t:Q) (st:S) : list call :=
  match hs with
  | [] => []
  | h :: r => if memb (h_id h) ids then {| k_cause := CReport; k_id := h_id h; k_time := t; k_in := st |} :: run_reporters r ids t st
              else run_reporters r ids t st
  end.

(** system description *)
Variable clearFirst : bool.               (* which variant of the System-level loop (see sys_next_step) *)
Variable subs : list subsystem.
Variable thandlers : list thandler.        (* triggered handlers of the default subsystem *)
Variable flow : S -> Q -> Q -> S.          (* the trajectory: state at t' reached from the state at t *)

(** System::handleEvents(Scheduled, ids): subsystems in order; inside one, handlers then reporters *)
Fixpoint handle_scheduled (ss:list subsystem) (ids:list nat) (t:Q) (st:S) : S * bool * bool * list call :=
  match ss with
  | [] => (st, false, false, [])
  | s :: r =>
      let '(st1, tm, lw, l1) := run_handlers h_id h_act CScheduled (ss_handlers s) ids t st in
      let l2 := run_reporters (ss_reporters s) ids t st1 in
      let '(st2, tm2, lw2, l3) := handle_scheduled r ids t st1 in
      (st2, tm || tm2, lw || lw2, l1 ++ l2 ++ l3)
  end.
(** System::reportEvents(Scheduled, ids) *)
Fixpoint report_scheduled (ss:list subsystem) (ids:list nat) (t:Q) (st:S) : list call :=
  match ss with
  | [] => []
  | s :: r => run_reporters (ss_reporters s) ids t st ++ report_scheduled r ids t st
  end.

(** one answer of Integrator::stepTo: status, getTime(), getAdvancedTime(), getTriggeredEvents() *)
Record ians := { a_status : status; a_t : Q; a_tadv : Q; a_ids : list nat }.
(** what the time stepper asked the integrator, and with which scheduled-event data *)
Record iuse := { u_tcur : Q; u_tadv : Q; u_inclEv : bool; u_inclRep : bool; u_nextEv : tinf; u_nextRep : tinf;
                 u_report : tinf; u_event : tinf; u_ans : ians; u_evids : list nat; u_repids : list nat }.

(** time-stepper + integrator-interface state: lastEventTime, lastReportTime (None = -Infinity), getTime(),
    getAdvancedTime(), isSimulationOver(), the advanced state's payload *)
Record tstate := { ts_lastEvent : option Q; ts_lastReport : option Q; ts_t : Q; ts_tadv : Q; ts_over : bool; ts_pay : S }.

Definition neq_last (l:option Q) (t:Q) : bool := match l with None => true | Some x => negb (qeq x t) end.

(** the top of the loop body: scheduled-event queries and the arguments of integ->stepTo *)
Definition mk_use (time:Q) (s:tstate) (a:ians) : iuse :=
  let tcur := ts_t s in
  let ie := neq_last (ts_lastEvent s) tcur in
  let ir := neq_last (ts_lastReport s) tcur in
  let '(nextEv, evIds) := sys_next clearFirst ss_handlers subs tcur ie in
  let '(nextRep, repIds) := sys_next clearFirst ss_reporters subs tcur ir in
  {| u_tcur := tcur; u_tadv := ts_tadv s; u_inclEv := ie; u_inclRep := ir; u_nextEv := nextEv; u_nextRep := nextRep;
     u_report := imin nextRep (Some time); u_event := imin nextEv (Some time); u_ans := a;
     u_evids := evIds; u_repids := repIds |}.

(** Integrator::reinitialize(lowestModified, shouldTerminate) as seen through getTime()/isSimulationOver():
    a modification below Stage::Report discards the interpolated state (getTime() becomes the advanced time) *)
Definition after_handling (s:tstate) (a:ians) (lastEv:option Q) (pay:S) (term low:bool) : tstate :=
  {| ts_lastEvent := lastEv; ts_lastReport := ts_lastReport s; ts_t := if low then a_tadv a else a_t a;
     ts_tadv := a_tadv a; ts_over := term; ts_pay := pay |}.

(** the switch on the integrator's status: handler calls made, new state, "return now even if
    reportAllSignificantStates is off" *)
Definition ts_body (time:Q) (s:tstate) (u:iuse) : list call * tstate * bool :=
  let a := u_ans u in
  let pay := flow (ts_pay s) (ts_tadv s) (a_tadv a) in           (* advanced state after the integrator call *)
  let s1 := {| ts_lastEvent := ts_lastEvent s; ts_lastReport := ts_lastReport s; ts_t := a_t a;
               ts_tadv := a_tadv a; ts_over := false; ts_pay := pay |} in
  match a_status a with
  | ReachedStepLimit | StartOfContinuousInterval => ([], s1, false)
  | ReachedReportTime =>
      let due := ile (u_nextRep u) (Some (a_t a)) in               (* integ->getTime() >= nextScheduledReport *)
      let l := if due then report_scheduled subs (u_repids u) (a_t a) (flow pay (a_tadv a) (a_t a)) else [] in
      let s2 := if due then {| ts_lastEvent := ts_lastEvent s1; ts_lastReport := Some (a_t a); ts_t := ts_t s1;
                               ts_tadv := ts_tadv s1; ts_over := false; ts_pay := pay |} else s1 in
      (l, s2, qle time (a_t a))
  | ReachedScheduledEvent =>
      let '(pay', term, low, l) := handle_scheduled subs (u_evids u) (a_tadv a) pay in
      (l, after_handling s1 a (Some (a_t a)) pay' term low, false)
  | TimeHasAdvanced =>
      (* handleEvents(TimeAdvanced, no ids): the default subsystem calls no handler for this cause *)
      ([], after_handling s1 a (ts_lastEvent s1) pay false false, false)
  | ReachedEventTrigger =>
      let '(pay', term, low, l) := run_handlers th_id th_act CTriggered thandlers (a_ids a) (a_tadv a) pay in
      (l, after_handling s1 a (ts_lastEvent s1) pay' term low, false)
  | EndOfSimulation =>
      (* handleEvents(Termination, no ids): no handler of the default subsystem is called; the integrator is
         already in FinalTimeHasBeenReturned *)
      ([], {| ts_lastEvent := ts_lastEvent s1; ts_lastReport := ts_lastReport s1; ts_t := a_t a;
              ts_tadv := a_tadv a; ts_over := true; ts_pay := pay |}, false)
  end.

Inductive tsres := TSRet (st:status) (s:tstate) (rest:list ians) (log:list call) (uses:list iuse)
                 | TSOracle (s:tstate) (log:list call) (uses:list iuse).

Fixpoint ts_loop (reportAll:bool) (time:Q) (s:tstate) (orc:list ians) (log:list call) (uses:list iuse) {struct orc} : tsres :=
  if ts_over s then TSRet EndOfSimulation s orc log uses
  else
    match orc with
    | [] => TSOracle s log uses
    | a :: orc' =>
        let u := mk_use time s a in
        let '(l, s2, stop) := ts_body time s u in
        if stop || reportAll then TSRet (a_status a) s2 orc' (log ++ l) (uses ++ [u])
        else ts_loop reportAll time s2 orc' (log ++ l) (uses ++ [u])
    end.

Definition ts_stepTo (reportAll:bool) (time:Q) (s:tstate) (orc:list ians) : tsres := ts_loop reportAll time s orc [] [].

(** TimeStepper::initialize *)
Definition ts_init (t:Q) (pay:S) : tstate :=
  {| ts_lastEvent := None; ts_lastReport := None; ts_t := t; ts_tadv := t; ts_over := false; ts_pay := pay |}.
End TS.

Definition status_eqb (a b:status) : bool :=
  match a, b with
  | ReachedReportTime, ReachedReportTime | ReachedEventTrigger, ReachedEventTrigger
  | ReachedScheduledEvent, ReachedScheduledEvent | TimeHasAdvanced, TimeHasAdvanced
  | ReachedStepLimit, ReachedStepLimit | EndOfSimulation, EndOfSimulation
  | StartOfContinuousInterval, StartOfContinuousInterval => true
  | _, _ => false
  end.

(** decidable forms of the integrator contract, evaluated by the replay driver on every recorded integrator call.
    [use_coreb]: times of the answer are ordered and the status clauses hold; [use_monob]: the advanced time does not go back
    (true of AbstractIntegratorRep; CPodesIntegratorRep integrates past a pending report time and interpolates back, see C19) *)
Definition use_coreb (u:iuse) : bool :=
  let a := u_ans u in
  qle (u_tcur u) (a_t a) && qle (a_t a) (a_tadv a) &&
  (if status_eqb (a_status a) ReachedScheduledEvent
   then ieq (Some (a_t a)) (u_event u) && qeq (a_tadv a) (a_t a) && ilt (u_event u) (u_report u) else true) &&
  (if status_eqb (a_status a) ReachedReportTime then ile (Some (a_t a)) (u_report u) else true).
Definition use_monob (u:iuse) : bool := qle (u_tadv u) (a_tadv (u_ans u)).
Definition use_okb (u:iuse) : bool := use_coreb u && use_monob u.

Arguments h_id {S} _. Arguments h_next {S} _ _ _. Arguments h_act {S} _ _ _.
Arguments th_id {S} _. Arguments th_act {S} _ _ _.
Arguments ss_handlers {S} _. Arguments ss_reporters {S} _.
Arguments k_cause {S} _. Arguments k_id {S} _. Arguments k_time {S} _. Arguments k_in {S} _.
Arguments ts_lastEvent {S} _. Arguments ts_lastReport {S} _. Arguments ts_t {S} _. Arguments ts_tadv {S} _.
Arguments ts_over {S} _. Arguments ts_pay {S} _.
