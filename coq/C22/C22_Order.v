(** C22 proofs: calcEventOrder / setTriggeredEvents ordering (over the reals). *)
From Coq Require Import ZArith NArith Reals List Bool Arith Lra Lia Sorting.Sorted Sorting.Permutation.
Require Import Num C22_Model C22_Proofs.
Import ListNotations.

(** ------------------------------------------------------------------------------------------
    calcEventOrder / setTriggeredEvents: the triggered events are reported ordered by estimated time *)
Section ORDER.
Local Open Scope R_scope.
Definition est_le (a b:@trig R) : Prop := g_est a <= g_est b.

Lemma sorter_lt_false a b : sorter_lt ROps a b = false -> est_le b a.
Proof.
  unfold sorter_lt, est_le. cbn [nltb ROps]. destruct (Rltb (g_est a) (g_est b)) eqn:E1; [discriminate|].
  apply Rltb_false in E1. auto.
Qed.
Lemma sorter_lt_true a b : sorter_lt ROps a b = true -> est_le a b.
Proof.
  unfold sorter_lt, est_le. cbn [nltb ROps]. destruct (Rltb (g_est a) (g_est b)) eqn:E1.
  - apply Rltb_true in E1. lra.
  - destruct (Rltb (g_est b) (g_est a)) eqn:E2; [discriminate|]. apply Rltb_false in E2. auto.
Qed.

Lemma insert_perm x l : Permutation (insert_trig ROps x l) (x :: l).
Proof.
  induction l as [|y r IH]; simpl; auto. destruct (sorter_lt ROps y x); auto.
  eapply perm_trans; [apply perm_skip; exact IH|]. apply perm_swap.
Qed.
Lemma order_events_perm l : Permutation (order_events ROps l) l.
Proof. induction l as [|x r IH]; simpl; auto. eapply perm_trans; [apply insert_perm|]. auto. Qed.

Lemma insert_sorted x l : Sorted est_le l -> Sorted est_le (insert_trig ROps x l).
Proof.
  induction l as [|y r IH]; simpl; intros Hs; [repeat constructor|].
  destruct (sorter_lt ROps y x) eqn:E.
  - inversion Hs; subst. constructor; auto.
    destruct r as [|z r']; simpl.
    + constructor. apply sorter_lt_true; auto.
    + destruct (sorter_lt ROps z x); constructor.
      * inversion H2; auto.
      * apply sorter_lt_true; auto.
  - constructor; auto. constructor. apply sorter_lt_false; auto.
Qed.
Lemma order_events_sorted l : Sorted est_le (order_events ROps l).
Proof. induction l as [|x r IH]; simpl; [constructor|]. apply insert_sorted; auto. Qed.

(** the reported list is a permutation of the retained candidates, in nondecreasing estimated-time order *)
Lemma triggered_sorted_by_estimate info cs :
  Sorted est_le (triggered_of ROps info cs) /\
  Permutation (map (@g_est R) (triggered_of ROps info cs)) (map (@c_est R) cs) /\
  length (triggered_of ROps info cs) = length cs.
Proof.
  unfold triggered_of. split; [apply order_events_sorted|]. split.
  - eapply perm_trans; [apply Permutation_map; apply order_events_perm|]. rewrite map_map. simpl. apply Permutation_refl.
  - rewrite (Permutation_length (order_events_perm _)). apply map_length.
Qed.
End ORDER.

