(** C22 proofs, parts A and B: transition tables, root estimate, findEventCandidates, the localisation loop.
    Numeric statements are over the reals ([ROps]). *)
From Coq Require Import ZArith NArith Reals List Bool Arith Lra Lia.
Require Import Num C22_Model.
Import ListNotations.
Local Open Scope R_scope.

(** ------------------------------------------------------------------------------------------ A: tables *)
Definition signs : list Z := [(-1)%Z; 0%Z; 1%Z].
Definition flags : list bool := [false; true].

(** "the trigger changed sign in a monitored direction", as a boolean on (sign before, sign after, flags):
    falling = was positive, no longer positive; rising = was negative, no longer negative *)
Definition monitored_change (b a:Z) (rising falling:bool) : bool :=
  (Z.eqb b 1 && negb (Z.eqb a 1) && falling) || (Z.eqb b (-1) && negb (Z.eqb a (-1)) && rising).
Definition expected_report (b:Z) : N := if Z.eqb b (-1) then NegativeToPositive else PositiveToNegative.

Definition classify_row_ok (b a:Z) (r f:bool) : bool :=
  let seen := transitionSeen b a (calcMask r f) in
  Bool.eqb (negb (N.eqb seen 0)) (monitored_change b a r f) &&
  (if N.eqb seen 0 then true else N.eqb (toReport seen) (expected_report b)).

Lemma classify_table :
  forallb (fun b => forallb (fun a => forallb (fun r => forallb (fun f => classify_row_ok b a r f) flags) flags) signs) signs = true.
Proof. vm_compute. reflexivity. Qed.

(** over ALL 3 x 3 sign pairs and all 4 masks (bound: 36 rows): a trigger is a candidate iff its sign changed in a
    monitored direction, and the transition reported for it is the direction of the change *)
Lemma classify_exhaustive b a r f : In b signs -> In a signs ->
  (transitionSeen b a (calcMask r f) <> 0%N <-> monitored_change b a r f = true) /\
  (transitionSeen b a (calcMask r f) <> 0%N -> toReport (transitionSeen b a (calcMask r f)) = expected_report b).
Proof.
  intros Hb Ha. pose proof classify_table as Ht.
  rewrite forallb_forall in Ht. specialize (Ht b Hb). rewrite forallb_forall in Ht. specialize (Ht a Ha).
  rewrite forallb_forall in Ht. assert (Hr: In r flags) by (destruct r; simpl; auto). specialize (Ht r Hr).
  rewrite forallb_forall in Ht. assert (Hf: In f flags) by (destruct f; simpl; auto). specialize (Ht f Hf).
  unfold classify_row_ok in Ht. apply andb_true_iff in Ht. destruct Ht as [H1 H2].
  apply Bool.eqb_prop in H1.
  destruct (N.eqb (transitionSeen b a (calcMask r f)) 0) eqn:E.
  - apply N.eqb_eq in E. split; [split|]; intros; try congruence. simpl in H1. rewrite <- H1 in H. discriminate.
  - apply N.eqb_neq in E. split; [split|]; intros; auto. apply N.eqb_eq in H2. exact H2.
Qed.

(** the table fact behind the localisation loop: a monitored transition over (low,high) that is not seen over
    (low,mid) is seen over (mid,high), and with the same "before" sign (bound: 3^3 x 4 = 108 rows) *)
Definition split_row_ok (sl sm sh:Z) (r f:bool) : bool :=
  let m := calcMask r f in
  if N.eqb (transitionSeen sl sh m) 0 then true
  else if N.eqb (transitionSeen sl sm m) 0 then negb (N.eqb (transitionSeen sm sh m) 0) && Z.eqb sm sl
  else true.
Lemma split_table :
  forallb (fun sl => forallb (fun sm => forallb (fun sh => forallb (fun r => forallb (fun f => split_row_ok sl sm sh r f)
     flags) flags) signs) signs) signs = true.
Proof. vm_compute. reflexivity. Qed.
Lemma split_transition sl sm sh r f : In sl signs -> In sm signs -> In sh signs ->
  transitionSeen sl sh (calcMask r f) <> 0%N -> transitionSeen sl sm (calcMask r f) = 0%N ->
  transitionSeen sm sh (calcMask r f) <> 0%N /\ sm = sl.
Proof.
  intros Hl Hm Hh H1 H2. pose proof split_table as Ht.
  rewrite forallb_forall in Ht. specialize (Ht sl Hl). rewrite forallb_forall in Ht. specialize (Ht sm Hm).
  rewrite forallb_forall in Ht. specialize (Ht sh Hh).
  rewrite forallb_forall in Ht. assert (Hr: In r flags) by (destruct r; simpl; auto). specialize (Ht r Hr).
  rewrite forallb_forall in Ht. assert (Hf: In f flags) by (destruct f; simpl; auto). specialize (Ht f Hf).
  unfold split_row_ok in Ht. apply N.eqb_neq in H1. rewrite H1 in Ht. rewrite H2 in Ht. simpl in Ht.
  apply andb_true_iff in Ht. destruct Ht as [A B]. apply negb_true_iff in A. apply N.eqb_neq in A. apply Z.eqb_eq in B. auto.
Qed.

(** a seen transition depends on the "after" sign only through "differs from before" *)
Lemma seen_before_only b a r f : In b signs -> In a signs -> transitionSeen b a (calcMask r f) <> 0%N ->
  toReport (transitionSeen b a (calcMask r f)) = expected_report b.
Proof. intros. apply classify_exhaustive; auto. Qed.

(** ------------------------------------------------------------------------------------------ B: numerics over R *)
Lemma nltb_R a b : nltb ROps a b = Rltb a b. Proof. reflexivity. Qed.
Lemma nleb_R a b : nleb ROps a b = Rleb a b. Proof. reflexivity. Qed.

Lemma sgn_cases x : (0 < x /\ sgnT ROps x = 1%Z) \/ (x < 0 /\ sgnT ROps x = (-1)%Z) \/ (x = 0 /\ sgnT ROps x = 0%Z).
Proof.
  unfold sgnT. cbn [nltb n0 ROps]. destruct (Rltb 0 x) eqn:A.
  - apply Rltb_true in A. auto.
  - apply Rltb_false in A. destruct (Rltb x 0) eqn:B.
    + apply Rltb_true in B. auto.
    + apply Rltb_false in B. right; right. split; auto. lra.
Qed.
Lemma sgn_in x : In (sgnT ROps x) signs.
Proof. destruct (sgn_cases x) as [[_ E]|[[_ E]|[_ E]]]; rewrite E; simpl; auto. Qed.

Lemma nmin_R a b : nmin ROps a b = Rmin a b.
Proof. unfold nmin. cbn [nltb ROps]. destruct (Rltb b a) eqn:E.
  - apply Rltb_true in E. rewrite Rmin_right; lra.
  - apply Rltb_false in E. rewrite Rmin_left; lra. Qed.
Lemma nmax_R a b : nmax ROps a b = Rmax a b.
Proof. unfold nmax. cbn [nltb ROps]. destruct (Rltb a b) eqn:E.
  - apply Rltb_true in E. rewrite Rmax_right; lra.
  - apply Rltb_false in E. rewrite Rmax_left; lra. Qed.

(** the root estimate stays at least a tenth of the interval away from both ends (hence strictly inside) *)
Lemma root_estimate_buffer tLow fLow tHigh fHigh bias minWindow :
  tLow < tHigh -> 0 < minWindow ->
  let est := estimateRootTime ROps tLow fLow tHigh fHigh bias minWindow in
  tLow + (tHigh - tLow) / 10 <= est <= tHigh - (tHigh - tLow) / 10.
Proof.
  intros Hlt Hw. unfold estimateRootTime. cbn [nsub nadd ndiv nmul nleb ROps].
  set (h := tHigh - tLow). assert (0 < h) by (unfold h; lra).
  assert (E2: two ROps = 2) by (unfold two; reflexivity).
  assert (E10: tenth ROps = 1/10) by (unfold tenth; cbn; lra).
  destruct (isz ROps fLow || isz ROps fHigh || Rleb h minWindow) eqn:B.
  - rewrite E2. unfold h in *. lra.
  - apply orb_false_iff in B. destruct B as [_ B]. apply Rleb_false in B.
    rewrite nmin_R, !nmax_R, E2, E10.
    set (buf := Rmax (1/10 * h) (minWindow / 2)).
    assert (Hb1: 1/10 * h <= buf) by apply Rmax_l.
    assert (Hb2: buf < h / 2). { unfold buf. apply Rmax_lub_lt; lra. }
    set (tr := tHigh - fHigh / (fHigh - bias * fLow) * h).
    split.
    + apply Rmin_glb.
      * eapply Rle_trans; [|apply Rmax_r]. unfold h in *. lra.
      * unfold h in *. lra.
    + eapply Rle_trans; [apply Rmin_r|]. unfold h in *. lra.
Qed.

Lemma root_estimate_inside_interval tLow fLow tHigh fHigh bias minWindow :
  tLow < tHigh -> 0 < minWindow ->
  tLow < estimateRootTime ROps tLow fLow tHigh fHigh bias minWindow < tHigh.
Proof. intros A B. pose proof (root_estimate_buffer tLow fLow tHigh fHigh bias minWindow A B) as H. cbv zeta in H. lra. Qed.
