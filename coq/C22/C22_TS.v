(** C22 proofs, part C: scheduled-event selection and TimeStepperRep::stepTo (times in Q). *)
From Coq Require Import ZArith NArith QArith Qround List Bool Arith Lqa Lia.
Require Import C22_Model.
Import ListNotations.

(** ------------------------------------------------------------------------------------------
    comparisons on Q + infinity *)
Local Open Scope Q_scope.
Definition Ile (a b:tinf) : Prop := match a, b with _, None => True | None, Some _ => False | Some x, Some y => x <= y end.
Definition Ilt (a b:tinf) : Prop := match a, b with None, _ => False | Some _, None => True | Some x, Some y => x < y end.
Definition Ieq (a b:tinf) : Prop := match a, b with None, None => True | Some x, Some y => x == y | _, _ => False end.

Lemma qle_iff a b : qle a b = true <-> a <= b. Proof. apply Qle_bool_iff. Qed.
Lemma qlt_iff a b : qlt a b = true <-> a < b.
Proof. unfold qlt. rewrite negb_true_iff. split; intros H.
  - apply Qnot_le_lt. intro X. apply Qle_bool_iff in X. congruence.
  - destruct (Qle_bool b a) eqn:E; auto. apply Qle_bool_iff in E. exfalso; lra. Qed.
Lemma qeq_iff a b : qeq a b = true <-> a == b. Proof. apply Qeq_bool_iff. Qed.
Lemma qle_false a b : qle a b = false <-> b < a.
Proof. split; intros H. - apply Qnot_le_lt. intro X. apply qle_iff in X. congruence.
  - destruct (qle a b) eqn:E; auto. apply qle_iff in E. exfalso; lra. Qed.
Lemma qlt_false a b : qlt a b = false <-> b <= a.
Proof. split; intros H. - apply Qnot_lt_le. intro X. apply qlt_iff in X. congruence.
  - destruct (qlt a b) eqn:E; auto. apply qlt_iff in E. exfalso; lra. Qed.
Lemma qeq_false a b : qeq a b = false <-> ~ a == b.
Proof. split; intros H. - intro X. apply qeq_iff in X. congruence.
  - destruct (qeq a b) eqn:E; auto. apply qeq_iff in E. tauto. Qed.

Lemma ile_iff a b : ile a b = true <-> Ile a b.
Proof. destruct a, b; simpl; try tauto; try (split; [discriminate|tauto]). apply qle_iff. Qed.
Lemma ilt_iff a b : ilt a b = true <-> Ilt a b.
Proof. destruct a, b; simpl; try tauto; try (split; [discriminate|tauto]). apply qlt_iff. Qed.
Lemma ieq_iff a b : ieq a b = true <-> Ieq a b.
Proof. destruct a, b; simpl; try tauto; try (split; [discriminate|tauto]). apply qeq_iff. Qed.
Lemma ile_false a b : ile a b = false <-> Ilt b a.
Proof. destruct a, b; simpl; try tauto; try (split; [discriminate|tauto]). apply qle_false. Qed.
Lemma ilt_false a b : ilt a b = false <-> Ile b a.
Proof. destruct a, b; simpl; try tauto; try (split; [discriminate|tauto]). apply qlt_false. Qed.

(** turn every boolean comparison in the context into its proposition, then decide by cases + lra *)
Ltac ibool :=
  repeat match goal with
  | H : _ && _ = true |- _ => apply andb_true_iff in H; destruct H
  | H : _ || _ = false |- _ => apply orb_false_iff in H; destruct H
  | H : negb _ = true |- _ => apply negb_true_iff in H
  | H : negb _ = false |- _ => apply negb_false_iff in H
  | H : ile _ _ = true |- _ => apply ile_iff in H
  | H : ilt _ _ = true |- _ => apply ilt_iff in H
  | H : ieq _ _ = true |- _ => apply ieq_iff in H
  | H : ile _ _ = false |- _ => apply ile_false in H
  | H : ilt _ _ = false |- _ => apply ilt_false in H
  | H : qle _ _ = true |- _ => apply qle_iff in H
  | H : qlt _ _ = true |- _ => apply qlt_iff in H
  | H : qeq _ _ = true |- _ => apply qeq_iff in H
  | H : qle _ _ = false |- _ => apply qle_false in H
  | H : qlt _ _ = false |- _ => apply qlt_false in H
  | H : qeq _ _ = false |- _ => apply qeq_false in H
  | |- ile _ _ = true => apply ile_iff
  | |- ilt _ _ = true => apply ilt_iff
  | |- ieq _ _ = true => apply ieq_iff
  | |- ile _ _ = false => apply ile_false
  | |- ilt _ _ = false => apply ilt_false
  | |- qle _ _ = true => apply qle_iff
  | |- qlt _ _ = true => apply qlt_iff
  | |- qeq _ _ = true => apply qeq_iff
  end.
Ltac icases :=
  repeat match goal with x : tinf |- _ => destruct x end;
  unfold Ile, Ilt, Ieq in *; simpl in *; try tauto; try lra.

Lemma imin_spec a b : (Ilt b a /\ imin a b = b) \/ (Ile a b /\ imin a b = a).
Proof. unfold imin. destruct (ilt b a) eqn:E; ibool; auto. Qed.

(** ------------------------------------------------------------------------------------------
    PeriodicEventHandler::getNextEventTime in exact arithmetic: the least multiple of the interval that is
    later than t (or equal to t when the current time is allowed) *)
Lemma periodic_next_spec interval t incl : 0 < interval ->
  let r := periodic_next interval t incl in
  (exists k:Z, r == inject_Z k * interval /\
     (if incl then t <= r else t < r) /\
     (if incl then inject_Z (k - 1) * interval < t else inject_Z (k - 1) * interval <= t)).
Proof.
  intros Hi. unfold periodic_next.
  set (c := Qfloor (t / interval)).
  assert (Hlo: inject_Z c * interval <= t).
  { assert (inject_Z c <= t / interval) by apply Qfloor_le.
    apply (Qmult_le_compat_r _ _ interval) in H; [|lra].
    assert (t / interval * interval == t) by (field; lra). lra. }
  assert (Hhi: t < inject_Z (c + 1) * interval).
  { assert (t / interval < inject_Z (c + 1)) by (unfold c; apply Qlt_floor).
    apply (Qmult_lt_compat_r _ _ interval) in H; [|lra].
    assert (t / interval * interval == t) by (field; lra). lra. }
  assert (Hc1: inject_Z (c + 1 - 1) == inject_Z c) by (replace (c + 1 - 1)%Z with c by lia; reflexivity).
  assert (Hm1: inject_Z (c - 1) * interval < inject_Z c * interval).
  { apply Qmult_lt_compat_r; auto. rewrite <- Zlt_Qlt. lia. }
  destruct (qlt (inject_Z c * interval) t || qeq (inject_Z c * interval) t && negb incl) eqn:E.
  - exists (c + 1)%Z. split; [reflexivity|]. replace (c + 1 - 1)%Z with c by lia.
    apply orb_true_iff in E. destruct E as [E|E]; ibool.
    + destruct incl; split; lra.
    + subst incl. split; lra.
  - exists c. split; [reflexivity|]. ibool. destruct incl.
    + split; lra.
    + simpl in H0. rewrite andb_true_r in H0. ibool. exfalso. lra.
Qed.

(** ------------------------------------------------------------------------------------------
    DefaultSystemSubsystem::calcTimeOfNextScheduledEventImpl *)
Section TSP.
Variable S : Type.
Notation shandler := (shandler S).
Notation subsystem := (subsystem S).

Definition eligible (t:Q) (incl:bool) (time:tinf) : bool := ilt (Some t) time || (incl && ieq time (Some t)).

(** invariant of the loop over the handlers processed so far *)
Definition sn_inv (t:Q) (incl:bool) (P:list shandler) (acc:tinf * list nat) : Prop :=
  let '(tn, ids) := acc in
  (forall i, In i ids -> exists h, In h P /\ h_id h = i /\ eligible t incl (h_next h t incl) = true /\ Ieq (h_next h t incl) tn) /\
  (forall h, In h P -> eligible t incl (h_next h t incl) = true ->
      Ile tn (h_next h t incl) /\ (Ieq (h_next h t incl) tn -> In (h_id h) ids)).

Lemma sn_step t incl P acc h : sn_inv t incl P acc -> sn_inv t incl (P ++ [h]) (sub_next_step S t incl acc h).
Proof.
  destruct acc as [tn ids]. intros [I1 I2]. unfold sub_next_step.
  fold (eligible t incl (h_next h t incl)).
  destruct (ile (h_next h t incl) tn && eligible t incl (h_next h t incl)) eqn:C.
  - apply andb_true_iff in C. destruct C as [C1 C2]. apply ile_iff in C1. split.
    + intros i Hi. apply in_app_iff in Hi. destruct Hi as [Hi|[<-|[]]].
      * destruct (ilt (h_next h t incl) tn) eqn:L; [destruct Hi|]. apply ilt_false in L.
        destruct (I1 i Hi) as [h' [A [B [C D]]]]. exists h'. repeat split; auto. { apply in_app_iff; auto. }
        clear -C1 L D. destruct (h_next h' t incl), (h_next h t incl), tn; simpl in *; try tauto; lra.
      * exists h. repeat split; auto. { apply in_app_iff; right; left; auto. }
        destruct (h_next h t incl); simpl; auto. reflexivity.
    + intros h' Hh' El. apply in_app_iff in Hh'. destruct Hh' as [Hh'|[<-|[]]].
      * destruct (I2 h' Hh' El) as [A B]. split.
        { clear -A C1. destruct (h_next h' t incl), (h_next h t incl), tn; simpl in *; try tauto; lra. }
        intros E. apply in_app_iff. left.
        destruct (ilt (h_next h t incl) tn) eqn:L.
        { apply ilt_iff in L. exfalso. clear -A E L. destruct (h_next h' t incl), (h_next h t incl), tn; simpl in *; try tauto; lra. }
        apply B. apply ilt_false in L. clear -C1 L E. destruct (h_next h' t incl), (h_next h t incl), tn; simpl in *; try tauto; lra.
      * split. { destruct (h_next h t incl); simpl; auto. lra. }
        intros _. apply in_app_iff. right; left; auto.
  - split.
    + intros i Hi. destruct (I1 i Hi) as [h' [A B]]. exists h'. split; auto. apply in_app_iff; auto.
    + intros h' Hh' El. apply in_app_iff in Hh'. destruct Hh' as [Hh'|[<-|[]]]; auto.
      rewrite El in C. rewrite andb_true_r in C. apply ile_false in C. split.
      * clear -C. destruct (h_next h t incl), tn; simpl in *; try tauto; lra.
      * intros E. exfalso. clear -C E. destruct (h_next h t incl), tn; simpl in *; try tauto; lra.
Qed.

Lemma sn_fold t incl : forall hs P acc, sn_inv t incl P acc ->
  sn_inv t incl (P ++ hs) (fold_left (sub_next_step S t incl) hs acc).
Proof.
  induction hs as [|h r IH]; intros P acc I; simpl.
  - rewrite app_nil_r. auto.
  - replace (P ++ h :: r) with ((P ++ [h]) ++ r) by (rewrite <- app_assoc; reflexivity).
    apply IH. apply sn_step. auto.
Qed.

(** the ids selected are exactly the eligible handlers whose next time is the earliest eligible one, and that
    time is returned *)
Lemma sub_next_spec hs t incl tn ids : sub_next S hs t incl = (tn, ids) ->
  (forall i, In i ids -> exists h, In h hs /\ h_id h = i /\ eligible t incl (h_next h t incl) = true /\ Ieq (h_next h t incl) tn) /\
  (forall h, In h hs -> eligible t incl (h_next h t incl) = true ->
      Ile tn (h_next h t incl) /\ (Ieq (h_next h t incl) tn -> In (h_id h) ids)).
Proof.
  intros E. pose proof (sn_fold t incl hs [] (None, [])) as H. simpl in H. unfold sub_next in E. rewrite E in H.
  apply H. split.
  - intros i [].
  - intros h [].
Qed.

(** with one subsystem the system-level loop returns the subsystem's answer (either variant) *)
Lemma sys_next_single cf sel ss t incl : sys_next S cf sel [ss] t incl = sub_next S (sel ss) t incl.
Proof.
  unfold sys_next. simpl. unfold sys_next_step. destruct (sub_next S (sel ss) t incl) as [time sids].
  assert (ile time None = true) by (destruct time; reflexivity). rewrite H.
  assert (ilt time time = false). { apply ilt_false. destruct time; simpl; auto. lra. }
  destruct cf.
  - destruct (ilt time None); reflexivity.
  - rewrite H0. reflexivity.
Qed.

(** System::Guts::calcTimeOfNextScheduledEventImpl as repaired (clear before assign, /repo 748896e4), ANY number of
    subsystems: the ids selected are exactly the eligible handlers, over all subsystems, whose next time is the earliest
    eligible one, and that time is returned *)
Definition sys_inv (sel:subsystem -> list shandler) (t:Q) (incl:bool) (P:list subsystem) (acc:tinf * list nat) : Prop :=
  let '(tn, ids) := acc in
  (forall i, In i ids -> exists ss h, In ss P /\ In h (sel ss) /\ h_id h = i /\
       eligible t incl (h_next h t incl) = true /\ Ieq (h_next h t incl) tn) /\
  (forall ss h, In ss P -> In h (sel ss) -> eligible t incl (h_next h t incl) = true ->
      Ile tn (h_next h t incl) /\ (Ieq (h_next h t incl) tn -> In (h_id h) ids)).

Lemma sys_step sel t incl P acc ss : sys_inv sel t incl P acc ->
  sys_inv sel t incl (P ++ [ss]) (sys_next_step S true sel t incl acc ss).
Proof.
  destruct acc as [tn ids]. intros [I1 I2]. unfold sys_next_step.
  destruct (sub_next S (sel ss) t incl) as [time sids] eqn:Es.
  destruct (sub_next_spec _ _ _ _ _ Es) as [G1 G2].
  destruct (ile time tn) eqn:C.
  - apply ile_iff in C. split.
    + intros i Hi. apply in_app_iff in Hi. destruct Hi as [Hi|Hi].
      * destruct (ilt time tn) eqn:L; [destruct Hi|]. apply ilt_false in L.
        destruct (I1 i Hi) as [s0 [h [A [B [C0 [D E]]]]]]. exists s0, h. repeat split; auto. { apply in_app_iff; auto. }
        clear -C L E. destruct (h_next h t incl), time, tn; simpl in *; try tauto; lra.
      * destruct (G1 i Hi) as [h [A [B [C0 D]]]]. exists ss, h. repeat split; auto. apply in_app_iff; right; left; auto.
    + intros s0 h Hs Hh El. apply in_app_iff in Hs. destruct Hs as [Hs|[<-|[]]].
      * destruct (I2 s0 h Hs Hh El) as [A B]. split.
        { clear -A C. destruct (h_next h t incl), time, tn; simpl in *; try tauto; lra. }
        intros E. apply in_app_iff. left.
        destruct (ilt time tn) eqn:L.
        { apply ilt_iff in L. exfalso. clear -A E L. destruct (h_next h t incl), time, tn; simpl in *; try tauto; lra. }
        apply B. apply ilt_false in L. clear -C L E. destruct (h_next h t incl), time, tn; simpl in *; try tauto; lra.
      * destruct (G2 h Hh El) as [A B]. split; auto. intros E. apply in_app_iff. right. auto.
  - apply ile_false in C. split.
    + intros i Hi. destruct (I1 i Hi) as [s0 [h [A B]]]. exists s0, h. split; auto. apply in_app_iff; auto.
    + intros s0 h Hs Hh El. apply in_app_iff in Hs. destruct Hs as [Hs|[<-|[]]]; [exact (I2 s0 h Hs Hh El)|].
      destruct (G2 h Hh El) as [A _]. split.
      * clear -A C. destruct (h_next h t incl), time, tn; simpl in *; try tauto; lra.
      * intros E. exfalso. clear -A C E. destruct (h_next h t incl), time, tn; simpl in *; try tauto; lra.
Qed.

Lemma sys_fold sel t incl : forall subs P acc, sys_inv sel t incl P acc ->
  sys_inv sel t incl (P ++ subs) (fold_left (sys_next_step S true sel t incl) subs acc).
Proof.
  induction subs as [|ss r IH]; intros P acc I; simpl.
  - rewrite app_nil_r. auto.
  - replace (P ++ ss :: r) with ((P ++ [ss]) ++ r) by (rewrite <- app_assoc; reflexivity).
    apply IH. apply sys_step. auto.
Qed.

Lemma sys_next_spec sel subs t incl tn ids : sys_next S true sel subs t incl = (tn, ids) ->
  (forall i, In i ids -> exists ss h, In ss subs /\ In h (sel ss) /\ h_id h = i /\
       eligible t incl (h_next h t incl) = true /\ Ieq (h_next h t incl) tn) /\
  (forall ss h, In ss subs -> In h (sel ss) -> eligible t incl (h_next h t incl) = true ->
      Ile tn (h_next h t incl) /\ (Ieq (h_next h t incl) tn -> In (h_id h) ids)).
Proof.
  intros E. pose proof (sys_fold sel t incl subs [] (None, [])) as H. simpl in H. unfold sys_next in E. rewrite E in H.
  apply H. split.
  - intros i [].
  - intros ss h [].
Qed.

(** REGRESSION (defect repaired in /repo 748896e4): the loop as it was written before the repair ([sys_next false]), with
    TWO subsystems: the ids of the first subsystem survived although the second one has a strictly earlier event (the
    clear() was unreachable); the repaired loop ([sys_next true]) lists only the handler that is due.  Witness: the default
    subsystem has a handler (id 0) due at t=1/2, a second subsystem an event (id 1) due at t=5/16. *)
Definition w_h (id:nat) (at_:Q) : shandler :=
  {| h_id := id; h_next := fun t incl => if qlt t at_ || (incl && qeq at_ t) then Some at_ else None;
     h_act := fun s _ => (s, false, false) |}.
Definition w_subs : list subsystem :=
  [ {| ss_handlers := [w_h 0 (1#2)]; ss_reporters := [] |}; {| ss_handlers := [w_h 1 (5#16)]; ss_reporters := [] |} ].
Lemma sys_next_two_subsystems_regression :
  sys_next S false ss_handlers w_subs 0 true = (Some (5#16), [0%nat; 1%nat]) /\
  sys_next S false ss_handlers w_subs (5#16) false = (Some (1#2), [0%nat]) /\
  sys_next S true ss_handlers w_subs 0 true = (Some (5#16), [1%nat]).
Proof. repeat split; reflexivity. Qed.
(** ... and a handler with no further event (next time +Infinity) is listed for every later event of another
    subsystem: default handler due at 5/16 only, second subsystem's event at 1/2, asked at t = 5/16 *)
Definition w_subs2 : list subsystem :=
  [ {| ss_handlers := [w_h 0 (5#16)]; ss_reporters := [] |}; {| ss_handlers := [w_h 1 (1#2)]; ss_reporters := [] |} ].
Lemma sys_next_exhausted_handler_regression :
  sys_next S false ss_handlers w_subs2 (5#16) false = (Some (1#2), [0%nat; 1%nat]) /\
  sys_next S true ss_handlers w_subs2 (5#16) false = (Some (1#2), [1%nat]).
Proof. split; reflexivity. Qed.
End TSP.

(** ------------------------------------------------------------------------------------------
    TimeStepperRep::stepTo over a system whose only subsystem with scheduled handlers is the default one *)
Section TSL.
Variable S : Type.
Variable ss : subsystem S.
Variable thandlers : list (thandler S).
Variable flow : S -> Q -> Q -> S.
Variable cf : bool.                       (* either variant of the System-level loop *)
Notation subs := [ss].
Notation LOOP := (ts_loop S cf subs thandlers flow).
Notation BODY := (ts_body S subs thandlers flow).
Notation MKUSE := (mk_use S cf subs).

(** handler and reporter ids are distinct (they are EventIds handed out by the System) *)
Definition ids_disjoint : Prop := forall h r, In h (ss_handlers ss) -> In r (ss_reporters ss) -> h_id h <> h_id r.

(** what the time stepper relies on from Integrator::stepTo (for AbstractIntegratorRep these are the C19 theorems
    returned_time_le_earliest_pending, report_sched_final_stops_exact, time_monotone and the order of the tests in
    stepTo: a report time that has been reached wins over a scheduled-event time) *)
Definition use_core (u:iuse) : Prop :=
  let a := u_ans u in
  u_tcur u <= a_t a /\ a_t a <= a_tadv a /\
  (a_status a = ReachedScheduledEvent ->
     Ieq (Some (a_t a)) (u_event u) /\ a_tadv a == a_t a /\ Ilt (u_event u) (u_report u)) /\
  (a_status a = ReachedReportTime -> Ile (Some (a_t a)) (u_report u)).
(** the advanced time never goes back (AbstractIntegratorRep: C19 time_monotone; NOT CPodesIntegratorRep) *)
Definition use_mono (u:iuse) : Prop := u_tadv u <= a_tadv (u_ans u).
Definition use_ok (u:iuse) : Prop := use_core u /\ use_mono u.

Lemma status_eqb_eq a b : status_eqb a b = true <-> a = b.
Proof. destruct a, b; simpl; split; intros; try discriminate; auto. Qed.

Lemma use_coreb_sound u : use_coreb u = true -> use_core u.
Proof.
  unfold use_coreb, use_core. intros H. cbv zeta in *. ibool.
  split; [auto|]. split; [auto|]. split.
  - intros E. repeat match goal with X : (if status_eqb _ _ then _ else _) = true |- _ => rewrite E in X; cbn [status_eqb] in X end.
    ibool. auto.
  - intros E. repeat match goal with X : (if status_eqb _ _ then _ else _) = true |- _ => rewrite E in X; cbn [status_eqb] in X end.
    ibool. auto.
Qed.
Lemma use_okb_sound u : use_okb u = true -> use_ok u.
Proof.
  unfold use_okb, use_ok. intros H. apply andb_true_iff in H. destruct H as [A B]. split.
  - apply use_coreb_sound; auto.
  - unfold use_monob in B. unfold use_mono. ibool. auto.
Qed.

(** entries produced by the dispatch helpers *)
Lemma run_handlers_log {H:Type} (hid:H -> nat) act c : forall hs ids t st st' tm lw l,
  run_handlers S hid act c hs ids t st = (st', tm, lw, l) ->
  forall k, In k l -> k_cause k = c /\ k_time k = t /\ In (k_id k) ids /\ exists h, In h hs /\ hid h = k_id k.
Proof.
  induction hs as [|h r IH]; simpl; intros ids t st st' tm lw l E k Hk.
  - inversion E; subst. destruct Hk.
  - destruct (memb (hid h) ids) eqn:M.
    + destruct (act h st t) as [[st1 tm1] lw1]. destruct (run_handlers S hid act c r ids t st1) as [[[st2 tm2] lw2] l2] eqn:E2.
      inversion E; subst. destruct Hk as [<-|Hk].
      * simpl. repeat split; auto.
        -- unfold memb in M. apply existsb_exists in M. destruct M as [x [Hx Ex]]. apply Nat.eqb_eq in Ex. subst; auto.
        -- exists h; auto.
      * destruct (IH _ _ _ _ _ _ _ E2 k Hk) as [A [B [C [h' [D F]]]]]. repeat split; auto. exists h'; auto.
    + destruct (IH _ _ _ _ _ _ _ E k Hk) as [A [B [C [h' [D F]]]]]. repeat split; auto. exists h'; auto.
Qed.

Lemma run_reporters_log : forall hs ids t st k, In k (run_reporters S hs ids t st) ->
  k_cause k = CReport /\ k_time k = t /\ In (k_id k) ids /\ exists h, In h hs /\ h_id h = k_id k.
Proof.
  induction hs as [|h r IH]; simpl; intros ids t st k Hk; [destruct Hk|].
  destruct (memb (h_id h) ids) eqn:M.
  - destruct Hk as [<-|Hk].
    + simpl. repeat split; auto.
      * unfold memb in M. apply existsb_exists in M. destruct M as [x [Hx Ex]]. apply Nat.eqb_eq in Ex. subst; auto.
      * exists h; auto.
    + destruct (IH _ _ _ _ Hk) as [A [B [C [h' [D F]]]]]. repeat split; auto. exists h'; auto.
  - destruct (IH _ _ _ _ Hk) as [A [B [C [h' [D F]]]]]. repeat split; auto. exists h'; auto.
Qed.

Lemma mk_use_fields time s a :
  let u := MKUSE time s a in
  u_tcur u = ts_t s /\ u_tadv u = ts_tadv s /\ u_ans u = a /\
  (u_nextEv u, u_evids u) = sub_next S (ss_handlers ss) (ts_t s) (u_inclEv u) /\
  (u_nextRep u, u_repids u) = sub_next S (ss_reporters ss) (ts_t s) (u_inclRep u) /\
  u_report u = imin (u_nextRep u) (Some time) /\ u_event u = imin (u_nextEv u) (Some time).
Proof.
  unfold mk_use. rewrite !sys_next_single.
  destruct (sub_next S (ss_handlers ss) (ts_t s) (neq_last (ts_lastEvent s) (ts_t s))) as [ne ei] eqn:E1.
  destruct (sub_next S (ss_reporters ss) (ts_t s) (neq_last (ts_lastReport s) (ts_t s))) as [nr ri] eqn:E2.
  simpl. rewrite E1, E2. repeat split; auto.
Qed.

(** a scheduled handler is called only at its own next event time (as computed when the integrator was started) *)
Definition sched_good (uses:list iuse) (k:call S) : Prop :=
  k_cause k = CScheduled ->
  exists h u, In h (ss_handlers ss) /\ h_id h = k_id k /\ In u uses /\
     Ieq (h_next h (u_tcur u) (u_inclEv u)) (Some (k_time k)) /\
     eligible (u_tcur u) (u_inclEv u) (h_next h (u_tcur u) (u_inclEv u)) = true /\
     k_time k == a_tadv (u_ans u) /\ a_status (u_ans u) = ReachedScheduledEvent.
(** a scheduled reporter is called only at its own next report time *)
Definition report_good (uses:list iuse) (k:call S) : Prop :=
  k_cause k = CReport ->
  exists r u, In r (ss_reporters ss) /\ h_id r = k_id k /\ In u uses /\
     Ieq (h_next r (u_tcur u) (u_inclRep u)) (Some (k_time k)) /\
     k_time k == a_t (u_ans u) /\ a_status (u_ans u) = ReachedReportTime.

Lemma body_good time s a l s2 stop : ids_disjoint ->
  let u := MKUSE time s a in
  BODY time s u = (l, s2, stop) -> use_core u ->
  forall k, In k l -> sched_good [u] k /\ report_good [u] k /\
                      (k_cause k = CScheduled \/ k_cause k = CReport \/ k_cause k = CTriggered).
Proof.
  intros Hdis u E Hok k Hk.
  destruct (mk_use_fields time s a) as [F1 [F2 [F3 [F4 [F5 [F6 F7]]]]]]. fold u in F1, F2, F3, F4, F5, F6, F7.
  destruct Hok as [O1 [O2 [O4 O5]]]. unfold ts_body in E. rewrite F3 in *.
  destruct (a_status a) eqn:St.
  - (* ReachedReportTime *)
    inversion E; subst l; clear E.
    destruct (ile (u_nextRep u) (Some (a_t a))) eqn:Due; [|destruct Hk].
    simpl in Hk. rewrite app_nil_r in Hk. apply run_reporters_log in Hk. destruct Hk as [A [B [C [r [D F]]]]].
    split; [intro X; congruence|]. split; [|auto].
    intros _. symmetry in F5. destruct (sub_next_spec S _ _ _ _ _ F5) as [G1 _].
    destruct (G1 _ C) as [r' [K1 [K2 [K3 K4]]]]. exists r', u. rewrite F1, F3. repeat split; auto; try (left; auto).
    + specialize (O5 eq_refl). rewrite F6 in O5. apply ile_iff in Due. rewrite B.
      destruct (imin_spec (u_nextRep u) (Some time)) as [[I1 I2]|[I1 I2]]; rewrite I2 in O5;
        clear -O5 Due K4 I1; destruct (h_next r' (ts_t s) (u_inclRep u)), (u_nextRep u); simpl in *; try tauto; lra.
    + rewrite B. reflexivity.
  - (* ReachedEventTrigger *)
    destruct (run_handlers S th_id th_act CTriggered thandlers (a_ids a) (a_tadv a) _) as [[[p' tm] lw] l'] eqn:E2.
    inversion E; subst l'; clear E. destruct (run_handlers_log _ _ _ _ _ _ _ _ _ _ _ E2 k Hk) as [A _].
    split; [intro X; congruence|]. split; [intro X; congruence|auto].
  - (* ReachedScheduledEvent *)
    destruct (handle_scheduled S subs (u_evids u) (a_tadv a) _) as [[[p' tm] lw] l'] eqn:E2.
    inversion E; subst l'; clear E. simpl in E2.
    destruct (run_handlers S h_id h_act CScheduled (ss_handlers ss) (u_evids u) (a_tadv a) _) as [[[p1 tm1] lw1] l1] eqn:E3.
    inversion E2; subst l; clear E2. rewrite app_nil_r in Hk. apply in_app_iff in Hk.
    destruct (O4 eq_refl) as [P1 [P2 P3]].
    assert (Hev: Ieq (u_nextEv u) (Some (a_tadv a))).
    { rewrite F6, F7 in P3. rewrite F7 in P1.
      destruct (imin_spec (u_nextEv u) (Some time)) as [[I1 I2]|[I1 I2]]; rewrite I2 in *;
      destruct (imin_spec (u_nextRep u) (Some time)) as [[J1 J2]|[J1 J2]]; rewrite J2 in *;
      clear -P1 P2 P3 I1 J1; destruct (u_nextEv u), (u_nextRep u); simpl in *; try tauto; try lra. }
    symmetry in F4. destruct (sub_next_spec S _ _ _ _ _ F4) as [G1 _].
    destruct Hk as [Hk|Hk].
    + destruct (run_handlers_log _ _ _ _ _ _ _ _ _ _ _ E3 k Hk) as [A [B [C [h [D F]]]]].
      split; [|split; [intro X; congruence|auto]].
      intros _. destruct (G1 _ C) as [h' [K1 [K2 [K3 K4]]]]. exists h', u. rewrite F1, F3.
      repeat split; auto; try (left; auto).
      * rewrite B. clear -K4 Hev. destruct (h_next h' (ts_t s) (u_inclEv u)), (u_nextEv u); simpl in *; try tauto; lra.
      * rewrite B. reflexivity.
    + apply run_reporters_log in Hk. destruct Hk as [A [B [C [r [D F]]]]].
      exfalso. destruct (G1 _ C) as [h' [K1 [K2 _]]]. apply (Hdis h' r K1 D). congruence.
  - inversion E; subst l. destruct Hk.
  - inversion E; subst l. destruct Hk.
  - inversion E; subst l. destruct Hk.
  - inversion E; subst l. destruct Hk.
Qed.

Lemma good_mono (G:list iuse -> call S -> Prop) :
  (forall us us' k, G us k -> (forall u, In u us -> In u us') -> G us' k) -> True.
Proof. auto. Qed.

Lemma sched_good_mono us us' k : sched_good us k -> (forall u, In u us -> In u us') -> sched_good us' k.
Proof. intros H I C. destruct (H C) as [h [u [A [B [D E]]]]]. exists h, u. repeat split; auto; tauto. Qed.
Lemma report_good_mono us us' k : report_good us k -> (forall u, In u us -> In u us') -> report_good us' k.
Proof. intros H I C. destruct (H C) as [h [u [A [B [D E]]]]]. exists h, u. repeat split; auto; tauto. Qed.

Lemma loop_uses_mono : forall orc reportAll time s log uses st s' rest log' uses',
  LOOP reportAll time s orc log uses = TSRet S st s' rest log' uses' -> forall u, In u uses -> In u uses'.
Proof.
  induction orc as [|a orc IH]; intros reportAll time s log uses st s' rest log' uses' E u Hu; simpl in E.
  - destruct (ts_over s); inversion E; subst; auto.
  - destruct (ts_over s); [inversion E; subst; auto|].
    destruct (BODY time s (MKUSE time s a)) as [[l s2] stop] eqn:Eb.
    destruct (stop || reportAll).
    + inversion E; subst. apply in_app_iff; auto.
    + eapply IH; eauto. apply in_app_iff; auto.
Qed.

Lemma loop_good : ids_disjoint -> forall orc reportAll time s log uses st s' rest log' uses',
  LOOP reportAll time s orc log uses = TSRet S st s' rest log' uses' ->
  (forall u, In u uses' -> use_core u) ->
  (forall k, In k log -> sched_good uses k /\ report_good uses k) ->
  (forall k, In k log' -> sched_good uses' k /\ report_good uses' k).
Proof.
  intros Hdis. induction orc as [|a orc IH]; intros reportAll time s log uses st s' rest log' uses' E Hok Hg; simpl in E.
  - destruct (ts_over s); inversion E; subst; auto.
  - destruct (ts_over s); [inversion E; subst; auto|].
    destruct (BODY time s (MKUSE time s a)) as [[l s2] stop] eqn:Eb.
    assert (Hstep: forall usx, (forall u, In u (uses ++ [MKUSE time s a]) -> In u usx) -> use_core (MKUSE time s a) ->
              forall k, In k (log ++ l) -> sched_good usx k /\ report_good usx k).
    { intros usx Hsub Huse k Hk. apply in_app_iff in Hk. destruct Hk as [Hk|Hk].
      - destruct (Hg k Hk). split; [eapply sched_good_mono|eapply report_good_mono]; eauto;
          intros u Hu; apply Hsub; apply in_app_iff; auto.
      - destruct (body_good time s a l s2 stop Hdis Eb Huse k Hk) as [A [B _]].
        split; [eapply sched_good_mono|eapply report_good_mono]; eauto;
          intros u [<-|[]]; apply Hsub; apply in_app_iff; right; left; auto. }
    destruct (stop || reportAll).
    + inversion E; subst. apply Hstep; auto. apply Hok. apply in_app_iff; right; left; auto.
    + pose proof (loop_uses_mono _ _ _ _ _ _ _ _ _ _ _ E) as Hm.
      apply (IH _ _ _ _ _ _ _ _ _ _ E Hok).
      apply Hstep; auto. apply Hok. apply Hm. apply in_app_iff; right; left; auto.
Qed.

(** MAIN (scheduled handlers): every call of a scheduled handler made by TimeStepper::stepTo happens at a time equal
    to that handler's own getNextEventTime, evaluated at the time the integrator was started from *)
Lemma scheduled_called_exactly_at_time reportAll time s orc st s' rest log uses : ids_disjoint ->
  ts_stepTo S cf subs thandlers flow reportAll time s orc = TSRet S st s' rest log uses ->
  (forall u, In u uses -> use_core u) ->
  forall k, In k log -> k_cause k = CScheduled ->
  exists h u, In h (ss_handlers ss) /\ h_id h = k_id k /\ In u uses /\
     Ieq (h_next h (u_tcur u) (u_inclEv u)) (Some (k_time k)) /\
     eligible (u_tcur u) (u_inclEv u) (h_next h (u_tcur u) (u_inclEv u)) = true /\
     k_time k == a_tadv (u_ans u) /\ a_status (u_ans u) = ReachedScheduledEvent.
Proof.
  intros Hdis E Hok k Hk Hc. unfold ts_stepTo in E.
  destruct (loop_good Hdis _ _ _ _ _ _ _ _ _ _ _ E Hok ltac:(intros ? []) k Hk) as [G _]. apply G; auto.
Qed.

Lemma reporters_called_exactly_at_time reportAll time s orc st s' rest log uses : ids_disjoint ->
  ts_stepTo S cf subs thandlers flow reportAll time s orc = TSRet S st s' rest log uses ->
  (forall u, In u uses -> use_core u) ->
  forall k, In k log -> k_cause k = CReport ->
  exists r u, In r (ss_reporters ss) /\ h_id r = k_id k /\ In u uses /\
     Ieq (h_next r (u_tcur u) (u_inclRep u)) (Some (k_time k)) /\
     k_time k == a_t (u_ans u) /\ a_status (u_ans u) = ReachedReportTime.
Proof.
  intros Hdis E Hok k Hk Hc. unfold ts_stepTo in E.
  destruct (loop_good Hdis _ _ _ _ _ _ _ _ _ _ _ E Hok ltac:(intros ? []) k Hk) as [_ G]. apply G; auto.
Qed.

(** ------------------------------------------------------------------------------------------ time order of the calls *)
Definition is_hcall (k:call S) : bool := match k_cause k with CScheduled | CTriggered => true | _ => false end.
Definition is_rcall (k:call S) : bool := match k_cause k with CReport => true | _ => false end.
Fixpoint nondecr (l:list Q) : Prop := match l with [] => True | x :: r => (forall y, In y r -> x <= y) /\ nondecr r end.
Definition htimes (log:list (call S)) : list Q := map (@k_time S) (filter is_hcall log).
Definition rtimes (log:list (call S)) : list Q := map (@k_time S) (filter is_rcall log).

Lemma nondecr_app l1 l2 : nondecr l1 -> nondecr l2 -> (forall x y, In x l1 -> In y l2 -> x <= y) -> nondecr (l1 ++ l2).
Proof.
  induction l1 as [|a r IH]; simpl; intros H1 H2 H; auto. destruct H1 as [Ha Hr]. split.
  - intros y Hy. apply in_app_iff in Hy. destruct Hy; auto.
  - apply IH; auto.
Qed.
Lemma nondecr_const (l:list Q) c : (forall x, In x l -> x = c) -> nondecr l.
Proof.
  induction l as [|a r IH]; simpl; intros H; auto. split.
  - intros y Hy. rewrite (H a), (H y); auto. lra.
  - apply IH. intros; apply H; auto.
Qed.

(** all handler calls of one dispatch happen at the advanced time, all reporter calls at the returned time *)
Lemma body_times time s u l s2 stop : BODY time s u = (l, s2, stop) ->
  (forall k, In k l -> is_hcall k = true -> k_time k = a_tadv (u_ans u)) /\
  (forall k, In k l -> is_rcall k = true -> k_time k = a_t (u_ans u) \/ k_time k = a_tadv (u_ans u) /\ a_status (u_ans u) = ReachedScheduledEvent) /\
  ts_tadv s2 = a_tadv (u_ans u) /\ (ts_t s2 = a_t (u_ans u) \/ ts_t s2 = a_tadv (u_ans u)).
Proof.
  unfold ts_body. set (a := u_ans u). intros E.
  destruct (a_status a) eqn:St.
  - inversion E; subst; clear E. split; [|split; [|split]].
    + intros k Hk Hh. destruct (ile (u_nextRep u) (Some (a_t a))); [|destruct Hk].
      simpl in Hk. rewrite app_nil_r in Hk. apply run_reporters_log in Hk. destruct Hk as [A _]. unfold is_hcall in Hh. rewrite A in Hh. discriminate.
    + intros k Hk _. destruct (ile (u_nextRep u) (Some (a_t a))); [|destruct Hk].
      simpl in Hk. rewrite app_nil_r in Hk. apply run_reporters_log in Hk. left. tauto.
    + destruct (ile (u_nextRep u) (Some (a_t a))); reflexivity.
    + destruct (ile (u_nextRep u) (Some (a_t a))); left; reflexivity.
  - destruct (run_handlers S th_id th_act CTriggered thandlers (a_ids a) (a_tadv a) _) as [[[p' tm] lw] l'] eqn:E2.
    inversion E; subst; clear E. split; [|split; [|split]].
    + intros k Hk _. destruct (run_handlers_log _ _ _ _ _ _ _ _ _ _ _ E2 k Hk) as [_ [B _]]. auto.
    + intros k Hk Hr. destruct (run_handlers_log _ _ _ _ _ _ _ _ _ _ _ E2 k Hk) as [A _]. unfold is_rcall in Hr. rewrite A in Hr. discriminate.
    + reflexivity.
    + simpl. destruct lw; auto.
  - destruct (handle_scheduled S subs (u_evids u) (a_tadv a) _) as [[[p' tm] lw] l'] eqn:E2.
    inversion E; subst; clear E. simpl in E2.
    destruct (run_handlers S h_id h_act CScheduled (ss_handlers ss) (u_evids u) (a_tadv a) _) as [[[p1 tm1] lw1] l1] eqn:E3.
    inversion E2; subst; clear E2. split; [|split; [|split]].
    + intros k Hk _. rewrite app_nil_r in Hk. apply in_app_iff in Hk. destruct Hk as [Hk|Hk].
      * destruct (run_handlers_log _ _ _ _ _ _ _ _ _ _ _ E3 k Hk) as [_ [B _]]. auto.
      * apply run_reporters_log in Hk. tauto.
    + intros k Hk _. rewrite app_nil_r in Hk. apply in_app_iff in Hk. right. split; auto. destruct Hk as [Hk|Hk].
      * destruct (run_handlers_log _ _ _ _ _ _ _ _ _ _ _ E3 k Hk) as [_ [B _]]. auto.
      * apply run_reporters_log in Hk. tauto.
    + reflexivity.
    + simpl. destruct (lw1 || false); auto.
  - inversion E; subst; clear E. split; [|split; [|split]]; try (intros k []); simpl; auto.
  - inversion E; subst; clear E. split; [|split; [|split]]; try (intros k []); simpl; auto.
  - inversion E; subst; clear E. split; [|split; [|split]]; try (intros k []); simpl; auto.
  - inversion E; subst; clear E. split; [|split; [|split]]; try (intros k []); simpl; auto.
Qed.

Definition order_inv (log:list (call S)) (s:tstate S) : Prop :=
  nondecr (htimes log) /\ (forall t, In t (htimes log) -> t <= ts_tadv s) /\
  nondecr (rtimes log) /\ (forall t, In t (rtimes log) -> t <= ts_t s) /\ ts_t s <= ts_tadv s.

Lemma htimes_app l1 l2 : htimes (l1 ++ l2) = htimes l1 ++ htimes l2.
Proof. unfold htimes. rewrite filter_app, map_app. reflexivity. Qed.
Lemma rtimes_app l1 l2 : rtimes (l1 ++ l2) = rtimes l1 ++ rtimes l2.
Proof. unfold rtimes. rewrite filter_app, map_app. reflexivity. Qed.

Lemma body_order time s a l s2 stop log : ids_disjoint ->
  let u := MKUSE time s a in
  BODY time s u = (l, s2, stop) -> use_ok u -> order_inv log s -> order_inv (log ++ l) s2.
Proof.
  intros Hdis u E Hok [I1 [I2 [I3 [I4 I5]]]].
  destruct (mk_use_fields time s a) as [F1 [F2 [F3 _]]]. fold u in F1, F2, F3.
  destruct (body_times _ _ _ _ _ _ E) as [T1 [T2 [T3 T4]]]. rewrite F3 in *.
  destruct Hok as [[O1 [O2 [O4 _]]] O3]. unfold use_mono in O3. rewrite F1, F2, F3 in *.
  assert (Hh: forall t, In t (htimes l) -> t = a_tadv a).
  { intros t Ht. unfold htimes in Ht. apply in_map_iff in Ht. destruct Ht as [k [<- Hk]]. apply filter_In in Hk. apply T1; tauto. }
  assert (Hr: forall t, In t (rtimes l) -> t == a_t a).
  { intros t Ht. unfold rtimes in Ht. apply in_map_iff in Ht. destruct Ht as [k [<- Hk]]. apply filter_In in Hk.
    destruct (T2 k (proj1 Hk) (proj2 Hk)) as [X|[X Y]]; rewrite X; [reflexivity|]. destruct (O4 Y) as [_ [P _]]. exact P. }
  unfold order_inv. rewrite htimes_app, rtimes_app, T3. repeat split.
  - apply nondecr_app; auto.
    + apply nondecr_const with (c := a_tadv a); auto.
    + intros x y Hx Hy. rewrite (Hh y Hy). specialize (I2 x Hx). lra.
  - intros t Ht. apply in_app_iff in Ht. destruct Ht as [Ht|Ht].
    + specialize (I2 t Ht). lra.
    + rewrite (Hh t Ht). lra.
  - apply nondecr_app; auto.
    + clear -Hr. induction (rtimes l) as [|x r IH]; simpl; auto. split.
      * intros y Hy. rewrite (Hr x), (Hr y); simpl; auto. lra.
      * apply IH. intros; apply Hr; simpl; auto.
    + intros x y Hx Hy. rewrite (Hr y Hy). specialize (I4 x Hx). lra.
  - intros t Ht. apply in_app_iff in Ht. destruct Ht as [Ht|Ht].
    + specialize (I4 t Ht). destruct T4 as [->| ->]; lra.
    + rewrite (Hr t Ht). destruct T4 as [->| ->]; lra.
  - destruct T4 as [->| ->]; lra.
Qed.

Lemma loop_order : ids_disjoint -> forall orc reportAll time s log uses st s' rest log' uses',
  LOOP reportAll time s orc log uses = TSRet S st s' rest log' uses' ->
  (forall u, In u uses' -> use_ok u) -> order_inv log s -> order_inv log' s'.
Proof.
  intros Hdis. induction orc as [|a orc IH]; intros reportAll time s log uses st s' rest log' uses' E Hok Hi; simpl in E.
  - destruct (ts_over s); inversion E; subst; auto.
  - destruct (ts_over s); [inversion E; subst; auto|].
    destruct (BODY time s (MKUSE time s a)) as [[l s2] stop] eqn:Eb.
    destruct (stop || reportAll).
    + inversion E; subst. eapply body_order; eauto. apply Hok. apply in_app_iff; right; left; auto.
    + pose proof (loop_uses_mono _ _ _ _ _ _ _ _ _ _ _ E) as Hm.
      apply (IH _ _ _ _ _ _ _ _ _ _ E Hok). eapply body_order; eauto. apply Hok. apply Hm. apply in_app_iff; right; left; auto.
Qed.

(** MAIN (time order): within one TimeStepper::stepTo the calls of state-changing handlers (scheduled and triggered) are
    made at nondecreasing times, and so are the calls of scheduled reporters *)
Lemma handlers_in_time_order reportAll time s orc st s' rest log uses : ids_disjoint -> ts_t s <= ts_tadv s ->
  ts_stepTo S cf subs thandlers flow reportAll time s orc = TSRet S st s' rest log uses ->
  (forall u, In u uses -> use_ok u) ->
  nondecr (htimes log) /\ nondecr (rtimes log).
Proof.
  intros Hdis H0 E Hok. unfold ts_stepTo in E.
  assert (I0: order_inv [] s). { unfold order_inv, htimes, rtimes. simpl. repeat split; auto; intros t []. }
  destruct (loop_order Hdis _ _ _ _ _ _ _ _ _ _ _ E Hok I0) as [A [_ [B _]]]. auto.
Qed.

(** a periodic handler is only ever called at exact multiples of its interval *)
Lemma periodic_handler_called_at_multiples reportAll time s orc st s' rest log uses interval : ids_disjoint ->
  0 < interval ->
  ts_stepTo S cf subs thandlers flow reportAll time s orc = TSRet S st s' rest log uses ->
  (forall u, In u uses -> use_core u) ->
  forall k h, In k log -> k_cause k = CScheduled -> In h (ss_handlers ss) -> h_id h = k_id k ->
  NoDup (map (@h_id S) (ss_handlers ss)) ->
  (forall t incl, h_next h t incl = Some (periodic_next interval t incl)) ->
  exists z:Z, k_time k == inject_Z z * interval.
Proof.
  intros Hdis Hi E Hok k h Hk Hc Hh Hid Hnd Hper.
  destruct (scheduled_called_exactly_at_time _ _ _ _ _ _ _ _ _ Hdis E Hok k Hk Hc) as [h' [u [A [B [C [D _]]]]]].
  assert (h' = h).
  { clear -A B Hh Hid Hnd. induction (ss_handlers ss) as [|x r IH]; [destruct A|]. simpl in Hnd. inversion Hnd; subst.
    destruct A as [->|A], Hh as [->|Hh]; auto.
    - exfalso. apply H1. rewrite B, <- Hid. apply in_map; auto.
    - exfalso. apply H1. rewrite Hid, <- B. apply in_map; auto. }
  subst h'. rewrite Hper in D. simpl in D.
  destruct (periodic_next_spec interval (u_tcur u) (u_inclEv u) Hi) as [z [Ez _]]. exists z. rewrite <- D. exact Ez.
Qed.

(** ------------------------------------------------------------------------------------------ states seen and produced *)
Section CHAIN.
Context {H:Type} (hid:H -> nat) (act:H -> S -> Q -> S * bool * bool).
Definition out1 (h:H) (st:S) (t:Q) : S := fst (fst (act h st t)).
Fixpoint apply_all (t:Q) (hs:list H) (st:S) : S := match hs with [] => st | h :: r => apply_all t r (out1 h st t) end.
Fixpoint inputs (t:Q) (hs:list H) (st:S) : list S := match hs with [] => [] | h :: r => st :: inputs t r (out1 h st t) end.
Definition called (ids:list nat) (hs:list H) : list H := filter (fun h => memb (hid h) ids) hs.

(** each called handler sees the state produced by the one called before it; the result is the last one's output *)
Lemma run_handlers_chain c : forall hs ids t st st' tm lw l,
  run_handlers S hid act c hs ids t st = (st', tm, lw, l) ->
  st' = apply_all t (called ids hs) st /\ map (@k_in S) l = inputs t (called ids hs) st /\
  map (@k_id S) l = map hid (called ids hs).
Proof.
  induction hs as [|h r IH]; simpl; intros ids t st st' tm lw l E.
  - inversion E; subst. auto.
  - unfold called. simpl. destruct (memb (hid h) ids) eqn:M.
    + unfold out1. destruct (act h st t) as [[st1 tm1] lw1] eqn:Ea.
      destruct (run_handlers S hid act c r ids t st1) as [[[st2 tm2] lw2] l2] eqn:E2. inversion E; subst.
      destruct (IH _ _ _ _ _ _ _ E2) as [A [B C]]. simpl. unfold out1. rewrite Ea. simpl. unfold called in A, B, C. rewrite <- A, <- B, <- C. auto.
    + apply IH in E. exact E.
Qed.
End CHAIN.

(** after a triggered event the called handlers see, in order, the trajectory state at the advanced time and then each
    other's results; the state the integrator continues from is the last handler's result, at the same time *)
Lemma resumes_from_triggered_handlers time s u l s2 stop : BODY time s u = (l, s2, stop) ->
  a_status (u_ans u) = ReachedEventTrigger ->
  let a := u_ans u in
  let st0 := flow (ts_pay s) (ts_tadv s) (a_tadv a) in
  let hs := called th_id (a_ids a) thandlers in
  map (@k_in S) l = inputs th_act (a_tadv a) hs st0 /\ map (@k_id S) l = map (@th_id S) hs /\
  ts_pay s2 = apply_all th_act (a_tadv a) hs st0 /\ ts_tadv s2 = a_tadv a.
Proof.
  unfold ts_body. intros E St. rewrite St in E.
  destruct (run_handlers S th_id th_act CTriggered thandlers (a_ids (u_ans u)) (a_tadv (u_ans u)) _) as [[[p' tm] lw] l'] eqn:E2.
  inversion E; subst; clear E. destruct (run_handlers_chain _ _ _ _ _ _ _ _ _ _ _ E2) as [A [B C]].
  simpl. auto.
Qed.

(** same for a scheduled event: handlers in order, then the reporters due at that time see the handlers' result *)
Lemma resumes_from_scheduled_handlers time s u l s2 stop : BODY time s u = (l, s2, stop) ->
  a_status (u_ans u) = ReachedScheduledEvent ->
  let a := u_ans u in
  let st0 := flow (ts_pay s) (ts_tadv s) (a_tadv a) in
  let hs := called h_id (u_evids u) (ss_handlers ss) in
  let st1 := apply_all h_act (a_tadv a) hs st0 in
  exists lh lr, l = lh ++ lr /\
    map (@k_in S) lh = inputs h_act (a_tadv a) hs st0 /\ map (@k_id S) lh = map (@h_id S) hs /\
    (forall k, In k lr -> k_cause k = CReport /\ k_in k = st1) /\
    ts_pay s2 = st1 /\ ts_tadv s2 = a_tadv a.
Proof.
  unfold ts_body. intros E St. rewrite St in E.
  destruct (handle_scheduled S subs (u_evids u) (a_tadv (u_ans u)) _) as [[[p' tm] lw] l'] eqn:E2.
  inversion E; subst; clear E. simpl in E2.
  destruct (run_handlers S h_id h_act CScheduled (ss_handlers ss) (u_evids u) (a_tadv (u_ans u)) _) as [[[p1 tm1] lw1] l1] eqn:E3.
  inversion E2; subst; clear E2. destruct (run_handlers_chain _ _ _ _ _ _ _ _ _ _ _ E3) as [A [B C]].
  exists l1, (run_reporters S (ss_reporters ss) (u_evids u) (a_tadv (u_ans u)) p'). rewrite app_nil_r.
  repeat split; auto.
  - apply run_reporters_log in H. tauto.
  - rewrite <- A. clear -H. revert H. generalize (ss_reporters ss). induction l as [|r rs IH]; simpl; [intros []|].
    destruct (memb (h_id r) (u_evids u)); simpl; [intros [<-|X]; auto|auto].
Qed.

(** and the next integrator call continues the trajectory from exactly that state and time *)
Lemma next_step_continues_from_state time s u : 
  forall l s2 stop, BODY time s u = (l, s2, stop) ->
  forall time' u' l' s3 stop', BODY time' s2 u' = (l', s3, stop') ->
  a_status (u_ans u') = StartOfContinuousInterval \/ a_status (u_ans u') = ReachedStepLimit ->
  ts_pay s3 = flow (ts_pay s2) (ts_tadv s2) (a_tadv (u_ans u')).
Proof.
  intros l s2 stop _ time' u' l' s3 stop' E St. unfold ts_body in E.
  destruct St as [St|St]; rewrite St in E; inversion E; subst; reflexivity.
Qed.

(** ------------------------------------------------------------------------------------------ termination *)
(** the "should terminate" result of one dispatch is the OR over ALL handlers invoked, each on the state it saw *)
Fixpoint any_term {H:Type} (act:H -> S -> Q -> S * bool * bool) (t:Q) (hs:list H) (st:S) : bool :=
  match hs with [] => false | h :: r => snd (fst (act h st t)) || any_term act t r (fst (fst (act h st t))) end.

Lemma run_handlers_term_is_or {H:Type} (hid:H -> nat) act c : forall hs ids t st st' tm lw l,
  run_handlers S hid act c hs ids t st = (st', tm, lw, l) -> tm = any_term act t (called hid ids hs) st.
Proof.
  induction hs as [|h r IH]; simpl; intros ids t st st' tm lw l E.
  - inversion E; subst. reflexivity.
  - unfold called. simpl. destruct (memb (hid h) ids) eqn:M.
    + destruct (act h st t) as [[st1 tm1] lw1] eqn:Ea.
      destruct (run_handlers S hid act c r ids t st1) as [[[st2 tm2] lw2] l2] eqn:E2. inversion E; subst.
      simpl. rewrite Ea. simpl. f_equal. apply (IH _ _ _ _ _ _ _ E2).
    + apply (IH _ _ _ _ _ _ _ E).
Qed.

(** a terminating handler anywhere in the called list makes the dispatch terminate, whatever runs after it *)
Lemma any_term_true {H:Type} (act:H -> S -> Q -> S * bool * bool) t : forall hs st,
  (exists pre h post, hs = pre ++ h :: post /\ snd (fst (act h (apply_all act t pre st) t)) = true) ->
  any_term act t hs st = true.
Proof.
  intros hs st [pre [h [post [E Ht]]]]. subst hs. revert st Ht.
  induction pre as [|p pre IH]; intros st Ht; simpl in *.
  - unfold out1 in *. rewrite Ht. reflexivity.
  - apply orb_true_iff. right. apply IH. exact Ht.
Qed.

(** after a triggered (resp. scheduled) event the simulation is over iff some invoked handler asked for it *)
Lemma triggered_dispatch_terminates_iff time s u l s2 stop : BODY time s u = (l, s2, stop) ->
  a_status (u_ans u) = ReachedEventTrigger ->
  ts_over s2 = any_term th_act (a_tadv (u_ans u)) (called th_id (a_ids (u_ans u)) thandlers)
                        (flow (ts_pay s) (ts_tadv s) (a_tadv (u_ans u))).
Proof.
  unfold ts_body. intros E St. rewrite St in E.
  destruct (run_handlers S th_id th_act CTriggered thandlers (a_ids (u_ans u)) (a_tadv (u_ans u)) _) as [[[p' tm] lw] l'] eqn:E2.
  inversion E; subst; clear E. simpl. apply (run_handlers_term_is_or _ _ _ _ _ _ _ _ _ _ _ E2).
Qed.

Lemma scheduled_dispatch_terminates_iff time s u l s2 stop : BODY time s u = (l, s2, stop) ->
  a_status (u_ans u) = ReachedScheduledEvent ->
  ts_over s2 = any_term h_act (a_tadv (u_ans u)) (called h_id (u_evids u) (ss_handlers ss))
                        (flow (ts_pay s) (ts_tadv s) (a_tadv (u_ans u))).
Proof.
  unfold ts_body. intros E St. rewrite St in E.
  destruct (handle_scheduled S subs (u_evids u) (a_tadv (u_ans u)) _) as [[[p' tm] lw] l'] eqn:E2.
  inversion E; subst; clear E. simpl in E2.
  destruct (run_handlers S h_id h_act CScheduled (ss_handlers ss) (u_evids u) (a_tadv (u_ans u)) _) as [[[p1 tm1] lw1] l1] eqn:E3.
  inversion E2; subst; clear E2. simpl. rewrite orb_false_r. apply (run_handlers_term_is_or _ _ _ _ _ _ _ _ _ _ _ E3).
Qed.

(** once the simulation is over, TimeStepper::stepTo returns EndOfSimulation at once: no integrator call, no handler call *)
Lemma over_returns_immediately reportAll time s orc log uses : ts_over s = true ->
  LOOP reportAll time s orc log uses = TSRet S EndOfSimulation s orc log uses.
Proof. intros H. destruct orc; simpl; rewrite H; reflexivity. Qed.

(** MAIN (termination): when the dispatch of one integrator answer leaves the simulation over (a handler asked for
    termination, or the final time was returned), that stepTo consumes no further integrator answer and makes no further
    handler call: it returns with the state of that dispatch, the log extended by that dispatch only, and every later
    stepTo returns EndOfSimulation without doing anything *)
Lemma termination_requested_ends_run reportAll time s a orc log uses l s2 stop : ts_over s = false ->
  BODY time s (MKUSE time s a) = (l, s2, stop) -> ts_over s2 = true ->
  LOOP reportAll time s (a :: orc) log uses =
    TSRet S (if stop || reportAll then a_status a else EndOfSimulation) s2 orc (log ++ l) (uses ++ [MKUSE time s a]) /\
  forall ra time' orc', ts_stepTo S cf subs thandlers flow ra time' s2 orc' = TSRet S EndOfSimulation s2 orc' [] [].
Proof.
  intros H0 Eb H2. split.
  - simpl. rewrite H0, Eb. destruct (stop || reportAll); [reflexivity|]. apply over_returns_immediately; auto.
  - intros. unfold ts_stepTo. apply over_returns_immediately; auto.
Qed.
End TSL.
