(** C23, layer 1: the lazily cached Constant/Time/Variable/Sinusoid/Plus/Minus/Scale trees return the value of their
    formula at the CURRENT time and variable values, after any operation sequence -- provided (a) values are asked for
    only when the state is realized to the node's depends-on stage, and (b) every Variable under a cached node
    invalidates a stage not later than that node's depends-on stage.  Both provisos are necessary: see the refuted
    statements at the end (known findings of C23). *)
From Coq Require Import List Arith Bool PeanoNat Reals Lra Lia.
Require Import Num C23_Model.
Import ListNotations.

Notation Env := (@env R).
Notation Tree := (@mtree R).

(** the formula a tree denotes *)
Fixpoint den (E : Env) (m : Tree) : R :=
  match m with
  | MConst c => c | MTime => e_t E | MVar i => var_val ROps E i
  | MSin a w p _ _ _ _ => sin_d ROps a w p 0 (e_t E)
  | MPlus l r _ => (den E l + den E r)%R | MMinus l r _ => (den E l - den E r)%R | MScale f e _ => (f * den E e)%R
  end.
(** its time derivatives as the measures report them (orders the measure offers) *)
Definition den_k (E : Env) (m : Tree) (k : nat) : R :=
  match k with
  | 0 => den E m
  | S k' => match m with
            | MTime => match k' with 0 => 1%R | _ => 0%R end
            | MSin a w p _ _ _ _ => sin_d ROps a w p (match k' with 0 => 1 | 1 => 2 | _ => 3 end) (e_t E)
            | _ => 0%R
            end
  end.

Definition fresh {A} (E : Env) (D : nat) (c : ce A) : Prop := ver_at E D = ce_ver c /\ ce_ok c = true.
Definition okc (E : Env) (D : nat) (c : ce R) (v : R) : Prop :=
  (ce_ok c = true -> ce_ver c <= ver_at E D) /\ (fresh E D c -> D <= e_stage E /\ ce_val c = v).

Lemma valid_fresh {A} (E : Env) D (c : ce A) : valid E D c = true <-> D <= e_stage E /\ fresh E D c.
Proof. unfold valid, fresh. rewrite !andb_true_iff, Nat.leb_le, Nat.eqb_eq. tauto. Qed.

(** every cache entry of the tree that looks current is current *)
Fixpoint J (E : Env) (m : Tree) : Prop :=
  match m with
  | MConst _ | MTime | MVar _ => True
  | MSin a w p c0 c1 c2 c3 =>
      okc E 4 c0 (sin_d ROps a w p 0 (e_t E)) /\ okc E 4 c1 (sin_d ROps a w p 1 (e_t E)) /\
      okc E 4 c2 (sin_d ROps a w p 2 (e_t E)) /\ okc E 4 c3 (sin_d ROps a w p 3 (e_t E))
  | MPlus l r c => J E l /\ J E r /\ okc E (dep m) c (den E m)
  | MMinus l r c => J E l /\ J E r /\ okc E (dep m) c (den E m)
  | MScale f e c => J E e /\ okc E (dep m) c (den E m)
  end.

Fixpoint occurs (i : nat) (m : Tree) : Prop :=
  match m with
  | MVar j => i = j
  | MPlus l r _ | MMinus l r _ => occurs i l \/ occurs i r
  | MScale _ e _ => occurs i e
  | _ => False
  end.
Definition var_stage (E : Env) (i : nat) : option nat := option_map snd (nth_error (e_vars E) i).
(** proviso (b) *)
Definition vars_below (E : Env) (m : Tree) : Prop :=
  forall i g, occurs i m -> var_stage E i = Some g -> g <= dep m.
Fixpoint wf_vars (E : Env) (m : Tree) : Prop :=
  match m with
  | MPlus l r _ | MMinus l r _ => wf_vars E l /\ wf_vars E r /\ vars_below E m
  | MScale _ e _ => wf_vars E e /\ vars_below E m
  | _ => True
  end.

Definition env_wf (E : Env) : Prop := length (e_ver E) = 11.

Lemma dep_le4 (m : Tree) : dep m <= 4.
Proof. induction m; simpl; lia. Qed.

(* ------------------------------------------------------------------ what den depends on *)
Lemma den_time_indep (E E' : Env) m : dep m < 4 -> e_vars E = e_vars E' -> den E m = den E' m.
Proof. intros H V. induction m; simpl in *; try lia; auto.
  - unfold var_val. rewrite V. reflexivity.
  - rewrite IHm1, IHm2 by lia; reflexivity.
  - rewrite IHm1, IHm2 by lia; reflexivity.
  - rewrite IHm by lia; reflexivity. Qed.
Lemma den_ext (E E' : Env) m : e_t E = e_t E' ->
  (forall i, occurs i m -> var_val ROps E i = var_val ROps E' i) -> den E m = den E' m.
Proof. intros Ht. induction m; simpl; intros Hv; auto.
  - rewrite Ht; reflexivity.
  - rewrite IHm1, IHm2; auto.
  - rewrite IHm1, IHm2; auto.
  - rewrite IHm; auto. Qed.

(* ------------------------------------------------------------------ stage version bumps *)
Lemma nth_bump lo hi l : forall i D,
  nth D (bump_range lo hi i l) 0 =
  if (lo <=? i + D) && (i + D <=? hi) && (D <? length l) then S (nth D l 0) else nth D l 0.
Proof. induction l as [|v r IH]; intros i D; simpl.
  - destruct D; rewrite andb_false_r; reflexivity.
  - destruct D as [|D'].
    + rewrite Nat.add_0_r. destruct ((lo <=? i) && (i <=? hi)); reflexivity.
    + rewrite IH. replace (S i + D') with (i + S D') by lia.
      change (S D' <? S (length r)) with (D' <? length r).
      reflexivity. Qed.

Lemma inval_cases (E : Env) g : (g <= e_stage E /\ inval E g = mkEnv (e_t E) (pred g) (bump_range g (e_stage E) 0 (e_ver E)) (e_vars E))
                        \/ (e_stage E < g /\ inval E g = E).
Proof. unfold inval. destruct (g <=? e_stage E) eqn:L; [left; apply Nat.leb_le in L | right; apply Nat.leb_gt in L]; auto. Qed.
Lemma inval_t (E : Env) g : e_t (inval E g) = e_t E. Proof. unfold inval; destruct (g <=? e_stage E); reflexivity. Qed.
Lemma inval_vars (E : Env) g : e_vars (inval E g) = e_vars E. Proof. unfold inval; destruct (g <=? e_stage E); reflexivity. Qed.
Lemma inval_wf (E : Env) g : env_wf E -> env_wf (inval E g).
Proof. unfold env_wf, inval. destruct (g <=? e_stage E); simpl; auto.
  intros H. assert (L : forall lo hi i l, length (bump_range lo hi i l) = length (A:=nat) l) by
    (intros lo hi i l; revert i; induction l; simpl; intros; auto). rewrite L; auto. Qed.
Lemma inval_stage_le (E : Env) g : e_stage (inval E g) <= e_stage E.
Proof. destruct (inval_cases E g) as [[L ->]|[L ->]]; simpl; lia. Qed.

(** an entry that looks current after invalidateAll(g) looked current before, and its stage is below g *)
Lemma okc_inval (E : Env) g D c v : env_wf E -> 1 <= g -> D <= 10 -> okc E D c v -> okc (inval E g) D c v /\
  (fresh (inval E g) D c -> D <= e_stage E -> D < g).
Proof. intros W G1 D10 [Hle Hfr]. destruct (inval_cases E g) as [[L ->]|[L ->]].
  2:{ split; [split; auto|]. intros F S. lia. }
  unfold okc, fresh, ver_at in *. simpl. rewrite nth_bump. simpl.
  replace (D <? length (e_ver E)) with true by (symmetry; apply Nat.ltb_lt; unfold env_wf in W; lia).
  rewrite andb_true_r.
  destruct ((g <=? D) && (D <=? e_stage E)) eqn:B.
  - apply andb_true_iff in B. destruct B as [B1 B2]. apply Nat.leb_le in B1, B2.
    split; [split|].
    + intros O. specialize (Hle O). lia.
    + intros [F O]. specialize (Hle O). lia.
    + intros [F O]. specialize (Hle O). lia.
  - apply andb_false_iff in B. split; [split|].
    + auto.
    + intros F. destruct (Hfr F) as [S V]. split; auto.
      destruct B as [B|B]; [apply Nat.leb_gt in B | apply Nat.leb_gt in B]; lia.
    + intros F S. destruct B as [B|B]; [apply Nat.leb_gt in B | apply Nat.leb_gt in B]; lia. Qed.

(* ------------------------------------------------------------------ J under environment changes *)
Fixpoint subt (n m : Tree) : Prop :=
  n = m \/ match m with
           | MPlus l r _ | MMinus l r _ => subt n l \/ subt n r
           | MScale _ e _ => subt n e
           | _ => False
           end.
Definition cnode (n : Tree) : Prop := match n with MPlus _ _ _ | MMinus _ _ _ | MScale _ _ _ => True | _ => False end.
Lemma subt_refl m : subt m m. Proof. destruct m; simpl; auto. Qed.

(** generic transport: versions/stage as after [inval E g], time and variables possibly changed, under the condition
    that every cached node whose formula value changed has depends-on stage >= g *)
Lemma J_transport (E : Env) g E' m : env_wf E -> 1 <= g ->
  e_stage E' = e_stage (inval E g) -> e_ver E' = e_ver (inval E g) ->
  (forall n, subt n m -> cnode n -> dep n < g -> den E' n = den E n) ->
  (4 < g -> e_t E' = e_t E) ->
  J E m -> J E' m.
Proof. intros W G1 Hs Hv Hden Ht.
  assert (T : forall D c v v', D <= 10 -> okc E D c v -> (D < g -> v' = v) -> okc E' D c v').
  { intros D c v v' D10 O Hvv. destruct (okc_inval E g D c v W G1 D10 O) as [[A B] C].
    unfold okc, fresh, ver_at in *. rewrite Hs, Hv. split; auto.
    intros F. destruct (B F) as [S V]. split; auto. rewrite V. symmetry. apply Hvv. apply C; auto.
    pose proof (inval_stage_le E g). lia. }
  induction m; simpl; auto.
  - intros (A0 & A1 & A2 & A3).
    split; [|split; [|split]]; (eapply T; [lia | eassumption | intros G; rewrite Ht by lia; reflexivity]).
  - intros (A & B & C). split; [|split].
    + apply IHm1; auto. intros n Sn. apply Hden. simpl. right. left. exact Sn.
    + apply IHm2; auto. intros n Sn. apply Hden. simpl. right. right. exact Sn.
    + eapply T; [pose proof (dep_le4 m1); pose proof (dep_le4 m2); lia | exact C |].
      intros G. apply (Hden (MPlus m1 m2 c)); simpl; auto.
  - intros (A & B & C). split; [|split].
    + apply IHm1; auto. intros n Sn. apply Hden. simpl. right. left. exact Sn.
    + apply IHm2; auto. intros n Sn. apply Hden. simpl. right. right. exact Sn.
    + eapply T; [pose proof (dep_le4 m1); pose proof (dep_le4 m2); lia | exact C |].
      intros G. apply (Hden (MMinus m1 m2 c)); simpl; auto.
  - intros (A & C). split.
    + apply IHm; auto. intros n Sn. apply Hden. simpl. right. exact Sn.
    + eapply T; [pose proof (dep_le4 m); lia | exact C |].
      intros G. apply (Hden (MScale f m c)); simpl; auto. Qed.

Lemma J_inval (E : Env) g m : env_wf E -> 1 <= g -> J E m -> J (inval E g) m.
Proof. intros W G. apply (J_transport E g); auto.
  - intros n _ _ _. apply den_ext; [apply inval_t|]. intros i _. unfold var_val. rewrite inval_vars. reflexivity.
  - intros _. apply inval_t. Qed.

Lemma J_set_time (E : Env) x m : env_wf E -> J E m -> J (set_time E x) m.
Proof. intros W. apply (J_transport E 4); auto.
  - intros n _ _ Dn. apply den_time_indep; auto. simpl. rewrite inval_vars. reflexivity.
  - lia. Qed.

Lemma den_set_stage (E : Env) g m : den (set_stage E g) m = den E m.
Proof. apply den_ext; [reflexivity|]. intros; reflexivity. Qed.
Lemma J_set_stage (E : Env) g m : e_stage E <= g -> J E m -> J (set_stage E g) m.
Proof. intros L.
  assert (T : forall D c v, okc E D c v -> okc (set_stage E g) D c v).
  { intros D c v [A B]. split; auto. intros F. destruct (B F). simpl. split; auto. lia. }
  induction m; simpl; auto.
  - intros (A0 & A1 & A2 & A3). split; [|split; [|split]]; apply T; auto.
  - intros (A & B & C). split; [|split]; auto. apply T in C. rewrite !den_set_stage. exact C.
  - intros (A & B & C). split; [|split]; auto. apply T in C. rewrite !den_set_stage. exact C.
  - intros (A & C). split; auto. apply T in C. rewrite !den_set_stage. exact C. Qed.

Definition vars_pos (E : Env) : Prop := forall i g, var_stage E i = Some g -> 1 <= g.

Lemma nth_error_set_nth_other {A} (l : list A) : forall a b y, a <> b -> nth_error (set_nth a y l) b = nth_error l b.
Proof. induction l; intros a' b' y Nab; destruct a', b'; simpl; auto; try lia. Qed.
Lemma nth_error_set_nth_same {A} (l : list A) : forall a y z, nth_error l a = Some z -> nth_error (set_nth a y l) a = Some y.
Proof. induction l; intros a' y z; destruct a'; simpl; auto; try discriminate. apply IHl. Qed.

Lemma var_val_set_other (E : Env) i x j : i <> j -> var_val ROps (set_var E i x) j = var_val ROps E j.
Proof. intros N. unfold set_var, var_val. destruct (nth_error (e_vars E) i) as [[v g]|] eqn:Ei; auto. simpl.
  rewrite inval_vars, nth_error_set_nth_other; auto. Qed.
Lemma var_stage_set_var (E : Env) i x j : var_stage (set_var E i x) j = var_stage E j.
Proof. unfold set_var, var_stage. destruct (nth_error (e_vars E) i) as [[v g]|] eqn:Ei; auto. simpl.
  rewrite inval_vars. destruct (Nat.eq_dec i j) as [->|N].
  - rewrite (nth_error_set_nth_same _ _ _ _ Ei), Ei. reflexivity.
  - rewrite nth_error_set_nth_other; auto. Qed.

Lemma wf_vars_sub (E : Env) m n : wf_vars E m -> subt n m -> cnode n -> vars_below E n.
Proof. induction m; simpl; intros Wf [->|S] C; simpl in *; try tauto.
  all: try (destruct S as [S|S]; [apply IHm1 | apply IHm2]; tauto).
  all: try (apply IHm; tauto). Qed.

Lemma J_set_var (E : Env) i x m : env_wf E -> vars_pos E -> wf_vars E m -> J E m -> J (set_var E i x) m.
Proof. intros W P Wf. unfold set_var. destruct (nth_error (e_vars E) i) as [[v g]|] eqn:Ei; auto.
  assert (Vi : var_stage E i = Some g) by (unfold var_stage; rewrite Ei; reflexivity).
  apply (J_transport E g); auto.
  - apply (P i); auto.
  - intros n Sn Cn Dn. apply den_ext; [simpl; apply inval_t|].
    intros j Oj. destruct (Nat.eq_dec i j) as [<-|N].
    + pose proof (wf_vars_sub E m n Wf Sn Cn i g Oj Vi). lia.
    + pose proof (var_val_set_other E i x j N) as Q. unfold set_var in Q. rewrite Ei in Q. exact Q.
  - intros _. simpl. apply inval_t. Qed.

Lemma wf_vars_stage_indep (E E' : Env) m : (forall i, var_stage E' i = var_stage E i) -> wf_vars E m -> wf_vars E' m.
Proof. intros H. induction m; simpl; auto.
  - intros (A & B & C). repeat split; auto. intros i g Oi Vi. rewrite H in Vi. apply (C i g); auto.
  - intros (A & B & C). repeat split; auto. intros i g Oi Vi. rewrite H in Vi. apply (C i g); auto.
  - intros (A & C). split; auto. intros i g Oi Vi. rewrite H in Vi. apply (C i g); auto. Qed.

(* ------------------------------------------------------------------ the shape of a tree (cache contents erased) *)
Fixpoint erase (m : Tree) : Tree :=
  match m with
  | MSin a w p _ _ _ _ => mk_sin ROps a w p
  | MPlus l r _ => mk_plus ROps (erase l) (erase r)
  | MMinus l r _ => mk_minus ROps (erase l) (erase r)
  | MScale f e _ => mk_scale ROps f (erase e)
  | x => x
  end.
Lemma dep_erase m : dep (erase m) = dep m.
Proof. induction m; simpl; auto. Qed.
Lemma den_erase (E : Env) m : den E (erase m) = den E m.
Proof. induction m; simpl; congruence. Qed.
Lemma occurs_erase i m : occurs i (erase m) <-> occurs i m.
Proof. induction m; simpl; tauto. Qed.
Lemma vars_below_erase (E : Env) m : vars_below E (erase m) <-> vars_below E m.
Proof. unfold vars_below. split; intros H i g O V.
  - rewrite <- dep_erase. apply (H i g); auto. apply occurs_erase; auto.
  - rewrite dep_erase. apply (H i g); auto. apply occurs_erase; auto. Qed.
Lemma wf_erase (E : Env) m : wf_vars E (erase m) <-> wf_vars E m.
Proof. induction m; try (simpl; tauto).
  - change (wf_vars E (erase m1) /\ wf_vars E (erase m2) /\ vars_below E (erase (MPlus m1 m2 c)) <->
            wf_vars E m1 /\ wf_vars E m2 /\ vars_below E (MPlus m1 m2 c)).
    rewrite IHm1, IHm2, vars_below_erase. tauto.
  - change (wf_vars E (erase m1) /\ wf_vars E (erase m2) /\ vars_below E (erase (MMinus m1 m2 c)) <->
            wf_vars E m1 /\ wf_vars E m2 /\ vars_below E (MMinus m1 m2 c)).
    rewrite IHm1, IHm2, vars_below_erase. tauto.
  - change (wf_vars E (erase m) /\ vars_below E (erase (MScale f m c)) <-> wf_vars E m /\ vars_below E (MScale f m c)).
    rewrite IHm, vars_below_erase. tauto. Qed.
Lemma same_shape_dep m m' : erase m' = erase m -> dep m' = dep m.
Proof. intros H. rewrite <- (dep_erase m'), H. apply dep_erase. Qed.
Lemma same_shape_den (E : Env) m m' : erase m' = erase m -> den E m' = den E m.
Proof. intros H. rewrite <- (den_erase E m'), H. apply den_erase. Qed.
Lemma same_shape_wf (E : Env) m m' : erase m' = erase m -> wf_vars E m -> wf_vars E m'.
Proof. intros H W. apply wf_erase. rewrite H. apply wf_erase; auto. Qed.

(* ------------------------------------------------------------------ getValue *)
Lemma tget_erase (E : Env) m : erase (snd (tget ROps E m)) = erase m.
Proof. induction m; simpl; auto.
  - unfold get_ce. destruct (valid E 4 c0); reflexivity.
  - destruct (valid E (Nat.max (dep m1) (dep m2)) c); auto.
    destruct (tget ROps E m1) as [a l']. destruct (tget ROps E m2) as [b r']. simpl in *. congruence.
  - destruct (valid E (Nat.max (dep m1) (dep m2)) c); auto.
    destruct (tget ROps E m1) as [a l']. destruct (tget ROps E m2) as [b r']. simpl in *. congruence.
  - destruct (valid E (dep m) c); auto.
    destruct (tget ROps E m) as [a e']. simpl in *. congruence. Qed.

Lemma okc_mark (E : Env) D v : D <= e_stage E -> okc E D (mark E D v) v.
Proof. intros S. unfold okc, mark, fresh. simpl. split; auto. Qed.

Lemma tget_correct (E : Env) m : dep m <= e_stage E -> J E m -> fst (tget ROps E m) = den E m /\ J E (snd (tget ROps E m)).
Proof. induction m; intros S Jm; try (simpl; auto; fail).
  - simpl in *. destruct Jm as (A0 & A1 & A2 & A3). unfold get_ce.
    destruct (valid E 4 c0) eqn:V; simpl.
    + apply valid_fresh in V. destruct V as [_ F]. destruct A0 as [A0' B]. destruct (B F). split; auto.
      split; [split|]; auto.
    + split; auto. split; [|split; [|split]]; auto. apply (okc_mark E 4); lia.
  - simpl in S. destruct Jm as (A & B & C).
    pose proof (tget_erase E m1) as Sh1. pose proof (tget_erase E m2) as Sh2.
    cbn [tget]. cbn [dep] in *.
    destruct (valid E (Nat.max (dep m1) (dep m2)) c) eqn:V.
    + apply valid_fresh in V. destruct V as [_ F]. destruct C as [C' C]. destruct (C F) as [_ Cv]. split; [exact Cv|].
      cbn [snd J dep]. split; [|split]; auto. split; auto.
    + destruct (IHm1 ltac:(lia) A) as [E1 J1]. destruct (IHm2 ltac:(lia) B) as [E2 J2].
      destruct (tget ROps E m1) as [a l']. destruct (tget ROps E m2) as [b r']. cbn [fst snd] in *.
      subst a b. split; [reflexivity|]. cbn [J dep den]. split; [|split]; auto.
      rewrite (same_shape_dep _ _ Sh1), (same_shape_dep _ _ Sh2), (same_shape_den E _ _ Sh1), (same_shape_den E _ _ Sh2).
      apply okc_mark; auto.
  - simpl in S. destruct Jm as (A & B & C).
    pose proof (tget_erase E m1) as Sh1. pose proof (tget_erase E m2) as Sh2.
    cbn [tget]. cbn [dep] in *.
    destruct (valid E (Nat.max (dep m1) (dep m2)) c) eqn:V.
    + apply valid_fresh in V. destruct V as [_ F]. destruct C as [C' C]. destruct (C F) as [_ Cv]. split; [exact Cv|].
      cbn [snd J dep]. split; [|split]; auto. split; auto.
    + destruct (IHm1 ltac:(lia) A) as [E1 J1]. destruct (IHm2 ltac:(lia) B) as [E2 J2].
      destruct (tget ROps E m1) as [a l']. destruct (tget ROps E m2) as [b r']. cbn [fst snd] in *.
      subst a b. split; [reflexivity|]. cbn [J dep den]. split; [|split]; auto.
      rewrite (same_shape_dep _ _ Sh1), (same_shape_dep _ _ Sh2), (same_shape_den E _ _ Sh1), (same_shape_den E _ _ Sh2).
      apply okc_mark; auto.
  - simpl in S. destruct Jm as (A & C).
    pose proof (tget_erase E m) as Sh.
    cbn [tget]. cbn [dep] in *.
    destruct (valid E (dep m) c) eqn:V.
    + apply valid_fresh in V. destruct V as [_ F]. destruct C as [C' C]. destruct (C F) as [_ Cv]. split; [exact Cv|].
      cbn [snd J dep]. split; auto. split; auto.
    + destruct (IHm ltac:(lia) A) as [E1 J1].
      destruct (tget ROps E m) as [a e']. cbn [fst snd] in *.
      subst a. split; [reflexivity|]. cbn [J dep den]. split; auto.
      rewrite (same_shape_dep _ _ Sh), (same_shape_den E _ _ Sh).
      apply okc_mark; auto. Qed.

(* ------------------------------------------------------------------ derivative orders and handles to inner nodes *)
Lemma tget_k_correct (E : Env) m k : dep_k m k <= e_stage E -> k_ok m k = true -> J E m ->
  fst (tget_k ROps E m k) = den_k E m k /\ J E (snd (tget_k ROps E m k)) /\ erase (snd (tget_k ROps E m k)) = erase m.
Proof. intros S Kok Jm. destruct k as [|k'].
  - simpl in *. assert (S' : dep m <= e_stage E) by (destruct m; exact S).
    destruct (tget_correct E m S' Jm). split; auto. split; auto. apply tget_erase.
  - destruct m; try (simpl; auto; fail); try (simpl in Kok; discriminate).
    simpl in S, Kok. destruct Jm as (A0 & A1 & A2 & A3).
    destruct k' as [|[|k'']]; cbn [tget_k den_k]; unfold get_ce.
    + destruct (valid E 4 c1) eqn:V; cbn [fst snd J erase].
      * apply valid_fresh in V. destruct V as [_ F]. destruct A1 as [A1' B]. destruct (B F).
        split; auto. split; auto. split; [|split; [|split]]; auto. split; auto.
      * split; auto. split; auto. split; [|split; [|split]]; auto. apply (okc_mark E 4); lia.
    + destruct (valid E 4 c2) eqn:V; cbn [fst snd J erase].
      * apply valid_fresh in V. destruct V as [_ F]. destruct A2 as [A2' B]. destruct (B F).
        split; auto. split; auto. split; [|split; [|split]]; auto. split; auto.
      * split; auto. split; auto. split; [|split; [|split]]; auto. apply (okc_mark E 4); lia.
    + destruct (valid E 4 c3) eqn:V; cbn [fst snd J erase].
      * apply valid_fresh in V. destruct V as [_ F]. destruct A3 as [A3' B]. destruct (B F).
        split; auto. split; auto. split; [|split; [|split]]; auto. split; auto.
      * split; auto. split; auto. split; [|split; [|split]]; auto. apply (okc_mark E 4); lia. Qed.

Fixpoint subtree (path : list bool) (m : Tree) : option Tree :=
  match path with
  | [] => Some m
  | b :: rest => match m with
                 | MPlus l r _ | MMinus l r _ => subtree rest (if b then r else l)
                 | MScale _ e _ => if b then None else subtree rest e
                 | _ => None
                 end
  end.

Lemma J_same_shape_node (E : Env) D D' c v v' : D' = D -> v' = v -> okc E D c v -> okc E D' c v'.
Proof. intros -> ->; auto. Qed.

Lemma tget_at_correct (E : Env) k : forall path m n, J E m -> subtree path m = Some n ->
  dep_k n k <= e_stage E -> k_ok n k = true ->
  exists v m', tget_at ROps E path k m = Some (v, m') /\ v = den_k E n k /\ J E m' /\ erase m' = erase m.
Proof. induction path as [|b rest IH]; intros m n Jm Sub S Kok.
  - simpl in Sub. injection Sub as <-. simpl. rewrite Kok.
    replace (pred (dep_k m k) <=? e_stage E) with true by (symmetry; apply Nat.leb_le; lia). simpl.
    destruct (tget_k_correct E m k S Kok Jm) as (A & B & C).
    destruct (tget_k ROps E m k) as [v m'] eqn:T. simpl in *. exists v, m'. auto.
  - destruct m; simpl in Sub; try discriminate.
    + destruct Jm as (A & B & C). destruct b.
      * destruct (IH m2 n B Sub S Kok) as (v & r' & T & V & Jr & Sh). exists v, (MPlus m1 r' c).
        cbn [tget_at]. rewrite T. simpl. split; auto. split; auto. split.
        { split; [|split]; auto. eapply J_same_shape_node; [| |exact C]; cbn [dep den];
          [rewrite (same_shape_dep _ _ Sh) | rewrite (same_shape_den E _ _ Sh)]; reflexivity. }
        simpl. rewrite Sh. reflexivity.
      * destruct (IH m1 n A Sub S Kok) as (v & l' & T & V & Jl & Sh). exists v, (MPlus l' m2 c).
        cbn [tget_at]. rewrite T. simpl. split; auto. split; auto. split.
        { split; [|split]; auto. eapply J_same_shape_node; [| |exact C]; cbn [dep den];
          [rewrite (same_shape_dep _ _ Sh) | rewrite (same_shape_den E _ _ Sh)]; reflexivity. }
        simpl. rewrite Sh. reflexivity.
    + destruct Jm as (A & B & C). destruct b.
      * destruct (IH m2 n B Sub S Kok) as (v & r' & T & V & Jr & Sh). exists v, (MMinus m1 r' c).
        cbn [tget_at]. rewrite T. simpl. split; auto. split; auto. split.
        { split; [|split]; auto. eapply J_same_shape_node; [| |exact C]; cbn [dep den];
          [rewrite (same_shape_dep _ _ Sh) | rewrite (same_shape_den E _ _ Sh)]; reflexivity. }
        simpl. rewrite Sh. reflexivity.
      * destruct (IH m1 n A Sub S Kok) as (v & l' & T & V & Jl & Sh). exists v, (MMinus l' m2 c).
        cbn [tget_at]. rewrite T. simpl. split; auto. split; auto. split.
        { split; [|split]; auto. eapply J_same_shape_node; [| |exact C]; cbn [dep den];
          [rewrite (same_shape_dep _ _ Sh) | rewrite (same_shape_den E _ _ Sh)]; reflexivity. }
        simpl. rewrite Sh. reflexivity.
    + destruct Jm as (A & C). destruct b; try discriminate.
      destruct (IH m n A Sub S Kok) as (v & e' & T & V & Je & Sh). exists v, (MScale f e' c).
      cbn [tget_at]. rewrite T. simpl. split; auto. split; auto. split.
      { split; auto. eapply J_same_shape_node; [| |exact C]; cbn [dep den];
        [rewrite (same_shape_dep _ _ Sh) | rewrite (same_shape_den E _ _ Sh)]; reflexivity. }
      simpl. rewrite Sh. reflexivity. Qed.

(* ------------------------------------------------------------------ the whole state *)
Notation St := (@st R).
Notation Op := (@op R).

Section Cfg.
Variable fx : bool.     (* see C23_Model.v: false = the code as it is, true = with patches/C23_extreme_setvalue.diff *)

Record Inv (s : St) : Prop := mkInv {
  inv_wf : env_wf (s_env s); inv_pos : vars_pos (s_env s);
  inv_J : Forall (J (s_env s)) (s_trees s); inv_wfv : Forall (wf_vars (s_env s)) (s_trees s) }.

Definition pres (E E' : Env) : Prop :=
  env_wf E -> vars_pos E ->
  env_wf E' /\ vars_pos E' /\ forall m, wf_vars E m -> J E m -> wf_vars E' m /\ J E' m.

Lemma pres_refl E : pres E E. Proof. intros W P. auto. Qed.
Lemma pres_trans E1 E2 E3 : pres E1 E2 -> pres E2 E3 -> pres E1 E3.
Proof. intros A B W P. destruct (A W P) as (W2 & P2 & H2). destruct (B W2 P2) as (W3 & P3 & H3).
  split; auto. split; auto. intros m Wf Jm. destruct (H2 m Wf Jm). apply H3; auto. Qed.
Lemma pres_inval (E : Env) g : 1 <= g -> pres E (inval E g).
Proof. intros G W P. split; [apply inval_wf; auto|]. split.
  - intros i g' V. unfold var_stage in V. rewrite inval_vars in V. apply (P i); auto.
  - intros m Wf Jm. split; [|apply J_inval; auto].
    apply (wf_vars_stage_indep E); auto. intros i. unfold var_stage. rewrite inval_vars. reflexivity. Qed.
Lemma pres_set_stage (E : Env) g : e_stage E <= g -> pres E (set_stage E g).
Proof. intros L W P. split; [exact W|]. split; [exact P|]. intros m Wf Jm. split; [|apply J_set_stage; auto].
  apply (wf_vars_stage_indep E); auto. Qed.
Lemma pres_set_time (E : Env) x : pres E (set_time E x).
Proof. intros W P. split; [|split].
  - unfold env_wf, set_time. simpl. apply inval_wf; auto.
  - intros i g V. unfold var_stage, set_time in V. simpl in V. rewrite inval_vars in V. apply (P i); auto.
  - intros m Wf Jm. split; [|apply J_set_time; auto].
    apply (wf_vars_stage_indep E); auto. intros i. unfold var_stage, set_time. simpl. rewrite inval_vars. reflexivity. Qed.
Lemma set_var_wf (E : Env) i x : env_wf E -> env_wf (set_var E i x).
Proof. unfold set_var. destruct (nth_error (e_vars E) i) as [[v g]|]; auto. intros W. unfold env_wf. simpl. apply inval_wf; auto. Qed.
Lemma pres_set_var (E : Env) i x : pres E (set_var E i x).
Proof. intros W P. split; [apply set_var_wf; auto|]. split.
  - intros j g V. rewrite var_stage_set_var in V. apply (P j); auto.
  - intros m Wf Jm. split; [|apply J_set_var; auto].
    apply (wf_vars_stage_indep E); auto. intros j. apply var_stage_set_var. Qed.

Lemma pdep_pos (e : @pexpr R) : 1 <= pdep e.
Proof. induction e; simpl; lia. Qed.
Lemma vdep_pos (s : @vsrc R) : 1 <= vdep s.
Proof. destruct s as [|e [|e' r]]; simpl; try lia. apply pdep_pos. Qed.

Lemma pres_mach_init (E : Env) acc m : pres E (fst (mach_init ROps fx (E, acc) m)).
Proof. destruct m as [x|d|f]; simpl.
  - eapply pres_trans; [apply (pres_set_stage E (Nat.max (e_stage E) (vdep (x_src x)))); lia|].
    apply pres_inval; lia.
  - eapply pres_trans; [apply (pres_inval E 9); lia|].
    apply pres_set_stage; lia.
  - eapply pres_trans; [apply (pres_inval E (vdep (f_src f))); apply vdep_pos|].
    apply pres_set_stage; lia. Qed.
Lemma pres_init (ms : list (@mach R)) : forall (E : Env) acc, pres E (fst (fold_left (mach_init ROps fx) ms (E, acc))).
Proof. induction ms as [|m r IH]; intros E acc; cbn [fold_left]; [apply pres_refl|].
  destruct (mach_init ROps fx (E, acc) m) as [E1 acc1] eqn:M.
  eapply pres_trans; [|apply IH]. pose proof (pres_mach_init E acc m) as Q. rewrite M in Q. exact Q. Qed.

Lemma Inv_env (s : St) E' ms : pres (s_env s) E' -> Inv s -> Inv (mkSt E' (s_trees s) ms).
Proof. intros Pr [W P Jt Wt]. destruct (Pr W P) as (W' & P' & H). constructor; simpl; auto.
  - rewrite Forall_forall in *. intros m Hm. apply H; auto.
  - rewrite Forall_forall in *. intros m Hm. apply H; auto. Qed.

Lemma Forall_upd_nth {A} (P : A -> Prop) (l : list A) : forall i x y, Forall P l -> nth_error l i = Some x -> P y ->
  Forall P (upd_nth i (fun _ => y) l).
Proof. induction l; intros i x y F N Py; destruct i; simpl in *; try discriminate; inversion F; subst; constructor; eauto. Qed.

(** proviso (a): values are asked for only when the state is realized to the node's depends-on stage *)
Definition well_staged (s : St) (o : Op) : Prop :=
  match o with
  | GetT i path k => forall m n, nth_error (s_trees s) i = Some m -> subtree path m = Some n -> k_ok n k = true ->
                                 dep_k n k <= e_stage (s_env s)
  | Inval g => 1 <= g          (* the code rejects invalidateAllCacheAtOrAbove below Instance *)
  | _ => True
  end.

Lemma tget_at_none_or (E : Env) k : forall path m, subtree path m = None -> tget_at ROps E path k m = None.
Proof. induction path as [|b rest IH]; intros m; simpl; [discriminate|].
  destruct m; auto; destruct b; intros H; try rewrite (IH _ H); auto. Qed.
Lemma tget_at_kok (E : Env) k : forall path m n, subtree path m = Some n -> k_ok n k = false -> tget_at ROps E path k m = None.
Proof. induction path as [|b rest IH]; intros m n; simpl.
  - intros [= <-] K. rewrite K. reflexivity.
  - destruct m; try discriminate; destruct b; intros H K; try discriminate; rewrite (IH _ _ H K); auto. Qed.

Lemma step_inv (s : St) (o : Op) : Inv s -> well_staged s o -> Inv (fst (step ROps fx s o)).
Proof. intros I Ws. destruct o as [x0|g| |g| |i x0|j v0|i path k|j|j]; simpl.
  - apply Inv_env; auto. apply pres_set_time.
  - destruct (g <=? e_stage (s_env s)) eqn:L; simpl; [destruct s; exact I|].
    apply Nat.leb_gt in L. apply Inv_env; auto. apply pres_set_stage; lia.
  - apply Inv_env; auto. apply pres_refl.
  - apply Inv_env; auto. apply pres_inval; exact Ws.
  - destruct (fold_left (mach_init ROps fx) (s_machs s) (s_env s, [])) as [E' ms] eqn:F. simpl.
    apply Inv_env; auto. pose proof (pres_init (s_machs s) (s_env s) []) as Q. rewrite F in Q. exact Q.
  - apply Inv_env; auto. apply pres_set_var.
  - destruct (nth_error (s_machs s) j) as [[x|d|f]|]; simpl; try (destruct s; exact I).
    apply Inv_env; auto. apply pres_inval; lia.
  - destruct (nth_error (s_trees s) i) as [m|] eqn:N; simpl; [|destruct s; exact I].
    destruct (subtree path m) as [n|] eqn:Sub.
    + destruct (k_ok n k) eqn:K.
      * destruct I as [W P Jt Wt].
        assert (Jm : J (s_env s) m) by (rewrite Forall_forall in Jt; apply Jt; eapply nth_error_In; eauto).
        destruct (tget_at_correct (s_env s) k path m n Jm Sub (Ws m n N Sub K) K) as (v & m' & T & V & Jm' & Sh).
        rewrite T. simpl. constructor; simpl; auto.
        -- eapply Forall_upd_nth; eauto.
        -- eapply Forall_upd_nth; eauto. eapply same_shape_wf; eauto.
           rewrite Forall_forall in Wt; apply Wt; eapply nth_error_In; eauto.
      * rewrite (tget_at_kok _ _ _ _ _ Sub K). destruct s; exact I.
    + rewrite (tget_at_none_or _ _ _ _ Sub). destruct s; exact I.
  - destruct (nth_error (s_machs s) j) as [mm|]; simpl; [|destruct s; exact I].
    destruct (negb (mach_dep mm <=? e_stage (s_env s))); simpl; [destruct s; exact I|].
    destruct mm as [x|d|f]; simpl.
    + destruct (x_ensure ROps (s_env s) x) as [fd x']. simpl. apply Inv_env; auto. apply pres_refl.
    + destruct (d_get ROps (s_env s) d) as [v d']. simpl. apply Inv_env; auto. apply pres_refl.
    + apply Inv_env; auto. apply pres_refl.
  - destruct (nth_error (s_machs s) j) as [[x|d|f]|]; simpl; try (destruct s; exact I).
    destruct (negb (vdep (x_src x) <=? e_stage (s_env s))); simpl; [destruct s; exact I|].
    destruct (x_ensure ROps (s_env s) x) as [fd x']. simpl. apply Inv_env; auto. apply pres_refl. Qed.

Lemma step_obs (s : St) i path k m n : Inv s -> nth_error (s_trees s) i = Some m -> subtree path m = Some n ->
  k_ok n k = true -> dep_k n k <= e_stage (s_env s) ->
  snd (step ROps fx s (GetT i path k)) = OVal [den_k (s_env s) n k].
Proof. intros [W P Jt Wt] N Sub K S. simpl. rewrite N.
  assert (Jm : J (s_env s) m) by (rewrite Forall_forall in Jt; apply Jt; eapply nth_error_In; eauto).
  destruct (tget_at_correct (s_env s) k path m n Jm Sub S K) as (v & m' & T & V & _).
  rewrite T. simpl. rewrite V. reflexivity. Qed.

(** what is claimed of each observation: a value request for an existing node, of an order the measure offers, returns
    the formula value (derivative) at the current time and variable values *)
Definition obs_ok (s : St) (o : Op) (b : @obs R) : Prop :=
  match o with
  | GetT i path k => forall m n, nth_error (s_trees s) i = Some m -> subtree path m = Some n -> k_ok n k = true ->
                                 b = OVal [den_k (s_env s) n k]
  | _ => True
  end.
Fixpoint ws_run (s : St) (ops : list Op) : Prop :=
  match ops with [] => True | o :: r => well_staged s o /\ ws_run (fst (step ROps fx s o)) r end.
Fixpoint obs_run (s : St) (ops : list Op) : Prop :=
  match ops with [] => True | o :: r => obs_ok s o (snd (step ROps fx s o)) /\ obs_run (fst (step ROps fx s o)) r end.

Lemma arith_eval_correct (s : St) (ops : list Op) : Inv s -> ws_run s ops -> obs_run s ops.
Proof. revert s. induction ops as [|o r IH]; intros s I Ws; simpl; auto. destruct Ws as [W1 W2]. split.
  - destruct o; simpl; auto. intros m n N Sub K. apply (step_obs s i path k m n); auto. apply (W1 m n); auto.
  - apply IH; auto. apply step_inv; auto. Qed.

(** [obs_run] speaks about exactly the observations [run] returns *)
Lemma run_obs_nth (s : St) (ops : list Op) : forall j o, nth_error ops j = Some o ->
  exists sj, nth_error (snd (run ROps fx s ops)) j = Some (snd (step ROps fx sj o)) /\
             (obs_run s ops -> obs_ok sj o (snd (step ROps fx sj o))).
Proof. revert s. induction ops as [|o' r IH]; intros s j o N; [destruct j; discriminate|].
  cbn [run]. destruct (step ROps fx s o') as [s1 b] eqn:St1. destruct (run ROps fx s1 r) as [s2 bs] eqn:R.
  destruct j as [|j'].
  - simpl in N. injection N as ->. exists s. rewrite St1. simpl. split; auto. rewrite St1. simpl. tauto.
  - simpl in N. destruct (IH s1 j' o N) as (sj & A & B). exists sj. rewrite R in A. simpl. split; auto.
    rewrite St1. simpl. intros [_ H]. auto. Qed.

(** freshly constructed trees (realizeTopology) satisfy the invariant *)
Lemma J_erase_env0 t vars m : J (env0 t vars) (erase m).
Proof. assert (Z : forall D v, D <= 10 -> okc (env0 t vars) D (c0 ROps) v).
  { intros D v L. unfold okc, fresh, c0, ce0, ver_at, env0. simpl. split; [lia|].
    intros [F _]. exfalso. do 11 (destruct D as [|D]; [simpl in F; discriminate|]). lia. }
  induction m; simpl; auto.
  - split; [|split; [|split]]; apply Z; lia.
  - split; [|split]; auto. apply Z. pose proof (dep_le4 (erase m1)); pose proof (dep_le4 (erase m2)); lia.
  - split; [|split]; auto. apply Z. pose proof (dep_le4 (erase m1)); pose proof (dep_le4 (erase m2)); lia.
  - split; auto. apply Z. pose proof (dep_le4 (erase m)); lia. Qed.
Lemma Inv_init t vars trees machs :
  (forall i g, var_stage (env0 t vars) i = Some g -> 1 <= g) ->
  Forall (fun m => erase m = m) trees -> Forall (wf_vars (env0 t vars)) trees ->
  Inv (mkSt (env0 t vars) trees machs).
Proof. intros P Pr Wf. constructor; simpl; auto.
  - reflexivity.
  - rewrite Forall_forall in *. intros m Hm. rewrite <- (Pr m Hm). apply J_erase_env0. Qed.


End Cfg.

(* ------------------------------------------------------------------ examples and refutations *)
(** evaluation of the model on concrete real inputs without unfolding the real-number operations *)
Ltac rcbv := cbv - [Rplus Rmult Rminus Ropp Rdiv Rinv sin cos IZR Rle_dec Rlt_dec Rabs sqrt exp tanh Ratan2 Rleb Rltb].
Ltac rcbv_in H := cbv - [Rplus Rmult Rminus Ropp Rdiv Rinv sin cos IZR Rle_dec Rlt_dec Rabs sqrt exp tanh Ratan2 Rleb Rltb] in H.
Ltac ws_tac := rcbv; repeat split;
  try (let m := fresh "m" in let n := fresh "n" in let E1 := fresh in let E2 := fresh in
       intros m n E1; injection E1 as <-; rcbv; intros E2; injection E2 as <-; intros _; rcbv; lia).
(** non-vacuity: 2*(Variable#0 (invalidates Time) + sin 3t), asked before and after a variable change and a time change *)
Example arith_eval_correct_example :
  let s := mkSt (env0 1%R [(5%R, 4)]) [mk_scale ROps 2%R (mk_plus ROps (MVar 0) (mk_sin ROps 1%R 3%R 0%R))] [] in
  let ops := [Realize 8; GetT 0 [] 0; SetVar 0 7%R; Realize 4; GetT 0 [] 0; SetTime 2%R; Realize 8; GetT 0 [false] 0;
              GetT 0 [false; true] 2; GetT 0 [] 0] in
  Inv s /\ ws_run false s ops /\ obs_run false s ops /\
  nth_error (snd (run ROps false s ops)) 9 = Some (OVal [2 * (7 + 1 * sin (3 * 2 + 0))])%R.
Proof. intros s ops.
  assert (I : Inv s).
  { apply Inv_init.
    - intros [|i] g; unfold var_stage; simpl; [intros [= <-]; lia | destruct i; discriminate].
    - repeat constructor.
    - constructor; [|constructor].
      assert (VB : forall m : Tree, 4 <= dep m -> vars_below (env0 1%R [(5%R, 4)]) m).
      { intros m D [|i] g _; unfold var_stage; simpl; [intros [= <-]; lia | destruct i; discriminate]. }
      simpl. repeat split; apply VB; simpl; lia. }
  assert (W : ws_run false s ops) by (unfold s, ops; ws_tac).
  split; auto. split; auto. split; [apply (arith_eval_correct false); auto|].
  unfold s, ops. rcbv. reflexivity. Qed.

(** proviso (b) cannot be dropped (known finding variable-change-leaves-dependents-valid): Plus(Variable=5, Time) at t=1
    with a Variable that invalidates Position; after setValue(100) the measure still reports 6 *)
Lemma arith_eval_refuted_variable : exists (s : St) (ops : list Op),
  env_wf (s_env s) /\ vars_pos (s_env s) /\ Forall (J (s_env s)) (s_trees s) /\ ws_run false s ops /\ ~ obs_run false s ops.
Proof.
  exists (mkSt (env0 1%R [(5%R, 5)]) [mk_plus ROps (MVar 0) MTime] []).
  exists ([Realize 8; GetT 0 [] 0; SetVar 0 100%R; Realize 8; GetT 0 [] 0]).

  split; [reflexivity|]. split.
  { intros [|i] g; unfold var_stage; simpl; [intros [= <-]; lia | destruct i; discriminate]. }
  split. { constructor; [|constructor]. apply (J_erase_env0 1%R [(5%R, 5)] (mk_plus ROps (MVar 0) MTime)). }
  split. { ws_tac. }
  intros H. rcbv_in H. destruct H as (_ & _ & _ & _ & H5 & _).
  pose proof (H5 _ _ eq_refl eq_refl eq_refl) as Q. injection Q. lra. Qed.

(** proviso (a) cannot be dropped (known finding getvalue-one-stage-early-survives-time-change): every request below passes
    the code's own stage check (none is refused), yet the last one reports 11 where the formula gives 12 *)
Lemma arith_eval_refuted_early_get : exists (s : St) (ops : list Op),
  Inv s /\ (forall j, nth_error (snd (run ROps false s ops)) j <> Some OGuard) /\ ~ obs_run false s ops.
Proof.
  exists (mkSt (env0 1%R []) [mk_plus ROps MTime (MConst 10%R)] []).
  exists ([Realize 3; GetT 0 [] 0; SetTime 2%R; Realize 4; GetT 0 [] 0]).
  split.
  { apply Inv_init.
    - intros [|i] g; unfold var_stage; simpl; discriminate.
    - repeat constructor.
    - constructor; [|constructor]. simpl. repeat split. intros [|i] g _; unfold var_stage; simpl; discriminate. }
  split.
  { intros j. rcbv. do 5 (destruct j as [|j]; [discriminate|]). destruct j; discriminate. }
  intros H. rcbv_in H. destruct H as (_ & _ & _ & _ & H5 & _).
  pose proof (H5 _ _ eq_refl eq_refl eq_refl) as Q. injection Q. lra. Qed.
