(** C23, layer 1: the lazily cached Constant/Time/Variable/Sinusoid/Plus/Minus/Scale trees return the value of their
    formula at the CURRENT time and variable values, after any operation sequence -- provided (a) values are asked for
    only when the state is realized to the node's depends-on stage, and (b) every Variable under a cached node
    invalidates a stage not later than that node's depends-on stage.  Both provisos are necessary: see the refuted
    statements at the end (known findings of C23). *)
From Coq Require Import List Arith Bool PeanoNat Reals Lra Lia.
Require Import Num C23_Model.
Import ListNotations.

Notation Env := (@env R).
Notation Tree := (@mtree R).

(** the formula a tree denotes *)
Fixpoint den (E : Env) (m : Tree) : R :=
  match m with
  | MConst c => c | MTime => e_t E | MVar i => var_val ROps E i
  | MSin a w p _ _ _ _ => sin_d ROps a w p 0 (e_t E)
  | MPlus l r _ => (den E l + den E r)%R | MMinus l r _ => (den E l - den E r)%R | MScale f e _ => (f * den E e)%R
  end.
(** its time derivatives as the measures report them (orders the measure offers) *)
Definition den_k (E : Env) (m : Tree) (k : nat) : R :=
  match k with
  | 0 => den E m
  | S k' => match m with
            | MTime => match k' with 0 => 1%R | _ => 0%R end
            | MSin a w p _ _ _ _ => sin_d ROps a w p (match k' with 0 => 1 | 1 => 2 | _ => 3 end) (e_t E)
            | _ => 0%R
            end
  end.

Definition fresh {A} (E : Env) (D : nat) (c : ce A) : Prop := ver_at E D = ce_ver c /\ ce_ok c = true.
Definition okc (E : Env) (D : nat) (c : ce R) (v : R) : Prop :=
  (ce_ok c = true -> ce_ver c <= ver_at E D) /\ (fresh E D c -> D <= e_stage E /\ ce_val c = v).

Lemma valid_fresh {A} (E : Env) D (c : ce A) : valid E D c = true <-> D <= e_stage E /\ fresh E D c.
Proof. unfold valid, fresh. rewrite !andb_true_iff, Nat.leb_le, Nat.eqb_eq. tauto. Qed.

(** every cache entry of the tree that looks current is current *)
Fixpoint J (E : Env) (m : Tree) : Prop :=
  match m with
  | MConst _ | MTime | MVar _ => True
  | MSin a w p c0 c1 c2 c3 =>
      okc E 4 c0 (sin_d ROps a w p 0 (e_t E)) /\ okc E 4 c1 (sin_d ROps a w p 1 (e_t E)) /\
      okc E 4 c2 (sin_d ROps a w p 2 (e_t E)) /\ okc E 4 c3 (sin_d ROps a w p 3 (e_t E))
  | MPlus l r c => J E l /\ J E r /\ okc E (dep m) c (den E m)
  | MMinus l r c => J E l /\ J E r /\ okc E (dep m) c (den E m)
  | MScale f e c => J E e /\ okc E (dep m) c (den E m)
  end.

Fixpoint occurs (i : nat) (m : Tree) : Prop :=
  match m with
  | MVar j => i = j
  | MPlus l r _ | MMinus l r _ => occurs i l \/ occurs i r
  | MScale _ e _ => occurs i e
  | _ => False
  end.
Definition var_stage (E : Env) (i : nat) : option nat := option_map snd (nth_error (e_vars E) i).
(** proviso (b) *)
Definition vars_below (E : Env) (m : Tree) : Prop :=
  forall i g, occurs i m -> var_stage E i = Some g -> g <= dep m.
Fixpoint wf_vars (E : Env) (m : Tree) : Prop :=
  match m with
  | MPlus l r _ | MMinus l r _ => wf_vars E l /\ wf_vars E r /\ vars_below E m
  | MScale _ e _ => wf_vars E e /\ vars_below E m
  | _ => True
  end.

Definition env_wf (E : Env) : Prop := length (e_ver E) = 11.

Lemma dep_le4 (m : Tree) : dep m <= 4.
Proof. induction m; simpl; lia. Qed.

(* ------------------------------------------------------------------ what den depends on *)
Lemma den_time_indep (E E' : Env) m : dep m < 4 -> e_vars E = e_vars E' -> den E m = den E' m.
Proof. intros H V. induction m; simpl in *; try lia; auto.
  - unfold var_val. rewrite V. reflexivity.
  - rewrite IHm1, IHm2 by lia; reflexivity.
  - rewrite IHm1, IHm2 by lia; reflexivity.
  - rewrite IHm by lia; reflexivity. Qed.
Lemma den_ext (E E' : Env) m : e_t E = e_t E' ->
  (forall i, occurs i m -> var_val ROps E i = var_val ROps E' i) -> den E m = den E' m.
Proof. intros Ht. induction m; simpl; intros Hv; auto.
  - rewrite Ht; reflexivity.
  - rewrite IHm1, IHm2; auto.
  - rewrite IHm1, IHm2; auto.
  - rewrite IHm; auto. Qed.

(* ------------------------------------------------------------------ stage version bumps *)
Lemma nth_bump lo hi l : forall i D,
  nth D (bump_range lo hi i l) 0 =
  if (lo <=? i + D) && (i + D <=? hi) && (D <? length l) then S (nth D l 0) else nth D l 0.
Proof. induction l as [|v r IH]; intros i D; simpl.
  - destruct D; rewrite andb_false_r; reflexivity.
  - destruct D as [|D'].
    + rewrite Nat.add_0_r. destruct ((lo <=? i) && (i <=? hi)); reflexivity.
    + rewrite IH. replace (S i + D') with (i + S D') by lia.
      change (S D' <? S (length r)) with (D' <? length r).
      reflexivity. Qed.

Lemma inval_cases (E : Env) g : (g <= e_stage E /\ inval E g = mkEnv (e_t E) (pred g) (bump_range g (e_stage E) 0 (e_ver E)) (e_vars E))
                        \/ (e_stage E < g /\ inval E g = E).
Proof. unfold inval. destruct (g <=? e_stage E) eqn:L; [left; apply Nat.leb_le in L | right; apply Nat.leb_gt in L]; auto. Qed.
Lemma inval_t (E : Env) g : e_t (inval E g) = e_t E. Proof. unfold inval; destruct (g <=? e_stage E); reflexivity. Qed.
Lemma inval_vars (E : Env) g : e_vars (inval E g) = e_vars E. Proof. unfold inval; destruct (g <=? e_stage E); reflexivity. Qed.
Lemma inval_wf (E : Env) g : env_wf E -> env_wf (inval E g).
Proof. unfold env_wf, inval. destruct (g <=? e_stage E); simpl; auto.
  intros H. assert (L : forall lo hi i l, length (bump_range lo hi i l) = length (A:=nat) l) by
    (intros lo hi i l; revert i; induction l; simpl; intros; auto). rewrite L; auto. Qed.
Lemma inval_stage_le (E : Env) g : e_stage (inval E g) <= e_stage E.
Proof. destruct (inval_cases E g) as [[L ->]|[L ->]]; simpl; lia. Qed.

(** an entry that looks current after invalidateAll(g) looked current before, and its stage is below g *)
Lemma okc_inval (E : Env) g D c v : env_wf E -> 1 <= g -> D <= 10 -> okc E D c v -> okc (inval E g) D c v /\
  (fresh (inval E g) D c -> D <= e_stage E -> D < g).
Proof. intros W G1 D10 [Hle Hfr]. destruct (inval_cases E g) as [[L ->]|[L ->]].
  2:{ split; [split; auto|]. intros F S. lia. }
  unfold okc, fresh, ver_at in *. simpl. rewrite nth_bump. simpl.
  replace (D <? length (e_ver E)) with true by (symmetry; apply Nat.ltb_lt; unfold env_wf in W; lia).
  rewrite andb_true_r.
  destruct ((g <=? D) && (D <=? e_stage E)) eqn:B.
  - apply andb_true_iff in B. destruct B as [B1 B2]. apply Nat.leb_le in B1, B2.
    split; [split|].
    + intros O. specialize (Hle O). lia.
    + intros [F O]. specialize (Hle O). lia.
    + intros [F O]. specialize (Hle O). lia.
  - apply andb_false_iff in B. split; [split|].
    + auto.
    + intros F. destruct (Hfr F) as [S V]. split; auto.
      destruct B as [B|B]; [apply Nat.leb_gt in B | apply Nat.leb_gt in B]; lia.
    + intros F S. destruct B as [B|B]; [apply Nat.leb_gt in B | apply Nat.leb_gt in B]; lia. Qed.

(* ------------------------------------------------------------------ J under environment changes *)
Fixpoint subt (n m : Tree) : Prop :=
  n = m \/ match m with
           | MPlus l r _ | MMinus l r _ => subt n l \/ subt n r
           | MScale _ e _ => subt n e
           | _ => False
           end.
Definition cnode (n : Tree) : Prop := match n with MPlus _ _ _ | MMinus _ _ _ | MScale _ _ _ => True | _ => False end.
Lemma subt_refl m : subt m m. Proof. destruct m; simpl; auto. Qed.

(** generic transport: versions/stage as after [inval E g], time and variables possibly changed, under the condition
    that every cached node whose formula value changed has depends-on stage >= g *)
Lemma J_transport (E : Env) g E' m : env_wf E -> 1 <= g ->
  e_stage E' = e_stage (inval E g) -> e_ver E' = e_ver (inval E g) ->
  (forall n, subt n m -> cnode n -> dep n < g -> den E' n = den E n) ->
  (4 < g -> e_t E' = e_t E) ->
  J E m -> J E' m.
Proof. intros W G1 Hs Hv Hden Ht.
  assert (T : forall D c v v', D <= 10 -> okc E D c v -> (D < g -> v' = v) -> okc E' D c v').
  { intros D c v v' D10 O Hvv. destruct (okc_inval E g D c v W G1 D10 O) as [[A B] C].
    unfold okc, fresh, ver_at in *. rewrite Hs, Hv. split; auto.
    intros F. destruct (B F) as [S V]. split; auto. rewrite V. symmetry. apply Hvv. apply C; auto.
    pose proof (inval_stage_le E g). lia. }
  induction m; simpl; auto.
  - intros (A0 & A1 & A2 & A3).
    split; [|split; [|split]]; (eapply T; [lia | eassumption | intros G; rewrite Ht by lia; reflexivity]).
  - intros (A & B & C). split; [|split].
    + apply IHm1; auto. intros n Sn. apply Hden. simpl. right. left. exact Sn.
    + apply IHm2; auto. intros n Sn. apply Hden. simpl. right. right. exact Sn.
    + eapply T; [pose proof (dep_le4 m1); pose proof (dep_le4 m2); lia | exact C |].
      intros G. apply (Hden (MPlus m1 m2 c)); simpl; auto.
  - intros (A & B & C). split; [|split].
    + apply IHm1; auto. intros n Sn. apply Hden. simpl. right. left. exact Sn.
    + apply IHm2; auto. intros n Sn. apply Hden. simpl. right. right. exact Sn.
    + eapply T; [pose proof (dep_le4 m1); pose proof (dep_le4 m2); lia | exact C |].
      intros G. apply (Hden (MMinus m1 m2 c)); simpl; auto.
  - intros (A & C). split.
    + apply IHm; auto. intros n Sn. apply Hden. simpl. right. exact Sn.
    + eapply T; [pose proof (dep_le4 m); lia | exact C |].
      intros G. apply (Hden (MScale f m c)); simpl; auto. Qed.

Lemma J_inval (E : Env) g m : env_wf E -> 1 <= g -> J E m -> J (inval E g) m.
Proof. intros W G. apply (J_transport E g); auto.
  - intros n _ _ _. apply den_ext; [apply inval_t|]. intros i _. unfold var_val. rewrite inval_vars. reflexivity.
  - intros _. apply inval_t. Qed.

Lemma J_set_time (E : Env) x m : env_wf E -> J E m -> J (set_time E x) m.
Proof. intros W. apply (J_transport E 4); auto.
  - intros n _ _ Dn. apply den_time_indep; auto. simpl. rewrite inval_vars. reflexivity.
  - lia. Qed.

Lemma den_set_stage (E : Env) g m : den (set_stage E g) m = den E m.
Proof. apply den_ext; [reflexivity|]. intros; reflexivity. Qed.
Lemma J_set_stage (E : Env) g m : e_stage E <= g -> J E m -> J (set_stage E g) m.
Proof. intros L.
  assert (T : forall D c v, okc E D c v -> okc (set_stage E g) D c v).
  { intros D c v [A B]. split; auto. intros F. destruct (B F). simpl. split; auto. lia. }
  induction m; simpl; auto.
  - intros (A0 & A1 & A2 & A3). split; [|split; [|split]]; apply T; auto.
  - intros (A & B & C). split; [|split]; auto. apply T in C. rewrite !den_set_stage. exact C.
  - intros (A & B & C). split; [|split]; auto. apply T in C. rewrite !den_set_stage. exact C.
  - intros (A & C). split; auto. apply T in C. rewrite !den_set_stage. exact C. Qed.

Definition vars_pos (E : Env) : Prop := forall i g, var_stage E i = Some g -> 1 <= g.

Lemma nth_error_set_nth_other {A} (l : list A) : forall a b y, a <> b -> nth_error (set_nth a y l) b = nth_error l b.
Proof. induction l; intros a' b' y Nab; destruct a', b'; simpl; auto; try lia. Qed.
Lemma nth_error_set_nth_same {A} (l : list A) : forall a y z, nth_error l a = Some z -> nth_error (set_nth a y l) a = Some y.
Proof. induction l; intros a' y z; destruct a'; simpl; auto; try discriminate. apply IHl. Qed.

Lemma var_val_set_other (E : Env) i x j : i <> j -> var_val ROps (set_var E i x) j = var_val ROps E j.
Proof. intros N. unfold set_var, var_val. destruct (nth_error (e_vars E) i) as [[v g]|] eqn:Ei; auto. simpl.
  rewrite inval_vars, nth_error_set_nth_other; auto. Qed.
Lemma var_stage_set_var (E : Env) i x j : var_stage (set_var E i x) j = var_stage E j.
Proof. unfold set_var, var_stage. destruct (nth_error (e_vars E) i) as [[v g]|] eqn:Ei; auto. simpl.
  rewrite inval_vars. destruct (Nat.eq_dec i j) as [->|N].
  - rewrite (nth_error_set_nth_same _ _ _ _ Ei), Ei. reflexivity.
  - rewrite nth_error_set_nth_other; auto. Qed.

Lemma wf_vars_sub (E : Env) m n : wf_vars E m -> subt n m -> cnode n -> vars_below E n.
Proof. induction m; simpl; intros Wf [->|S] C; simpl in *; try tauto.
  - destruct S; [apply IHm1 | apply IHm2]; tauto.
  - destruct S; [apply IHm1 | apply IHm2]; tauto.
  - apply IHm; tauto. Qed.

Lemma J_set_var (E : Env) i x m : env_wf E -> vars_pos E -> wf_vars E m -> J E m -> J (set_var E i x) m.
Proof. intros W P Wf. unfold set_var. destruct (nth_error (e_vars E) i) as [[v g]|] eqn:Ei; auto.
  assert (Vi : var_stage E i = Some g) by (unfold var_stage; rewrite Ei; reflexivity).
  apply (J_transport E g); auto.
  - apply (P i); auto.
  - intros n Sn Cn Dn. apply den_ext; [simpl; apply inval_t|].
    intros j Oj. destruct (Nat.eq_dec i j) as [<-|N].
    + pose proof (wf_vars_sub E m n Wf Sn Cn i g Oj Vi). lia.
    + pose proof (var_val_set_other E i x j N) as Q. unfold set_var in Q. rewrite Ei in Q. exact Q.
  - intros _. simpl. apply inval_t. Qed.

Lemma wf_vars_stage_indep (E E' : Env) m : (forall i, var_stage E' i = var_stage E i) -> wf_vars E m -> wf_vars E' m.
Proof. intros H. induction m; simpl; auto.
  - intros (A & B & C). repeat split; auto. intros i g Oi Vi. rewrite H in Vi. apply (C i g); auto.
  - intros (A & B & C). repeat split; auto. intros i g Oi Vi. rewrite H in Vi. apply (C i g); auto.
  - intros (A & C). split; auto. intros i g Oi Vi. rewrite H in Vi. apply (C i g); auto. Qed.

(* ------------------------------------------------------------------ getValue *)
Lemma tget_correct (E : Env) m : dep m <= e_stage E -> J E m -> fst (tget ROps E m) = den E m /\ J E (snd (tget ROps E m)).
Proof. induction m; simpl; intros S Jm; auto.
  - destruct Jm as (A0 & A1 & A2 & A3). unfold get_ce.
    destruct (valid E 4 c0) eqn:V; simpl.
    + apply valid_fresh in V. destruct V as [_ F]. destruct A0 as [_ B]. destruct (B F). auto.
    + split; auto. repeat split; auto; simpl; try lia. unfold ver_at. lia.
  - destruct Jm as (A & B & C).
    destruct (valid E (Nat.max (dep m1) (dep m2)) c) eqn:V; simpl.
    + apply valid_fresh in V. destruct V as [_ F]. destruct C as [_ C]. destruct (C F). simpl; auto.
    + destruct (IHm1 ltac:(lia) A) as [E1 J1]. destruct (IHm2 ltac:(lia) B) as [E2 J2].
      destruct (tget ROps E m1) as [a l'] eqn:T1. destruct (tget ROps E m2) as [b r'] eqn:T2. simpl in *.
      subst a b. split; auto.
      assert (D1 : dep l' = dep m1) by admit. admit.
  - admit.
  - admit.
Admitted.
