(** C23, layer 2b: Measure::Delay.  Facts about Measure_Delay_Buffer as the source implements it
    (copyInAndUpdate, calcValueAtTimeLinearOnly):
    - [copy_keeps_sorted]: the stored times are strictly increasing after every update, whatever the times asked;
    - [delay_buffer_returns_bracketing_sample]: on such a buffer the value at td is the first entry's value when td is
      not after it, the linear interpolation between the two adjacent entries with t0 < td <= t1 when there are such, the
      only value when there is one entry, and otherwise (td after the newest entry, i.e. delay shorter than the last
      step) the linear EXTRAPOLATION through the last two entries;
    - [prune_preserves_answers]: dropping old entries in copyInAndUpdate (all but two of those before t - delay) never
      changes the answer to a request at or after t - delay, provided delay >= 0;
    and about the state machine: [delay_is_calc_on_buffer].
    NOT decided here: how far that interpolant/extrapolant is from the operand's true value at t - delay. *)
From Coq Require Import List Arith Bool PeanoNat Reals Lra Lia.
Require Import Num C23_Model C23_Arith C23_Extreme.
Import ListNotations.
Local Open Scope R_scope.

Notation Entry := (R * list R)%type.
Notation Buf := (list (R * list R)).
Definition dE : Entry := dflt_entry ROps.
Definition tm (b : Buf) (i : nat) : R := fst (nth i b dE).

Fixpoint sorted (b : Buf) : Prop :=
  match b with
  | [] => True
  | e :: r => (match r with [] => True | e' :: _ => fst e < fst e' end) /\ sorted r
  end.

Lemma sorted_tail e b : sorted (e :: b) -> sorted b. Proof. simpl. tauto. Qed.
Lemma sorted_head_lt e b : sorted (e :: b) -> forall j, (j < length b)%nat -> fst e < tm b j.
Proof. revert e. induction b as [|e' r IH]; intros e S j Hj; simpl in Hj; [lia|].
  destruct S as [L S']. destruct j as [|j']; [exact L|].
  unfold tm. simpl. eapply Rlt_trans; [exact L|]. apply (IH e' S' j'). lia. Qed.
Lemma sorted_lt b : sorted b -> forall i j, (i < j)%nat -> (j < length b)%nat -> tm b i < tm b j.
Proof. induction b as [|e r IH]; intros S i j Hij Hj; simpl in Hj; [lia|].
  destruct j as [|j']; [lia|]. destruct i as [|i'].
  - unfold tm at 1. simpl. apply (sorted_head_lt e r S j'). lia.
  - unfold tm. simpl. apply (IH (sorted_tail _ _ S) i' j'); lia. Qed.

(* ------------------------------------------------------------------ the two linear searches *)
Lemma ffl_some (b : Buf) td : forall i, find_first_later_or_eq ROps b td = Some i ->
  (i < length b)%nat /\ td <= tm b i /\ forall j, (j < i)%nat -> tm b j < td.
Proof. induction b as [|[ti vi] r IH]; intros i H; simpl in H; [discriminate|].
  destruct (Rleb td ti) eqn:L.
  - injection H as <-. apply Rleb_true in L. simpl. split; [lia|]. split; [exact L|]. intros j Hj; lia.
  - apply Rleb_false in L. destruct (find_first_later_or_eq ROps r td) as [i'|] eqn:F; [|discriminate].
    injection H as <-. destruct (IH i' eq_refl) as (A & B & C). simpl. split; [lia|]. split; [exact B|].
    intros [|j'] Hj; [exact L|]. apply (C j'). lia. Qed.
Lemma ffl_none (b : Buf) td : find_first_later_or_eq ROps b td = None -> forall j, (j < length b)%nat -> tm b j < td.
Proof. induction b as [|[ti vi] r IH]; intros H j Hj; simpl in *; [lia|].
  destruct (Rleb td ti) eqn:L; [discriminate|]. apply Rleb_false in L.
  destruct (find_first_later_or_eq ROps r td) as [i'|] eqn:F; [discriminate|].
  destruct j as [|j']; [exact L|]. apply (IH eq_refl j'). lia. Qed.
(** conversely the search result is determined by those properties *)
Lemma ffl_unique (b : Buf) td i : (i < length b)%nat -> td <= tm b i -> (forall j, (j < i)%nat -> tm b j < td) ->
  find_first_later_or_eq ROps b td = Some i.
Proof. intros Hi Le Lt. destruct (find_first_later_or_eq ROps b td) as [i'|] eqn:F.
  - destruct (ffl_some b td i' F) as (A & B & C). f_equal.
    destruct (Nat.lt_trichotomy i i') as [H|[H|H]]; auto.
    + pose proof (C i H). lra.
    + pose proof (Lt i' H). lra.
  - pose proof (ffl_none b td F i Hi). lra. Qed.
Lemma ffl_none_iff (b : Buf) td : (forall j, (j < length b)%nat -> tm b j < td) -> find_first_later_or_eq ROps b td = None.
Proof. intros H. destruct (find_first_later_or_eq ROps b td) as [i|] eqn:F; auto.
  destruct (ffl_some b td i F) as (A & B & _). pose proof (H i A). lra. Qed.

(** [count_to_last_earlier b t] = 1 + index of the last entry with time < t (0 if none): on a sorted buffer, exactly the
    entries before that position are earlier than t *)
Lemma cle_le (b : Buf) t : (count_to_last_earlier ROps b t <= length b)%nat.
Proof. induction b as [|[ti vi] r IH]; simpl; auto. destruct (count_to_last_earlier ROps r t); [destruct (Rltb ti t)|]; lia. Qed.
Lemma cle_sorted (b : Buf) t : sorted b ->
  (forall j, (j < count_to_last_earlier ROps b t)%nat -> tm b j < t) /\
  (forall j, (count_to_last_earlier ROps b t <= j)%nat -> (j < length b)%nat -> t <= tm b j).
Proof. induction b as [|[ti vi] r IH]; intros S; simpl; [split; intros; lia|].
  destruct (IH (sorted_tail _ _ S)) as [A B].
  destruct (count_to_last_earlier ROps r t) as [|n] eqn:C.
  - destruct (Rltb ti t) eqn:L.
    + apply Rltb_true in L. split.
      * intros j Hj. assert (j = 0)%nat by lia. subst. exact L.
      * intros [|j'] H1 H2; [lia|]. unfold tm. simpl. apply (B j'); lia.
    + apply Rltb_false in L. split; [intros; lia|].
      intros [|j'] H1 H2; [exact L|]. unfold tm. simpl. apply (B j'); lia.
  - split.
    + intros [|j'] Hj.
      * unfold tm. simpl. pose proof (A 0%nat ltac:(lia)) as A0.
        pose proof (sorted_head_lt (ti, vi) r S 0%nat) as Hh. simpl in Hh.
        assert (0 < length r)%nat by (pose proof (cle_le r t); lia). specialize (Hh H). unfold tm in A0, Hh. simpl in Hh. lra.
      * unfold tm. simpl. apply (A j'). lia.
    + intros [|j'] H1 H2; [lia|]. unfold tm. simpl. apply (B j'); lia. Qed.

(* ------------------------------------------------------------------ copyInAndUpdate keeps the times strictly increasing *)
Lemma sorted_app (b : Buf) e : sorted b -> (forall j, (j < length b)%nat -> tm b j < fst e) -> sorted (b ++ [e]).
Proof. induction b as [|a r IH]; intros S H; simpl; auto.
  split.
  - destruct r as [|a' r']; simpl.
    + apply (H 0%nat). simpl. lia.
    + destruct S as [L _]. exact L.
  - apply IH; [apply (sorted_tail _ _ S)|]. intros j Hj. apply (H (Datatypes.S j)). simpl. lia. Qed.
Lemma sorted_skipn (b : Buf) : forall k, sorted b -> sorted (skipn k b).
Proof. induction b as [|a r IH]; intros [|k] S; simpl; auto. apply IH. apply (sorted_tail _ _ S). Qed.
Lemma sorted_firstn (b : Buf) : forall k, sorted b -> sorted (firstn k b).
Proof. induction b as [|a r IH]; intros [|k] S; simpl; auto. split.
  - destruct r as [|a' r']; destruct k; simpl; auto. destruct S as [L _]. exact L.
  - apply IH. apply (sorted_tail _ _ S). Qed.
Lemma tm_firstn (b : Buf) : forall k j, (j < k)%nat -> tm (firstn k b) j = tm b j.
Proof. induction b as [|a r IH]; intros [|k] [|j] H; unfold tm in *; simpl; auto; try lia. apply (IH k j). lia. Qed.
Lemma tm_skipn (b : Buf) : forall k j, tm (skipn k b) j = tm b (k + j).
Proof. unfold tm. induction b as [|a r IH]; intros k j.
  - rewrite skipn_nil. destruct j, (k + _)%nat; reflexivity.
  - destruct k; [reflexivity|]. simpl. apply IH. Qed.

Lemma copy_keeps_sorted (old : Buf) tE tNow v : sorted old -> sorted (copy_in_and_update ROps old tE tNow v).
Proof. intros S. unfold copy_in_and_update. apply sorted_app.
  - apply sorted_firstn, sorted_skipn, S.
  - intros j Hj. simpl.
    set (f := count_unneeded ROps old tE) in *. set (l := count_to_last_earlier ROps old tNow) in *.
    rewrite firstn_length, skipn_length in Hj.
    rewrite tm_firstn by lia. rewrite tm_skipn.
    apply (proj1 (cle_sorted old tNow S)). fold l. lia. Qed.

(* ------------------------------------------------------------------ calcValueAtTimeLinearOnly *)
Lemma calc_nonempty (b : Buf) td : b <> [] ->
  calc_value_at ROps b td =
  match find_first_later_or_eq ROps b td with
  | Some (S i) => Some (lerp_entries ROps (nth i b dE) (nth (S i) b dE) td)
  | Some 0%nat => Some (snd (nth 0 b dE))
  | None => match length b with
            | 1%nat => Some (snd (nth 0 b dE))
            | n => Some (lerp_entries ROps (nth (n - 2) b dE) (nth (n - 1) b dE) td)
            end
  end.
Proof. destruct b; [congruence|reflexivity]. Qed.

Lemma delay_buffer_returns_bracketing_sample (b : Buf) td : sorted b -> b <> [] ->
  (td <= tm b 0 -> calc_value_at ROps b td = Some (snd (nth 0 b dE))) /\
  (forall i, (S i < length b)%nat -> tm b i < td <= tm b (S i) ->
     calc_value_at ROps b td = Some (lerp_entries ROps (nth i b dE) (nth (S i) b dE) td)) /\
  (tm b (length b - 1) < td ->
     calc_value_at ROps b td = Some (if Nat.eqb (length b) 1 then snd (nth 0 b dE)
                                     else lerp_entries ROps (nth (length b - 2) b dE) (nth (length b - 1) b dE) td)).
Proof. intros Hs Ne. rewrite (calc_nonempty b td Ne).
  assert (Lp : (0 < length b)%nat) by (destruct b; [congruence|simpl; lia]).
  split; [|split].
  - intros H. rewrite (ffl_unique b td 0); auto. intros j Hj; lia.
  - intros i Hi [H1 H2]. rewrite (ffl_unique b td (S i)); auto.
    intros j Hj. destruct (Nat.eq_dec j i) as [->|N]; auto.
    eapply Rlt_trans; [apply (sorted_lt b Hs j i); lia | exact H1].
  - intros H. rewrite (ffl_none_iff b td).
    + destruct (length b) as [|[|n]] eqn:L; [lia | reflexivity | reflexivity].
    + intros j Hj. destruct (Nat.eq_dec j (length b - 1)) as [->|N]; auto.
      eapply Rlt_trans; [apply (sorted_lt b Hs j (length b - 1)); lia | exact H]. Qed.

(** the three cases are exhaustive on a sorted non-empty buffer *)
Lemma bracketing_cases_exhaustive (b : Buf) td : sorted b -> b <> [] ->
  td <= tm b 0 \/ (exists i, (S i < length b)%nat /\ tm b i < td <= tm b (S i)) \/ tm b (length b - 1) < td.
Proof. intros Hs Ne. destruct (find_first_later_or_eq ROps b td) as [[|i]|] eqn:F.
  - left. apply (ffl_some b td 0 F).
  - right. left. exists i. destruct (ffl_some b td (S i) F) as (A & B & C). split; auto.
  - right. right. apply (ffl_none b td F). destruct b; [congruence|simpl; lia]. Qed.

(** linear interpolation/extrapolation through two samples of an affine function reproduces it (so the Delay of an
    affine operand is exact, also when extrapolating), and hits the later sample exactly at its time *)
Lemma lerp_affine_exact a c t0 t1 td : t0 <> t1 ->
  lerp_entries ROps (t0, [a * t0 + c]) (t1, [a * t1 + c]) td = [a * td + c].
Proof. intros N. unfold lerp_entries, vlerp. simpl. f_equal. field. lra. Qed.
Lemma lerp_at_later_sample t0 t1 v0 v1 : t0 <> t1 -> lerp_entries ROps (t0, [v0]) (t1, [v1]) t1 = [v1].
Proof. intros N. unfold lerp_entries, vlerp. simpl. f_equal. field. lra. Qed.

(* ------------------------------------------------------------------ pruning *)
Lemma nth_skipn' {A} (d : A) (b : list A) : forall k j, nth j (skipn k b) d = nth (k + j) b d.
Proof. induction b as [|a r IH]; intros k j.
  - rewrite skipn_nil. destruct j, (k + _)%nat; reflexivity.
  - destruct k; [reflexivity|]. simpl. apply IH. Qed.

(** dropping k leading entries does not change the answer at td if at least two of the kept entries are before td *)
Lemma drop_old_same_answer (B : Buf) k td : sorted B ->
  (k = 0%nat \/ ((k + 2 <= length B)%nat /\ tm B (k + 1) < td)) ->
  calc_value_at ROps (skipn k B) td = calc_value_at ROps B td.
Proof. intros Hs [->|[Hk Ht]]; [reflexivity|].
  assert (Early : forall j, (j <= k + 1)%nat -> tm B j < td).
  { intros j Hj. destruct (Nat.eq_dec j (k + 1)) as [->|N]; auto.
    eapply Rlt_trans; [apply (sorted_lt B Hs j (k + 1)); lia | exact Ht]. }
  set (P := skipn k B). assert (LP : length P = (length B - k)%nat) by apply skipn_length.
  assert (TP : forall j, tm P j = tm B (k + j)) by (intros j; apply tm_skipn).
  assert (NP : forall j, nth j P dE = nth (k + j) B dE) by (intros j; apply nth_skipn').
  assert (NB : B <> []) by (destruct B; [simpl in Hk; lia|congruence]).
  assert (NPe : P <> []) by (destruct P; [simpl in LP; lia|congruence]).
  rewrite (calc_nonempty P td NPe), (calc_nonempty B td NB).
  destruct (find_first_later_or_eq ROps B td) as [i|] eqn:F.
  - destruct (ffl_some B td i F) as (A1 & A2 & A3).
    assert (Hi : (k + 1 < i)%nat).
    { destruct (Nat.lt_ge_cases (k + 1) i); auto. pose proof (Early i H). lra. }
    rewrite (ffl_unique P td (i - k)).
    + destruct i as [|m]; [lia|]. replace (S m - k)%nat with (S (m - k)) by lia.
      rewrite !NP. replace (k + (m - k))%nat with m by lia. replace (k + S (m - k))%nat with (S m) by lia. reflexivity.
    + lia.
    + rewrite TP. replace (k + (i - k))%nat with i by lia. exact A2.
    + intros j Hj. rewrite TP. apply A3. lia.
  - pose proof (ffl_none B td F) as A.
    rewrite (ffl_none_iff P td) by (intros j Hj; rewrite TP; apply A; lia).
    rewrite LP.
    destruct (length B) as [|[|n]] eqn:LB; try lia.
    destruct (S (S n) - k)%nat as [|[|q]] eqn:Q; try lia. cbv zeta.
    rewrite !NP. f_equal. f_equal; f_equal; lia. Qed.

Lemma count_unneeded_spec (old : Buf) tE tNow : sorted old -> tE <= tNow ->
  let f := count_unneeded ROps old tE in let l := count_to_last_earlier ROps old tNow in
  f = 0%nat \/ ((f + 2 <= l)%nat /\ tm old (f + 1) < tE).
Proof. intros Hs Le f l. unfold f, count_unneeded.
  destruct (find_first_later_or_eq ROps old tE) as [i|] eqn:F; [|left; reflexivity].
  destruct (ffl_some old tE i F) as (A1 & A2 & A3).
  destruct (Nat.le_gt_cases i 2) as [H|H]; [left; lia|]. right.
  assert (Il : (i <= l)%nat).
  { destruct (Nat.le_gt_cases i l); auto. exfalso.
    pose proof (proj2 (cle_sorted old tNow Hs) (i - 1)%nat ltac:(fold l; lia) ltac:(lia)) as Q.
    pose proof (A3 (i - 1)%nat ltac:(lia)). lra. }
  split; [lia|]. apply A3. lia. Qed.

Lemma prune_preserves_answers (old : Buf) tE tNow v td : sorted old -> tE <= tNow -> tE <= td ->
  calc_value_at ROps (copy_in_and_update ROps old tE tNow v) td =
  calc_value_at ROps (firstn (count_to_last_earlier ROps old tNow) old ++ [(tNow, v)]) td.
Proof. intros Hs Le Ltd. unfold copy_in_and_update.
  set (f := count_unneeded ROps old tE). set (l := count_to_last_earlier ROps old tNow).
  pose proof (count_unneeded_spec old tE tNow Hs Le) as Sp. fold f l in Sp. cbv zeta in Sp.
  pose proof (cle_le old tNow) as Ll. fold l in Ll.
  assert (LB : length (firstn l old) = l) by (apply firstn_length_le; auto).
  assert (Fl : (f <= l)%nat) by (destruct Sp as [->|[H _]]; lia).
  set (B := firstn l old ++ [(tNow, v)]).
  assert (EP : firstn (l - f) (skipn f old) ++ [(tNow, v)] = skipn f B).
  { unfold B. rewrite skipn_app, LB. replace (f - l)%nat with 0%nat by lia. simpl. f_equal.
    rewrite firstn_skipn_comm. replace (f + (l - f))%nat with l by lia. reflexivity. }
  transitivity (calc_value_at ROps (skipn f B) td); [f_equal; exact EP|].
  assert (SB : sorted B).
  { unfold B. apply sorted_app; [apply sorted_firstn; auto|]. intros j Hj. rewrite LB in Hj. simpl.
    rewrite tm_firstn by lia. apply (proj1 (cle_sorted old tNow Hs)). fold l. lia. }
  apply drop_old_same_answer; auto.
  destruct Sp as [->|[H1 H2]]; [left; reflexivity|]. right. split.
  - unfold B. rewrite app_length, LB. simpl. lia.
  - unfold B, tm. rewrite app_nth1 by (rewrite LB; lia).
    change (fst (nth (f + 1) (firstn l old) dE)) with (tm (firstn l old) (f + 1)). rewrite tm_firstn by lia. lra. Qed.

(* ------------------------------------------------------------------ the Delay state machine *)
Section Cfg.
Variable fx : bool.
Notation Delm := (@delm R).
Definition dmach (s : St) (j : nat) : option Delm :=
  match nth_error (s_machs s) j with Some (MD d) => Some d | _ => None end.
Definition d_td (E : Env) (d : Delm) : R := e_t E - d_delay d.
Definition d_next (E : Env) (d : Delm) : Buf :=
  copy_in_and_update ROps (d_buf d) (d_td E d) (e_t E) (veval ROps (d_src d) (e_t E)).

(** [bv] (ghost) = the buffer that was in the state when the value was last computed *)
Record DI (E : Env) (d : Delm) (bv : Buf) : Prop := mkDI {
  di_sorted : sorted (d_buf d);
  di_upd : oku E 4 (d_upd d) (fun b => b = d_next E d);
  di_val : oku E 4 (d_val d) (fun v => v = calc_value_at ROps bv (d_td E d)) }.

Lemma DI_after (E E' : Env) g d bv : env_wf E -> env_after E g E' -> DI E d bv -> DI E' d bv.
Proof. intros W Aft [Hs Hu Hv]. constructor; auto.
  - eapply oku_after; eauto; try lia. intros Dg a ->. destruct Aft as (_ & _ & Ht). unfold d_next, d_td. rewrite Ht; auto.
  - eapply oku_after; eauto; try lia. intros Dg a ->. destruct Aft as (_ & _ & Ht). unfold d_td. rewrite Ht; auto. Qed.
Lemma DI_set_stage (E : Env) g d bv : (e_stage E <= g)%nat -> DI E d bv -> DI (set_stage E g) d bv.
Proof. intros L [Hs Hu Hv]. constructor; auto.
  - destruct Hu as [A B]. split; auto. intros F. destruct (B F). split; auto. simpl. lia.
  - destruct Hv as [A B]. split; auto. intros F. destruct (B F). split; auto. simpl. lia. Qed.
Lemma DI_set_var (E : Env) i v d bv : env_wf E -> DI E d bv -> DI (set_var E i v) d bv.
Proof. intros W H. unfold set_var. destruct (nth_error (e_vars E) i) as [[v0 g]|]; auto.
  eapply (DI_after E _ g); [exact W| |exact H]. split; [|split]; simpl; auto. intros _. apply inval_t. Qed.

Lemma DI_update (E : Env) d bv : (4 <= e_stage E)%nat -> DI E d bv -> DI E (d_update ROps E d) bv.
Proof. intros S [Hs Hu Hv]. constructor; cbn [d_update d_buf d_upd d_val]; auto.
  split; [intros _; simpl; lia|]. intros _. split; auto. Qed.
Lemma DI_auto (E : Env) d bv : DI E d bv ->
  DI E (d_auto E d) bv /\ d_src (d_auto E d) = d_src d /\ d_delay (d_auto E d) = d_delay d /\
  d_buf (d_auto E d) = (if valid E 4 (d_upd d) then d_next E d else d_buf d).
Proof. intros [Hs Hu Hv]. unfold d_auto. destruct (valid E 4 (d_upd d)) eqn:V.
  - apply valid_fresh in V. destruct V as [S F]. destruct (proj2 Hu F) as [_ Pv].
    split; [|cbn [d_src d_delay d_buf]; auto]. constructor; cbn [d_buf d_upd d_val]; auto.
    + rewrite Pv. apply copy_keeps_sorted; auto.
    + split; [simpl; discriminate|]. intros [_ O]. simpl in O. discriminate.
  - split; [constructor; auto|auto]. Qed.
Lemma DI_get (E : Env) d bv : (4 <= e_stage E)%nat -> DI E d bv ->
  let bv' := if valid E 4 (d_val d) then bv else d_buf d in
  DI E (snd (d_get ROps E d)) bv' /\ fst (d_get ROps E d) = calc_value_at ROps bv' (d_td E d) /\
  d_src (snd (d_get ROps E d)) = d_src d /\ d_delay (snd (d_get ROps E d)) = d_delay d /\
  d_buf (snd (d_get ROps E d)) = d_buf d.
Proof. intros S [Hs Hu Hv] bv'. unfold bv', d_get. destruct (valid E 4 (d_val d)) eqn:V; cbn [fst snd].
  - apply valid_fresh in V. destruct V as [_ F]. destruct (proj2 Hv F) as [_ Pv]. split; [constructor; auto|]. auto.
  - split; [|cbn [d_src d_delay d_buf]; auto]. constructor; cbn [d_buf d_upd d_val d_src d_delay]; auto.
    split; [intros _; simpl; lia|]. intros _. split; auto. Qed.

Definition DS (s : St) (j : nat) (src : @vsrc R) (delay : R) (bv : Buf) : Prop :=
  env_wf (s_env s) /\ exists d, dmach s j = Some d /\ d_src d = src /\ d_delay d = delay /\ DI (s_env s) d bv.

(** what each operation does to the stored buffer and to the ghost *)
Definition dbuf_step (s : St) (j : nat) (o : Op) (b : Buf) : Buf :=
  match o, dmach s j with
  | AutoUpd, Some d => if valid (s_env s) 4 (d_upd d) then d_next (s_env s) d else b
  | _, _ => b
  end.
Definition dghost_step (s : St) (j : nat) (o : Op) (bv : Buf) : Buf :=
  match o, dmach s j with
  | GetM j', Some d => if (j' =? j)%nat && (4 <=? e_stage (s_env s))%nat && negb (valid (s_env s) 4 (d_val d)) then d_buf d else bv
  | _, _ => bv
  end.
Ltac ds_keep := split; [assumption|]; split; [assumption|]; split; [assumption|].

Lemma step_DS (s : St) j src delay bv (op : Op) : DS s j src delay bv -> op <> Init ->
  DS (fst (step ROps fx s op)) j src delay (dghost_step s j op bv) /\
  (forall d d', dmach s j = Some d -> dmach (fst (step ROps fx s op)) j = Some d' -> d_buf d' = dbuf_step s j op (d_buf d)) /\
  (op = GetM j -> (4 <= e_stage (s_env s))%nat ->
   snd (step ROps fx s op) = match calc_value_at ROps (dghost_step s j op bv) (e_t (s_env s) - delay) with
                          | Some w => OVal w | None => ONaN end).
Proof. intros (W & d & Hd & Hs & Hdl & HI) NI.
  assert (Nd : nth_error (s_machs s) j = Some (MD d)).
  { unfold dmach in Hd. destruct (nth_error (s_machs s) j) as [[x'|d'|f]|]; try discriminate. congruence. }
  assert (Same : forall s', s_machs s' = s_machs s -> dmach s' j = Some d) by (intros s' E'; unfold dmach; rewrite E', Nd; auto).
  assert (Keep : forall j' f0 E', j' <> j -> dmach (mkSt E' (s_trees s) (upd_nth j' f0 (s_machs s))) j = Some d).
  { intros j' f0 E' Nj. unfold dmach. simpl. rewrite nth_error_upd_nth.
    replace (j' =? j)%nat with false by (symmetry; apply Nat.eqb_neq; auto). rewrite Nd. reflexivity. }
  assert (Buf1 : forall s' : St, dmach s' j = Some d -> forall d0 d', Some d = Some d0 -> dmach s' j = Some d' -> d_buf d' = d_buf d0).
  { intros s' E1 d0 d' [= <-] E2. rewrite E1 in E2. injection E2 as <-. reflexivity. }
  destruct op as [t|g| |g| |i v|j' v|i path k|j'|j']; try congruence; unfold dghost_step, dbuf_step; rewrite Hd.
  - (* SetTime *) cbn [step fst snd]. split; [|split; [apply Buf1; apply Same; reflexivity | discriminate]].
    split; [apply inval_wf; auto|]. exists d. ds_keep.
    eapply (DI_after (s_env s)); [exact W | apply env_after_set_time | exact HI].
  - (* Realize *) cbv beta iota zeta delta [step]. destruct (g <=? e_stage (s_env s))%nat eqn:L.
    + cbn [fst snd]. split; [|split; [apply Buf1; auto | discriminate]]. split; auto. exists d. auto.
    + apply Nat.leb_gt in L.
      destruct ((e_stage (s_env s) <? 8)%nat && (8 <=? g)%nat) eqn:B; cbn [fst snd s_env].
      * apply andb_true_iff in B. destruct B as [B1 B2]. apply Nat.ltb_lt in B1. apply Nat.leb_le in B2.
        assert (H7 : DI (set_stage (s_env s) 7) d bv) by (apply DI_set_stage; auto; lia).
        apply DI_update in H7; [|cbn [set_stage e_stage]; lia].
        assert (Dm : dmach (mkSt (set_stage (s_env s) g) (s_trees s) (map (mach_acc ROps (set_stage (s_env s) 7)) (s_machs s))) j
                     = Some (d_update ROps (set_stage (s_env s) 7) d)).
        { unfold dmach. cbn [s_machs]. rewrite nth_error_map', Nd. reflexivity. }
        split; [|split; [|discriminate]].
        -- split; [exact W|]. exists (d_update ROps (set_stage (s_env s) 7) d). split; [exact Dm|].
           split; [exact Hs|]. split; [exact Hdl|].
           apply (DI_set_stage (set_stage (s_env s) 7) g) in H7; [exact H7 | cbn [set_stage e_stage]; lia].
        -- intros d0 d' [= <-] E2. rewrite Dm in E2. injection E2 as <-. reflexivity.
      * split; [|split; [apply Buf1; apply Same; reflexivity | discriminate]].
        split; [exact W|]. exists d. ds_keep. apply DI_set_stage; auto. lia.
  - (* AutoUpd *) cbn [step fst snd]. destruct (DI_auto (s_env s) d bv HI) as (H1 & E1 & E2 & E3).
    assert (Dm : dmach (mkSt (s_env s) (s_trees s) (map (mach_auto (s_env s)) (s_machs s))) j = Some (d_auto (s_env s) d)).
    { unfold dmach. cbn [s_machs]. rewrite nth_error_map', Nd. reflexivity. }
    split; [|split; [|discriminate]].
    + split; [exact W|]. exists (d_auto (s_env s) d). split; [exact Dm|]. split; [congruence|]. split; [congruence|]. exact H1.
    + intros d0 d' [= <-] E4. rewrite Dm in E4. injection E4 as <-. exact E3.
  - (* Inval *) cbn [step fst snd]. split; [|split; [apply Buf1; apply Same; reflexivity | discriminate]].
    split; [apply inval_wf; auto|]. exists d. ds_keep.
    eapply (DI_after (s_env s)); [exact W | apply env_after_inval | exact HI].
  - (* SetVar *) cbn [step fst snd]. split; [|split; [apply Buf1; apply Same; reflexivity | discriminate]].
    split; [apply set_var_wf; auto|]. exists d. ds_keep. apply DI_set_var; auto.
  - (* SetExt *) cbn [step]. destruct (nth_error (s_machs s) j') as [[x'|d'|f]|] eqn:N'; cbn [fst snd];
      try (split; [split; [exact W|]; exists d; auto | split; [apply Buf1; auto | discriminate]]; fail).
    assert (Nj : j' <> j) by (intros ->; rewrite Nd in N'; discriminate).
    split; [|split; [apply Buf1; apply Keep; auto | discriminate]].
    split; [apply inval_wf; auto|]. exists d. split; [apply Keep; auto|]. split; [assumption|]. split; [assumption|].
    eapply (DI_after (s_env s)); [exact W | apply (env_after_inval _ 7) | exact HI].
  - (* GetT *) cbn [step]. destruct (nth_error (s_trees s) i) as [m|]; cbn [fst snd];
      [|split; [split; [exact W|]; exists d; auto | split; [apply Buf1; auto | discriminate]]].
    destruct (tget_at ROps (s_env s) path k m) as [[v m']|]; cbn [fst snd];
      (split; [split; [exact W|]; exists d; auto | split; [apply Buf1; auto; apply Same; reflexivity | discriminate]]).
  - (* GetM *) cbv beta iota zeta delta [step].
    destruct (Nat.eq_dec j' j) as [->|Nj].
    + rewrite Nd. cbn [mach_dep]. rewrite Nat.eqb_refl. cbn [andb].
      destruct (4 <=? e_stage (s_env s))%nat eqn:G4; cbn [negb andb fst snd].
      * apply Nat.leb_le in G4. destruct (DI_get (s_env s) d bv G4 HI) as (H1 & Ev & E1 & E2 & E3).
        destruct (d_get ROps (s_env s) d) as [v d'] eqn:Dg. cbn [fst snd] in *.
        assert (Dm : dmach (mkSt (s_env s) (s_trees s) (upd_nth j (fun _ => MD d') (s_machs s))) j = Some d').
        { unfold dmach. cbn [s_machs]. rewrite nth_error_upd_nth, Nat.eqb_refl, Nd. reflexivity. }
        destruct (valid (s_env s) 4 (d_val d)) eqn:Vv; cbn [negb] in *; (split; [|split]).
        all: try (split; [exact W|]; exists d'; split; [exact Dm|]; split; [congruence|]; split; [congruence|]; exact H1).
        all: try (intros d0 d'' [= <-] E4; rewrite Dm in E4; injection E4 as <-; exact E3).
        all: intros _ _; rewrite Ev; unfold d_td; rewrite Hdl; reflexivity.
      * split; [split; [exact W|]; exists d; auto | split; [apply Buf1; auto | intros _ G; apply Nat.leb_gt in G4; lia]].
    + replace (j' =? j)%nat with false by (symmetry; apply Nat.eqb_neq; auto). cbn [andb].
      destruct (nth_error (s_machs s) j') as [mm|] eqn:N'; cbn [fst snd];
        [|split; [split; [exact W|]; exists d; auto | split; [apply Buf1; auto | intros [= E]; congruence]]].
      destruct (negb (mach_dep mm <=? e_stage (s_env s))%nat); cbn [fst snd];
        [split; [split; [exact W|]; exists d; auto | split; [apply Buf1; auto | intros [= E]; congruence]]|].
      destruct mm as [x'|d'|f].
      * destruct (x_ensure ROps (s_env s) x') as [fd x'']. cbn [fst snd].
        split; [split; [exact W|]; exists d; split; [apply Keep; auto|auto] | split; [apply Buf1; apply Keep; auto | intros [= E]; congruence]].
      * destruct (d_get ROps (s_env s) d') as [v d'']. cbn [fst snd].
        split; [split; [exact W|]; exists d; split; [apply Keep; auto|auto] | split; [apply Buf1; apply Keep; auto | intros [= E]; congruence]].
      * cbn [fst snd].
        split; [split; [exact W|]; exists d; split; [apply Keep; auto|auto] | split; [apply Buf1; apply Keep; auto | intros [= E]; congruence]].
  - (* GetMT *) cbn [step]. destruct (nth_error (s_machs s) j') as [[x'|d'|f]|] eqn:N'; cbn [fst snd];
      try (split; [split; [exact W|]; exists d; auto | split; [apply Buf1; auto | discriminate]]; fail).
    assert (Nj : j' <> j) by (intros ->; rewrite Nd in N'; discriminate).
    destruct (negb (vdep (x_src x') <=? e_stage (s_env s))%nat); cbn [fst snd];
      [split; [split; [exact W|]; exists d; auto | split; [apply Buf1; auto | discriminate]]|].
    destruct (x_ensure ROps (s_env s) x') as [fd x'']. cbn [fst snd].
    split; [split; [exact W|]; exists d; split; [apply Keep; auto|auto] | split; [apply Buf1; apply Keep; auto | discriminate]]. Qed.

(** the claim about a whole run of Delay measure j: the stored buffer changes only at an auto-update in a state where the
    measure has been realized (then it becomes copyInAndUpdate of itself with the current sample), stays strictly increasing
    in time, and every getValue returns calcValueAtTimeLinearOnly at (t - delay) on the buffer that was in the state when the
    value was first computed at the current time *)
Fixpoint d_run_ok (s : St) j (delay : R) (bv : Buf) (ops : list Op) : Prop :=
  match ops with
  | [] => True
  | op :: r =>
      (forall d d', dmach s j = Some d -> dmach (fst (step ROps fx s op)) j = Some d' ->
                    d_buf d' = dbuf_step s j op (d_buf d) /\ sorted (d_buf d')) /\
      (op = GetM j -> (4 <= e_stage (s_env s))%nat ->
       snd (step ROps fx s op) = match calc_value_at ROps (dghost_step s j op bv) (e_t (s_env s) - delay) with
                              | Some w => OVal w | None => ONaN end) /\
      d_run_ok (fst (step ROps fx s op)) j delay (dghost_step s j op bv) r
  end.

Lemma delay_is_calc_on_buffer (s : St) j src delay bv (ops : list Op) :
  DS s j src delay bv -> Forall (fun o => o <> Init) ops -> d_run_ok s j delay bv ops.
Proof. revert s bv. induction ops as [|op r IH]; intros s bv H Al; simpl; auto.
  inversion Al as [|? ? A1 A2]; subst.
  destruct (step_DS s j src delay bv op H A1) as (H1 & H2 & H3). split; [|split; auto].
  intros d d' E1 E2. split; [apply (H2 d d'); auto|].
  destruct H1 as (_ & d'' & E3 & _ & _ & HI). rewrite E2 in E3. injection E3 as <-. apply (di_sorted _ _ _ HI). Qed.

Lemma DS_init t vars trees machs j src delay bv :
  nth_error machs j = Some (MD (mk_delay src delay)) -> DS (mkSt (env0 t vars) trees machs) j src delay bv.
Proof. intros N. split; [reflexivity|]. exists (mk_delay src delay). split; [unfold dmach; simpl; rewrite N; reflexivity|].
  split; [reflexivity|]. split; [reflexivity|].
  assert (NF : forall A (v : A), ~ fresh (env0 t vars) 4 (ce0 v)) by (intros A v [F _]; simpl in F; discriminate).
  constructor; unfold mk_delay; cbn [d_buf d_upd d_val]; [exact I | |].
  - split; [simpl; lia|]. intros F. destruct (NF _ _ F).
  - split; [simpl; lia|]. intros F. destruct (NF _ _ F). Qed.

(** the initialization event (Delay::initializeVirtual: clear the buffer, append the current sample) keeps the invariant *)
Lemma DI_d_init (E : Env) d bv : DI E d bv -> DI E (d_init ROps E d) bv.
Proof. intros [Hs Hu Hv]. constructor; cbn [d_init d_buf d_upd d_val]; auto.
  - simpl. auto.
  - split; [simpl; discriminate|]. intros [_ O]. simpl in O. discriminate. Qed.

End Cfg.

(* ------------------------------------------------------------------ example *)
Ltac rcmp := repeat match goal with
  | |- context [Rleb ?a ?b] => first [replace (Rleb a b) with true by (symmetry; apply Rleb_true; lra)
                                     | replace (Rleb a b) with false by (symmetry; apply Rleb_false; lra)]
  | |- context [Rltb ?a ?b] => first [replace (Rltb a b) with true by (symmetry; apply Rltb_true; lra)
                                     | replace (Rltb a b) with false by (symmetry; apply Rltb_false; lra)]
  end.
Ltac reval := repeat (rcbv; progress rcmp); rcbv.

(** non-vacuity: Delay(time, 1/2) sampled at t=0 and t=1, asked at t=2: t - delay = 3/2 is after the newest sample, the
    value is the extrapolation through (0,0),(1,1), which for this affine operand is exactly 3/2 *)
Example delay_is_calc_on_buffer_example :
  let s := mkSt (env0 0 []) [] [MD (mk_delay [PTime] (1/2))] in
  let ops := [Realize 8; AutoUpd; SetTime 1; Realize 8; AutoUpd; SetTime 2; Realize 8; GetM 0] in
  DS s 0%nat [PTime] (1/2) [] /\ Forall (fun o : Op => o <> Init) ops /\
  exists v, nth_error (snd (run ROps false s ops)) 7 = Some (OVal [v]) /\ v = 3/2.
Proof. intros s ops. split; [apply DS_init; reflexivity|]. split; [repeat constructor; discriminate|].
  unfold s, ops. reval. eexists. split; [reflexivity|]. field. Qed.

(** the auto-update is not transparent for Delay (known finding delay-value-not-invalidated-by-autoupdate): with samples of
    sin(pi/2 t) at t = 0, 1 and delay 1/2, the value at t = 2 is the extrapolation 3/2; the auto-update at t = 2 adds the sample
    (2, 0) but the cached value stays; once the cache is invalidated the very same state evaluates to 1/2 *)
Lemma delay_autoupdate_not_transparent :
  let s := mkSt (env0 0 []) [] [MD (mk_delay [PSin 1 (PI/2) 0] (1/2))] in
  let ops := [Realize 8; AutoUpd; SetTime 1; Realize 8; AutoUpd; SetTime 2; Realize 8; GetM 0; AutoUpd; GetM 0;
              SetTime 2; Realize 8; GetM 0] in
  DS s 0%nat [PSin 1 (PI/2) 0] (1/2) [] /\ List.Forall (fun o : Op => o <> Init) ops /\
  exists v1 v2, nth_error (snd (run ROps false s ops)) 7 = Some (OVal [v1]) /\ nth_error (snd (run ROps false s ops)) 9 = Some (OVal [v1]) /\
                nth_error (snd (run ROps false s ops)) 12 = Some (OVal [v2]) /\ v1 = 3/2 /\ v2 = 1/2.
Proof. intros s ops. split; [apply DS_init; reflexivity|]. split; [repeat constructor; discriminate|].
  unfold s, ops. remember (PI / 2) as w eqn:Hw. reval. eexists. eexists. split; [reflexivity|]. split; [reflexivity|]. split; [reflexivity|].
  replace (w * 0 + 0) with 0 by lra. replace (w * 1 + 0) with (PI / 2) by lra. replace (w * 2 + 0) with PI by lra.
  rewrite sin_0, sin_PI2, sin_PI. split; field. Qed.

(* ------------------------------------------------------------------ many updates: the pruned buffer against the full history *)
(** the history without pruning: only the entries at or after the new time are dropped (they are on both sides) *)
Definition hist_step (H : Buf) (t : R) (v : list R) : Buf := firstn (count_to_last_earlier ROps H t) H ++ [(t, v)].
(** P is H with k leading entries dropped, at least two of the kept ones being earlier than tq *)
Definition PR (tq : R) (P H : Buf) : Prop :=
  exists k, P = skipn k H /\ (k = 0%nat \/ ((k + 2 <= length H)%nat /\ tm H (k + 1) < tq)).

Lemma cle_unique (b : Buf) t n : sorted b -> (n <= length b)%nat ->
  (forall j, (j < n)%nat -> tm b j < t) -> (forall j, (n <= j)%nat -> (j < length b)%nat -> t <= tm b j) ->
  count_to_last_earlier ROps b t = n.
Proof. intros Hs Ln A B. destruct (cle_sorted b t Hs) as [A' B']. pose proof (cle_le b t) as L'.
  destruct (Nat.lt_trichotomy (count_to_last_earlier ROps b t) n) as [H|[H|H]]; auto.
  - pose proof (A _ H). pose proof (B' _ (le_n _) ltac:(lia)). lra.
  - pose proof (A' _ H). pose proof (B _ (le_n _) ltac:(lia)). lra. Qed.
Lemma cle_skipn (H : Buf) t k : sorted H -> (k <= count_to_last_earlier ROps H t)%nat ->
  count_to_last_earlier ROps (skipn k H) t = (count_to_last_earlier ROps H t - k)%nat.
Proof. intros Hs Hk. destruct (cle_sorted H t Hs) as [A B]. pose proof (cle_le H t) as L.
  apply cle_unique.
  - apply sorted_skipn; auto.
  - rewrite skipn_length. lia.
  - intros j Hj. rewrite tm_skipn. apply A. lia.
  - intros j H1 H2. rewrite skipn_length in H2. rewrite tm_skipn. apply B; lia. Qed.
Lemma ffl_skipn (H : Buf) td k : (forall j, (j < k)%nat -> (j < length H)%nat -> tm H j < td) ->
  find_first_later_or_eq ROps (skipn k H) td = option_map (fun i => (i - k)%nat) (find_first_later_or_eq ROps H td) /\
  (forall i, find_first_later_or_eq ROps H td = Some i -> (k <= i)%nat).
Proof. intros E. destruct (find_first_later_or_eq ROps H td) as [i|] eqn:F.
  - destruct (ffl_some H td i F) as (A1 & A2 & A3).
    assert (Ki : (k <= i)%nat). { destruct (Nat.le_gt_cases k i); auto. pose proof (E i H0 A1). lra. }
    split; [|intros i' [= <-]; auto]. simpl. apply ffl_unique.
    + rewrite skipn_length. lia.
    + rewrite tm_skipn. replace (k + (i - k))%nat with i by lia. exact A2.
    + intros j Hj. rewrite tm_skipn. apply A3. lia.
  - split; [|discriminate]. simpl. apply ffl_none_iff. intros j Hj. rewrite skipn_length in Hj. rewrite tm_skipn.
    apply (ffl_none H td F). lia. Qed.
Lemma skipn_skipn' {A} (l : list A) : forall a b, skipn a (skipn b l) = skipn (b + a) l.
Proof. induction l as [|x r IH]; intros a b.
  - rewrite !skipn_nil. reflexivity.
  - destruct b; simpl; auto. Qed.

Lemma PR_weaken tq tq' P H : tq <= tq' -> PR tq P H -> PR tq' P H.
Proof. intros L (k & E & [K0|[H1 H2]]); exists k; split; auto. right. split; auto. lra. Qed.

(** equal answers *)
Lemma PR_same_answer tq P H td : sorted H -> PR tq P H -> tq <= td -> calc_value_at ROps P td = calc_value_at ROps H td.
Proof. intros Hs (k & -> & C) L. apply drop_old_same_answer; auto. destruct C as [K0|[H1 H2]]; auto. right. split; auto. lra. Qed.

(** one update keeps the relation, with the new request bound *)
Lemma PR_step tq P H tE tNow v : sorted H -> PR tq P H -> tq <= tE -> tE <= tNow ->
  PR tE (copy_in_and_update ROps P tE tNow v) (hist_step H tNow v) /\ sorted (hist_step H tNow v).
Proof. intros Hs (k & EP & C) L1 L2.
  set (lH := count_to_last_earlier ROps H tNow).
  pose proof (cle_le H tNow) as LlH. fold lH in LlH.
  destruct (cle_sorted H tNow Hs) as [A B]. fold lH in A, B.
  assert (SH' : sorted (hist_step H tNow v)).
  { unfold hist_step. fold lH. apply sorted_app; [apply sorted_firstn; auto|].
    intros j Hj. rewrite firstn_length_le in Hj by lia. simpl. rewrite tm_firstn by lia. apply A; auto. }
  split; [|exact SH'].
  assert (Early : forall j, (j < k + 2)%nat -> k <> 0%nat -> tm H j < tq).
  { intros j Hj Nk. destruct C as [->|[C1 C2]]; [lia|].
    destruct (Nat.eq_dec j (k + 1)) as [->|N]; auto.
    eapply Rlt_trans; [apply (sorted_lt H Hs j (k + 1)); lia | exact C2]. }
  assert (KlH : (k = 0 \/ k + 2 <= lH)%nat).
  { destruct C as [->|[C1 C2]]; [left; auto|right].
    destruct (Nat.le_gt_cases (k + 2) lH); auto. exfalso.
    pose proof (B (k + 1)%nat ltac:(lia) ltac:(lia)). lra. }
  assert (SP : sorted P) by (rewrite EP; apply sorted_skipn; auto).
  assert (lP : count_to_last_earlier ROps P tNow = (lH - k)%nat).
  { rewrite EP. apply cle_skipn; auto. fold lH. lia. }
  pose proof (count_unneeded_spec P tE tNow SP L2) as Sp. cbv zeta in Sp. rewrite lP in Sp.
  set (fP := count_unneeded ROps P tE) in *.
  assert (FP : (fP <= lH - k)%nat) by (destruct Sp as [->|[H1 _]]; lia).
  unfold copy_in_and_update. fold fP. rewrite lP.
  exists (k + fP)%nat. split.
  - unfold hist_step. fold lH.
    rewrite skipn_app. rewrite firstn_length_le by lia.
    replace (k + fP - lH)%nat with 0%nat by lia. simpl. f_equal.
    rewrite firstn_skipn_comm. replace (fP + (lH - k - fP))%nat with (lH - k)%nat by lia.
    rewrite EP. rewrite firstn_skipn_comm. replace (k + (lH - k))%nat with lH by lia.
    apply skipn_skipn'.
  - assert (LH' : length (hist_step H tNow v) = (lH + 1)%nat).
    { unfold hist_step. fold lH. rewrite app_length, firstn_length_le by lia. reflexivity. }
    assert (TH' : forall j, (j < lH)%nat -> tm (hist_step H tNow v) j = tm H j).
    { intros j Hj. unfold hist_step, tm. fold lH. rewrite app_nth1 by (rewrite firstn_length_le; lia).
      change (fst (nth j (firstn lH H) dE)) with (tm (firstn lH H) j). apply tm_firstn; auto. }
    destruct Sp as [F0|[F1 F2]].
    + rewrite F0, Nat.add_0_r. destruct (Nat.eq_dec k 0) as [K0|Nk]; [left; exact K0|right].
      destruct KlH as [K0|K2]; [lia|].
      split; [rewrite LH'; lia|]. rewrite TH' by lia. apply Rlt_le_trans with tq; auto. apply Early; lia.
    + right. split; [rewrite LH'; lia|]. rewrite TH' by lia.
      rewrite EP in F2. rewrite tm_skipn in F2. replace (k + fP + 1)%nat with (k + (fP + 1))%nat by lia. exact F2. Qed.

(** many updates: [samples] are the (time, value) pairs recorded at successive auto-updates *)
Fixpoint replay (delay : R) (samples : list (R * list R)) (PH : Buf * Buf) : Buf * Buf :=
  match samples with
  | [] => PH
  | (t, v) :: r => replay delay r (copy_in_and_update ROps (fst PH) (t - delay) t v, hist_step (snd PH) t v)
  end.
Fixpoint nondecreasing_from (t0 : R) (samples : list (R * list R)) : Prop :=
  match samples with [] => True | (t, _) :: r => t0 <= t /\ nondecreasing_from t r end.
Fixpoint last_time (t0 : R) (samples : list (R * list R)) : R :=
  match samples with [] => t0 | (t, _) :: r => last_time t r end.

Lemma pruned_buffer_answers_like_full_history delay : 0 <= delay -> forall samples t0 P H,
  sorted H -> PR (t0 - delay) P H -> nondecreasing_from t0 samples ->
  let PH := replay delay samples (P, H) in
  sorted (snd PH) /\ PR (last_time t0 samples - delay) (fst PH) (snd PH) /\
  forall td, last_time t0 samples - delay <= td -> calc_value_at ROps (fst PH) td = calc_value_at ROps (snd PH) td.
Proof. intros D. induction samples as [|[t v] r IH]; intros t0 P H Hs Hp Mono; simpl.
  - split; auto. split; auto. intros td L. eapply PR_same_answer; eauto.
  - destruct Mono as [M1 M2].
    destruct (PR_step (t0 - delay) P H (t - delay) t v Hs Hp ltac:(lra) ltac:(lra)) as [Hp' Hs'].
    apply (IH t _ _ Hs' Hp' M2). Qed.

(** non-vacuity: five samples one time unit apart, delay 3/2: the stored buffer has dropped the oldest sample, the history has
    not, and (by the theorem) both answer every request at or after 4 - 3/2 alike.  (With a delay SHORTER than the step no stored
    time is ever >= t - delay, countNumUnneededOldEntries then returns 0 and nothing is ever dropped: second part.) *)
Example pruned_history_example :
  let smp := [(0, [0]); (1, [1]); (2, [0]); (3, [1]); (4, [0])] in
  0 <= 3/2 /\ sorted ([] : Buf) /\ PR (0 - 3/2) [] [] /\ nondecreasing_from 0 smp /\
  length (fst (replay (3/2) smp ([], []))) = 4%nat /\ length (snd (replay (3/2) smp ([], []))) = 5%nat /\
  length (fst (replay (1/2) smp ([], []))) = 5%nat.
Proof. intros smp. split; [lra|]. split; [exact I|]. split; [exists 0%nat; auto|]. split; [simpl; lra|].
  unfold smp. split; [|split]; reval; reflexivity. Qed.
