(** C23, layer 2a: Measure::Extreme (Minimum / Maximum / MinAbs / MaxAbs, element-wise on vectors).
    [extreme_is_fold]: after ANY operation sequence (set time forwards or backwards, realize to any stage, invalidate,
    auto-update, change variables, evaluate other measures, evaluate this one any number of times) that contains no
    initialization event and no Extreme::setValue on this measure, getValue returns the fold of "keep the more extreme
    one" over: the initial value, the operand at every state where autoUpdateDiscreteVariables ran after the measure had
    been evaluated there, and the operand at the current state.  [fold_is_extreme]: that fold is an actual sample of
    minimal key (x, -x, |x|, -|x|), i.e. the signed operand value of extreme (magnitude).
    Extreme::setValue is outside the theorem for a reason: [extreme_setvalue_refuted]. *)
From Coq Require Import List Arith Bool PeanoNat Reals Lra Lia.
Require Import Num C23_Model C23_Arith.
Import ListNotations.

Notation Vec := (list R).
Notation Extm := (@extm R).
Notation Mach := (@mach R).

(* ------------------------------------------------------------------ generic facts about update cache entries *)
Definition oku {A} (E : Env) (D : nat) (u : ce A) (P : A -> Prop) : Prop :=
  (ce_ok u = true -> ce_ver u <= ver_at E D) /\ (fresh E D u -> D <= e_stage E /\ P (ce_val u)).

Lemma ver_inval_lt (E : Env) g D : D < g -> ver_at (inval E g) D = ver_at E D.
Proof. intros L. destruct (inval_cases E g) as [[_ ->]|[_ ->]]; auto. unfold ver_at. simpl. rewrite nth_bump. simpl.
  replace (g <=? D) with false by (symmetry; apply Nat.leb_gt; lia). reflexivity. Qed.

(** after invalidateAll(g): an entry that looks current looked current before, and its depends-on stage is below g *)
Lemma fresh_inval {A} (E : Env) g D (c : ce A) : env_wf E -> D <= 10 ->
  (ce_ok c = true -> ce_ver c <= ver_at E D) -> (fresh E D c -> D <= e_stage E) ->
  (ce_ok c = true -> ce_ver c <= ver_at (inval E g) D) /\
  (fresh (inval E g) D c -> fresh E D c /\ D < g /\ D <= e_stage (inval E g)).
Proof. intros W D10 Hle Hst. destruct (inval_cases E g) as [[L Eq]|[L Eq]]; rewrite Eq.
  2:{ split; auto. intros F. specialize (Hst F). split; auto. split; lia. }
  unfold fresh, ver_at in *. simpl. rewrite nth_bump. simpl.
  replace (D <? length (e_ver E)) with true by (symmetry; apply Nat.ltb_lt; unfold env_wf in W; lia).
  rewrite andb_true_r.
  destruct ((g <=? D) && (D <=? e_stage E)) eqn:B.
  - apply andb_true_iff in B. destruct B as [B1 B2]. apply Nat.leb_le in B1, B2. split.
    + intros O. specialize (Hle O). lia.
    + intros [F O]. specialize (Hle O). lia.
  - apply andb_false_iff in B. split; auto.
    intros F. specialize (Hst F). split; auto.
    destruct B as [B|B]; apply Nat.leb_gt in B; lia. Qed.

(** the environments the operations produce: stage/versions as after invalidateAll(g); the time may differ only if g <= 4 *)
Definition env_after (E : Env) (g : nat) (E' : Env) : Prop :=
  e_stage E' = e_stage (inval E g) /\ e_ver E' = e_ver (inval E g) /\ (4 < g -> e_t E' = e_t E).

Lemma oku_after {A} (E E' : Env) g D (u : ce A) (P P' : A -> Prop) : env_wf E -> D <= 10 -> env_after E g E' ->
  oku E D u P -> (D < g -> forall a, P a -> P' a) -> oku E' D u P'.
Proof. intros W D10 (Hs & Hv & Ht) [A1 A2] Imp.
  destruct (fresh_inval E g D u W D10 A1 (fun F => proj1 (A2 F))) as [B1 B2].
  unfold oku, fresh, ver_at in *. rewrite Hs, Hv. split; auto.
  intros F. destruct (B2 F) as (F0 & Dg & St). split; auto. apply Imp; auto. apply A2; auto. Qed.

Lemma fresh_after {A} (E E' : Env) g D (u : ce A) : env_wf E -> D <= 10 -> env_after E g E' ->
  (ce_ok u = true -> ce_ver u <= ver_at E D) -> (fresh E D u -> D <= e_stage E) ->
  fresh E' D u -> fresh E D u /\ D < g.
Proof. intros W D10 (Hs & Hv & Ht) A1 A2 F.
  destruct (fresh_inval E g D u W D10 A1 A2) as [B1 B2].
  assert (F' : fresh (inval E g) D u) by (unfold fresh, ver_at in *; rewrite <- Hv; exact F).
  destruct (B2 F') as (F0 & Dg & _). auto. Qed.
Lemma fresh_after_back {A} (E E' : Env) g D (u : ce A) : env_after E g E' -> D < g -> fresh E D u -> fresh E' D u.
Proof. intros (Hs & Hv & Ht) Dg [F O]. split; auto. unfold ver_at. rewrite Hv. fold (ver_at (inval E g) D).
  rewrite ver_inval_lt; auto. Qed.

Lemma env_after_inval (E : Env) g : env_after E g (inval E g).
Proof. split; [|split]; auto. intros _. apply inval_t. Qed.
Lemma env_after_set_time (E : Env) x : env_after E 4 (set_time E x).
Proof. split; [|split]; simpl; auto. lia. Qed.
Lemma env_after_set_var (E : Env) i x : exists g, env_after E g (set_var E i x) /\ 4 < g \/ set_var E i x = E \/
  (env_after E g (set_var E i x) /\ e_t (set_var E i x) = e_t E).
Proof. unfold set_var. destruct (nth_error (e_vars E) i) as [[v g]|]; [|exists 0; auto].
  exists g. right. right. split; [split; [|split]|]; simpl; auto; intros; apply inval_t. Qed.

(* ------------------------------------------------------------------ operands *)
Lemma peval_time_indep (e : @pexpr R) t t' : pdep e < 4 -> peval ROps e t = peval ROps e t'.
Proof. induction e; simpl; intros H; try lia; auto.
  - rewrite IHe1, IHe2 by lia; reflexivity.
  - rewrite IHe1, IHe2 by lia; reflexivity.
  - rewrite IHe by lia; reflexivity. Qed.
Lemma veval_time_indep (s : @vsrc R) t t' : vdep s < 4 -> veval ROps s t = veval ROps s t'.
Proof. destruct s as [|e [|e' r]]; simpl; intros H; try lia; auto. rewrite (peval_time_indep e t t'); auto. Qed.
Lemma pdep_le4 (e : @pexpr R) : pdep e <= 4. Proof. induction e; simpl; lia. Qed.
Lemma vdep_le4 (s : @vsrc R) : vdep s <= 4.
Proof. destruct s as [|e [|e' r]]; simpl; try lia. apply pdep_le4. Qed.
Lemma veval_length (s : @vsrc R) t : length (veval ROps s t) = length s.
Proof. apply map_length. Qed.

(* ------------------------------------------------------------------ element-wise extreme *)
Lemma vextreme_length o (cur prev : Vec) : length cur = length prev -> length (vextreme ROps o cur prev) = length prev.
Proof. revert prev. induction cur; destruct prev; simpl; intros H; try discriminate; auto. Qed.
Lemma vextreme_no_new o (cur prev : Vec) : length cur = length prev -> any_new ROps o cur prev = false ->
  vextreme ROps o cur prev = prev.
Proof. revert prev. induction cur; destruct prev; simpl; intros L H; try discriminate; auto.
  apply orb_false_iff in H. destruct H as [H1 H2]. unfold extreme_of. rewrite H1. f_equal. apply IHcur; auto. Qed.

Definition vfold (o : exop) (init : Vec) (G : list Vec) : Vec := fold_left (fun acc smp => vextreme ROps o smp acc) G init.
Lemma vfold_snoc o init G s : vfold o init (G ++ [s]) = vextreme ROps o s (vfold o init G).
Proof. unfold vfold. rewrite fold_left_app. reflexivity. Qed.

(* ------------------------------------------------------------------ the invariant of one Extreme measure *)
Section One.
Variable E : Env.
Variable x : Extm.
Let D := vdep (x_src x).
Let cur := veval ROps (x_src x) (e_t E).

Record XI (init : Vec) (G : list Vec) : Prop := mkXI {
  xi_dv : x_dv x = vfold (x_op x) init G;
  xi_len : length (x_dv x) = length (x_src x);
  xi_flag : oku E D (x_newupd x) (fun b => b = any_new ROps (x_op x) cur (x_dv x));
  xi_upd : oku E D (x_upd x) (fun v => v = vextreme ROps (x_op x) cur (x_dv x) /\ fresh E D (x_newupd x) /\ ce_val (x_newupd x) = true);
  xi_conv : fresh E D (x_newupd x) -> ce_val (x_newupd x) = true -> fresh E D (x_upd x) }.
End One.

Lemma XI_after (E E' : Env) g x init G : env_wf E -> env_after E g E' -> XI E x init G -> XI E' x init G.
Proof. intros W Aft [Hdv Hlen Hfl Hup Hcv].
  pose proof (vdep_le4 (x_src x)) as D4.
  assert (Cur : vdep (x_src x) < g -> veval ROps (x_src x) (e_t E') = veval ROps (x_src x) (e_t E)).
  { intros Dg. destruct (Nat.le_gt_cases g 4) as [G4|G4].
    - apply veval_time_indep. lia.
    - destruct Aft as (_ & _ & Ht). rewrite Ht; auto. }
  constructor; auto.
  - eapply oku_after; eauto; try lia. intros Dg a ->. rewrite Cur; auto.
  - eapply oku_after; eauto; try lia. intros Dg a (-> & F & V). rewrite Cur; auto. split; auto. split; auto.
    eapply fresh_after_back; eauto.
  - intros F V. assert (D10 : vdep (x_src x) <= 10) by lia.
    destruct (fresh_after E E' g (vdep (x_src x)) (x_newupd x) W D10 Aft (proj1 Hfl) (fun F0 => proj1 (proj2 Hfl F0)) F) as [F0 Dg].
    eapply fresh_after_back; eauto. Qed.

Lemma XI_set_stage (E : Env) g x init G : e_stage E <= g -> XI E x init G -> XI (set_stage E g) x init G.
Proof. intros L [Hdv Hlen Hfl Hup Hcv]. constructor; auto.
  - destruct Hfl as [A B]. split; auto. intros F. destruct (B F). split; auto. simpl. lia.
  - destruct Hup as [A B]. split; auto. intros F. destruct (B F). split; auto. simpl. lia. Qed.

(** ensureExtremeHasBeenUpdated *)
Lemma x_ensure_spec (E : Env) x init G : XI E x init G -> vdep (x_src x) <= e_stage E ->
  let cur := veval ROps (x_src x) (e_t E) in
  let r := x_ensure ROps E x in
  XI E (snd r) init G /\ fst r = any_new ROps (x_op x) cur (x_dv x) /\ x_dv (snd r) = x_dv x /\
  x_op (snd r) = x_op x /\ x_src (snd r) = x_src x /\ x_dvt (snd r) = x_dvt x /\
  (fst r = true -> valid E (vdep (x_src x)) (x_upd (snd r)) = true /\
                   ce_val (x_upd (snd r)) = vextreme ROps (x_op x) cur (x_dv x)).
Proof. intros [Hdv Hlen Hfl Hup Hcv] S cur r. unfold r, x_ensure.
  destruct (valid E (vdep (x_src x)) (x_newupd x)) eqn:V.
  - apply valid_fresh in V. destruct V as [_ F]. cbn [fst snd].
    destruct (proj2 Hfl F) as [_ Pf]. split; [constructor; auto|]. split; [exact Pf|].
    do 4 (split; [reflexivity|]). intros H. split.
    + apply valid_fresh. split; auto.
    + destruct (proj2 Hup (Hcv F H)) as [_ (Pv & _)]. exact Pv.
  - fold cur. destruct (any_new ROps (x_op x) cur (x_dv x)) eqn:AN; cbn [fst snd x_dv x_op x_src x_dvt x_upd x_newupd].
    + split.
      * constructor; cbn [x_dv x_op x_src x_upd x_newupd]; [exact Hdv | exact Hlen | | | ].
        -- split; [intros _; simpl; lia|]. intros _. split; auto.
        -- split; [intros _; simpl; lia|]. intros _. split; auto. split; auto. split; [|reflexivity]. split; reflexivity.
        -- intros _ _. split; reflexivity.
      * split; [reflexivity|]. do 4 (split; [reflexivity|]). intros _. split; [|reflexivity].
        apply valid_fresh. split; auto. split; reflexivity.
    + split.
      * constructor; cbn [x_dv x_op x_src x_upd x_newupd]; [exact Hdv | exact Hlen | | | ].
        -- split; [intros _; simpl; lia|]. intros _. split; auto.
        -- destruct Hup as [A B]. split; auto. intros F. destruct (B F) as [_ (_ & F2 & _)].
           exfalso. assert (V2 : valid E (vdep (x_src x)) (x_newupd x) = true) by (apply valid_fresh; auto). congruence.
        -- intros _ Tr. simpl in Tr. discriminate.
      * split; [reflexivity|]. do 4 (split; [reflexivity|]). discriminate. Qed.

(** autoUpdateDiscreteVariables on this measure's two variables *)
Lemma x_auto_fields (E : Env) (x : Extm) :
  let D := vdep (x_src x) in
  x_op (x_auto E x) = x_op x /\ x_src (x_auto E x) = x_src x /\
  x_dv (x_auto E x) = (if valid E D (x_upd x) then ce_val (x_upd x) else x_dv x) /\
  x_upd (x_auto E x) = (if valid E D (x_upd x) then invalidate (mkCe (x_dv x) (ce_ver (x_upd x)) (ce_ok (x_upd x))) else x_upd x) /\
  x_newupd (x_auto E x) = (if valid E D (x_newupd x) then invalidate (mkCe (x_new x) (ce_ver (x_newupd x)) (ce_ok (x_newupd x))) else x_newupd x).
Proof. unfold x_auto. destruct (valid E (vdep (x_src x)) (x_upd x)); destruct (valid E (vdep (x_src x)) (x_newupd x)); simpl; auto. Qed.

Lemma x_auto_spec (E : Env) x init G : XI E x init G ->
  XI E (x_auto E x) init (if valid E (vdep (x_src x)) (x_newupd x) then G ++ [veval ROps (x_src x) (e_t E)] else G) /\
  x_op (x_auto E x) = x_op x /\ x_src (x_auto E x) = x_src x.
Proof. intros [Hdv Hlen Hfl Hup Hcv].
  destruct (x_auto_fields E x) as (Fo & Fs & Fd & Fu & Fn). split; [|split; auto].
  set (D := vdep (x_src x)) in *. set (cur := veval ROps (x_src x) (e_t E)) in *.
  assert (NF : forall A (c : ce A), ~ fresh E D (invalidate c)) by (intros A c [_ O]; simpl in O; discriminate).
  assert (OK0 : forall A (c : ce A) P, oku E D (invalidate c) P).
  { intros A c P. split; [simpl; discriminate|]. intros F. destruct (NF _ _ F). }
  destruct (valid E D (x_newupd x)) eqn:Vn.
  - apply valid_fresh in Vn. destruct Vn as [S Fnw]. destruct (proj2 Hfl Fnw) as [_ Pf].
    destruct (valid E D (x_upd x)) eqn:Vu.
    + apply valid_fresh in Vu. destruct Vu as [_ Fup]. destruct (proj2 Hup Fup) as [_ (Pv & _)].
      constructor; rewrite ?Fo, ?Fs, ?Fd, ?Fu, ?Fn; fold D; fold cur.
      * rewrite vfold_snoc, <- Hdv. exact Pv.
      * rewrite Pv. rewrite vextreme_length; auto. unfold cur. rewrite veval_length. lia.
      * apply OK0.
      * apply OK0.
      * intros F. destruct (NF _ _ F).
    + assert (AN : any_new ROps (x_op x) cur (x_dv x) = false).
      { destruct (ce_val (x_newupd x)) eqn:Fl; [|congruence].
        exfalso. assert (valid E D (x_upd x) = true) by (apply valid_fresh; split; auto). congruence. }
      assert (NFu : ~ fresh E D (x_upd x)).
      { intros F. assert (valid E D (x_upd x) = true) by (apply valid_fresh; split; auto). congruence. }
      constructor; rewrite ?Fo, ?Fs, ?Fd, ?Fu, ?Fn; fold D; fold cur.
      * rewrite vfold_snoc, <- Hdv. symmetry. apply vextreme_no_new; auto. unfold cur. rewrite veval_length. lia.
      * exact Hlen.
      * apply OK0.
      * destruct Hup as [A B]. split; auto. intros F. destruct (NFu F).
      * intros F. destruct (NF _ _ F).
  - assert (Vu : valid E D (x_upd x) = false).
    { destruct (valid E D (x_upd x)) eqn:Vu; auto. apply valid_fresh in Vu. destruct Vu as [S Fup].
      destruct (proj2 Hup Fup) as [_ (_ & Fnw & _)].
      assert (valid E D (x_newupd x) = true) by (apply valid_fresh; split; auto). congruence. }
    rewrite Vu in *. constructor; rewrite ?Fo, ?Fs, ?Fd, ?Fu, ?Fn; auto. Qed.

(* ------------------------------------------------------------------ the whole state *)
Section Cfg.
Variable fx : bool.
Lemma nth_error_map' {A B} (f : A -> B) (l : list A) : forall j, nth_error (map f l) j = option_map f (nth_error l j).
Proof. induction l; destruct j; simpl; auto. Qed.
Lemma nth_error_upd_nth {A} (f : A -> A) (l : list A) : forall i j,
  nth_error (upd_nth i f l) j = if Nat.eqb i j then option_map f (nth_error l j) else nth_error l j.
Proof. induction l as [|a r IH]; intros i j.
  - destruct i, j; simpl; auto; destruct (Nat.eqb i j); reflexivity.
  - destruct i, j; simpl; auto. Qed.

Definition xmach (s : St) (j : nat) : option Extm :=
  match nth_error (s_machs s) j with Some (MX x) => Some x | _ => None end.

(** operations the theorem admits: everything except the initialization event and Extreme::setValue on this measure *)
Definition x_allowed (j : nat) (o : Op) : Prop :=
  match o with Init => False | SetExt j' _ => j' <> j | _ => True end.

(** the ghost history: a sample is recorded when the auto-update runs in a state where the measure has been evaluated *)
Definition ghost_step (s : St) (j : nat) (o : Op) (G : list Vec) : list Vec :=
  match o, xmach s j with
  | AutoUpd, Some x => if valid (s_env s) (vdep (x_src x)) (x_newupd x) then G ++ [veval ROps (x_src x) (e_t (s_env s))] else G
  | _, _ => G
  end.

Definition XS (s : St) (j : nat) (o : exop) (src : @vsrc R) (init : Vec) (G : list Vec) : Prop :=
  env_wf (s_env s) /\ exists x, xmach s j = Some x /\ x_op x = o /\ x_src x = src /\ XI (s_env s) x init G.

Lemma XI_set_var (E : Env) i v x init G : env_wf E -> XI E x init G -> XI (set_var E i v) x init G.
Proof. intros W H. unfold set_var. destruct (nth_error (e_vars E) i) as [[v0 g]|]; auto.
  eapply (XI_after E _ g); [exact W| |exact H]. split; [|split]; simpl; auto. intros _. apply inval_t. Qed.

Lemma xmach_env (s : St) E' j : xmach (mkSt E' (s_trees s) (s_machs s)) j = xmach s j. Proof. reflexivity. Qed.

Ltac xs_keep := split; [assumption|]; split; [assumption|]; split; [assumption|].
Lemma step_XS (s : St) j o src init G (op : Op) : XS s j o src init G -> x_allowed j op ->
  XS (fst (step ROps fx s op)) j o src init (ghost_step s j op G).
Proof. intros (W & x & Hx & Ho & Hs & HI) Al.
  assert (Nx : nth_error (s_machs s) j = Some (MX x)).
  { unfold xmach in Hx. destruct (nth_error (s_machs s) j) as [[x'|d|f]|]; try discriminate. congruence. }
  destruct op as [t|g| |g| |i v|j' v|i path k|j'|j']; simpl in Al; unfold ghost_step; try rewrite Hx.
  - (* SetTime *) simpl. split; [apply inval_wf; auto|]. exists x. xs_keep.
    eapply (XI_after (s_env s)); [exact W | apply env_after_set_time | exact HI].
  - (* Realize *) cbv beta iota zeta delta [step]. destruct (g <=? e_stage (s_env s)) eqn:L.
    + split; auto. exists x. auto.
    + apply Nat.leb_gt in L.
      destruct ((e_stage (s_env s) <? 8) && (8 <=? g)) eqn:B; cbn [fst s_env]; (split; [exact W|]).
      * apply andb_true_iff in B. destruct B as [B1 B2]. apply Nat.ltb_lt in B1. apply Nat.leb_le in B2.
        assert (H7 : XI (set_stage (s_env s) 7) x init G) by (apply XI_set_stage; auto; lia).
        destruct (x_ensure_spec _ x init G H7) as (H8 & _ & _ & Eo & Es & _).
        { cbn [set_stage e_stage]. pose proof (vdep_le4 (x_src x)). lia. }
        exists (snd (x_ensure ROps (set_stage (s_env s) 7) x)). split.
        { unfold xmach. cbn [s_machs]. rewrite nth_error_map', Nx. reflexivity. }
        split; [congruence|]. split; [congruence|].
        apply (XI_set_stage (set_stage (s_env s) 7) g) in H8; [exact H8 | cbn [set_stage e_stage]; lia].
      * exists x. xs_keep. apply XI_set_stage; auto. lia.
  - (* AutoUpd *) simpl. split; auto. rewrite <- Hs. destruct (x_auto_spec (s_env s) x init G HI) as (H1 & Eo & Es).
    exists (x_auto (s_env s) x). split.
    { unfold xmach. simpl. rewrite nth_error_map', Nx. reflexivity. }
    split; [congruence|]. split; [congruence|]. exact H1.
  - (* Inval *) simpl. split; [apply inval_wf; auto|]. exists x. xs_keep.
    eapply (XI_after (s_env s)); [exact W | apply env_after_inval | exact HI].
  - destruct Al.
  - (* SetVar *) simpl. split; [apply set_var_wf; auto|]. exists x. xs_keep. apply XI_set_var; auto.
  - (* SetExt on another machine *) simpl. destruct (nth_error (s_machs s) j') as [[x'|d|f]|] eqn:N'; simpl;
      try (split; auto; exists x; auto; fail).
    split; [apply inval_wf; auto|]. exists x. split.
    { unfold xmach. simpl. rewrite nth_error_upd_nth. replace (j' =? j) with false by (symmetry; apply Nat.eqb_neq; auto).
      rewrite Nx. reflexivity. }
    split; [assumption|]. split; [assumption|]. eapply (XI_after (s_env s)); [exact W | apply (env_after_inval _ 7) | exact HI].
  - (* GetT *) simpl. destruct (nth_error (s_trees s) i) as [m|]; simpl; [|split; auto; exists x; auto].
    destruct (tget_at ROps (s_env s) path k m) as [[v m']|]; simpl; split; auto; exists x; auto.
  - (* GetM *) simpl. destruct (nth_error (s_machs s) j') as [mm|] eqn:N'; simpl; [|split; auto; exists x; auto].
    destruct (negb (mach_dep mm <=? e_stage (s_env s))) eqn:Gd; simpl; [split; auto; exists x; auto|].
    apply negb_false_iff, Nat.leb_le in Gd.
    destruct (Nat.eq_dec j' j) as [->|Nj].
    + rewrite Nx in N'. injection N' as <-. simpl in Gd.
      destruct (x_ensure_spec _ x init G HI Gd) as (H8 & _ & _ & Eo & Es & _).
      destruct (x_ensure ROps (s_env s) x) as [fd x'] eqn:En. simpl in *. split; auto. exists x'. split.
      { unfold xmach. simpl. rewrite nth_error_upd_nth, Nat.eqb_refl, Nx. reflexivity. }
      split; [congruence|]. split; [congruence|]. exact H8.
    + assert (Keep : forall f0, xmach (mkSt (s_env s) (s_trees s) (upd_nth j' f0 (s_machs s))) j = Some x).
      { intros f0. unfold xmach. simpl. rewrite nth_error_upd_nth.
        replace (j' =? j) with false by (symmetry; apply Nat.eqb_neq; auto). rewrite Nx. reflexivity. }
      destruct mm as [x'|d|f]; simpl.
      * destruct (x_ensure ROps (s_env s) x') as [fd x'']. simpl. split; auto. exists x. split; [apply Keep|]. auto.
      * destruct (d_get ROps (s_env s) d) as [v d']. simpl. split; auto. exists x. split; [apply Keep|]. auto.
      * split; auto. exists x. split; [apply Keep|]. auto.
  - (* GetMT *) simpl. destruct (nth_error (s_machs s) j') as [[x'|d|f]|] eqn:N'; simpl; try (split; auto; exists x; auto; fail).
    destruct (negb (vdep (x_src x') <=? e_stage (s_env s))) eqn:Gd; simpl; [split; auto; exists x; auto|].
    apply negb_false_iff, Nat.leb_le in Gd.
    destruct (Nat.eq_dec j' j) as [->|Nj].
    + rewrite Nx in N'. injection N' as <-.
      destruct (x_ensure_spec _ x init G HI Gd) as (H8 & _ & _ & Eo & Es & _).
      destruct (x_ensure ROps (s_env s) x) as [fd x''] eqn:En. simpl in *. split; auto. exists x''. split.
      { unfold xmach. simpl. rewrite nth_error_upd_nth, Nat.eqb_refl, Nx. reflexivity. }
      split; [congruence|]. split; [congruence|]. exact H8.
    + destruct (x_ensure ROps (s_env s) x') as [fd x'']. simpl. split; auto. exists x. split; auto.
      unfold xmach. simpl. rewrite nth_error_upd_nth.
      replace (j' =? j) with false by (symmetry; apply Nat.eqb_neq; auto). rewrite Nx. reflexivity. Qed.

Lemma step_X_obs (s : St) j o src init G : XS s j o src init G -> vdep src <= e_stage (s_env s) ->
  snd (step ROps fx s (GetM j)) = OVal (vfold o init (G ++ [veval ROps src (e_t (s_env s))])).
Proof. intros (W & x & Hx & Ho & Hs & HI) Gd.
  assert (Nx : nth_error (s_machs s) j = Some (MX x)).
  { unfold xmach in Hx. destruct (nth_error (s_machs s) j) as [[x'|d|f]|]; try discriminate. congruence. }
  subst o src.
  cbv beta iota zeta delta [step]. rewrite Nx. cbn [mach_dep].
  replace (vdep (x_src x) <=? e_stage (s_env s)) with true by (symmetry; apply Nat.leb_le; auto). cbn [negb].
  destruct (x_ensure_spec _ x init G HI Gd) as (H8 & Fd & Dv & Eo & Es & _ & Tr).
  destruct (x_ensure ROps (s_env s) x) as [fd x'] eqn:En. cbn [fst snd] in *.
  rewrite vfold_snoc, <- (xi_dv _ _ _ _ HI).
  destruct fd.
  - destruct (Tr eq_refl) as [V Val]. rewrite V. cbn [snd]. rewrite Val. reflexivity.
  - cbn [snd]. rewrite Dv. f_equal. symmetry. apply vextreme_no_new; auto.
    rewrite veval_length. symmetry. apply (xi_len _ _ _ _ HI). Qed.

(** the claim about a whole run: every evaluation of measure j (issued where the code's stage check passes) returns the
    fold over the initial value, the recorded samples and the current operand value *)
Fixpoint x_run_ok (s : St) j o src init (G : list Vec) (ops : list Op) : Prop :=
  match ops with
  | [] => True
  | op :: r =>
      (op = GetM j -> vdep src <= e_stage (s_env s) ->
       snd (step ROps fx s op) = OVal (vfold o init (G ++ [veval ROps src (e_t (s_env s))]))) /\
      x_run_ok (fst (step ROps fx s op)) j o src init (ghost_step s j op G) r
  end.

Lemma extreme_is_fold (s : St) j o src init G (ops : list Op) :
  XS s j o src init G -> Forall (x_allowed j) ops -> x_run_ok s j o src init G ops.
Proof. revert s G. induction ops as [|op r IH]; intros s G H Al; simpl; auto.
  inversion Al as [|? ? A1 A2]; subst. split.
  - intros -> Gd. apply step_X_obs; auto.
  - apply IH; auto. apply step_XS; auto. Qed.

(** a freshly constructed measure (realizeTopology) satisfies the invariant, with empty history *)
Lemma XS_init t vars trees machs j o src init :
  nth_error machs j = Some (MX (mk_ext o src init)) -> length init = length src ->
  XS (mkSt (env0 t vars) trees machs) j o src init [].
Proof. intros N L. split; [reflexivity|]. exists (mk_ext o src init). split; [unfold xmach; simpl; rewrite N; reflexivity|].
  split; [reflexivity|]. split; [reflexivity|].
  assert (NF : forall A (v : A), ~ fresh (env0 t vars) (vdep src) (ce0 v)).
  { intros A v [F _]. pose proof (vdep_le4 src) as D4. remember (vdep src) as D eqn:HD. clear HD.
    unfold ver_at, env0, ce0 in F. cbn [e_ver ce_ver] in F.
    do 5 (destruct D as [|D]; [simpl in F; discriminate|]). lia. }
  constructor; unfold mk_ext; cbn [x_dv x_op x_src x_upd x_newupd]; [reflexivity | exact L | | | ].
  - split; [simpl; lia|]. intros F. destruct (NF _ _ F).
  - split; [simpl; lia|]. intros F. destruct (NF _ _ F).
  - intros F. destruct (NF _ _ F). Qed.

(** Extreme::setValue (and the initialization event, which calls it with the current operand value) restarts the history
    -- in the code as it is ([fx = false]) only provided the measure has not been evaluated in the current state (its
    isNewExtreme entry is not current); with the proposed repair ([fx = true]) always *)
Lemma XI_x_set (E : Env) x init G v : env_wf E -> XI E x init G ->
  (fx = false -> ~ fresh (inval E 7) (vdep (x_src x)) (x_newupd x)) -> length v = length (x_src x) ->
  XI (inval E 7) (x_set fx (inval E 7) x v) v [].
Proof. intros W H NF L.
  assert (H' : XI (inval E 7) x init G) by (eapply (XI_after E); [exact W | apply env_after_inval | exact H]).
  destruct H' as [Hdv Hlen Hfl Hup Hcv]. constructor; cbn [x_set x_dv x_op x_src x_upd x_newupd]; auto.
  - destruct fx.
    + split; [simpl; discriminate|]. intros [_ O]. simpl in O. discriminate.
    + destruct Hfl as [A B]. split; auto. intros F. destruct (NF eq_refl F).
  - split; [simpl; discriminate|]. intros [_ O]. simpl in O. discriminate.
  - destruct fx; intros F; [destruct F as [_ O]; simpl in O; discriminate | destruct (NF eq_refl F)]. Qed.

End Cfg.

(** with the repair of patches/C23_extreme_setvalue.diff ([fx = true]) Extreme::setValue is admissible in every state: it
    restarts the history with the given value *)
Lemma setvalue_restarts_history_when_repaired (s : St) j o src init G v :
  XS s j o src init G -> length v = length src ->
  XS (fst (step ROps true s (SetExt j v))) j o src v [].
Proof. intros (W & x & Hx & Ho & Hs & HI) L.
  assert (Nx : nth_error (s_machs s) j = Some (MX x)).
  { unfold xmach in Hx. destruct (nth_error (s_machs s) j) as [[x'|d|f]|]; try discriminate. congruence. }
  cbv beta iota zeta delta [step]. rewrite Nx. cbn [fst s_env].
  split; [apply inval_wf; auto|]. exists (x_set true (inval (s_env s) 7) x v). split.
  { unfold xmach. cbn [s_machs]. rewrite nth_error_upd_nth, Nat.eqb_refl, Nx. reflexivity. }
  split; [exact Ho|]. split; [exact Hs|].
  apply (XI_x_set true (s_env s) x init G v); auto; [discriminate | congruence]. Qed.

(* ------------------------------------------------------------------ what the fold is *)
Local Open Scope R_scope.
Definition key (o : exop) (x : R) : R :=
  match o with Minimum => x | Maximum => - x | MinAbs => Rabs x | MaxAbs => - Rabs x end.
Lemma is_new_key o a b : is_new ROps o a b = true <-> key o a < key o b.
Proof. destruct o; simpl; rewrite Rltb_true; lra. Qed.
Lemma is_new_key_false o a b : is_new ROps o a b = false <-> key o b <= key o a.
Proof. destruct o; simpl; rewrite Rltb_false; lra. Qed.

Definition sfold (o : exop) (init : R) (l : list R) : R := fold_left (fun acc s => extreme_of ROps o s acc) l init.

(** the fold returns one of the values it was given (so MinAbs/MaxAbs return the SIGNED sample), and no given value is
    more extreme *)
Lemma fold_is_extreme o l : forall init, In (sfold o init l) (init :: l) /\ forall s, In s (init :: l) -> key o (sfold o init l) <= key o s.
Proof. induction l as [|a l IH]; intros init.
  - simpl. split; auto. intros s [<-|[]]. lra.
  - change (sfold o init (a :: l)) with (sfold o (extreme_of ROps o a init) l).
    destruct (IH (extreme_of ROps o a init)) as [I1 I2].
    assert (K : key o (extreme_of ROps o a init) <= key o a /\ key o (extreme_of ROps o a init) <= key o init).
    { unfold extreme_of. destruct (is_new ROps o a init) eqn:N.
      - apply is_new_key in N. lra.
      - apply is_new_key_false in N. lra. }
    split.
    + destruct I1 as [I1|I1]; [|right; right; exact I1].
      rewrite <- I1. unfold extreme_of. destruct (is_new ROps o a init); simpl; auto.
    + intros s [<-|[<-|Hs]].
      * pose proof (I2 _ (or_introl eq_refl)). lra.
      * pose proof (I2 _ (or_introl eq_refl)). lra.
      * apply I2. right. exact Hs. Qed.

(** ties keep the earlier sample: a later sample replaces the current extreme only if it is strictly more extreme *)
Lemma fold_keeps_first o l init : (forall s, In s l -> key o init <= key o s) -> sfold o init l = init.
Proof. induction l as [|a l IH]; intros H; auto.
  change (sfold o init (a :: l)) with (sfold o (extreme_of ROps o a init) l).
  assert (N : is_new ROps o a init = false) by (apply is_new_key_false, H; left; auto).
  unfold extreme_of. rewrite N. apply IH. intros s Hs. apply H. right; auto. Qed.

(** element i of the vector fold is the scalar fold of the element-i samples *)
Lemma nth_vextreme o (d : R) : forall (cur prev : Vec) i, length cur = length prev -> (i < length prev)%nat ->
  nth i (vextreme ROps o cur prev) d = extreme_of ROps o (nth i cur d) (nth i prev d).
Proof. induction cur; destruct prev; intros i L Hi; simpl in *; try discriminate; try lia.
  destruct i; auto. apply IHcur; lia. Qed.
Lemma vfold_nth o (d : R) : forall (G : list Vec) init i, (forall s, In s G -> length s = length init) -> (i < length init)%nat ->
  nth i (vfold o init G) d = sfold o (nth i init d) (map (fun s => nth i s d) G).
Proof. induction G as [|s G IH]; intros init i HL Hi; auto.
  change (vfold o init (s :: G)) with (vfold o (vextreme ROps o s init) G).
  change (sfold o (nth i init d) (map (fun s0 => nth i s0 d) (s :: G)))
    with (sfold o (extreme_of ROps o (nth i s d) (nth i init d)) (map (fun s0 => nth i s0 d) G)).
  assert (Ls : length s = length init) by (apply HL; left; auto).
  rewrite IH.
  - rewrite nth_vextreme; auto.
  - intros s' Hs'. rewrite vextreme_length; auto. apply HL. right; auto.
  - rewrite vextreme_length; auto. Qed.

(* ------------------------------------------------------------------ example and refutation *)
Ltac rl_true a b := replace (Rltb a b) with true by (symmetry; apply Rltb_true; lra).
Ltac rl_false a b := replace (Rltb a b) with false by (symmetry; apply Rltb_false; lra).

(** non-vacuity of [extreme_is_fold]: Maximum of the time measure, initial value 0, evaluated at t=1, auto-updated, time
    set BACK to 1/2: the maximum is still 1 *)
Example extreme_is_fold_example :
  let s := mkSt (env0 1 []) [] [MX (mk_ext Maximum [PTime] [0])] in
  let ops := [Realize 8; AutoUpd; SetTime (1/2); Realize 8; GetM 0] in
  XS s 0%nat Maximum [PTime] [0] [] /\ Forall (x_allowed 0) ops /\
  nth_error (snd (run ROps false s ops)) 4 = Some (OVal [1]).
Proof. intros s ops. split; [apply XS_init; reflexivity|]. split; [repeat constructor|].
  unfold s, ops. rcbv. rl_true 0 1. rcbv. rl_false 1 (1/2). rcbv. reflexivity. Qed.

(** Extreme::setValue after the measure has been evaluated at the current time: the stale isNewExtreme flag makes getValue
    throw (flag true) or ignore the current operand value (flag false) -- known finding extreme-setvalue-keeps-stale-new-extreme-flag *)
Lemma extreme_setvalue_refuted :
  (exists (s : St) (ops : list Op), XS s 0%nat Maximum [PTime] [0] [] /\
     nth_error (snd (run ROps false s ops)) 3 = Some OThrow) /\
  (exists (s : St) (ops : list Op), XS s 0%nat Maximum [PTime] [10] [] /\
     nth_error (snd (run ROps false s ops)) 3 = Some (OVal [-5]) /\ vfold Maximum [-5] [[1]] = [1]).
Proof. split.
  - exists (mkSt (env0 1 []) [] [MX (mk_ext Maximum [PTime] [0])]).
    exists ([Realize 8; SetExt 0 [10]; Realize 8; GetM 0]).
    split; [apply XS_init; reflexivity|]. rcbv. rl_true 0 1. rcbv. reflexivity.
  - exists (mkSt (env0 1 []) [] [MX (mk_ext Maximum [PTime] [10])]).
    exists ([Realize 8; SetExt 0 [-5]; Realize 8; GetM 0]).
    split; [apply XS_init; reflexivity|]. split.
    + rcbv. rl_false 10 1. rcbv. reflexivity.
    + rcbv. rl_true (-5) 1. reflexivity. Qed.
