(** C23: executable model of the built-in Measures (SimTKcommon/Simulation: MeasureImplementation.h, Measure.h,
    with the part of StateImpl.h / State.cpp they run on), hand-written from the source, Release (NDEBUG)
    semantics.  No proofs here.  Tied to the code by the correspondence runs of checks/C23.py (extracted to OCaml
    with the float NumOps, run on literally the same operation sequences as the real State / real integrators).

    Layer 0  [env]   : time, current stage, stage versions (one subsystem: System::realize / invalidateAll move all
                       subsystems together), Measure::Variable values with their "invalidates" stage.
    Layer 1  [mtree] : Constant / Time / Variable / Sinusoid / Plus / Minus / Scale measure trees WITH their lazy cache
                       entries (value, depends-on version when computed, up-to-date flag), Measure_<T>::getValue.
    Layer 2  [mach]  : Extreme (Minimum/Maximum/MinAbs/MaxAbs, vector valued), Delay (buffer, pruning, linear
                       inter/extrapolation, lazy value cache entry), Differentiate (finite-difference mode) as state
                       machines over (auto-update discrete variable, update cache entry); their operands are pure
                       functions of time ([pexpr], the denotation of a layer-1 tree without variables).
    Spec only        : Integrate (z, zdot := integrand), SampleAndHold (declared in Measure.h, NOT implemented there).

    Stages: Empty=0 Topology=1 Model=2 Instance=3 Time=4 Position=5 Velocity=6 Dynamics=7 Acceleration=8 Report=9
    Infinity=10 (as in coq/C18/C18_Model.v). *)
From Coq Require Import List Arith Bool PeanoNat ZArith.
Require Import Num.
Import ListNotations.

(* a cache entry as CacheEntryInfo sees it: value, m_dependsOnVersionWhenLastComputed, m_isUpToDateWithPrerequisites *)
Record ce (A : Type) := mkCe { ce_val : A; ce_ver : nat; ce_ok : bool }.
Arguments mkCe {A}. Arguments ce_val {A}. Arguments ce_ver {A}. Arguments ce_ok {A}.

Section Model.
Context {T : Type} (K : NumOps T).
(** [fx] selects between the code as it is now ([false]) and the repair proposed in patches/C23_extreme_setvalue.diff
    ([true]: Extreme::setValue also invalidates the isNewExtreme flag entry); the check decides which one the tree under test
    implements by replaying the witness of extreme_setvalue_refuted, so the same theorems serve before and after the repair. *)
Variable fx : bool.

Definition vec := list T.
Definition neqb (a b : T) : bool := nleb K a b && nleb K b a.

(* ------------------------------------------------------------------ layer 0: stage / version bookkeeping *)
Record env := mkEnv { e_t : T; e_stage : nat; e_ver : list nat; e_vars : list (T * nat) }.
Definition ver0 : list nat := repeat 1 11.
Definition ver_at (E : env) (g : nat) : nat := nth g (e_ver E) 0.

Fixpoint bump_range (lo hi : nat) (i : nat) (l : list nat) : list nat :=
  match l with
  | [] => []
  | v :: r => (if (lo <=? i) && (i <=? hi) then S v else v) :: bump_range lo hi (S i) r
  end.
(* StateImpl::invalidateAll(g) = PerSubsystemInfo::restoreToStage(g-1): versions of g..current are raised *)
Definition inval (E : env) (g : nat) : env :=
  if g <=? e_stage E then mkEnv (e_t E) (pred g) (bump_range g (e_stage E) 0 (e_ver E)) (e_vars E) else E.
Definition set_stage (E : env) (g : nat) : env := mkEnv (e_t E) g (e_ver E) (e_vars E).
Definition set_time (E : env) (x : T) : env := let E' := inval E 4 in mkEnv x (e_stage E') (e_ver E') (e_vars E').
Fixpoint set_nth {A} (i : nat) (x : A) (l : list A) : list A :=
  match l, i with [], _ => [] | _ :: r, O => x :: r | a :: r, S j => a :: set_nth j x r end.
Definition set_var (E : env) (i : nat) (x : T) : env :=
  match nth_error (e_vars E) i with
  | None => E
  | Some (_, g) => let E' := inval E g in mkEnv (e_t E') (e_stage E') (e_ver E') (set_nth i (x, g) (e_vars E'))
  end.

(* a cache entry as CacheEntryInfo sees it: value, m_dependsOnVersionWhenLastComputed, m_isUpToDateWithPrerequisites.
   All measure entries are lazy (computedBy = Infinity), so CacheEntryInfo::isUpToDate is the three-way test below. *)
Definition valid {A} (E : env) (D : nat) (c : ce A) : bool :=
  (D <=? e_stage E) && (ver_at E D =? ce_ver c) && ce_ok c.
Definition mark {A} (E : env) (D : nat) (v : A) : ce A := mkCe v (ver_at E D) true.
Definition invalidate {A} (c : ce A) : ce A := mkCe (ce_val c) 0 false.
Definition ce0 {A} (v : A) : ce A := mkCe v 0 true.          (* as allocated *)

(* ------------------------------------------------------------------ Sinusoid, orders 0..3 as written in the code *)
Definition sin_d (a w p : T) (k : nat) (t : T) : T :=
  let arg := nadd K (nmul K w t) p in
  match k with
  | 0 => nmul K a (nsin K arg)
  | 1 => nmul K (nmul K w a) (ncos K arg)
  | 2 => nmul K (nmul K (nmul K (nopp K w) w) a) (nsin K arg)
  | _ => nmul K (nmul K (nmul K (nmul K (nopp K w) w) w) a) (ncos K arg)
  end.

(* ------------------------------------------------------------------ pure time functions (operands of layer 2) *)
Inductive pexpr := PConst (c : T) | PTime | PSin (a w p : T) | PPlus (l r : pexpr) | PMinus (l r : pexpr) | PScale (f : T) (e : pexpr).
Fixpoint peval (e : pexpr) (t : T) : T :=
  match e with
  | PConst c => c | PTime => t | PSin a w p => sin_d a w p 0 t
  | PPlus l r => nadd K (peval l t) (peval r t) | PMinus l r => nsub K (peval l t) (peval r t)
  | PScale f e' => nmul K f (peval e' t)
  end.
Fixpoint pdep (e : pexpr) : nat :=
  match e with
  | PConst _ => 1 | PTime => 4 | PSin _ _ _ => 4
  | PPlus l r => Nat.max (pdep l) (pdep r) | PMinus l r => Nat.max (pdep l) (pdep r) | PScale _ e' => pdep e'
  end.
Definition vsrc := list pexpr.                                  (* a vector operand, one expression per element *)
Definition veval (s : vsrc) (t : T) : vec := map (fun e => peval e t) s.
(* a one-element operand is the scalar measure itself; a longer one is the harness' user-defined Time-stage measure *)
Definition vdep (s : vsrc) : nat := match s with [e] => pdep e | _ => 4 end.

(* ------------------------------------------------------------------ layer 1: measure trees with cache entries *)
Inductive mtree :=
| MConst (c : T) | MTime | MVar (i : nat)
| MSin (a w p : T) (c0 c1 c2 c3 : ce T)
| MPlus (l r : mtree) (c : ce T) | MMinus (l r : mtree) (c : ce T) | MScale (f : T) (e : mtree) (c : ce T).

(* getDependsOnStage(0) *)
Fixpoint dep (m : mtree) : nat :=
  match m with
  | MConst _ => 1 | MTime => 4 | MVar _ => 2 | MSin _ _ _ _ _ _ _ => 4
  | MPlus l r _ => Nat.max (dep l) (dep r) | MMinus l r _ => Nat.max (dep l) (dep r) | MScale _ e _ => dep e
  end.
(* getNumTimeDerivatives (None = unlimited) *)
Definition kmax (m : mtree) : option nat :=
  match m with MConst _ | MTime | MVar _ => None | MSin _ _ _ _ _ _ _ => Some 3 | _ => Some 0 end.
Definition k_ok (m : mtree) (k : nat) : bool := match kmax m with None => true | Some n => k <=? n end.
(* getDependsOnStage(k): Empty for the derivatives of Constant/Time/Variable *)
Definition dep_k (m : mtree) (k : nat) : nat :=
  match m, k with
  | MConst _, S _ => 0 | MTime, S _ => 0 | MVar _, S _ => 0
  | _, _ => dep m
  end.
Definition var_val (E : env) (i : nat) : T := match nth_error (e_vars E) i with Some (v, _) => v | None => (n0 K) end.

(* Measure_<T>::Implementation::getValue(s, 0) for the arithmetic nodes; (s, k) for the leaves *)
Definition get_ce (E : env) (D : nat) (c : ce T) (calc : T) : T * ce T :=
  if valid E D c then (ce_val c, c) else (calc, mark E D calc).
Fixpoint tget (E : env) (m : mtree) : T * mtree :=
  match m with
  | MConst c => (c, m)
  | MTime => (e_t E, m)
  | MVar i => (var_val E i, m)
  | MSin a w p c0 c1 c2 c3 => let '(v, c') := get_ce E 4 c0 (sin_d a w p 0 (e_t E)) in (v, MSin a w p c' c1 c2 c3)
  | MPlus l r c =>
      if valid E (dep m) c then (ce_val c, m)
      else let '(a, l') := tget E l in let '(b, r') := tget E r in
           let v := nadd K a b in (v, MPlus l' r' (mark E (dep m) v))
  | MMinus l r c =>
      if valid E (dep m) c then (ce_val c, m)
      else let '(a, l') := tget E l in let '(b, r') := tget E r in
           let v := nsub K a b in (v, MMinus l' r' (mark E (dep m) v))
  | MScale f e c =>
      if valid E (dep m) c then (ce_val c, m)
      else let '(a, e') := tget E e in
           let v := nmul K f a in (v, MScale f e' (mark E (dep m) v))
  end.
(* derivative order k >= 1 (only asked where k_ok) *)
Definition tget_k (E : env) (m : mtree) (k : nat) : T * mtree :=
  match k with
  | 0 => tget E m
  | S k' =>
    match m with
    | MTime => (match k' with 0 => (n1 K) | _ => (n0 K) end, m)
    | MSin a w p c0 c1 c2 c3 =>
        match k' with
        | 0 => let '(v, c') := get_ce E 4 c1 (sin_d a w p 1 (e_t E)) in (v, MSin a w p c0 c' c2 c3)
        | 1 => let '(v, c') := get_ce E 4 c2 (sin_d a w p 2 (e_t E)) in (v, MSin a w p c0 c1 c' c3)
        | _ => let '(v, c') := get_ce E 4 c3 (sin_d a w p 3 (e_t E)) in (v, MSin a w p c0 c1 c2 c')
        end
    | _ => (n0 K, m)
    end
  end.
(* a handle to an inner measure: false = left / only operand, true = right operand *)
Fixpoint tget_at (E : env) (path : list bool) (k : nat) (m : mtree) : option (T * mtree) :=
  match path with
  | [] => if k_ok m k && (pred (dep_k m k) <=? e_stage E) then Some (tget_k E m k) else None
  | b :: rest =>
    match m with
    | MPlus l r c => if b then option_map (fun '(v, r') => (v, MPlus l r' c)) (tget_at E rest k r)
                     else option_map (fun '(v, l') => (v, MPlus l' r c)) (tget_at E rest k l)
    | MMinus l r c => if b then option_map (fun '(v, r') => (v, MMinus l r' c)) (tget_at E rest k r)
                      else option_map (fun '(v, l') => (v, MMinus l' r c)) (tget_at E rest k l)
    | MScale f e c => if b then None else option_map (fun '(v, e') => (v, MScale f e' c)) (tget_at E rest k e)
    | _ => None
    end
  end.

(* ------------------------------------------------------------------ layer 2a: Extreme *)
Inductive exop := Minimum | Maximum | MinAbs | MaxAbs.
Definition is_new (o : exop) (newv old : T) : bool :=
  match o with
  | Maximum => nltb K old newv
  | Minimum => nltb K newv old
  | MaxAbs => nltb K (nabs K old) (nabs K newv)
  | MinAbs => nltb K (nabs K newv) (nabs K old)
  end.
Definition extreme_of (o : exop) (newv old : T) : T := if is_new o newv old then newv else old.
Fixpoint any_new (o : exop) (cur prev : vec) : bool :=
  match cur, prev with
  | c :: cs, p :: ps => is_new o c p || any_new o cs ps
  | _, _ => false
  end.
Fixpoint vextreme (o : exop) (cur prev : vec) : vec :=
  match cur, prev with
  | c :: cs, p :: ps => extreme_of o c p :: vextreme o cs ps
  | _, _ => []
  end.

Record extm := mkX { x_op : exop; x_src : vsrc;
                     x_dv : vec; x_dvt : option T; x_upd : ce vec;      (* extremeIx and its update entry *)
                     x_new : bool; x_newupd : ce bool }.                (* isNewExtremeIx and its update entry *)
(* ensureExtremeHasBeenUpdated *)
Definition x_ensure (E : env) (m : extm) : bool * extm :=
  let D := vdep (x_src m) in
  if valid E D (x_newupd m) then (ce_val (x_newupd m), m)
  else
    let cur := veval (x_src m) (e_t E) in
    let found := any_new (x_op m) cur (x_dv m) in
    let nu := mark E D found in
    if found then (true, mkX (x_op m) (x_src m) (x_dv m) (x_dvt m) (mark E D (vextreme (x_op m) cur (x_dv m))) (x_new m) nu)
    else (false, mkX (x_op m) (x_src m) (x_dv m) (x_dvt m) (x_upd m) (x_new m) nu).
(* StateImpl::autoUpdateDiscreteVariables on the two variables, in allocation order *)
Definition x_auto (E : env) (m : extm) : extm :=
  let D := vdep (x_src m) in
  let '(dv, dvt, upd) :=
     if valid E D (x_upd m) then (ce_val (x_upd m), Some (e_t E), invalidate (mkCe (x_dv m) (ce_ver (x_upd m)) (ce_ok (x_upd m))))
     else (x_dv m, x_dvt m, x_upd m) in
  let '(nw, nupd) :=
     if valid E D (x_newupd m) then (ce_val (x_newupd m), invalidate (mkCe (x_new m) (ce_ver (x_newupd m)) (ce_ok (x_newupd m))))
     else (x_new m, x_newupd m) in
  mkX (x_op m) (x_src m) dv dvt upd nw nupd.
(* Extreme::setValue = updDiscreteVariable(extremeIx): invalidates Dynamics (done by the caller on env) and the
   variable's own update entry -- not the isNewExtreme entry *)
Definition x_set (E : env) (m : extm) (v : vec) : extm :=
  mkX (x_op m) (x_src m) v (Some (e_t E)) (invalidate (x_upd m)) (x_new m)
      (if fx then invalidate (x_newupd m) else x_newupd m).

(* ------------------------------------------------------------------ layer 2b: Delay *)
Definition entry := (T * vec)%type.
Definition buffer := list entry.                        (* oldest first; the array/capacity management is not modelled *)
Fixpoint find_first_later_or_eq (b : buffer) (td : T) : option nat :=     (* first i with time_i >= td *)
  match b with
  | [] => None
  | (ti, _) :: r => if nleb K td ti then Some 0 else option_map S (find_first_later_or_eq r td)
  end.
(* number of leading entries up to and including the last one with time < t  (= findLastEarlier + 1) *)
Fixpoint count_to_last_earlier (b : buffer) (t : T) : nat :=
  match b with
  | [] => 0
  | (ti, _) :: r => match count_to_last_earlier r t with
                    | S n => S (S n)
                    | 0 => if nltb K ti t then 1 else 0
                    end
  end.
Definition count_unneeded (b : buffer) (tEarliest : T) : nat :=
  match find_first_later_or_eq b tEarliest with Some i => i - 2 | None => 0 end.
(* Measure_Delay_Buffer::copyInAndUpdate *)
Definition copy_in_and_update (old : buffer) (tEarliest tNow : T) (vNow : vec) : buffer :=
  let first := count_unneeded old tEarliest in
  let lastp1 := count_to_last_earlier old tNow in
  firstn (lastp1 - first) (skipn first old) ++ [(tNow, vNow)].
Definition vlerp (fr : T) (v0 v1 : vec) : vec :=
  map (fun ab => nadd K (fst ab) (nmul K fr (nsub K (snd ab) (fst ab)))) (combine v0 v1).
Definition lerp_entries (e0 e1 : entry) (td : T) : vec :=
  let fr := ndiv K (nsub K td (fst e0)) (nsub K (fst e1) (fst e0)) in vlerp fr (snd e0) (snd e1).
Definition dflt_entry : entry := (n0 K, []).
(* Measure_Delay_Buffer::calcValueAtTimeLinearOnly; None = empty buffer (NaN) *)
Definition calc_value_at (b : buffer) (td : T) : option vec :=
  match b with
  | [] => None
  | _ =>
    match find_first_later_or_eq b td with
    | Some (S i) => Some (lerp_entries (nth i b dflt_entry) (nth (S i) b dflt_entry) td)
    | Some 0 => Some (snd (nth 0 b dflt_entry))
    | None =>
        match length b with
        | 1 => Some (snd (nth 0 b dflt_entry))
        | n => Some (lerp_entries (nth (n - 2) b dflt_entry) (nth (n - 1) b dflt_entry) td)
        end
    end
  end.

Record delm := mkD { d_src : vsrc; d_delay : T;
                     d_buf : buffer; d_upd : ce buffer;              (* m_bufferIx and its update entry (Time) *)
                     d_val : ce (option vec) }.                      (* the base-class value cache entry (lazy, Time) *)
(* Delay::updateBuffer (realizeMeasureAccelerationVirtual): recomputed on every Acceleration realization *)
Definition d_update (E : env) (m : delm) : delm :=
  let t := e_t E in
  mkD (d_src m) (d_delay m) (d_buf m)
      (mark E 4 (copy_in_and_update (d_buf m) (nsub K t (d_delay m)) t (veval (d_src m) t))) (d_val m).
Definition d_auto (E : env) (m : delm) : delm :=
  if valid E 4 (d_upd m)
  then mkD (d_src m) (d_delay m) (ce_val (d_upd m)) (invalidate (mkCe (d_buf m) (ce_ver (d_upd m)) (ce_ok (d_upd m)))) (d_val m)
  else m.
(* Measure_<T>::Implementation::getValue on the lazy value entry; calcCachedValueVirtual reads the STATE buffer *)
Definition d_get (E : env) (m : delm) : option vec * delm :=
  if valid E 4 (d_val m) then (ce_val (d_val m), m)
  else let v := calc_value_at (d_buf m) (nsub K (e_t E) (d_delay m)) in
       (v, mkD (d_src m) (d_delay m) (d_buf m) (d_upd m) (mark E 4 v)).
(* Delay::initializeVirtual after the env part (invalidate Report, realize source stage): clear(); append(...) *)
Definition d_init (E : env) (m : delm) : delm :=
  mkD (d_src m) (d_delay m) [(e_t E, veval (d_src m) (e_t E))] (invalidate (d_upd m)) (d_val m).

(* ------------------------------------------------------------------ layer 2c: Differentiate, finite-difference mode *)
Definition dres := (vec * vec * bool)%type.               (* operand, operandDot, derivIsGood *)
Record difm := mkF { f_src : vsrc; f_dv : dres; f_dvt : option T; f_upd : ce dres }.
Definition vsub (a b : vec) : vec := map (fun ab => nsub K (fst ab) (snd ab)) (combine a b).
Definition vdivs (a : vec) (s : T) : vec := map (fun x => ndiv K x s) a.
Definition two : T := nadd K (n1 K) (n1 K).
(* ensureDerivativeIsRealized *)
Definition f_ensure (E : env) (m : difm) : difm :=
  let D := vdep (f_src m) in
  if valid E D (f_upd m) then m
  else
    let '(f0, fdot0, good0) := f_dv m in
    let t := e_t E in
    let f := veval (f_src m) t in
    let res :=
      match f_dvt m with
      | None => (f, map (fun _ => (n0 K)) f, false)
      | Some t0 =>
          if neqb t t0 then (f, fdot0, good0)
          else let fd := vdivs (vsub f f0) (nsub K t t0) in
               let fd' := if good0 then vsub (map (fun x => nmul K two x) fd) fdot0 else fd in
               (f, fd', true)
      end in
    mkF (f_src m) (f_dv m) (f_dvt m) (mark E D res).
Definition f_auto (E : env) (m : difm) : difm :=
  let D := vdep (f_src m) in
  if valid E D (f_upd m)
  then mkF (f_src m) (ce_val (f_upd m)) (Some (e_t E)) (invalidate (mkCe (f_dv m) (ce_ver (f_upd m)) (ce_ok (f_upd m))))
  else m.
Definition f_init (E : env) (m : difm) : difm :=
  let f := veval (f_src m) (e_t E) in
  mkF (f_src m) (f, map (fun _ => (n0 K)) f, false) (Some (e_t E)) (invalidate (f_upd m)).

(* ------------------------------------------------------------------ the whole state, operations, observations *)
Inductive mach := MX (m : extm) | MD (m : delm) | MF (m : difm).
Record st := mkSt { s_env : env; s_trees : list mtree; s_machs : list mach }.

Inductive op :=
| SetTime (x : T)            (* State::setTime *)
| Realize (g : nat)          (* System::realize(s, g), 3 <= g <= 9 *)
| AutoUpd                    (* State::autoUpdateDiscreteVariables *)
| Inval (g : nat)            (* State::invalidateAllCacheAtOrAbove(g), g >= Instance *)
| Init                       (* System::handleEvents(Initialization): every measure's initializeVirtual *)
| SetVar (i : nat) (x : T)   (* Measure::Variable::setValue *)
| SetExt (j : nat) (x : vec) (* Measure::Extreme::setValue *)
| GetT (i : nat) (path : list bool) (k : nat)   (* getValue(s, k) of a node of tree i *)
| GetM (j : nat)             (* getValue(s) of machine j *)
| GetMT (j : nat).           (* Extreme::getTimeOfExtremeValue *)

Inductive obs := ONone | OVal (v : vec) | ONaN | OThrow | OGuard | OTime (t : option T).

Definition mach_dep (m : mach) : nat :=
  match m with MX x => vdep (x_src x) | MD _ => 4 | MF f => vdep (f_src f) end.
(* realizeMeasureAccelerationVirtual *)
Definition mach_acc (E : env) (m : mach) : mach :=
  match m with MX x => MX (snd (x_ensure E x)) | MD d => MD (d_update E d) | MF f => MF (f_ensure E f) end.
Definition mach_auto (E : env) (m : mach) : mach :=
  match m with MX x => MX (x_auto E x) | MD d => MD (d_auto E d) | MF f => MF (f_auto E f) end.
(* initializeVirtual: each one changes the shared stage bookkeeping, in measure order *)
Definition mach_init (Em : env * list mach) (m : mach) : env * list mach :=
  let '(E, acc) := Em in
  match m with
  | MX x => let E1 := set_stage E (Nat.max (e_stage E) (vdep (x_src x))) in     (* realize(operand stage) *)
            let E2 := inval E1 7 in                                              (* updDiscreteVariable: Dynamics *)
            (E2, acc ++ [MX (x_set E2 x (veval (x_src x) (e_t E2)))])
  | MD d => let E1 := inval E 9 in                                               (* updDiscreteVariable: Report *)
            let E2 := set_stage E1 (Nat.max (e_stage E1) (vdep (d_src d))) in
            (E2, acc ++ [MD (d_init E2 d)])
  | MF f => let E1 := inval E (vdep (f_src f)) in                                (* invalidates the operand's stage *)
            let E2 := set_stage E1 (Nat.max (e_stage E1) (vdep (f_src f))) in
            (E2, acc ++ [MF (f_init E2 f)])
  end.

Fixpoint upd_nth {A} (i : nat) (f : A -> A) (l : list A) : list A :=
  match l, i with [], _ => [] | a :: r, O => f a :: r | a :: r, S j => a :: upd_nth j f r end.

Definition step (s : st) (o : op) : st * obs :=
  let E := s_env s in
  match o with
  | SetTime x => (mkSt (set_time E x) (s_trees s) (s_machs s), ONone)
  | Realize g =>
      if g <=? e_stage E then (s, ONone)
      else let ms := if (e_stage E <? 8) && (8 <=? g) then map (mach_acc (set_stage E 7)) (s_machs s) else s_machs s in
           (mkSt (set_stage E g) (s_trees s) ms, ONone)
  | AutoUpd => (mkSt E (s_trees s) (map (mach_auto E) (s_machs s)), ONone)
  | Inval g => (mkSt (inval E g) (s_trees s) (s_machs s), ONone)
  | Init => let '(E', ms) := fold_left mach_init (s_machs s) (E, []) in (mkSt E' (s_trees s) ms, ONone)
  | SetVar i x => (mkSt (set_var E i x) (s_trees s) (s_machs s), ONone)
  | SetExt j v =>
      match nth_error (s_machs s) j with
      | Some (MX x) => let E' := inval E 7 in
                       (mkSt E' (s_trees s) (upd_nth j (fun _ => MX (x_set E' x v)) (s_machs s)), ONone)
      | _ => (s, OGuard)
      end
  | GetT i path k =>
      match nth_error (s_trees s) i with
      | Some m => match tget_at E path k m with
                  | Some (v, m') => (mkSt E (upd_nth i (fun _ => m') (s_trees s)) (s_machs s), OVal [v])
                  | None => (s, OGuard)
                  end
      | None => (s, OGuard)
      end
  | GetM j =>
      match nth_error (s_machs s) j with
      | Some m =>
          if negb (mach_dep m <=? e_stage E) then (s, OGuard)
          else match m with
          | MX x => let '(found, x') := x_ensure E x in
                    let o := if found then (if valid E (vdep (x_src x)) (x_upd x') then OVal (ce_val (x_upd x')) else OThrow)
                             else OVal (x_dv x') in
                    (mkSt E (s_trees s) (upd_nth j (fun _ => MX x') (s_machs s)), o)
          | MD d => let '(v, d') := d_get E d in
                    (mkSt E (s_trees s) (upd_nth j (fun _ => MD d') (s_machs s)),
                     match v with Some w => OVal w | None => ONaN end)
          | MF f => let f' := f_ensure E f in
                    (mkSt E (s_trees s) (upd_nth j (fun _ => MF f') (s_machs s)), OVal (snd (fst (ce_val (f_upd f')))))
          end
      | None => (s, OGuard)
      end
  | GetMT j =>
      match nth_error (s_machs s) j with
      | Some (MX x) =>
          if negb (vdep (x_src x) <=? e_stage E) then (s, OGuard)
          else let '(found, x') := x_ensure E x in
               (mkSt E (s_trees s) (upd_nth j (fun _ => MX x') (s_machs s)), OTime (if found then Some (e_t E) else x_dvt x'))
      | _ => (s, OGuard)
      end
  end.

Fixpoint run (s : st) (ops : list op) : st * list obs :=
  match ops with
  | [] => (s, [])
  | o :: r => let '(s1, b) := step s o in let '(s2, bs) := run s1 r in (s2, b :: bs)
  end.

(* ------------------------------------------------------------------ construction (realizeTopology + realizeModel) *)
Definition env0 (t : T) (vars : list (T * nat)) : env := mkEnv t 2 ver0 vars.
Definition mk_ext (o : exop) (src : vsrc) (init : vec) : extm := mkX o src init None (ce0 init) false (ce0 false).
Definition mk_delay (src : vsrc) (delay : T) : delm := mkD src delay [] (ce0 []) (ce0 None).
Definition mk_diff (src : vsrc) : difm :=
  let z := map (fun _ => (n0 K)) src in mkF src (z, z, false) None (ce0 (z, z, false)).
Definition c0 : ce T := ce0 (n0 K).
Definition mk_sin (a w p : T) : mtree := MSin a w p c0 c0 c0 c0.
Definition mk_plus (l r : mtree) : mtree := MPlus l r c0.
Definition mk_minus (l r : mtree) : mtree := MMinus l r c0.
Definition mk_scale (f : T) (e : mtree) : mtree := MScale f e c0.

(* ------------------------------------------------------------------ specification-only measures *)
(* Integrate: value is the z variable, zdot := integrand at Acceleration; derivative k+1 is the integrand's k *)
Record intm := mkI { i_z : T; i_zdot : T }.
Definition i_acc (src : pexpr) (t : T) (m : intm) : intm := mkI (i_z m) (peval src t).
(* SampleAndHold as documented in Measure.h (there is no Implementation class in the source) *)
Record shm := mkSH { h_val : vec; h_time : T }.
Inductive shop := ShAdvance (x : T) | ShEvent | ShSet (v : vec).
Definition sh_step (src : vsrc) (tm : T * shm) (o : shop) : T * shm :=
  let '(t, m) := tm in
  match o with
  | ShAdvance x => (x, m)
  | ShEvent => (t, mkSH (veval src t) t)
  | ShSet v => (t, mkSH v t)
  end.
Definition sh_init (src : vsrc) (t : T) : T * shm := (t, mkSH (veval src t) t).   (* initialization is a sampling event *)
Definition sh_run (src : vsrc) (t0 : T) (ops : list shop) : T * shm := fold_left (sh_step src) ops (sh_init src t0).

End Model.
