(** C23 proofs (see Props/Properties_C23.v for the statement list). *)
From Coq Require Import List Arith Bool PeanoNat ZArith Reals Lra Lia.
From Coquelicot Require Import Coquelicot.
Require Import Num C23_Model.
Import ListNotations.
Local Open Scope R_scope.

(** ** Sinusoid: each reported derivative order k+1 <= 3 is the derivative of order k *)
Lemma sinusoid_derivs a w p k t : (k < 3)%nat ->
  is_derive (sin_d ROps a w p k) t (sin_d ROps a w p (S k) t).
Proof. intros H. destruct k as [|[|[|k]]]; try lia; cbv [sin_d ROps nadd nmul nopp nsin ncos];
  auto_derive; try exact I; ring. Qed.

(** the derivatives reported by the leaf measures (Constant, Time, Variable: every order; Sinusoid: orders 1..3) are the
    time derivatives of the next lower order, with the variables held fixed.  (Plus/Minus/Scale offer no derivatives.) *)
Require Import C23_Arith.
Definition at_time (E : Env) (t : R) : Env := mkEnv t (e_stage E) (e_ver E) (e_vars E).
Definition is_leaf (m : Tree) : Prop := match m with MConst _ | MTime | MVar _ | MSin _ _ _ _ _ _ _ => True | _ => False end.
Lemma reported_derivatives_are_derivatives (E : Env) m k : is_leaf m -> k_ok m (S k) = true ->
  is_derive (fun t => den_k (at_time E t) m k) (e_t E) (den_k E m (S k)).
Proof. intros L K. destruct m; try destruct L.
  - destruct k; simpl; auto_derive; auto.
  - destruct k as [|[|k]]; simpl; auto_derive; auto; ring.
  - destruct k; simpl; unfold var_val; simpl; auto_derive; auto.
  - simpl in K. apply Nat.leb_le in K.
    destruct k as [|[|[|k]]]; try lia; simpl den_k;
      [apply (sinusoid_derivs a w p 0) | apply (sinusoid_derivs a w p 1) | apply (sinusoid_derivs a w p 2)]; lia. Qed.

(** ** SampleAndHold, as documented in Measure.h (NOT implemented in the source: specification only, no tie).
    After any operation sequence the held value is the source value at the time of the last sampling event (initialization
    counts as one), or the last value set explicitly; advancing time never changes it. *)
Fixpoint sh_spec (src : @vsrc R) (t : R) (held : list R * R) (ops : list (@shop R)) : list R * R :=
  match ops with
  | [] => held
  | ShAdvance x :: r => sh_spec src x held r
  | ShEvent :: r => sh_spec src t (veval ROps src t, t) r
  | ShSet v :: r => sh_spec src t (v, t) r
  end.
Lemma sh_run_spec src : forall ops t held tm0,
  fold_left (sh_step ROps src) ops (t, mkSH held tm0) =
  (fst (fold_left (sh_step ROps src) ops (t, mkSH held tm0)),
   mkSH (fst (sh_spec src t (held, tm0) ops)) (snd (sh_spec src t (held, tm0) ops))).
Proof. induction ops as [|o r IH]; intros t held tm0; simpl; auto. destruct o; simpl; apply IH. Qed.
Lemma sample_hold_holds src t0 ops1 advances :
  List.Forall (fun o => exists x, o = ShAdvance x) advances ->
  let '(t1, m1) := sh_run ROps src t0 (ops1 ++ [ShEvent]) in
  h_val (snd (sh_run ROps src t0 (ops1 ++ [ShEvent] ++ advances))) = veval ROps src t1 /\
  h_val m1 = veval ROps src t1 /\ h_time (snd (sh_run ROps src t0 (ops1 ++ [ShEvent] ++ advances))) = t1.
Proof. intros Adv. unfold sh_run.
  assert (H : forall adv t m, List.Forall (fun o => exists x, o = ShAdvance x) adv ->
             snd (fold_left (sh_step ROps src) adv (t, m)) = m).
  { induction adv as [|o r IH]; intros t m Fa; simpl; auto. inversion Fa as [|? ? [x ->] Fr]; subst. simpl. apply IH; auto. }
  rewrite !fold_left_app.
  destruct (fold_left (sh_step ROps src) ops1 (sh_init ROps src t0)) as [ta ma].
  cbn [fold_left sh_step]. rewrite H; auto. Qed.

(** ** Differentiate (finite-difference mode): the formula of ensureDerivativeIsRealized.  Its accuracy on a general
    operand is NOT decided; it is exact for an affine operand, and with an exact previous derivative the second-order
    correction is exact for a quadratic operand. *)
Lemma f_ensure_value (E : Env) (m : @difm R) e f0 fd0 good0 t0 :
  valid E (vdep (f_src m)) (f_upd m) = false -> f_src m = [e] -> f_dv m = ([f0], [fd0], good0) -> f_dvt m = Some t0 ->
  e_t E <> t0 ->
  ce_val (f_upd (f_ensure ROps E m)) =
  ([peval ROps e (e_t E)],
   [if good0 then 2 * ((peval ROps e (e_t E) - f0) / (e_t E - t0)) - fd0 else (peval ROps e (e_t E) - f0) / (e_t E - t0)], true).
Proof. intros V Hs Hd Ht N. unfold f_ensure. rewrite V, Hd, Ht, Hs.
  assert (Q : neqb ROps (e_t E) t0 = false).
  { unfold neqb. simpl. destruct (Rleb (e_t E) t0) eqn:A; auto. destruct (Rleb t0 (e_t E)) eqn:B; auto.
    apply Rleb_true in A, B. exfalso. apply N. lra. }
  rewrite Q. destruct good0; simpl; unfold two; simpl; repeat f_equal; lra. Qed.
Lemma differentiate_exact_on_affine a c f0 t t0 : t <> t0 -> f0 = a * t0 + c -> ((a * t + c) - f0) / (t - t0) = a.
Proof. intros N ->. field. lra. Qed.
Lemma differentiate_second_order_exact_on_quadratics a b c t t0 : t <> t0 ->
  let f := fun x => a * x * x + b * x + c in
  2 * ((f t - f t0) / (t - t0)) - (2 * a * t0 + b) = 2 * a * t + b.
Proof. intros N f. unfold f. field. lra. Qed.

(** ** Integrate: a specification only.  The measure's value IS the state variable z; at Acceleration stage zdot is set to
    the integrand's value; whether z(t) equals the time integral is the integrator's accuracy (C20), not decided here. *)
Lemma integrate_zdot_is_integrand (src : @pexpr R) t (m : @intm R) : i_zdot (i_acc ROps src t m) = peval ROps src t /\ i_z (i_acc ROps src t m) = i_z m.
Proof. split; reflexivity. Qed.
