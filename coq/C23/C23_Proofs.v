(** C23 proofs (see Props/Properties_C23.v for the statement list). *)
From Coq Require Import List Arith Bool PeanoNat ZArith Reals Lra Lia.
From Coquelicot Require Import Coquelicot.
Require Import Num C23_Model.
Import ListNotations.
Local Open Scope R_scope.

(** ** Sinusoid: each reported derivative order k+1 <= 3 is the derivative of order k *)
Lemma sinusoid_derivs a w p k t : (k < 3)%nat ->
  is_derive (sin_d ROps a w p k) t (sin_d ROps a w p (S k) t).
Proof. intros H. destruct k as [|[|[|k]]]; try lia; cbv [sin_d ROps nadd nmul nopp nsin ncos];
  auto_derive; try exact I; ring. Qed.
