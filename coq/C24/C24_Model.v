(** C24 executable model (no proofs), polymorphic in [NumOps T].
    SimTKmath/LinearAlgebra (FactorLU / FactorLLT / FactorQTZ / FactorSVD / Eigen) are wrappers over LAPACK, a binary that
    is outside any model.  What IS modelled:
      - the only numeric logic the wrappers add themselves, the rank count of FactorSVDRep::computeSVD
        ([svd_rank]: the number of singular values with  values[i] > rcond*values[0]) -- compared EXACTLY with
        FactorSVD::getRank() on every run;
      - the CERTIFICATES that the property demands of the outputs ([orth_check], [recon_check], [desc_check],
        [normal_check], [nullorth_check], [solve_check], [inverse_check], [eig_check], [sym_check]); they run, extracted,
        on what the C++ returns, and C24_Proofs.v proves what they imply when they hold.
    Matrices are functions [nat -> nat -> T] (row, column), vectors [nat -> T]; dimensions are explicit arguments and
    every sum and test is bounded by them (entries outside the dimensions are never read). *)
From Coq Require Import ZArith List Bool Arith.
Require Import Num.

Section Model.
Context {T : Type} (K : NumOps T).

Definition mat : Type := nat -> nat -> T.
Definition vec : Type := nat -> T.

Fixpoint sumn (n : nat) (f : nat -> T) : T :=
  match n with O => n0 K | S k => nadd K (sumn k f) (f k) end.
Definition mmul (p : nat) (A B : mat) : mat := fun i j => sumn p (fun k => nmul K (A i k) (B k j)).
Definition mtr (A : mat) : mat := fun i j => A j i.
Definition mulv (n : nat) (A : mat) (x : vec) : vec := fun i => sumn n (fun k => nmul K (A i k) (x k)).
Definition dot (n : nat) (x y : vec) : T := sumn n (fun k => nmul K (x k) (y k)).
Definition vsub (x y : vec) : vec := fun i => nsub K (x i) (y i).
Definition delta (i j : nat) : T := if Nat.eqb i j then n1 K else n0 K.
(** m x n "diagonal" matrix with s_0 .. s_(k-1) on the diagonal *)
Definition diagm (k : nat) (s : vec) : mat := fun i j => if Nat.eqb i j && Nat.ltb i k then s i else n0 K.
(** its pseudo-inverse (n x m): 1/s_i where s_i > thr, else 0 *)
Definition pinvdiag (k : nat) (thr : T) (s : vec) : mat :=
  fun i j => if Nat.eqb i j && Nat.ltb i k && nltb K thr (s i) then ndiv K (n1 K) (s i) else n0 K.

Fixpoint alln (n : nat) (p : nat -> bool) : bool :=
  match n with O => true | S k => alln k p && p k end.
Fixpoint countn (n : nat) (p : nat -> bool) : nat :=
  match n with O => O | S k => (countn k p + (if p k then 1 else 0))%nat end.
Definition tmaxa (x y : T) : T := if nleb K x y then y else x.
Fixpoint maxabs (n : nat) (f : nat -> T) : T :=
  match n with O => n0 K | S k => tmaxa (maxabs k f) (nabs K (f k)) end.
Definition mat_maxabs (m n : nat) (E : mat) : T := maxabs m (fun i => maxabs n (fun j => E i j)).
Definition mat_le (m n : nat) (tol : T) (E : mat) : bool :=
  alln m (fun i => alln n (fun j => nleb K (nabs K (E i j)) tol)).
Definition vec_le (n : nat) (tol : T) (e : vec) : bool := alln n (fun i => nleb K (nabs K (e i)) tol).

(** *** FactorSVDRep<T>::computeSVD:  rank = 0; for (i<mn) if (values[i] > rcond*values[0]) rank++; *)
Definition svd_rank (rcond : T) (k : nat) (s : vec) : nat :=
  countn k (fun i => nltb K (nmul K rcond (s O)) (s i)).

(** the documented default tolerance of the constructors / factor() overloads WITHOUT an rcond argument (FactorSVD and FactorQTZ):
      rcond = max(nRow,nCol) * NTraits<P>::getSignificant(),   getSignificant() = eps^(7/8)  (passed in as [sig]) *)
Definition default_rcond (sig : T) (m n : nat) : T := nmul K (nofZ K (Z.of_nat (Nat.max m n))) sig.
Definition svd_rank_default (sig : T) (m n k : nat) (s : vec) : nat := svd_rank (default_rcond sig m n) k s.

(** *** certificates *)
(** U^T U = I and U U^T = I (n x n) *)
Definition orth_resid (n : nat) (U : mat) : mat := fun i j => nsub K (mmul n (mtr U) U i j) (delta i j).
Definition orth_resid' (n : nat) (U : mat) : mat := fun i j => nsub K (mmul n U (mtr U) i j) (delta i j).
Definition orth_check (n : nat) (tol : T) (U : mat) : bool :=
  mat_le n n tol (orth_resid n U) && mat_le n n tol (orth_resid' n U).
(** A = U S Vt  (U m x m, S m x n, Vt n x n) *)
Definition recon_resid (m n : nat) (A U S Vt : mat) : mat := fun i j => nsub K (A i j) (mmul m U (mmul n S Vt) i j).
Definition recon_check (m n : nat) (tol : T) (A U S Vt : mat) : bool := mat_le m n tol (recon_resid m n A U S Vt).
(** s_0 >= s_1 >= ... >= s_(k-1) >= 0 *)
Definition desc_check (k : nat) (s : vec) : bool :=
  alln k (fun i => nleb K (n0 K) (s i)) && alln (pred k) (fun i => nleb K (s (S i)) (s i)).
(** normal equations  A^T (A x - b) = 0   (A m x n) *)
Definition normal_resid (m n : nat) (A : mat) (x b : vec) : vec := mulv m (mtr A) (vsub (mulv n A x) b).
Definition normal_check (m n : nat) (tol : T) (A : mat) (x b : vec) : bool := vec_le n tol (normal_resid m n A x b).
(** x is orthogonal to the rows r .. n-1 of Vt (the null-space basis of the SVD certificate) *)
Definition nullorth_resid (n r : nat) (Vt : mat) (x : vec) : vec := fun j => dot n (Vt (r + j)%nat) x.
Definition nullorth_check (n r : nat) (tol : T) (Vt : mat) (x : vec) : bool := vec_le (n - r) tol (nullorth_resid n r Vt x).
(** A x = b *)
Definition solve_resid (n : nat) (A : mat) (x b : vec) : vec := vsub (mulv n A x) b.
Definition solve_check (m n : nat) (tol : T) (A : mat) (x b : vec) : bool := vec_le m tol (solve_resid n A x b).
(** A Ai = I and Ai A = I (n x n) *)
Definition inverse_check (n : nat) (tol : T) (A Ai : mat) : bool :=
  mat_le n n tol (fun i j => nsub K (mmul n A Ai i j) (delta i j)) &&
  mat_le n n tol (fun i j => nsub K (mmul n Ai A i j) (delta i j)).
(** A v_j = lam_j v_j for every column j of V *)
Definition eig_resid (n : nat) (A : mat) (lam : vec) (V : mat) : mat :=
  fun i j => nsub K (mmul n A V i j) (nmul K (lam j) (V i j)).
Definition eig_check (n : nat) (tol : T) (A : mat) (lam : vec) (V : mat) : bool := mat_le n n tol (eig_resid n A lam V).
Definition sym_check (n : nat) (tol : T) (A : mat) : bool := mat_le n n tol (fun i j => nsub K (A i j) (A j i)).
(** lam_0 <= lam_1 <= ... (ascending, as the symmetric eigen-solver delivers them) *)
Definition asc_check (k : nat) (s : vec) : bool := alln (pred k) (fun i => nleb K (s i) (s (S i))).
(** the pseudo-inverse solution  x = V S^+ U^T b  of an SVD certificate *)
Definition pinv_solution (m n k : nat) (thr : T) (U : mat) (s : vec) (Vt : mat) (b : vec) : vec :=
  mulv n (mtr Vt) (mulv m (pinvdiag k thr s) (mulv m (mtr U) b)).

End Model.
