(** C24 proofs (over the reals; matrices are functions nat -> nat -> R with explicit dimensions).
    Part 1: finite sums and the boolean checkers of C24_Model.v at tolerance 0.
    Part 2: min_norm_ls_characterisation (normal equations + x in range(A^T) => minimum-norm least-squares solution).
    Part 3: what an accepted SVD certificate (orthogonal U, Vt; A = U diag(s) Vt; s descending, non-negative) implies:
            the pseudo-inverse solution V S^+ U^T b is the minimum-norm least-squares solution; ker A is the orthogonal
            complement of the v_p with s_p <> 0 (the rank statement without dimension theory); the implementation's rank
            count returns the number of non-zero singular values; a solution of the normal equations orthogonal to the
            null-space rows of Vt is the minimum-norm solution (certificate for FactorQTZ::solve).
    Part 4: symmetric eigen certificate (spectral decomposition, completeness of the spectrum), inverse certificate. *)
From Coq Require Import ZArith Reals Lra Lia Psatz List Bool Arith Classical.
Require Import Num Tactics C24_Model.
Local Open Scope R_scope.


(* ---------------------------------------------------------------- *)

Notation Rsum := (sumn ROps).
Notation Rmat := (nat -> nat -> R).
Notation Rvec := (nat -> R).

Lemma sumn_ext n (f g : nat -> R) : (forall k, (k < n)%nat -> f k = g k) -> Rsum n f = Rsum n g.
Proof. induction n; intros H; cbn; auto. rewrite IHn, H; auto. Qed.
Lemma sumn_0 n : Rsum n (fun _ => 0) = 0.
Proof. induction n; cbn; auto. rewrite IHn. ring. Qed.
Lemma sumn_all0 n f : (forall k, (k < n)%nat -> f k = 0) -> Rsum n f = 0.
Proof. intros H. rewrite <- (sumn_0 n). apply sumn_ext; auto. Qed.
Lemma sumn_plus n f g : Rsum n (fun k => f k + g k) = Rsum n f + Rsum n g.
Proof. induction n; cbn. ring. rewrite IHn. ring. Qed.
Lemma sumn_minus n f g : Rsum n (fun k => f k - g k) = Rsum n f - Rsum n g.
Proof. induction n; cbn. ring. rewrite IHn. ring. Qed.
Lemma sumn_scal n c f : Rsum n (fun k => c * f k) = c * Rsum n f.
Proof. induction n; cbn. ring. rewrite IHn. ring. Qed.
Lemma sumn_scal_r n c f : Rsum n (fun k => f k * c) = Rsum n f * c.
Proof. induction n; cbn. ring. rewrite IHn. ring. Qed.
Lemma sumn_swap m n (f : nat -> nat -> R) :
  Rsum m (fun i => Rsum n (fun j => f i j)) = Rsum n (fun j => Rsum m (fun i => f i j)).
Proof.
  induction m; cbn.
  - symmetry. apply sumn_0.
  - rewrite IHm, <- sumn_plus. reflexivity.
Qed.
Lemma sumn_nonneg n f : (forall k, (k < n)%nat -> 0 <= f k) -> 0 <= Rsum n f.
Proof. induction n; intros H; cbn. lra. specialize (H n (Nat.lt_succ_diag_r n)) as H1. assert (0 <= Rsum n f) by (apply IHn; auto). lra. Qed.
Lemma sumn_sq_zero n f : Rsum n (fun k => f k * f k) = 0 -> forall k, (k < n)%nat -> f k = 0.
Proof.
  induction n; intros H k Hk. lia. cbn in H.
  assert (0 <= Rsum n (fun k => f k * f k)) by (apply sumn_nonneg; intros; nra).
  assert (0 <= f n * f n) by nra.
  destruct (Nat.eq_dec k n) as [->|Hne]. nra. apply IHn; [nra | lia].
Qed.
(** the indicator picks one term *)
Lemma sumn_pick n i (f : nat -> R) : (i < n)%nat -> Rsum n (fun k => if Nat.eqb i k then f k else 0) = f i.
Proof.
  induction n; intros Hi. lia. cbn.
  destruct (Nat.eq_dec i n) as [->|Hne].
  - rewrite Nat.eqb_refl. rewrite sumn_all0. ring. intros k Hk. destruct (Nat.eqb_spec n k); auto. lia.
  - destruct (Nat.eqb_spec i n); [lia|]. rewrite IHn by lia. ring.
Qed.
Lemma sumn_pick_none n i (f : nat -> R) : (n <= i)%nat -> Rsum n (fun k => if Nat.eqb i k then f k else 0) = 0.
Proof. intros H. apply sumn_all0. intros k Hk. destruct (Nat.eqb_spec i k); auto. lia. Qed.
Lemma delta_R i j : delta ROps i j = if Nat.eqb i j then 1 else 0. Proof. reflexivity. Qed.
Lemma sumn_delta_l n i f : (i < n)%nat -> Rsum n (fun k => delta ROps i k * f k) = f i.
Proof.
  intros H. rewrite <- (sumn_pick n i f H). apply sumn_ext. intros k _. rewrite delta_R. destruct (Nat.eqb i k); ring.
Qed.
Lemma sumn_delta_r n i f : (i < n)%nat -> Rsum n (fun k => f k * delta ROps k i) = f i.
Proof.
  intros H. rewrite <- (sumn_pick n i f H). apply sumn_ext. intros k _. rewrite delta_R, Nat.eqb_sym. destruct (Nat.eqb i k); ring.
Qed.
(** a sum whose terms vanish beyond k is the sum of the first k terms *)
Lemma sumn_prefix k n f : (k <= n)%nat -> (forall p, (k <= p < n)%nat -> f p = 0) -> Rsum n f = Rsum k f.
Proof.
  intros Hk H. induction n. assert (k = 0)%nat by lia. subst; reflexivity.
  destruct (Nat.eq_dec k (S n)) as [->|Hne]; auto.
  cbn. rewrite IHn, H by (try lia; intros; apply H; lia). ring.
Qed.

(** boolean checkers at tolerance 0 *)
Lemma alln_spec n p : alln n p = true <-> forall k, (k < n)%nat -> p k = true.
Proof.
  induction n; cbn. split; auto; intros; lia.
  rewrite andb_true_iff, IHn. split.
  - intros [H1 H2] k Hk. destruct (Nat.eq_dec k n) as [->|]; auto. apply H1; lia.
  - intros H. split; auto.
Qed.
Lemma Rabs_le_0 x : Rabs x <= 0 <-> x = 0.
Proof. split. intros H. pose proof (Rabs_pos x). apply Rabs_eq_0 || (destruct (Req_dec x 0); auto; pose proof (Rabs_pos_lt x); lra). intros ->. rewrite Rabs_R0. lra. Qed.
Lemma mat_le_spec m n tol (E : Rmat) : mat_le ROps m n tol E = true <-> forall i j, (i < m)%nat -> (j < n)%nat -> Rabs (E i j) <= tol.
Proof.
  unfold mat_le. rewrite alln_spec. split.
  - intros H i j Hi Hj. specialize (H i Hi). rewrite alln_spec in H. apply Rleb_true. apply (H j Hj).
  - intros H i Hi. apply alln_spec. intros j Hj. apply Rleb_true. auto.
Qed.
Lemma mat_le_0 m n (E : Rmat) : mat_le ROps m n 0 E = true <-> forall i j, (i < m)%nat -> (j < n)%nat -> E i j = 0.
Proof. rewrite mat_le_spec. split; intros H i j Hi Hj; apply Rabs_le_0; auto. Qed.
Lemma vec_le_0 n (e : Rvec) : vec_le ROps n 0 e = true <-> forall i, (i < n)%nat -> e i = 0.
Proof.
  unfold vec_le. rewrite alln_spec. split; intros H i Hi.
  - apply Rabs_le_0. apply Rleb_true. apply (H i Hi).
  - apply Rleb_true. apply Rabs_le_0. auto.
Qed.


(* ---------------------------------------------------------------- *)

Notation Rmulv := (mulv ROps).
Notation Rdot := (dot ROps).
Notation Rtr := (@mtr R).

Lemma mulv_R n (A : Rmat) x i : Rmulv n A x i = Rsum n (fun k => A i k * x k). Proof. reflexivity. Qed.
Lemma dot_R n (x y : Rvec) : Rdot n x y = Rsum n (fun k => x k * y k). Proof. reflexivity. Qed.
Lemma dot_ext n x x' y y' : (forall k, (k < n)%nat -> x k = x' k) -> (forall k, (k < n)%nat -> y k = y' k) -> Rdot n x y = Rdot n x' y'.
Proof. intros H1 H2. rewrite !dot_R. apply sumn_ext. intros k Hk. rewrite H1, H2; auto. Qed.
Lemma mulv_ext n (A : Rmat) x x' i : (forall k, (k < n)%nat -> x k = x' k) -> Rmulv n A x i = Rmulv n A x' i.
Proof. intros H. rewrite !mulv_R. apply sumn_ext. intros k Hk. rewrite H; auto. Qed.
Lemma dot_sym n x y : Rdot n x y = Rdot n y x.
Proof. rewrite !dot_R. apply sumn_ext. intros; ring. Qed.
Lemma dot_plus_r n x y z : Rdot n x (fun k => y k + z k) = Rdot n x y + Rdot n x z.
Proof. rewrite !dot_R, <- sumn_plus. apply sumn_ext. intros; ring. Qed.
Lemma dot_plus_l n x y z : Rdot n (fun k => x k + y k) z = Rdot n x z + Rdot n y z.
Proof. rewrite !dot_R, <- sumn_plus. apply sumn_ext. intros; ring. Qed.
Lemma dot_self_nonneg n x : 0 <= Rdot n x x.
Proof. rewrite dot_R. apply sumn_nonneg. intros; nra. Qed.
Lemma mulv_plus n (A : Rmat) x y i : Rmulv n A (fun k => x k + y k) i = Rmulv n A x i + Rmulv n A y i.
Proof. rewrite !mulv_R, <- sumn_plus. apply sumn_ext. intros; ring. Qed.
Lemma mulv_minus n (A : Rmat) x y i : Rmulv n A (fun k => x k - y k) i = Rmulv n A x i - Rmulv n A y i.
Proof. rewrite !mulv_R, <- sumn_minus. apply sumn_ext. intros; ring. Qed.
(** <r, A d> = <A^T r, d>   (A is m x n) *)
Lemma dot_mulv_tr m n (A : Rmat) r d : Rdot m r (Rmulv n A d) = Rdot n (Rmulv m (Rtr A) r) d.
Proof.
  rewrite !dot_R. unfold mulv, mtr. cbn [ROps nmul].
  transitivity (Rsum m (fun i => Rsum n (fun k => r i * (A i k * d k)))).
  - apply sumn_ext. intros i _. rewrite <- sumn_scal. reflexivity.
  - rewrite sumn_swap. apply sumn_ext. intros k _. rewrite <- sumn_scal_r. apply sumn_ext. intros; ring.
Qed.

Section LS.
Variables (m n : nat) (A : Rmat) (b x : Rvec).
Let res (z : Rvec) : Rvec := fun i => Rmulv n A z i - b i.
(** normal equations: A^T (A x - b) = 0 *)
Hypothesis Hne : forall j, (j < n)%nat -> Rmulv m (Rtr A) (res x) j = 0.

Lemma ls_minimal z : Rdot m (res x) (res x) <= Rdot m (res z) (res z).
Proof.
  set (d := fun k => z k - x k).
  assert (E : forall i, res z i = res x i + Rmulv n A d i).
  { intros i. unfold res, d. rewrite mulv_minus. ring. }
  rewrite (dot_ext m (res z) (fun i => res x i + Rmulv n A d i) (res z) (fun i => res x i + Rmulv n A d i)) by (intros; apply E).
  rewrite dot_plus_l, !dot_plus_r.
  assert (Z : Rdot m (res x) (Rmulv n A d) = 0).
  { rewrite dot_mulv_tr, dot_R. apply sumn_all0. intros j Hj. rewrite Hne by auto. ring. }
  rewrite (dot_sym m (Rmulv n A d) (res x)), Z.
  pose proof (dot_self_nonneg m (Rmulv n A d)). lra.
Qed.

(** x in the range of A^T and z another solution of the normal equations: |x| <= |z| *)
Lemma ls_min_norm y z :
  (forall j, (j < n)%nat -> x j = Rmulv m (Rtr A) y j) ->
  (forall j, (j < n)%nat -> Rmulv m (Rtr A) (res z) j = 0) ->
  Rdot n x x <= Rdot n z z.
Proof.
  intros Hx Hz. set (d := fun k => z k - x k).
  (* A^T A d = 0 *)
  assert (HAd : forall j, (j < n)%nat -> Rmulv m (Rtr A) (Rmulv n A d) j = 0).
  { intros j Hj. specialize (Hz j Hj). specialize (Hne j Hj).
    replace (Rmulv m (Rtr A) (Rmulv n A d) j) with (Rmulv m (Rtr A) (res z) j - Rmulv m (Rtr A) (res x) j).
    rewrite Hz, Hne. ring.
    rewrite <- mulv_minus. apply mulv_ext. intros i Hi. unfold res, d. rewrite mulv_minus. ring. }
  (* |A d|^2 = <A^T A d, d> = 0, so A d = 0 *)
  assert (HAd0 : forall i, (i < m)%nat -> Rmulv n A d i = 0).
  { apply sumn_sq_zero. change (Rdot m (Rmulv n A d) (Rmulv n A d) = 0).
    rewrite dot_mulv_tr, dot_R. apply sumn_all0. intros j Hj. rewrite HAd by auto. ring. }
  (* <x, d> = <A^T y, d> = <y, A d> = 0 *)
  assert (Hxd : Rdot n x d = 0).
  { rewrite (dot_ext n x (Rmulv m (Rtr A) y) d d) by auto. rewrite <- dot_mulv_tr, dot_R.
    apply sumn_all0. intros i Hi. rewrite HAd0 by auto. ring. }
  rewrite (dot_ext n z (fun k => x k + d k) z (fun k => x k + d k)) by (intros; unfold d; ring).
  rewrite dot_plus_l, !dot_plus_r, (dot_sym n d x), Hxd.
  pose proof (dot_self_nonneg n d). lra.
Qed.
End LS.

(** *** min_norm_ls_characterisation: normal equations + x in range(A^T) => x is the minimum-norm least-squares solution *)
Theorem min_norm_ls_characterisation (m n : nat) (A : Rmat) (b x y : Rvec) :
  (forall j, (j < n)%nat -> Rmulv m (Rtr A) (fun i => Rmulv n A x i - b i) j = 0) ->
  (forall j, (j < n)%nat -> x j = Rmulv m (Rtr A) y j) ->
  (forall z, Rdot m (fun i => Rmulv n A x i - b i) (fun i => Rmulv n A x i - b i)
             <= Rdot m (fun i => Rmulv n A z i - b i) (fun i => Rmulv n A z i - b i)) /\
  (forall z, (forall j, (j < n)%nat -> Rmulv m (Rtr A) (fun i => Rmulv n A z i - b i) j = 0) -> Rdot n x x <= Rdot n z z).
Proof.
  intros Hne Hx. split.
  - intros z. apply (ls_minimal m n A b x Hne z).
  - intros z Hz. apply (ls_min_norm m n A b x Hne y z Hx Hz).
Qed.


(* ---------------------------------------------------------------- *)

Section SVD.
Variables (m n k : nat) (U Vt A : Rmat) (s : Rvec).
Hypothesis Hkm : (k <= m)%nat.
Hypothesis Hkn : (k <= n)%nat.
(** columns of U orthonormal, rows of Vt orthonormal *)
Hypothesis HU : forall p q, (p < m)%nat -> (q < m)%nat -> Rsum m (fun i => U i p * U i q) = delta ROps p q.
Hypothesis HV : forall p q, (p < n)%nat -> (q < n)%nat -> Rsum n (fun j => Vt p j * Vt q j) = delta ROps p q.
(** A = sum_{p<k} s_p u_p v_p^T *)
Hypothesis HA : forall i j, (i < m)%nat -> (j < n)%nat -> A i j = Rsum k (fun p => U i p * (s p * Vt p j)).

Definition colU (p : nat) : Rvec := fun i => U i p.
Definition comb (w : Rvec) : Rvec := fun j => Rsum k (fun q => w q * Vt q j).
Definition combU (c : Rvec) : Rvec := fun i => Rsum k (fun q => c q * U i q).

Lemma A_apply y i : (i < m)%nat -> Rmulv n A y i = Rsum k (fun p => U i p * (s p * Rdot n (Vt p) y)).
Proof.
  intros Hi. rewrite mulv_R.
  transitivity (Rsum n (fun j => Rsum k (fun p => U i p * (s p * Vt p j) * y j))).
  - apply sumn_ext. intros j Hj. rewrite HA by auto. rewrite <- sumn_scal_r. reflexivity.
  - rewrite sumn_swap. apply sumn_ext. intros p _. rewrite dot_R.
    rewrite <- !sumn_scal. apply sumn_ext. intros; ring.
Qed.
Lemma At_apply r j : (j < n)%nat -> Rmulv m (Rtr A) r j = Rsum k (fun p => Vt p j * (s p * Rdot m (colU p) r)).
Proof.
  intros Hj. rewrite mulv_R. unfold mtr.
  transitivity (Rsum m (fun i => Rsum k (fun p => U i p * (s p * Vt p j) * r i))).
  - apply sumn_ext. intros i Hi. rewrite HA by auto. rewrite <- sumn_scal_r. reflexivity.
  - rewrite sumn_swap. apply sumn_ext. intros p _. rewrite dot_R. unfold colU.
    rewrite <- !sumn_scal. apply sumn_ext. intros; ring.
Qed.
Lemma dot_comb p w : (p < k)%nat -> Rdot n (Vt p) (comb w) = w p.
Proof.
  intros Hp. rewrite dot_R. unfold comb.
  transitivity (Rsum n (fun j => Rsum k (fun q => w q * (Vt p j * Vt q j)))).
  - apply sumn_ext. intros j _. rewrite <- sumn_scal. apply sumn_ext. intros; ring.
  - rewrite sumn_swap.
    transitivity (Rsum k (fun q => delta ROps p q * w q)).
    + apply sumn_ext. intros q Hq. rewrite sumn_scal, HV by lia. ring.
    + apply sumn_delta_l; auto.
Qed.
Lemma dot_combU p c : (p < k)%nat -> Rdot m (colU p) (combU c) = c p.
Proof.
  intros Hp. rewrite dot_R. unfold combU, colU.
  transitivity (Rsum m (fun i => Rsum k (fun q => c q * (U i p * U i q)))).
  - apply sumn_ext. intros i _. rewrite <- sumn_scal. apply sumn_ext. intros; ring.
  - rewrite sumn_swap.
    transitivity (Rsum k (fun q => delta ROps p q * c q)).
    + apply sumn_ext. intros q Hq. rewrite sumn_scal, HU by lia. ring.
    + apply sumn_delta_l; auto.
Qed.
Lemma A_comb w i : (i < m)%nat -> Rmulv n A (comb w) i = combU (fun p => s p * w p) i.
Proof.
  intros Hi. rewrite A_apply by auto. unfold combU. apply sumn_ext. intros p Hp. rewrite dot_comb by auto. ring.
Qed.
Lemma At_combU c j : (j < n)%nat -> Rmulv m (Rtr A) (combU c) j = comb (fun p => s p * c p) j.
Proof.
  intros Hj. rewrite At_apply by auto. unfold comb. apply sumn_ext. intros p Hp. rewrite dot_combU by auto. ring.
Qed.
Lemma comb_ext w w' j : (forall q, (q < k)%nat -> w q = w' q) -> comb w j = comb w' j.
Proof. intros H. unfold comb. apply sumn_ext. intros q Hq. rewrite H; auto. Qed.

(** every combination of the v_q whose coefficient vanishes where s_q = 0 lies in the range of A^T *)
Lemma comb_in_rowspace w : (forall q, (q < k)%nat -> s q = 0 -> w q = 0) ->
  exists y, forall j, (j < n)%nat -> comb w j = Rmulv m (Rtr A) y j.
Proof.
  intros Hw. exists (combU (fun p => if Req_EM_T (s p) 0 then 0 else w p / s p)).
  intros j Hj. rewrite At_combU by auto. apply comb_ext. intros q Hq.
  destruct (Req_EM_T (s q) 0) as [E|E]. rewrite Hw by auto. ring. field; auto.
Qed.

(** *** the pseudo-inverse solution x = sum_q w_q v_q, w_q = (u_q . b)/s_q where s_q > 0, else 0 *)
Hypothesis Hs : forall p, (p < k)%nat -> 0 <= s p.
Variable b : Rvec.
Definition wpinv : Rvec := fun q => if Rltb 0 (s q) then Rdot m (colU q) b / s q else 0.

Lemma pinv_normal_equations j : (j < n)%nat ->
  Rmulv m (Rtr A) (fun i => Rmulv n A (comb wpinv) i - b i) j = 0.
Proof.
  intros Hj. rewrite mulv_minus.
  rewrite (mulv_ext m (Rtr A) _ (combU (fun p => s p * wpinv p)) j)
    by (intros i Hi; apply A_comb; auto).
  rewrite At_combU by auto. rewrite At_apply by auto. unfold comb. rewrite <- sumn_minus.
  apply sumn_all0. intros p Hp. unfold wpinv. destruct (Rltb 0 (s p)) eqn:E.
  - apply Rltb_true in E. field. lra.
  - apply Rltb_false in E. assert (s p = 0) by (specialize (Hs p Hp); lra). rewrite H. ring.
Qed.
Lemma pinv_in_rowspace : exists y, forall j, (j < n)%nat -> comb wpinv j = Rmulv m (Rtr A) y j.
Proof.
  apply comb_in_rowspace. intros q Hq E. unfold wpinv. rewrite E.
  replace (Rltb 0 0) with false by (symmetry; apply Rltb_false; lra). reflexivity.
Qed.

(** the model's [pinv_solution] (V S^+ U^T b as nested matrix-vector products) is that combination *)
Lemma pinv_solution_comb j : pinv_solution ROps m n k 0 U s Vt b j = comb wpinv j.
Proof.
  unfold pinv_solution, comb. rewrite mulv_R. unfold mtr.
  rewrite (sumn_prefix k n) ; auto.
  - apply sumn_ext. intros q Hq. rewrite mulv_R.
    transitivity (Vt q j * Rsum m (fun p => if Nat.eqb q p then (if Rltb 0 (s q) then 1 / s q * Rmulv m (fun i j0 => U j0 i) b p else 0) else 0)).
    + f_equal. apply sumn_ext. intros p Hp. unfold pinvdiag. cbn [ROps n0 n1 ndiv nltb].
      destruct (Nat.eqb_spec q p) as [<-|]; cbn [andb]; [|ring].
      destruct (Nat.ltb_spec q k); [|lia]. cbn [andb]. destruct (Rltb 0 (s q)); ring.
    + rewrite sumn_pick by lia. unfold wpinv. destruct (Rltb 0 (s q)); [|ring].
      rewrite mulv_R, dot_R. unfold colU, Rdiv. ring.
  - intros p Hp. rewrite mulv_R. rewrite sumn_all0. ring.
    intros q Hq. unfold pinvdiag. destruct (Nat.eqb_spec p q) as [<-|]; cbn [andb]. 
    destruct (Nat.ltb_spec p k); [lia|]. cbn [andb]. cbn. ring. cbn; ring.
Qed.

(** kernel characterisation (the rank statement in the form that needs no dimension theory):
    A z = 0  iff  z is orthogonal to every v_p with s_p <> 0 *)
Lemma svd_kernel z : (forall i, (i < m)%nat -> Rmulv n A z i = 0) <->
                     (forall p, (p < k)%nat -> s p <> 0 -> Rdot n (Vt p) z = 0).
Proof.
  split.
  - intros H p Hp Hsp.
    assert (E : Rdot m (colU p) (fun i => Rmulv n A z i) = s p * Rdot n (Vt p) z).
    { rewrite (dot_ext m (colU p) (colU p) _ (combU (fun q => s q * Rdot n (Vt q) z))); auto.
      apply dot_combU; auto. intros i Hi. rewrite A_apply by auto. unfold combU. apply sumn_ext. intros; ring. }
    assert (Z : Rdot m (colU p) (fun i => Rmulv n A z i) = 0).
    { rewrite dot_R. apply sumn_all0. intros i Hi. rewrite H by auto. ring. }
    rewrite Z in E. apply Rmult_integral in E || (symmetry in E; apply Rmult_integral in E). destruct E; tauto.
  - intros H i Hi. rewrite A_apply by auto. apply sumn_all0. intros p Hp.
    destruct (Req_EM_T (s p) 0) as [E|E]. rewrite E; ring. rewrite H by auto. ring.
Qed.
End SVD.


(* ---------------------------------------------------------------- *)

Notation Rmmul := (mmul ROps).

Lemma mmul_R p (A B : Rmat) i j : Rmmul p A B i j = Rsum p (fun q => A i q * B q j). Proof. reflexivity. Qed.

(** U * diag(s) * Vt in the compact form sum_{p<k} s_p u_p v_p^T *)
Lemma recon_compact m n k (U Vt : Rmat) (s : Rvec) i j : (k <= m)%nat -> (k <= n)%nat ->
  Rmmul m U (Rmmul n (diagm ROps k s) Vt) i j = Rsum k (fun p => U i p * (s p * Vt p j)).
Proof.
  intros Hm Hn. rewrite mmul_R. rewrite (sumn_prefix k m); auto.
  - apply sumn_ext. intros p Hp. f_equal. rewrite mmul_R.
    transitivity (Rsum n (fun q => if Nat.eqb p q then s p * Vt q j else 0)).
    + apply sumn_ext. intros q Hq. unfold diagm. cbn [ROps n0].
      destruct (Nat.eqb_spec p q) as [<-|]; cbn [andb]; [|ring]. destruct (Nat.ltb_spec p k); [|lia]. ring.
    + rewrite sumn_pick by lia. reflexivity.
  - intros p Hp. rewrite mmul_R. rewrite sumn_all0. ring. intros q Hq. unfold diagm. cbn [ROps n0].
    destruct (Nat.eqb_spec p q) as [<-|]; cbn [andb]; [|ring]. destruct (Nat.ltb_spec p k); [lia|]. ring.
Qed.

Lemma orth_check_spec n (U : Rmat) : orth_check ROps n 0 U = true ->
  (forall p q, (p < n)%nat -> (q < n)%nat -> Rsum n (fun i => U i p * U i q) = delta ROps p q) /\
  (forall i j, (i < n)%nat -> (j < n)%nat -> Rsum n (fun p => U i p * U j p) = delta ROps i j).
Proof.
  unfold orth_check. rewrite andb_true_iff, !mat_le_0. intros [H1 H2]. split; intros p q Hp Hq.
  - specialize (H1 p q Hp Hq). unfold orth_resid in H1. cbn [ROps nsub] in H1. rewrite mmul_R in H1. unfold mtr in H1. lra.
  - specialize (H2 p q Hp Hq). unfold orth_resid' in H2. cbn [ROps nsub] in H2. rewrite mmul_R in H2. unfold mtr in H2. lra.
Qed.
Lemma recon_check_spec m n k (A U Vt : Rmat) s : (k <= m)%nat -> (k <= n)%nat ->
  recon_check ROps m n 0 A U (diagm ROps k s) Vt = true ->
  forall i j, (i < m)%nat -> (j < n)%nat -> A i j = Rsum k (fun p => U i p * (s p * Vt p j)).
Proof.
  intros Hm Hn H i j Hi Hj. unfold recon_check in H. rewrite mat_le_0 in H. specialize (H i j Hi Hj).
  unfold recon_resid in H. cbn [ROps nsub] in H. rewrite recon_compact in H by auto. lra.
Qed.
Lemma desc_check_spec k (s : Rvec) : desc_check ROps k s = true ->
  (forall p, (p < k)%nat -> 0 <= s p) /\ (forall p q, (p <= q)%nat -> (q < k)%nat -> s q <= s p).
Proof.
  unfold desc_check. rewrite andb_true_iff, !alln_spec. intros [H1 H2]. split.
  - intros p Hp. apply Rleb_true. apply (H1 p Hp).
  - intros p q Hpq Hq. induction Hpq. lra.
    assert (s (S m) <= s m) by (apply Rleb_true; apply (H2 m); lia).
    assert (s m <= s p) by (apply IHHpq; lia). lra.
Qed.

(** *** svd_certificate_implies_rank_and_pinv, part 1: the pseudo-inverse solution of an accepted SVD certificate
        is the minimum-norm least-squares solution *)
Theorem svd_certificate_implies_pinv_min_norm (m n k : nat) (A U Vt : Rmat) (s b : Rvec) :
  (k <= m)%nat -> (k <= n)%nat ->
  orth_check ROps m 0 U = true -> orth_check ROps n 0 Vt = true ->
  recon_check ROps m n 0 A U (diagm ROps k s) Vt = true -> desc_check ROps k s = true ->
  let x := pinv_solution ROps m n k 0 U s Vt b in
  let res := fun z : Rvec => fun i => Rmulv n A z i - b i in
  (forall j, (j < n)%nat -> Rmulv m (Rtr A) (res x) j = 0) /\
  (exists y, forall j, (j < n)%nat -> x j = Rmulv m (Rtr A) y j) /\
  (forall z, Rdot m (res x) (res x) <= Rdot m (res z) (res z)) /\
  (forall z, (forall j, (j < n)%nat -> Rmulv m (Rtr A) (res z) j = 0) -> Rdot n x x <= Rdot n z z).
Proof.
  intros Hm Hn HU HV HA Hd x res.
  destruct (orth_check_spec _ _ HU) as [HU1 _]. destruct (orth_check_spec _ _ HV) as [_ HV2].
  pose proof (recon_check_spec _ _ _ _ _ _ _ Hm Hn HA) as HA'.
  destruct (desc_check_spec _ _ Hd) as [Hs _].
  assert (Hx : forall j, x j = comb k Vt (wpinv m U s b) j).
  { intros j. apply (pinv_solution_comb m n k U Vt s Hm Hn b j). }
  assert (Hne : forall j, (j < n)%nat -> Rmulv m (Rtr A) (res x) j = 0).
  { intros j Hj. erewrite <- (pinv_normal_equations m n k U Vt A s); eauto.
    apply mulv_ext. intros i Hi. unfold res. f_equal. apply mulv_ext. intros; apply Hx. }
  destruct (pinv_in_rowspace m n k U Vt A s Hm Hn HU1 HA' b) as [y Hy].
  assert (Hrow : forall j, (j < n)%nat -> x j = Rmulv m (Rtr A) y j) by (intros j Hj; rewrite Hx; auto).
  destruct (min_norm_ls_characterisation m n A b x y Hne Hrow) as [M1 M2].
  repeat split; auto. exists y; auto.
Qed.

(** part 2 (rank, in the dimension-free form): the kernel of A is exactly the orthogonal complement of the v_p with s_p <> 0 *)
Theorem svd_certificate_kernel (m n k : nat) (A U Vt : Rmat) (s z : Rvec) :
  (k <= m)%nat -> (k <= n)%nat ->
  orth_check ROps m 0 U = true -> orth_check ROps n 0 Vt = true ->
  recon_check ROps m n 0 A U (diagm ROps k s) Vt = true ->
  ((forall i, (i < m)%nat -> Rmulv n A z i = 0) <-> (forall p, (p < k)%nat -> s p <> 0 -> Rdot n (Vt p) z = 0)).
Proof.
  intros Hm Hn HU HV HA.
  destruct (orth_check_spec _ _ HU) as [HU1 _]. destruct (orth_check_spec _ _ HV) as [_ HV2].
  pose proof (recon_check_spec _ _ _ _ _ _ _ Hm Hn HA) as HA'.
  eapply svd_kernel; eauto.
Qed.

(** part 3: the rank count of FactorSVDRep::computeSVD returns r when exactly the first r singular values are non-zero
    and the threshold rcond*s_0 lies below s_(r-1) *)


(* ---------------------------------------------------------------- *)

Lemma countn_prefix k r (p : nat -> bool) : (r <= k)%nat ->
  (forall i, (i < r)%nat -> p i = true) -> (forall i, (r <= i < k)%nat -> p i = false) -> countn k p = r.
Proof.
  intros Hr H1 H2. induction k. assert (r = 0)%nat by lia. subst; reflexivity.
  cbn. destruct (Nat.eq_dec r (S k)) as [E|E].
  - rewrite (H1 k) by lia.
    assert (countn k p = k) as ->; [|lia].
    clear IHk H2 Hr. assert (forall i, (i < k)%nat -> p i = true) as H by (intros; apply H1; lia). clear H1 E.
    induction k; cbn; auto. rewrite (H k) by lia. rewrite IHk; [lia|]. intros; apply H; lia.
  - rewrite (H2 k) by lia. rewrite IHk; try lia. intros i Hi. apply H2. lia.
Qed.

(** *** the rank count of FactorSVDRep::computeSVD (values[i] > rcond*values[0]) is the number of non-zero singular values
        when these are s_0 >= ... >= s_(r-1) > 0 = s_r = ... and 0 <= rcond*s_0 < s_(r-1) *)
Theorem svd_rank_counts_nonzero (k r : nat) (s : Rvec) (rcond : R) :
  desc_check ROps k s = true -> (r <= k)%nat ->
  (forall p, (p < r)%nat -> 0 < s p) -> (forall p, (r <= p < k)%nat -> s p = 0) ->
  0 <= rcond -> (forall p, (p < r)%nat -> rcond * s O < s p) ->
  svd_rank ROps rcond k s = r.
Proof.
  intros Hd Hr Hpos Hzero Hrc Hthr. unfold svd_rank. apply countn_prefix; auto.
  - intros i Hi. apply Rltb_true. cbn. apply Hthr; auto.
  - intros i Hi. apply Rltb_false. cbn. rewrite (Hzero i Hi).
    destruct (desc_check_spec _ _ Hd) as [Hs _]. assert (0 <= s O) by (apply Hs; lia). nra.
Qed.
(** by the descending order it is enough to place the threshold below the last non-zero singular value *)
Theorem svd_rank_counts_nonzero' (k r : nat) (s : Rvec) (rcond : R) :
  desc_check ROps k s = true -> (0 < r <= k)%nat ->
  (forall p, (p < r)%nat -> 0 < s p) -> (forall p, (r <= p < k)%nat -> s p = 0) ->
  0 <= rcond -> rcond * s O < s (pred r) ->
  svd_rank ROps rcond k s = r.
Proof.
  intros Hd Hr Hpos Hzero Hrc Hthr. apply svd_rank_counts_nonzero; auto; try lia.
  intros p Hp. destruct (desc_check_spec _ _ Hd) as [_ Hmono].
  assert (s (pred r) <= s p) by (apply Hmono; lia). lra.
Qed.

(** the same for the documented default tolerance max(m,n)*eps^(7/8) of the entry points without an rcond argument *)
Theorem svd_rank_default_counts_nonzero (m n k r : nat) (s : Rvec) (sig : R) :
  desc_check ROps k s = true -> (0 < r <= k)%nat ->
  (forall p, (p < r)%nat -> 0 < s p) -> (forall p, (r <= p < k)%nat -> s p = 0) ->
  0 <= sig -> INR (Nat.max m n) * sig * s O < s (pred r) ->
  svd_rank_default ROps sig m n k s = r.
Proof.
  intros Hd Hr Hpos Hzero Hsig Hthr. unfold svd_rank_default, default_rcond. cbn [ROps nmul nofZ].
  rewrite <- INR_IZR_INZ. apply svd_rank_counts_nonzero'; auto. apply Rmult_le_pos; auto. apply pos_INR.
Qed.

(** *** a vector orthogonal to the null-space rows r..n-1 of an exact SVD certificate of rank r lies in the range of A^T;
        with the normal equations it is therefore THE minimum-norm least-squares solution (certificate for FactorQTZ::solve) *)
Theorem nullorth_certificate_min_norm (m n k r : nat) (A U Vt : Rmat) (s b x : Rvec) :
  (k <= m)%nat -> (k <= n)%nat -> (r <= k)%nat ->
  orth_check ROps m 0 U = true -> orth_check ROps n 0 Vt = true ->
  recon_check ROps m n 0 A U (diagm ROps k s) Vt = true ->
  (forall p, (p < r)%nat -> s p <> 0) ->
  normal_check ROps m n 0 A x b = true -> nullorth_check ROps n r 0 Vt x = true ->
  let res := fun z : Rvec => fun i => Rmulv n A z i - b i in
  (exists y, forall j, (j < n)%nat -> x j = Rmulv m (Rtr A) y j) /\
  (forall z, Rdot m (res x) (res x) <= Rdot m (res z) (res z)) /\
  (forall z, (forall j, (j < n)%nat -> Rmulv m (Rtr A) (res z) j = 0) -> Rdot n x x <= Rdot n z z).
Proof.
  intros Hm Hn Hr HU HV HA Hsr Hne Hno res.
  destruct (orth_check_spec _ _ HU) as [HU1 _]. destruct (orth_check_spec _ _ HV) as [HV1 HV2].
  pose proof (recon_check_spec _ _ _ _ _ _ _ Hm Hn HA) as HA'.
  assert (Hne' : forall j, (j < n)%nat -> Rmulv m (Rtr A) (res x) j = 0).
  { unfold normal_check in Hne. rewrite vec_le_0 in Hne. intros j Hj. specialize (Hne j Hj). exact Hne. }
  assert (Hno' : forall q, (r <= q < n)%nat -> Rdot n (Vt q) x = 0).
  { unfold nullorth_check in Hno. rewrite vec_le_0 in Hno. intros q Hq. specialize (Hno (q - r)%nat).
    unfold nullorth_resid in Hno. replace (r + (q - r))%nat with q in Hno by lia. apply Hno. lia. }
  (* completeness: x = sum_q (v_q . x) v_q, and only q < r contribute *)
  set (w := fun q => if Nat.ltb q r then Rdot n (Vt q) x else 0).
  assert (Hx : forall j, (j < n)%nat -> x j = comb k Vt w j).
  { intros j Hj. unfold comb.
    transitivity (Rsum n (fun q => Rdot n (Vt q) x * Vt q j)).
    - transitivity (Rsum n (fun i => x i * delta ROps i j)). symmetry; apply sumn_delta_r; auto.
      transitivity (Rsum n (fun i => Rsum n (fun q => x i * (Vt q i * Vt q j)))).
      + apply sumn_ext. intros i Hi. rewrite sumn_scal, HV1 by auto. reflexivity.
      + rewrite sumn_swap. apply sumn_ext. intros q Hq. rewrite dot_R, <- sumn_scal_r. apply sumn_ext. intros; ring.
    - rewrite (sumn_prefix k n); auto.
      + apply sumn_ext. intros q Hq. unfold w. destruct (Nat.ltb_spec q r); auto. rewrite Hno' by lia. ring.
      + intros q Hq. rewrite Hno' by lia. ring. }
  assert (Hrow : exists y, forall j, (j < n)%nat -> x j = Rmulv m (Rtr A) y j).
  { destruct (comb_in_rowspace m n k U Vt A s Hm Hn HU1 HA' w) as [y Hy].
    - intros q Hq E. unfold w. destruct (Nat.ltb_spec q r); auto. exfalso. apply (Hsr q); auto.
    - exists y. intros j Hj. rewrite Hx by auto. auto. }
  destruct Hrow as [y Hy].
  destruct (min_norm_ls_characterisation m n A b x y Hne' Hy) as [M1 M2].
  repeat split; auto. exists y; auto.
Qed.

(** *** sym_eig_certificate: an orthogonal V whose columns satisfy A v_j = lam_j v_j gives the spectral decomposition
        A = V diag(lam) V^T (so A is symmetric) and the list lam is the COMPLETE spectrum of A *)
Theorem sym_eig_certificate (n : nat) (A V : Rmat) (lam : Rvec) :
  orth_check ROps n 0 V = true -> eig_check ROps n 0 A lam V = true ->
  (forall i j, (i < n)%nat -> (j < n)%nat -> A i j = Rsum n (fun p => lam p * (V i p * V j p))) /\
  (forall i j, (i < n)%nat -> (j < n)%nat -> A i j = A j i) /\
  (forall (mu : R) (w : Rvec), (exists i, (i < n)%nat /\ w i <> 0) ->
     (forall i, (i < n)%nat -> Rmulv n A w i = mu * w i) -> exists p, (p < n)%nat /\ lam p = mu).
Proof.
  intros HV HE. destruct (orth_check_spec _ _ HV) as [HV1 HV2].
  assert (HE' : forall i j, (i < n)%nat -> (j < n)%nat -> Rsum n (fun q => A i q * V q j) = lam j * V i j).
  { unfold eig_check in HE. rewrite mat_le_0 in HE. intros i j Hi Hj. specialize (HE i j Hi Hj).
    unfold eig_resid in HE. cbn [ROps nsub nmul] in HE. rewrite mmul_R in HE. lra. }
  assert (Hdec : forall i j, (i < n)%nat -> (j < n)%nat -> A i j = Rsum n (fun p => lam p * (V i p * V j p))).
  { intros i j Hi Hj.
    transitivity (Rsum n (fun q => A i q * delta ROps q j)). symmetry; apply sumn_delta_r; auto.
    transitivity (Rsum n (fun q => Rsum n (fun p => A i q * (V q p * V j p)))).
    - apply sumn_ext. intros q Hq. rewrite sumn_scal, HV2 by auto. reflexivity.
    - rewrite sumn_swap. apply sumn_ext. intros p Hp.
      transitivity (Rsum n (fun q => A i q * V q p) * V j p).
      + rewrite <- sumn_scal_r. apply sumn_ext. intros; ring.
      + rewrite HE' by auto. ring. }
  assert (Hsym : forall i j, (i < n)%nat -> (j < n)%nat -> A i j = A j i).
  { intros i j Hi Hj. rewrite !Hdec by auto. apply sumn_ext. intros; ring. }
  repeat split; auto.
  intros mu w [i0 [Hi0 Hw0]] Hw.
  (* (lam_p - mu) (V^T w)_p = 0 for every p *)
  set (c := fun p => Rsum n (fun i => V i p * w i)).
  assert (Hc : forall p, (p < n)%nat -> (lam p - mu) * c p = 0).
  { intros p Hp.
    assert (E1 : Rsum n (fun i => V i p * Rmulv n A w i) = lam p * c p).
    { transitivity (Rsum n (fun i => Rsum n (fun j => V i p * (A i j * w j)))).
      - apply sumn_ext. intros i Hi. rewrite mulv_R, <- sumn_scal. reflexivity.
      - rewrite sumn_swap. unfold c. rewrite <- sumn_scal. apply sumn_ext. intros j Hj.
        transitivity (Rsum n (fun i => A j i * V i p) * w j).
        + rewrite <- sumn_scal_r. apply sumn_ext. intros i Hi. rewrite (Hsym i j) by auto. ring.
        + rewrite HE' by auto. ring. }
    assert (E2 : Rsum n (fun i => V i p * Rmulv n A w i) = mu * c p).
    { unfold c. rewrite <- sumn_scal. apply sumn_ext. intros i Hi. rewrite Hw by auto. ring. }
    rewrite E1 in E2. lra. }
  apply NNPP. intros Hno.
  assert (Hc0 : forall p, (p < n)%nat -> c p = 0).
  { intros p Hp. specialize (Hc p Hp). apply Rmult_integral in Hc. destruct Hc as [E|E]; auto.
    exfalso. apply Hno. exists p. split; auto. lra. }
  (* then w = V V^T w = 0 *)
  apply Hw0.
  transitivity (Rsum n (fun i => delta ROps i0 i * w i)). symmetry; apply sumn_delta_l; auto.
  transitivity (Rsum n (fun i => Rsum n (fun p => V i0 p * (V i p * w i)))).
  - apply sumn_ext. intros i Hi. rewrite <- HV2 by auto. rewrite <- sumn_scal_r. apply sumn_ext. intros; ring.
  - rewrite sumn_swap. apply sumn_all0. intros p Hp. rewrite sumn_scal. fold (c p). rewrite Hc0 by auto. ring.
Qed.

(** *** inverse certificate: A Ai = I and Ai A = I  =>  (A x = b  <->  x = Ai b); solutions are unique *)
Theorem inverse_certificate (n : nat) (A Ai : Rmat) (x b : Rvec) :
  inverse_check ROps n 0 A Ai = true ->
  ((forall i, (i < n)%nat -> Rmulv n A x i = b i) <-> (forall i, (i < n)%nat -> x i = Rmulv n Ai b i)).
Proof.
  unfold inverse_check. rewrite andb_true_iff, !mat_le_0. intros [H1 H2].
  assert (H1' : forall i j, (i < n)%nat -> (j < n)%nat -> Rsum n (fun q => A i q * Ai q j) = delta ROps i j).
  { intros i j Hi Hj. specialize (H1 i j Hi Hj). cbn [ROps nsub] in H1. rewrite mmul_R in H1. lra. }
  assert (H2' : forall i j, (i < n)%nat -> (j < n)%nat -> Rsum n (fun q => Ai i q * A q j) = delta ROps i j).
  { intros i j Hi Hj. specialize (H2 i j Hi Hj). cbn [ROps nsub] in H2. rewrite mmul_R in H2. lra. }
  split; intros H i Hi.
  - transitivity (Rsum n (fun j => delta ROps i j * x j)). symmetry; apply sumn_delta_l; auto.
    transitivity (Rsum n (fun j => Rsum n (fun q => Ai i q * (A q j * x j)))).
    + apply sumn_ext. intros j Hj. rewrite <- H2' by auto. rewrite <- sumn_scal_r. apply sumn_ext. intros; ring.
    + rewrite sumn_swap. rewrite mulv_R. apply sumn_ext. intros q Hq. rewrite sumn_scal. f_equal.
      rewrite <- H by auto. reflexivity.
  - transitivity (Rsum n (fun j => delta ROps i j * b j)); [|apply sumn_delta_l; auto].
    rewrite mulv_R.
    transitivity (Rsum n (fun q => Rsum n (fun j => A i q * (Ai q j * b j)))).
    + apply sumn_ext. intros q Hq. rewrite H by auto. rewrite mulv_R, <- sumn_scal. reflexivity.
    + rewrite sumn_swap. apply sumn_ext. intros j Hj. rewrite <- H1' by auto. rewrite <- sumn_scal_r. apply sumn_ext. intros; ring.
Qed.
Theorem solve_unique (n : nat) (A Ai : Rmat) (x z b : Rvec) :
  inverse_check ROps n 0 A Ai = true -> solve_check ROps n n 0 A x b = true -> solve_check ROps n n 0 A z b = true ->
  forall i, (i < n)%nat -> x i = z i.
Proof.
  intros Hi Hx Hz i Hlt. unfold solve_check in *. rewrite vec_le_0 in Hx, Hz.
  assert (Ex : forall i, (i < n)%nat -> Rmulv n A x i = b i) by (intros j Hj; specialize (Hx j Hj); unfold solve_resid, vsub in Hx; cbn in Hx; lra).
  assert (Ez : forall i, (i < n)%nat -> Rmulv n A z i = b i) by (intros j Hj; specialize (Hz j Hj); unfold solve_resid, vsub in Hz; cbn in Hz; lra).
  rewrite (proj1 (inverse_certificate n A Ai x b Hi) Ex i Hlt), (proj1 (inverse_certificate n A Ai z b Hi) Ez i Hlt). reflexivity.
Qed.


(* ---------------------------------------------------------------- *)

(** non-vacuity: a concrete rank-1 2x2 certificate A = diag(3,0), U = V = I, s = (3,0) *)
Definition exI : Rmat := fun i j => if Nat.eqb i j then 1 else 0.
Definition exA : Rmat := fun i j => if Nat.eqb i 0 && Nat.eqb j 0 then 3 else 0.
Definition exs : Rvec := fun i => if Nat.eqb i 0 then 3 else 0.
Ltac fin2 := match goal with |- forall i j, (i < 2)%nat -> (j < 2)%nat -> _ =>
  let i := fresh "i" in let j := fresh "j" in let Hi := fresh in let Hj := fresh in
  intros i j Hi Hj; destruct i as [|[|i]]; destruct j as [|[|j]]; try lia; cbn; try ring end.
Ltac fin1 := match goal with |- forall i, (i < 2)%nat -> _ =>
  let i := fresh "i" in let Hi := fresh in intros i Hi; destruct i as [|[|i]]; try lia; cbn; try ring end.

Example svd_certificate_example :
  orth_check ROps 2 0 exI = true /\ recon_check ROps 2 2 0 exA exI (diagm ROps 2 exs) exI = true /\
  desc_check ROps 2 exs = true /\ svd_rank ROps (1 / 1000) 2 exs = 1%nat.
Proof.
  repeat split.
  - unfold orth_check. apply andb_true_iff; split; apply mat_le_0; fin2.
  - apply mat_le_0; fin2.
  - unfold desc_check. apply andb_true_iff; split; apply alln_spec.
    + fin1; apply Rleb_true; lra.
    + intros i Hi. destruct i; [|cbn in Hi; lia]. apply Rleb_true. cbn. lra.
  - apply (svd_rank_counts_nonzero' 2 1 exs (1 / 1000)).
    + unfold desc_check. apply andb_true_iff; split; apply alln_spec.
      * fin1; apply Rleb_true; lra.
      * intros i Hi. destruct i; [|cbn in Hi; lia]. apply Rleb_true. cbn. lra.
    + lia.
    + intros p Hp. destruct p; [cbn; lra | lia].
    + intros p Hp. destruct p as [|[|p]]; try lia. reflexivity.
    + lra.
    + cbn. lra.
Qed.
Example qtz_certificate_example :
  let x : Rvec := fun i => if Nat.eqb i 0 then 1 else 0 in
  let b : Rvec := fun i => if Nat.eqb i 0 then 3 else 5 in
  normal_check ROps 2 2 0 exA x b = true /\ nullorth_check ROps 2 1 0 exI x = true.
Proof.
  split.
  - apply vec_le_0; fin1.
  - apply vec_le_0. intros i Hi. destruct i; [|cbn in Hi; lia]. cbn. ring.
Qed.
Example eig_certificate_example :
  let A : Rmat := fun i j => if Nat.eqb i j then (if Nat.eqb i 0 then 1 else 2) else 0 in
  let lam : Rvec := fun i => if Nat.eqb i 0 then 1 else 2 in
  orth_check ROps 2 0 exI = true /\ eig_check ROps 2 0 A lam exI = true.
Proof.
  split.
  - unfold orth_check. apply andb_true_iff; split; apply mat_le_0; fin2.
  - apply mat_le_0; fin2.
Qed.
Example inverse_certificate_example :
  let A : Rmat := fun i j => if Nat.eqb i j then (if Nat.eqb i 0 then 2 else 4) else 0 in
  let Ai : Rmat := fun i j => if Nat.eqb i j then (if Nat.eqb i 0 then 1 / 2 else 1 / 4) else 0 in
  inverse_check ROps 2 0 A Ai = true.
Proof. unfold inverse_check. apply andb_true_iff; split; apply mat_le_0; fin2; field. Qed.
