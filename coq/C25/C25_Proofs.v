(** C25 (fixed-size part) proofs over the definitions generated from SmallMatrixMixed.h
    (Gen/sm25c_gen.v cross products, Gen/sm25d_gen.v determinants, Gen/sm25i_gen.v inverses). Over the reals. *)
From Coq Require Import ZArith Reals Lra Psatz Nsatz.
Require Import Num Vec Tactics sm25c_gen sm25d_gen sm25i_gen.
Local Open Scope R_scope.

Ltac unf25 := cbv [k25_cross k25_cross_vs k25_cross_sv k25_cross2 k25_crossMat k25_crossMatSq k25_det33 k25_detSym33
  k25_inv33 k25_invSym33]; vunf.
Definition I33 : Mat33 R := ((1,0,0),(0,1,0),(0,0,1)).
Notation mm := (m33_mul ROps).
Ltac dmat A := destruct A as [[[[? ?] ?] [[? ?] ?]] [[? ?] ?]].
Ltac dvec v := destruct v as [[? ?] ?].
Ltac dsym s := destruct s as [[[? ?] ?] [[? ?] ?]].

(** ** determinant *)
Lemma det33_is_triple_product m : k25_det33 ROps m = m33_det ROps m.
Proof. dmat m. unf25. ring. Qed.
Lemma det33_mul a b : k25_det33 ROps (mm a b) = k25_det33 ROps a * k25_det33 ROps b.
Proof. dmat a; dmat b. unf25. ring. Qed.
Lemma det33_transpose m : k25_det33 ROps (m33_T m) = k25_det33 ROps m.
Proof. dmat m. unf25. ring. Qed.
Lemma det33_identity : k25_det33 ROps I33 = 1.
Proof. unfold I33. unf25. ring. Qed.
Lemma det33_scale c m : k25_det33 ROps (m33_scale ROps c m) = c * c * c * k25_det33 ROps m.
Proof. dmat m. unf25. ring. Qed.
Lemma detSym33_is_det33 s : k25_detSym33 ROps s = k25_det33 ROps (sym_to_m33 s).
Proof. dsym s. unf25. ring. Qed.

(** ** inverse: for det <> 0 the 3x3 inverse is a two-sided inverse *)
Lemma inv33_right m : k25_det33 ROps m <> 0 -> mm m (k25_inv33 ROps m) = I33.
Proof. dmat m. unfold I33. unf25. intros H. teq; field; intro Z; apply H; rewrite <- Z; ring. Qed.
Lemma inv33_left m : k25_det33 ROps m <> 0 -> mm (k25_inv33 ROps m) m = I33.
Proof. dmat m. unfold I33. unf25. intros H. teq; field; intro Z; apply H; rewrite <- Z; ring. Qed.
Lemma inv33_solves m x : k25_det33 ROps m <> 0 ->
  m33_mulv ROps m (m33_mulv ROps (k25_inv33 ROps m) x) = x.
Proof. dmat m; dvec x. unf25. intros H. teq; field; intro Z; apply H; rewrite <- Z; ring. Qed.
Lemma det_inv33 m : k25_det33 ROps m <> 0 -> k25_det33 ROps (k25_inv33 ROps m) * k25_det33 ROps m = 1.
Proof. intros H. rewrite <- det33_mul, inv33_left by auto. apply det33_identity. Qed.
(** SymMat<3,E> inverse (the kernel reads the elements above the diagonal with getEltUpper since fix ee24b642). *)
Lemma invSym33_is_inv33 s : k25_detSym33 ROps s <> 0 ->
  sym_to_m33 (k25_invSym33 ROps s) = k25_inv33 ROps (sym_to_m33 s).
Proof. dsym s. unf25. intros H. teq; field; intro Z; apply H; rewrite <- Z; ring. Qed.
Lemma invSym33_right s : k25_detSym33 ROps s <> 0 -> mm (sym_to_m33 s) (sym_to_m33 (k25_invSym33 ROps s)) = I33.
Proof. intros H. rewrite invSym33_is_inv33 by auto. apply inv33_right. rewrite <- detSym33_is_det33. auto. Qed.
Lemma invSym33_left s : k25_detSym33 ROps s <> 0 -> mm (sym_to_m33 (k25_invSym33 ROps s)) (sym_to_m33 s) = I33.
Proof. intros H. rewrite invSym33_is_inv33 by auto. apply inv33_left. rewrite <- detSym33_is_det33. auto. Qed.

(** Regression record of the defect fixed by ee24b642: before the fix the code read s(0,1), s(0,2), s(1,2) through
    SymMat::operator()(i,j), which a Release build evaluates as the slots of s(1,0), s(1,0), s(2,0).  That expression
    (hand-copied below, NOT the current code) is not an inverse; the current translated kernel is, on the same witness. *)
Definition invSym33_before_fix (s : SymMat33 R) : SymMat33 R :=
  let '((xx,yy,zz),(xy,xz,yz)) := s in
  let s01 := xy in let s02 := xy in let s12 := xz in        (* what operator()(0,1), (0,2), (1,2) returned *)
  let d00 := yy*zz - s12*yz in let nd01 := s12*xz - xy*zz in let d02 := xy*yz - yy*xz in
  let d := xx*d00 + s01*nd01 + s02*d02 in let ood := 1/d in
  let d11 := xx*zz - s02*xz in let nd12 := s01*xz - xx*yz in let d22 := xx*yy - s01*xy in
  ((ood*d00, ood*d11, ood*d22), (ood*nd01, ood*d02, ood*nd12)).
Lemma invSym33_before_fix_was_wrong :
  let s : SymMat33 R := ((2,3,4),(1/10,1/5,3/10)) in
  k25_detSym33 ROps s <> 0 /\ mm (sym_to_m33 s) (sym_to_m33 (invSym33_before_fix s)) <> I33 /\
  mm (sym_to_m33 s) (sym_to_m33 (k25_invSym33 ROps s)) = I33.
Proof. cbv zeta. split; [unf25; lra|]. split.
  - unfold I33, invSym33_before_fix. vunf. intro E. injection E. intros. lra.
  - apply invSym33_right. unf25. lra. Qed.

(** ** cross products *)
Lemma cross_is_cross a b : k25_cross ROps a b = v3_cross ROps a b.
Proof. dvec a; dvec b. reflexivity. Qed.
Lemma cross_anticommutes a b : k25_cross ROps a b = v3_neg ROps (k25_cross ROps b a).
Proof. dvec a; dvec b. unf25. teq; ring. Qed.
Lemma cross_self a : k25_cross ROps a a = (0,0,0).
Proof. dvec a. unf25. teq; ring. Qed.
Lemma cross_orthogonal a b : v3_dot ROps a (k25_cross ROps a b) = 0 /\ v3_dot ROps b (k25_cross ROps a b) = 0.
Proof. dvec a; dvec b. unf25. split; ring. Qed.
Lemma cross_lagrange a b : v3_normSqr ROps (k25_cross ROps a b) =
  v3_normSqr ROps a * v3_normSqr ROps b - v3_dot ROps a b * v3_dot ROps a b.
Proof. dvec a; dvec b. unf25. ring. Qed.
Lemma cross_bilinear a b c s : k25_cross ROps (v3_add ROps a (v3_scale ROps s b)) c =
  v3_add ROps (k25_cross ROps a c) (v3_scale ROps s (k25_cross ROps b c)).
Proof. dvec a; dvec b; dvec c. unf25. teq; ring. Qed.
Lemma cross_bac_cab a b c : k25_cross ROps a (k25_cross ROps b c) =
  v3_sub ROps (v3_scale ROps (v3_dot ROps a c) b) (v3_scale ROps (v3_dot ROps a b) c).
Proof. dvec a; dvec b; dvec c. unf25. teq; ring. Qed.
Lemma triple_product_is_det a b c : v3_dot ROps a (k25_cross ROps b c) = k25_det33 ROps (a, b, c).
Proof. dvec a; dvec b; dvec c. unf25. ring. Qed.
Lemma cross2_is_z_of_cross a0 a1 b0 b1 : k25_cross2 ROps (a0,a1) (b0,b1) = v3_2 (k25_cross ROps (a0,a1,0) (b0,b1,0)).
Proof. unf25. ring. Qed.

(** ** cross-product matrices *)
Lemma crossMat_mulv v w : m33_mulv ROps (k25_crossMat ROps v) w = k25_cross ROps v w.
Proof. dvec v; dvec w. unf25. teq; ring. Qed.
Lemma crossMat_skew v : m33_T (k25_crossMat ROps v) = m33_neg ROps (k25_crossMat ROps v).
Proof. dvec v. unf25. teq; ring. Qed.
Lemma crossMat_is_base v : k25_crossMat ROps v = m33_crossMat ROps v.
Proof. dvec v. reflexivity. Qed.
Lemma cross_vec_sym v s : k25_cross_vs ROps v s = mm (k25_crossMat ROps v) (sym_to_m33 s).
Proof. dvec v; dsym s. unf25. teq; ring. Qed.
Lemma cross_sym_vec s v : k25_cross_sv ROps s v = mm (sym_to_m33 s) (k25_crossMat ROps v).
Proof. dvec v; dsym s. unf25. teq; ring. Qed.
Lemma crossMatSq_is_square v : sym_to_m33 (k25_crossMatSq ROps v) = m33_neg ROps (mm (k25_crossMat ROps v) (k25_crossMat ROps v)).
Proof. dvec v. unf25. teq; ring. Qed.
Lemma crossMatSq_is_Mt_M v : sym_to_m33 (k25_crossMatSq ROps v) = mm (m33_T (k25_crossMat ROps v)) (k25_crossMat ROps v).
Proof. dvec v. unf25. teq; ring. Qed.
Lemma crossMatSq_parallel_axis v : sym_to_m33 (k25_crossMatSq ROps v) =
  m33_sub ROps (m33_scale ROps (v3_dot ROps v v) I33) (m33_outer ROps v v).
Proof. dvec v. unfold I33. unf25. teq; ring. Qed.
Lemma crossMatSq_mulv v w : m33_mulv ROps (sym_to_m33 (k25_crossMatSq ROps v)) w = k25_cross ROps (k25_cross ROps v w) v.
Proof. dvec v; dvec w. unf25. teq; ring. Qed.

(** ** non-vacuity *)
Example ex_invertible : k25_det33 ROps ((2,1,0),(0,3,1),(1,0,2)) <> 0 /\ k25_detSym33 ROps ((2,3,4),(1,0,1)) <> 0.
Proof. unf25. split; lra. Qed.
