(** C25 (views part): the per-operation addressing lemmas about the model C25_views_Model.v (case analysis over the
    helper classes; lia/nia).  Used by C25_views_Proofs.v. *)
From Coq Require Import List Arith ZArith Bool Lia ZifyBool.
Require Import C25_views_Model.
Import ListNotations.

Ltac bd := repeat match goal with
  | |- context [if ?c then _ else _] => let E := fresh "E" in destruct c eqn:E
  | H : context [if ?c then _ else _] |- _ => let E := fresh "E" in destruct c eqn:E
  end.

Ltac vcbn := unfold vaddr in *; cbn [v_buf v_h v_nr v_nc v_base v_neg v_conj v_shape v_owner fst snd addr negb] in *.

(** ** element adaptors: negator<> and the Hermitian element type are involutions and commute *)
Lemma eneg_invol e : eneg (eneg e) = e.
Proof. unfold eneg. rewrite map_map. rewrite <- (map_id e) at 2. apply map_ext. intro; lia. Qed.
Lemma econj_invol c e : econj c (econj c e) = e.
Proof. destruct c; cbn; auto. destruct e as [|a [|b [|x t]]]; cbn; auto. f_equal. f_equal. lia. Qed.
Lemma econj_eneg c e : econj c (eneg e) = eneg (econj c e).
Proof. destruct c; cbn; auto. destruct e as [|a [|b [|x t]]]; cbn; auto. Qed.
Lemma adapt_invol c v e : adapt c v (adapt c v e) = e.
Proof.
  unfold adapt. destruct (v_conj v), (v_neg v); auto using eneg_invol, econj_invol.
  rewrite econj_eneg, eneg_invol, econj_invol. auto.
Qed.

(** ** addressing is affine for every helper kind: one row stride and one column stride *)
Definition rstride (h : helper) : nat := match h with HFull false _ => 1 | HFull true ld => ld | HVecC _ => 1 | HVecS _ s => s end.
Definition cstride (h : helper) : nat := match h with HFull false ld => ld | HFull true _ => 1 | HVecC _ => 1 | HVecS _ s => s end.
Lemma addr_affine h b i j : addr h b i j = b + i * rstride h + j * cstride h.
Proof. destruct h as [[|] ld| r | r s]; cbn; lia. Qed.

(** a vector helper is only meaningful for a one-dimensional (or empty) outline *)
Definition wfv (v : view) : Prop := match v_h v with HFull _ _ => True | _ => v_nr v <= 1 \/ v_nc v <= 1 end.
Definition inr (v : view) (i j : nat) : Prop := i < v_nr v /\ j < v_nc v.

Lemma step_view_wf o v v' : wfv v -> step_view o v = Some v' -> wfv v'.
Proof.
  unfold wfv, step_view, derived, mk_block, mk_colview, mk_rowview, mk_blockview, mk_diag, tr_helper.
  intros W H. destruct o; destruct v as [b h nr nc ba ng cj sh ow]; vcbn;
    try (destruct sh); destruct h as [[|] ld| r | r s]; vcbn; bd; inversion H; subst; vcbn; try lia; auto.
Qed.

(** ** view_op_elt, address form: element (i,j) of the derived view IS the documented element of the parent *)
Lemma step_view_addr o v v' i j :
  wfv v -> step_view o v = Some v' -> inr v' i j ->
  inr v (fst (vop_index_in o v i j)) (snd (vop_index_in o v i j)) /\
  vaddr v' i j = vaddr v (fst (vop_index_in o v i j)) (snd (vop_index_in o v i j)) /\ v_buf v' = v_buf v.
Proof.
  unfold wfv, inr, step_view, derived, vop_index_in, vop_index, vaddr, mk_block, mk_colview, mk_rowview, mk_blockview, mk_diag, tr_helper.
  intros W H R. destruct o; destruct v as [b h nr nc ba ng cj sh ow]; vcbn;
    try (destruct sh); destruct h as [[|] ld| r | r s]; vcbn; bd; inversion H; subst; vcbn;
    repeat split; try reflexivity; try lia;
    try (assert (i = 0) by lia; subst i); try (assert (j = 0) by lia; subst j); try lia; nia.
Qed.

Lemma step_view_dims o v v' : step_view o v = Some v' ->
  match o with
  | OBlock _ _ m n => v_nr v' = m /\ v_nc v' = n
  | ORow _ => v_nr v' = 1 /\ v_nc v' = v_nc v
  | OCol _ => v_nr v' = v_nr v /\ v_nc v' = 1
  | ODiag => v_nr v' = Nat.min (v_nr v) (v_nc v) /\ v_nc v' = 1
  | OTr => v_nr v' = v_nc v /\ v_nc v' = v_nr v
  | ONeg | OWhole => v_nr v' = v_nr v /\ v_nc v' = v_nc v
  | OSub _ m => match v_shape v with SRow => v_nr v' = 1 /\ v_nc v' = m | _ => v_nr v' = m /\ v_nc v' = 1 end
  end.
Proof. unfold step_view, derived. intro H. destruct o; try destruct (v_shape v); bd; inversion H; subst; cbn; auto. Qed.

Lemma step_view_flags o v v' : step_view o v = Some v' ->
  v_neg v' = xorb (v_neg v) (match o with ONeg => true | _ => false end) /\
  v_conj v' = xorb (v_conj v) (match o with OTr => true | _ => false end).
Proof.
  unfold step_view, derived. intro H. destruct o; try destruct (v_shape v); bd; inversion H; subst; cbn;
    rewrite ?xorb_false_r, ?xorb_true_r; auto.
Qed.

(** which requests are accepted: exactly the in-range ones (the documented preconditions) *)
Lemma step_view_defined o v :
  step_view o v <> None <->
  match o with
  | OBlock i j m n => i + m <= v_nr v /\ j + n <= v_nc v
  | ORow i => i < v_nr v
  | OCol j => j < v_nc v
  | OSub i m => match v_shape v with SVec => i + m <= v_nr v /\ 1 <= v_nc v | SRow => i + m <= v_nc v /\ 1 <= v_nr v | SMat => False end
  | _ => True
  end.
Proof. unfold step_view. destruct o; try destruct (v_shape v); bd; split; intro H; try congruence; try lia; try tauto. Qed.

