(** C25 (Matrix_/Vector_/RowVector_ objects and views): executable model of the element addressing of
    SimTKcommon/BigMatrix (MatrixHelper.cpp, MatrixHelperRep.h, MatrixHelperRep_Full.h, _Vector.h, _Tri.h) and of the
    view-taking / writing operations of MatrixBase.h, VectorBase.h, RowVectorBase.h, BigMatrix.h, as the code is NOW.
    Hand-written; tied to the code by the correspondence run of checks/C25_views.py (extracted, run against the compiled
    library on the same random operation chains, compared exactly).  No proofs in this file.

    Units: all offsets, strides and leading dimensions are in ELEMENTS (the code keeps them in scalars, always a multiple
    of the element size).  An element is the list of its scalars (1 for Real/float, 2 for complex, 3 for Vec3), integers. *)
From Coq Require Import List Arith ZArith Bool.
Import ListNotations.

Definition elt := list Z.
Definition eneg (e : elt) : elt := map Z.opp e.
(** conjugate<>/Hermitian-transposed element type: complex -> conj; Real/float -> itself; Vec3 -> Row3 (same scalars) *)
Definition econj (cplx : bool) (e : elt) : elt :=
  if cplx then match e with [re; im] => [re; Z.opp im] | _ => e end else e.
Fixpoint eadd (a b : elt) : elt :=
  match a, b with x :: a', y :: b' => Z.add x y :: eadd a' b' | _, _ => [] end.
Definition escale (c : Z) (e : elt) : elt := map (Z.mul c) e.
Definition ezero (k : nat) : elt := repeat 0%Z k.
Definition esqr (e : elt) : Z := fold_right (fun x s => Z.add (Z.mul x x) s) 0%Z e.

(** the concrete MatrixHelperRep classes reachable from the public API (FullIndexed*: createRegularView is never called;
    IndexedVectorHelper: see C25_views_Idx below; TriInFull: see tri_* below) *)
Inductive helper :=
| HFull (rowOrder : bool) (ld : nat)      (* FullColOrder{Elt,Scalar}Helper / FullRowOrder{Elt,Scalar}Helper, m_leadingDim *)
| HVecC (isRow : bool)                    (* ContiguousVector{,Scalar}Helper, m_row *)
| HVecS (isRow : bool) (stride : nat).    (* StridedVector{,Scalar}Helper, m_row, m_spacing *)

(** getElt_(i,j) - m_data: eltIx(i,j) / eltIx(j,i) for the full helpers, getElt_(i+j) for the vector helpers *)
Definition addr (h : helper) (base i j : nat) : nat :=
  match h with
  | HFull false ld => base + j * ld + i
  | HFull true ld => base + i * ld + j
  | HVecC _ => base + (i + j)
  | HVecS _ s => base + (i + j) * s
  end.

Inductive shape := SMat | SVec | SRow.    (* static type of the handle: MatrixBase / VectorBase / RowVectorBase *)

Record view := mkView {
  v_buf : nat;          (* which heap block m_data points into *)
  v_h : helper;
  v_nr : nat; v_nc : nat;
  v_base : nat;         (* m_data - start of the block, in elements; 0 when m_data is null *)
  v_neg : bool;         (* element type carries negator<> *)
  v_conj : bool;        (* element type is the Hermitian-transposed one (conjugate<>, Row<> for Vec<>) *)
  v_shape : shape;
  v_owner : bool }.

Definition vaddr (v : view) (i j : nat) : nat := addr (v_h v) (v_base v) i j.

(** hasContiguousData_() *)
Definition contiguous (v : view) : bool :=
  match v_h v with
  | HFull false ld => ld =? v_nr v
  | HFull true ld => ld =? v_nc v
  | HVecC _ => true
  | HVecS _ _ => false
  end.

(** ** view-creating operations *)
Inductive vop :=
| OBlock (i j m n : nat)   (* MatrixBase::block / updBlock / operator()(i,j,m,n) *)
| ORow (i : nat)           (* MatrixBase::row / updRow / operator[] *)
| OCol (j : nat)           (* MatrixBase::col / updCol / operator()(j) *)
| ODiag                    (* MatrixBase::diag / updDiag *)
| OTr                      (* operator~ : Hermitian transpose view *)
| ONeg                     (* operator- : negated view (reinterpret_cast to the negator<> element type) *)
| OSub (i m : nat)         (* VectorBase::operator()(i,m) / RowVectorBase::operator()(j,n) *)
| OWhole.                  (* shallow copy constructor of MatrixView_/VectorView_/RowVectorView_ *)

(** RegularFullHelper::createColumnView_ / ContiguousVectorHelper:: / StridedVectorHelper:: (column j, rows i..i+m-1) *)
Definition mk_colview (v : view) (j i m : nat) : helper * nat :=
  let a := vaddr v i j in
  let data := if m =? 0 then 0 else a in
  match v_h v with
  | HFull _ _ =>
      let stride := if 1 <? m then vaddr v (i + 1) j - a else 1 in
      (if stride =? 1 then HVecC false else HVecS false stride, data)
  | HVecC _ => (HVecC false, data)
  | HVecS r s => if m <=? 1 then (HVecC false, data) else (HVecS r s, data)
  end.
(** createRowView_ (row i, columns j..j+n-1) *)
Definition mk_rowview (v : view) (i j n : nat) : helper * nat :=
  let a := vaddr v i j in
  let data := if n =? 0 then 0 else a in
  match v_h v with
  | HFull _ _ =>
      let stride := if 1 <? n then vaddr v i (j + 1) - a else 1 in
      (if stride =? 1 then HVecC true else HVecS true stride, data)
  | HVecC _ => (HVecC true, data)
  | HVecS r s => if n <=? 1 then (HVecC true, data) else (HVecS r s, data)
  end.
(** createBlockView_ (only reached with m <> 1 and n <> 1) *)
Definition mk_blockview (v : view) (i j m n : nat) : helper * nat :=
  let a := vaddr v i j in
  match v_h v with
  | HFull _ _ => (v_h v, a)
  | HVecC r =>
      if negb (m =? 0) && negb (n =? 0) then (HVecC r, a)
      else if (m =? 1) || (n =? 1) then (HVecC (m =? 1), 0)
      else (HFull false m, 0)
  | HVecS r s =>
      if ((m =? 0) && negb (n =? 1)) || ((n =? 0) && negb (m =? 1)) then (HFull false m, 0)
      else if m * n <=? 1 then (HVecC false, if m * n =? 0 then 0 else a)
      else (HVecS r s, a)
  end.
(** MatrixHelper(commitment, helper, i, j, m, n): n==1 -> column view, m==1 -> row view, else block view *)
Definition mk_block (v : view) (i j m n : nat) : helper * nat :=
  if n =? 1 then mk_colview v j i m else if m =? 1 then mk_rowview v i j n else mk_blockview v i j m n.
(** createDiagonalView_ : RegularFullHelper / FullVectorHelper; length min(nrow,ncol) *)
Definition mk_diag (v : view) : helper * nat :=
  match v_h v with
  | HFull _ _ =>
      let len := Nat.min (v_nr v) (v_nc v) in
      let data := if len =? 0 then 0 else vaddr v 0 0 in
      let stride := if 1 <? len then vaddr v 1 1 - vaddr v 0 0 else 1 in
      (if stride =? 1 then HVecC false else HVecS false stride, data)
  | _ => (HVecC false, if Nat.min (v_nr v * v_nc v) 1 =? 0 then 0 else vaddr v 0 0)
  end.
(** createTransposeView_ *)
Definition tr_helper (h : helper) : helper :=
  match h with HFull r ld => HFull (negb r) ld | HVecC r => HVecC (negb r) | HVecS r s => HVecS (negb r) s end.

Definition derived (v : view) (hb : helper * nat) (nr nc : nat) (sh : shape) : view :=
  mkView (v_buf v) (fst hb) nr nc (snd hb) (v_neg v) (v_conj v) sh false.

(** one view-taking step, with the range checks the HEADERS make (SimTK_INDEXCHECK / SimTK_SIZECHECK in BigMatrix.h; active
    whenever the calling code is not compiled with NDEBUG; the library-side checks are compiled out in Release) *)
Definition step_view (o : vop) (v : view) : option view :=
  match o with
  | OBlock i j m n =>
      if (i + m <=? v_nr v) && (j + n <=? v_nc v) then Some (derived v (mk_block v i j m n) m n SMat) else None
  | ORow i => if i <? v_nr v then Some (derived v (mk_block v i 0 1 (v_nc v)) 1 (v_nc v) SRow) else None
  | OCol j => if j <? v_nc v then Some (derived v (mk_block v 0 j (v_nr v) 1) (v_nr v) 1 SVec) else None
  | ODiag => Some (derived v (mk_diag v) (Nat.min (v_nr v) (v_nc v)) 1 SVec)
  | OTr => Some (mkView (v_buf v) (tr_helper (v_h v)) (v_nc v) (v_nr v) (v_base v) (v_neg v) (negb (v_conj v))
                   (match v_shape v with SMat => SMat | SVec => SRow | SRow => SVec end) false)
  | ONeg => Some (mkView (v_buf v) (v_h v) (v_nr v) (v_nc v) (v_base v) (negb (v_neg v)) (v_conj v) (v_shape v) false)
  | OSub i m =>
      match v_shape v with
      | SVec => if (i + m <=? v_nr v) && (1 <=? v_nc v) then Some (derived v (mk_block v i 0 m 1) m 1 SVec) else None
      | SRow => if (i + m <=? v_nc v) && (1 <=? v_nr v) then Some (derived v (mk_block v 0 i 1 m) 1 m SRow) else None
      | SMat => None
      end
  | OWhole => Some (mkView (v_buf v) (v_h v) (v_nr v) (v_nc v) (v_base v) (v_neg v) (v_conj v) (v_shape v) false)
  end.

(** where element (i,j) of the derived view lies in the parent (the documented meaning of each operation) *)
Definition vop_index (o : vop) (i j : nat) : nat * nat :=
  match o with
  | OBlock i0 j0 _ _ => (i0 + i, j0 + j)
  | ORow i0 => (i0, j)
  | OCol j0 => (i, j0)
  | ODiag => (i, i)
  | OTr => (j, i)
  | ONeg | OWhole => (i, j)
  | OSub k _ => (k + i, k + j)      (* used with j = 0 (column) or i = 0 (row); the other coordinate is then fixed by the parent *)
  end.
(** OSub needs the parent's shape to be precise *)
Definition vop_index_in (o : vop) (parent : view) (i j : nat) : nat * nat :=
  match o with
  | OSub k _ => match v_shape parent with SRow => (i, k + j) | _ => (k + i, j) end
  | _ => vop_index o i j
  end.

Fixpoint run_ops (os : list vop) (v : view) : option view :=
  match os with [] => Some v | o :: os' => match step_view o v with Some v' => run_ops os' v' | None => None end end.

(** ** the heap and element access *)
Definition buffer := list elt.
Record world := mkW { w_bufs : list buffer; w_views : list (option view) }.

Definition cell (W : world) (b a : nat) : elt := nth a (nth b (w_bufs W) []) [].
Fixpoint upd {A} (l : list A) (k : nat) (x : A) : list A :=
  match l, k with [], _ => [] | _ :: t, 0 => x :: t | h :: t, S k' => h :: upd t k' x end.
Definition setcell (W : world) (b a : nat) (x : elt) : world :=
  mkW (upd (w_bufs W) b (upd (nth b (w_bufs W) []) a x)) (w_views W).

Section Cplx.
Variable cplx : bool.      (* element type is complex: the Hermitian element type conjugates *)
Variable esz : nat.        (* scalars per element *)
Variable repaired : bool.  (* the source has MatrixHelper::resizeOwnerOutOfVectorRep (patches/C25_owner_vector_helper_resize.diff) *)

(** what the element type of the handle makes of the stored scalars (and, being an involution, what it stores for a value) *)
Definition adapt (v : view) (e : elt) : elt :=
  let e1 := if v_conj v then econj cplx e else e in if v_neg v then eneg e1 else e1.
Definition vget (W : world) (v : view) (i j : nat) : elt := adapt v (cell W (v_buf v) (vaddr v i j)).
Definition vset (W : world) (v : view) (i j : nat) (e : elt) : world := setcell W (v_buf v) (vaddr v i j) (adapt v e).

(** all (i,j) of an nr x nc matrix, column by column *)
Definition ixs (nr nc : nat) : list (nat * nat) := flat_map (fun j => map (fun i => (i, j)) (seq 0 nr)) (seq 0 nc).
Definition vixs (v : view) := ixs (v_nr v) (v_nc v).

(** elementwise update m(i,j) := f i j m(i,j) *)
Definition vmap (W : world) (v : view) (f : nat -> nat -> elt -> elt) : world :=
  fold_left (fun W' ij => vset W' v (fst ij) (snd ij) (f (fst ij) (snd ij) (vget W' v (fst ij) (snd ij)))) (vixs v) W.
(** MatrixHelperRep::fillWith: contiguous data is filled as one run of nelt elements, otherwise element by element *)
Definition vfill (W : world) (v : view) (e : elt) : world :=
  if contiguous v
  then fold_left (fun W' k => setcell W' (v_buf v) (v_base v + k) (adapt v e)) (seq 0 (v_nr v * v_nc v)) W
  else vmap W v (fun _ _ _ => e).
(** row-major list of logical elements *)
Definition velems (W : world) (v : view) : list elt :=
  flat_map (fun i => map (fun j => vget W v i j) (seq 0 (v_nc v))) (seq 0 (v_nr v)).
Definition vsum (W : world) (v : view) : elt := fold_left (fun s ij => eadd s (vget W v (fst ij) (snd ij))) (vixs v) (ezero esz).
Definition vnormsqr (W : world) (v : view) : Z := fold_left (fun s ij => Z.add s (esqr (vget W v (fst ij) (snd ij)))) (vixs v) 0%Z.
Definition vcolsum (W : world) (v : view) (j : nat) : elt := fold_left (fun s i => eadd s (vget W v i j)) (seq 0 (v_nr v)) (ezero esz).
Definition vrowsum (W : world) (v : view) (i : nat) : elt := fold_left (fun s j => eadd s (vget W v i j)) (seq 0 (v_nc v)) (ezero esz).

(** source values given row-major (a freshly built temporary of the same element type) *)
Definition src_at (nc : nat) (vals : list elt) (i j : nat) : elt := nth (i * nc + j) vals [].

(** copyInFromCompatibleSource_ from a fresh, contiguous temporary T (m x n, stored column by column; one row: in order):
    ContiguousVectorHelper copies the source memory as one run (std::copy) when there is anything to copy; every other
    helper copies element by element.  (For a proper vector both are the same; they differ for an owner that kept a vector
    helper while being given a two-dimensional size.) *)
Definition vassign (W : world) (v : view) (vals : list elt) : world :=
  match v_h v with
  | HVecC _ =>
      fold_left (fun W' k => setcell W' (v_buf v) (v_base v + k) (adapt v (src_at (v_nc v) vals (k mod v_nr v) (k / v_nr v))))
                (seq 0 (v_nr v * v_nc v)) W
  | _ => vmap W v (fun i j _ => src_at (v_nc v) vals i j)
  end.

(** MatrixBase::operator=(const ELT&): scalar * identity for matrices (setToZero(); updDiag().setTo(t)),
    VectorBase/RowVectorBase::operator=(const ELT&): every element *)
Definition diag_view (v : view) : view := derived v (mk_diag v) (Nat.min (v_nr v) (v_nc v)) 1 SVec.
Definition vscalar_assign (W : world) (v : view) (e : elt) : world :=
  match v_shape v with
  | SMat => vfill (vmap W v (fun _ _ _ => ezero esz)) (diag_view v) e
  | _ => vfill W v e
  end.
(** operator+=(const ELT&): Matrix_/MatrixView_ add to the diagonal only, Vector_/RowVector_ views to every element *)
Definition vscalar_add (W : world) (v : view) (e : elt) : world :=
  match v_shape v with
  | SMat => vmap W (diag_view v) (fun _ _ x => eadd x e)
  | _ => vmap W v (fun _ _ x => eadd x e)
  end.

(** createDeepCopy_: packed copy of the memory in the order of the source helper; createNegatedDeepCopy additionally scales by -1 *)
Definition deep_copy (W : world) (v : view) (negate : bool) : world * view :=
  let nr := v_nr v in let nc := v_nc v in
  let raw i j := cell W (v_buf v) (vaddr v i j) in
  let hc := match v_h v with
            | HFull false _ => (HFull false nr, map (fun k => raw (k mod nr) (k / nr)) (seq 0 (nr * nc)))
            | HFull true _ => (HFull true nc, map (fun k => raw (k / nc) (k mod nc)) (seq 0 (nr * nc)))
            | HVecC r | HVecS r _ => (HVecC r, map (fun k => raw k 0) (seq 0 (nr * nc)))
            end in
  let cells := if negate then map eneg (snd hc) else snd hc in
  let nv := mkView (length (w_bufs W)) (fst hc) nr nc 0 (if negate then negb (v_neg v) else v_neg v) (v_conj v) (v_shape v) true in
  (mkW (w_bufs W ++ [cells]) (w_views W ++ [Some nv]), nv).

(** MatrixHelperRep::resize(m,n,keep) on an owner: the concrete helper is KEPT (resize_/resizeKeep_ are virtuals of the
    helper the owner happens to have); a vector helper just allocates m*n elements *)
(** with the repair: an owner with a vector helper that is given a shape with m <> 1 and n <> 1 gets a fresh full,
    column-ordered helper (resizeOwnerOutOfVectorRep) *)
Definition leaves_vector_helper (h : helper) (m n : nat) : bool :=
  repaired && negb (m =? 1) && negb (n =? 1) && match h with HFull _ _ => false | _ => true end.
Definition resize_helper (h : helper) (m n : nat) : helper :=
  if leaves_vector_helper h m n then HFull false m else
  match h with HFull false _ => HFull false m | HFull true _ => HFull true n | other => other end.
Definition size_ok (sh : shape) (m n : nat) : bool :=
  match sh with SMat => true | SVec => n =? 1 | SRow => m =? 1 end.
Definition kept_cells (W : world) (v : view) (m n : nat) (keep : bool) : buffer :=
  let old i j := if keep && (i <? v_nr v) && (j <? v_nc v) then cell W (v_buf v) (vaddr v i j) else [] in
  if leaves_vector_helper (v_h v) m n then map (fun k => old (k mod m) (k / m)) (seq 0 (m * n)) else
  match v_h v with
  | HFull false _ => map (fun k => old (k mod m) (k / m)) (seq 0 (m * n))
  | HFull true _ => map (fun k => old (k / n) (k mod n)) (seq 0 (m * n))
  | _ => map (fun k => if keep && (k <? v_nr v * v_nc v) then cell W (v_buf v) (vaddr v k 0) else []) (seq 0 (m * n))
  end.
(** views of the resized block dangle afterwards: they are dropped from the table (slot -> None) *)
Definition drop_views_of (b : nat) (keep_ix : nat) (vs : list (option view)) : list (option view) :=
  map (fun kv => match snd kv with
                 | Some w => if (v_buf w =? b) && negb (fst kv =? keep_ix) then None else Some w
                 | None => None end) (combine (seq 0 (length vs)) vs).
Definition resize (W : world) (h : nat) (v : view) (m n : nat) (keep : bool) : option (world * view) :=
  if (m =? v_nr v) && (n =? v_nc v) then Some (W, v)
  else if negb (v_owner v) then None
  else if negb (size_ok (v_shape v) m n) then None
  else
    let nv := mkView (v_buf v) (resize_helper (v_h v) m n) m n 0 (v_neg v) (v_conj v) (v_shape v) true in
    let W1 := mkW (upd (w_bufs W) (v_buf v) (kept_cells W v m n keep)) (upd (drop_views_of (v_buf v) h (w_views W)) h (Some nv)) in
    Some (W1, nv).

(** set the elements with the given (i,j), row by row, to consecutive fresh integers (first scalar; the others fresh+1000*k) *)
Definition fresh_elt (x : Z) : elt := map (fun k => Z.add x (Z.mul 1000 (Z.of_nat k))) (seq 0 esz).
Definition set_fresh (W : world) (v : view) (sel : nat -> nat -> bool) (x0 : Z) : world :=
  fst (fold_left (fun Wx ij => if sel (fst ij) (snd ij)
                               then (vset (fst Wx) v (fst ij) (snd ij) (fresh_elt (snd Wx)), Z.succ (snd Wx)) else Wx)
                 (flat_map (fun i => map (fun j => (i, j)) (seq 0 (v_nc v))) (seq 0 (v_nr v))) (W, x0)).

(** ** the operation language of the correspondence run *)
Inductive wop :=
| WNew (sh : shape) (m n : nat) (x0 : Z)        (* new owner Matrix_(m,n) / Vector_(m) / RowVector_(n), filled with fresh values *)
| WView (h : nat) (o : vop)
| WSet (h i j : nat) (e : elt)
| WFill (h : nat) (e : elt)                      (* setTo(e) *)
| WScalarAssign (h : nat) (e : elt)              (* operator=(const ELT&) *)
| WScalarAdd (h : nat) (e : elt)                 (* operator+=(const ELT&) *)
| WScale (h : nat) (c : Z)                       (* operator*=(c) *)
| WAssign (h : nat) (m n : nat) (vals : list elt)  (* h = T, T a fresh m x n temporary of the same element type *)
| WAddIn (h : nat) (sub : bool) (vals : list elt)   (* h += T / h -= T, T of h's dimensions *)
| WCopy (h : nat) (negate : bool)                (* deep copy constructor (same element type / negated element type) *)
| WResize (h m n : nat) (keep : bool) (x0 : Z).  (* resize / resizeKeep on handle h, then fresh values into the new elements *)

Definition getview (W : world) (h : nat) : option view := nth h (w_views W) None.
Definition addview (W : world) (v : view) : world := mkW (w_bufs W) (w_views W ++ [Some v]).

Definition wstep (W : world) (o : wop) : option world :=
  match o with
  | WNew sh m n x0 =>
      if negb (size_ok sh m n) then None else
      (* MatrixCommitment::calcDefaultCharacter: the default storage order is column order, except that an actual outline
         "Row" (m = 1, n <> 1) gets row order - also for a Matrix_ *)
      let ro := (m =? 1) && negb (n =? 1) in
      let nv := mkView (length (w_bufs W)) (match sh with SMat => HFull ro (if ro then n else m) | SVec => HVecC false | SRow => HVecC true end)
                       m n 0 false false sh true in
      let W1 := mkW (w_bufs W ++ [repeat [] (m * n)]) (w_views W ++ [Some nv]) in
      Some (set_fresh W1 nv (fun _ _ => true) x0)
  | WView h o => match getview W h with
                 | Some v => match step_view o v with Some v' => Some (addview W v') | None => None end
                 | None => None end
  | WSet h i j e => match getview W h with
                    | Some v => if (i <? v_nr v) && (j <? v_nc v) then Some (vset W v i j e) else None
                    | None => None end
  | WFill h e => match getview W h with Some v => Some (vfill W v e) | None => None end
  | WScalarAssign h e => match getview W h with Some v => Some (vscalar_assign W v e) | None => None end
  | WScalarAdd h e => match getview W h with Some v => Some (vscalar_add W v e) | None => None end
  | WScale h c => match getview W h with Some v => Some (vmap W v (fun _ _ x => escale c x)) | None => None end
  | WAssign h m n vals =>
      match getview W h with
      | Some v => match resize W h v m n false with
                  | Some (W1, v1) => Some (vassign W1 v1 vals)
                  | None => None end
      | None => None end
  | WAddIn h sub vals =>
      match getview W h with
      | Some v => Some (vmap W v (fun i j x => eadd x (if sub then eneg (src_at (v_nc v) vals i j) else src_at (v_nc v) vals i j)))
      | None => None end
  | WCopy h negate => match getview W h with Some v => Some (fst (deep_copy W v negate)) | None => None end
  | WResize h m n keep x0 =>
      match getview W h with
      | Some v => match resize W h v m n keep with
                  | Some (W1, v1) =>
                      Some (set_fresh W1 v1 (fun i j => negb (keep && (i <? v_nr v) && (j <? v_nc v))
                                                        && negb ((m =? v_nr v) && (n =? v_nc v))) x0)
                  | None => None end
      | None => None end
  end.

(** a step that must throw leaves the world as it was *)
Definition wstep_total (W : world) (o : wop) : world * bool :=
  match wstep W o with Some W' => (W', true) | None => (W, false) end.

(** straightforward dense reference of an owner's logical contents after a resize: used by the _refuted witness *)
End Cplx.

Definition empty_world : world := mkW [] [].

(** ** TriInFullUpperHelper (MatrixHelperRep_Tri.h): triangular / symmetric / Hermitian / skew matrices stored in the
    upper triangle of a full square of dimension minmn = min(m,n); no packed storage exists in the current source *)
Record tri := mkTri { t_m : nat; t_n : nat; t_ld : nat; t_triangular : bool; t_hermitian : bool; t_skew : bool; t_rowOrder : bool }.
Definition t_minmn (t : tri) := Nat.min (t_m t) (t_n t).
Definition tri_stored (t : tri) (i j : nat) : bool := (i <=? j) && (j <? t_minmn t).        (* eltIsStored_ *)
Definition tri_addr (t : tri) (i j : nat) : nat := if t_rowOrder t then i * t_ld t + j else j * t_ld t + i.   (* getElt_ *)
(** getAnyElt_ *)
Definition tri_any (cplx : bool) (esz : nat) (t : tri) (mem : list elt) (i j : nat) : elt :=
  if (i =? j) || tri_stored t i j then nth (tri_addr t i j) mem []
  else if t_triangular t || (t_minmn t <=? i) || (t_minmn t <=? j) then ezero esz
  else let e := nth (tri_addr t j i) mem [] in
       if t_hermitian t then (if t_skew t then eneg (econj cplx e) else econj cplx e)
       else (if t_skew t then eneg e else e).

(** ** SymMat<M> packed storage (SymMat.h): M diagonal elements, then the strict lower triangle column by column;
    lowerIx(i,j) for j < i < M *)
Definition sym_lowerIx (M i j : nat) : nat := (i - j - 1) + j * (M - 1) - (j * (j - 1)) / 2.
Definition sym_index (M i j : nat) : nat :=       (* position of (i,j), j <= i, in the M(M+1)/2 stored elements *)
  if i =? j then i else M + sym_lowerIx M i j.
