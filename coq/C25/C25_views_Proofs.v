(** C25 (views part): proofs about the model C25_views_Model.v.  Everything is for ALL dimensions, offsets, strides and
    operation chains (lia-level arithmetic + induction over the operation list). *)
From Coq Require Import List Arith ZArith Bool Lia ZifyBool.
Require Import C25_views_Model C25_views_Addr.
Import ListNotations.

(** ** view_chain: any composition of view operations denotes the right elements of the matrix it started from *)
Fixpoint chain_index (os : list vop) (v : view) (i j : nat) : nat * nat :=
  match os with
  | [] => (i, j)
  | o :: os' => match step_view o v with
                | Some v1 => let ab := chain_index os' v1 i j in vop_index_in o v (fst ab) (snd ab)
                | None => (i, j) end
  end.
Definition count_op (f : vop -> bool) (os : list vop) : bool := fold_right (fun o b => xorb (f o) b) false os.
Definition is_neg o := match o with ONeg => true | _ => false end.
Definition is_tr o := match o with OTr => true | _ => false end.

Lemma run_ops_wf os : forall v v', wfv v -> run_ops os v = Some v' -> wfv v'.
Proof.
  induction os as [|o os IH]; cbn; intros v v' W H. { inversion H; subst; auto. }
  destruct (step_view o v) eqn:E; [|discriminate]. eapply IH; [|eauto]. eapply step_view_wf; eauto.
Qed.

Lemma count_op_cons f o os : count_op f (o :: os) = xorb (f o) (count_op f os).
Proof. reflexivity. Qed.
Lemma view_chain_addr os : forall v v' i j,
  wfv v -> run_ops os v = Some v' -> inr v' i j ->
  inr v (fst (chain_index os v i j)) (snd (chain_index os v i j)) /\
  vaddr v' i j = vaddr v (fst (chain_index os v i j)) (snd (chain_index os v i j)) /\
  v_buf v' = v_buf v /\
  v_neg v' = xorb (v_neg v) (count_op is_neg os) /\ v_conj v' = xorb (v_conj v) (count_op is_tr os).
Proof.
  induction os as [|o os IH]; intros v v' i j W H R; cbn [run_ops chain_index] in *.
  { inversion H; subst. cbn. rewrite !xorb_false_r. auto. }
  destruct (step_view o v) as [v1|] eqn:E; [|discriminate].
  destruct (IH v1 v' i j (step_view_wf _ _ _ W E) H R) as (R1 & A1 & B1 & N1 & C1).
  destruct (step_view_addr o v v1 _ _ W E R1) as (R0 & A0 & B0).
  destruct (step_view_flags o v v1 E) as (N0 & C0).
  rewrite !count_op_cons.
  repeat split; try apply R0; try congruence.
  - rewrite N1, N0. generalize (count_op is_neg os). intro cn. unfold is_neg. destruct o, (v_neg v), cn; reflexivity.
  - rewrite C1, C0. generalize (count_op is_tr os). intro cn. unfold is_tr. destruct o, (v_conj v), cn; reflexivity.
Qed.

(** value form *)
Definition flagfix (c n t : bool) (e : elt) : elt := let e1 := if t then econj c e else e in if n then eneg e1 else e1.
Lemma adapt_xor c v v' n t e :
  v_neg v' = xorb (v_neg v) n -> v_conj v' = xorb (v_conj v) t -> adapt c v' e = flagfix c n t (adapt c v e).
Proof.
  unfold adapt, flagfix. intros -> ->. destruct (v_neg v), (v_conj v), n, t; cbn;
    rewrite ?eneg_invol, ?econj_invol, ?econj_eneg, ?eneg_invol, ?econj_invol; auto.
Qed.

Lemma view_chain c W os v v' i j :
  wfv v -> run_ops os v = Some v' -> inr v' i j ->
  vget c W v' i j = flagfix c (count_op is_neg os) (count_op is_tr os)
                      (vget c W v (fst (chain_index os v i j)) (snd (chain_index os v i j))).
Proof.
  intros Wf H R. destruct (view_chain_addr os v v' i j Wf H R) as (_ & A & B & N & C).
  unfold vget. rewrite A, B. apply adapt_xor; auto.
Qed.

(** the individual operations, in the words of the documentation *)
Lemma one c W o v v' i j : wfv v -> step_view o v = Some v' -> inr v' i j ->
  vget c W v' i j = flagfix c (is_neg o) (is_tr o) (vget c W v (fst (vop_index_in o v i j)) (snd (vop_index_in o v i j))).
Proof.
  intros Wf H R. assert (H1 : run_ops [o] v = Some v') by (cbn; rewrite H; auto).
  rewrite (view_chain c W [o] v v' i j Wf H1 R). cbn. rewrite H, !xorb_false_r. reflexivity.
Qed.
Lemma block_elt c W v v' i0 j0 m n i j : wfv v -> step_view (OBlock i0 j0 m n) v = Some v' -> i < m -> j < n ->
  vget c W v' i j = vget c W v (i0 + i) (j0 + j).
Proof. intros Wf H A B. destruct (step_view_dims _ _ _ H). apply (one c W _ _ _ i j Wf H). split; lia. Qed.
Lemma row_elt c W v v' i0 j : wfv v -> step_view (ORow i0) v = Some v' -> j < v_nc v ->
  vget c W v' 0 j = vget c W v i0 j.
Proof. intros Wf H B. destruct (step_view_dims _ _ _ H). apply (one c W _ _ _ 0 j Wf H). split; lia. Qed.
Lemma col_elt c W v v' j0 i : wfv v -> step_view (OCol j0) v = Some v' -> i < v_nr v ->
  vget c W v' i 0 = vget c W v i j0.
Proof. intros Wf H B. destruct (step_view_dims _ _ _ H). apply (one c W _ _ _ i 0 Wf H). split; lia. Qed.
Lemma diag_elt c W v v' i : wfv v -> step_view ODiag v = Some v' -> i < Nat.min (v_nr v) (v_nc v) ->
  vget c W v' i 0 = vget c W v i i.
Proof. intros Wf H B. destruct (step_view_dims _ _ _ H). apply (one c W _ _ _ i 0 Wf H). split; lia. Qed.
Lemma transpose_elt c W v v' i j : wfv v -> step_view OTr v = Some v' -> i < v_nc v -> j < v_nr v ->
  vget c W v' i j = econj c (vget c W v j i).
Proof. intros Wf H A B. destruct (step_view_dims _ _ _ H). apply (one c W _ _ _ i j Wf H). split; lia. Qed.
Lemma negate_elt c W v v' i j : wfv v -> step_view ONeg v = Some v' -> i < v_nr v -> j < v_nc v ->
  vget c W v' i j = eneg (vget c W v i j).
Proof. intros Wf H A B. destruct (step_view_dims _ _ _ H). apply (one c W _ _ _ i j Wf H). split; lia. Qed.
Lemma subvector_elt c W v v' k m i : wfv v -> v_shape v = SVec -> step_view (OSub k m) v = Some v' -> i < m ->
  vget c W v' i 0 = vget c W v (k + i) 0.
Proof.
  intros Wf S H A. pose proof (step_view_dims _ _ _ H) as D. cbn in D. rewrite S in D. destruct D.
  rewrite (one c W _ _ _ i 0 Wf H) by (split; lia). cbn. rewrite S. reflexivity.
Qed.
Lemma subrow_elt c W v v' k m j : wfv v -> v_shape v = SRow -> step_view (OSub k m) v = Some v' -> j < m ->
  vget c W v' 0 j = vget c W v 0 (k + j).
Proof.
  intros Wf S H A. pose proof (step_view_dims _ _ _ H) as D. cbn in D. rewrite S in D. destruct D.
  rewrite (one c W _ _ _ 0 j Wf H) by (split; lia). cbn. rewrite S. reflexivity.
Qed.
(** negation and transposition are involutive as views *)
Lemma negate_involutive c W v v1 v2 i j : wfv v -> step_view ONeg v = Some v1 -> step_view ONeg v1 = Some v2 ->
  i < v_nr v -> j < v_nc v -> vget c W v2 i j = vget c W v i j.
Proof.
  intros Wf H1 H2 A B. pose proof (step_view_dims _ _ _ H1) as [D1 D2].
  rewrite (negate_elt c W v1 v2 i j) by (eauto using step_view_wf; lia).
  rewrite (negate_elt c W v v1 i j) by auto. apply eneg_invol.
Qed.
Lemma transpose_involutive c W v v1 v2 i j : wfv v -> step_view OTr v = Some v1 -> step_view OTr v1 = Some v2 ->
  i < v_nr v -> j < v_nc v -> vget c W v2 i j = vget c W v i j.
Proof.
  intros Wf H1 H2 A B. pose proof (step_view_dims _ _ _ H1) as [D1 D2].
  rewrite (transpose_elt c W v1 v2 i j) by (eauto using step_view_wf; lia).
  rewrite (transpose_elt c W v v1 j i) by auto. apply econj_invol.
Qed.

(** ** injectivity of the addressing: distinct in-range elements of one view never share a cell *)
Definition injv (v : view) : Prop :=
  forall i j i' j', inr v i j -> inr v i' j' -> vaddr v i j = vaddr v i' j' -> i = i' /\ j = j'.

Lemma vop_index_inj o v v' i j i' j' : step_view o v = Some v' -> inr v' i j -> inr v' i' j' ->
  vop_index_in o v i j = vop_index_in o v i' j' -> i = i' /\ j = j'.
Proof.
  intros H [A B] [A' B'] E. pose proof (step_view_dims _ _ _ H) as D.
  unfold vop_index_in, vop_index in E. revert D E. destruct o; try destruct (v_shape v); intros D E; inversion E; destruct D; try lia.
Qed.
Lemma step_view_inj o v v' : wfv v -> injv v -> step_view o v = Some v' -> injv v'.
Proof.
  intros Wf I H i j i' j' R R' E.
  destruct (step_view_addr o v v' i j Wf H R) as (R0 & A0 & _).
  destruct (step_view_addr o v v' i' j' Wf H R') as (R1 & A1 & _).
  rewrite A0, A1 in E. destruct (I _ _ _ _ R0 R1 E) as [E1 E2].
  apply (vop_index_inj o v v' i j i' j' H R R'). destruct (vop_index_in o v i j), (vop_index_in o v i' j'); cbn in *; congruence.
Qed.
Lemma run_ops_inj os : forall v v', wfv v -> injv v -> run_ops os v = Some v' -> injv v'.
Proof.
  induction os as [|o os IH]; cbn; intros v v' W I H. { inversion H; subst; auto. }
  destruct (step_view o v) eqn:E; [|discriminate]. eapply IH; [| |eauto]; eauto using step_view_wf, step_view_inj.
Qed.
(** packed owners (what Matrix_(m,n), Vector_(m), RowVector_(n), deep copies and resize allocate) address injectively *)
Lemma packed_full_inj b ro nr nc base ng cj sh ow :
  injv (mkView b (HFull ro (if ro then nc else nr)) nr nc base ng cj sh ow).
Proof.
  intros i j i' j' [A B] [A' B'] E. unfold vaddr in E; cbn in *. destruct ro; cbn in E.
  - destruct (Nat.lt_trichotomy i i') as [L|[L|L]]; [|subst; split; lia|].
    + assert ((i + 1) * nc <= i' * nc) by (apply Nat.mul_le_mono_r; lia). lia.
    + assert ((i' + 1) * nc <= i * nc) by (apply Nat.mul_le_mono_r; lia). lia.
  - destruct (Nat.lt_trichotomy j j') as [L|[L|L]]; [|subst; split; lia|].
    + assert ((j + 1) * nr <= j' * nr) by (apply Nat.mul_le_mono_r; lia). lia.
    + assert ((j' + 1) * nr <= j * nr) by (apply Nat.mul_le_mono_r; lia). lia.
Qed.
Lemma packed_vec_inj b r nr nc base ng cj sh ow : nr <= 1 \/ nc <= 1 ->
  injv (mkView b (HVecC r) nr nc base ng cj sh ow).
Proof. intros D i j i' j' [A B] [A' B'] E. unfold vaddr in E; cbn in *. lia. Qed.

(** ** writes *)
Lemma upd_length {A} (l : list A) k x : length (upd l k x) = length l.
Proof. revert k; induction l; destruct k; cbn; auto. Qed.
Lemma nth_upd {A} (l : list A) k k' x d : nth k' (upd l k x) d = if (k' =? k) && (k <? length l) then x else nth k' l d.
Proof.
  revert k k'; induction l as [|a l IH]; intros k k'. { cbn. destruct k, k'; cbn; rewrite ?andb_false_r; auto. }
  destruct k, k'; cbn; auto. rewrite IH. reflexivity.
Qed.
Definition inb (W : world) (v : view) : Prop :=
  v_buf v < length (w_bufs W) /\ forall i j, inr v i j -> vaddr v i j < length (nth (v_buf v) (w_bufs W) []).
Lemma cell_setcell W b a x b' a' :
  cell (setcell W b a x) b' a' =
  if (b' =? b) && (b <? length (w_bufs W)) && (a' =? a) && (a <? length (nth b (w_bufs W) [])) then x else cell W b' a'.
Proof.
  unfold cell, setcell; cbn [w_bufs]. rewrite nth_upd.
  destruct ((b' =? b) && (b <? length (w_bufs W))) eqn:E; cbn [andb]; [|reflexivity].
  apply andb_true_iff in E. destruct E as [E E']. apply Nat.eqb_eq in E. subst b'. rewrite nth_upd. reflexivity.
Qed.

(** write_through_view_changes_exactly, cell form: after h(i,j) = e, ANY handle w (same block or another, any chain of
    views) reads the new value where its element occupies the written cell, and its old value everywhere else *)
Lemma write_exact c W v i j e w i' j' :
  inb W v -> inr v i j ->
  vget c (vset c W v i j e) w i' j' =
  if (v_buf w =? v_buf v) && (vaddr w i' j' =? vaddr v i j) then adapt c w (adapt c v e) else vget c W w i' j'.
Proof.
  intros [B A] R. unfold vget, vset. rewrite cell_setcell. specialize (A _ _ R).
  destruct (v_buf w =? v_buf v) eqn:E1, (vaddr w i' j' =? vaddr v i j) eqn:E2; cbn; bd; auto; lia.
Qed.
(** ... and within the written view itself exactly element (i,j) changes *)
Lemma write_exact_self c W v i j e i' j' :
  inb W v -> injv v -> inr v i j -> inr v i' j' ->
  vget c (vset c W v i j e) v i' j' = if (i' =? i) && (j' =? j) then e else vget c W v i' j'.
Proof.
  intros B I R R'. rewrite write_exact by auto. rewrite Nat.eqb_refl. cbn.
  destruct (vaddr v i' j' =? vaddr v i j) eqn:E.
  - apply Nat.eqb_eq in E. destruct (I _ _ _ _ R' R E); subst. rewrite !Nat.eqb_refl. cbn. apply adapt_invol.
  - destruct ((i' =? i) && (j' =? j)) eqn:E3; auto. apply andb_true_iff in E3. destruct E3 as [X Y].
    apply Nat.eqb_eq in X, Y. subst. rewrite Nat.eqb_refl in E. discriminate.
Qed.
(** root form: writing element (i,j) through a view obtained by ANY chain of view operations changes exactly the element
    of the root matrix that the chain denotes, to the value the two element types agree on, and nothing else *)
Lemma write_through_view_changes_exactly c W os r v i j e a b :
  wfv r -> injv r -> inb W r -> run_ops os r = Some v -> inr v i j -> inr r a b ->
  vget c (vset c W v i j e) r a b =
  if (a =? fst (chain_index os r i j)) && (b =? snd (chain_index os r i j))
  then flagfix c (count_op is_neg os) (count_op is_tr os) e else vget c W r a b.
Proof.
  intros Wf I [B A] H R Rr. destruct (view_chain_addr os r v i j Wf H R) as (R0 & A0 & B0 & N0 & C0).
  assert (Bv : inb W v). { split. rewrite B0; auto. intros x y Rxy. destruct (view_chain_addr os r v x y Wf H Rxy) as (Rx & Ax & Bx & _). rewrite Ax, Bx. auto. }
  rewrite write_exact by auto. rewrite B0, Nat.eqb_refl. cbn. rewrite A0.
  set (p := chain_index os r i j) in *.
  destruct (vaddr r a b =? vaddr r (fst p) (snd p)) eqn:E.
  - apply Nat.eqb_eq in E. destruct (I _ _ _ _ Rr R0 E) as [-> ->]. rewrite !Nat.eqb_refl. cbn.
    rewrite (adapt_xor c r v _ _ _ N0 C0). rewrite <- (adapt_xor c r v _ _ (adapt c r (flagfix c (count_op is_neg os) (count_op is_tr os) e)) N0 C0).
    rewrite (adapt_xor c r v _ _ _ N0 C0), adapt_invol.
    unfold flagfix. destruct (count_op is_neg os), (count_op is_tr os); rewrite ?eneg_invol, ?econj_invol, ?econj_eneg, ?eneg_invol, ?econj_invol; auto.
  - destruct ((a =? fst p) && (b =? snd p)) eqn:E3; auto. apply andb_true_iff in E3. destruct E3 as [X Y].
    apply Nat.eqb_eq in X, Y. subst. rewrite Nat.eqb_refl in E. discriminate.
Qed.
