(** C25 (views part): proofs about the model C25_views_Model.v.  Everything is for ALL dimensions, offsets, strides and
    operation chains (lia-level arithmetic + induction over the operation list). *)
From Coq Require Import List Arith ZArith Bool Lia ZifyBool FinFun.
Require Import C25_views_Model C25_views_Addr.
Import ListNotations.

(** ** view_chain: any composition of view operations denotes the right elements of the matrix it started from *)
Fixpoint chain_index (os : list vop) (v : view) (i j : nat) : nat * nat :=
  match os with
  | [] => (i, j)
  | o :: os' => match step_view o v with
                | Some v1 => let ab := chain_index os' v1 i j in vop_index_in o v (fst ab) (snd ab)
                | None => (i, j) end
  end.
Definition count_op (f : vop -> bool) (os : list vop) : bool := fold_right (fun o b => xorb (f o) b) false os.
Definition is_neg o := match o with ONeg => true | _ => false end.
Definition is_tr o := match o with OTr => true | _ => false end.

Lemma run_ops_wf os : forall v v', wfv v -> run_ops os v = Some v' -> wfv v'.
Proof.
  induction os as [|o os IH]; cbn; intros v v' W H. { inversion H; subst; auto. }
  destruct (step_view o v) eqn:E; [|discriminate]. eapply IH; [|eauto]. eapply step_view_wf; eauto.
Qed.

Lemma count_op_cons f o os : count_op f (o :: os) = xorb (f o) (count_op f os).
Proof. reflexivity. Qed.
Lemma view_chain_addr os : forall v v' i j,
  wfv v -> run_ops os v = Some v' -> inr v' i j ->
  inr v (fst (chain_index os v i j)) (snd (chain_index os v i j)) /\
  vaddr v' i j = vaddr v (fst (chain_index os v i j)) (snd (chain_index os v i j)) /\
  v_buf v' = v_buf v /\
  v_neg v' = xorb (v_neg v) (count_op is_neg os) /\ v_conj v' = xorb (v_conj v) (count_op is_tr os).
Proof.
  induction os as [|o os IH]; intros v v' i j W H R; cbn [run_ops chain_index] in *.
  { inversion H; subst. cbn. rewrite !xorb_false_r. auto. }
  destruct (step_view o v) as [v1|] eqn:E; [|discriminate].
  destruct (IH v1 v' i j (step_view_wf _ _ _ W E) H R) as (R1 & A1 & B1 & N1 & C1).
  destruct (step_view_addr o v v1 _ _ W E R1) as (R0 & A0 & B0).
  destruct (step_view_flags o v v1 E) as (N0 & C0).
  rewrite !count_op_cons.
  repeat split; try apply R0; try congruence.
  - rewrite N1, N0. generalize (count_op is_neg os). intro cn. unfold is_neg. destruct o, (v_neg v), cn; reflexivity.
  - rewrite C1, C0. generalize (count_op is_tr os). intro cn. unfold is_tr. destruct o, (v_conj v), cn; reflexivity.
Qed.

(** value form *)
Definition flagfix (c n t : bool) (e : elt) : elt := let e1 := if t then econj c e else e in if n then eneg e1 else e1.
Lemma adapt_xor c v v' n t e :
  v_neg v' = xorb (v_neg v) n -> v_conj v' = xorb (v_conj v) t -> adapt c v' e = flagfix c n t (adapt c v e).
Proof.
  unfold adapt, flagfix. intros -> ->. destruct (v_neg v), (v_conj v), n, t; cbn;
    rewrite ?eneg_invol, ?econj_invol, ?econj_eneg, ?eneg_invol, ?econj_invol; auto.
Qed.

Lemma adapt_adapt_xor c r v n t e :
  v_neg v = xorb (v_neg r) n -> v_conj v = xorb (v_conj r) t -> adapt c r (adapt c v e) = flagfix c n t e.
Proof.
  unfold adapt, flagfix. intros -> ->. destruct (v_neg r), (v_conj r), n, t; cbn [xorb];
    repeat (rewrite ?econj_eneg, ?eneg_invol, ?econj_invol); auto.
Qed.

Lemma view_chain c W os v v' i j :
  wfv v -> run_ops os v = Some v' -> inr v' i j ->
  vget c W v' i j = flagfix c (count_op is_neg os) (count_op is_tr os)
                      (vget c W v (fst (chain_index os v i j)) (snd (chain_index os v i j))).
Proof.
  intros Wf H R. destruct (view_chain_addr os v v' i j Wf H R) as (_ & A & B & N & C).
  unfold vget. rewrite A, B. apply adapt_xor; auto.
Qed.

(** the individual operations, in the words of the documentation *)
Lemma one c W o v v' i j : wfv v -> step_view o v = Some v' -> inr v' i j ->
  vget c W v' i j = flagfix c (is_neg o) (is_tr o) (vget c W v (fst (vop_index_in o v i j)) (snd (vop_index_in o v i j))).
Proof.
  intros Wf H R. assert (H1 : run_ops [o] v = Some v') by (cbn; rewrite H; auto).
  rewrite (view_chain c W [o] v v' i j Wf H1 R). cbn. rewrite H, !xorb_false_r. reflexivity.
Qed.
Lemma block_elt c W v v' i0 j0 m n i j : wfv v -> step_view (OBlock i0 j0 m n) v = Some v' -> i < m -> j < n ->
  vget c W v' i j = vget c W v (i0 + i) (j0 + j).
Proof. intros Wf H A B. destruct (step_view_dims _ _ _ H). apply (one c W _ _ _ i j Wf H). split; lia. Qed.
Lemma row_elt c W v v' i0 j : wfv v -> step_view (ORow i0) v = Some v' -> j < v_nc v ->
  vget c W v' 0 j = vget c W v i0 j.
Proof. intros Wf H B. destruct (step_view_dims _ _ _ H). apply (one c W _ _ _ 0 j Wf H). split; lia. Qed.
Lemma col_elt c W v v' j0 i : wfv v -> step_view (OCol j0) v = Some v' -> i < v_nr v ->
  vget c W v' i 0 = vget c W v i j0.
Proof. intros Wf H B. destruct (step_view_dims _ _ _ H). apply (one c W _ _ _ i 0 Wf H). split; lia. Qed.
Lemma diag_elt c W v v' i : wfv v -> step_view ODiag v = Some v' -> i < Nat.min (v_nr v) (v_nc v) ->
  vget c W v' i 0 = vget c W v i i.
Proof. intros Wf H B. destruct (step_view_dims _ _ _ H). apply (one c W _ _ _ i 0 Wf H). split; lia. Qed.
Lemma transpose_elt c W v v' i j : wfv v -> step_view OTr v = Some v' -> i < v_nc v -> j < v_nr v ->
  vget c W v' i j = econj c (vget c W v j i).
Proof. intros Wf H A B. destruct (step_view_dims _ _ _ H). apply (one c W _ _ _ i j Wf H). split; lia. Qed.
Lemma negate_elt c W v v' i j : wfv v -> step_view ONeg v = Some v' -> i < v_nr v -> j < v_nc v ->
  vget c W v' i j = eneg (vget c W v i j).
Proof. intros Wf H A B. destruct (step_view_dims _ _ _ H). apply (one c W _ _ _ i j Wf H). split; lia. Qed.
Lemma subvector_elt c W v v' k m i : wfv v -> v_shape v = SVec -> step_view (OSub k m) v = Some v' -> i < m ->
  vget c W v' i 0 = vget c W v (k + i) 0.
Proof.
  intros Wf S H A. pose proof (step_view_dims _ _ _ H) as D. cbn in D. rewrite S in D. destruct D.
  rewrite (one c W _ _ _ i 0 Wf H) by (split; lia). cbn. rewrite S. reflexivity.
Qed.
Lemma subrow_elt c W v v' k m j : wfv v -> v_shape v = SRow -> step_view (OSub k m) v = Some v' -> j < m ->
  vget c W v' 0 j = vget c W v 0 (k + j).
Proof.
  intros Wf S H A. pose proof (step_view_dims _ _ _ H) as D. cbn in D. rewrite S in D. destruct D.
  rewrite (one c W _ _ _ 0 j Wf H) by (split; lia). cbn. rewrite S. reflexivity.
Qed.
(** negation and transposition are involutive as views *)
Lemma negate_involutive c W v v1 v2 i j : wfv v -> step_view ONeg v = Some v1 -> step_view ONeg v1 = Some v2 ->
  i < v_nr v -> j < v_nc v -> vget c W v2 i j = vget c W v i j.
Proof.
  intros Wf H1 H2 A B. pose proof (step_view_dims _ _ _ H1) as [D1 D2].
  rewrite (negate_elt c W v1 v2 i j) by (eauto using step_view_wf; lia).
  rewrite (negate_elt c W v v1 i j) by auto. apply eneg_invol.
Qed.
Lemma transpose_involutive c W v v1 v2 i j : wfv v -> step_view OTr v = Some v1 -> step_view OTr v1 = Some v2 ->
  i < v_nr v -> j < v_nc v -> vget c W v2 i j = vget c W v i j.
Proof.
  intros Wf H1 H2 A B. pose proof (step_view_dims _ _ _ H1) as [D1 D2].
  rewrite (transpose_elt c W v1 v2 i j) by (eauto using step_view_wf; lia).
  rewrite (transpose_elt c W v v1 j i) by auto. apply econj_invol.
Qed.

(** ** injectivity of the addressing: distinct in-range elements of one view never share a cell *)
Definition injv (v : view) : Prop :=
  forall i j i' j', inr v i j -> inr v i' j' -> vaddr v i j = vaddr v i' j' -> i = i' /\ j = j'.

Lemma vop_index_inj o v v' i j i' j' : step_view o v = Some v' -> inr v' i j -> inr v' i' j' ->
  vop_index_in o v i j = vop_index_in o v i' j' -> i = i' /\ j = j'.
Proof.
  intros H [A B] [A' B'] E. pose proof (step_view_dims _ _ _ H) as D.
  unfold vop_index_in, vop_index in E. revert D E. destruct o; try destruct (v_shape v); intros D E; inversion E; destruct D; try lia.
Qed.
Lemma step_view_inj o v v' : wfv v -> injv v -> step_view o v = Some v' -> injv v'.
Proof.
  intros Wf I H i j i' j' R R' E.
  destruct (step_view_addr o v v' i j Wf H R) as (R0 & A0 & _).
  destruct (step_view_addr o v v' i' j' Wf H R') as (R1 & A1 & _).
  rewrite A0, A1 in E. destruct (I _ _ _ _ R0 R1 E) as [E1 E2].
  apply (vop_index_inj o v v' i j i' j' H R R'). destruct (vop_index_in o v i j), (vop_index_in o v i' j'); cbn in *; congruence.
Qed.
Lemma run_ops_inj os : forall v v', wfv v -> injv v -> run_ops os v = Some v' -> injv v'.
Proof.
  induction os as [|o os IH]; cbn; intros v v' W I H. { inversion H; subst; auto. }
  destruct (step_view o v) eqn:E; [|discriminate]. eapply IH; [| |eauto]; eauto using step_view_wf, step_view_inj.
Qed.
(** packed owners (what Matrix_(m,n), Vector_(m), RowVector_(n), deep copies and resize allocate) address injectively *)
Lemma packed_full_inj b ro nr nc base ng cj sh ow :
  injv (mkView b (HFull ro (if ro then nc else nr)) nr nc base ng cj sh ow).
Proof.
  intros i j i' j' [A B] [A' B'] E. unfold vaddr in E; cbn in *. destruct ro; cbn in E.
  - destruct (Nat.lt_trichotomy i i') as [L|[L|L]]; [|subst; split; lia|].
    + assert ((i + 1) * nc <= i' * nc) by (apply Nat.mul_le_mono_r; lia). lia.
    + assert ((i' + 1) * nc <= i * nc) by (apply Nat.mul_le_mono_r; lia). lia.
  - destruct (Nat.lt_trichotomy j j') as [L|[L|L]]; [|subst; split; lia|].
    + assert ((j + 1) * nr <= j' * nr) by (apply Nat.mul_le_mono_r; lia). lia.
    + assert ((j' + 1) * nr <= j * nr) by (apply Nat.mul_le_mono_r; lia). lia.
Qed.
Lemma packed_vec_inj b r nr nc base ng cj sh ow : nr <= 1 \/ nc <= 1 ->
  injv (mkView b (HVecC r) nr nc base ng cj sh ow).
Proof. intros D i j i' j' [A B] [A' B'] E. unfold vaddr in E; cbn in *. lia. Qed.

(** ** writes *)
Lemma upd_length {A} (l : list A) k x : length (upd l k x) = length l.
Proof. revert k; induction l; destruct k; cbn; auto. Qed.
Lemma nth_upd {A} (l : list A) k k' x d : nth k' (upd l k x) d = if (k' =? k) && (k <? length l) then x else nth k' l d.
Proof.
  revert k k'; induction l as [|a l IH]; intros k k'. { cbn. destruct k, k'; cbn; rewrite ?andb_false_r; auto. }
  destruct k, k'; cbn; auto. rewrite IH. reflexivity.
Qed.
Definition inb (W : world) (v : view) : Prop :=
  v_buf v < length (w_bufs W) /\ forall i j, inr v i j -> vaddr v i j < length (nth (v_buf v) (w_bufs W) []).
Lemma cell_setcell W b a x b' a' :
  cell (setcell W b a x) b' a' =
  if (b' =? b) && (b <? length (w_bufs W)) && (a' =? a) && (a <? length (nth b (w_bufs W) [])) then x else cell W b' a'.
Proof.
  unfold cell, setcell; cbn [w_bufs]. rewrite nth_upd.
  destruct ((b' =? b) && (b <? length (w_bufs W))) eqn:E; cbn [andb]; [|reflexivity].
  apply andb_true_iff in E. destruct E as [E E']. apply Nat.eqb_eq in E. subst b'. rewrite nth_upd. reflexivity.
Qed.

(** write_through_view_changes_exactly, cell form: after h(i,j) = e, ANY handle w (same block or another, any chain of
    views) reads the new value where its element occupies the written cell, and its old value everywhere else *)
Lemma write_exact c W v i j e w i' j' :
  inb W v -> inr v i j ->
  vget c (vset c W v i j e) w i' j' =
  if (v_buf w =? v_buf v) && (vaddr w i' j' =? vaddr v i j) then adapt c w (adapt c v e) else vget c W w i' j'.
Proof.
  intros [B A] R. unfold vget, vset. rewrite cell_setcell. specialize (A _ _ R).
  destruct (v_buf w =? v_buf v) eqn:E1, (vaddr w i' j' =? vaddr v i j) eqn:E2; cbn [andb]; bd; auto; lia.
Qed.
(** ... and within the written view itself exactly element (i,j) changes *)
Lemma write_exact_self c W v i j e i' j' :
  inb W v -> injv v -> inr v i j -> inr v i' j' ->
  vget c (vset c W v i j e) v i' j' = if (i' =? i) && (j' =? j) then e else vget c W v i' j'.
Proof.
  intros B I R R'. rewrite write_exact by auto. rewrite Nat.eqb_refl. cbn.
  destruct (vaddr v i' j' =? vaddr v i j) eqn:E.
  - apply Nat.eqb_eq in E. destruct (I _ _ _ _ R' R E); subst. rewrite !Nat.eqb_refl. cbn. apply adapt_invol.
  - destruct ((i' =? i) && (j' =? j)) eqn:E3; auto. apply andb_true_iff in E3. destruct E3 as [X Y].
    apply Nat.eqb_eq in X, Y. subst. rewrite Nat.eqb_refl in E. discriminate.
Qed.
(** root form: writing element (i,j) through a view obtained by ANY chain of view operations changes exactly the element
    of the root matrix that the chain denotes, to the value the two element types agree on, and nothing else *)
Lemma write_through_view_changes_exactly c W os r v i j e a b :
  wfv r -> injv r -> inb W r -> run_ops os r = Some v -> inr v i j -> inr r a b ->
  vget c (vset c W v i j e) r a b =
  if (a =? fst (chain_index os r i j)) && (b =? snd (chain_index os r i j))
  then flagfix c (count_op is_neg os) (count_op is_tr os) e else vget c W r a b.
Proof.
  intros Wf I [B A] H R Rr. destruct (view_chain_addr os r v i j Wf H R) as (R0 & A0 & B0 & N0 & C0).
  assert (Bv : inb W v). { split. rewrite B0; auto. intros x y Rxy. destruct (view_chain_addr os r v x y Wf H Rxy) as (Rx & Ax & Bx & _). rewrite Ax, Bx. auto. }
  rewrite write_exact by auto. rewrite B0, Nat.eqb_refl. cbn. rewrite A0.
  set (p := chain_index os r i j) in *.
  destruct (vaddr r a b =? vaddr r (fst p) (snd p)) eqn:E.
  - apply Nat.eqb_eq in E. destruct (I _ _ _ _ Rr R0 E) as [-> ->]. rewrite !Nat.eqb_refl. cbn.
    apply adapt_adapt_xor; auto.
  - destruct ((a =? fst p) && (b =? snd p)) eqn:E3; auto. apply andb_true_iff in E3. destruct E3 as [X Y].
    apply Nat.eqb_eq in X, Y. subst. rewrite Nat.eqb_refl in E. discriminate.
Qed.

(** ** whole-view updates: elementwise scalar operations, assignment from another matrix, fill *)
Lemma in_ixs nr nc i j : In (i, j) (ixs nr nc) <-> i < nr /\ j < nc.
Proof.
  unfold ixs. rewrite in_flat_map. split.
  - intros (x & Hx & H). apply in_map_iff in H. destruct H as (y & E & Hy). inversion E; subst.
    apply in_seq in Hx, Hy. lia.
  - intros [A B]. exists j. split. apply in_seq; lia. apply in_map_iff. exists i. split; auto. apply in_seq; lia.
Qed.
Lemma nodup_app {A} (l1 l2 : list A) : NoDup l1 -> NoDup l2 -> (forall x, In x l1 -> ~ In x l2) -> NoDup (l1 ++ l2).
Proof.
  induction l1 as [|a l1 IH]; cbn; auto. intros N1 N2 D. inversion N1; subst. constructor.
  - rewrite in_app_iff. intros [X|X]; auto. apply (D a); auto.
  - apply IH; auto.
Qed.
Lemma nodup_ixs nr nc : NoDup (ixs nr nc).
Proof.
  unfold ixs. generalize 0 at 2. induction nc as [|nc IH]; intro s; cbn. constructor.
  apply nodup_app; auto.
  - apply FinFun.Injective_map_NoDup. intros x y E; inversion E; auto. apply seq_NoDup.
  - intros [a b] H1 H2. apply in_map_iff in H1. destruct H1 as (y & E & _). inversion E; subst.
    apply in_flat_map in H2. destruct H2 as (x & Hx & H). apply in_map_iff in H. destruct H as (z & E2 & _). inversion E2; subst.
    apply in_seq in Hx. lia.
Qed.

Lemma vset_inb c W v i j e w : inb W w -> inb (vset c W v i j e) w.
Proof.
  unfold inb, vset, setcell; cbn [w_bufs]. intros [B A]. rewrite upd_length. split; auto.
  intros x y R. rewrite nth_upd. specialize (A x y R). bd; auto. rewrite upd_length.
  apply andb_true_iff in E. destruct E as [E _]. apply Nat.eqb_eq in E. rewrite <- E. auto.
Qed.

Definition pair_dec (x y : nat * nat) : {x = y} + {x <> y}.
Proof. decide equality; apply Nat.eq_dec. Defined.

Section Bulk.
Variable c : bool.
Variable v : view.
Variable g : world -> nat -> nat -> elt.          (* the new value of element (i,j), possibly read from the current state *)
Definition bulk (L : list (nat * nat)) (W : world) : world :=
  fold_left (fun W' ij => vset c W' v (fst ij) (snd ij) (g W' (fst ij) (snd ij))) L W.
(** g may read only element (i,j) of the view itself *)
Hypothesis g_local : forall W W' i j, vget c W v i j = vget c W' v i j -> g W i j = g W' i j.

Lemma bulk_spec L : forall W, inb W v -> injv v -> NoDup L -> (forall ij, In ij L -> inr v (fst ij) (snd ij)) ->
  inb (bulk L W) v /\
  (forall a b, inr v a b -> vget c (bulk L W) v a b = if in_dec pair_dec (a, b) L then g W a b else vget c W v a b) /\
  (forall w i' j', (v_buf w <> v_buf v \/ forall ij, In ij L -> vaddr w i' j' <> vaddr v (fst ij) (snd ij)) ->
                   vget c (bulk L W) w i' j' = vget c W w i' j').
Proof.
  induction L as [|[i j] L IH]; intros W B I N R; cbn [bulk fold_left].
  { repeat split; auto; try apply B. all: intros; try (destruct (in_dec _ _ _) as [X|X]; [destruct X|]); auto. }
  inversion N as [|x l N1 N2]; subst.
  assert (Rij : inr v i j) by (apply (R (i, j)); left; auto).
  set (W1 := vset c W v i j (g W i j)). cbn [fst snd]. fold W1.
  destruct (IH W1 (vset_inb c W v i j _ v B) I N2 (fun ij H => R ij (or_intror H))) as (B' & G & O).
  fold (bulk L W1). repeat split; try apply B'.
  - intros a b Rab. rewrite (G a b Rab).
    destruct (in_dec _ (a, b) L) as [X|X]; destruct (in_dec _ (a, b) ((i, j) :: L)) as [Y|Y].
    + apply g_local. unfold W1. rewrite write_exact_self by auto.
      destruct ((a =? i) && (b =? j)) eqn:E; auto. apply andb_true_iff in E. destruct E as [E1 E2].
      apply Nat.eqb_eq in E1, E2. subst. contradiction.
    + destruct Y. right; auto.
    + destruct Y as [Y|Y]; [|contradiction]. inversion Y; subst. unfold W1. rewrite write_exact_self by auto.
      rewrite !Nat.eqb_refl. reflexivity.
    + unfold W1. rewrite write_exact_self by auto.
      destruct ((a =? i) && (b =? j)) eqn:E; auto. apply andb_true_iff in E. destruct E as [E1 E2].
      apply Nat.eqb_eq in E1, E2. subst. destruct Y. left; auto.
  - intros w i' j' D. rewrite O.
    + unfold W1. rewrite write_exact by auto. destruct D as [D|D].
      * destruct (v_buf w =? v_buf v) eqn:E; auto. apply Nat.eqb_eq in E. contradiction.
      * specialize (D (i, j) (or_introl eq_refl)). cbn in D.
        destruct (vaddr w i' j' =? vaddr v i j) eqn:E; [apply Nat.eqb_eq in E; contradiction|]. rewrite andb_false_r. auto.
    + destruct D as [D|D]; auto. right. intros ij H. apply D. right; auto.
Qed.
End Bulk.

(** elementwise update through a view (scalar multiply, += matrix, -= matrix, += scalar on vectors ...): every viewed
    element gets exactly its new value, every element any other handle sees outside the view is untouched *)
Lemma vmap_exact c W v f : inb W v -> injv v ->
  (forall a b, inr v a b -> vget c (vmap c W v f) v a b = f a b (vget c W v a b)) /\
  (forall w i' j', (v_buf w <> v_buf v \/ forall i j, inr v i j -> vaddr w i' j' <> vaddr v i j) ->
                   vget c (vmap c W v f) w i' j' = vget c W w i' j').
Proof.
  intros B I.
  destruct (bulk_spec c v (fun W' i j => f i j (vget c W' v i j)) (fun W1 W2 i j E => f_equal (f i j) E)
              (vixs v) W B I (nodup_ixs _ _) (fun ij H => proj1 (in_ixs _ _ (fst ij) (snd ij)) ltac:(destruct ij; exact H))) as (_ & G & O).
  split.
  - intros a b R. change (vmap c W v f) with (bulk c v (fun W' i j => f i j (vget c W' v i j)) (vixs v) W).
    rewrite (G a b R). destruct (in_dec _ _ _) as [X|X]; auto. destruct X. apply in_ixs. exact R.
  - intros w i' j' D. change (vmap c W v f) with (bulk c v (fun W' i j => f i j (vget c W' v i j)) (vixs v) W).
    apply O. destruct D as [D|D]; auto. right. intros [i j] H. apply D. apply in_ixs in H. exact H.
Qed.

(** fillWith's shortcut: a helper that reports contiguous data occupies exactly the cells base .. base + nelt - 1,
    element (i,j) at its column-major (row-major for row order) position *)
Lemma contiguous_range v i j : wfv v -> contiguous v = true -> inr v i j ->
  v_base v <= vaddr v i j < v_base v + v_nr v * v_nc v /\
  vaddr v i j = v_base v + match v_h v with HFull true _ => i * v_nc v + j | HFull false _ => j * v_nr v + i | _ => i + j end.
Proof.
  unfold wfv, contiguous, inr, vaddr. destruct v as [b h nr nc ba ng cj sh ow]; cbn [v_h v_nr v_nc v_base].
  intros W C [A B]. destruct h as [[|] ld| r | r s]; cbn [addr] in *; try discriminate.
  - apply Nat.eqb_eq in C. subst. split; [|lia]. assert ((i + 1) * nc <= nr * nc) by (apply Nat.mul_le_mono_r; lia). lia.
  - apply Nat.eqb_eq in C. subst. split; [|lia]. assert ((j + 1) * nr <= nc * nr) by (apply Nat.mul_le_mono_r; lia). lia.
  - split; [|lia]. destruct W as [W|W]; [assert (i = 0) by lia | assert (j = 0) by lia]; subst; nia.
Qed.

(** ** packed storage index maps *)
(** SymMat<M>: lowerIx(i,j), j < i < M, enumerates the strict lower triangle column by column *)
Fixpoint tri_num (j : nat) : nat := match j with 0 => 0 | S k => k + tri_num k end.       (* 0+1+...+(j-1) *)
Lemma tri_num_div j : j * (j - 1) / 2 = tri_num j.
Proof.
  assert (H : forall k, k * (k - 1) = 2 * tri_num k).
  { induction k as [|k IH]; cbn [tri_num]; [reflexivity|]. destruct k; [reflexivity|]. cbn [Nat.sub] in *. rewrite Nat.sub_0_r in *. nia. }
  rewrite H. rewrite Nat.mul_comm. apply Nat.div_mul. lia.
Qed.
Definition col_start (M j : nat) : nat := j * (M - 1) - tri_num j.
Lemma tri_num_le j M : j <= M -> tri_num j <= j * (M - 1).
Proof. induction j as [|j IH]; cbn [tri_num]; intros; [lia|]. specialize (IH ltac:(lia)). nia. Qed.
Lemma col_start_succ M j : S j <= M -> col_start M (S j) = col_start M j + (M - 1 - j).
Proof. unfold col_start. intro H. cbn [tri_num]. pose proof (tri_num_le j M ltac:(lia)). nia. Qed.
Lemma col_start_mono M j j' : j <= j' -> j' <= M -> col_start M j <= col_start M j'.
Proof. induction 1; intros; auto. rewrite col_start_succ by lia. specialize (IHle ltac:(lia)). lia. Qed.
Lemma sym_lowerIx_eq M i j : j < i -> i < M -> sym_lowerIx M i j = col_start M j + (i - j - 1).
Proof. unfold sym_lowerIx, col_start. intros. rewrite tri_num_div. pose proof (tri_num_le j M ltac:(lia)). lia. Qed.
Lemma col_start_total M : col_start M (M - 1) = tri_num M.
Proof.
  destruct M as [|M]; [reflexivity|]. cbn [Nat.sub]. rewrite Nat.sub_0_r.
  induction M as [|M IH]; [reflexivity|]. rewrite col_start_succ by lia.
  assert (E : col_start (S (S M)) M = col_start (S M) M + M).
  { unfold col_start. cbn [Nat.sub]. rewrite !Nat.sub_0_r. pose proof (tri_num_le M (S M) ltac:(lia)). cbn [Nat.sub] in *. rewrite Nat.sub_0_r in *. nia. }
  rewrite E, IH. cbn [tri_num]. lia.
Qed.
Lemma sym_lowerIx_range M i j : j < i -> i < M -> sym_lowerIx M i j < tri_num M.
Proof.
  intros A B. rewrite sym_lowerIx_eq by auto. rewrite <- col_start_total.
  pose proof (col_start_mono M (S j) (M - 1) ltac:(lia) ltac:(lia)) as Hm. rewrite col_start_succ in Hm by lia. lia.
Qed.
Lemma sym_lowerIx_injective M i j i' j' : j < i -> i < M -> j' < i' -> i' < M ->
  sym_lowerIx M i j = sym_lowerIx M i' j' -> i = i' /\ j = j'.
Proof.
  intros A B A' B' E. rewrite !sym_lowerIx_eq in E by auto.
  destruct (Nat.lt_trichotomy j j') as [L|[L|L]]; [|subst; lia|]; exfalso.
  - pose proof (col_start_mono M (S j) j' ltac:(lia) ltac:(lia)) as Hm. rewrite col_start_succ in Hm by lia. lia.
  - pose proof (col_start_mono M (S j') j ltac:(lia) ltac:(lia)) as Hm. rewrite col_start_succ in Hm by lia. lia.
Qed.
(** onto: every position below M(M-1)/2 is the index of some (i,j) *)
Lemma sym_lowerIx_surjective M k : k < tri_num M -> exists i j, j < i /\ i < M /\ sym_lowerIx M i j = k.
Proof.
  intro H. rewrite <- col_start_total in H.
  assert (G : forall n, n <= M - 1 -> k < col_start M n -> exists i j, j < i /\ i < M /\ sym_lowerIx M i j = k).
  { induction n as [|n IH]; intros Hn Hk. { unfold col_start in Hk. cbn in Hk. lia. }
    destruct (Nat.lt_ge_cases k (col_start M n)) as [L|L]; [apply IH; lia|].
    rewrite col_start_succ in Hk by lia. exists (n + 1 + (k - col_start M n)), n. repeat split; try lia.
    rewrite sym_lowerIx_eq by lia. lia. }
  apply (G (M - 1)); auto.
Qed.
(** whole SymMat storage: diagonal first, then the lower triangle: a bijection between {(i,j) | j <= i < M} and [0, M(M+1)/2) *)
Lemma sym_index_range M i j : j <= i -> i < M -> sym_index M i j < M + tri_num M.
Proof. unfold sym_index. intros. bd; [lia|]. apply Nat.eqb_neq in E. pose proof (sym_lowerIx_range M i j ltac:(lia) ltac:(lia)). lia. Qed.
Lemma sym_index_injective M i j i' j' : j <= i -> i < M -> j' <= i' -> i' < M ->
  sym_index M i j = sym_index M i' j' -> i = i' /\ j = j'.
Proof.
  unfold sym_index. intros A B A' B' E. destruct (Nat.eqb_spec i j), (Nat.eqb_spec i' j'); try lia.
  apply (sym_lowerIx_injective M); lia.
Qed.
Lemma sym_index_surjective M k : k < M + tri_num M -> exists i j, j <= i /\ i < M /\ sym_index M i j = k.
Proof.
  intro H. destruct (Nat.lt_ge_cases k M) as [L|L].
  - exists k, k. unfold sym_index. rewrite Nat.eqb_refl. lia.
  - destruct (sym_lowerIx_surjective M (k - M) ltac:(lia)) as (i & j & A & B & E). exists i, j. unfold sym_index.
    destruct (i =? j) eqn:E1; [apply Nat.eqb_eq in E1; lia|]. lia.
Qed.
Lemma tri_num_closed M : 2 * (M + tri_num M) = M * (M + 1).
Proof. induction M as [|M IH]; cbn [tri_num]; nia. Qed.

(** TriInFullUpperHelper: the stored elements (i <= j < minmn) of a triangular/symmetric/Hermitian matrix kept in the upper
    triangle of a full square never share a cell, and getAnyElt_ rebuilds the unstored half as documented *)
Lemma tri_addr_injective t i j i' j' : t_minmn t <= t_ld t ->
  tri_stored t i j = true -> tri_stored t i' j' = true -> tri_addr t i j = tri_addr t i' j' -> i = i' /\ j = j'.
Proof.
  unfold tri_stored, tri_addr. intros L S S' E. destruct (t_rowOrder t).
  - destruct (Nat.lt_trichotomy i i') as [X|[X|X]]; [|subst; lia|]; exfalso.
    + assert ((i + 1) * t_ld t <= i' * t_ld t) by (apply Nat.mul_le_mono_r; lia). lia.
    + assert ((i' + 1) * t_ld t <= i * t_ld t) by (apply Nat.mul_le_mono_r; lia). lia.
  - destruct (Nat.lt_trichotomy j j') as [X|[X|X]]; [|subst; lia|]; exfalso.
    + assert ((j + 1) * t_ld t <= j' * t_ld t) by (apply Nat.mul_le_mono_r; lia). lia.
    + assert ((j' + 1) * t_ld t <= j * t_ld t) by (apply Nat.mul_le_mono_r; lia). lia.
Qed.
Lemma tri_any_stored c k t mem i j : tri_stored t i j = true -> tri_any c k t mem i j = nth (tri_addr t i j) mem [].
Proof. unfold tri_any. intros ->. rewrite orb_true_r. reflexivity. Qed.
Lemma tri_any_triangular_zero c k t mem i j : t_triangular t = true -> j < i -> tri_any c k t mem i j = ezero k.
Proof. unfold tri_any, tri_stored. intros -> L. bd; auto; lia. Qed.
Lemma tri_any_symmetric c k t mem i j :
  t_triangular t = false -> t_hermitian t = false -> t_skew t = false -> i < t_minmn t -> j < t_minmn t ->
  tri_any c k t mem i j = tri_any c k t mem j i.
Proof.
  unfold tri_any, tri_stored. intros -> -> -> A B. cbn [orb].
  destruct (Nat.lt_trichotomy i j) as [X|[X|X]]; [|subst; reflexivity|]; bd; auto; lia.
Qed.
Lemma tri_any_hermitian c k t mem i j :
  t_triangular t = false -> t_hermitian t = true -> t_skew t = false -> i < t_minmn t -> j < t_minmn t -> i <> j ->
  tri_any c k t mem i j = econj c (tri_any c k t mem j i).
Proof.
  unfold tri_any, tri_stored. intros -> -> -> A B N. cbn [orb].
  destruct (Nat.lt_trichotomy i j) as [X|[X|X]]; [|lia|]; bd; rewrite ?econj_invol; auto; lia.
Qed.
Lemma tri_any_skew c k t mem i j :
  t_triangular t = false -> t_hermitian t = false -> t_skew t = true -> i < t_minmn t -> j < t_minmn t -> i <> j ->
  tri_any c k t mem i j = eneg (tri_any c k t mem j i).
Proof.
  unfold tri_any, tri_stored. intros -> -> -> A B N. cbn [orb].
  destruct (Nat.lt_trichotomy i j) as [X|[X|X]]; [|lia|]; bd; rewrite ?eneg_invol; auto; lia.
Qed.

(** ** scalar conventions (DESIGN 5 C25): adding a scalar to a Matrix_ handle touches the diagonal only (scalar * identity),
    adding it to a Vector_/RowVector_ handle touches every element *)
Lemma diag_view_step v : step_view ODiag v = Some (diag_view v).
Proof. reflexivity. Qed.
Lemma scalar_add_matrix c W v e i j :
  v_shape v = SMat -> wfv v -> injv v -> inb W v -> inr v i j ->
  vget c (vscalar_add c W v e) v i j = if i =? j then eadd (vget c W v i j) e else vget c W v i j.
Proof.
  intros S Wf I B R. unfold vscalar_add. rewrite S. set (d := diag_view v).
  pose proof (diag_view_step v) as Hd. fold d in Hd.
  assert (Wd : wfv d) by exact (step_view_wf ODiag v d Wf Hd).
  assert (Id : injv d) by exact (step_view_inj ODiag v d Wf I Hd).
  assert (Ad : forall k, inr d k 0 -> inr v k k /\ vaddr d k 0 = vaddr v k k /\ v_buf d = v_buf v).
  { intros k Rk. exact (step_view_addr ODiag v d k 0 Wf Hd Rk). }
  assert (Dd : v_nr d = Nat.min (v_nr v) (v_nc v) /\ v_nc d = 1) by (apply (step_view_dims ODiag v d Hd)).
  assert (Bd : inb W d). { destruct B as [B1 B2]. split. replace (v_buf d) with (v_buf v) by reflexivity. auto.
    intros x y [X Y]. assert (y = 0) by lia. subst. destruct (Ad x (conj X Y)) as (Rv & Av & Bv). rewrite Av, Bv. auto. }
  destruct (vmap_exact c W d (fun _ _ x => eadd x e) Bd Id) as [G O].
  destruct R as [Ri Rj]. destruct (Nat.eqb_spec i j) as [E|E].
  - subst j. assert (Rk : inr d i 0) by (split; lia). specialize (G i 0 Rk). destruct (Ad i Rk) as (_ & Av & Bv).
    unfold vget in *. rewrite <- Av, <- Bv. exact G.
  - apply O. right. intros x y [X Y] Eq. assert (y = 0) by lia. subst. destruct (Ad x (conj X Y)) as (Rv & Av & _).
    rewrite Av in Eq. destruct (I i j x x (conj Ri Rj) Rv Eq). lia.
Qed.
Lemma scalar_add_vector c W v e i j :
  v_shape v <> SMat -> injv v -> inb W v -> inr v i j ->
  vget c (vscalar_add c W v e) v i j = eadd (vget c W v i j) e.
Proof.
  intros S I B R. unfold vscalar_add. destruct (v_shape v); try congruence; apply (proj1 (vmap_exact c W v (fun _ _ x => eadd x e) B I)); auto.
Qed.
(** *= s, += M, -= M through any view: every viewed element gets s * old, old + M(i,j), old - M(i,j) *)
Lemma scale_through_view c W v s i j : injv v -> inb W v -> inr v i j ->
  vget c (vmap c W v (fun _ _ x => escale s x)) v i j = escale s (vget c W v i j).
Proof. intros I B R. apply (proj1 (vmap_exact c W v (fun _ _ x => escale s x) B I)); auto. Qed.

(** ** sum / norm-style folds over a view are folds over the elements of the root matrix the chain denotes *)
Lemma fold_left_ext_in {A B} (f g : A -> B -> A) l : (forall x, In x l -> forall a, f a x = g a x) -> forall a, fold_left f l a = fold_left g l a.
Proof. induction l as [|x l IH]; cbn; intros H a; auto. rewrite H by auto. apply IH. intros; apply H; auto. Qed.
Lemma vsum_denotes c k W os r v : wfv r -> run_ops os r = Some v ->
  vsum c k W v = fold_left (fun s ij => eadd s (flagfix c (count_op is_neg os) (count_op is_tr os)
                     (vget c W r (fst (chain_index os r (fst ij) (snd ij))) (snd (chain_index os r (fst ij) (snd ij))))))
                           (vixs v) (ezero k).
Proof.
  intros Wf H. unfold vsum. apply fold_left_ext_in. intros [i j] Hin a. cbn [fst snd]. f_equal.
  apply view_chain; auto. apply in_ixs. exact Hin.
Qed.
Lemma vnormsqr_denotes c W os r v : wfv r -> run_ops os r = Some v ->
  vnormsqr c W v = fold_left (fun s ij => Z.add s (esqr (flagfix c (count_op is_neg os) (count_op is_tr os)
                     (vget c W r (fst (chain_index os r (fst ij) (snd ij))) (snd (chain_index os r (fst ij) (snd ij)))))))
                           (vixs v) 0%Z.
Proof.
  intros Wf H. unfold vnormsqr. apply fold_left_ext_in. intros [i j] Hin a. cbn [fst snd]. do 2 f_equal.
  apply view_chain; auto. apply in_ixs. exact Hin.
Qed.

(** ** owners.  Matrix_(m,n) / Vector_(m) / RowVector_(n) and every resize of an owner that has a FULL helper give a packed,
    well-formed, injectively addressed block ... *)
Definition new_view (b : nat) (sh : shape) (m n : nat) : view :=
  let ro := (m =? 1) && negb (n =? 1) in
  mkView b (match sh with SMat => HFull ro (if ro then n else m) | SVec => HVecC false | SRow => HVecC true end) m n 0 false false sh true.
Lemma new_owner_ok b sh m n : size_ok sh m n = true -> wfv (new_view b sh m n) /\ injv (new_view b sh m n).
Proof.
  unfold size_ok, new_view, wfv. destruct sh; cbn [v_h v_nr v_nc]; intro S.
  - split; auto. apply packed_full_inj.
  - apply Nat.eqb_eq in S. subst. split; [lia|]. apply packed_vec_inj. lia.
  - apply Nat.eqb_eq in S. subst. split; [lia|]. apply packed_vec_inj. lia.
Qed.
Lemma resize_full_owner_ok rp W h v m n keep W1 v1 ro ld :
  v_h v = HFull ro ld -> resize rp W h v m n keep = Some (W1, v1) -> (m, n) <> (v_nr v, v_nc v) ->
  v_nr v1 = m /\ v_nc v1 = n /\ wfv v1 /\ injv v1.
Proof.
  unfold resize. intros Hh H D. destruct ((m =? v_nr v) && (n =? v_nc v)) eqn:E.
  { apply andb_true_iff in E. destruct E as [E1 E2]. apply Nat.eqb_eq in E1, E2. subst. congruence. }
  bd; try discriminate. inversion H; subst. rewrite Hh. unfold resize_helper, leaves_vector_helper. rewrite andb_false_r.
  split; [reflexivity|]. split; [reflexivity|]. split; [destruct ro; exact Logic.I|].
  destruct ro; [apply (packed_full_inj _ true m n) | apply (packed_full_inj _ false m n)].
Qed.
(** with the repair (patches/C25_owner_vector_helper_resize.diff) EVERY owner that is given a two-dimensional size ends up
    packed, well-formed and injectively addressed, whatever helper it had *)
Lemma resize_owner_ok_repaired W h v m n keep W1 v1 :
  resize true W h v m n keep = Some (W1, v1) -> (m, n) <> (v_nr v, v_nc v) -> m <> 1 -> n <> 1 ->
  v_nr v1 = m /\ v_nc v1 = n /\ wfv v1 /\ injv v1.
Proof.
  unfold resize. intros H D M N. destruct ((m =? v_nr v) && (n =? v_nc v)) eqn:E.
  { apply andb_true_iff in E. destruct E as [E1 E2]. apply Nat.eqb_eq in E1, E2. subst. congruence. }
  bd; try discriminate. inversion H; subst. unfold resize_helper, leaves_vector_helper.
  apply Nat.eqb_neq in M, N. rewrite M, N. cbn [andb negb].
  destruct (v_h v) as [[|] ld| r | r s]; cbn [v_nr v_nc v_h];
    (split; [reflexivity|]; split; [reflexivity|]; split; [exact Logic.I|]);
    first [apply (packed_full_inj _ true m n) | apply (packed_full_inj _ false m n)].
Qed.
(** ... but an owner that carries a VECTOR helper (a Matrix_ deep-copied from a one-column or one-row block: createDeepCopy_
    of a vector helper is a vector helper) keeps it when it is given a two-dimensional size: REFUTED.  Witness:
    Matrix A(3,3); Matrix B = A(0,1,3,1); B = T with T = [11 12; 13 14]  ==>  B reads [11 13; 13 12]. *)
Definition run_w (c : bool) (k : nat) (rp : bool) (ops : list wop) : world := fold_left (fun W o => fst (wstep_total c k rp W o)) ops empty_world.
Definition refut_ops : list wop :=
  [WNew SMat 3 3 1; WView 0 (OBlock 0 1 3 1); WCopy 1 false; WAssign 2 2 2 [[11]; [12]; [13]; [14]]]%Z.
Lemma assign_to_copied_column_block_refuted :
  exists v, getview (run_w false 1 false refut_ops) 2 = Some v /\ v_owner v = true /\ v_nr v = 2 /\ v_nc v = 2 /\
            velems false (run_w false 1 false refut_ops) v = [[11]; [13]; [13]; [12]]%Z /\
            velems false (run_w false 1 false refut_ops) v <> [[11]; [12]; [13]; [14]]%Z /\ ~ wfv v.
Proof.
  eexists. split; [vm_compute; reflexivity|]. split; [reflexivity|]. split; [reflexivity|]. split; [reflexivity|].
  split; [vm_compute; reflexivity|]. split; [vm_compute; discriminate|]. unfold wfv; cbn. lia.
Qed.

Lemma assign_to_copied_column_block_repaired :
  exists v, getview (run_w false 1 true refut_ops) 2 = Some v /\ v_nr v = 2 /\ v_nc v = 2 /\ wfv v /\
            velems false (run_w false 1 true refut_ops) v = [[11]; [12]; [13]; [14]]%Z.
Proof.
  eexists. split; [vm_compute; reflexivity|]. split; [reflexivity|]. split; [reflexivity|]. split; [exact Logic.I|].
  vm_compute; reflexivity.
Qed.

(** ** non-vacuity: the hypotheses of the theorems above hold on concrete, non-trivial inputs *)
Definition ex_root : view := new_view 0 SMat 4 5.
Definition ex_ops : list vop := [OBlock 1 1 3 4; OTr; ONeg; ORow 2; OSub 1 2; OTr].
Example ex_chain_runs : exists v, run_ops ex_ops ex_root = Some v /\ v_nr v = 2 /\ v_nc v = 1 /\ v_shape v = SVec /\
  chain_index ex_ops ex_root 1 0 = (3, 3) /\ count_op is_neg ex_ops = true /\ count_op is_tr ex_ops = false.
Proof. vm_compute. eexists. repeat split. Qed.
Example ex_root_ok : wfv ex_root /\ injv ex_root.
Proof. apply new_owner_ok. reflexivity. Qed.
Example ex_world_inb : let W := run_w false 1 false [WNew SMat 4 5 1%Z] in getview W 0 = Some ex_root /\ inb W ex_root.
Proof.
  cbv zeta. split; [vm_compute; reflexivity|]. split; [vm_compute; lia|].
  intros i j [A B]. change (v_nr ex_root) with 4 in A. change (v_nc ex_root) with 5 in B.
  assert (L : length (nth (v_buf ex_root) (w_bufs (run_w false 1 false [WNew SMat 4 5 1%Z])) []) = 20) by (vm_compute; reflexivity).
  rewrite L. unfold vaddr, ex_root, new_view; cbn. lia.
Qed.
Example ex_sym_index : map (fun ij => sym_index 4 (fst ij) (snd ij)) [(0,0);(1,1);(2,2);(3,3);(1,0);(2,0);(3,0);(2,1);(3,1);(3,2)] = seq 0 10.
Proof. reflexivity. Qed.
