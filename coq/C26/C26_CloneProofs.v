(** C26 ClonePtr: the heap machine of C26_Ptr.v with [deep = true].  For every operation sequence each handle denotes what an
    independent optional value would hold, and no two handles ever hold the same object (every copy is a deep copy). *)
From Coq Require Import List Arith Bool NArith Lia.
Import ListNotations.
Require Import C26_Model C26_Ptr C26_PtrProofs.

Section CP.
Context {elt : Type}.
Notation pst := (pst elt).
Notation pop := (pop elt).

(** no object is held by two handles *)
Definition NS (s : pst) : Prop := forall i, occ i (vars s) <= 1.

Lemma count_one (s : pst) i v c : RC s -> NS s -> cell s i = Some (v, c) -> c = 1.
Proof. intros HR HN E. specialize (HR i). specialize (HN i). rewrite E in HR. lia. Qed.

Lemma held_cell (s : pst) p i : RC s -> getv s p = Some (Some i) -> exists v c, cell s i = Some (v, c).
Proof.
  intros HR Hp. pose proof (occ_ge_hit i _ _ _ Hp) as H. rewrite hit_same in H. specialize (HR i).
  destruct (cell s i) as [[v c]|]; eauto. lia.
Qed.

Lemma preset_vars (s s' : pst) p a : getv s p = Some a -> preset p s = Some s' -> vars s' = upd p None (vars s).
Proof.
  intros Hp E. unfold preset in E. rewrite Hp in E. destruct a as [i|].
  - destruct (cell s i) as [[v [|[|c]]]|]; inversion E; reflexivity.
  - inversion E; subst. symmetry. apply upd_same. exact Hp.
Qed.

Lemma NS_upd_none (l : list (option nat)) p a : nth_error l p = Some a -> (forall i, occ i l <= 1) -> forall i, occ i (upd p None l) <= 1.
Proof. intros Hp H i. pose proof (occ_upd i l p a None Hp) as Ho. simpl in Ho. specialize (H i). lia. Qed.

Lemma NS_upd_fresh (l : list (option nat)) p j : nth_error l p = Some None -> occ j l = 0 -> (forall i, occ i l <= 1) ->
  forall i, occ i (upd p (Some j) l) <= 1.
Proof.
  intros Hp Hj H i. pose proof (occ_upd i l p None (Some j) Hp) as Ho. simpl hit in Ho at 1. specialize (H i).
  destruct (Nat.eq_dec i j). subst. rewrite hit_same in Ho. lia. rewrite hit_other in Ho by auto. lia.
Qed.

Lemma upd_app_l {A} (l m : list A) i x : i < length l -> upd i x (l ++ m) = upd i x l ++ m.
Proof. revert i; induction l; intros [|i] H; simpl in *; try lia; auto. f_equal. apply IHl. lia. Qed.

(** reset() then "p = new object with payload v" *)
Lemma reset_new_ok (s : pst) p a v nc : RC s -> NS s -> getv s p = Some a ->
  exists s1, preset p s = Some s1 /\
    let s2 := mkpst (objs s1 ++ [Some (v, 1)]) (upd p (Some (length (objs s1))) (vars s1)) nc (ndel s1) in
    RC s2 /\ NS s2 /\ absv s2 = upd p (Some v) (absv s) /\ length (objs s1) = length (objs s).
Proof.
  intros HR HN Hp. destruct (preset_ok s p a HR Hp) as (s1 & E1 & R1 & A1 & G1 & _).
  pose proof (preset_vars s s1 p a Hp E1) as V1.
  exists s1; split; auto. destruct (alloc_set_ok s1 p v nc (ndel s1) R1 G1) as (R2 & A2 & _).
  split; auto. split; [|split].
  - unfold NS; simpl. apply NS_upd_fresh; auto. apply RC_fresh; auto. rewrite V1. apply (NS_upd_none _ _ a); auto.
  - rewrite A2, A1. apply upd_upd.
  - unfold preset in E1. rewrite Hp in E1. destruct a as [i|].
    + destruct (cell s i) as [[v0 [|[|c]]]|]; inversion E1; simpl; auto; try apply length_upd'.
    + inversion E1; auto.
Qed.

Lemma clone_step_ok (s : pst) (o : pop) : RC s -> NS s ->
  match pspec_step (absv s) o with
  | Some vs' => exists s', pstep true s o = Some s' /\ RC s' /\ NS s' /\ absv s' = vs'
  | None => pstep true s o = None
  end.
Proof.
  intros HR HN. destruct o; simpl; rewrite ?absv_nth.
  - (* PNew *) destruct (getv s p) as [a|] eqn:Ep; [|unfold preset; rewrite Ep; auto].
    destruct (reset_new_ok s p a v (nclone (match preset p s with Some x => x | None => s end)) HR HN Ep) as (s1 & E1 & R2 & N2 & A2 & _).
    rewrite E1 in *. simpl. eexists; split; [reflexivity|]. auto.
  - (* PAssignVal *) destruct (getv s p) as [a|] eqn:Ep; [|unfold preset; rewrite Ep; auto].
    destruct (reset_new_ok s p a v (N.succ (nclone (match preset p s with Some x => x | None => s end))) HR HN Ep) as (s1 & E1 & R2 & N2 & A2 & _).
    rewrite E1 in *. simpl. eexists; split; [reflexivity|]. auto.
  - (* PReset *) destruct (getv s p) as [a|] eqn:Ep; [|unfold preset; rewrite Ep; auto].
    destruct (preset_ok s p a HR Ep) as (s1 & E1 & R1 & A1 & _). exists s1; repeat split; auto.
    unfold NS. rewrite (preset_vars s s1 p a Ep E1). apply (NS_upd_none _ _ a); auto.
  - (* PCopyAssign *)
    destruct (getv s p) as [a|] eqn:Ep; destruct (getv s q) as [b|] eqn:Eq; auto.
    destruct (Nat.eqb_spec p q).
    { subst q. exists s; repeat split; auto. symmetry. eapply absv_same_at; eauto; congruence. }
    destruct b as [i|].
    2:{ destruct (preset_ok s p a HR Ep) as (s1 & E1 & R1 & A1 & _). exists s1; repeat split; auto.
        unfold NS. rewrite (preset_vars s s1 p a Ep E1). apply (NS_upd_none _ _ a); auto. }
    destruct (held_cell s q i HR Eq) as (v & c & Ec). rewrite Ec. simpl.
    (* the model clones first and releases the old object afterwards; same final state as reset-then-new *)
    destruct (reset_new_ok s p a v (N.succ (nclone s)) HR HN Ep) as (s1 & E1 & R2 & N2 & A2 & L1).
    set (sa := mkpst (objs s ++ [Some (v, 1)]) (vars s) (N.succ (nclone s)) (ndel s)).
    assert (Epa : getv sa p = Some a) by exact Ep.
    assert (Hfin : exists s3, preset p sa = Some s3 /\
              setv p (Some (length (objs s))) s3 =
              mkpst (objs s1 ++ [Some (v, 1)]) (upd p (Some (length (objs s1))) (vars s1)) (N.succ (nclone s)) (ndel s1)).
    { unfold preset in E1 |- *. rewrite Epa. rewrite Ep in E1. destruct a as [i0|].
      - destruct (held_cell s p i0 HR Ep) as (v0 & c0 & Ec0). pose proof (count_one s i0 v0 c0 HR HN Ec0); subst c0.
        pose proof (cell_lt _ _ _ Ec0) as Hlt.
        assert (cell sa i0 = Some (v0, 1)) as ->.
        { unfold sa. rewrite cell_app. destruct (Nat.eqb_spec i0 (length (objs s))); try lia. auto. }
        rewrite Ec0 in E1. inversion E1; subst s1. eexists; split; [reflexivity|]. unfold setv, sa; simpl.
        rewrite length_upd', upd_app_l, upd_upd by auto. reflexivity.
      - inversion E1; subst s1. eexists; split; [reflexivity|]. reflexivity. }
    destruct Hfin as (s3 & E3 & F3). fold sa. rewrite E3. simpl. rewrite F3.
    eexists; split; [reflexivity|]. repeat split; auto. rewrite A2. simpl. rewrite Ec. reflexivity.
  - (* PCopyCtor *)
    destruct (Nat.eqb_spec p q); auto.
    destruct (getv s p) as [a|] eqn:Ep; [|unfold preset; rewrite Ep; auto].
    destruct (preset_ok s p a HR Ep) as (s1 & E1 & R1 & A1 & G1 & Gk & _). rewrite E1; simpl.
    pose proof (preset_vars s s1 p a Ep E1) as V1.
    assert (N1 : NS s1). { unfold NS. rewrite V1. apply (NS_upd_none _ _ a); auto. }
    unfold pclone_from. rewrite Gk by auto. destruct (getv s q) as [b|] eqn:Eq; auto.
    destruct b as [i|].
    + assert (Eq1 : getv s1 q = Some (Some i)) by (rewrite Gk; auto).
      destruct (held_cell s1 q i R1 Eq1) as (v & c & Ec). rewrite Ec. simpl.
      destruct (alloc_set_ok s1 p v (N.succ (nclone s1)) (ndel s1) R1 G1) as (R2 & A2 & _).
      eexists; split; [reflexivity|]. unfold setv; simpl. split; auto. split.
      * unfold NS; simpl. apply NS_upd_fresh; auto. apply RC_fresh; auto.
      * rewrite A2, A1, upd_upd. f_equal. change (Some v = val s (Some i)).
        rewrite <- (val_after_preset s s1 p q (Some i) A1) by auto. simpl. rewrite Ec. reflexivity.
    + exists s1; repeat split; auto.
  - (* PMoveAssign *)
    destruct (getv s p) as [a|] eqn:Ep; destruct (getv s q) as [b|] eqn:Eq; auto.
    destruct (Nat.eqb_spec p q). { exists s; auto. }
    destruct (preset_ok s p a HR Ep) as (s1 & E1 & R1 & A1 & G1 & Gk & _). rewrite E1; simpl.
    pose proof (preset_vars s s1 p a Ep E1) as V1.
    assert (Eq1 : getv s1 q = Some b) by (rewrite Gk; auto). rewrite Eq1; simpl.
    destruct (move_ok s1 p q b R1 G1 Eq1 n) as (R2 & A2 & _). eexists; split; [reflexivity|]. split; auto. split.
    + unfold NS, setv; simpl. intro i.
      assert (Hq' : nth_error (upd p b (vars s1)) q = Some b).
      { rewrite nth_upd. destruct (Nat.eqb_spec q p); try lia. simpl; auto. }
      pose proof (occ_upd i (vars s1) p None b G1) as H1. pose proof (occ_upd i (upd p b (vars s1)) q b None Hq') as H2.
      cbn [hit] in H1, H2. assert (occ i (vars s1) <= 1); [|lia]. rewrite V1. apply (NS_upd_none _ _ a); auto.
    + rewrite A2, A1, (val_after_preset s s1 p q b A1) by auto. rewrite upd_upd. auto.
  - (* PMoveCtor *)
    destruct (Nat.eqb_spec p q); auto.
    destruct (getv s p) as [a|] eqn:Ep; [|unfold preset; rewrite Ep; auto].
    destruct (preset_ok s p a HR Ep) as (s1 & E1 & R1 & A1 & G1 & Gk & _). rewrite E1; simpl.
    pose proof (preset_vars s s1 p a Ep E1) as V1.
    rewrite Gk by auto. destruct (getv s q) as [b|] eqn:Eq; auto. simpl.
    assert (Eq1 : getv s1 q = Some b) by (rewrite Gk; auto).
    destruct (move_ok s1 p q b R1 G1 Eq1 n) as (R2 & A2 & _). eexists; split; [reflexivity|]. split; auto. split.
    + unfold NS, setv; simpl. intro i.
      assert (Hq' : nth_error (upd p b (vars s1)) q = Some b).
      { rewrite nth_upd. destruct (Nat.eqb_spec q p); try lia. simpl; auto. }
      pose proof (occ_upd i (vars s1) p None b G1) as H1. pose proof (occ_upd i (upd p b (vars s1)) q b None Hq') as H2.
      cbn [hit] in H1, H2. assert (occ i (vars s1) <= 1); [|lia]. rewrite V1. apply (NS_upd_none _ _ a); auto.
    + rewrite A2, A1, (val_after_preset s s1 p q b A1) by auto. rewrite upd_upd. auto.
  - (* PWrite *)
    destruct (getv s p) as [[i|]|] eqn:Ep; simpl; auto; rewrite ?Ep; auto.
    destruct (held_cell s p i HR Ep) as (v0 & c & Ec). rewrite Ec.
    pose proof (count_one s i v0 c HR HN Ec); subst c.
    destruct (write_ok s p i v0 v HR Ep Ec) as (R2 & A2 & V2). eexists; split; [reflexivity|]. split; [exact R2|]. split; [|exact A2].
    unfold NS, setcell in *. simpl in *. auto.
  - (* PDetach *) destruct (getv s p) as [a|] eqn:Ep; auto. exists s; auto.
  - (* PRelease *)
    destruct (getv s p) as [[i|]|] eqn:Ep; simpl; auto; rewrite ?Ep.
    + destruct (held_cell s p i HR Ep) as (v0 & c & Ec). pose proof (count_one s i v0 c HR HN Ec); subst c.
      destruct (preset_ok s p (Some i) HR Ep) as (s1 & E1 & R1 & A1 & _).
      pose proof (preset_vars s s1 p _ Ep E1) as V1.
      unfold preset in E1. rewrite Ep, Ec in E1. exists s1; split; auto. repeat split; auto.
      unfold NS. rewrite V1. apply (NS_upd_none _ _ (Some i)); auto.
    + exists s; repeat split; auto. symmetry. eapply absv_same_at; eauto.
  - (* PSwap *)
    destruct (getv s p) as [a|] eqn:Ep; destruct (getv s q) as [b|] eqn:Eq; auto.
    destruct (swap_vars_ok s p q a b HR Ep Eq) as (R & A). eexists; split; [reflexivity|]. split; auto. split; auto.
    unfold NS, setv; simpl. intro i.
    assert (Hp' : nth_error (upd q a (vars s)) p = Some a).
    { rewrite nth_upd. destruct (Nat.eqb_spec p q); simpl; auto. subst. unfold getv in *.
      destruct (Nat.ltb_spec q (length (vars s))); auto. }
    pose proof (occ_upd i (vars s) q b a Eq) as H1. pose proof (occ_upd i (upd q a (vars s)) p a b Hp') as H2.
    specialize (HN i). lia.
Qed.

Lemma NS_init k : NS (@pinit elt k).
Proof. intro i. unfold pinit; simpl. induction k; simpl; auto. Qed.

Lemma clone_run_ok ops : forall (s : pst), RC s -> NS s ->
  match pspec_run (absv s) ops with
  | Some vs => exists s', prun true s ops = Some s' /\ RC s' /\ NS s' /\ absv s' = vs
  | None => prun true s ops = None
  end.
Proof.
  induction ops as [|o ops]; intros s HR HN; simpl; eauto.
  pose proof (clone_step_ok s o HR HN) as H. destruct (pspec_step (absv s) o) as [v1|]; simpl.
  - destruct H as (s1 & E1 & R1 & N1 & A1). rewrite E1; simpl. subst v1. apply IHops; auto.
  - rewrite H; auto.
Qed.

(** clone_ptr_copies_independent: from K null ClonePtr handles, after ANY sequence of constructions, copies, moves, writes,
    releases and swaps that respects the preconditions, every handle denotes exactly what an independent optional value
    would hold (copies are observationally independent deep copies) *)
Lemma clone_ptr_copies_independent k ops vs : pspec_run (repeat None k) ops = Some vs ->
  exists s, prun true (@pinit elt k) ops = Some s /\ forall p, pvalue s p = nth p vs None.
Proof.
  intros H. destruct (RC_init (elt := elt) k) as (R0 & A0). pose proof (clone_run_ok ops _ R0 (NS_init k)) as Hr. rewrite A0, H in Hr.
  destruct Hr as (s & E & R & N & A). exists s; split; auto. intro p. rewrite pvalue_absv, A.
  destruct (nth_error vs p) eqn:En.
  - symmetry. apply nth_error_nth with (d := None) in En. auto.
  - symmetry. apply nth_overflow. apply nth_error_None; auto.
Qed.

Lemma clone_ptr_precondition_only k ops : pspec_run (repeat None k) ops = None -> prun true (@pinit elt k) ops = None.
Proof.
  intros H. destruct (RC_init (elt := elt) k) as (R0 & A0). pose proof (clone_run_ok ops _ R0 (NS_init k)) as Hr. rewrite A0, H in Hr. auto.
Qed.

(** clone_ptr_never_shares: after any run two distinct handles never hold the same object, every live object is held by
    exactly one handle (no leak), and no handle holds a deleted object *)
Lemma clone_ptr_never_shares k ops s : prun true (@pinit elt k) ops = Some s ->
  (forall p q i, p <> q -> getv s p = Some (Some i) -> getv s q <> Some (Some i)) /\
  (forall i, match cell s i with Some (v, c) => c = 1 /\ occ i (vars s) = 1 | None => occ i (vars s) = 0 end).
Proof.
  intros H. destruct (RC_init (elt := elt) k) as (R0 & A0). pose proof (clone_run_ok ops _ R0 (NS_init k)) as Hr.
  destruct (pspec_run (absv (pinit k)) ops); [|congruence].
  destruct Hr as (s' & E & R & N & _). rewrite H in E; inversion E; subst s'. split.
  - intros p q i Hne Hp Hq. pose proof (occ_upd i (vars s) p (Some i) None Hp) as Ho. rewrite hit_same in Ho. simpl in Ho.
    assert (Hq' : nth_error (upd p None (vars s)) q = Some (Some i)).
    { rewrite nth_upd. destruct (Nat.eqb_spec q p); try congruence. simpl; auto. }
    pose proof (occ_ge_hit i _ _ _ Hq') as Hge. rewrite hit_same in Hge. specialize (N i). lia.
  - intro i. specialize (R i). specialize (N i). destruct (cell s i) as [[v c]|]; auto. lia.
Qed.
End CP.
