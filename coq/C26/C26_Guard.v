(** C26: value arguments that refer to the array's own elements.
    - Array.h before the repair ([guard = false]): such arguments are fine exactly when nothing is moved or freed before the value
      is read (push_back / resize without reallocation); the failing cases are the [_refuted] witnesses of C26_Proofs.v.
    - Array.h with the isOwnElement repair, commit 91dbee05 ([guard = true], the current source): all four operations have std::vector
      semantics for every own-element argument.  Helper file for C26_Proofs.v. *)
From Coq Require Import List Arith Bool NArith Lia.
Import ListNotations.
Require Import C26_Model C26_Lemmas C26_Ops.

Section G.
Context {elt : Type}.
Notation st := (st elt).

Lemma push_back_g_ext guard (v : elt) (s : st) : push_back_g guard (Ext v) s = push_back (Ext v) s.
Proof. destruct guard; reflexivity. Qed.
Lemma insert_one_g_ext guard p (v : elt) (s : st) : insert_one_g guard p (Ext v) s = insert_one p (Ext v) s.
Proof. destruct guard; reflexivity. Qed.
Lemma insert_n_g_ext guard p n (v : elt) (s : st) : insert_n_g guard p n (Ext v) s = insert_n p n (Ext v) s.
Proof. destruct guard; reflexivity. Qed.
Lemma resize_fill_g_ext guard n (v : elt) (s : st) : resize_fill_g guard n (Ext v) s = resize_fill n (Ext v) s.
Proof. destruct guard; reflexivity. Qed.

Lemma op_ok_eq C (f g : st -> res st) (xs xs' : list elt) : (forall s, f s = g s) -> op_ok C g xs xs' -> op_ok C f xs xs'.
Proof. intros H Hg s Hs. rewrite H. apply Hg; auto. Qed.

Lemma good_read (s : st) xs i x : good s xs -> nth_error xs i = Some x -> read i s = Ok x.
Proof.
  intros (Hnw & Hsz & Hlen & G) Hi. assert (i < length xs) by (apply nth_error_Some; congruence).
  apply read_ok; try lia. rewrite G. unfold cget. rewrite Hi. reflexivity.
Qed.

(** const T tmp(value); f(tmp); ~tmp *)
Lemma with_tmp_ok C (f : vsrc elt -> st -> res st) xs xs' i x : nth_error xs i = Some x ->
  op_ok C (f (Ext x)) xs xs' -> op_ok anycap (with_tmp i f) xs xs'.
Proof.
  intros Hi Hf s Hs. unfold with_tmp. rewrite (good_read s xs i x Hs Hi). simpl.
  destruct (Hf (mkst (cur s) (nw s) (size s) (gen s) (N.succ (nctor s)) (ndtor s))) as (s1 & E1 & G1 & (B1 & B2 & B3) & _).
  { destruct Hs as (A1 & A2 & A3 & A4). unfold good; simpl; auto. }
  rewrite E1. simpl. eexists; split; [reflexivity|]. split; [|split].
  - destruct G1 as (A1 & A2 & A3 & A4). unfold good; simpl; auto.
  - unfold bal in *; simpl in *. lia.
  - exact I.
Qed.

(** push_back(a[i]) when the array is not full: no element moves before the value is read *)
Lemma push_back_own_ok i (x : elt) (xs : list elt) (s : st) : nth_error xs i = Some x -> good s xs -> capacity s <> size s ->
  exists s', push_back (Own i) s = Ok s' /\ good s' (xs ++ [x]) /\ bal s s' (length xs) (length (xs ++ [x])) /\
             capacity s' = capacity s.
Proof.
  intros Hi Hg Hc. pose proof Hg as (Hnw & Hsz & Hlen & G). unfold push_back. simpl mkptr.
  destruct (Nat.eqb_spec (capacity s) (size s)); [contradiction|]. simpl.
  rewrite Nat.eqb_refl. rewrite (good_read s xs i x Hg Hi). simpl. unfold capacity in *.
  destruct (construct_cur_ok (size s) x s) as (s2 & E2 & F2 & W2 & G2); try lia.
  { apply (good_raw_beyond s xs); auto; lia. }
  rewrite E2. simpl. eexists; split; [reflexivity|]. split; [|split].
  - unfold good; simpl. rewrite app_length; simpl. rewrite (fr_size _ _ _ _ F2), (fr_len _ _ _ _ F2).
    repeat split; try congruence; try lia.
    intro j. rewrite G2, G, cget_app, Hsz. bdestr.
    + subst j. rewrite Nat.sub_diag. reflexivity.
    + rewrite !cget_ge by (simpl; lia). reflexivity.
  - rewrite app_length; simpl. eapply bal_of with (dc := 1%N) (dd := 0%N).
    + cbn [nctor ndtor set_size]. rewrite (fr_ctor _ _ _ _ F2). lia.
    + cbn [nctor ndtor set_size]. rewrite (fr_dtor _ _ _ _ F2). lia.
    + lia.
  - simpl. apply (fr_len _ _ _ _ F2).
Qed.

(** fillConstruct reading the value through a reference to slot i below the range being constructed *)
Lemma fill_range_own_ok k x g i0 : forall i (s : st), i + k <= length (cur s) -> i0 < i -> g = gen s ->
  get (cur s) i0 = Live x ->
  (forall j, i <= j < i + k -> get (cur s) j = Raw) ->
  exists s', fill_range k i (PSlot g i0) s = Ok s' /\ frame s s' (N.of_nat k) 0 /\ nw s' = nw s /\
    forall j, get (cur s') j = if (i <=? j) && (j <? i + k) then Live x else get (cur s) j.
Proof.
  induction k; intros i s Hlen Hi0 Hgen Hx Hr.
  - simpl. exists s; split; auto. split; [apply frame_refl|]. split; auto. intro j.
    destruct (Nat.leb_spec i j), (Nat.ltb_spec j (i + 0)); simpl; try lia; auto.
  - simpl. subst g. rewrite Nat.eqb_refl. rewrite (read_ok i0 x); auto; try lia. simpl.
    destruct (construct_cur_ok i x s) as (s1 & E1 & F1 & W1 & G1); try lia. { apply Hr; lia. }
    rewrite E1; simpl.
    destruct (IHk (S i) s1) as (s2 & E2 & F2 & W2 & G2).
    { rewrite (fr_len _ _ _ _ F1); lia. } { lia. } { symmetry; apply (fr_gen _ _ _ _ F1). }
    { rewrite G1. destruct (Nat.eqb_spec i0 i); try lia. auto. }
    { intros j Hj. rewrite G1. destruct (Nat.eqb_spec j i); try lia. apply Hr; lia. }
    exists s2; split; auto. split; [|split].
    + eapply frame_eq. eapply frame_trans; eauto. all: lia.
    + congruence.
    + intro j. rewrite G2, G1. fin0.
Qed.

(** resize(n, a[i]) that does not reallocate *)
Lemma resize_fill_own_ok n i (x : elt) (xs : list elt) (s : st) : nth_error xs i = Some x -> good s xs -> n <= capacity s ->
  exists s', resize_fill n (Own i) s = Ok s' /\ good s' (firstn n xs ++ repeat x (n - length xs)) /\
             bal s s' (length xs) (length (firstn n xs ++ repeat x (n - length xs))).
Proof.
  intros Hi Hg Hc. pose proof Hg as (Hnw & Hsz & Hlen & G). unfold resize_fill. simpl mkptr.
  assert (Hil : i < length xs) by (apply nth_error_Some; congruence).
  destruct (Nat.eqb_spec n (size s)).
  { exists s. rewrite firstn_all2 by lia. replace (n - length xs) with 0 by lia. simpl. rewrite app_nil_r.
    unfold bal. msplit. }
  destruct (Nat.ltb_spec n (size s)).
  { replace (n - length xs) with 0 by lia. simpl. rewrite app_nil_r.
    destruct (erase_ok n (size s) xs) with (s := s) as (s' & E & Hg' & Hb & _); try lia; auto.
    rewrite Hsz in *. rewrite skipn_all, app_nil_r in *. exists s'. msplit. }
  unfold reserve. destruct (Nat.leb_spec n (capacity s)); [|lia]. simpl. unfold capacity in *.
  destruct (fill_range_own_ok (n - size s) x (gen s) i (size s) s) as (s2 & E2 & F2 & W2 & G2); try lia; auto.
  { rewrite G. unfold cget. rewrite Hi; auto. }
  { intros j Hj. apply (good_raw_beyond s xs); auto; lia. }
  rewrite E2; simpl. rewrite firstn_all2 by lia.
  eexists; split; [reflexivity|]. split.
  - unfold good; simpl. rewrite app_length, repeat_length, (fr_len _ _ _ _ F2). msplit.
    intro j. rewrite G2, G, cget_app, cget_repeat, Hsz. bdestr. apply cget_ge; lia.
  - rewrite app_length, repeat_length. unfold bal. simpl.
    rewrite (fr_ctor _ _ _ _ F2), (fr_dtor _ _ _ _ F2). lia.
Qed.

(* ------------------------------------------------------------------ the repaired operations, any value argument *)
Lemma nth_lt (xs : list elt) i x : nth_error xs i = Some x -> i < length xs.
Proof. intros H; apply nth_error_Some; congruence. Qed.

Lemma own_ok_true (s : st) xs i x : good s xs -> nth_error xs i = Some x -> own_ok (Own i) s = true.
Proof. intros (_ & Hsz & _) H. simpl. rewrite Hsz. apply nth_lt in H. destruct (Nat.ltb_spec i (length xs)); auto; lia. Qed.
Lemma own_ok_false (s : st) xs i : good s xs -> nth_error xs i = None -> own_ok (@Own elt i) s = false.
Proof. intros (_ & Hsz & _) H. simpl. rewrite Hsz. apply nth_error_None in H. destruct (Nat.ltb_spec i (length xs)); auto; lia. Qed.

Lemma push_back_g_own_ok i (x : elt) (xs : list elt) : nth_error xs i = Some x -> op_ok anycap (push_back_g true (Own i)) xs (xs ++ [x]).
Proof.
  intros Hi s Hs. unfold push_back_g. rewrite (own_ok_true s xs i x Hs Hi).
  destruct (Nat.eqb_spec (capacity s) (size s)).
  - eapply with_tmp_ok; eauto. apply push_back_ok.
  - destruct (push_back_own_ok i x xs s Hi Hs n) as (s' & E & G & B & _). exists s'. unfold anycap; auto.
Qed.

Lemma insert_one_g_own_ok p i (x : elt) (xs : list elt) : nth_error xs i = Some x -> p <= length xs ->
  op_ok anycap (insert_one_g true p (Own i)) xs (splice p p [x] xs).
Proof.
  intros Hi Hp s Hs. unfold insert_one_g. rewrite (own_ok_true s xs i x Hs Hi).
  eapply with_tmp_ok; eauto. apply insert_one_ok; auto.
Qed.

Lemma insert_n_g_own_ok p n i (x : elt) (xs : list elt) : nth_error xs i = Some x -> p <= length xs ->
  op_ok anycap (insert_n_g true p n (Own i)) xs (splice p p (repeat x n) xs).
Proof.
  intros Hi Hp s Hs. unfold insert_n_g. rewrite (own_ok_true s xs i x Hs Hi).
  destruct (Nat.eqb_spec n 0).
  - subst n. simpl repeat. unfold insert_n. simpl mkptr. pose proof Hs as (Hnw & Hsz & Hlen & G).
    unfold insert_gap_at. destruct (Nat.ltb_spec (size s) p); [lia|]. simpl.
    exists (set_size (size s + 0) s). split; auto. unfold splice. simpl. rewrite firstn_skipn.
    split; [|split].
    + unfold good; simpl. msplit.
    + unfold bal; simpl. lia.
    + exact I.
  - eapply with_tmp_ok; eauto. apply insert_n_ok; auto.
Qed.

Lemma resize_fill_g_own_ok n i (x : elt) (xs : list elt) : nth_error xs i = Some x ->
  op_ok anycap (resize_fill_g true n (Own i)) xs (firstn n xs ++ repeat x (n - length xs)).
Proof.
  intros Hi s Hs. unfold resize_fill_g. rewrite (own_ok_true s xs i x Hs Hi).
  destruct (Nat.ltb_spec (capacity s) n).
  - eapply with_tmp_ok; eauto. apply resize_fill_ok.
  - destruct (resize_fill_own_ok n i x xs s Hi Hs H) as (s' & E & G & B). exists s'. unfold anycap; auto.
Qed.
End G.
