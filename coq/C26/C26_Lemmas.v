(** C26 helper lemmas: pointwise view of memory blocks, specifications of the slot primitives and of the
    loops of Array.h (moveElementsUp/Down, moveConstructThenDestructSource, destruct, fill/copy/default
    construct).  Not property statements; the properties are in C26_Proofs.v. *)
From Coq Require Import List Arith Bool NArith Lia.
Import ListNotations.
Require Import C26_Model.

Section L.
Context {elt : Type}.
Notation slot := (slot elt).
Notation st := (st elt).

Definition get (l : list slot) (j : nat) : slot := nth j l Raw.

Lemma nth_error_get (l : list slot) j : nth_error l j = if j <? length l then Some (get l j) else None.
Proof.
  unfold get. revert j. induction l; intros [|j]; simpl; auto.
  rewrite IHl. change (S j <? S (length l)) with (j <? length l). reflexivity.
Qed.

Lemma length_upd {A} i (x : A) l : length (upd i x l) = length l.
Proof. revert i; induction l; intros [|i]; simpl; auto. Qed.

Lemma get_upd i x (l : list slot) j : get (upd i x l) j = if (j =? i) && (i <? length l) then x else get l j.
Proof.
  unfold get. revert i j. induction l; intros [|i] [|j]; simpl; auto.
  - rewrite andb_false_r; auto.
  - rewrite IHl. change (S i <? S (length l)) with (i <? length l). reflexivity.
Qed.

Lemma get_beyond (l : list slot) j : length l <= j -> get l j = Raw.
Proof. intros; unfold get; apply nth_overflow; auto. Qed.

Lemma get_repeat_raw n j : get (repeat (@Raw elt) n) j = Raw.
Proof. unfold get. revert j; induction n; intros [|j]; simpl; auto. Qed.

Lemma get_nil j : get [] j = Raw.
Proof. destruct j; reflexivity. Qed.

Lemma ext_get (l l' : list slot) : length l = length l' -> (forall j, get l j = get l' j) -> l = l'.
Proof.
  revert l'; induction l; intros [|b l'] H G; simpl in *; try discriminate; auto.
  f_equal. apply (G 0). apply IHl; auto. intro j; apply (G (S j)).
Qed.

Lemma all_raw_get (l : list slot) : (forall j, get l j = Raw) -> all_raw l = true.
Proof.
  induction l; simpl; intros H; auto.
  pose proof (H 0) as H0; unfold get in H0; simpl in H0; subst a. apply IHl. intro j; apply (H (S j)).
Qed.

(** the canonical block contents for the abstract sequence xs *)
Definition cget (xs : list elt) (j : nat) : slot := match nth_error xs j with Some v => Live v | None => Raw end.

Lemma cget_lt xs j : j < length xs -> exists v, nth_error xs j = Some v /\ cget xs j = Live v.
Proof.
  intros H. unfold cget. destruct (nth_error xs j) eqn:E; eauto. apply nth_error_None in E; lia.
Qed.
Lemma cget_ge xs j : length xs <= j -> cget xs j = Raw.
Proof. intros H; unfold cget. apply nth_error_None in H; rewrite H; auto. Qed.
Lemma cget_nil j : cget [] j = Raw.
Proof. unfold cget; destruct j; auto. Qed.

Lemma cget_app xs ys j : cget (xs ++ ys) j = if j <? length xs then cget xs j else cget ys (j - length xs).
Proof.
  unfold cget. destruct (Nat.ltb_spec j (length xs)).
  - rewrite nth_error_app1; auto.
  - rewrite nth_error_app2; auto.
Qed.
Lemma cget_firstn n xs j : cget (firstn n xs) j = if j <? n then cget xs j else Raw.
Proof.
  unfold cget. revert n j; induction xs; intros [|n] [|j]; simpl; auto.
  - destruct (S j <? S n); auto.
  - rewrite IHxs. change (S j <? S n) with (j <? n). reflexivity.
Qed.
Lemma cget_skipn n xs j : cget (skipn n xs) j = cget xs (n + j).
Proof. unfold cget. revert n j; induction xs; intros [|n] j; simpl; auto. destruct j; auto. Qed.
Lemma cget_repeat v n j : cget (repeat v n) j = if j <? n then Live v else Raw.
Proof.
  unfold cget. destruct (Nat.ltb_spec j n).
  - rewrite nth_error_repeat; auto.
  - assert (nth_error (repeat v n) j = None) as ->; auto. apply nth_error_None. rewrite repeat_length; lia.
Qed.
Lemma cget_cons v xs j : cget (v :: xs) j = match j with 0 => Live v | S j' => cget xs j' end.
Proof. destruct j; reflexivity. Qed.
Lemma cget_upd i v xs j : cget (upd i v xs) j = if (j =? i) && (i <? length xs) then Live v else cget xs j.
Proof.
  unfold cget. revert i j; induction xs; intros [|i] [|j]; simpl; auto.
  - rewrite andb_false_r; auto.
  - rewrite IHxs. change (S i <? S (length xs)) with (i <? length xs). reflexivity.
Qed.
Lemma cget_ext xs ys : (forall j, cget xs j = cget ys j) -> xs = ys.
Proof.
  revert ys; induction xs; intros [|b ys] H; auto.
  - specialize (H 0); unfold cget in H; simpl in H; discriminate.
  - specialize (H 0); unfold cget in H; simpl in H; discriminate.
  - f_equal. specialize (H 0); unfold cget in H; simpl in H; congruence. apply IHxs. intro j; apply (H (S j)).
Qed.

Lemma splice_length p q (ys xs : list elt) : p <= length xs -> q <= length xs ->
  length (splice p q ys xs) = p + length ys + (length xs - q).
Proof. intros; unfold splice. rewrite !app_length, firstn_length, skipn_length. lia. Qed.

Lemma cget_splice p q ys (xs : list elt) j : p <= length xs ->
  cget (splice p q ys xs) j =
    if j <? p then cget xs j else if j <? p + length ys then cget ys (j - p) else cget xs (q + (j - p - length ys)).
Proof.
  intros Hp. unfold splice. rewrite cget_app, firstn_length, Nat.min_l by auto.
  destruct (Nat.ltb_spec j p).
  - rewrite cget_firstn. destruct (Nat.ltb_spec j p); auto; lia.
  - rewrite cget_app. destruct (Nat.ltb_spec (j - p) (length ys)), (Nat.ltb_spec j (p + length ys)); try lia; auto.
    rewrite cget_skipn. reflexivity.
Qed.

(* ------------------------------------------------------------------ case-splitting tactic *)
End L.

Ltac bdestr :=
  repeat match goal with
  | |- context [?a =? ?b] => destruct (Nat.eqb_spec a b)
  | |- context [?a <? ?b] => destruct (Nat.ltb_spec a b)
  | |- context [?a <=? ?b] => destruct (Nat.leb_spec a b)
  end; simpl; try lia; try congruence; auto.

Ltac bdestr_in H :=
  repeat match type of H with
  | context [?a =? ?b] => destruct (Nat.eqb_spec a b)
  | context [?a <? ?b] => destruct (Nat.ltb_spec a b)
  | context [?a <=? ?b] => destruct (Nat.leb_spec a b)
  end; simpl in H; try lia; try congruence; auto.

Ltac fin0 := bdestr; try reflexivity; try (f_equal; lia).
Ltac fin Hv := bdestr; try reflexivity; try (rewrite <- Hv; f_equal; lia); try (f_equal; lia).

Section Prim.
Context {elt : Type}.
Notation slot := (slot elt).
Notation st := (st elt).

(** what a successful run of a loop preserves; dc, dd = constructor/destructor calls made *)
Record frame (s s' : st) (dc dd : N) : Prop := mkframe {
  fr_size : size s' = size s;
  fr_gen : gen s' = gen s;
  fr_ctor : nctor s' = (nctor s + dc)%N;
  fr_dtor : ndtor s' = (ndtor s + dd)%N;
  fr_len : length (cur s') = length (cur s);
  fr_lenw : length (nw s') = length (nw s) }.

Lemma frame_refl s : frame s s 0 0.
Proof. split; auto; lia. Qed.
Lemma frame_trans s1 s2 s3 a b c d : frame s1 s2 a b -> frame s2 s3 c d -> frame s1 s3 (a + c) (b + d).
Proof. intros [] []; split; try congruence; lia. Qed.
Lemma frame_eq s s' a b a' b' : frame s s' a b -> a = a' -> b = b' -> frame s s' a' b'.
Proof. intros; subst; auto. Qed.

Definition is_live (x : slot) : Prop := exists v, x = Live v.

Lemma construct_cur_ok i v (s : st) : i < length (cur s) -> get (cur s) i = Raw ->
  exists s', construct_cur i v s = Ok s' /\ frame s s' 1 0 /\ nw s' = nw s /\
             forall j, get (cur s') j = if j =? i then Live v else get (cur s) j.
Proof.
  intros Hi Hr. unfold construct_cur. rewrite nth_error_get. destruct (Nat.ltb_spec i (length (cur s))); try lia.
  rewrite Hr. eexists; split; [reflexivity|]. split; [|split]; simpl; auto.
  - split; simpl; auto; try lia. apply length_upd.
  - intro j. rewrite get_upd. bdestr.
Qed.

Lemma construct_new_ok i v (s : st) : i < length (nw s) -> get (nw s) i = Raw ->
  exists s', construct_new i v s = Ok s' /\ frame s s' 1 0 /\ cur s' = cur s /\
             forall j, get (nw s') j = if j =? i then Live v else get (nw s) j.
Proof.
  intros Hi Hr. unfold construct_new. rewrite nth_error_get. destruct (Nat.ltb_spec i (length (nw s))); try lia.
  rewrite Hr. eexists; split; [reflexivity|]. split; [|split]; simpl; auto.
  - split; simpl; auto; try lia. apply length_upd.
  - intro j. rewrite get_upd. bdestr.
Qed.

Lemma destroy_ok i (s : st) : i < length (cur s) -> get (cur s) i <> Raw ->
  exists s', destroy i s = Ok s' /\ frame s s' 0 1 /\ nw s' = nw s /\
             forall j, get (cur s') j = if j =? i then Raw else get (cur s) j.
Proof.
  intros Hi Hr. unfold destroy. rewrite nth_error_get. destruct (Nat.ltb_spec i (length (cur s))); try lia.
  destruct (get (cur s) i) eqn:E; try congruence.
  - eexists; split; [reflexivity|]. split; [|split]; simpl; auto.
    + split; simpl; auto; try lia. apply length_upd.
    + intro j. rewrite get_upd. bdestr.
  - eexists; split; [reflexivity|]. split; [|split]; simpl; auto.
    + split; simpl; auto; try lia. apply length_upd.
    + intro j. rewrite get_upd. bdestr.
Qed.

Lemma take_ok i v (s : st) : i < length (cur s) -> get (cur s) i = Live v ->
  exists s', take i s = Ok (v, s') /\ frame s s' 0 0 /\ nw s' = nw s /\
             forall j, get (cur s') j = if j =? i then Husk else get (cur s) j.
Proof.
  intros Hi Hr. unfold take. rewrite nth_error_get. destruct (Nat.ltb_spec i (length (cur s))); try lia.
  rewrite Hr. eexists; split; [reflexivity|]. split; [|split]; simpl; auto.
  - split; simpl; auto; try lia. apply length_upd.
  - intro j. rewrite get_upd. bdestr.
Qed.

Lemma read_ok i v (s : st) : i < length (cur s) -> get (cur s) i = Live v -> read i s = Ok v.
Proof.
  intros Hi Hr. unfold read. rewrite nth_error_get. destruct (Nat.ltb_spec i (length (cur s))); try lia. rewrite Hr; auto.
Qed.

Lemma assign_at_ok i v (s : st) : i < length (cur s) -> is_live (get (cur s) i) ->
  exists s', assign_at i v s = Ok s' /\ frame s s' 0 0 /\ nw s' = nw s /\
             forall j, get (cur s') j = if j =? i then Live v else get (cur s) j.
Proof.
  intros Hi [u Hr]. unfold assign_at. rewrite nth_error_get. destruct (Nat.ltb_spec i (length (cur s))); try lia.
  rewrite Hr. eexists; split; [reflexivity|]. split; [|split]; simpl; auto.
  - split; simpl; auto; try lia. apply length_upd.
  - intro j. rewrite get_upd. bdestr.
Qed.

Lemma move_one_ok to from v (s : st) : to < length (cur s) -> from < length (cur s) -> to <> from ->
  get (cur s) from = Live v -> get (cur s) to = Raw ->
  exists s', move_one to from s = Ok s' /\ frame s s' 1 1 /\ nw s' = nw s /\
             forall j, get (cur s') j = if j =? from then Raw else if j =? to then Live v else get (cur s) j.
Proof.
  intros Ht Hf Hne Hl Hr. unfold move_one.
  destruct (take_ok from v s Hf Hl) as (s1 & E1 & F1 & W1 & G1). rewrite E1; simpl.
  destruct (construct_cur_ok to v s1) as (s2 & E2 & F2 & W2 & G2).
  { rewrite (fr_len _ _ _ _ F1); auto. } { rewrite G1. bdestr. }
  rewrite E2; simpl.
  destruct (destroy_ok from s2) as (s3 & E3 & F3 & W3 & G3).
  { rewrite (fr_len _ _ _ _ F2), (fr_len _ _ _ _ F1); auto. } { rewrite G2, G1. bdestr. }
  exists s3; split; auto. split; [|split].
  - eapply frame_eq. eapply frame_trans; [eapply frame_trans; eauto|eauto]. all: lia.
  - congruence.
  - intro j. rewrite G3, G2, G1. bdestr.
Qed.

(* ------------------------------------------------------------------ loops *)
Lemma move_up_ok k : forall p n (s : st), 0 < n -> p + k + n <= length (cur s) ->
  (forall j, p <= j < p + k -> is_live (get (cur s) j)) ->
  (forall j, p + k <= j < p + k + n -> get (cur s) j = Raw) ->
  exists s', move_up k p n s = Ok s' /\ frame s s' (N.of_nat k) (N.of_nat k) /\ nw s' = nw s /\
    forall j, get (cur s') j = if (p <=? j) && (j <? p + n) then Raw
                               else if (p + n <=? j) && (j <? p + n + k) then get (cur s) (j - n) else get (cur s) j.
Proof.
  induction k; intros p n s Hn Hlen Hlive Hraw.
  - simpl. exists s; split; auto. split; [apply frame_refl|]. split; auto.
    intro j. destruct (Nat.leb_spec p j), (Nat.ltb_spec j (p + n)), (Nat.leb_spec (p + n) j), (Nat.ltb_spec j (p + n + 0)); simpl; try lia; auto.
    apply Hraw; lia.
  - simpl. destruct (Hlive (p + k)) as [v Hv]; [lia|].
    destruct (move_one_ok (p + k + n) (p + k) v s) as (s1 & E1 & F1 & W1 & G1); try lia; auto.
    { apply Hraw; lia. }
    rewrite E1; simpl.
    destruct (IHk p n s1) as (s2 & E2 & F2 & W2 & G2); auto.
    { rewrite (fr_len _ _ _ _ F1); lia. }
    { intros j Hj. rewrite G1. destruct (Nat.eqb_spec j (p + k)); try lia. destruct (Nat.eqb_spec j (p + k + n)); try lia. apply Hlive; lia. }
    { intros j Hj. rewrite G1. destruct (Nat.eqb_spec j (p + k)); auto. destruct (Nat.eqb_spec j (p + k + n)); try lia. apply Hraw; lia. }
    exists s2; split; auto. split; [|split].
    + eapply frame_eq. eapply frame_trans; eauto. all: lia.
    + congruence.
    + intro j. rewrite G2, !G1. fin Hv.
Qed.

Lemma move_down_ok k : forall p n (s : st), 0 < n -> n <= p -> p + k <= length (cur s) ->
  (forall j, p <= j < p + k -> is_live (get (cur s) j)) ->
  (forall j, p - n <= j < p -> get (cur s) j = Raw) ->
  exists s', move_down k p n s = Ok s' /\ frame s s' (N.of_nat k) (N.of_nat k) /\ nw s' = nw s /\
    forall j, get (cur s') j = if (p - n <=? j) && (j <? p - n + k) then get (cur s) (j + n)
                               else if (p - n + k <=? j) && (j <? p + k) then Raw else get (cur s) j.
Proof.
  induction k; intros p n s Hn Hnp Hlen Hlive Hraw.
  - simpl. exists s; split; auto. split; [apply frame_refl|]. split; auto.
    intro j. destruct (Nat.leb_spec (p - n) j), (Nat.ltb_spec j (p - n + 0)), (Nat.leb_spec (p - n + 0) j), (Nat.ltb_spec j (p + 0)); simpl; try lia; auto.
    apply Hraw; lia.
  - simpl. destruct (Hlive p) as [v Hv]; [lia|].
    destruct (move_one_ok (p - n) p v s) as (s1 & E1 & F1 & W1 & G1); try lia; auto.
    { apply Hraw; lia. }
    rewrite E1; simpl.
    destruct (IHk (S p) n s1) as (s2 & E2 & F2 & W2 & G2); auto; try lia.
    { rewrite (fr_len _ _ _ _ F1); lia. }
    { intros j Hj. rewrite G1. destruct (Nat.eqb_spec j p); try lia. destruct (Nat.eqb_spec j (p - n)); try lia. apply Hlive; lia. }
    { intros j Hj. rewrite G1. destruct (Nat.eqb_spec j p); auto. destruct (Nat.eqb_spec j (p - n)); try lia. apply Hraw; lia. }
    exists s2; split; auto. split; [|split].
    + eapply frame_eq. eapply frame_trans; eauto. all: lia.
    + congruence.
    + intro j. rewrite G2, !G1. replace (S p - n) with (S (p - n)) by lia. fin Hv.
Qed.

Lemma move_to_new_ok k : forall dst src (s : st), src + k <= length (cur s) -> dst + k <= length (nw s) ->
  (forall j, src <= j < src + k -> is_live (get (cur s) j)) ->
  (forall j, dst <= j < dst + k -> get (nw s) j = Raw) ->
  exists s', move_to_new k dst src s = Ok s' /\ frame s s' (N.of_nat k) (N.of_nat k) /\
    (forall j, get (cur s') j = if (src <=? j) && (j <? src + k) then Raw else get (cur s) j) /\
    (forall j, get (nw s') j = if (dst <=? j) && (j <? dst + k) then get (cur s) (src + (j - dst)) else get (nw s) j).
Proof.
  induction k; intros dst src s Hc Hn Hlive Hraw.
  - simpl. exists s; split; auto. split; [apply frame_refl|]. split; intro j.
    + destruct (Nat.leb_spec src j), (Nat.ltb_spec j (src + 0)); simpl; try lia; auto.
    + destruct (Nat.leb_spec dst j), (Nat.ltb_spec j (dst + 0)); simpl; try lia; auto.
  - simpl. destruct (Hlive src) as [v Hv]; [lia|].
    destruct (take_ok src v s) as (s1 & E1 & F1 & W1 & G1); try lia; auto. rewrite E1; simpl.
    destruct (construct_new_ok dst v s1) as (s2 & E2 & F2 & C2 & G2).
    { rewrite (fr_lenw _ _ _ _ F1); lia. } { rewrite W1. apply Hraw; lia. }
    rewrite E2; simpl.
    destruct (destroy_ok src s2) as (s3 & E3 & F3 & W3 & G3).
    { rewrite C2, (fr_len _ _ _ _ F1); lia. } { rewrite C2, G1. rewrite Nat.eqb_refl. discriminate. }
    rewrite E3; simpl.
    assert (Hcur3 : forall j, get (cur s3) j = if j =? src then Raw else get (cur s) j).
    { intro j. rewrite G3, C2, G1. destruct (Nat.eqb_spec j src); auto. }
    assert (Hnw3 : forall j, get (nw s3) j = if j =? dst then Live v else get (nw s) j).
    { intro j. rewrite W3, G2, W1. auto. }
    destruct (IHk (S dst) (S src) s3) as (s4 & E4 & F4 & Gc4 & Gn4).
    { rewrite (fr_len _ _ _ _ F3), (fr_len _ _ _ _ F2), (fr_len _ _ _ _ F1); lia. }
    { rewrite (fr_lenw _ _ _ _ F3), (fr_lenw _ _ _ _ F2), (fr_lenw _ _ _ _ F1); lia. }
    { intros j Hj. rewrite Hcur3. destruct (Nat.eqb_spec j src); try lia. apply Hlive; lia. }
    { intros j Hj. rewrite Hnw3. destruct (Nat.eqb_spec j dst); try lia. apply Hraw; lia. }
    exists s4; split; auto. split; [|split].
    + eapply frame_eq. eapply frame_trans; [eapply frame_trans; [eapply frame_trans|]|]; eauto. all: lia.
    + intro j. rewrite Gc4, Hcur3. fin0.
    + intro j. rewrite Gn4, Hnw3, Hcur3. fin Hv.
Qed.

Lemma destruct_range_ok k : forall i (s : st), i + k <= length (cur s) ->
  (forall j, i <= j < i + k -> get (cur s) j <> Raw) ->
  exists s', destruct_range k i s = Ok s' /\ frame s s' 0 (N.of_nat k) /\ nw s' = nw s /\
    forall j, get (cur s') j = if (i <=? j) && (j <? i + k) then Raw else get (cur s) j.
Proof.
  induction k; intros i s Hlen Hl.
  - simpl. exists s; split; auto. split; [apply frame_refl|]. split; auto. intro j.
    destruct (Nat.leb_spec i j), (Nat.ltb_spec j (i + 0)); simpl; try lia; auto.
  - simpl. destruct (destroy_ok i s) as (s1 & E1 & F1 & W1 & G1); try lia. { apply Hl; lia. }
    rewrite E1; simpl.
    destruct (IHk (S i) s1) as (s2 & E2 & F2 & W2 & G2).
    { rewrite (fr_len _ _ _ _ F1); lia. }
    { intros j Hj. rewrite G1. destruct (Nat.eqb_spec j i); try lia. apply Hl; lia. }
    exists s2; split; auto. split; [|split].
    + eapply frame_eq. eapply frame_trans; eauto. all: lia.
    + congruence.
    + intro j. rewrite G2, G1. fin0.
Qed.

Lemma construct_list_ok vs : forall i (s : st), i + length vs <= length (cur s) ->
  (forall j, i <= j < i + length vs -> get (cur s) j = Raw) ->
  exists s', construct_list vs i s = Ok s' /\ frame s s' (N.of_nat (length vs)) 0 /\ nw s' = nw s /\
    forall j, get (cur s') j = if (i <=? j) && (j <? i + length vs) then cget vs (j - i) else get (cur s) j.
Proof.
  induction vs as [|v vs]; intros i s Hlen Hr.
  - simpl. exists s; split; auto. split; [apply frame_refl|]. split; auto. intro j.
    destruct (Nat.leb_spec i j), (Nat.ltb_spec j (i + 0)); simpl; try lia; auto.
  - simpl in *. destruct (construct_cur_ok i v s) as (s1 & E1 & F1 & W1 & G1); try lia. { apply Hr; lia. }
    rewrite E1; simpl.
    destruct (IHvs (S i) s1) as (s2 & E2 & F2 & W2 & G2).
    { rewrite (fr_len _ _ _ _ F1); lia. }
    { intros j Hj. rewrite G1. destruct (Nat.eqb_spec j i); try lia. apply Hr; lia. }
    exists s2; split; auto. split; [|split].
    + eapply frame_eq. eapply frame_trans; eauto. all: lia.
    + congruence.
    + intro j. rewrite G2, G1. bdestr.
      all: try (replace (j - i) with (S (j - S i)) by lia; reflexivity); try (subst; rewrite Nat.sub_diag; reflexivity).
Qed.

Lemma fill_range_ext_ok k v : forall i (s : st), i + k <= length (cur s) ->
  (forall j, i <= j < i + k -> get (cur s) j = Raw) ->
  exists s', fill_range k i (PExt v) s = Ok s' /\ frame s s' (N.of_nat k) 0 /\ nw s' = nw s /\
    forall j, get (cur s') j = if (i <=? j) && (j <? i + k) then Live v else get (cur s) j.
Proof.
  induction k; intros i s Hlen Hr.
  - simpl. exists s; split; auto. split; [apply frame_refl|]. split; auto. intro j.
    destruct (Nat.leb_spec i j), (Nat.ltb_spec j (i + 0)); simpl; try lia; auto.
  - simpl. destruct (construct_cur_ok i v s) as (s1 & E1 & F1 & W1 & G1); try lia. { apply Hr; lia. }
    rewrite E1; simpl.
    destruct (IHk (S i) s1) as (s2 & E2 & F2 & W2 & G2).
    { rewrite (fr_len _ _ _ _ F1); lia. }
    { intros j Hj. rewrite G1. destruct (Nat.eqb_spec j i); try lia. apply Hr; lia. }
    exists s2; split; auto. split; [|split].
    + eapply frame_eq. eapply frame_trans; eauto. all: lia.
    + congruence.
    + intro j. rewrite G2, G1. fin0.
Qed.

Lemma default_range_ok (dflt : elt) k : forall i (s : st), i + k <= length (cur s) ->
  (forall j, i <= j < i + k -> get (cur s) j = Raw) ->
  exists s', default_range dflt k i s = Ok s' /\ frame s s' (N.of_nat k) 0 /\ nw s' = nw s /\
    forall j, get (cur s') j = if (i <=? j) && (j <? i + k) then Live dflt else get (cur s) j.
Proof.
  induction k; intros i s Hlen Hr.
  - simpl. exists s; split; auto. split; [apply frame_refl|]. split; auto. intro j.
    destruct (Nat.leb_spec i j), (Nat.ltb_spec j (i + 0)); simpl; try lia; auto.
  - simpl. destruct (construct_cur_ok i dflt s) as (s1 & E1 & F1 & W1 & G1); try lia. { apply Hr; lia. }
    rewrite E1; simpl.
    destruct (IHk (S i) s1) as (s2 & E2 & F2 & W2 & G2).
    { rewrite (fr_len _ _ _ _ F1); lia. }
    { intros j Hj. rewrite G1. destruct (Nat.eqb_spec j i); try lia. apply Hr; lia. }
    exists s2; split; auto. split; [|split].
    + eapply frame_eq. eapply frame_trans; eauto. all: lia.
    + congruence.
    + intro j. rewrite G2, G1. fin0.
Qed.

Lemma assign_list_ok vs : forall i (s : st), i + length vs <= length (cur s) ->
  (forall j, i <= j < i + length vs -> is_live (get (cur s) j)) ->
  exists s', assign_list vs i s = Ok s' /\ frame s s' 0 0 /\ nw s' = nw s /\
    forall j, get (cur s') j = if (i <=? j) && (j <? i + length vs) then cget vs (j - i) else get (cur s) j.
Proof.
  induction vs as [|v vs]; intros i s Hlen Hr.
  - simpl. exists s; split; auto. split; [apply frame_refl|]. split; auto. intro j.
    destruct (Nat.leb_spec i j), (Nat.ltb_spec j (i + 0)); simpl; try lia; auto.
  - simpl in *. destruct (assign_at_ok i v s) as (s1 & E1 & F1 & W1 & G1); try lia. { apply Hr; lia. }
    rewrite E1; simpl.
    destruct (IHvs (S i) s1) as (s2 & E2 & F2 & W2 & G2).
    { rewrite (fr_len _ _ _ _ F1); lia. }
    { intros j Hj. rewrite G1. destruct (Nat.eqb_spec j i); try lia. apply Hr; lia. }
    exists s2; split; auto. split; [|split].
    + eapply frame_eq. eapply frame_trans; eauto. all: lia.
    + congruence.
    + intro j. rewrite G2, G1. bdestr.
      all: try (replace (j - i) with (S (j - S i)) by lia; reflexivity); try (subst; rewrite Nat.sub_diag; reflexivity).
Qed.

Lemma assign_fill_ok k v : forall i (s : st), i + k <= length (cur s) ->
  (forall j, i <= j < i + k -> is_live (get (cur s) j)) ->
  exists s', assign_fill k i v s = Ok s' /\ frame s s' 0 0 /\ nw s' = nw s /\
    forall j, get (cur s') j = if (i <=? j) && (j <? i + k) then Live v else get (cur s) j.
Proof.
  induction k; intros i s Hlen Hr.
  - simpl. exists s; split; auto. split; [apply frame_refl|]. split; auto. intro j.
    destruct (Nat.leb_spec i j), (Nat.ltb_spec j (i + 0)); simpl; try lia; auto.
  - simpl. destruct (assign_at_ok i v s) as (s1 & E1 & F1 & W1 & G1); try lia. { apply Hr; lia. }
    rewrite E1; simpl.
    destruct (IHk (S i) s1) as (s2 & E2 & F2 & W2 & G2).
    { rewrite (fr_len _ _ _ _ F1); lia. }
    { intros j Hj. rewrite G1. destruct (Nat.eqb_spec j i); try lia. apply Hr; lia. }
    exists s2; split; auto. split; [|split].
    + eapply frame_eq. eapply frame_trans; eauto. all: lia.
    + congruence.
    + intro j. rewrite G2, G1. fin0.
Qed.

Lemma read_range_ok k : forall i (s : st) xs, i + k <= length xs -> length xs <= length (cur s) ->
  (forall j, get (cur s) j = cget xs j) ->
  read_range k i s = Ok (firstn k (skipn i xs)).
Proof.
  induction k; intros i s xs Hk Hlen Hg; simpl.
  - reflexivity.
  - destruct (cget_lt xs i) as (v & Ev & Cv); [lia|].
    rewrite (read_ok i v); [|lia|rewrite Hg; auto]. simpl.
    rewrite (IHk (S i) s xs); auto; try lia. simpl.
    assert (skipn i xs = v :: skipn (S i) xs) as ->; auto.
    clear - Ev. revert i Ev; induction xs; intros [|i] Ev; simpl in *; try discriminate; auto. congruence.
Qed.
End Prim.
