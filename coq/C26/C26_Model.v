(** C26  Array_ and pointer wrappers have value semantics -- executable slot-level model (no proofs here).

    Hand-written from SimTKcommon/include/SimTKcommon/internal/Array.h (class Array_, ArrayView_):
    every operation is written as the code performs it -- which slots are copy-constructed,
    move-constructed, destroyed and in which order, in-place gap opening by the backwards loop of
    moveElementsUp versus reallocation (allocN / moveConstructThenDestructSource / freeN), the growth
    policy calcNewCapacityForGrowthBy, reallocateIfAdvisable, shrink_to_fit's 25% slop.

    A memory block is a [list slot]; a slot is raw storage, a live object with a value, or the husk
    a move constructor leaves behind (still to be destroyed).  Every primitive checks the slot
    discipline and returns a [fault] when the code would construct on a live slot, read or move from
    something that is not a live object, destroy raw storage, free a block that still holds objects,
    or read through a pointer into a block that has been freed.  The value argument of
    push_back/insert/resize is [Ext v] (an object outside the array) or [Own i] (a reference to the
    array's own element i, e.g. a.push_back(a[0])).

    The tie to the code is the correspondence run by checks/C26.py (this model extracted to OCaml and
    run against the real Array_<T> on random operation sequences, compared exactly after every op). *)
From Coq Require Import List Arith Bool NArith.
Import ListNotations.

Inductive fault :=
| Precond          (* the documented precondition of the operation does not hold (index out of range, pop_back on empty, ...) *)
| ConstructOnLive  (* placement-new on a slot that holds an object *)
| ReadNotLive      (* copy/move/assign from a slot that is raw storage or a moved-from husk *)
| DestroyRaw       (* destructor call on raw storage *)
| ReadFreed        (* read through a pointer into a block that has been freed *)
| FreeLive         (* freeN of a block that still holds objects *)
| OutOfBlock       (* access beyond the allocated block *)
| AssignNotLive.   (* T::operator= on a slot that holds no live object *)

Inductive res (A : Type) := Ok (a : A) | Err (f : fault).
Arguments Ok {A} a.
Arguments Err {A} f.

Definition bind {A B} (r : res A) (f : A -> res B) : res B :=
  match r with Ok a => f a | Err e => Err e end.
Notation "x <- r ;; k" := (bind r (fun x => k)) (at level 61, r at next level, right associativity).

Fixpoint upd {A} (i : nat) (x : A) (l : list A) : list A :=
  match l with
  | [] => []
  | y :: t => match i with O => x :: t | S i' => y :: upd i' x t end
  end.

(** growth policy, Array.h calcNewCapacityForGrowthBy (max_size not reached; minAlloc = 4) *)
Definition new_cap (cap n : nat) : nat := Nat.max (Nat.max (cap + n) (2 * cap)) 4.

(** reallocateIfAdvisable: allocated() < n || allocated()/2 > max(minAlloc, n) *)
Definition realloc_advisable (cap n : nat) : bool := (cap <? n) || (Nat.max 4 n <? Nat.div2 cap).

(** shrink_to_fit: if (capacity() - size()/4 <= size()) return; *)
Definition shrink_keeps (cap sz : nat) : bool := cap - Nat.div2 (Nat.div2 sz) <=? sz.

Section Model.
Context {elt : Type}.
Variable dflt : elt.          (* value of a default-constructed element *)

Inductive slot := Raw | Live (v : elt) | Husk.

(** value argument of push_back / insert / resize *)
Inductive vsrc := Ext (v : elt) | Own (i : nat).
(** what the reference denotes during the call: an outside object, or slot i of the block that was
    current (generation g) when the call was made *)
Inductive ptr := PExt (v : elt) | PSlot (g i : nat).

(** machine state while one Array_ executes one operation *)
Record st := mkst {
  cur : list slot;     (* block data() points to; allocated() = its length; [] = null *)
  nw : list slot;      (* block obtained from allocN during a reallocation, not yet installed *)
  size : nat;          (* nUsed *)
  gen : nat;           (* number of blocks freed so far in this call *)
  nctor : N;           (* constructor calls of T so far (default + copy + move) *)
  ndtor : N            (* destructor calls of T so far *)
}.

Definition set_cur l s := mkst l (nw s) (size s) (gen s) (nctor s) (ndtor s).
Definition set_nw l s := mkst (cur s) l (size s) (gen s) (nctor s) (ndtor s).
Definition set_size n s := mkst (cur s) (nw s) n (gen s) (nctor s) (ndtor s).
Definition capacity s := length (cur s).

(* ------------------------------------------------------------------ primitives on slots *)
(** new(p) T(v) at cur[i] *)
Definition construct_cur (i : nat) (v : elt) (s : st) : res st :=
  match nth_error (cur s) i with
  | None => Err OutOfBlock
  | Some Raw => Ok (mkst (upd i (Live v) (cur s)) (nw s) (size s) (gen s) (N.succ (nctor s)) (ndtor s))
  | Some _ => Err ConstructOnLive
  end.
(** new(p) T(v) at newdata[i] *)
Definition construct_new (i : nat) (v : elt) (s : st) : res st :=
  match nth_error (nw s) i with
  | None => Err OutOfBlock
  | Some Raw => Ok (mkst (cur s) (upd i (Live v) (nw s)) (size s) (gen s) (N.succ (nctor s)) (ndtor s))
  | Some _ => Err ConstructOnLive
  end.
(** p->~T() at cur[i] *)
Definition destroy (i : nat) (s : st) : res st :=
  match nth_error (cur s) i with
  | None => Err OutOfBlock
  | Some Raw => Err DestroyRaw
  | Some _ => Ok (mkst (upd i Raw (cur s)) (nw s) (size s) (gen s) (nctor s) (N.succ (ndtor s)))
  end.
(** read cur[i] as the source of a copy *)
Definition read (i : nat) (s : st) : res elt :=
  match nth_error (cur s) i with
  | None => Err OutOfBlock
  | Some (Live v) => Ok v
  | Some _ => Err ReadNotLive
  end.
(** std::move(cur[i]) consumed by a move constructor: yields the value, leaves a husk *)
Definition take (i : nat) (s : st) : res (elt * st) :=
  match nth_error (cur s) i with
  | None => Err OutOfBlock
  | Some (Live v) => Ok (v, set_cur (upd i Husk (cur s)) s)
  | Some _ => Err ReadNotLive
  end.
(** cur[i] = v  (T::operator=) *)
Definition assign_at (i : nat) (v : elt) (s : st) : res st :=
  match nth_error (cur s) i with
  | None => Err OutOfBlock
  | Some (Live _) => Ok (set_cur (upd i (Live v) (cur s)) s)
  | Some _ => Err AssignNotLive
  end.

Definition mkptr (v : vsrc) (s : st) : ptr :=
  match v with Ext x => PExt x | Own i => PSlot (gen s) i end.
Definition read_ptr (p : ptr) (s : st) : res elt :=
  match p with
  | PExt v => Ok v
  | PSlot g i => if g =? gen s then read i s else Err ReadFreed
  end.

Fixpoint all_raw (l : list slot) : bool :=
  match l with [] => true | Raw :: t => all_raw t | _ :: _ => false end.

(** allocN(n) *)
Definition alloc_new (n : nat) (s : st) : st := set_nw (repeat Raw n) s.
(** freeN(data()); setData(newData) *)
Definition commit_new (s : st) : res st :=
  if all_raw (cur s) then Ok (mkst (nw s) [] (size s) (S (gen s)) (nctor s) (ndtor s))
  else Err FreeLive.
(** deallocateNoDestruct(); allocateNoConstruct(n) *)
Definition realloc_raw (n : nat) (s : st) : res st :=
  if all_raw (cur s) then Ok (mkst (repeat Raw n) (nw s) (size s) (S (gen s)) (nctor s) (ndtor s))
  else Err FreeLive.

(* ------------------------------------------------------------------ the loops of Array.h *)
(** moveOneElement(to, from): moveConstruct(to, std::move( *from)); destruct(from) *)
Definition move_one (to from : nat) (s : st) : res st :=
  vs <- take from s ;; s1 <- construct_cur to (fst vs) (snd vs) ;; destroy from s1.

(** moveConstructThenDestructSource(newdata+dst, newdata+dst+k, data()+src) *)
Fixpoint move_to_new (k dst src : nat) (s : st) : res st :=
  match k with
  | O => Ok s
  | S k' => vs <- take src s ;; s1 <- construct_new dst (fst vs) (snd vs) ;; s2 <- destroy src s1 ;;
            move_to_new k' (S dst) (S src) s2
  end.

(** moveElementsUp(p, n): k = end()-p elements, last one first *)
Fixpoint move_up (k p n : nat) (s : st) : res st :=
  match k with
  | O => Ok s
  | S k' => s1 <- move_one (p + k' + n) (p + k') s ;; move_up k' p n s1
  end.

(** moveElementsDown(p, n): for (; p != end(); ++p) moveOneElement(p-n, p);  k = end()-p *)
Fixpoint move_down (k p n : nat) (s : st) : res st :=
  match k with
  | O => Ok s
  | S k' => s1 <- move_one (p - n) p s ;; move_down k' (S p) n s1
  end.

(** destruct(b, e): k = e-b, ascending *)
Fixpoint destruct_range (k i : nat) (s : st) : res st :=
  match k with O => Ok s | S k' => s1 <- destroy i s ;; destruct_range k' (S i) s1 end.

(** defaultConstruct(b, e) *)
Fixpoint default_range (k i : nat) (s : st) : res st :=
  match k with O => Ok s | S k' => s1 <- construct_cur i dflt s ;; default_range k' (S i) s1 end.

(** fillConstruct(b, e, v): the value is read through the reference at every iteration *)
Fixpoint fill_range (k i : nat) (p : ptr) (s : st) : res st :=
  match k with
  | O => Ok s
  | S k' => v <- read_ptr p s ;; s1 <- construct_cur i v s ;; fill_range k' (S i) p s1
  end.

(** copyConstruct(b, e, src) from a source range outside this array *)
Fixpoint construct_list (vs : list elt) (i : nat) (s : st) : res st :=
  match vs with [] => Ok s | v :: t => s1 <- construct_cur i v s ;; construct_list t (S i) s1 end.

(** elementwise T::operator= from an outside range (ArrayView_ assignment) *)
Fixpoint assign_list (vs : list elt) (i : nat) (s : st) : res st :=
  match vs with [] => Ok s | v :: t => s1 <- assign_at i v s ;; assign_list t (S i) s1 end.

(** ArrayView_::fill *)
Fixpoint assign_fill (k i : nat) (v : elt) (s : st) : res st :=
  match k with O => Ok s | S k' => s1 <- assign_at i v s ;; assign_fill k' (S i) v s1 end.

(** reading out all elements (source side of copy construction / copy assignment) *)
Fixpoint read_range (k i : nat) (s : st) : res (list elt) :=
  match k with O => Ok [] | S k' => v <- read i s ;; t <- read_range k' (S i) s ;; Ok (v :: t) end.

(* ------------------------------------------------------------------ private helpers of Array_ *)
(** growAtEnd(n) *)
Definition grow_at_end (n : nat) (s : st) : res st :=
  let s0 := alloc_new (new_cap (capacity s) n) s in
  s1 <- move_to_new (size s0) 0 0 s0 ;; commit_new s1.

(** insertGapAt(p, n): leaves size() unchanged, returns with raw slots [p,p+n) *)
Definition insert_gap_at (p n : nat) (s : st) : res st :=
  if size s <? p then Err Precond else
  if n =? 0 then Ok s else
  if size s + n <=? capacity s then move_up (size s - p) p n s
  else
    let s0 := alloc_new (new_cap (capacity s) n) s in
    s1 <- move_to_new p 0 0 s0 ;;
    s2 <- move_to_new (size s - p) (p + n) p s1 ;;
    commit_new s2.

(** reserve(n) *)
Definition reserve (n : nat) (s : st) : res st :=
  if n <=? capacity s then Ok s else
  let s0 := alloc_new n s in
  s1 <- move_to_new (size s0) 0 0 s0 ;; commit_new s1.

(** clear() *)
Definition clear (s : st) : res st :=
  s1 <- destruct_range (size s) 0 s ;; Ok (set_size 0 s1).

(** reallocateIfAdvisable(n) *)
Definition realloc_if_advisable (n : nat) (s : st) : res st :=
  if realloc_advisable (capacity s) n then realloc_raw n s else Ok s.

(** erase(first, last1) with first = data()+i, last1 = data()+j *)
Definition erase (i j : nat) (s : st) : res st :=
  if (i <=? j) && (j <=? size s) then
    let n := j - i in
    if n =? 0 then Ok s else
    s1 <- destruct_range n i s ;;
    s2 <- move_down (size s - j) j n s1 ;;
    Ok (set_size (size s - n) s2)
  else Err Precond.

(* ------------------------------------------------------------------ public operations on one array *)
Definition push_back (v : vsrc) (s : st) : res st :=
  let p := mkptr v s in
  s1 <- (if capacity s =? size s then grow_at_end 1 s else Ok s) ;;
  x <- read_ptr p s1 ;;
  s2 <- construct_cur (size s1) x s1 ;;
  Ok (set_size (S (size s2)) s2).

Definition push_back_default (s : st) : res st :=
  s1 <- (if capacity s =? size s then grow_at_end 1 s else Ok s) ;;
  s2 <- construct_cur (size s1) dflt s1 ;;
  Ok (set_size (S (size s2)) s2).

Definition pop_back (s : st) : res st :=
  match size s with
  | O => Err Precond
  | S m => s1 <- destroy m s ;; Ok (set_size m s1)
  end.

Definition erase_one (i : nat) (s : st) : res st :=
  if i <? size s then
    s1 <- destroy i s ;; s2 <- move_down (size s - S i) (S i) 1 s1 ;; Ok (set_size (size s - 1) s2)
  else Err Precond.

Definition erase_fast (i : nat) (s : st) : res st :=
  if i <? size s then
    s1 <- destroy i s ;;
    s2 <- (if S i =? size s then Ok s1 else move_one i (size s - 1) s1) ;;
    Ok (set_size (size s - 1) s2)
  else Err Precond.

Definition insert_n (p n : nat) (v : vsrc) (s : st) : res st :=
  let q := mkptr v s in
  s1 <- insert_gap_at p n s ;;
  s2 <- fill_range n p q s1 ;;
  Ok (set_size (size s2 + n) s2).

Definition insert_one (p : nat) (v : vsrc) (s : st) : res st :=
  let q := mkptr v s in
  s1 <- insert_gap_at p 1 s ;;
  x <- read_ptr q s1 ;;
  s2 <- construct_cur p x s1 ;;
  Ok (set_size (S (size s2)) s2).

Definition insert_list (p : nat) (vs : list elt) (s : st) : res st :=
  s1 <- insert_gap_at p (length vs) s ;;
  s2 <- construct_list vs p s1 ;;
  Ok (set_size (size s2 + length vs) s2).

Definition resize (n : nat) (s : st) : res st :=
  if n =? size s then Ok s else
  if n <? size s then erase n (size s) s else
  s1 <- reserve n s ;;
  s2 <- default_range (n - size s1) (size s1) s1 ;;
  Ok (set_size n s2).

Definition resize_fill (n : nat) (v : vsrc) (s : st) : res st :=
  let q := mkptr v s in
  if n =? size s then Ok s else
  if n <? size s then erase n (size s) s else
  s1 <- reserve n s ;;
  s2 <- fill_range (n - size s1) (size s1) q s1 ;;
  Ok (set_size n s2).

(** The value argument as the caller evaluates it: a[i] requires i < size() *)
Definition own_ok (v : vsrc) (s : st) : bool := match v with Own i => i <? size s | Ext _ => true end.

(** const T tmp(value); f(tmp); ~tmp  -- the isOwnElement repair (/repo commit 91dbee05): when the value is one of the
    array's own elements it is copied to a local object before any element is moved or the block is freed *)
Definition with_tmp (i : nat) (f : vsrc -> st -> res st) (s : st) : res st :=
  x <- read i s ;;
  s1 <- f (Ext x) (mkst (cur s) (nw s) (size s) (gen s) (N.succ (nctor s)) (ndtor s)) ;;
  Ok (mkst (cur s1) (nw s1) (size s1) (gen s1) (nctor s1) (N.succ (ndtor s1))).

(** the four operations taking a const T& as the source reads them: [guard = true] is Array.h as it is now (with the
    isOwnElement() repair), [guard = false] is Array.h before commit 91dbee05 (kept for the regression witnesses) *)
Definition push_back_g (guard : bool) (v : vsrc) (s : st) : res st :=
  if own_ok v s then
    match guard, v with
    | true, Own i => if capacity s =? size s then with_tmp i push_back s else push_back v s
    | _, _ => push_back v s
    end
  else Err Precond.
Definition insert_one_g (guard : bool) (p : nat) (v : vsrc) (s : st) : res st :=
  if own_ok v s then
    match guard, v with
    | true, Own i => with_tmp i (insert_one p) s
    | _, _ => insert_one p v s
    end
  else Err Precond.
Definition insert_n_g (guard : bool) (p n : nat) (v : vsrc) (s : st) : res st :=
  if own_ok v s then
    match guard, v with
    | true, Own i => if n =? 0 then insert_n p n v s else with_tmp i (insert_n p n) s
    | _, _ => insert_n p n v s
    end
  else Err Precond.
Definition resize_fill_g (guard : bool) (n : nat) (v : vsrc) (s : st) : res st :=
  if own_ok v s then
    match guard, v with
    | true, Own i => if capacity s <? n then with_tmp i (resize_fill n) s else resize_fill n v s
    | _, _ => resize_fill n v s
    end
  else Err Precond.

Definition shrink_to_fit (s : st) : res st :=
  if shrink_keeps (capacity s) (size s) then Ok s else
  let s0 := alloc_new (size s) s in
  s1 <- move_to_new (size s0) 0 0 s0 ;; commit_new s1.

Definition assign_fill_op (n : nat) (v : elt) (s : st) : res st :=
  s1 <- clear s ;;
  s2 <- realloc_if_advisable n s1 ;;
  s3 <- fill_range n 0 (PExt v) s2 ;;
  Ok (set_size n s3).

Definition assign_list_op (vs : list elt) (s : st) : res st :=
  s1 <- clear s ;;
  s2 <- realloc_if_advisable (length vs) s1 ;;
  s3 <- construct_list vs 0 s2 ;;
  Ok (set_size (length vs) s3).

(** deallocate() (also the destructor) *)
Definition deallocate (s : st) : res st :=
  match cur s with
  | [] => Ok (set_size 0 s)           (* allocated()==0: just clear the handle *)
  | _ => s1 <- clear s ;; realloc_raw 0 s1
  end.

(** Array_(n): allocateNoConstruct(n); defaultConstruct; setSize(n)   (on a just-destructed handle) *)
Definition ctor_n (n : nat) (s : st) : res st :=
  s1 <- realloc_raw n s ;; s2 <- default_range n 0 s1 ;; Ok (set_size n s2).
Definition ctor_fill (n : nat) (v : elt) (s : st) : res st :=
  s1 <- realloc_raw n (set_size n s) ;; fill_range n 0 (PExt v) s1.
Definition ctor_list (vs : list elt) (s : st) : res st :=
  s1 <- realloc_raw (length vs) (set_size (length vs) s) ;; construct_list vs 0 s1.

(** ArrayView_ handles: a view is (base, length) into the owner's block.  [view_path] resolves
    a(b1,l1)(b2,l2)... against the current size *)
Fixpoint resolve_view (path : list (nat * nat)) (base len : nat) : option (nat * nat) :=
  match path with
  | [] => Some (base, len)
  | (b, l) :: t => if b + l <=? len then resolve_view t (base + b) l else None
  end.

Definition set_elt (i : nat) (v : elt) (s : st) : res st :=
  if i <? size s then assign_at i v s else Err Precond.

Definition view_fill (path : list (nat * nat)) (v : elt) (s : st) : res st :=
  match resolve_view path 0 (size s) with
  | None => Err Precond
  | Some (b, l) => assign_fill l b v s
  end.

Definition view_assign (path : list (nat * nat)) (vs : list elt) (s : st) : res st :=
  match resolve_view path 0 (size s) with
  | None => Err Precond
  | Some (b, l) => if length vs =? l then assign_list vs b s else Err Precond
  end.

(* ------------------------------------------------------------------ several arrays sharing the element counters *)
Record arr := mkarr { abuf : list slot; asize : nat }.
Record world := mkw { arrs : list arr; wctor : N; wdtor : N }.

Definition empty_arr := mkarr [] 0.
Definition init_world (k : nat) : world := mkw (repeat empty_arr k) 0%N 0%N.

Definition load (a : arr) (w : world) : st := mkst (abuf a) [] (asize a) 0 (wctor w) (wdtor w).
Definition on_arr (k : nat) (f : st -> res st) (w : world) : res world :=
  match nth_error (arrs w) k with
  | None => Err Precond
  | Some a => s <- f (load a w) ;;
              Ok (mkw (upd k (mkarr (cur s) (size s)) (arrs w)) (nctor s) (ndtor s))
  end.
(** the elements of array j as a copy source *)
Definition contents (j : nat) (w : world) : res (list elt) :=
  match nth_error (arrs w) j with
  | None => Err Precond
  | Some a => read_range (asize a) 0 (load a w)
  end.
Definition swap_arrs (k j : nat) (w : world) : res world :=
  match nth_error (arrs w) k, nth_error (arrs w) j with
  | Some a, Some b => Ok (mkw (upd k b (upd j a (arrs w))) (wctor w) (wdtor w))
  | _, _ => Err Precond
  end.

Inductive op :=
| PushBack (k : nat) (v : vsrc)          (* a.push_back(const T&) *)
| PushBackMove (k : nat) (v : elt)       (* a.push_back(T&&) / a.emplace_back(v) with an outside object *)
| PushBackDefault (k : nat)              (* a.push_back() *)
| PopBack (k : nat)
| Erase (k i j : nat)                    (* a.erase(a.begin()+i, a.begin()+j) *)
| EraseOne (k i : nat)                   (* a.erase(a.begin()+i) *)
| EraseFast (k i : nat)
| Clear (k : nat)
| InsertN (k p n : nat) (v : vsrc)       (* a.insert(a.begin()+p, n, value) *)
| Insert (k p : nat) (v : vsrc)          (* a.insert(a.begin()+p, value) *)
| Emplace (k p : nat) (v : elt)          (* a.emplace(a.begin()+p, v) *)
| InsertList (k p : nat) (vs : list elt) (* a.insert(a.begin()+p, first, last1) from outside *)
| Resize (k n : nat)
| ResizeFill (k n : nat) (v : vsrc)
| Reserve (k n : nat)
| ShrinkToFit (k : nat)
| AssignFill (k n : nat) (v : elt)
| AssignList (k : nat) (vs : list elt)
| Deallocate (k : nat)
| CtorN (k n : nat)                      (* a.~Array_(); new(&a) Array_(n) *)
| CtorFill (k n : nat) (v : elt)
| CtorList (k : nat) (vs : list elt)
| CtorCopy (k j : nat)                   (* a.~Array_(); new(&a) Array_(b) *)
| CtorMove (k j : nat)                   (* a.~Array_(); new(&a) Array_(std::move(b)) *)
| CopyAssign (k j : nat)                 (* a = b *)
| MoveAssign (k j : nat)                 (* a = std::move(b)  (swap) *)
| Swap (k j : nat)
| SetElt (k i : nat) (v : elt)           (* a[i] = v *)
| ViewFill (k : nat) (path : list (nat * nat)) (v : elt)         (* a(b1,l1)(b2,l2)....fill(v) *)
| ViewAssign (k : nat) (path : list (nat * nat)) (vs : list elt). (* a(b1,l1)... = range of the same length *)

Definition step (guard : bool) (w : world) (o : op) : res world :=
  match o with
  | PushBack k v => on_arr k (push_back_g guard v) w
  | PushBackMove k v => on_arr k (push_back (Ext v)) w
  | PushBackDefault k => on_arr k push_back_default w
  | PopBack k => on_arr k pop_back w
  | Erase k i j => on_arr k (erase i j) w
  | EraseOne k i => on_arr k (erase_one i) w
  | EraseFast k i => on_arr k (erase_fast i) w
  | Clear k => on_arr k clear w
  | InsertN k p n v => on_arr k (insert_n_g guard p n v) w
  | Insert k p v => on_arr k (insert_one_g guard p v) w
  | Emplace k p v => on_arr k (insert_one p (Ext v)) w
  | InsertList k p vs => on_arr k (insert_list p vs) w
  | Resize k n => on_arr k (resize n) w
  | ResizeFill k n v => on_arr k (resize_fill_g guard n v) w
  | Reserve k n => on_arr k (reserve n) w
  | ShrinkToFit k => on_arr k shrink_to_fit w
  | AssignFill k n v => on_arr k (assign_fill_op n v) w
  | AssignList k vs => on_arr k (assign_list_op vs) w
  | Deallocate k => on_arr k deallocate w
  | CtorN k n => on_arr k (fun s => s1 <- deallocate s ;; ctor_n n s1) w
  | CtorFill k n v => on_arr k (fun s => s1 <- deallocate s ;; ctor_fill n v s1) w
  | CtorList k vs => on_arr k (fun s => s1 <- deallocate s ;; ctor_list vs s1) w
  | CtorCopy k j =>
      if k =? j then Err Precond else
      vs <- contents j w ;; on_arr k (fun s => s1 <- deallocate s ;; ctor_list vs s1) w
  | CtorMove k j =>
      if k =? j then Err Precond else
      w1 <- on_arr k deallocate w ;; swap_arrs k j w1
  | CopyAssign k j =>
      if k =? j then (match nth_error (arrs w) k with Some _ => Ok w | None => Err Precond end) else
      vs <- contents j w ;; on_arr k (assign_list_op vs) w
  | MoveAssign k j => swap_arrs k j w
  | Swap k j => swap_arrs k j w
  | SetElt k i v => on_arr k (set_elt i v) w
  | ViewFill k path v => on_arr k (view_fill path v) w
  | ViewAssign k path vs => on_arr k (view_assign path vs) w
  end.

Fixpoint run (guard : bool) (w : world) (ops : list op) : res world :=
  match ops with [] => Ok w | o :: t => w1 <- step guard w o ;; run guard w1 t end.

(** observation of one array, as printed by the harness: the values of the first size() slots
    (None where the slot holds no live object) *)
Definition observe (a : arr) : list (option elt) :=
  map (fun sl => match sl with Live v => Some v | _ => None end) (firstn (asize a) (abuf a)).
Definition live_count (a : arr) : nat :=
  length (filter (fun sl => match sl with Raw => false | _ => true end) (abuf a)).

(* ------------------------------------------------------------------ the abstract specification: std::vector semantics *)
Definition splice (p q : nat) (ys xs : list elt) : list elt := firstn p xs ++ ys ++ skipn q xs.

Definition vget (xs : list elt) (v : vsrc) : option elt :=
  match v with Ext x => Some x | Own i => nth_error xs i end.

(** effect of a one-array operation on the abstract sequence; None = precondition violated *)
Definition sop (o : op) (xs : list elt) : option (list elt) :=
  let n := length xs in
  match o with
  | PushBack _ v => match vget xs v with Some x => Some (xs ++ [x]) | None => None end
  | PushBackMove _ v => Some (xs ++ [v])
  | PushBackDefault _ => Some (xs ++ [dflt])
  | PopBack _ => match xs with [] => None | _ => Some (removelast xs) end
  | Erase _ i j => if (i <=? j) && (j <=? n) then Some (firstn i xs ++ skipn j xs) else None
  | EraseOne _ i => if i <? n then Some (firstn i xs ++ skipn (S i) xs) else None
  | EraseFast _ i => if i <? n then Some (firstn (n - 1) (upd i (nth (n - 1) xs dflt) xs)) else None
  | Clear _ => Some []
  | InsertN _ p m v => if p <=? n then match vget xs v with Some x => Some (splice p p (repeat x m) xs) | None => None end else None
  | Insert _ p v => if p <=? n then match vget xs v with Some x => Some (splice p p [x] xs) | None => None end else None
  | Emplace _ p v => if p <=? n then Some (splice p p [v] xs) else None
  | InsertList _ p vs => if p <=? n then Some (splice p p vs xs) else None
  | Resize _ m => Some (firstn m xs ++ repeat dflt (m - n))
  | ResizeFill _ m v => match vget xs v with Some x => Some (firstn m xs ++ repeat x (m - n)) | None => None end
  | Reserve _ _ => Some xs
  | ShrinkToFit _ => Some xs
  | AssignFill _ m v => Some (repeat v m)
  | AssignList _ vs => Some vs
  | Deallocate _ => Some []
  | CtorN _ m => Some (repeat dflt m)
  | CtorFill _ m v => Some (repeat v m)
  | CtorList _ vs => Some vs
  | SetElt _ i v => if i <? n then Some (upd i v xs) else None
  | ViewFill _ path v =>
      match resolve_view path 0 n with
      | Some (b, l) => Some (splice b (b + l) (repeat v l) xs)
      | None => None
      end
  | ViewAssign _ path vs =>
      match resolve_view path 0 n with
      | Some (b, l) => if length vs =? l then Some (splice b (b + l) vs xs) else None
      | None => None
      end
  | _ => None
  end.

Definition op_arr (o : op) : nat :=
  match o with
  | PushBack k _ | PushBackMove k _ | PushBackDefault k | PopBack k | Erase k _ _ | EraseOne k _
  | EraseFast k _ | Clear k | InsertN k _ _ _ | Insert k _ _ | Emplace k _ _ | InsertList k _ _
  | Resize k _ | ResizeFill k _ _ | Reserve k _ | ShrinkToFit k | AssignFill k _ _ | AssignList k _
  | Deallocate k | CtorN k _ | CtorFill k _ _ | CtorList k _ | CtorCopy k _ | CtorMove k _
  | CopyAssign k _ | MoveAssign k _ | Swap k _ | SetElt k _ _ | ViewFill k _ _ | ViewAssign k _ _ => k
  end.

(** std::vector semantics of every operation on a family of sequences *)
Definition sstep (ls : list (list elt)) (o : op) : option (list (list elt)) :=
  match o with
  | CtorCopy k j =>
      if k =? j then None else
      match nth_error ls k, nth_error ls j with Some _, Some ys => Some (upd k ys ls) | _, _ => None end
  | CtorMove k j =>
      if k =? j then None else
      match nth_error ls k, nth_error ls j with Some _, Some ys => Some (upd k ys (upd j [] ls)) | _, _ => None end
  | CopyAssign k j =>
      match nth_error ls k, nth_error ls j with Some _, Some ys => Some (upd k ys ls) | _, _ => None end
  | MoveAssign k j | Swap k j =>
      match nth_error ls k, nth_error ls j with Some xs, Some ys => Some (upd k ys (upd j xs ls)) | _, _ => None end
  | _ =>
      match nth_error ls (op_arr o) with
      | Some xs => match sop o xs with Some ys => Some (upd (op_arr o) ys ls) | None => None end
      | None => None
      end
  end.

Fixpoint srun (ls : list (list elt)) (ops : list op) : option (list (list elt)) :=
  match ops with [] => Some ls | o :: t => match sstep ls o with Some l1 => srun l1 t | None => None end end.

(** operations whose value arguments are all outside objects *)
Definition ext_op (o : op) : bool :=
  match o with
  | PushBack _ (Own _) | InsertN _ _ _ (Own _) | Insert _ _ (Own _) | ResizeFill _ _ (Own _) => false
  | _ => true
  end.
End Model.
Arguments slot : clear implicits.
Arguments vsrc : clear implicits.
Arguments ptr : clear implicits.
Arguments st : clear implicits.
Arguments arr : clear implicits.
Arguments world : clear implicits.
Arguments op : clear implicits.
