(** C26: every public operation of the Array_ model, run on a well-formed array whose abstract contents are xs
    with outside value arguments, succeeds (no slot-discipline fault), leaves a well-formed array whose abstract
    contents are what std::vector would hold, and makes constructor/destructor calls that balance the change
    of the number of elements.  Helper file (statements used by C26_Proofs.v). *)
From Coq Require Import List Arith Bool NArith Lia.
Import ListNotations.
Require Import C26_Model C26_Lemmas.

(** close a pointwise goal about slot contents after case analysis on all index comparisons *)
Ltac pw := simpl; bdestr; try reflexivity; try (f_equal; lia);
           try (symmetry; apply cget_ge; lia); try (apply cget_ge; lia).

(** split a conjunction, closing each component by assumption / lia without unfolding it *)
Ltac msplit := repeat (split; [solve [auto; try lia; try congruence] |]); auto; try lia; try congruence.

Section Ops.
Context {elt : Type}.
Variable dflt : elt.
Notation slot := (slot elt).
Notation st := (st elt).

(** well-formed array state with abstract contents xs: slots [0,size) hold exactly xs, all other slots of the block
    are raw storage, no second block is pending *)
Definition good (s : st) (xs : list elt) : Prop :=
  nw s = [] /\ size s = length xs /\ length xs <= length (cur s) /\ forall j, get (cur s) j = cget xs j.

(** constructor calls - destructor calls = change of the number of elements; counters only grow *)
Definition bal (s s' : st) (n n' : nat) : Prop :=
  (nctor s' + ndtor s + N.of_nat n = nctor s + ndtor s' + N.of_nat n')%N /\ (nctor s <= nctor s')%N /\ (ndtor s <= ndtor s')%N.

Definition op_ok (C : nat -> nat -> Prop) (f : st -> res st) (xs xs' : list elt) : Prop :=
  forall s, good s xs -> exists s', f s = Ok s' /\ good s' xs' /\ bal s s' (length xs) (length xs') /\ C (capacity s) (capacity s').

Definition anycap (c c' : nat) : Prop := True.
Definition samecap (c c' : nat) : Prop := c' = c.

Lemma new_cap_bounds cap n : cap + n <= new_cap cap n /\ 2 * cap <= new_cap cap n /\ 4 <= new_cap cap n /\
  (new_cap cap n = cap + n \/ new_cap cap n = 2 * cap \/ new_cap cap n = 4).
Proof. unfold new_cap. lia. Qed.

Lemma good_raw_beyond s xs j : good s xs -> length xs <= j -> get (cur s) j = Raw.
Proof. intros (_ & _ & _ & G) H. rewrite G. apply cget_ge; auto. Qed.

Lemma good_live s xs j : good s xs -> j < length xs -> is_live (get (cur s) j).
Proof. intros (_ & _ & _ & G) H. rewrite G. destruct (cget_lt xs j H) as (v & _ & E). exists v; auto. Qed.

Lemma good_not_raw s xs j : good s xs -> j < length xs -> get (cur s) j <> Raw.
Proof. intros Hg H. destruct (good_live s xs j Hg H) as [v E]. rewrite E; discriminate. Qed.

Lemma commit_new_ok (s : st) : (forall j, get (cur s) j = Raw) ->
  commit_new s = Ok (mkst (nw s) [] (size s) (S (gen s)) (nctor s) (ndtor s)).
Proof. intros H. unfold commit_new. rewrite all_raw_get; auto. Qed.

Lemma realloc_raw_ok n (s : st) : (forall j, get (cur s) j = Raw) ->
  realloc_raw n s = Ok (mkst (repeat Raw n) (nw s) (size s) (S (gen s)) (nctor s) (ndtor s)).
Proof. intros H. unfold realloc_raw. rewrite all_raw_get; auto. Qed.

(** allocN(c); moveConstructThenDestructSource(all); freeN; setData  -- reserve, growAtEnd, shrink_to_fit *)
Lemma relocate_ok c s xs : good s xs -> length xs <= c ->
  exists s', (s1 <- move_to_new (size (alloc_new c s)) 0 0 (alloc_new c s) ;; commit_new s1) = Ok s' /\
    good s' xs /\ capacity s' = c /\ gen s' = S (gen s) /\
    nctor s' = (nctor s + N.of_nat (length xs))%N /\ ndtor s' = (ndtor s + N.of_nat (length xs))%N.
Proof.
  intros Hg Hc. pose proof Hg as (Hnw & Hsz & Hlen & G).
  destruct (move_to_new_ok (length xs) 0 0 (alloc_new c s)) as (s1 & E1 & F1 & Gc & Gn); simpl.
  - lia.
  - rewrite repeat_length; lia.
  - intros j Hj. apply (good_live s xs); auto; lia.
  - intros j Hj. apply get_repeat_raw.
  - simpl. rewrite Hsz, E1. simpl. rewrite commit_new_ok.
    + eexists; split; [reflexivity|]. unfold good, capacity; simpl.
      pose proof (fr_lenw _ _ _ _ F1) as L. simpl in L. rewrite repeat_length in L.
      repeat split; auto; try lia.
      * rewrite (fr_size _ _ _ _ F1). simpl. auto.
      * intro j. rewrite Gn. simpl. rewrite get_repeat_raw, G. pw.
      * rewrite (fr_gen _ _ _ _ F1); auto.
      * rewrite (fr_ctor _ _ _ _ F1); auto.
      * rewrite (fr_dtor _ _ _ _ F1); auto.
    + intro j. rewrite Gc. pw. apply (good_raw_beyond s xs); auto; lia.
Qed.

(** array with a raw gap [p, p+n) opened inside the elements xs; size() not yet updated *)
Definition gapped (s : st) (xs : list elt) (p n : nat) : Prop :=
  nw s = [] /\ size s = length xs /\ length xs + n <= length (cur s) /\
  forall j, get (cur s) j = if j <? p then cget xs j else if j <? p + n then Raw else cget xs (j - n).

Lemma insert_gap_ok p n s xs : good s xs -> p <= length xs ->
  exists s' d, insert_gap_at p n s = Ok s' /\ gapped s' xs p n /\
    nctor s' = (nctor s + d)%N /\ ndtor s' = (ndtor s + d)%N /\
    capacity s' = (if n =? 0 then capacity s else if size s + n <=? capacity s then capacity s else new_cap (capacity s) n) /\
    (gen s' = gen s \/ n <> 0).
Proof.
  intros Hg Hp. pose proof Hg as (Hnw & Hsz & Hlen & G). unfold insert_gap_at.
  destruct (Nat.ltb_spec (size s) p); [lia|].
  destruct (Nat.eqb_spec n 0).
  { subst n. exists s, 0%N. split; auto. split; [|repeat split; auto; lia].
    unfold gapped. repeat split; auto; try lia. intro j. rewrite G. bdestr. f_equal; lia. }
  unfold capacity. destruct (Nat.leb_spec (size s + n) (length (cur s))).
  - (* in place: moveElementsUp *)
    destruct (move_up_ok (size s - p) p n s) as (s1 & E1 & F1 & W1 & G1); try lia.
    { intros j Hj. apply (good_live s xs); auto; lia. }
    { intros j Hj. apply (good_raw_beyond s xs); auto; lia. }
    exists s1, (N.of_nat (size s - p)). split; auto. split; [|repeat split].
    + unfold gapped. rewrite (fr_size _ _ _ _ F1), (fr_len _ _ _ _ F1). repeat split; auto; try congruence; try lia.
      intro j. rewrite G1, !G. pw.
      all: try (rewrite (cget_ge xs j), (cget_ge xs (j - n)); auto; lia).
    + apply (fr_ctor _ _ _ _ F1).
    + apply (fr_dtor _ _ _ _ F1).
    + apply (fr_len _ _ _ _ F1).
    + left. apply (fr_gen _ _ _ _ F1).
  - (* reallocation with the gap left open *)
    set (c := new_cap (length (cur s)) n).
    pose proof (new_cap_bounds (length (cur s)) n) as (B1 & _).
    destruct (move_to_new_ok p 0 0 (alloc_new c s)) as (s1 & E1 & F1 & Gc1 & Gn1); simpl; try lia.
    { rewrite repeat_length; fold c; lia. }
    { intros j Hj. apply (good_live s xs); auto; lia. }
    { intros j Hj. apply get_repeat_raw. }
    rewrite E1. simpl.
    pose proof (fr_len _ _ _ _ F1) as L1; pose proof (fr_lenw _ _ _ _ F1) as Lw1; simpl in L1, Lw1; rewrite repeat_length in Lw1.
    destruct (move_to_new_ok (size s - p) (p + n) p s1) as (s2 & E2 & F2 & Gc2 & Gn2); try lia.
    { intros j Hj. rewrite Gc1. pw. apply (good_live s xs); auto; lia. }
    { intros j Hj. rewrite Gn1. pw. apply get_repeat_raw. }
    rewrite E2. simpl.
    pose proof (fr_len _ _ _ _ F2) as L2; pose proof (fr_lenw _ _ _ _ F2) as Lw2.
    rewrite commit_new_ok.
    + eexists; exists (N.of_nat p + N.of_nat (size s - p))%N. split; [reflexivity|]. split; [|repeat split]; simpl.
      * unfold gapped; simpl. rewrite (fr_size _ _ _ _ F2), (fr_size _ _ _ _ F1). simpl.
        repeat split; auto; try lia.
        intro j. rewrite Gn2, Gn1, Gc1. simpl. rewrite get_repeat_raw, !G. pw.
      * rewrite (fr_ctor _ _ _ _ F2), (fr_ctor _ _ _ _ F1). simpl. lia.
      * rewrite (fr_dtor _ _ _ _ F2), (fr_dtor _ _ _ _ F1). simpl. lia.
      * lia.
      * right; auto.
    + intro j. rewrite Gc2, Gc1. pw. apply (good_raw_beyond s xs); auto; lia.
Qed.

(** closing a gap of width length ys with the values ys gives the spliced sequence *)
Lemma gap_filled s s' xs p ys : gapped s xs p (length ys) -> p <= length xs ->
  nw s' = [] -> length (cur s') = length (cur s) ->
  (forall j, get (cur s') j = if (p <=? j) && (j <? p + length ys) then cget ys (j - p) else get (cur s) j) ->
  good (set_size (length xs + length ys) s') (splice p p ys xs).
Proof.
  intros (Hnw & Hsz & Hlen & G) Hp Hnw' Hl' G'. unfold good; simpl.
  rewrite splice_length by lia. repeat split; auto; try lia.
  intro j. rewrite G', G, cget_splice by auto. bdestr. f_equal; lia.
Qed.

Lemma bal_of s s' n n' dc dd : nctor s' = (nctor s + dc)%N -> ndtor s' = (ndtor s + dd)%N ->
  (dc + N.of_nat n = dd + N.of_nat n')%N -> bal s s' n n'.
Proof. intros; unfold bal; lia. Qed.

(* ------------------------------------------------------------------ push_back, pop_back *)
Lemma grow_at_end_ok n s xs : good s xs ->
  exists s', grow_at_end n s = Ok s' /\ good s' xs /\ capacity s' = new_cap (capacity s) n /\
    nctor s' = (nctor s + N.of_nat (length xs))%N /\ ndtor s' = (ndtor s + N.of_nat (length xs))%N.
Proof.
  intros Hg. pose proof Hg as (Hnw & Hsz & Hlen & G). unfold grow_at_end.
  pose proof (new_cap_bounds (capacity s) n) as (B1 & _). unfold capacity in *.
  destruct (relocate_ok (new_cap (length (cur s)) n) s xs Hg) as (s' & E & Hg' & Hc & _ & Hct & Hdt); [lia|].
  exists s'; msplit.
Qed.

Definition pb_cap (c c' : nat) (n : nat) : Prop := c' = if c =? n then new_cap c 1 else c.

Lemma push_back_ok v xs : op_ok (fun c c' => pb_cap c c' (length xs)) (push_back (Ext v)) xs (xs ++ [v]).
Proof.
  intros s Hg. unfold push_back. simpl mkptr.
  assert (exists s1, (if capacity s =? size s then grow_at_end 1 s else Ok s) = Ok s1 /\ good s1 xs /\
          length xs < capacity s1 /\ (exists d, nctor s1 = (nctor s + d)%N /\ ndtor s1 = (ndtor s + d)%N) /\
          pb_cap (capacity s) (capacity s1) (length xs)) as (s1 & E1 & Hg1 & Hc1 & (d & Hct & Hdt) & Hpb).
  { pose proof Hg as (Hnw & Hsz & Hlen & G). unfold pb_cap. rewrite <- Hsz. destruct (Nat.eqb_spec (capacity s) (size s)).
    - destruct (grow_at_end_ok 1 s xs Hg) as (s1 & E & Hg1 & Hc & Hct & Hdt). exists s1.
      pose proof (new_cap_bounds (capacity s) 1). msplit. split; eauto.
    - exists s. unfold capacity in *. msplit. split; auto. exists 0%N; split; lia. }
  rewrite E1. simpl. pose proof Hg1 as (Hnw & Hsz & Hlen & G). unfold capacity in Hc1.
  destruct (construct_cur_ok (size s1) v s1) as (s2 & E2 & F2 & W2 & G2); try lia.
  { apply (good_raw_beyond s1 xs); auto; lia. }
  rewrite E2. simpl. eexists; split; [reflexivity|]. split; [|split].
  - unfold good; simpl. rewrite app_length; simpl. rewrite (fr_size _ _ _ _ F2), (fr_len _ _ _ _ F2).
    repeat split; try congruence; try lia.
    intro j. rewrite G2, G, cget_app, Hsz. bdestr.
    + subst j. rewrite Nat.sub_diag. reflexivity.
    + rewrite !cget_ge by (simpl; lia). reflexivity.
  - rewrite app_length; simpl. eapply bal_of with (dc := (d + 1)%N) (dd := d).
    + cbn [nctor ndtor set_size]. rewrite (fr_ctor _ _ _ _ F2). lia.
    + cbn [nctor ndtor set_size]. rewrite (fr_dtor _ _ _ _ F2). lia.
    + lia.
  - unfold capacity; simpl. rewrite (fr_len _ _ _ _ F2). exact Hpb.
Qed.

Lemma push_back_default_ok xs : op_ok (fun c c' => pb_cap c c' (length xs)) (push_back_default dflt) xs (xs ++ [dflt]).
Proof.
  intros s Hg. unfold push_back_default.
  assert (exists s1, (if capacity s =? size s then grow_at_end 1 s else Ok s) = Ok s1 /\ good s1 xs /\
          length xs < capacity s1 /\ (exists d, nctor s1 = (nctor s + d)%N /\ ndtor s1 = (ndtor s + d)%N) /\
          pb_cap (capacity s) (capacity s1) (length xs)) as (s1 & E1 & Hg1 & Hc1 & (d & Hct & Hdt) & Hpb).
  { pose proof Hg as (Hnw & Hsz & Hlen & G). unfold pb_cap. rewrite <- Hsz. destruct (Nat.eqb_spec (capacity s) (size s)).
    - destruct (grow_at_end_ok 1 s xs Hg) as (s1 & E & Hg1 & Hc & Hct & Hdt). exists s1.
      pose proof (new_cap_bounds (capacity s) 1). msplit. split; eauto.
    - exists s. unfold capacity in *. msplit. split; auto. exists 0%N; split; lia. }
  rewrite E1. simpl. pose proof Hg1 as (Hnw & Hsz & Hlen & G). unfold capacity in Hc1.
  destruct (construct_cur_ok (size s1) dflt s1) as (s2 & E2 & F2 & W2 & G2); try lia.
  { apply (good_raw_beyond s1 xs); auto; lia. }
  rewrite E2. simpl. eexists; split; [reflexivity|]. split; [|split].
  - unfold good; simpl. rewrite app_length; simpl. rewrite (fr_size _ _ _ _ F2), (fr_len _ _ _ _ F2).
    repeat split; try congruence; try lia.
    intro j. rewrite G2, G, cget_app, Hsz. bdestr.
    + subst j. rewrite Nat.sub_diag. reflexivity.
    + rewrite !cget_ge by (simpl; lia). reflexivity.
  - rewrite app_length; simpl. eapply bal_of with (dc := (d + 1)%N) (dd := d).
    + cbn [nctor ndtor set_size]. rewrite (fr_ctor _ _ _ _ F2). lia.
    + cbn [nctor ndtor set_size]. rewrite (fr_dtor _ _ _ _ F2). lia.
    + lia.
  - unfold capacity; simpl. rewrite (fr_len _ _ _ _ F2). exact Hpb.
Qed.

Lemma cget_removelast (xs : list elt) j : cget (removelast xs) j = if j <? length xs - 1 then cget xs j else Raw.
Proof.
  rewrite removelast_firstn_len. rewrite cget_firstn. replace (Nat.pred (length xs)) with (length xs - 1) by lia. reflexivity.
Qed.

Lemma pop_back_ok xs : xs <> [] -> op_ok samecap pop_back xs (removelast xs).
Proof.
  intros Hne s Hg. pose proof Hg as (Hnw & Hsz & Hlen & G). unfold pop_back.
  assert (length xs <> 0) by (destruct xs; simpl; congruence).
  destruct (size s) as [|m] eqn:Es; [lia|].
  destruct (destroy_ok m s) as (s1 & E1 & F1 & W1 & G1); try lia.
  { apply (good_not_raw s xs); auto; lia. }
  rewrite E1; simpl. eexists; split; [reflexivity|]. split; [|split].
  - unfold good; simpl. rewrite removelast_firstn_len, firstn_length. rewrite (fr_len _ _ _ _ F1).
    repeat split; try congruence; try lia.
    intro j. rewrite G1, G, cget_firstn. bdestr. rewrite cget_ge; auto; lia.
  - rewrite removelast_firstn_len, firstn_length. eapply bal_of with (dc := 0%N) (dd := 1%N).
    + cbn [nctor ndtor set_size]. rewrite (fr_ctor _ _ _ _ F1). lia.
    + cbn [nctor ndtor set_size]. rewrite (fr_dtor _ _ _ _ F1). lia.
    + lia.
  - unfold samecap, capacity; simpl. apply (fr_len _ _ _ _ F1).
Qed.

Lemma pop_back_pre s : good s [] -> pop_back s = Err Precond.
Proof. intros (_ & Hsz & _). unfold pop_back. simpl in Hsz. rewrite Hsz. reflexivity. Qed.

(* ------------------------------------------------------------------ erase *)
Lemma erase_ok i j xs : i <= j -> j <= length xs -> op_ok samecap (erase i j) xs (firstn i xs ++ skipn j xs).
Proof.
  intros Hij Hj s Hg. pose proof Hg as (Hnw & Hsz & Hlen & G). unfold erase.
  destruct (Nat.leb_spec i j); [|lia]. destruct (Nat.leb_spec j (size s)); [|lia]. simpl.
  assert (Hl : length (firstn i xs ++ skipn j xs) = length xs - (j - i)).
  { rewrite app_length, firstn_length, skipn_length. lia. }
  destruct (Nat.eqb_spec (j - i) 0).
  { assert (i = j) by lia. subst j. rewrite firstn_skipn. exists s; repeat split; auto; try lia. }
  destruct (destruct_range_ok (j - i) i s) as (s1 & E1 & F1 & W1 & G1); try lia.
  { intros k Hk. apply (good_not_raw s xs); auto; lia. }
  rewrite E1; simpl.
  destruct (move_down_ok (size s - j) j (j - i) s1) as (s2 & E2 & F2 & W2 & G2); try lia.
  { rewrite (fr_len _ _ _ _ F1); lia. }
  { intros k Hk. rewrite G1. destruct (Nat.leb_spec i k), (Nat.ltb_spec k (i + (j - i))); simpl; try lia. apply (good_live s xs); auto; lia. }
  { intros k Hk. rewrite G1. destruct (Nat.leb_spec i k), (Nat.ltb_spec k (i + (j - i))); simpl; try lia. auto. }
  rewrite E2; simpl. eexists; split; [reflexivity|]. split; [|split].
  - unfold good; simpl. rewrite Hl, (fr_len _ _ _ _ F2), (fr_len _ _ _ _ F1).
    repeat split; try congruence; try lia.
    intro k. rewrite G2, !G1, !G, cget_app, firstn_length, Nat.min_l by lia. rewrite cget_firstn, cget_skipn.
    replace (j - (j - i)) with i by lia. pw.
    all: try (rewrite !cget_ge by lia; reflexivity).
  - rewrite Hl. eapply bal_of with (dc := N.of_nat (size s - j)) (dd := (N.of_nat (j - i) + N.of_nat (size s - j))%N).
    + cbn [nctor ndtor set_size]. rewrite (fr_ctor _ _ _ _ F2), (fr_ctor _ _ _ _ F1). lia.
    + cbn [nctor ndtor set_size]. rewrite (fr_dtor _ _ _ _ F2), (fr_dtor _ _ _ _ F1). lia.
    + lia.
  - unfold samecap, capacity; simpl. rewrite (fr_len _ _ _ _ F2), (fr_len _ _ _ _ F1). auto.
Qed.

Lemma erase_pre i j s xs : good s xs -> ~ (i <= j /\ j <= length xs) -> erase i j s = Err Precond.
Proof.
  intros (_ & Hsz & _) H. unfold erase. rewrite Hsz.
  destruct (Nat.leb_spec i j), (Nat.leb_spec j (length xs)); simpl; auto; lia.
Qed.

Lemma erase_one_ok i xs : i < length xs -> op_ok samecap (erase_one i) xs (firstn i xs ++ skipn (S i) xs).
Proof.
  intros Hi s Hg. pose proof Hg as (Hnw & Hsz & Hlen & G). unfold erase_one.
  destruct (Nat.ltb_spec i (size s)); [|lia].
  set (xs' := firstn i xs ++ skipn (S i) xs).
  assert (Hl : length xs' = length xs - 1).
  { unfold xs'. rewrite app_length, firstn_length, skipn_length. lia. }
  assert (Hx : forall k, cget xs' k = if k <? i then cget xs k else cget xs (S i + (k - i))).
  { intro k. unfold xs'. rewrite cget_app, firstn_length, Nat.min_l by lia. rewrite cget_firstn, cget_skipn. bdestr. }
  clearbody xs'.
  destruct (destroy_ok i s) as (s1 & E1 & F1 & W1 & G1); try lia.
  { apply (good_not_raw s xs); auto; lia. }
  rewrite E1; simpl.
  destruct (move_down_ok (size s - S i) (S i) 1 s1) as (s2 & E2 & F2 & W2 & G2); try lia.
  { rewrite (fr_len _ _ _ _ F1); lia. }
  { intros k Hk. rewrite G1. destruct (Nat.eqb_spec k i); try lia. apply (good_live s xs); auto; lia. }
  { intros k Hk. rewrite G1. destruct (Nat.eqb_spec k i); try lia. auto. }
  rewrite E2; simpl. eexists; split; [reflexivity|]. split; [|split].
  - unfold good; simpl. rewrite Hl, (fr_len _ _ _ _ F2), (fr_len _ _ _ _ F1).
    msplit.
    intro k. rewrite G2, !G1, !G, Hx.
    replace (S i - 1) with i by lia. pw.
    all: try (rewrite !cget_ge by lia; reflexivity).
  - rewrite Hl. eapply bal_of with (dc := N.of_nat (size s - S i)) (dd := (1 + N.of_nat (size s - S i))%N).
    + cbn [nctor ndtor set_size]. rewrite (fr_ctor _ _ _ _ F2), (fr_ctor _ _ _ _ F1). lia.
    + cbn [nctor ndtor set_size]. rewrite (fr_dtor _ _ _ _ F2), (fr_dtor _ _ _ _ F1). lia.
    + lia.
  - unfold samecap, capacity; simpl. rewrite (fr_len _ _ _ _ F2), (fr_len _ _ _ _ F1). auto.
Qed.

Lemma erase_one_pre i s xs : good s xs -> ~ i < length xs -> erase_one i s = Err Precond.
Proof. intros (_ & Hsz & _) H. unfold erase_one. rewrite Hsz. destruct (Nat.ltb_spec i (length xs)); auto; lia. Qed.

Lemma erase_fast_ok i xs : i < length xs ->
  op_ok samecap (erase_fast i) xs (firstn (length xs - 1) (upd i (nth (length xs - 1) xs dflt) xs)).
Proof.
  intros Hi s Hg. pose proof Hg as (Hnw & Hsz & Hlen & G). unfold erase_fast.
  destruct (Nat.ltb_spec i (size s)); [|lia].
  set (xs' := firstn (length xs - 1) (upd i (nth (length xs - 1) xs dflt) xs)).
  assert (Hl : length xs' = length xs - 1).
  { unfold xs'. rewrite firstn_length, length_upd. lia. }
  destruct (destroy_ok i s) as (s1 & E1 & F1 & W1 & G1); try lia.
  { apply (good_not_raw s xs); auto; lia. }
  rewrite E1; cbn [bind].
  assert (Hx : forall k, cget xs' k = if k <? length xs - 1 then (if k =? i then cget xs (length xs - 1) else cget xs k) else Raw).
  { intro k. unfold xs'. rewrite cget_firstn, cget_upd. bdestr.
    destruct (cget_lt xs (length xs - 1)) as (v & Ev & Cv); [lia|]. rewrite Cv. f_equal.
    apply nth_error_nth with (d := dflt) in Ev. auto. }
  destruct (Nat.eqb_spec (S i) (size s)).
  - eexists; split; [reflexivity|]. split; [|split].
    + unfold good; simpl. rewrite Hl, (fr_len _ _ _ _ F1). repeat split; try congruence; try lia.
      intro k. rewrite G1, G, Hx. bdestr. rewrite cget_ge; auto; lia.
    + rewrite Hl. eapply bal_of with (dc := 0%N) (dd := 1%N); cbn [nctor ndtor set_size].
      * rewrite (fr_ctor _ _ _ _ F1); lia.
      * rewrite (fr_dtor _ _ _ _ F1); lia.
      * lia.
    + unfold samecap, capacity; simpl. rewrite (fr_len _ _ _ _ F1). auto.
  - destruct (cget_lt xs (length xs - 1)) as (v & Ev & Cv); [lia|].
    destruct (move_one_ok i (size s - 1) v s1) as (s2 & E2 & F2 & W2 & G2); try lia.
    { rewrite (fr_len _ _ _ _ F1); lia. } { rewrite (fr_len _ _ _ _ F1); lia. }
    { rewrite G1, G, Hsz. bdestr. } { rewrite G1. bdestr. }
    rewrite E2; cbn [bind]. eexists; split; [reflexivity|]. split; [|split].
    + unfold good; simpl. rewrite Hl, (fr_len _ _ _ _ F2), (fr_len _ _ _ _ F1). repeat split; try congruence; try lia.
      intro k. rewrite G2, G1, G, Hx, Hsz. bdestr. rewrite cget_ge; auto; lia.
    + rewrite Hl. eapply bal_of with (dc := 1%N) (dd := 2%N); cbn [nctor ndtor set_size].
      * rewrite (fr_ctor _ _ _ _ F2), (fr_ctor _ _ _ _ F1); lia.
      * rewrite (fr_dtor _ _ _ _ F2), (fr_dtor _ _ _ _ F1); lia.
      * lia.
    + unfold samecap, capacity; simpl. rewrite (fr_len _ _ _ _ F2), (fr_len _ _ _ _ F1). auto.
Qed.

Lemma erase_fast_pre i s xs : good s xs -> ~ i < length xs -> erase_fast i s = Err Precond.
Proof. intros (_ & Hsz & _) H. unfold erase_fast. rewrite Hsz. destruct (Nat.ltb_spec i (length xs)); auto; lia. Qed.

Lemma clear_ok xs : op_ok samecap clear xs [].
Proof.
  intros s Hg. pose proof Hg as (Hnw & Hsz & Hlen & G). unfold clear.
  destruct (destruct_range_ok (size s) 0 s) as (s1 & E1 & F1 & W1 & G1); try lia.
  { intros k Hk. apply (good_not_raw s xs); auto; lia. }
  rewrite E1; simpl. eexists; split; [reflexivity|]. split; [|split].
  - unfold good; simpl. repeat split; try congruence; try lia.
    intro k. rewrite G1, G, cget_nil. bdestr. apply cget_ge; lia.
  - eapply bal_of with (dc := 0%N) (dd := N.of_nat (size s)); cbn [nctor ndtor set_size].
    + rewrite (fr_ctor _ _ _ _ F1); lia.
    + rewrite (fr_dtor _ _ _ _ F1); lia.
    + lia.
  - unfold samecap, capacity; simpl. rewrite (fr_len _ _ _ _ F1). auto.
Qed.

(* ------------------------------------------------------------------ insert *)
Definition ins_cap (len n c c' : nat) : Prop :=
  c' = if n =? 0 then c else if len + n <=? c then c else new_cap c n.

Lemma insert_list_ok p vs xs : p <= length xs ->
  op_ok (ins_cap (length xs) (length vs)) (insert_list p vs) xs (splice p p vs xs).
Proof.
  intros Hp s Hg. unfold insert_list.
  destruct (insert_gap_ok p (length vs) s xs Hg Hp) as (s1 & d & E1 & Hgap & Hct & Hdt & Hcap & _).
  rewrite E1; simpl. pose proof Hgap as (Hnw & Hsz & Hlen & G).
  destruct (construct_list_ok vs p s1) as (s2 & E2 & F2 & W2 & G2); try lia.
  { intros j Hj. rewrite G. bdestr. }
  rewrite E2; simpl. eexists; split; [reflexivity|]. split; [|split].
  - rewrite (fr_size _ _ _ _ F2), Hsz. apply (gap_filled s1 s2); auto. congruence. apply (fr_len _ _ _ _ F2).
  - rewrite splice_length by lia. eapply bal_of with (dc := (d + N.of_nat (length vs))%N) (dd := d); cbn [nctor ndtor set_size].
    + rewrite (fr_ctor _ _ _ _ F2); lia.
    + rewrite (fr_dtor _ _ _ _ F2); lia.
    + lia.
  - unfold ins_cap, capacity in *; simpl. rewrite (fr_len _ _ _ _ F2), Hcap. destruct Hg as (_ & Hs & _). rewrite Hs. reflexivity.
Qed.

Lemma insert_gap_pre p n s xs : good s xs -> ~ p <= length xs -> insert_gap_at p n s = Err Precond.
Proof. intros (_ & Hsz & _) H. unfold insert_gap_at. rewrite Hsz. destruct (Nat.ltb_spec (length xs) p); auto; lia. Qed.

Lemma insert_n_ok p n v xs : p <= length xs ->
  op_ok (ins_cap (length xs) n) (insert_n p n (Ext v)) xs (splice p p (repeat v n) xs).
Proof.
  intros Hp s Hg. unfold insert_n. simpl mkptr.
  destruct (insert_gap_ok p n s xs Hg Hp) as (s1 & d & E1 & Hgap & Hct & Hdt & Hcap & _).
  rewrite E1; simpl. pose proof Hgap as (Hnw & Hsz & Hlen & G).
  destruct (fill_range_ext_ok n v p s1) as (s2 & E2 & F2 & W2 & G2); try lia.
  { intros j Hj. rewrite G. bdestr. }
  rewrite E2; simpl. eexists; split; [reflexivity|]. split; [|split].
  - rewrite (fr_size _ _ _ _ F2), Hsz.
    replace n with (length (repeat v n)) at 1 by apply repeat_length.
    apply (gap_filled s1 s2); rewrite ?repeat_length; auto. congruence. apply (fr_len _ _ _ _ F2).
    intro j. rewrite G2, cget_repeat. bdestr.
  - rewrite splice_length, repeat_length by lia. eapply bal_of with (dc := (d + N.of_nat n)%N) (dd := d); cbn [nctor ndtor set_size].
    + rewrite (fr_ctor _ _ _ _ F2); lia.
    + rewrite (fr_dtor _ _ _ _ F2); lia.
    + lia.
  - unfold ins_cap, capacity in *; simpl. rewrite (fr_len _ _ _ _ F2), Hcap. destruct Hg as (_ & Hs & _). rewrite Hs. reflexivity.
Qed.

Lemma insert_one_ok p v xs : p <= length xs ->
  op_ok (ins_cap (length xs) 1) (insert_one p (Ext v)) xs (splice p p [v] xs).
Proof.
  intros Hp s Hg. unfold insert_one. simpl mkptr.
  destruct (insert_gap_ok p 1 s xs Hg Hp) as (s1 & d & E1 & Hgap & Hct & Hdt & Hcap & _).
  rewrite E1; simpl. pose proof Hgap as (Hnw & Hsz & Hlen & G).
  destruct (construct_cur_ok p v s1) as (s2 & E2 & F2 & W2 & G2); try lia.
  { rewrite G. bdestr. }
  rewrite E2; simpl. eexists; split; [reflexivity|]. split; [|split].
  - rewrite (fr_size _ _ _ _ F2), Hsz. replace (S (length xs)) with (length xs + length [v]) by (simpl; lia).
    apply (gap_filled s1 s2); auto. congruence. apply (fr_len _ _ _ _ F2).
    intro j. rewrite G2. simpl. bdestr. subst j. rewrite Nat.sub_diag. reflexivity.
  - rewrite splice_length by lia. simpl. eapply bal_of with (dc := (d + 1)%N) (dd := d); cbn [nctor ndtor set_size].
    + rewrite (fr_ctor _ _ _ _ F2); lia.
    + rewrite (fr_dtor _ _ _ _ F2); lia.
    + lia.
  - unfold ins_cap, capacity in *; simpl. rewrite (fr_len _ _ _ _ F2), Hcap. destruct Hg as (_ & Hs & _). rewrite Hs. reflexivity.
Qed.

(* ------------------------------------------------------------------ reserve, shrink_to_fit, resize *)
Definition rsv_cap (n c c' : nat) : Prop := c' = if n <=? c then c else n.

Lemma reserve_ok n xs : op_ok (rsv_cap n) (reserve n) xs xs.
Proof.
  intros s Hg. pose proof Hg as (Hnw & Hsz & Hlen & G). unfold reserve, rsv_cap.
  destruct (Nat.leb_spec n (capacity s)).
  - exists s. unfold bal. msplit.
  - destruct (relocate_ok n s xs Hg) as (s' & E & Hg' & Hc & _ & Hct & Hdt); [unfold capacity in *; lia|].
    exists s'. unfold bal. msplit.
Qed.

Definition shr_cap (len c c' : nat) : Prop := c' = if shrink_keeps c len then c else len.

Lemma shrink_to_fit_ok xs : op_ok (shr_cap (length xs)) shrink_to_fit xs xs.
Proof.
  intros s Hg. pose proof Hg as (Hnw & Hsz & Hlen & G). unfold shrink_to_fit, shr_cap. rewrite Hsz.
  destruct (shrink_keeps (capacity s) (length xs)).
  - exists s. unfold bal. msplit.
  - rewrite <- Hsz. destruct (relocate_ok (size s) s xs Hg) as (s' & E & Hg' & Hc & _ & Hct & Hdt); [lia|].
    exists s'. unfold bal. msplit.
Qed.

Lemma firstn_all_app (xs : list elt) n : length xs <= n -> firstn n xs = xs.
Proof. intros; apply firstn_all2; auto. Qed.

Lemma resize_ok n xs : op_ok anycap (resize dflt n) xs (firstn n xs ++ repeat dflt (n - length xs)).
Proof.
  intros s Hg. pose proof Hg as (Hnw & Hsz & Hlen & G). unfold resize.
  destruct (Nat.eqb_spec n (size s)).
  { exists s. rewrite firstn_all2 by lia. replace (n - length xs) with 0 by lia. simpl. rewrite app_nil_r.
    repeat split; auto; lia. }
  destruct (Nat.ltb_spec n (size s)).
  { replace (n - length xs) with 0 by lia. simpl. rewrite app_nil_r.
    destruct (erase_ok n (size s) xs) with (s := s) as (s' & E & Hg' & Hb & _); try lia; auto.
    rewrite Hsz in *. rewrite skipn_all, app_nil_r in *. exists s'; repeat split; auto.
    - destruct Hg' as (? & ? & ? & ?); auto. - destruct Hg' as (? & ? & ? & ?); auto.
    - destruct Hg' as (? & ? & ? & ?); auto. - destruct Hg' as (? & ? & ? & ?); auto.
    - destruct Hb as (? & ? & ?); auto. - destruct Hb as (? & ? & ?); auto. - destruct Hb as (? & ? & ?); auto. }
  destruct (reserve_ok n xs s Hg) as (s1 & E1 & Hg1 & Hb1 & Hc1). rewrite E1; simpl.
  pose proof Hg1 as (Hnw1 & Hsz1 & Hlen1 & G1).
  assert (Hcap1 : n <= length (cur s1)).
  { unfold rsv_cap, capacity in Hc1. destruct (Nat.leb_spec n (length (cur s))); lia. }
  destruct (default_range_ok dflt (n - size s1) (size s1) s1) as (s2 & E2 & F2 & W2 & G2); try lia.
  { intros j Hj. apply (good_raw_beyond s1 xs); auto; lia. }
  rewrite E2; simpl. rewrite firstn_all2 by lia.
  eexists; split; [reflexivity|]. split; [|split].
  - unfold good; simpl. rewrite app_length, repeat_length, (fr_len _ _ _ _ F2). repeat split; try congruence; try lia.
    intro j. rewrite G2, G1, cget_app, cget_repeat, Hsz1. bdestr. apply cget_ge; lia.
  - rewrite app_length, repeat_length. destruct Hb1 as (B1 & B2 & B3). unfold bal. simpl.
    rewrite (fr_ctor _ _ _ _ F2), (fr_dtor _ _ _ _ F2). lia.
  - exact I.
Qed.

Lemma resize_fill_ok n v xs : op_ok anycap (resize_fill n (Ext v)) xs (firstn n xs ++ repeat v (n - length xs)).
Proof.
  intros s Hg. pose proof Hg as (Hnw & Hsz & Hlen & G). unfold resize_fill. simpl mkptr.
  destruct (Nat.eqb_spec n (size s)).
  { exists s. rewrite firstn_all2 by lia. replace (n - length xs) with 0 by lia. simpl. rewrite app_nil_r.
    repeat split; auto; lia. }
  destruct (Nat.ltb_spec n (size s)).
  { replace (n - length xs) with 0 by lia. simpl. rewrite app_nil_r.
    destruct (erase_ok n (size s) xs) with (s := s) as (s' & E & Hg' & Hb & _); try lia; auto.
    rewrite Hsz in *. rewrite skipn_all, app_nil_r in *. exists s'; repeat split; auto.
    - destruct Hg' as (? & ? & ? & ?); auto. - destruct Hg' as (? & ? & ? & ?); auto.
    - destruct Hg' as (? & ? & ? & ?); auto. - destruct Hg' as (? & ? & ? & ?); auto.
    - destruct Hb as (? & ? & ?); auto. - destruct Hb as (? & ? & ?); auto. - destruct Hb as (? & ? & ?); auto. }
  destruct (reserve_ok n xs s Hg) as (s1 & E1 & Hg1 & Hb1 & Hc1). rewrite E1; simpl.
  pose proof Hg1 as (Hnw1 & Hsz1 & Hlen1 & G1).
  assert (Hcap1 : n <= length (cur s1)).
  { unfold rsv_cap, capacity in Hc1. destruct (Nat.leb_spec n (length (cur s))); lia. }
  destruct (fill_range_ext_ok (n - size s1) v (size s1) s1) as (s2 & E2 & F2 & W2 & G2); try lia.
  { intros j Hj. apply (good_raw_beyond s1 xs); auto; lia. }
  rewrite E2; simpl. rewrite firstn_all2 by lia.
  eexists; split; [reflexivity|]. split; [|split].
  - unfold good; simpl. rewrite app_length, repeat_length, (fr_len _ _ _ _ F2). repeat split; try congruence; try lia.
    intro j. rewrite G2, G1, cget_app, cget_repeat, Hsz1. bdestr. apply cget_ge; lia.
  - rewrite app_length, repeat_length. destruct Hb1 as (B1 & B2 & B3). unfold bal. simpl.
    rewrite (fr_ctor _ _ _ _ F2), (fr_dtor _ _ _ _ F2). lia.
  - exact I.
Qed.

(* ------------------------------------------------------------------ assign, deallocate, constructors *)
Lemma realloc_if_advisable_ok n s : good s [] ->
  exists s', realloc_if_advisable n s = Ok s' /\ good s' [] /\ nctor s' = nctor s /\ ndtor s' = ndtor s /\
             (capacity s < n -> n <= capacity s') /\ (n <= capacity s -> n <= capacity s').
Proof.
  intros Hg. pose proof Hg as (Hnw & Hsz & Hlen & G). unfold realloc_if_advisable.
  destruct (realloc_advisable (capacity s) n) eqn:E.
  - rewrite realloc_raw_ok. 2:{ intro j. rewrite G. apply cget_nil. }
    eexists; split; [reflexivity|]. unfold good, capacity; simpl. rewrite repeat_length.
    repeat split; auto; try lia. intro j. rewrite get_repeat_raw, cget_nil; auto.
  - exists s; repeat split; auto; try lia.
    unfold realloc_advisable in E. apply orb_false_elim in E. destruct E as [E _].
    destruct (Nat.ltb_spec (capacity s) n); try discriminate. lia.
Qed.

Lemma fill_from_empty n v s : good s [] -> n <= capacity s ->
  exists s', fill_range n 0 (PExt v) s = Ok s' /\ good (set_size n s') (repeat v n) /\
    nctor s' = (nctor s + N.of_nat n)%N /\ ndtor s' = ndtor s /\ capacity s' = capacity s.
Proof.
  intros Hg Hc. pose proof Hg as (Hnw & Hsz & Hlen & G). unfold capacity in *.
  destruct (fill_range_ext_ok n v 0 s) as (s2 & E2 & F2 & W2 & G2); try lia.
  { intros j Hj. rewrite G. apply cget_nil. }
  exists s2; split; auto. split; [|repeat split].
  - unfold good; simpl. rewrite repeat_length, (fr_len _ _ _ _ F2). repeat split; try congruence; try lia.
    intro j. rewrite G2, G, cget_repeat, cget_nil. bdestr.
  - rewrite (fr_ctor _ _ _ _ F2); auto.
  - rewrite (fr_dtor _ _ _ _ F2); lia.
  - apply (fr_len _ _ _ _ F2).
Qed.

Lemma list_from_empty vs s : good s [] -> length vs <= capacity s ->
  exists s', construct_list vs 0 s = Ok s' /\ good (set_size (length vs) s') vs /\
    nctor s' = (nctor s + N.of_nat (length vs))%N /\ ndtor s' = ndtor s /\ capacity s' = capacity s.
Proof.
  intros Hg Hc. pose proof Hg as (Hnw & Hsz & Hlen & G). unfold capacity in *.
  destruct (construct_list_ok vs 0 s) as (s2 & E2 & F2 & W2 & G2); try lia.
  { intros j Hj. rewrite G. apply cget_nil. }
  exists s2; split; auto. split; [|repeat split].
  - unfold good; simpl. rewrite (fr_len _ _ _ _ F2). repeat split; try congruence; try lia.
    intro j. rewrite G2, G, cget_nil. bdestr.
    + f_equal; lia. + symmetry; apply cget_ge; lia.
  - rewrite (fr_ctor _ _ _ _ F2); auto.
  - rewrite (fr_dtor _ _ _ _ F2); lia.
  - apply (fr_len _ _ _ _ F2).
Qed.

Lemma default_from_empty n s : good s [] -> n <= capacity s ->
  exists s', default_range dflt n 0 s = Ok s' /\ good (set_size n s') (repeat dflt n) /\
    nctor s' = (nctor s + N.of_nat n)%N /\ ndtor s' = ndtor s /\ capacity s' = capacity s.
Proof.
  intros Hg Hc. pose proof Hg as (Hnw & Hsz & Hlen & G). unfold capacity in *.
  destruct (default_range_ok dflt n 0 s) as (s2 & E2 & F2 & W2 & G2); try lia.
  { intros j Hj. rewrite G. apply cget_nil. }
  exists s2; split; auto. split; [|repeat split].
  - unfold good; simpl. rewrite repeat_length, (fr_len _ _ _ _ F2). repeat split; try congruence; try lia.
    intro j. rewrite G2, G, cget_repeat, cget_nil. bdestr.
  - rewrite (fr_ctor _ _ _ _ F2); auto.
  - rewrite (fr_dtor _ _ _ _ F2); lia.
  - apply (fr_len _ _ _ _ F2).
Qed.

Lemma assign_fill_op_ok n v xs : op_ok anycap (assign_fill_op n v) xs (repeat v n).
Proof.
  intros s Hg. unfold assign_fill_op.
  destruct (clear_ok xs s Hg) as (s1 & E1 & Hg1 & (B1 & B2 & B3) & _). rewrite E1; simpl.
  destruct (realloc_if_advisable_ok n s1 Hg1) as (s2 & E2 & Hg2 & Hc2 & Hd2 & Hcap & Hcap'). rewrite E2; simpl.
  destruct (fill_from_empty n v s2 Hg2) as (s3 & E3 & Hg3 & Hc3 & Hd3 & _).
  { destruct (Nat.lt_ge_cases (capacity s1) n); auto. }
  rewrite E3; simpl. eexists; split; [reflexivity|]. split; [|split]; auto.
  - rewrite repeat_length. unfold bal. simpl in *. lia.
  - exact I.
Qed.

Lemma assign_list_op_ok vs xs : op_ok anycap (assign_list_op vs) xs vs.
Proof.
  intros s Hg. unfold assign_list_op.
  destruct (clear_ok xs s Hg) as (s1 & E1 & Hg1 & (B1 & B2 & B3) & _). rewrite E1; simpl.
  destruct (realloc_if_advisable_ok (length vs) s1 Hg1) as (s2 & E2 & Hg2 & Hc2 & Hd2 & Hcap & Hcap'). rewrite E2; simpl.
  destruct (list_from_empty vs s2 Hg2) as (s3 & E3 & Hg3 & Hc3 & Hd3 & _).
  { destruct (Nat.lt_ge_cases (capacity s1) (length vs)); auto. }
  rewrite E3; simpl. eexists; split; [reflexivity|]. split; [|split]; auto.
  - unfold bal. simpl in *. lia.
  - exact I.
Qed.

Lemma deallocate_ok xs : op_ok (fun _ c' => c' = 0) deallocate xs [].
Proof.
  intros s Hg. pose proof Hg as (Hnw & Hsz & Hlen & G). unfold deallocate.
  destruct (cur s) eqn:Ec.
  - exists (set_size 0 s). split; auto. simpl in Hlen. assert (length xs = 0) by lia.
    destruct xs; [|discriminate]. unfold good, bal, capacity; simpl. rewrite Ec.
    repeat split; auto; try lia.
  - destruct (clear_ok xs s Hg) as (s1 & E1 & Hg1 & (B1 & B2 & B3) & _). rewrite E1; simpl.
    pose proof Hg1 as (Hnw1 & Hsz1 & Hlen1 & G1).
    rewrite realloc_raw_ok. 2:{ intro j. rewrite G1. apply cget_nil. }
    eexists; split; [reflexivity|]. unfold good, bal, capacity; simpl.
    repeat split; auto; try lia. intro j. rewrite get_nil, cget_nil; auto.
Qed.

Lemma ctor_n_ok n : op_ok anycap (ctor_n dflt n) [] (repeat dflt n).
Proof.
  intros s Hg. pose proof Hg as (Hnw & Hsz & Hlen & G). unfold ctor_n.
  rewrite realloc_raw_ok. 2:{ intro j. rewrite G. apply cget_nil. } simpl.
  match goal with |- context [default_range dflt n 0 ?s0] => destruct (default_from_empty n s0) as (s3 & E3 & Hg3 & Hc3 & Hd3 & _) end.
  { unfold good; simpl. repeat split; auto; try lia. intro j. rewrite get_repeat_raw, cget_nil; auto. }
  { unfold capacity; simpl. rewrite repeat_length; lia. }
  rewrite E3; simpl. eexists; split; [reflexivity|]. split; [|split]; auto.
  - rewrite repeat_length. unfold bal. simpl in *. lia.
  - exact I.
Qed.

Lemma ctor_fill_ok n v : op_ok anycap (ctor_fill n v) [] (repeat v n).
Proof.
  intros s Hg. pose proof Hg as (Hnw & Hsz & Hlen & G). unfold ctor_fill.
  rewrite realloc_raw_ok. 2:{ intro j. simpl. rewrite G. apply cget_nil. } simpl.
  match goal with |- context [fill_range n 0 (PExt v) ?s0] =>
    destruct (fill_from_empty n v (set_size 0 s0)) as (s3 & E3 & Hg3 & Hc3 & Hd3 & _) end.
  { unfold good; simpl. repeat split; auto; try lia. intro j. rewrite get_repeat_raw, cget_nil; auto. }
  { unfold capacity; simpl. rewrite repeat_length; lia. }
  (* fill_range does not look at size *)
  assert (Hsz_irrel : forall k i p (a b : st), cur a = cur b -> nw a = nw b -> gen a = gen b -> nctor a = nctor b -> ndtor a = ndtor b ->
            match fill_range k i p a, fill_range k i p b with
            | Ok a', Ok b' => cur a' = cur b' /\ nw a' = nw b' /\ gen a' = gen b' /\ nctor a' = nctor b' /\ ndtor a' = ndtor b' /\ size a' = size a /\ size b' = size b
            | Err e, Err e' => e = e'
            | _, _ => False end).
  { induction k; intros i p a b H1 H2 H3 H4 H5; simpl; auto. repeat split; auto.
    assert (read_ptr p a = read_ptr p b) as ->.
    { destruct p; simpl; auto. rewrite H3. unfold read. rewrite H1. reflexivity. }
    destruct (read_ptr p b); simpl; auto.
    unfold construct_cur. rewrite H1. destruct (nth_error (cur b) i) as [[| |]|]; simpl; auto.
    specialize (IHk (S i) p (mkst (upd i (Live a0) (cur b)) (nw a) (size a) (gen a) (N.succ (nctor a)) (ndtor a))
                            (mkst (upd i (Live a0) (cur b)) (nw b) (size b) (gen b) (N.succ (nctor b)) (ndtor b))).
    simpl in IHk. rewrite H2, H3, H4, H5 in *. apply IHk; auto. }
  match goal with |- context [fill_range n 0 (PExt v) ?s0] => specialize (Hsz_irrel n 0 (PExt v) s0 (set_size 0 s0)) end.
  simpl in Hsz_irrel. rewrite E3 in Hsz_irrel.
  match goal with |- context [fill_range n 0 (PExt v) ?s0] => destruct (fill_range n 0 (PExt v) s0) as [s4|] eqn:E4 end.
  2:{ exfalso. apply Hsz_irrel; auto. }
  destruct Hsz_irrel as (A1 & A2 & A3 & A4 & A5 & A6 & A7); auto.
  eexists; split; [reflexivity|]. destruct Hg3 as (Q1 & Q2 & Q3 & Q4). simpl in *.
  split; [|split].
  - unfold good. rewrite A1, A2, A6. simpl. repeat split; auto.
  - rewrite repeat_length. unfold bal. simpl in *. rewrite A4, A5. lia.
  - exact I.
Qed.

Lemma ctor_list_ok vs : op_ok anycap (ctor_list vs) [] vs.
Proof.
  intros s Hg. pose proof Hg as (Hnw & Hsz & Hlen & G). unfold ctor_list.
  rewrite realloc_raw_ok. 2:{ intro j. simpl. rewrite G. apply cget_nil. } simpl.
  match goal with |- context [construct_list vs 0 ?s0] =>
    destruct (construct_list_ok vs 0 s0) as (s2 & E2 & F2 & W2 & G2) end; simpl; try (rewrite repeat_length; lia).
  { intros j Hj. apply get_repeat_raw. }
  simpl in W2, G2. exists s2; split; auto. split; [|split].
  - unfold good. rewrite (fr_size _ _ _ _ F2), (fr_len _ _ _ _ F2). simpl. rewrite repeat_length.
    msplit.
    intro j. rewrite G2, get_repeat_raw. pw.
  - unfold bal. rewrite (fr_ctor _ _ _ _ F2), (fr_dtor _ _ _ _ F2). simpl. lia.
  - exact I.
Qed.

Lemma op_ok_seq C f g xs ys zs : op_ok C f xs ys -> op_ok anycap g ys zs ->
  op_ok anycap (fun s => s1 <- f s ;; g s1) xs zs.
Proof.
  intros Hf Hg s Hs. destruct (Hf s Hs) as (s1 & E1 & G1 & (A1 & A2 & A3) & _). rewrite E1; simpl.
  destruct (Hg s1 G1) as (s2 & E2 & G2 & (B1 & B2 & B3) & _). exists s2. unfold bal, anycap. msplit.
Qed.

(* ------------------------------------------------------------------ element assignment and views *)
Lemma set_elt_ok i v xs : i < length xs -> op_ok samecap (set_elt i v) xs (upd i v xs).
Proof.
  intros Hi s Hg. pose proof Hg as (Hnw & Hsz & Hlen & G). unfold set_elt.
  destruct (Nat.ltb_spec i (size s)); [|lia].
  destruct (assign_at_ok i v s) as (s1 & E1 & F1 & W1 & G1); try lia.
  { apply (good_live s xs); auto. }
  exists s1; split; auto. split; [|split].
  - unfold good. rewrite length_upd, (fr_size _ _ _ _ F1), (fr_len _ _ _ _ F1). repeat split; auto; try congruence.
    intro j. rewrite G1, G, cget_upd. bdestr.
  - rewrite length_upd. unfold bal. rewrite (fr_ctor _ _ _ _ F1), (fr_dtor _ _ _ _ F1). lia.
  - unfold samecap, capacity. apply (fr_len _ _ _ _ F1).
Qed.

Lemma set_elt_pre i v s xs : good s xs -> ~ i < length xs -> set_elt i v s = Err Precond.
Proof. intros (_ & Hsz & _) H. unfold set_elt. rewrite Hsz. destruct (Nat.ltb_spec i (length xs)); auto; lia. Qed.

Lemma resolve_view_bounds path : forall base len b l, resolve_view path base len = Some (b, l) -> base <= b /\ b + l <= base + len.
Proof.
  induction path as [|[b0 l0] t]; intros base len b l H; simpl in H.
  - inversion H; subst; lia.
  - destruct (Nat.leb_spec (b0 + l0) len); try discriminate. apply IHt in H. lia.
Qed.

Lemma view_fill_ok path v xs b l : resolve_view path 0 (length xs) = Some (b, l) ->
  op_ok samecap (view_fill path v) xs (splice b (b + l) (repeat v l) xs).
Proof.
  intros Hv s Hg. pose proof Hg as (Hnw & Hsz & Hlen & G). unfold view_fill. rewrite Hsz, Hv.
  apply resolve_view_bounds in Hv.
  destruct (assign_fill_ok l v b s) as (s1 & E1 & F1 & W1 & G1); try lia.
  { intros j Hj. apply (good_live s xs); auto; lia. }
  exists s1; split; auto.
  assert (Hl : length (splice b (b + l) (repeat v l) xs) = length xs) by (rewrite splice_length, repeat_length; lia).
  split; [|split].
  - unfold good. rewrite Hl, (fr_size _ _ _ _ F1), (fr_len _ _ _ _ F1). repeat split; auto; try congruence.
    intro j. rewrite G1, G, cget_splice, repeat_length, cget_repeat by lia. bdestr. f_equal; lia.
  - rewrite Hl. unfold bal. rewrite (fr_ctor _ _ _ _ F1), (fr_dtor _ _ _ _ F1). lia.
  - unfold samecap, capacity. apply (fr_len _ _ _ _ F1).
Qed.

Lemma view_assign_ok path vs xs b : resolve_view path 0 (length xs) = Some (b, length vs) ->
  op_ok samecap (view_assign path vs) xs (splice b (b + length vs) vs xs).
Proof.
  intros Hv s Hg. pose proof Hg as (Hnw & Hsz & Hlen & G). unfold view_assign. rewrite Hsz, Hv, Nat.eqb_refl.
  apply resolve_view_bounds in Hv.
  destruct (assign_list_ok vs b s) as (s1 & E1 & F1 & W1 & G1); try lia.
  { intros j Hj. apply (good_live s xs); auto; lia. }
  exists s1; split; auto.
  assert (Hl : length (splice b (b + length vs) vs xs) = length xs) by (rewrite splice_length; lia).
  split; [|split].
  - unfold good. rewrite Hl, (fr_size _ _ _ _ F1), (fr_len _ _ _ _ F1). repeat split; auto; try congruence.
    intro j. rewrite G1, G, cget_splice by lia. bdestr. f_equal; lia.
  - rewrite Hl. unfold bal. rewrite (fr_ctor _ _ _ _ F1), (fr_dtor _ _ _ _ F1). lia.
  - unfold samecap, capacity. apply (fr_len _ _ _ _ F1).
Qed.

Lemma view_pre_fill path v s xs : good s xs -> resolve_view path 0 (length xs) = None -> view_fill path v s = Err Precond.
Proof. intros (_ & Hsz & _) H. unfold view_fill. rewrite Hsz, H. reflexivity. Qed.
Lemma view_pre_assign path vs s xs : good s xs ->
  match resolve_view path 0 (length xs) with Some (b, l) => length vs <> l | None => True end -> view_assign path vs s = Err Precond.
Proof.
  intros (_ & Hsz & _) H. unfold view_assign. rewrite Hsz. destruct (resolve_view path 0 (length xs)) as [[b l]|]; auto.
  destruct (Nat.eqb_spec (length vs) l); auto; contradiction.
Qed.

Lemma read_all_ok s xs : good s xs -> read_range (size s) 0 s = Ok xs.
Proof.
  intros (Hnw & Hsz & Hlen & G). rewrite (read_range_ok (size s) 0 s xs); auto; try lia.
  simpl. rewrite Hsz. rewrite firstn_all. reflexivity.
Qed.
End Ops.
