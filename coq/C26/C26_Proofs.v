(** C26 Array_: the property theorems about the slot-level model (C26_Model.v).
    Every lemma of this file is restated in Props/Properties_C26.v. *)
From Coq Require Import List Arith Bool NArith Lia.
Import ListNotations.
Require Import C26_Model C26_Lemmas C26_Ops C26_Guard.

Section World.
Context {elt : Type}.
Variable dflt : elt.
Notation slot := (slot elt).
Notation st := (st elt).
Notation arr := (arr elt).
Notation world := (world elt).
Notation op := (op elt).

Definition good_arr (a : arr) (xs : list elt) : Prop :=
  asize a = length xs /\ length xs <= length (abuf a) /\ forall j, get (abuf a) j = cget xs j.

Fixpoint total (ls : list (list elt)) : nat := match ls with [] => 0 | xs :: t => length xs + total t end.

(** world invariant: every array is well formed for its abstract contents, and
    constructor calls = destructor calls + number of elements alive *)
Definition Inv (w : world) (ls : list (list elt)) : Prop :=
  Forall2 good_arr (arrs w) ls /\ wctor w = (wdtor w + N.of_nat (total ls))%N.

Lemma good_load a w xs : good_arr a xs -> good (load a w) xs.
Proof. intros (A & B & C). unfold good, load; simpl. auto. Qed.

Lemma Forall2_nth {A B} (R : A -> B -> Prop) l l' k y : Forall2 R l l' -> nth_error l' k = Some y ->
  exists x, nth_error l k = Some x /\ R x y.
Proof.
  intros H; revert k; induction H; intros [|k] E; simpl in *; try discriminate.
  - inversion E; subst; eauto.
  - eauto.
Qed.
Lemma Forall2_nth_none {A B} (R : A -> B -> Prop) l l' k : Forall2 R l l' -> nth_error l' k = None -> nth_error l k = None.
Proof.
  intros H; revert k; induction H; intros [|k] E; simpl in *; try discriminate; auto.
Qed.
Lemma Forall2_len {A B} (R : A -> B -> Prop) l l' : Forall2 R l l' -> length l = length l'.
Proof. induction 1; simpl; auto. Qed.
Lemma Forall2_upd {A B} (R : A -> B -> Prop) l l' k x y : Forall2 R l l' -> R x y -> Forall2 R (upd k x l) (upd k y l').
Proof.
  intros H; revert k; induction H; intros [|k] Hr; simpl; constructor; auto.
Qed.
Lemma nth_error_upd {A} (l : list A) k j x : nth_error (upd k x l) j = if (j =? k) && (k <? length l) then Some x else nth_error l j.
Proof.
  revert k j; induction l; intros [|k] [|j]; simpl; auto.
  - rewrite andb_false_r; auto.
  - rewrite IHl. change (S k <? S (length l)) with (k <? length l). reflexivity.
Qed.
Lemma total_upd ls k xs ys : nth_error ls k = Some xs -> total (upd k ys ls) + length xs = total ls + length ys.
Proof.
  revert k; induction ls; intros [|k] E; simpl in *; try discriminate.
  - inversion E; subst. lia.
  - specialize (IHls k E). lia.
Qed.
Lemma upd_upd_same {A} (l : list A) k a b : upd k a (upd k b l) = upd k a l.
Proof. revert k; induction l; intros [|k]; simpl; auto. f_equal; auto. Qed.
Lemma upd_comm {A} (l : list A) k j a b : k <> j -> upd k a (upd j b l) = upd j b (upd k a l).
Proof. revert k j; induction l; intros [|k] [|j] H; simpl; auto; try congruence. f_equal; auto. Qed.

Lemma op_ok_any C f (xs xs' : list elt) : op_ok C f xs xs' -> op_ok anycap f xs xs'.
Proof. intros H s Hs. destruct (H s Hs) as (s' & E & G & B & _). exists s'; unfold anycap; auto. Qed.

(** running a one-array operation inside the world *)
Lemma on_arr_ok f k (w : world) ls xs xs' : Inv w ls -> nth_error ls k = Some xs -> op_ok anycap f xs xs' ->
  exists w', on_arr k f w = Ok w' /\ Inv w' (upd k xs' ls).
Proof.
  intros (HF & HB) Hk Hop. destruct (Forall2_nth _ _ _ _ _ HF Hk) as (a & Ea & Ga).
  unfold on_arr. rewrite Ea.
  destruct (Hop (load a w) (good_load a w xs Ga)) as (s' & E & (G1 & G2 & G3 & G4) & (B1 & B2 & B3) & _).
  rewrite E; simpl. eexists; split; [reflexivity|]. split; simpl.
  - apply Forall2_upd; auto. unfold good_arr; simpl; auto.
  - pose proof (total_upd ls k xs xs' Hk). simpl in B1. lia.
Qed.

Lemma on_arr_none f k (w : world) ls : Inv w ls -> nth_error ls k = None -> on_arr k f w = Err Precond.
Proof. intros (HF & _) Hk. unfold on_arr. rewrite (Forall2_nth_none _ _ _ _ HF Hk). reflexivity. Qed.

Lemma on_arr_pre f k (w : world) ls xs : Inv w ls -> nth_error ls k = Some xs ->
  (forall s, good s xs -> f s = Err Precond) -> on_arr k f w = Err Precond.
Proof.
  intros (HF & _) Hk Hf. destruct (Forall2_nth _ _ _ _ _ HF Hk) as (a & Ea & Ga).
  unfold on_arr. rewrite Ea, (Hf _ (good_load a w xs Ga)). reflexivity.
Qed.

(** the shape every one-array case of [step] has *)
Lemma single_ok f k (r : list elt -> option (list elt)) (w : world) ls : Inv w ls ->
  (forall xs, nth_error ls k = Some xs ->
     match r xs with Some xs' => op_ok anycap f xs xs' | None => forall s, good s xs -> f s = Err Precond end) ->
  match (match nth_error ls k with Some xs => match r xs with Some ys => Some (upd k ys ls) | None => None end | None => None end) with
  | Some ls' => exists w', on_arr k f w = Ok w' /\ Inv w' ls'
  | None => on_arr k f w = Err Precond
  end.
Proof.
  intros HI H. destruct (nth_error ls k) as [xs|] eqn:Ek.
  - specialize (H xs eq_refl). destruct (r xs) as [xs'|].
    + eapply on_arr_ok; eauto.
    + eapply on_arr_pre; eauto.
  - eapply on_arr_none; eauto.
Qed.

Lemma contents_ok j (w : world) ls ys : Inv w ls -> nth_error ls j = Some ys -> contents j w = Ok ys.
Proof.
  intros (HF & _) Hj. destruct (Forall2_nth _ _ _ _ _ HF Hj) as (a & Ea & Ga).
  unfold contents. rewrite Ea. apply (read_all_ok (load a w) ys). apply good_load; auto.
Qed.
Lemma contents_none j (w : world) ls : Inv w ls -> nth_error ls j = None -> contents j w = Err Precond.
Proof. intros (HF & _) Hk. unfold contents. rewrite (Forall2_nth_none _ _ _ _ HF Hk). reflexivity. Qed.

Lemma swap_ok k j (w : world) ls xs ys : Inv w ls -> nth_error ls k = Some xs -> nth_error ls j = Some ys ->
  exists w', swap_arrs k j w = Ok w' /\ Inv w' (upd k ys (upd j xs ls)).
Proof.
  intros (HF & HB) Hk Hj.
  destruct (Forall2_nth _ _ _ _ _ HF Hk) as (a & Ea & Ga). destruct (Forall2_nth _ _ _ _ _ HF Hj) as (b & Eb & Gb).
  unfold swap_arrs. rewrite Ea, Eb. eexists; split; [reflexivity|]. split; simpl.
  - apply Forall2_upd; auto. apply Forall2_upd; auto.
  - assert (Hk' : nth_error (upd j xs ls) k = Some xs).
    { rewrite nth_error_upd. destruct (Nat.eqb_spec k j); simpl; auto. destruct (Nat.ltb_spec j (length ls)); auto. }
    pose proof (total_upd ls j ys xs Hj). pose proof (total_upd (upd j xs ls) k xs ys Hk'). lia.
Qed.
Lemma swap_none k j (w : world) ls : Inv w ls -> nth_error ls k = None \/ nth_error ls j = None -> swap_arrs k j w = Err Precond.
Proof.
  intros (HF & _) [H|H]; unfold swap_arrs; rewrite (Forall2_nth_none _ _ _ _ HF H); auto.
  destruct (nth_error (arrs w) k); auto.
Qed.

Lemma ext_push xs (v : elt) : vget xs (Ext v) = Some v. Proof. reflexivity. Qed.

Ltac pre_tac := intros s0 Hs0;
  first [ eapply erase_pre; eauto; lia | eapply erase_one_pre; eauto; lia | eapply erase_fast_pre; eauto; lia
        | eapply set_elt_pre; eauto; lia ].

(** one step: the model succeeds exactly when std::vector's precondition holds, and then refines it *)
Lemma step_ok guard (w : world) ls (o : op) : Inv w ls -> ext_op o = true ->
  match sstep dflt ls o with
  | Some ls' => exists w', step dflt guard w o = Ok w' /\ Inv w' ls'
  | None => step dflt guard w o = Err Precond
  end.
Proof.
  intros HI He. destruct o; try (destruct v; [|discriminate He]); unfold sstep, step; cbn [op_arr].
  - (* PushBack *) apply single_ok; auto. intros xs _. simpl. eapply op_ok_eq; [apply push_back_g_ext|]. eapply op_ok_any, push_back_ok.
  - (* PushBackMove *) apply single_ok; auto. intros xs _. simpl. eapply op_ok_any, push_back_ok.
  - (* PushBackDefault *) apply single_ok; auto. intros xs _. simpl. eapply op_ok_any, push_back_default_ok.
  - (* PopBack *) apply single_ok; auto. intros xs _. simpl. destruct xs.
    + intros s Hs. apply pop_back_pre; auto.
    + eapply op_ok_any, pop_back_ok. discriminate.
  - (* Erase *) apply single_ok; auto. intros xs _. simpl.
    destruct (Nat.leb_spec i j), (Nat.leb_spec j (length xs)); simpl.
    + eapply op_ok_any, erase_ok; auto.
    + intros s Hs. eapply erase_pre; eauto. lia.
    + intros s Hs. eapply erase_pre; eauto. lia.
    + intros s Hs. eapply erase_pre; eauto. lia.
  - (* EraseOne *) apply single_ok; auto. intros xs _. simpl. destruct (Nat.ltb_spec i (length xs)).
    + eapply op_ok_any, erase_one_ok; auto.
    + intros s Hs. eapply erase_one_pre; eauto. lia.
  - (* EraseFast *) apply single_ok; auto. intros xs _. simpl. destruct (Nat.ltb_spec i (length xs)).
    + eapply op_ok_any, erase_fast_ok; auto.
    + intros s Hs. eapply erase_fast_pre; eauto. lia.
  - (* Clear *) apply single_ok; auto. intros xs _. simpl. eapply op_ok_any, clear_ok.
  - (* InsertN *) apply single_ok; auto. intros xs _. simpl. destruct (Nat.leb_spec p (length xs)).
    + eapply op_ok_eq; [apply insert_n_g_ext|]. eapply op_ok_any, insert_n_ok; auto.
    + intros s Hs. rewrite insert_n_g_ext. unfold insert_n. rewrite (insert_gap_pre p n s xs); auto. lia.
  - (* Insert *) apply single_ok; auto. intros xs _. simpl. destruct (Nat.leb_spec p (length xs)).
    + eapply op_ok_eq; [apply insert_one_g_ext|]. eapply op_ok_any, insert_one_ok; auto.
    + intros s Hs. rewrite insert_one_g_ext. unfold insert_one. rewrite (insert_gap_pre p 1 s xs); auto. lia.
  - (* Emplace *) apply single_ok; auto. intros xs _. simpl. destruct (Nat.leb_spec p (length xs)).
    + eapply op_ok_any, insert_one_ok; auto.
    + intros s Hs. unfold insert_one. rewrite (insert_gap_pre p 1 s xs); auto. lia.
  - (* InsertList *) apply single_ok; auto. intros xs _. simpl. destruct (Nat.leb_spec p (length xs)).
    + eapply op_ok_any, insert_list_ok; auto.
    + intros s Hs. unfold insert_list. rewrite (insert_gap_pre p (length vs) s xs); auto. lia.
  - (* Resize *) apply single_ok; auto. intros xs _. simpl. eapply op_ok_any, resize_ok.
  - (* ResizeFill *) apply single_ok; auto. intros xs _. simpl. eapply op_ok_eq; [apply resize_fill_g_ext|]. eapply op_ok_any, resize_fill_ok.
  - (* Reserve *) apply single_ok; auto. intros xs _. simpl. eapply op_ok_any, reserve_ok.
  - (* ShrinkToFit *) apply single_ok; auto. intros xs _. simpl. eapply op_ok_any, shrink_to_fit_ok.
  - (* AssignFill *) apply single_ok; auto. intros xs _. simpl. eapply op_ok_any, assign_fill_op_ok.
  - (* AssignList *) apply single_ok; auto. intros xs _. simpl. eapply op_ok_any, assign_list_op_ok.
  - (* Deallocate *) apply single_ok; auto. intros xs _. simpl. eapply op_ok_any, deallocate_ok.
  - (* CtorN *) apply single_ok; auto. intros xs _. simpl. eapply op_ok_seq. apply deallocate_ok. eapply op_ok_any, ctor_n_ok.
  - (* CtorFill *) apply single_ok; auto. intros xs _. simpl. eapply op_ok_seq. apply deallocate_ok. eapply op_ok_any, ctor_fill_ok.
  - (* CtorList *) apply single_ok; auto. intros xs _. simpl. eapply op_ok_seq. apply deallocate_ok. eapply op_ok_any, ctor_list_ok.
  - (* CtorCopy *) destruct (Nat.eqb_spec k j); auto.
    destruct (nth_error ls k) as [xs|] eqn:Ek; destruct (nth_error ls j) as [ys|] eqn:Ej.
    + rewrite (contents_ok j w ls ys); auto. simpl. eapply on_arr_ok; eauto.
      eapply op_ok_seq. apply deallocate_ok. eapply op_ok_any, ctor_list_ok.
    + rewrite (contents_none j w ls); auto.
    + rewrite (contents_ok j w ls ys); auto. simpl. eapply on_arr_none; eauto.
    + rewrite (contents_none j w ls); auto.
  - (* CtorMove *) destruct (Nat.eqb_spec k j); auto.
    destruct (nth_error ls k) as [xs|] eqn:Ek; destruct (nth_error ls j) as [ys|] eqn:Ej.
    + destruct (on_arr_ok deallocate k w ls xs [] HI Ek) as (w1 & E1 & I1). { eapply op_ok_any, deallocate_ok. }
      rewrite E1; simpl.
      assert (Hk1 : nth_error (upd k [] ls) k = Some []).
      { rewrite nth_error_upd, Nat.eqb_refl. simpl. assert (k < length ls) by (apply nth_error_Some; congruence).
        destruct (Nat.ltb_spec k (length ls)); auto; lia. }
      assert (Hj1 : nth_error (upd k [] ls) j = Some ys).
      { rewrite nth_error_upd. destruct (Nat.eqb_spec j k); try congruence. simpl; auto. }
      destruct (swap_ok k j w1 _ _ _ I1 Hk1 Hj1) as (w2 & E2 & I2). exists w2; split; auto.
      rewrite (upd_comm ls j k [] []) in I2 by auto. rewrite upd_upd_same in I2. exact I2.
    + destruct (on_arr_ok deallocate k w ls xs [] HI Ek) as (w1 & E1 & I1). { eapply op_ok_any, deallocate_ok. }
      rewrite E1; simpl. eapply swap_none; eauto. right. rewrite nth_error_upd. destruct (Nat.eqb_spec j k); try congruence. simpl; auto.
    + rewrite (on_arr_none deallocate k w ls); auto.
    + rewrite (on_arr_none deallocate k w ls); auto.
  - (* CopyAssign *)
    destruct (nth_error ls k) as [xs|] eqn:Ek; destruct (nth_error ls j) as [ys|] eqn:Ej.
    + destruct (Nat.eqb_spec k j).
      * subst j. destruct HI as (HF & HB). destruct (Forall2_nth _ _ _ _ _ HF Ek) as (a & Ea & Ga). rewrite Ea.
        exists w; split; auto. split; auto.
        { assert (upd k ys ls = ls) as ->; auto. rewrite Ek in Ej; inversion Ej; subst.
          clear - Ek. revert k Ek; induction ls; intros [|k] E; simpl in *; try discriminate; auto.
          - inversion E; subst; auto. - f_equal; auto. }
        { assert (upd k ys ls = ls) as ->; auto. rewrite Ek in Ej; inversion Ej; subst.
          clear - Ek. revert k Ek; induction ls; intros [|k] E; simpl in *; try discriminate; auto.
          - inversion E; subst; auto. - f_equal; auto. }
      * rewrite (contents_ok j w ls ys); auto. simpl. eapply on_arr_ok; eauto. eapply op_ok_any, assign_list_op_ok.
    + destruct (Nat.eqb_spec k j); [congruence|]. rewrite (contents_none j w ls); auto.
    + destruct (Nat.eqb_spec k j); [congruence|]. rewrite (contents_ok j w ls ys); auto. simpl. eapply on_arr_none; eauto.
    + destruct (Nat.eqb_spec k j).
      * destruct HI as (HF & _). rewrite (Forall2_nth_none _ _ _ _ HF Ek). auto.
      * rewrite (contents_none j w ls); auto.
  - (* MoveAssign *)
    destruct (nth_error ls k) as [xs|] eqn:Ek; destruct (nth_error ls j) as [ys|] eqn:Ej.
    + eapply swap_ok; eauto. + eapply swap_none; eauto. + eapply swap_none; eauto. + eapply swap_none; eauto.
  - (* Swap *)
    destruct (nth_error ls k) as [xs|] eqn:Ek; destruct (nth_error ls j) as [ys|] eqn:Ej.
    + eapply swap_ok; eauto. + eapply swap_none; eauto. + eapply swap_none; eauto. + eapply swap_none; eauto.
  - (* SetElt *) apply single_ok; auto. intros xs _. simpl. destruct (Nat.ltb_spec i (length xs)).
    + eapply op_ok_any, set_elt_ok; auto.
    + intros s Hs. eapply set_elt_pre; eauto. lia.
  - (* ViewFill *) apply single_ok; auto. intros xs _. simpl.
    destruct (resolve_view path 0 (length xs)) as [[b l]|] eqn:Ev.
    + eapply op_ok_any, view_fill_ok; eauto.
    + intros s Hs. eapply view_pre_fill; eauto.
  - (* ViewAssign *) apply single_ok; auto. intros xs _. simpl.
    destruct (resolve_view path 0 (length xs)) as [[b l]|] eqn:Ev.
    + destruct (Nat.eqb_spec (length vs) l).
      * subst l. eapply op_ok_any, view_assign_ok; eauto.
      * intros s Hs. eapply view_pre_assign; eauto. rewrite Ev; auto.
    + intros s Hs. eapply view_pre_assign; eauto. rewrite Ev; auto.
Qed.

Lemma Inv_init k : Inv (init_world k) (repeat [] k).
Proof.
  unfold Inv, init_world; simpl. split.
  - induction k; simpl; constructor; auto. unfold good_arr, empty_arr; simpl. repeat split; auto.
    intro j. rewrite get_nil, cget_nil; auto.
  - induction k; simpl; auto.
Qed.

(** what may be passed: outside values always; own-element references when Array.h has the repair ([guard = true]) *)
Definition allowed (guard : bool) (o : op) : bool := guard || ext_op o.

Lemma with_tmp_pre (f : vsrc elt -> st -> res st) xs i x (s : st) : good s xs -> nth_error xs i = Some x ->
  (forall s0, good s0 xs -> f (Ext x) s0 = Err Precond) -> with_tmp i f s = Err Precond.
Proof.
  intros Hs Hi Hf. unfold with_tmp. rewrite (good_read s xs i x Hs Hi). simpl. rewrite Hf; auto.
Qed.

(** one step of the repaired Array.h with any value argument *)
Lemma step_ok_guarded (w : world) ls (o : op) : Inv w ls ->
  match sstep dflt ls o with
  | Some ls' => exists w', step dflt true w o = Ok w' /\ Inv w' ls'
  | None => step dflt true w o = Err Precond
  end.
Proof.
  intros HI. destruct (ext_op o) eqn:He; [apply step_ok; auto|].
  destruct o; try discriminate He; destruct v; try discriminate He; unfold sstep, step; cbn [op_arr]; apply single_ok; auto;
    intros xs _; simpl.
  - (* PushBack (Own i) *) destruct (nth_error xs i) as [x|] eqn:Ei.
    + apply push_back_g_own_ok; auto.
    + intros s Hs. unfold push_back_g. rewrite (own_ok_false s xs i Hs Ei); auto.
  - (* InsertN (Own i) *) destruct (Nat.leb_spec p (length xs)); destruct (nth_error xs i) as [x|] eqn:Ei.
    + apply insert_n_g_own_ok; auto.
    + intros s Hs. unfold insert_n_g. rewrite (own_ok_false s xs i Hs Ei); auto.
    + intros s Hs. unfold insert_n_g. rewrite (own_ok_true s xs i x Hs Ei). destruct (Nat.eqb_spec n 0).
      * unfold insert_n. rewrite (insert_gap_pre p n s xs); auto. lia.
      * eapply with_tmp_pre; eauto. intros s0 Hs0. unfold insert_n. rewrite (insert_gap_pre p n s0 xs); auto. lia.
    + intros s Hs. unfold insert_n_g. rewrite (own_ok_false s xs i Hs Ei); auto.
  - (* Insert (Own i) *) destruct (Nat.leb_spec p (length xs)); destruct (nth_error xs i) as [x|] eqn:Ei.
    + apply insert_one_g_own_ok; auto.
    + intros s Hs. unfold insert_one_g. rewrite (own_ok_false s xs i Hs Ei); auto.
    + intros s Hs. unfold insert_one_g. rewrite (own_ok_true s xs i x Hs Ei).
      eapply with_tmp_pre; eauto. intros s0 Hs0. unfold insert_one. rewrite (insert_gap_pre p 1 s0 xs); auto. lia.
    + intros s Hs. unfold insert_one_g. rewrite (own_ok_false s xs i Hs Ei); auto.
  - (* ResizeFill (Own i) *) destruct (nth_error xs i) as [x|] eqn:Ei.
    + apply resize_fill_g_own_ok; auto.
    + intros s Hs. unfold resize_fill_g. rewrite (own_ok_false s xs i Hs Ei); auto.
Qed.

Lemma step_ok_allowed guard (w : world) ls (o : op) : Inv w ls -> allowed guard o = true ->
  match sstep dflt ls o with
  | Some ls' => exists w', step dflt guard w o = Ok w' /\ Inv w' ls'
  | None => step dflt guard w o = Err Precond
  end.
Proof.
  intros HI Ha. destruct guard; simpl in Ha.
  - apply step_ok_guarded; auto.
  - apply step_ok; auto.
Qed.

Lemma run_ok guard ops : forall (w : world) ls, Inv w ls -> forallb (allowed guard) ops = true ->
  match srun dflt ls ops with
  | Some ls' => exists w', run dflt guard w ops = Ok w' /\ Inv w' ls'
  | None => run dflt guard w ops = Err Precond
  end.
Proof.
  induction ops as [|o ops]; intros w ls HI He; simpl in *.
  - eauto.
  - apply andb_true_iff in He. destruct He as [He1 He2].
    pose proof (step_ok_allowed guard w ls o HI He1) as H. destruct (sstep dflt ls o) as [l1|].
    + destruct H as (w1 & E1 & I1). rewrite E1; simpl. apply IHops; auto.
    + rewrite H; reflexivity.
Qed.

(* ------------------------------------------------------------------ what the invariant means in terms of the model alone *)
Definition payload (sl : slot) : option elt := match sl with Live v => Some v | _ => None end.

Lemma observe_good a xs : good_arr a xs -> observe a = map Some xs.
Proof.
  intros (A & B & G). unfold observe. rewrite A. clear A.
  revert xs B G. generalize (abuf a). intros l xs; revert l; induction xs; intros l B G; simpl; auto.
  destruct l; simpl in B; [lia|]. simpl. f_equal.
  - specialize (G 0). unfold get, cget in G; simpl in G. subst; auto.
  - apply IHxs. lia. intro j. apply (G (S j)).
Qed.

Lemma live_count_good a xs : good_arr a xs -> live_count a = length xs.
Proof.
  intros (A & B & G). unfold live_count. clear A.
  revert xs B G. generalize (abuf a). induction l; intros xs B G; simpl.
  - destruct xs; simpl in *; auto; lia.
  - pose proof (G 0) as G0. unfold get in G0; simpl in G0. destruct xs as [|x xs].
    + rewrite cget_nil in G0. subst a0. apply (IHl []); simpl; try lia. intro j. specialize (G (S j)). rewrite cget_nil in *. auto.
    + unfold cget in G0; simpl in G0; subst a0. simpl. f_equal. apply IHl. simpl in B; lia. intro j. apply (G (S j)).
Qed.

Lemma observe_world (w : world) ls : Inv w ls -> map observe (arrs w) = map (map Some) ls.
Proof.
  intros (HF & _). induction HF; simpl; auto. f_equal; auto. apply observe_good; auto.
Qed.

(** an array's slots obey the discipline: exactly the first size() slots hold live objects, the rest of the
    block is raw storage, and capacity >= size *)
Definition disciplined (a : arr) : Prop :=
  asize a <= length (abuf a) /\
  forall j, (j < asize a -> exists v, nth_error (abuf a) j = Some (Live v)) /\
            (asize a <= j -> j < length (abuf a) -> nth_error (abuf a) j = Some Raw).

Lemma disciplined_good a xs : good_arr a xs -> disciplined a.
Proof.
  intros (A & B & G). unfold disciplined. rewrite A. split; auto. intro j. split; intros.
  - rewrite nth_error_get. destruct (Nat.ltb_spec j (length (abuf a))); try lia.
    rewrite G. destruct (cget_lt xs j) as (v & _ & E); auto. rewrite E; eauto.
  - rewrite nth_error_get. destruct (Nat.ltb_spec j (length (abuf a))); try lia.
    rewrite G, cget_ge; auto.
Qed.

Definition sizes (w : world) : nat := fold_right (fun a n => asize a + n) 0 (arrs w).

Lemma sizes_total (w : world) ls : Forall2 good_arr (arrs w) ls -> sizes w = total ls.
Proof. unfold sizes. intros HF; induction HF; simpl; auto. destruct H as (A & _). lia. Qed.

(* ================================================================== THE THEOREMS ================================= *)

(** refines_list: from K empty arrays, every operation sequence whose value arguments are outside objects (and, with the
    isOwnElement repair, [guard = true], ANY value arguments including references to own elements) that respects
    std::vector's preconditions runs without fault and leaves exactly the std::vector contents (values and order) *)
Lemma refines_list guard k ops ls : forallb (allowed guard) ops = true -> srun dflt (repeat [] k) ops = Some ls ->
  exists w, run dflt guard (init_world k) ops = Ok w /\ map observe (arrs w) = map (map Some) ls.
Proof.
  intros He Hs. pose proof (run_ok guard ops (init_world k) _ (Inv_init k) He) as H. rewrite Hs in H.
  destruct H as (w & E & I). exists w; split; auto. apply observe_world; auto.
Qed.

(** ... and the model stops with [Precond] exactly when an operation's precondition fails *)
Lemma precondition_only guard k ops : forallb (allowed guard) ops = true -> srun dflt (repeat [] k) ops = None ->
  run dflt guard (init_world k) ops = Err Precond.
Proof.
  intros He Hs. pose proof (run_ok guard ops (init_world k) _ (Inv_init k) He) as H. rewrite Hs in H. auto.
Qed.

(** slot_discipline: no operation sequence with outside values ever constructs on a live slot, reads/moves/assigns a
    raw or moved-from slot, destroys raw storage, frees a block holding objects or reads a freed block (the only
    possible error is a violated precondition), and afterwards every array has live objects exactly in [0,size),
    raw storage elsewhere, capacity >= size *)
Lemma slot_discipline guard k ops : forallb (allowed guard) ops = true ->
  match run dflt guard (init_world k) ops with
  | Ok w => Forall disciplined (arrs w)
  | Err f => f = Precond
  end.
Proof.
  intros He. pose proof (run_ok guard ops (init_world k) _ (Inv_init k) He) as H.
  destruct (srun dflt (repeat [] k) ops) as [ls|].
  - destruct H as (w & E & (HF & _)). rewrite E. clear E. induction HF; constructor; auto. eapply disciplined_good; eauto.
  - rewrite H; auto.
Qed.

(** ctor_dtor_balanced: constructor calls - destructor calls = number of elements alive = sum of sizes, and the
    live slots of each block are exactly its size() elements: with [slot_discipline] (no construction on a live
    slot, no destruction of a raw one) every element is constructed once and destroyed once *)
Lemma ctor_dtor_balanced guard k ops w : forallb (allowed guard) ops = true -> run dflt guard (init_world k) ops = Ok w ->
  wctor w = (wdtor w + N.of_nat (sizes w))%N /\ Forall (fun a => live_count a = asize a) (arrs w).
Proof.
  intros He E. pose proof (run_ok guard ops (init_world k) _ (Inv_init k) He) as H.
  destruct (srun dflt (repeat [] k) ops) as [ls|]; [|congruence].
  destruct H as (w' & E' & (HF & HB)). rewrite E in E'; inversion E'; subst w'. split.
  - rewrite (sizes_total w ls); auto.
  - clear - HF. induction HF; constructor; auto. destruct H as (A & B & C). rewrite A. apply live_count_good. split; auto.
Qed.

(** after destroying every array of the world reached, nothing is alive: all constructed elements have been destroyed *)
Lemma dealloc_all guard n : forall m (w : world) ls, Inv w ls -> m + n = length ls -> (forall i, i < m -> nth_error ls i = Some []) ->
  exists w' ls', run dflt guard w (map (@Deallocate elt) (seq m n)) = Ok w' /\ Inv w' ls' /\ length ls' = length ls /\
                 forall i, i < length ls -> nth_error ls' i = Some [].
Proof.
  induction n; intros m w ls HI Hm Hpre; simpl.
  - exists w, ls. split; auto. split; auto. split; auto. intros i Hi; apply Hpre; lia.
  - destruct (nth_error ls m) as [xs|] eqn:Em. 2:{ apply nth_error_None in Em; lia. }
    destruct (on_arr_ok deallocate m w ls xs [] HI Em) as (w1 & E1 & I1). { eapply op_ok_any, deallocate_ok. }
    rewrite E1; simpl.
    destruct (IHn (S m) w1 (upd m [] ls) I1) as (w2 & ls2 & E2 & I2 & L2 & P2).
    + rewrite length_upd; lia.
    + intros i Hi. rewrite nth_error_upd. destruct (Nat.eqb_spec i m); simpl.
      * destruct (Nat.ltb_spec m (length ls)); auto; lia.
      * apply Hpre; lia.
    + rewrite length_upd in *. exists w2, ls2. split; auto.
Qed.

Lemma all_destroyed guard k ops w : forallb (allowed guard) ops = true -> run dflt guard (init_world k) ops = Ok w ->
  exists w', run dflt guard w (map (@Deallocate elt) (seq 0 (length (arrs w)))) = Ok w' /\ wctor w' = wdtor w' /\
             Forall (fun a => asize a = 0) (arrs w').
Proof.
  intros He E. pose proof (run_ok guard ops (init_world k) _ (Inv_init k) He) as H.
  destruct (srun dflt (repeat [] k) ops) as [ls|]; [|congruence].
  destruct H as (w0 & E0 & I0). rewrite E in E0; inversion E0; subst w0.
  assert (L : length (arrs w) = length ls). { destruct I0 as (HF & _). eapply Forall2_len; eauto. }
  rewrite L. destruct (dealloc_all guard (length ls) 0 w ls I0) as (w' & ls' & E' & (HF' & HB') & L' & P'); auto.
  { intros; lia. }
  exists w'; split; auto.
  assert (Hall : forall xs, In xs ls' -> xs = []).
  { intros xs Hin. apply In_nth_error in Hin. destruct Hin as (i & Ei).
    assert (i < length ls') by (apply nth_error_Some; congruence). rewrite P' in Ei by lia. congruence. }
  split.
  - assert (total ls' = 0); [|lia]. clear - Hall. induction ls'; simpl; auto.
    rewrite (Hall a) by (left; auto). simpl. apply IHls'. intros; apply Hall; right; auto.
  - clear - HF' Hall. induction HF'; constructor.
    + destruct H as (A & B & C). rewrite (Hall y) in A by (left; auto). auto.
    + apply IHHF'. intros; apply Hall; right; auto.
Qed.
End World.

(* ================================================================== capacity, views, witnesses ==================== *)
Section Cap.
Context {elt : Type}.
Variable dflt : elt.

(** growth policy of calcNewCapacityForGrowthBy: enough room, at least doubling, at least 4, and nothing else *)
Lemma growth_policy_bounds cap n :
  cap + n <= new_cap cap n /\ 2 * cap <= new_cap cap n /\ 4 <= new_cap cap n /\
  (new_cap cap n = cap + n \/ new_cap cap n = 2 * cap \/ new_cap cap n = 4).
Proof. apply new_cap_bounds. Qed.

(** push_back reallocates only when the array is full, then to the policy's capacity *)
Lemma push_back_capacity (s : st elt) xs v : good s xs ->
  exists s', push_back (Ext v) s = Ok s' /\ good s' (xs ++ [v]) /\
             capacity s' = if capacity s =? length xs then new_cap (capacity s) 1 else capacity s.
Proof. intros Hg. destruct (push_back_ok v xs s Hg) as (s' & E & G & _ & C). exists s'; auto. Qed.

(** insert(p, n, value): in place when size()+n <= capacity(), otherwise one reallocation to the policy's capacity *)
Lemma insert_capacity (s : st elt) xs p n v : good s xs -> p <= length xs ->
  exists s', insert_n p n (Ext v) s = Ok s' /\ good s' (splice p p (repeat v n) xs) /\
             capacity s' = if n =? 0 then capacity s else if length xs + n <=? capacity s then capacity s else new_cap (capacity s) n.
Proof. intros Hg Hp. destruct (insert_n_ok p n v xs Hp s Hg) as (s' & E & G & _ & C). exists s'; auto. Qed.

(** reserve never shrinks and allocates exactly what is asked for; shrink_to_fit keeps up to 25% slop *)
Lemma reserve_capacity (s : st elt) xs n : good s xs ->
  exists s', reserve n s = Ok s' /\ good s' xs /\ capacity s' = if n <=? capacity s then capacity s else n.
Proof. intros Hg. destruct (reserve_ok n xs s Hg) as (s' & E & G & _ & C). exists s'; auto. Qed.
Lemma shrink_capacity (s : st elt) xs : good s xs ->
  exists s', shrink_to_fit s = Ok s' /\ good s' xs /\
             capacity s' = if capacity s - Nat.div2 (Nat.div2 (length xs)) <=? length xs then capacity s else length xs.
Proof. intros Hg. destruct (shrink_to_fit_ok xs s Hg) as (s' & E & G & _ & C). exists s'; auto. Qed.

(** view_aliases_subrange: filling / assigning through a (nested) ArrayView_ changes exactly the elements of its
    sub-range [b, b+l) of the owner, calls no constructor or destructor, and leaves size and capacity alone;
    the sub-range of a nested view lies inside its parent's *)
Lemma view_aliases_subrange (s : st elt) xs path v b l : good s xs -> resolve_view path 0 (length xs) = Some (b, l) ->
  exists s', view_fill path v s = Ok s' /\ good s' (firstn b xs ++ repeat v l ++ skipn (b + l) xs) /\
             capacity s' = capacity s /\ b + l <= length xs.
Proof.
  intros Hg Hv. destruct (view_fill_ok path v xs b l Hv s Hg) as (s' & E & G & _ & C). exists s'.
  split; auto. split; auto. split; auto. apply resolve_view_bounds in Hv. lia.
Qed.
Lemma view_assign_aliases_subrange (s : st elt) xs path vs b : good s xs -> resolve_view path 0 (length xs) = Some (b, length vs) ->
  exists s', view_assign path vs s = Ok s' /\ good s' (firstn b xs ++ vs ++ skipn (b + length vs) xs) /\ capacity s' = capacity s.
Proof. intros Hg Hv. destruct (view_assign_ok path vs xs b Hv s Hg) as (s' & E & G & _ & C). exists s'; auto. Qed.
Lemma view_nested_inside path : forall base len b l, resolve_view path base len = Some (b, l) -> base <= b /\ b + l <= base + len.
Proof. apply resolve_view_bounds. Qed.
End Cap.

(* ------------------------------------------------------------------ value arguments that refer to the array itself *)
Definition four : list (op nat) := [PushBack 0 (Ext 1); PushBack 0 (Ext 2); PushBack 0 (Ext 3); PushBack 0 (Ext 4)].

(** slot_discipline_refuted: a.push_back(a[0]) on a full array (std::vector must support it): growAtEnd frees the old
    block, then copyConstruct reads the value through the reference into it *)
Lemma slot_discipline_refuted :
  exists ops : list (op nat), srun 0 [[]] ops = Some [[1; 2; 3; 4; 1]] /\ run 0 false (init_world 1) ops = Err ReadFreed.
Proof. exists (four ++ [PushBack 0 (Own 0)]). split; vm_compute; reflexivity. Qed.

(** the same for insert(p, value) / insert(p, n, value) / resize(n, value) when they reallocate *)
Lemma slot_discipline_refuted_insert_realloc :
  exists ops : list (op nat), srun 0 [[]] ops = Some [[1; 1; 2; 3; 4]] /\ run 0 false (init_world 1) ops = Err ReadFreed.
Proof. exists (four ++ [Insert 0 0 (Own 0)]). split; vm_compute; reflexivity. Qed.
Lemma slot_discipline_refuted_insert_n_realloc :
  exists ops : list (op nat), srun 0 [[]] ops = Some [[1; 2; 2; 2; 3; 4]] /\ run 0 false (init_world 1) ops = Err ReadFreed.
Proof. exists (four ++ [InsertN 0 1 2 (Own 1)]). split; vm_compute; reflexivity. Qed.
Lemma slot_discipline_refuted_resize :
  exists ops : list (op nat), srun 0 [[]] ops = Some [[1; 2; 3; 4; 3; 3]] /\ run 0 false (init_world 1) ops = Err ReadFreed.
Proof. exists (four ++ [ResizeFill 0 6 (Own 2)]). split; vm_compute; reflexivity. Qed.

(** in place (no reallocation): b.insert(b.begin(), b[0]) reads the slot moveElementsUp has just vacated *)
Lemma slot_discipline_refuted_inplace :
  exists ops : list (op nat), srun 0 [[]] ops = Some [[1; 1; 2; 3; 4]] /\ run 0 false (init_world 1) ops = Err ReadNotLive.
Proof. exists (four ++ [Reserve 0 16; Insert 0 0 (Own 0)]). split; vm_compute; reflexivity. Qed.

(** refines_list_refuted: b.insert(b.begin(), b[2]) with spare capacity runs without fault but inserts the old b[1]
    (the element moveElementsUp has shifted into slot 2), where std::vector inserts b[2] *)
Lemma refines_list_refuted :
  exists (ops : list (op nat)) w, srun 0 [[]] ops = Some [[3; 1; 2; 3; 4]] /\ run 0 false (init_world 1) ops = Ok w /\
    map observe (arrs w) = [[Some 2; Some 1; Some 2; Some 3; Some 4]].
Proof. exists (four ++ [Reserve 0 16; Insert 0 0 (Own 2)]). eexists. split; [|split]; vm_compute; reflexivity. Qed.

(** own-element arguments are harmless when nothing is moved before the value is read: push_back without
    reallocation, and insert in place at a position after the referenced element *)
Lemma own_argument_fine_without_moves :
  exists (ops : list (op nat)) w, run 0 false (init_world 1) ops = Ok w /\
    map observe (arrs w) = map (map Some) [[1; 2; 3; 2; 4; 1]] /\ srun 0 [[]] ops = Some [[1; 2; 3; 2; 4; 1]].
Proof. exists (four ++ [Reserve 0 16; PushBack 0 (Own 0); Insert 0 3 (Own 1)]). eexists. split; [|split]; vm_compute; reflexivity. Qed.

(** with the repair every one of the refuting sequences above has the std::vector result *)
Lemma witnesses_repaired :
  map (fun ops => match run 0 true (init_world 1) ops with Ok w => map observe (arrs w) | Err _ => [] end)
      [four ++ [PushBack 0 (Own 0)]; four ++ [Insert 0 0 (Own 0)]; four ++ [InsertN 0 1 2 (Own 1)];
       four ++ [ResizeFill 0 6 (Own 2)]; four ++ [Reserve 0 16; Insert 0 0 (Own 0)]; four ++ [Reserve 0 16; Insert 0 0 (Own 2)]] =
  map (fun l => [map Some l]) [[1; 2; 3; 4; 1]; [1; 1; 2; 3; 4]; [1; 2; 2; 2; 3; 4]; [1; 2; 3; 4; 3; 3]; [1; 1; 2; 3; 4]; [3; 1; 2; 3; 4]].
Proof. vm_compute. reflexivity. Qed.

(** non-vacuity of the main theorems: a sequence over three arrays that uses growth, in-place and reallocating inserts,
    erase, eraseFast, copies, moves, views; all hypotheses hold and the result is not trivial *)
Definition demo : list (op nat) :=
  [PushBack 0 (Ext 1); PushBack 0 (Ext 2); PushBackMove 0 3; PushBackDefault 0; PushBack 0 (Ext 5);
   Insert 0 1 (Ext 9); InsertN 0 2 3 (Ext 7); Erase 0 1 3; EraseFast 0 0; CtorCopy 1 0; Swap 0 1; Resize 1 12;
   ShrinkToFit 0; ViewFill 1 [(2, 8); (1, 3)] 55; InsertList 0 1 [70; 71; 72]; CopyAssign 2 0; MoveAssign 2 1;
   EraseOne 2 3; AssignFill 1 2 8; SetElt 1 0 6; ViewAssign 0 [(1, 2)] [40; 41]; PopBack 0; Reserve 2 40; CtorMove 1 2].
Lemma demo_hypotheses : forallb (allowed false) demo = true /\
  srun 0 (repeat [] 3) demo = Some [[5; 40; 41; 72; 7; 7; 2; 3]; [5; 7; 7; 55; 55; 0; 0; 0; 0; 0; 0]; []].
Proof. split; vm_compute; reflexivity. Qed.
