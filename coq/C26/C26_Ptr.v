(** C26 pointer wrappers: executable models (no proofs here).

    CloneOnWritePtr (CloneOnWritePtr.h): a heap of objects, each with its payload and its shared use count
    (the [long* count] cell), variables holding an object id or null.  Every member function is written as the
    header performs it: reset = decr, delete at zero; shareWith = incr; detach = (use_count>1 => decr, clone,
    new count 1); upd = detach; release = detach, delete count, return object; copy assignment guarded by
    [src.p != p], move assignment by [&src != this].
    ClonePtr (ClonePtr.h) is the same machine with [deep = true]: every copy clones at once, counts stay 1.
    ReferencePtr / ResetOnCopy<scalar> / ReinitOnCopy<scalar>: one-line models of their copy/move members. *)
From Coq Require Import List Arith Bool NArith.
Import ListNotations.
Require Import C26_Model.

Section Ptr.
Context {elt : Type}.

(** heap cell: payload and use count; None = deleted *)
Record pst := mkpst {
  objs : list (option (elt * nat));
  vars : list (option nat);      (* p : object id or null *)
  nclone : N;                    (* calls of T::clone() *)
  ndel : N                       (* objects deleted by the wrappers *)
}.

Definition pinit (k : nat) : pst := mkpst [] (repeat None k) 0%N 0%N.

Inductive pop :=
| PNew (p : nat) (v : elt)        (* p = new T(v)  /  p.reset(new T(v)) *)
| PAssignVal (p : nat) (v : elt)  (* p = T(v): reset(cloneOrNull(&x)) *)
| PReset (p : nat)                (* p.reset() *)
| PCopyAssign (p q : nat)         (* p = q *)
| PCopyCtor (p q : nat)           (* p.~P(); new(&p) P(q) *)
| PMoveAssign (p q : nat)         (* p = std::move(q) *)
| PMoveCtor (p q : nat)           (* p.~P(); new(&p) P(std::move(q)) *)
| PWrite (p : nat) (v : elt)      (* p.upd()->val = v   (p->val = v on a non-const handle) *)
| PDetach (p : nat)               (* p.detach()  (CloneOnWritePtr only; no-op for ClonePtr) *)
| PRelease (p : nat)              (* delete p.release() *)
| PSwap (p q : nat).

Definition getv (s : pst) (p : nat) : option (option nat) := nth_error (vars s) p.
Definition setv (p : nat) (x : option nat) (s : pst) : pst := mkpst (objs s) (upd p x (vars s)) (nclone s) (ndel s).
Definition cell (s : pst) (i : nat) : option (elt * nat) := match nth_error (objs s) i with Some c => c | None => None end.
Definition setcell (i : nat) (c : option (elt * nat)) (s : pst) : pst := mkpst (upd i c (objs s)) (vars s) (nclone s) (ndel s).
(** new T(v): a fresh cell with use count 1 *)
Definition alloc (v : elt) (s : pst) : nat * pst := (length (objs s), mkpst (objs s ++ [Some (v, 1)]) (vars s) (nclone s) (ndel s)).

(** reset(): if (empty()) return; if (decr()==0) {delete p; delete count;} init(); *)
Definition preset (p : nat) (s : pst) : option pst :=
  match getv s p with
  | None => None
  | Some None => Some s
  | Some (Some i) =>
      match cell s i with
      | Some (v, S O) => Some (setv p None (mkpst (upd i None (objs s)) (vars s) (nclone s) (N.succ (ndel s))))
      | Some (v, S c) => Some (setv p None (setcell i (Some (v, c)) s))
      | _ => None                                  (* dangling handle / zero count: never reached (theorem) *)
      end
  end.

(** shareWith(src) on an empty handle p: p=src.p; count=src.count; incr() *)
Definition pshare (p q : nat) (s : pst) : option pst :=
  match getv s q with
  | None => None
  | Some None => Some s
  | Some (Some i) =>
      match cell s i with
      | Some (v, c) => Some (setv p (Some i) (setcell i (Some (v, S c)) s))
      | None => None
      end
  end.

(** p = clone of q's object (ClonePtr copy) on an empty handle p *)
Definition pclone_from (p q : nat) (s : pst) : option pst :=
  match getv s q with
  | None => None
  | Some None => Some s
  | Some (Some i) =>
      match cell s i with
      | Some (v, c) => let '(j, s1) := alloc v s in
                       Some (setv p (Some j) (mkpst (objs s1) (vars s1) (N.succ (nclone s1)) (ndel s1)))
      | None => None
      end
  end.

(** detach(): if (use_count() > 1) { decr(); p=p->clone(); count=new long(1); } *)
Definition pdetach (p : nat) (s : pst) : option pst :=
  match getv s p with
  | None => None
  | Some None => Some s
  | Some (Some i) =>
      match cell s i with
      | Some (v, S (S c)) =>
          let s0 := setcell i (Some (v, S c)) s in
          let '(j, s1) := alloc v s0 in
          Some (setv p (Some j) (mkpst (objs s1) (vars s1) (N.succ (nclone s1)) (ndel s1)))
      | Some _ => Some s
      | None => None
      end
  end.

Definition obind {A B} (o : option A) (f : A -> option B) : option B := match o with Some a => f a | None => None end.

(** one member-function call; [deep] selects ClonePtr (true) or CloneOnWritePtr (false) *)
Definition pstep (deep : bool) (s : pst) (o : pop) : option pst :=
  match o with
  | PNew p v =>
      obind (preset p s) (fun s1 => let '(j, s2) := alloc v s1 in Some (setv p (Some j) s2))
  | PAssignVal p v =>    (* the argument object is cloned (one clone() call), then the old object is released *)
      obind (preset p s) (fun s1 => let '(j, s2) := alloc v s1 in
                                    Some (setv p (Some j) (mkpst (objs s2) (vars s2) (N.succ (nclone s2)) (ndel s2))))
  | PReset p => preset p s
  | PCopyAssign p q =>
      match getv s p, getv s q with
      | Some a, Some b =>
          if deep then
            (* ClonePtr: if (&src != this) reset(cloneOrNull(src.p)) -- clone first, then delete the old object *)
            if p =? q then Some s else
            match b with
            | None => preset p s
            | Some i => match cell s i with
                        | Some (v, c) =>
                            let '(j, s1) := alloc v s in
                            let s2 := mkpst (objs s1) (vars s1) (N.succ (nclone s1)) (ndel s1) in
                            obind (preset p s2) (fun s3 => Some (setv p (Some j) s3))
                        | None => None
                        end
            end
          else
            (* CloneOnWritePtr: if (src.p != p) { reset(); shareWith(src); } *)
            match a, b with
            | None, None => Some s
            | Some i, Some j => if i =? j then Some s else obind (preset p s) (pshare p q)
            | _, _ => obind (preset p s) (pshare p q)
            end
      | _, _ => None
      end
  | PCopyCtor p q =>
      if p =? q then None else
      obind (preset p s) (fun s1 => if deep then pclone_from p q s1 else pshare p q s1)
  | PMoveAssign p q =>
      match getv s p, getv s q with
      | Some a, Some b =>
          if p =? q then Some s else
          obind (preset p s) (fun s1 => obind (getv s1 q) (fun b1 => Some (setv q None (setv p b1 s1))))
      | _, _ => None
      end
  | PMoveCtor p q =>
      if p =? q then None else
      obind (preset p s) (fun s1 => obind (getv s1 q) (fun b1 => Some (setv q None (setv p b1 s1))))
  | PWrite p v =>
      obind (if deep then (match getv s p with Some _ => Some s | None => None end) else pdetach p s) (fun s1 =>
        match getv s1 p with
        | Some (Some i) => match cell s1 i with Some (_, c) => Some (setcell i (Some (v, c)) s1) | None => None end
        | _ => None                  (* writing through a null handle: precondition *)
        end)
  | PDetach p => if deep then (match getv s p with Some _ => Some s | None => None end) else pdetach p s
  | PRelease p =>
      (* T* x = p.release(); delete x;   release = detach(); save p; delete count; init() *)
      obind (if deep then (match getv s p with Some _ => Some s | None => None end) else pdetach p s) (fun s1 =>
        match getv s1 p with
        | Some (Some i) => Some (setv p None (mkpst (upd i None (objs s1)) (vars s1) (nclone s1) (N.succ (ndel s1))))
        | Some None => Some s1
        | None => None
        end)
  | PSwap p q =>
      match getv s p, getv s q with
      | Some a, Some b => Some (setv p b (setv q a s))
      | _, _ => None
      end
  end.

Fixpoint prun (deep : bool) (s : pst) (ops : list pop) : option pst :=
  match ops with [] => Some s | o :: t => obind (pstep deep s o) (fun s1 => prun deep s1 t) end.

(** observation of variable p: None = null, Some (value, use count, object id) *)
Definition pobserve (s : pst) (p : nat) : option (elt * nat * nat) :=
  match getv s p with
  | Some (Some i) => match cell s i with Some (v, c) => Some (v, c, i) | None => None end
  | _ => None
  end.
Definition pvalue (s : pst) (p : nat) : option elt :=
  match pobserve s p with Some (v, _, _) => Some v | None => None end.
Definition plive (s : pst) : nat := length (filter (fun c => match c with Some _ => true | None => false end) (objs s)).

(** specification: every handle is an independent optional value *)
Definition pspec_step (vs : list (option elt)) (o : pop) : option (list (option elt)) :=
  match o with
  | PNew p v | PAssignVal p v => match nth_error vs p with Some _ => Some (upd p (Some v) vs) | None => None end
  | PReset p | PRelease p => match nth_error vs p with Some _ => Some (upd p None vs) | None => None end
  | PCopyAssign p q => match nth_error vs p, nth_error vs q with Some _, Some b => Some (upd p b vs) | _, _ => None end
  | PCopyCtor p q => if p =? q then None else
                     match nth_error vs p, nth_error vs q with Some _, Some b => Some (upd p b vs) | _, _ => None end
  | PMoveAssign p q => match nth_error vs p, nth_error vs q with
                       | Some _, Some b => if p =? q then Some vs else Some (upd q None (upd p b vs)) | _, _ => None end
  | PMoveCtor p q => if p =? q then None else
                     match nth_error vs p, nth_error vs q with Some _, Some b => Some (upd q None (upd p b vs)) | _, _ => None end
  | PWrite p v => match nth_error vs p with Some (Some _) => Some (upd p (Some v) vs) | _ => None end
  | PDetach p => match nth_error vs p with Some _ => Some vs | None => None end
  | PSwap p q => match nth_error vs p, nth_error vs q with Some a, Some b => Some (upd p b (upd q a vs)) | _, _ => None end
  end.

Fixpoint pspec_run (vs : list (option elt)) (ops : list pop) : option (list (option elt)) :=
  match ops with [] => Some vs | o :: t => obind (pspec_step vs o) (fun v1 => pspec_run v1 t) end.

(* ------------------------------------------------------------------ ReferencePtr, ResetOnCopy, ReinitOnCopy *)
Inductive wkind := WRef | WReset | WReinit.
Inductive wop :=
| WCtor (p : nat) (v : elt)    (* p.~W(); new(&p) W(v) *)
| WSet (p : nat) (v : elt)     (* p = v  (assignment from a value of the wrapped type / from a target) *)
| WCopyCtor (p q : nat)
| WCopyAssign (p q : nat)
| WMoveCtor (p q : nat)
| WMoveAssign (p q : nat).

(** a wrapper variable: current value and (ReinitOnCopy only) the stored reinitialization value.
    For ReferencePtr the "value" is the target, [nul] = nullptr; for ResetOnCopy [nul] = T{} *)
Definition wstep (k : wkind) (nul : elt) (s : list (elt * elt)) (o : wop) : option (list (elt * elt)) :=
  match o with
  | WCtor p v => match nth_error s p with Some _ => Some (upd p (v, v) s) | None => None end
  | WSet p v => match nth_error s p with Some (_, r) => Some (upd p (v, r) s) | None => None end
  | WCopyCtor p q =>
      if p =? q then None else
      match nth_error s p, nth_error s q with
      | Some _, Some (vq, rq) =>
          Some (upd p (match k with WRef => (nul, nul) | WReset => (nul, nul) | WReinit => (rq, rq) end) s)
      | _, _ => None
      end
  | WCopyAssign p q =>
      match nth_error s p, nth_error s q with
      | Some (vp, rp), Some _ =>
          Some (match k with
                | WRef => if p =? q then s else upd p (nul, rp) s      (* if (&src != this) reset() *)
                | WReset => upd p (nul, rp) s                          (* m_value = T{} *)
                | WReinit => upd p (rp, rp) s                          (* m_value = m_reinitValue *)
                end)
      | _, _ => None
      end
  | WMoveCtor p q =>
      if p =? q then None else
      match nth_error s p, nth_error s q with
      | Some _, Some (vq, rq) =>
          Some (match k with
                | WRef => upd q (nul, nul) (upd p (vq, vq) s)          (* p(src.release()) *)
                | WReset => upd p (vq, vq) s                           (* scalar move = copy of the value *)
                | WReinit => upd p (vq, rq) s
                end)
      | _, _ => None
      end
  | WMoveAssign p q =>
      match nth_error s p, nth_error s q with
      | Some (vp, rp), Some (vq, rq) =>
          Some (match k with
                | WRef => if p =? q then s else upd q (nul, rq) (upd p (vq, rp) s)
                | WReset => upd p (vq, rp) s
                | WReinit => upd p (vq, rp) s
                end)
      | _, _ => None
      end
  end.
End Ptr.
Arguments pst : clear implicits.
Arguments pop : clear implicits.
Arguments wop : clear implicits.
