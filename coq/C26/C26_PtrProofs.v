(** C26 pointer wrappers: proofs about the models of C26_Ptr.v. *)
From Coq Require Import List Arith Bool NArith Lia.
Import ListNotations.
Require Import C26_Model C26_Ptr.

Section PP.
Context {elt : Type}.
Notation pst := (pst elt).
Notation pop := (pop elt).

Definition hit (i : nat) (x : option nat) : nat := match x with Some j => if j =? i then 1 else 0 | None => 0 end.
Fixpoint occ (i : nat) (l : list (option nat)) : nat := match l with [] => 0 | x :: t => hit i x + occ i t end.

(** reference counts are exact: a live object's use count is the number of handles holding it (and is >= 1);
    a deleted or never allocated id is held by no handle *)
Definition RC (s : pst) : Prop :=
  forall i, match cell s i with Some (v, c) => c = occ i (vars s) /\ 1 <= c | None => occ i (vars s) = 0 end.

Definition val (s : pst) (x : option nat) : option elt :=
  match x with Some i => match cell s i with Some (v, _) => Some v | None => None end | None => None end.
(** the value each handle denotes *)
Definition absv (s : pst) : list (option elt) := map (val s) (vars s).

Lemma length_upd' {A} i (x : A) l : length (upd i x l) = length l.
Proof. revert i; induction l; intros [|i]; simpl; auto. Qed.
Lemma nth_upd {A} (l : list A) k j x : nth_error (upd k x l) j = if (j =? k) && (k <? length l) then Some x else nth_error l j.
Proof.
  revert k j; induction l; intros [|k] [|j]; simpl; auto.
  - rewrite andb_false_r; auto.
  - rewrite IHl. change (S k <? S (length l)) with (k <? length l). reflexivity.
Qed.
Lemma upd_same {A} (l : list A) p x : nth_error l p = Some x -> upd p x l = l.
Proof. revert p; induction l; intros [|p] H; simpl in *; try discriminate; auto. congruence. f_equal; auto. Qed.
Lemma map_upd {A B} (f : A -> B) l p x : map f (upd p x l) = upd p (f x) (map f l).
Proof. revert p; induction l; intros [|p]; simpl; auto. f_equal; auto. Qed.
Lemma upd_map_ext {A B} (f g : A -> B) l p y :
  (forall k x, k <> p -> nth_error l k = Some x -> f x = g x) -> upd p y (map f l) = upd p y (map g l).
Proof.
  revert p; induction l; intros [|p] H; simpl; auto.
  - f_equal. clear IHl. induction l; simpl; auto. f_equal. apply (H 1); auto. apply IHl. intros k x Hk E. apply (H (S k)); auto.
    destruct k; simpl in *; auto. lia.
  - f_equal. apply (H 0); auto. apply IHl. intros k x Hk E. apply (H (S k)); auto.
Qed.
Lemma map_ext_nth {A B} (f g : A -> B) l : (forall k x, nth_error l k = Some x -> f x = g x) -> map f l = map g l.
Proof. induction l; intros H; simpl; auto. f_equal. apply (H 0); auto. apply IHl. intros k x E; apply (H (S k)); auto. Qed.

Lemma occ_upd i l p a x : nth_error l p = Some a -> occ i (upd p x l) + hit i a = occ i l + hit i x.
Proof.
  revert p; induction l; intros [|p] H; simpl in *; try discriminate.
  - inversion H; subst. lia.
  - specialize (IHl p H). lia.
Qed.
Lemma occ_zero i l k j : occ i l = 0 -> nth_error l k = Some (Some j) -> j <> i.
Proof.
  revert k; induction l; intros [|k] H E; simpl in *; try discriminate.
  - inversion E; subst. simpl in H. destruct (Nat.eqb_spec j i); lia.
  - apply (IHl k); auto. lia.
Qed.
Lemma occ_ge_hit i l p a : nth_error l p = Some a -> hit i a <= occ i l.
Proof. revert p; induction l; intros [|p] H; simpl in *; try discriminate. inversion H; subst; lia. specialize (IHl p H); lia. Qed.
Lemma hit_same i : hit i (Some i) = 1. Proof. simpl. rewrite Nat.eqb_refl; auto. Qed.
Lemma hit_other i j : j <> i -> hit i (Some j) = 0. Proof. intros; simpl. destruct (Nat.eqb_spec j i); auto; lia. Qed.

Lemma cell_lt (s : pst) i c : cell s i = Some c -> i < length (objs s).
Proof. unfold cell. intros H. destruct (nth_error (objs s) i) eqn:E; try discriminate. apply nth_error_Some; congruence. Qed.
Lemma cell_upd (s : pst) i c k vs nc nd : i < length (objs s) ->
  cell (mkpst (upd i c (objs s)) vs nc nd) k = if k =? i then c else cell s k.
Proof.
  intros Hi. unfold cell; simpl. rewrite nth_upd. destruct (Nat.eqb_spec k i); simpl; auto.
  destruct (Nat.ltb_spec i (length (objs s))); auto; lia.
Qed.
Lemma cell_app (s : pst) c k vs nc nd :
  cell (mkpst (objs s ++ [c]) vs nc nd) k = if k =? length (objs s) then c else cell s k.
Proof.
  unfold cell; simpl. destruct (Nat.eqb_spec k (length (objs s))).
  - subst. rewrite nth_error_app2, Nat.sub_diag; auto.
  - destruct (Nat.ltb_spec k (length (objs s))).
    + rewrite nth_error_app1; auto.
    + assert (nth_error (objs s ++ [c]) k = None) as ->. { apply nth_error_None. rewrite app_length; simpl; lia. }
      assert (nth_error (objs s) k = None) as ->; auto. apply nth_error_None; lia.
Qed.
Lemma RC_fresh (s : pst) : RC s -> occ (length (objs s)) (vars s) = 0.
Proof.
  intros H. specialize (H (length (objs s))). unfold cell in H.
  assert (nth_error (objs s) (length (objs s)) = None) as E by (apply nth_error_None; lia). rewrite E in H; auto.
Qed.

(** a handle that holds i, where i is held exactly once, is the only one *)
Lemma sole_holder (s : pst) p i k j : occ i (vars s) = 1 -> getv s p = Some (Some i) -> k <> p ->
  nth_error (vars s) k = Some (Some j) -> j <> i.
Proof.
  intros H1 Hp Hk Ek. pose proof (occ_upd i (vars s) p (Some i) None Hp) as H. rewrite hit_same in H. simpl in H.
  eapply (occ_zero i (upd p None (vars s)) k j). lia. rewrite nth_upd. destruct (Nat.eqb_spec k p); try lia. simpl; auto.
Qed.

(* ------------------------------------------------------------------ primitives *)
Lemma preset_ok (s : pst) p a : RC s -> getv s p = Some a ->
  exists s', preset p s = Some s' /\ RC s' /\ absv s' = upd p None (absv s) /\ getv s' p = Some None /\
             (forall k, k <> p -> getv s' k = getv s k) /\ nclone s' = nclone s /\ length (vars s') = length (vars s).
Proof.
  intros HR Hp. unfold preset. rewrite Hp. destruct a as [i|].
  2:{ exists s. repeat split; auto. unfold absv. symmetry. apply upd_same. unfold getv in Hp.
      rewrite nth_error_map, Hp. reflexivity. }
  pose proof (HR i) as Hi. pose proof (occ_ge_hit i _ _ _ Hp) as Hge. rewrite hit_same in Hge.
  destruct (cell s i) as [[v c]|] eqn:Ec; [|lia]. destruct Hi as [Hc Hc1].
  pose proof (cell_lt _ _ _ Ec) as Hlt.
  assert (Hp' : p < length (vars s)) by (apply nth_error_Some; unfold getv in Hp; congruence).
  destruct c as [|[|c]]; [lia| |].
  - (* last use: delete *)
    eexists; split; [reflexivity|]. unfold setv; simpl. repeat split; simpl.
    + intro k. cbn [vars]. rewrite cell_upd by auto. pose proof (occ_upd k (vars s) p (Some i) None Hp) as Ho. simpl hit in Ho at 2.
      destruct (Nat.eqb_spec k i).
      * subst k. rewrite hit_same in Ho. lia.
      * rewrite hit_other in Ho by auto. specialize (HR k). destruct (cell s k) as [[v' c']|]; lia.
    + unfold absv; simpl. rewrite map_upd. simpl. apply upd_map_ext. intros k x Hk Ex.
      destruct x as [j|]; simpl; auto. rewrite cell_upd by auto.
      destruct (Nat.eqb_spec j i); auto. subst j. exfalso.
      eapply (sole_holder s p i k i); eauto; lia.
    + unfold getv; simpl. rewrite nth_upd, Nat.eqb_refl. destruct (Nat.ltb_spec p (length (vars s))); auto; lia.
    + intros k Hk. unfold getv; simpl. rewrite nth_upd. destruct (Nat.eqb_spec k p); try lia. auto.
    + apply length_upd'.
  - (* still shared: decrement *)
    eexists; split; [reflexivity|]. unfold setv, setcell; simpl. repeat split; simpl.
    + intro k. cbn [vars]. rewrite cell_upd by auto. pose proof (occ_upd k (vars s) p (Some i) None Hp) as Ho. simpl hit in Ho at 2.
      destruct (Nat.eqb_spec k i).
      * subst k. rewrite hit_same in Ho. lia.
      * rewrite hit_other in Ho by auto. specialize (HR k). destruct (cell s k) as [[v' c']|]; lia.
    + unfold absv; simpl. rewrite map_upd. simpl. apply upd_map_ext. intros k x Hk Ex.
      destruct x as [j|]; simpl; auto. rewrite cell_upd by auto.
      destruct (Nat.eqb_spec j i); auto. subst j. rewrite Ec; auto.
    + unfold getv; simpl. rewrite nth_upd, Nat.eqb_refl. destruct (Nat.ltb_spec p (length (vars s))); auto; lia.
    + intros k Hk. unfold getv; simpl. rewrite nth_upd. destruct (Nat.eqb_spec k p); try lia. auto.
    + apply length_upd'.
Qed.

Lemma pshare_ok (s : pst) p q b : RC s -> getv s p = Some None -> getv s q = Some b ->
  exists s', pshare p q s = Some s' /\ RC s' /\ absv s' = upd p (val s b) (absv s) /\ getv s' p = Some b /\
             nclone s' = nclone s /\ length (vars s') = length (vars s) /\ (forall k, k <> p -> getv s' k = getv s k).
Proof.
  intros HR Hp Hq. unfold pshare. rewrite Hq. destruct b as [i|].
  2:{ exists s. repeat split; auto. unfold absv. symmetry. apply upd_same. unfold getv in Hp.
      rewrite nth_error_map, Hp. reflexivity. }
  pose proof (HR i) as Hi. pose proof (occ_ge_hit i _ _ _ Hq) as Hge. rewrite hit_same in Hge.
  destruct (cell s i) as [[v c]|] eqn:Ec; [|lia]. destruct Hi as [Hc Hc1].
  pose proof (cell_lt _ _ _ Ec) as Hlt.
  assert (Hp' : p < length (vars s)) by (apply nth_error_Some; unfold getv in Hp; congruence).
  eexists; split; [reflexivity|]. unfold setv, setcell; simpl. repeat split; simpl.
  - intro k. cbn [vars]. rewrite cell_upd by auto. pose proof (occ_upd k (vars s) p None (Some i) Hp) as Ho. simpl hit in Ho at 1.
    destruct (Nat.eqb_spec k i).
    + subst k. rewrite hit_same in Ho. lia.
    + rewrite hit_other in Ho by auto. specialize (HR k). destruct (cell s k) as [[v' c']|]; lia.
  - unfold absv; simpl. rewrite map_upd. simpl. rewrite cell_upd, Nat.eqb_refl, Ec by auto.
    f_equal. apply map_ext_nth. intros k x Ex. destruct x as [j|]; simpl; auto. rewrite cell_upd by auto.
    destruct (Nat.eqb_spec j i); auto. subst j. rewrite Ec; auto.
  - unfold getv; simpl. rewrite nth_upd, Nat.eqb_refl. destruct (Nat.ltb_spec p (length (vars s))); auto; lia.
  - apply length_upd'.
  - intros k Hk. unfold getv; simpl. rewrite nth_upd. destruct (Nat.eqb_spec k p); try lia. auto.
Qed.

Lemma alloc_set_ok (s : pst) p v nc nd : RC s -> getv s p = Some None ->
  let s' := mkpst (objs s ++ [Some (v, 1)]) (upd p (Some (length (objs s))) (vars s)) nc nd in
  RC s' /\ absv s' = upd p (Some v) (absv s) /\ getv s' p = Some (Some (length (objs s))) /\
  cell s' (length (objs s)) = Some (v, 1).
Proof.
  intros HR Hp s'. pose proof (RC_fresh s HR) as Hf.
  assert (Hp' : p < length (vars s)) by (apply nth_error_Some; unfold getv in Hp; congruence).
  repeat split; unfold s'; simpl.
  - intro k. cbn [vars]. rewrite cell_app. pose proof (occ_upd k (vars s) p None (Some (length (objs s))) Hp) as Ho. simpl hit in Ho at 1.
    destruct (Nat.eqb_spec k (length (objs s))).
    + subst k. rewrite hit_same in Ho. lia.
    + rewrite hit_other in Ho by auto. specialize (HR k). destruct (cell s k) as [[v' c']|]; lia.
  - unfold absv; simpl. rewrite map_upd. simpl. rewrite cell_app, Nat.eqb_refl.
    f_equal. apply map_ext_nth. intros k x Ex. destruct x as [j|]; simpl; auto. rewrite cell_app.
    destruct (Nat.eqb_spec j (length (objs s))); auto. subst j. exfalso. eapply (occ_zero _ _ _ _ Hf Ex); auto.
  - unfold getv; simpl. rewrite nth_upd, Nat.eqb_refl. destruct (Nat.ltb_spec p (length (vars s))); auto; lia.
  - rewrite cell_app, Nat.eqb_refl; auto.
Qed.

Lemma pdetach_ok (s : pst) p a : RC s -> getv s p = Some a ->
  exists s', pdetach p s = Some s' /\ RC s' /\ absv s' = absv s /\ length (vars s') = length (vars s) /\
    (a = None -> s' = s) /\
    (forall i, a = Some i -> exists j v, getv s' p = Some (Some j) /\ cell s' j = Some (v, 1) /\ val s a = Some v) /\
    (nclone s' = nclone s \/ exists i v c, a = Some i /\ cell s i = Some (v, c) /\ 2 <= c /\ nclone s' = N.succ (nclone s)) /\
    (forall i v, a = Some i -> cell s i = Some (v, 1) -> s' = s).
Proof.
  intros HR Hp. unfold pdetach. rewrite Hp. destruct a as [i|].
  2:{ exists s; repeat split; auto; intros; discriminate. }
  pose proof (HR i) as Hi. pose proof (occ_ge_hit i _ _ _ Hp) as Hge. rewrite hit_same in Hge.
  destruct (cell s i) as [[v c]|] eqn:Ec; [|lia]. destruct Hi as [Hc Hc1].
  pose proof (cell_lt _ _ _ Ec) as Hlt.
  assert (Hp' : p < length (vars s)) by (apply nth_error_Some; unfold getv in Hp; congruence).
  destruct c as [|[|c]]; [lia| |].
  - exists s; repeat split; auto; try discriminate.
    intros i0 E0; inversion E0; subst i0. exists i, v. simpl. rewrite Ec. auto.
  - (* shared: decr, clone, new count *)
    eexists; split; [reflexivity|]. unfold setv, setcell; simpl.
    assert (Hlen : length (upd i (Some (v, S c)) (objs s)) = length (objs s)) by apply length_upd'.
    rewrite Hlen.
    (* the intermediate state after decr has p's handle conceptually dangling: account for it directly *)
    assert (Hf : occ (length (objs s)) (vars s) = 0) by (apply RC_fresh; auto).
    repeat split; simpl.
    + intro k.
      match goal with |- context [cell ?st0 k] => assert (Ek : cell st0 k = if k =? length (objs s) then Some (v, 1) else if k =? i then Some (v, S c) else cell s k) end.
      { unfold cell; simpl. destruct (Nat.eqb_spec k (length (objs s))).
        - subst k. rewrite nth_error_app2 by (rewrite Hlen; lia). rewrite Hlen, Nat.sub_diag. reflexivity.
        - destruct (Nat.ltb_spec k (length (objs s))).
          + rewrite nth_error_app1 by (rewrite Hlen; auto). rewrite nth_upd.
            destruct (Nat.eqb_spec k i); simpl; auto. destruct (Nat.ltb_spec i (length (objs s))); auto; lia.
          + assert (nth_error (upd i (Some (v, S c)) (objs s) ++ [Some (v, 1)]) k = None) as ->.
            { apply nth_error_None. rewrite app_length, Hlen; simpl; lia. }
            destruct (Nat.eqb_spec k i); try lia.
            assert (nth_error (objs s) k = None) as ->; auto. apply nth_error_None; lia. }
      rewrite Ek. cbn [vars]. pose proof (occ_upd k (vars s) p (Some i) (Some (length (objs s))) Hp) as Ho.
      destruct (Nat.eqb_spec k (length (objs s))).
      * subst k. rewrite hit_same in Ho. rewrite hit_other in Ho by lia. lia.
      * rewrite (hit_other k (length (objs s))) in Ho by auto. destruct (Nat.eqb_spec k i).
        -- subst k. rewrite hit_same in Ho. lia.
        -- rewrite hit_other in Ho by auto. specialize (HR k). destruct (cell s k) as [[v' c']|]; lia.
    + unfold absv; simpl. rewrite map_upd.
      assert (Ecell : forall k, k <> length (objs s) ->
                match cell (mkpst (upd i (Some (v, S c)) (objs s) ++ [Some (v, 1)]) (upd p (Some (length (objs s))) (vars s)) (N.succ (nclone s)) (ndel s)) k with
                | Some (v', _) => Some v' | None => None end = match cell s k with Some (v', _) => Some v' | None => None end).
      { intros k Hk. unfold cell; simpl. destruct (Nat.ltb_spec k (length (objs s))).
        - rewrite nth_error_app1 by (rewrite Hlen; auto). rewrite nth_upd.
          destruct (Nat.eqb_spec k i); simpl; auto. destruct (Nat.ltb_spec i (length (objs s))); try lia.
          subst k. unfold cell in Ec. destruct (nth_error (objs s) i); try discriminate. rewrite Ec. auto.
        - assert (nth_error (upd i (Some (v, S c)) (objs s) ++ [Some (v, 1)]) k = None) as ->.
          { apply nth_error_None. rewrite app_length, Hlen; simpl; lia. }
          assert (nth_error (objs s) k = None) as ->; auto. apply nth_error_None; lia. }
      assert (Ep : val (mkpst (upd i (Some (v, S c)) (objs s) ++ [Some (v, 1)]) (upd p (Some (length (objs s))) (vars s)) (N.succ (nclone s)) (ndel s))
                     (Some (length (objs s))) = Some v).
      { simpl. unfold cell; simpl. rewrite nth_error_app2 by (rewrite Hlen; lia). rewrite Hlen, Nat.sub_diag. reflexivity. }
      rewrite Ep.
      transitivity (upd p (Some v) (map (val s) (vars s))).
      * f_equal. apply map_ext_nth. intros k x Ex. destruct x as [j|]; simpl; auto. apply Ecell.
        intro; subst j. eapply (occ_zero _ _ _ _ Hf Ex); auto.
      * apply upd_same. unfold getv in Hp. rewrite nth_error_map, Hp. simpl. rewrite Ec. reflexivity.
    + apply length_upd'.
    + intros; discriminate.
    + intros i0 E0; inversion E0; subst i0. exists (length (objs s)), v. repeat split.
      * unfold getv; simpl. rewrite nth_upd, Nat.eqb_refl. destruct (Nat.ltb_spec p (length (vars s))); auto; lia.
      * unfold cell; simpl. rewrite nth_error_app2 by (rewrite Hlen; lia). rewrite Hlen, Nat.sub_diag. reflexivity.
      * simpl. rewrite Ec; auto.
    + right. exists i, v, (S (S c)). repeat split; auto. lia.
    + intros i0 v0 E0 Ec0. inversion E0; subst i0. rewrite Ec in Ec0. inversion Ec0.
Qed.

Lemma write_ok (s : pst) p i v0 v : RC s -> getv s p = Some (Some i) -> cell s i = Some (v0, 1) ->
  let s' := setcell i (Some (v, 1)) s in RC s' /\ absv s' = upd p (Some v) (absv s) /\ vars s' = vars s.
Proof.
  intros HR Hp Ec s'. pose proof (cell_lt _ _ _ Ec) as Hlt. pose proof (HR i) as Hi. rewrite Ec in Hi. destruct Hi as [Hc _].
  unfold s', setcell. repeat split; simpl; auto.
  - intro k. cbn [vars]. rewrite cell_upd by auto. destruct (Nat.eqb_spec k i).
    + subst k. lia.
    + specialize (HR k). destruct (cell s k) as [[v' c']|]; lia.
  - unfold absv; simpl.
    transitivity (upd p (Some v) (map (val (mkpst (upd i (Some (v, 1)) (objs s)) (vars s) (nclone s) (ndel s))) (vars s))).
    + symmetry. apply upd_same. unfold getv in Hp. rewrite nth_error_map, Hp. simpl. rewrite cell_upd, Nat.eqb_refl by auto. auto.
    + apply upd_map_ext. intros k x Hk Ex. destruct x as [j|]; simpl; auto. rewrite cell_upd by auto.
      destruct (Nat.eqb_spec j i); auto. subst j. exfalso. eapply (sole_holder s p i k i); eauto; lia.
Qed.

Lemma move_ok (s : pst) p q b : RC s -> getv s p = Some None -> getv s q = Some b -> p <> q ->
  let s' := setv q None (setv p b s) in
  RC s' /\ absv s' = upd q None (upd p (val s b) (absv s)) /\ length (vars s') = length (vars s).
Proof.
  intros HR Hp Hq Hne s'. unfold s', setv; simpl.
  assert (Hq' : nth_error (upd p b (vars s)) q = Some b).
  { rewrite nth_upd. destruct (Nat.eqb_spec q p); try lia. simpl; auto. }
  repeat split; simpl.
  - intro k. pose proof (occ_upd k (vars s) p None b Hp) as H1. pose proof (occ_upd k (upd p b (vars s)) q b None Hq') as H2.
    cbn [hit] in H1, H2. specialize (HR k). unfold cell in *; cbn [objs vars].
    destruct (nth_error (objs s) k) as [[[v c]|]|]; lia.
  - unfold absv; simpl. rewrite !map_upd. reflexivity.
  - rewrite !length_upd'. auto.
Qed.

Lemma swap_vars_ok (s : pst) p q a b : RC s -> getv s p = Some a -> getv s q = Some b ->
  let s' := setv p b (setv q a s) in RC s' /\ absv s' = upd p (val s b) (upd q (val s a) (absv s)).
Proof.
  intros HR Hp Hq s'. unfold s', setv; simpl.
  assert (Hp' : nth_error (upd q a (vars s)) p = Some a).
  { rewrite nth_upd. destruct (Nat.eqb_spec p q); simpl; auto. subst. unfold getv in *.
    destruct (Nat.ltb_spec q (length (vars s))); auto. }
  split; simpl.
  - intro k. pose proof (occ_upd k (vars s) q b a Hq) as H1. pose proof (occ_upd k (upd q a (vars s)) p a b Hp') as H2.
    specialize (HR k). unfold cell in *; cbn [objs vars].
    destruct (nth_error (objs s) k) as [[[v c]|]|]; lia.
  - unfold absv; simpl. rewrite !map_upd. reflexivity.
Qed.

Lemma absv_nth (s : pst) p : nth_error (absv s) p = match getv s p with Some a => Some (val s a) | None => None end.
Proof. unfold absv, getv. rewrite nth_error_map. destruct (nth_error (vars s) p); auto. Qed.

Lemma getv_len (s : pst) p a : getv s p = Some a -> p < length (vars s).
Proof. unfold getv; intros H. apply nth_error_Some; congruence. Qed.

Lemma upd_upd {A} (l : list A) p x y : upd p x (upd p y l) = upd p x l.
Proof. revert p; induction l; intros [|p]; simpl; auto. f_equal; auto. Qed.

Lemma absv_same_at (s : pst) p a x : getv s p = Some a -> val s a = x -> upd p x (absv s) = absv s.
Proof. intros Hp Hx. apply upd_same. rewrite absv_nth, Hp. congruence. Qed.

Lemma val_after_preset (s s1 : pst) p q b : absv s1 = upd p None (absv s) -> q <> p -> getv s q = Some b -> getv s1 q = Some b ->
  val s1 b = val s b.
Proof.
  intros A1 Hne Eq Eq1. pose proof (absv_nth s1 q) as N1. rewrite Eq1, A1, nth_upd in N1.
  destruct (Nat.eqb_spec q p); try lia. simpl in N1. rewrite absv_nth, Eq in N1. congruence.
Qed.

(** reset() followed by shareWith(src) for distinct handles *)
Lemma reset_share_ok (s : pst) p q a b : RC s -> getv s p = Some a -> getv s q = Some b -> p <> q ->
  exists s', obind (preset p s) (pshare p q) = Some s' /\ RC s' /\ absv s' = upd p (val s b) (absv s) /\
             getv s' p = Some b /\ getv s' q = Some b /\ nclone s' = nclone s.
Proof.
  intros HR Ep Eq Hne.
  destruct (preset_ok s p a HR Ep) as (s1 & E1 & R1 & A1 & G1 & Gk & N1 & _). rewrite E1; simpl.
  assert (Eq1 : getv s1 q = Some b) by (rewrite Gk; auto).
  destruct (pshare_ok s1 p q b R1 G1 Eq1) as (s2 & E2 & R2 & A2 & G2 & N2 & _ & Gk2). exists s2; split; auto. split; auto.
  rewrite A2, A1, (val_after_preset s s1 p q b A1) by auto. rewrite upd_upd. repeat split; auto.
  - rewrite Gk2; auto.
  - congruence.
Qed.

(** reset() followed by moveFrom(src) for distinct handles *)
Lemma reset_move_ok (s : pst) p q a b : RC s -> getv s p = Some a -> getv s q = Some b -> p <> q ->
  exists s', obind (preset p s) (fun s1 => obind (getv s1 q) (fun b1 => Some (setv q None (setv p b1 s1)))) = Some s' /\
             RC s' /\ absv s' = upd q None (upd p (val s b) (absv s)) /\ nclone s' = nclone s.
Proof.
  intros HR Ep Eq Hne.
  destruct (preset_ok s p a HR Ep) as (s1 & E1 & R1 & A1 & G1 & Gk & N1 & _). rewrite E1; simpl.
  assert (Eq1 : getv s1 q = Some b) by (rewrite Gk; auto). rewrite Eq1; simpl.
  destruct (move_ok s1 p q b R1 G1 Eq1 Hne) as (R2 & A2 & _). eexists; split; [reflexivity|]. split; auto.
  rewrite A2, A1, (val_after_preset s s1 p q b A1) by auto. rewrite upd_upd. split; auto.
Qed.

(** one CloneOnWritePtr operation: succeeds exactly when the specification does, keeps the counts exact,
    and every handle afterwards denotes what an independent optional value would hold *)
Lemma cow_step_ok (s : pst) (o : pop) : RC s ->
  match pspec_step (absv s) o with
  | Some vs' => exists s', pstep false s o = Some s' /\ RC s' /\ absv s' = vs'
  | None => pstep false s o = None
  end.
Proof.
  intros HR. destruct o; simpl; rewrite ?absv_nth.
  - (* PNew *) destruct (getv s p) as [a|] eqn:Ep; [|unfold preset; rewrite Ep; auto].
    destruct (preset_ok s p a HR Ep) as (s1 & E1 & R1 & A1 & G1 & _). rewrite E1; simpl.
    destruct (alloc_set_ok s1 p v (nclone s1) (ndel s1) R1 G1) as (R2 & A2 & _).
    eexists; split; [reflexivity|]. split; [exact R2|]. unfold setv; simpl. rewrite A2, A1. apply upd_upd.
  - (* PAssignVal *) destruct (getv s p) as [a|] eqn:Ep; [|unfold preset; rewrite Ep; auto].
    destruct (preset_ok s p a HR Ep) as (s1 & E1 & R1 & A1 & G1 & _). rewrite E1; simpl.
    destruct (alloc_set_ok s1 p v (N.succ (nclone s1)) (ndel s1) R1 G1) as (R2 & A2 & _).
    eexists; split; [reflexivity|]. split; [exact R2|]. unfold setv; simpl. rewrite A2, A1. apply upd_upd.
  - (* PReset *) destruct (getv s p) as [a|] eqn:Ep; [|unfold preset; rewrite Ep; auto].
    destruct (preset_ok s p a HR Ep) as (s1 & E1 & R1 & A1 & _). exists s1; auto.
  - (* PCopyAssign *)
    destruct (getv s p) as [a|] eqn:Ep; destruct (getv s q) as [b|] eqn:Eq; auto.
    assert (Hgen : p <> q -> exists s', obind (preset p s) (pshare p q) = Some s' /\ RC s' /\ absv s' = upd p (val s b) (absv s)).
    { intros Hne. destruct (reset_share_ok s p q a b HR Ep Eq Hne) as (s' & E & R & A & _). eauto. }
    assert (Hpq : p = q -> a = b) by (intros ->; congruence).
    destruct a as [i|], b as [j|].
    + destruct (Nat.eqb_spec i j).
      * subst j. exists s; split; auto. split; auto. symmetry. eapply absv_same_at; eauto.
      * apply Hgen. intro Hq. specialize (Hpq Hq). congruence.
    + apply Hgen. intro Hq. specialize (Hpq Hq). congruence.
    + apply Hgen. intro Hq. specialize (Hpq Hq). congruence.
    + exists s; split; auto. split; auto. symmetry. eapply absv_same_at; eauto.
  - (* PCopyCtor *)
    destruct (Nat.eqb_spec p q); auto.
    destruct (getv s p) as [a|] eqn:Ep; [|unfold preset; rewrite Ep; auto].
    destruct (getv s q) as [b|] eqn:Eq.
    + destruct (reset_share_ok s p q a b HR Ep Eq n) as (s' & E & R & A & _). eauto.
    + destruct (preset_ok s p a HR Ep) as (s1 & E1 & R1 & A1 & G1 & Gk & _). rewrite E1; simpl.
      unfold pshare. rewrite Gk, Eq; auto.
  - (* PMoveAssign *)
    destruct (getv s p) as [a|] eqn:Ep; destruct (getv s q) as [b|] eqn:Eq; auto.
    destruct (Nat.eqb_spec p q).
    + exists s; auto.
    + destruct (reset_move_ok s p q a b HR Ep Eq n) as (s' & E & R & A & _). eauto.
  - (* PMoveCtor *)
    destruct (Nat.eqb_spec p q); auto.
    destruct (getv s p) as [a|] eqn:Ep; [|unfold preset; rewrite Ep; auto].
    destruct (getv s q) as [b|] eqn:Eq.
    + destruct (reset_move_ok s p q a b HR Ep Eq n) as (s' & E & R & A & _). eauto.
    + destruct (preset_ok s p a HR Ep) as (s1 & E1 & R1 & A1 & G1 & Gk & _). rewrite E1; simpl.
      rewrite Gk, Eq; auto.
  - (* PWrite *)
    destruct (getv s p) as [a|] eqn:Ep; [|unfold pdetach; rewrite Ep; auto].
    destruct (pdetach_ok s p a HR Ep) as (s1 & E1 & R1 & A1 & L1 & Hn & Hs & _). rewrite E1; simpl.
    destruct a as [i|].
    + destruct (Hs i eq_refl) as (j & v0 & Gj & Cj & Vj). rewrite Vj. rewrite Gj, Cj.
      destruct (write_ok s1 p j v0 v R1 Gj Cj) as (R2 & A2 & _).
      eexists; split; [reflexivity|]. split; auto. rewrite A2, A1; auto.
    + simpl. rewrite (Hn eq_refl), Ep. reflexivity.
  - (* PDetach *)
    destruct (getv s p) as [a|] eqn:Ep; [|unfold pdetach; rewrite Ep; auto].
    destruct (pdetach_ok s p a HR Ep) as (s1 & E1 & R1 & A1 & _). exists s1; auto.
  - (* PRelease *)
    destruct (getv s p) as [a|] eqn:Ep; [|unfold pdetach; rewrite Ep; auto].
    destruct (pdetach_ok s p a HR Ep) as (s1 & E1 & R1 & A1 & L1 & Hn & Hs & _). rewrite E1; simpl.
    destruct a as [i|].
    + destruct (Hs i eq_refl) as (j & v0 & Gj & Cj & Vj).
      destruct (preset_ok s1 p (Some j) R1 Gj) as (s2 & E2 & R2 & A2 & _).
      unfold preset in E2. rewrite Gj, Cj in E2. rewrite Gj. exists s2; split; auto. split; auto. rewrite A2, A1; auto.
    + rewrite (Hn eq_refl), Ep. exists s; split; auto. split; auto. symmetry. eapply absv_same_at; eauto.
  - (* PSwap *)
    destruct (getv s p) as [a|] eqn:Ep; destruct (getv s q) as [b|] eqn:Eq; auto.
    destruct (swap_vars_ok s p q a b HR Ep Eq) as (R & A). eexists; split; [reflexivity|]. split; auto.
Qed.

Lemma RC_init k : RC (@pinit elt k) /\ absv (@pinit elt k) = repeat None k.
Proof.
  split.
  - intro i. unfold cell, pinit; simpl. destruct i; simpl; induction k; simpl; auto.
  - unfold absv, pinit; simpl. induction k; simpl; auto. f_equal; auto.
Qed.

Lemma cow_run_ok ops : forall (s : pst), RC s ->
  match pspec_run (absv s) ops with
  | Some vs => exists s', prun false s ops = Some s' /\ RC s' /\ absv s' = vs
  | None => prun false s ops = None
  end.
Proof.
  induction ops as [|o ops]; intros s HR; simpl; eauto.
  pose proof (cow_step_ok s o HR) as H. destruct (pspec_step (absv s) o) as [v1|]; simpl.
  - destruct H as (s1 & E1 & R1 & A1). rewrite E1; simpl. subst v1. apply IHops; auto.
  - rewrite H; auto.
Qed.

Lemma pvalue_absv (s : pst) p : pvalue s p = match nth_error (absv s) p with Some x => x | None => None end.
Proof.
  unfold pvalue, pobserve. rewrite absv_nth. destruct (getv s p) as [[i|]|]; simpl; auto.
  destruct (cell s i) as [[v c]|]; auto.
Qed.

(* ================================================================== THE THEOREMS ================================= *)

(** cow_copies_independent: from K null handles, after ANY sequence of constructions, copies, moves, writes, detaches,
    releases and swaps that respects the preconditions, every CloneOnWritePtr handle denotes exactly what an independent
    optional value would hold: a write through one handle is never seen through another one, however they were copied *)
Lemma cow_copies_independent k ops vs : pspec_run (repeat None k) ops = Some vs ->
  exists s, prun false (@pinit elt k) ops = Some s /\ forall p, pvalue s p = nth p vs None.
Proof.
  intros H. destruct (RC_init k) as (R0 & A0). pose proof (cow_run_ok ops _ R0) as Hr. rewrite A0, H in Hr.
  destruct Hr as (s & E & R & A). exists s; split; auto. intro p. rewrite pvalue_absv, A.
  destruct (nth_error vs p) eqn:En.
  - symmetry. apply nth_error_nth with (d := None) in En. auto.
  - symmetry. apply nth_overflow. apply nth_error_None; auto.
Qed.

Lemma cow_precondition_only k ops : pspec_run (repeat None k) ops = None -> prun false (@pinit elt k) ops = None.
Proof.
  intros H. destruct (RC_init k) as (R0 & A0). pose proof (cow_run_ok ops _ R0) as Hr. rewrite A0, H in Hr. auto.
Qed.

(** use counts are exact after any run: use_count() = number of handles holding the object, >= 1; objects held by no
    handle have been deleted (no leak), no handle holds a deleted object (no dangling) *)
Lemma cow_refcount_exact k ops s : prun false (@pinit elt k) ops = Some s ->
  forall i, match cell s i with
            | Some (v, c) => c = occ i (vars s) /\ 1 <= c
            | None => occ i (vars s) = 0
            end.
Proof.
  intros H. destruct (RC_init k) as (R0 & A0). pose proof (cow_run_ok ops _ R0) as Hr.
  destruct (pspec_run (absv (pinit k)) ops).
  - destruct Hr as (s' & E & R & _). rewrite H in E; inversion E; subst. exact R.
  - congruence.
Qed.

(** cow_shares_until_write (1): a copy shares -- after p = q (or P p(q)) both handles hold the same object and no
    clone() was called *)
Lemma cow_copy_shares (s : pst) p q a b : RC s -> getv s p = Some a -> getv s q = Some b -> p <> q ->
  exists s', pstep false s (PCopyCtor p q) = Some s' /\ getv s' p = getv s' q /\ getv s' q = Some b /\ nclone s' = nclone s.
Proof.
  intros HR Ep Eq Hne. simpl. destruct (Nat.eqb_spec p q); try lia.
  destruct (reset_share_ok s p q a b HR Ep Eq Hne) as (s' & E & R & A & G1 & G2 & N). exists s'; repeat split; auto. congruence.
Qed.

(** cow_shares_until_write (2): clone() is called only by a write access (upd / detach / release) to an object that is
    shared at that moment (use count >= 2), exactly once -- and by assignment from a T value, which clones its argument.
    No other operation (reads, copies, moves, swaps, resets, operations on other handles) ever copies the object *)
Lemma cow_clone_only_on_shared_write (s s' : pst) (o : pop) : RC s -> pstep false s o = Some s' ->
  nclone s' = nclone s \/
  (exists p v, o = PAssignVal p v /\ nclone s' = N.succ (nclone s)) \/
  (exists p i v c, (o = PDetach p \/ o = PRelease p \/ exists x, o = PWrite p x) /\ getv s p = Some (Some i) /\
                   cell s i = Some (v, c) /\ 2 <= c /\ nclone s' = N.succ (nclone s)).
Proof.
  intros HR E. destruct o; simpl in E.
  - (* PNew *) destruct (getv s p) as [a|] eqn:Ep; [|unfold preset in E; rewrite Ep in E; discriminate].
    destruct (preset_ok s p a HR Ep) as (s1 & E1 & _ & _ & _ & _ & N1 & _). rewrite E1 in E; simpl in E. inversion E; subst; simpl. auto.
  - destruct (getv s p) as [a|] eqn:Ep; [|unfold preset in E; rewrite Ep in E; discriminate].
    destruct (preset_ok s p a HR Ep) as (s1 & E1 & _ & _ & _ & _ & N1 & _). rewrite E1 in E; simpl in E. inversion E; subst; simpl.
    right; left. exists p, v. rewrite N1; auto.
  - destruct (getv s p) as [a|] eqn:Ep; [|unfold preset in E; rewrite Ep in E; discriminate].
    destruct (preset_ok s p a HR Ep) as (s1 & E1 & _ & _ & _ & _ & N1 & _). rewrite E1 in E. inversion E; subst; auto.
  - destruct (getv s p) as [a|] eqn:Ep; destruct (getv s q) as [b|] eqn:Eq; try discriminate.
    assert (Hgen : p <> q -> obind (preset p s) (pshare p q) = Some s' -> nclone s' = nclone s).
    { intros Hne E'. destruct (reset_share_ok s p q a b HR Ep Eq Hne) as (s2 & E2 & _ & _ & _ & _ & N2). assert (X : Some s2 = Some s') by (rewrite <- E2, <- E'; reflexivity). inversion X; subst; auto. }
    assert (Hpq : p = q -> a = b) by (intros ->; congruence).
    destruct a as [i|], b as [j|].
    + destruct (Nat.eqb_spec i j). inversion E; auto. left; apply Hgen; auto. intro Hq; specialize (Hpq Hq); congruence.
    + left; apply Hgen; auto. intro Hq; specialize (Hpq Hq); congruence.
    + left; apply Hgen; auto. intro Hq; specialize (Hpq Hq); congruence.
    + inversion E; auto.
  - destruct (Nat.eqb_spec p q); try discriminate.
    destruct (getv s p) as [a|] eqn:Ep; [|unfold preset in E; rewrite Ep in E; discriminate].
    destruct (getv s q) as [b|] eqn:Eq.
    + destruct (reset_share_ok s p q a b HR Ep Eq n) as (s2 & E2 & _ & _ & _ & _ & N2). left. assert (X : Some s2 = Some s') by (rewrite <- E2, <- E; reflexivity). inversion X; subst; auto.
    + destruct (preset_ok s p a HR Ep) as (s1 & E1 & R1 & A1 & G1 & Gk & _). rewrite E1 in E; simpl in E.
      unfold pshare in E. rewrite Gk, Eq in E; auto. discriminate.
  - destruct (getv s p) as [a|] eqn:Ep; destruct (getv s q) as [b|] eqn:Eq; try discriminate.
    destruct (Nat.eqb_spec p q). inversion E; auto.
    destruct (reset_move_ok s p q a b HR Ep Eq n) as (s2 & E2 & _ & _ & N2). left. assert (X : Some s2 = Some s') by (rewrite <- E2, <- E; reflexivity). inversion X; subst; auto.
  - destruct (Nat.eqb_spec p q); try discriminate.
    destruct (getv s p) as [a|] eqn:Ep; [|unfold preset in E; rewrite Ep in E; discriminate].
    destruct (getv s q) as [b|] eqn:Eq.
    + destruct (reset_move_ok s p q a b HR Ep Eq n) as (s2 & E2 & _ & _ & N2). left. assert (X : Some s2 = Some s') by (rewrite <- E2, <- E; reflexivity). inversion X; subst; auto.
    + destruct (preset_ok s p a HR Ep) as (s1 & E1 & R1 & A1 & G1 & Gk & _). rewrite E1 in E; simpl in E.
      rewrite Gk, Eq in E; auto. discriminate.
  - (* PWrite *)
    destruct (getv s p) as [a|] eqn:Ep; [|unfold pdetach in E; rewrite Ep in E; discriminate].
    destruct (pdetach_ok s p a HR Ep) as (s1 & E1 & R1 & A1 & L1 & Hn & Hs & [Nc|(i & v0 & c & Ea & Ec & Hc & Nc)] & _);
      rewrite E1 in E; simpl in E.
    + left. destruct (getv s1 p) as [[j|]|]; try discriminate. destruct (cell s1 j) as [[? ?]|]; try discriminate.
      inversion E; subst; simpl; auto.
    + right; right. exists p, i, v0, c. subst a. repeat split; eauto.
      destruct (getv s1 p) as [[j|]|]; try discriminate. destruct (cell s1 j) as [[? ?]|]; try discriminate.
      inversion E; subst; simpl; auto.
  - (* PDetach *)
    destruct (getv s p) as [a|] eqn:Ep; [|unfold pdetach in E; rewrite Ep in E; discriminate].
    destruct (pdetach_ok s p a HR Ep) as (s1 & E1 & R1 & A1 & L1 & Hn & Hs & [Nc|(i & v0 & c & Ea & Ec & Hc & Nc)] & _);
      rewrite E1 in E; inversion E; subst; auto.
    right; right. exists p, i, v0, c. repeat split; eauto.
  - (* PRelease *)
    destruct (getv s p) as [a|] eqn:Ep; [|unfold pdetach in E; rewrite Ep in E; discriminate].
    destruct (pdetach_ok s p a HR Ep) as (s1 & E1 & R1 & A1 & L1 & Hn & Hs & [Nc|(i & v0 & c & Ea & Ec & Hc & Nc)] & _);
      rewrite E1 in E; simpl in E.
    + left. destruct (getv s1 p) as [[j|]|]; try discriminate; inversion E; subst; simpl; auto.
    + right; right. exists p, i, v0, c. subst a. repeat split; eauto.
      destruct (getv s1 p) as [[j|]|]; try discriminate; inversion E; subst; simpl; auto.
  - destruct (getv s p) as [a|] eqn:Ep; destruct (getv s q) as [b|] eqn:Eq; try discriminate. inversion E; subst; auto.
Qed.

(* ------------------------------------------------------------------ ReferencePtr, ResetOnCopy, ReinitOnCopy *)
Notation wop := (wop elt).

Definition wval (s : list (elt * elt)) (p : nat) : option elt := match nth_error s p with Some (v, _) => Some v | None => None end.

(** a copy-constructed ReferencePtr is null, whatever the source refers to *)
Lemma reference_ptr_copy_is_null (nul : elt) (s : list (elt * elt)) p q s' : wstep WRef nul s (WCopyCtor p q) = Some s' -> wval s' p = Some nul.
Proof.
  unfold wstep, wval. destruct (Nat.eqb_spec p q); try discriminate.
  destruct (nth_error s p) as [[vp rp]|] eqn:Ep; try discriminate. destruct (nth_error s q) as [[vq rq]|]; try discriminate.
  intros H; inversion H; subst. rewrite nth_upd, Nat.eqb_refl. simpl.
  assert (p < length s) by (apply nth_error_Some; congruence). destruct (Nat.ltb_spec p (length s)); auto; lia.
Qed.

(** copy assignment resets a ReferencePtr to null (unless it is self-assignment, which changes nothing) *)
Lemma reference_ptr_assign_is_null (nul : elt) (s : list (elt * elt)) p q s' : p <> q -> wstep WRef nul s (WCopyAssign p q) = Some s' -> wval s' p = Some nul.
Proof.
  unfold wstep, wval. intros Hne.
  destruct (nth_error s p) as [[vp rp]|] eqn:Ep; try discriminate. destruct (nth_error s q) as [[vq rq]|]; try discriminate.
  destruct (Nat.eqb_spec p q); try lia. intros H; inversion H; subst. rewrite nth_upd, Nat.eqb_refl. simpl.
  assert (p < length s) by (apply nth_error_Some; congruence). destruct (Nat.ltb_spec p (length s)); auto; lia.
Qed.

(** reset_on_copy_drops_value: copy construction and copy assignment (self-assignment included) of a ResetOnCopy
    leave the value-initialized T{}, never the source's value *)
Lemma reset_on_copy_drops_value (nul : elt) (s : list (elt * elt)) p q s' :
  wstep WReset nul s (WCopyCtor p q) = Some s' \/ wstep WReset nul s (WCopyAssign p q) = Some s' -> wval s' p = Some nul.
Proof.
  unfold wstep, wval. intros [H|H].
  - destruct (Nat.eqb_spec p q); try discriminate.
    destruct (nth_error s p) as [[vp rp]|] eqn:Ep; try discriminate. destruct (nth_error s q) as [[vq rq]|]; try discriminate.
    inversion H; subst. rewrite nth_upd, Nat.eqb_refl. simpl.
    assert (p < length s) by (apply nth_error_Some; congruence). destruct (Nat.ltb_spec p (length s)); auto; lia.
  - destruct (nth_error s p) as [[vp rp]|] eqn:Ep; try discriminate. destruct (nth_error s q) as [[vq rq]|]; try discriminate.
    inversion H; subst. rewrite nth_upd, Nat.eqb_refl. simpl.
    assert (p < length s) by (apply nth_error_Some; congruence). destruct (Nat.ltb_spec p (length s)); auto; lia.
Qed.

(** ReinitOnCopy: a copy holds the source's stored reinitialization value (as value and as its own reinit value);
    copy assignment restores the target's OWN reinitialization value *)
Lemma reinit_on_copy_reinitializes (nul : elt) (s : list (elt * elt)) p q s' :
  (wstep WReinit nul s (WCopyCtor p q) = Some s' -> exists vq rq, nth_error s q = Some (vq, rq) /\ nth_error s' p = Some (rq, rq)) /\
  (wstep WReinit nul s (WCopyAssign p q) = Some s' -> exists vp rp, nth_error s p = Some (vp, rp) /\ nth_error s' p = Some (rp, rp)).
Proof.
  unfold wstep. split; intros H.
  - destruct (Nat.eqb_spec p q); try discriminate.
    destruct (nth_error s p) as [[vp rp]|] eqn:Ep; try discriminate. destruct (nth_error s q) as [[vq rq]|]; try discriminate.
    inversion H; subst. exists vq, rq; split; auto. rewrite nth_upd, Nat.eqb_refl. simpl.
    assert (p < length s) by (apply nth_error_Some; congruence). destruct (Nat.ltb_spec p (length s)); auto; lia.
  - destruct (nth_error s p) as [[vp rp]|] eqn:Ep; try discriminate. destruct (nth_error s q) as [[vq rq]|]; try discriminate.
    inversion H; subst. exists vp, rp; split; auto. rewrite nth_upd, Nat.eqb_refl. simpl.
    assert (p < length s) by (apply nth_error_Some; congruence). destruct (Nat.ltb_spec p (length s)); auto; lia.
Qed.

(** none of the three wrappers carries the source's current value through a copy: the result of copy construction /
    copy assignment at the target does not depend on the value the source currently holds *)
Lemma copies_do_not_carry_value (k : wkind) (nul : elt) (s : list (elt * elt)) p q vq rq x (o : wop) : p <> q -> nth_error s q = Some (vq, rq) ->
  o = WCopyCtor p q \/ o = WCopyAssign p q ->
  match wstep k nul s o, wstep k nul (upd q (x, rq) s) o with
  | Some s1, Some s2 => nth_error s1 p = nth_error s2 p
  | None, None => True
  | _, _ => False
  end.
Proof.
  intros Hne Eq Ho.
  assert (Hq : q < length s) by (apply nth_error_Some; congruence).
  assert (Eq' : nth_error (upd q (x, rq) s) q = Some (x, rq)).
  { rewrite nth_upd, Nat.eqb_refl. simpl. destruct (Nat.ltb_spec q (length s)); auto; lia. }
  assert (Ep' : nth_error (upd q (x, rq) s) p = nth_error s p).
  { rewrite nth_upd. destruct (Nat.eqb_spec p q); try lia. auto. }
  destruct Ho as [-> | ->]; unfold wstep; rewrite Eq, Eq', Ep'.
  - destruct (Nat.eqb_spec p q); try lia. destruct (nth_error s p) as [[vp rp]|] eqn:Ep; auto.
    assert (p < length s) by (apply nth_error_Some; congruence).
    rewrite !nth_upd, Nat.eqb_refl, !length_upd'. simpl. destruct (Nat.ltb_spec p (length s)); try lia. auto.
  - destruct (nth_error s p) as [[vp rp]|] eqn:Ep; auto.
    assert (p < length s) by (apply nth_error_Some; congruence).
    destruct k; destruct (Nat.eqb_spec p q); try lia;
      rewrite !nth_upd, Nat.eqb_refl, !length_upd'; simpl; destruct (Nat.ltb_spec p (length s)); try lia; auto.
Qed.
End PP.
