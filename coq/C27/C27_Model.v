(** C27 hand-written executable model of the parts of Rotation.cpp / Rotation.h / Quaternion.cpp /
    Transform.h / UnitVec.h that are not straight-line (runtime axis indices, branches), written
    statement by statement after the C++.  The straight-line setters (setRotationFromAngleAboutX/Y/Z(c,s),
    setRotationToBodyFixedXYZ(c,s), setRotationFromQuaternion) are NOT here: they are regenerated from
    the source into Gen/rot27_gen.v on every run and this model calls them.
    No proofs in this file.  Everything is polymorphic in [NumOps T]; axes are their integer ids 0,1,2
    with the index arithmetic of CoordinateAxis.h.  Tied to the code by the correspondence run of
    checks/C27.py (extracted to OCaml, executed against the compiled C++ in double and float). *)
From Coq Require Import ZArith Arith Bool.
Require Import Num Vec rot27_gen.

Section M. Context {T:Type} (K:NumOps T).
Local Notation "x + y" := (nadd K x y). Local Notation "x * y" := (nmul K x y). Local Notation "x - y" := (nsub K x y).
Local Notation "x / y" := (ndiv K x y). Local Notation "- x" := (nopp K x).
Local Notation r0 := (n0 K). Local Notation r1 := (n1 K).
Definition two : T := nofZ K 2%Z.

(** ** CoordinateAxis.h *)
Definition ax_next (a:nat) : nat := Nat.modulo (a + 1)%nat 3.      (* getNextAxis: (id+1) % 3 *)
Definition ax_prev (a:nat) : nat := Nat.modulo (a + 2)%nat 3.      (* getPreviousAxis: (id+2) % 3 *)
Definition ax_same (a b:nat) : bool := Nat.eqb a b.
Definition ax_third (a b:nat) : nat :=                             (* getThirdAxis *)
  let nx := ax_next a in if negb (ax_same nx b) then nx else ax_next b.
Definition ax_isRev (a b:nat) : bool := Nat.eqb (ax_prev a) b.     (* isReverseCyclical = isPreviousAxis *)

(** ** element access with run-time indices (Mat33P& R; R[i][j] = v) *)
Definition v3_set (v:Vec3 T) (j:nat) (x:T) : Vec3 T :=
  let '(a,b,c) := v in match j with O => (x,b,c) | S O => (a,x,c) | _ => (a,b,x) end.
Definition m33_set (m:Mat33 T) (i j:nat) (x:T) : Mat33 T :=
  let '(r0,r1,r2) := m in
  match i with O => (v3_set r0 j x, r1, r2) | S O => (r0, v3_set r1 j x, r2) | _ => (r0, r1, v3_set r2 j x) end.
Definition m33_setcol (m:Mat33 T) (j:nat) (v:Vec3 T) : Mat33 T :=        (* R(colj) = v *)
  let '(a,b,c) := v in m33_set (m33_set (m33_set m 0 j a) 1 j b) 2 j c.
Definition v3_e (v:Vec3 T) (i:nat) : T := match i with O => v3_0 v | S O => v3_1 v | _ => v3_2 v end.
Definition v3_div (v:Vec3 T) (s:T) : Vec3 T := let '(a,b,c) := v in (a/s, b/s, c/s).   (* Vec::scalarDivide *)
Definition v4_div (v:Vec4 T) (s:T) : Vec4 T := let '(a,b,c,d) := v in (a/s, b/s, c/s, d/s).
Definition v4_norm (v:Vec4 T) : T := nsqrt K (v4_normSqr K v).
Definition unitvec (v:Vec3 T) : Vec3 T := v3_div v (v3_norm K v).          (* UnitVec(const Vec3&): v/v.norm() *)

(** ** one-angle setters (Rotation.h) *)
Definition setFromAngleAboutAxis (R:Mat33 T) (angle:T) (axis:nat) : Mat33 T :=     (* setRotationFromAngleAboutAxis *)
  if Nat.eqb axis 0 then k27_setX K R (ncos K angle) (nsin K angle)
  else if Nat.eqb axis 1 then k27_setY K R (ncos K angle) (nsin K angle)
  else k27_setZ K R (ncos K angle) (nsin K angle).

(** ** setTwoAngleTwoAxesBodyFixedForwardCyclicalRotation (Rotation.cpp) *)
Definition setTwoAngleTwoAxesBF (R:Mat33 T) (c1 s1:T) (axis1:nat) (c2 s2:T) (axis2:nat) : Mat33 T :=
  let axis3 := ax_third axis1 axis2 in
  let i := axis1 in let j := axis2 in let k := axis3 in
  let R := m33_set R i i c2 in
  let R := m33_set R i j r0 in
  let R := m33_set R i k s2 in
  let R := m33_set R j i (s2 * s1) in
  let R := m33_set R j j c1 in
  let R := m33_set R j k ((- s1) * c2) in
  let R := m33_set R k i ((- s2) * c1) in
  let R := m33_set R k j s1 in
  let R := m33_set R k k (c1 * c2) in
  R.

(** ** setThreeAngleTwoAxesBodyFixedForwardCyclicalRotation (i j i sequences) *)
Definition setThreeAngleTwoAxesBF (R:Mat33 T) (c1 s1:T) (axis1:nat) (c2 s2:T) (axis2:nat) (c3 s3:T) : Mat33 T :=
  let s1c3 := s1 * c3 in let s3c1 := s3 * c1 in let s1s3 := s1 * s3 in let c1c3 := c1 * c3 in
  let axis3 := ax_third axis1 axis2 in
  let i := axis1 in let j := axis2 in let k := axis3 in
  let R := m33_set R i i c2 in
  let R := m33_set R i j (s2 * s3) in
  let R := m33_set R i k (s2 * c3) in
  let R := m33_set R j i (s1 * s2) in
  let R := m33_set R j j (c1c3 - c2 * s1s3) in
  let R := m33_set R j k ((- s3c1) - c2 * s1c3) in
  let R := m33_set R k i ((- s2) * c1) in
  let R := m33_set R k j (s1c3 + c2 * s3c1) in
  let R := m33_set R k k ((- s1s3) + c2 * c1c3) in
  R.

(** ** setThreeAngleThreeAxesBodyFixedForwardCyclicalRotation (i j k sequences) *)
Definition setThreeAngleThreeAxesBF (R:Mat33 T) (c1 s1:T) (axis1:nat) (c2 s2:T) (axis2:nat) (c3 s3:T) (axis3:nat) : Mat33 T :=
  let s1c3 := s1 * c3 in let s3c1 := s3 * c1 in let s1s3 := s1 * s3 in let c1c3 := c1 * c3 in
  let i := axis1 in let j := axis2 in let k := axis3 in
  let R := m33_set R i i (c2 * c3) in
  let R := m33_set R i j ((- s3) * c2) in
  let R := m33_set R i k s2 in
  let R := m33_set R j i (s3c1 + s2 * s1c3) in
  let R := m33_set R j j (c1c3 - s2 * s1s3) in
  let R := m33_set R j k ((- s1) * c2) in
  let R := m33_set R k i (s1s3 - s2 * c1c3) in
  let R := m33_set R k j (s1c3 + s2 * s3c1) in
  let R := m33_set R k k (c1 * c2) in
  R.

(** ** setRotationFromTwoAnglesTwoAxes  (space = true for SpaceRotationSequence) *)
Definition setFromTwoAnglesTwoAxes (R:Mat33 T) (space:bool) (angle1:T) (axis1In:nat) (angle2:T) (axis2In:nat) : Mat33 T :=
  if ax_same axis1In axis2In then setFromAngleAboutAxis R (angle1 + angle2) axis1In
  else
    let '(angle1, angle2, axis1, axis2) :=
      if space then (angle2, angle1, axis2In, axis1In) else (angle1, angle2, axis1In, axis2In) in
    let '(angle1, angle2) := if ax_isRev axis1 axis2 then (- angle1, - angle2) else (angle1, angle2) in
    let c1 := ncos K angle1 in let s1 := nsin K angle1 in
    let c2 := ncos K angle2 in let s2 := nsin K angle2 in
    setTwoAngleTwoAxesBF R c1 s1 axis1 c2 s2 axis2.

(** ** setRotationFromThreeAnglesThreeAxes *)
Definition setFromThreeAnglesThreeAxes (R:Mat33 T) (space:bool) (angle1:T) (axis1In:nat) (angle2:T) (axis2:nat)
                                       (angle3:T) (axis3In:nat) : Mat33 T :=
  if ax_same axis2 axis1In then setFromTwoAnglesTwoAxes R space (angle1 + angle2) axis1In angle3 axis3In
  else if ax_same axis2 axis3In then setFromTwoAnglesTwoAxes R space angle1 axis1In (angle2 + angle3) axis3In
  else
    let '(angle1, angle3, axis1, axis3) :=
      if space then (angle3, angle1, axis3In, axis1In) else (angle1, angle3, axis1In, axis3In) in
    let '(angle1, angle2, angle3) :=
      if ax_isRev axis1 axis2 then (- angle1, - angle2, - angle3) else (angle1, angle2, angle3) in
    let c1 := ncos K angle1 in let s1 := nsin K angle1 in
    let c2 := ncos K angle2 in let s2 := nsin K angle2 in
    let c3 := ncos K angle3 in let s3 := nsin K angle3 in
    if ax_same axis1 axis3 then setThreeAngleTwoAxesBF R c1 s1 axis1 c2 s2 axis2 c3 s3
    else setThreeAngleThreeAxesBF R c1 s1 axis1 c2 s2 axis2 c3 s3 axis3.

Definition setToBodyFixedXY (R:Mat33 T) (v:Vec2 T) : Mat33 T := setFromTwoAnglesTwoAxes R false (v2_0 v) 0 (v2_1 v) 1.
Definition setToBodyFixedXYZ (R:Mat33 T) (v:Vec3 T) : Mat33 T :=
  setFromThreeAnglesThreeAxes R false (v3_0 v) 0 (v3_1 v) 1 (v3_2 v) 2.

(** ** Quaternion.cpp *)
(** setQuaternionFromAngleAxis(a, unit v) *)
Definition quatFromAngleAxis (a:T) (v:Vec3 T) : Vec4 T :=
  let ca2 := ncos K (a / two) in let sa2 := nsin K (a / two) in
  let '(ca2, sa2) := if nltb K ca2 r0 then (- ca2, - sa2) else (ca2, sa2) in
  let '(x,y,z) := v3_scale K sa2 v in (ca2, x, y, z).
(** Quaternion_::normalizeThis, returning None for the all-NaN result *)
Definition quatNormalize (eps:T) (q:Vec4 T) : option (Vec4 T) :=
  let magnitude := v4_norm q in
  if andb (nleb K magnitude r0) (nleb K r0 magnitude) then Some (r1, r0, r0, r0)
  else if nltb K magnitude eps then None
  else Some (v4_scale K (r1 / magnitude) q).
(** Quaternion_::multiply before the normalising constructor (Hamilton product) *)
Definition quatMulRaw (q1 q2:Vec4 T) : Vec4 T :=
  let '(w1,x1,y1,z1) := q1 in let '(w2,x2,y2,z2) := q2 in
  (w1*w2 - x1*x2 - y1*y2 - z1*z2,
   w1*x2 + x1*w2 + y1*z2 - z1*y2,
   w1*y2 - x1*z2 + y1*w2 + z1*x2,
   w1*z2 + x1*y2 - y1*x2 + z1*w2).
(** convertQuaternionToAngleAxis; eps2 = square(Eps), pi = Pi of the precision *)
Definition quatToAngleAxis (eps2 pi:T) (q:Vec4 T) : Vec4 T :=
  let '(ca2, x, y, z) := q in
  let sa2v : Vec3 T := (x, y, z) in
  let sa2 := v3_norm K sa2v in
  if nltb K sa2 eps2 then (r0, r1, r0, r0)
  else
    let angle := two * natan2 K sa2 ca2 in
    let angle := if nltb K pi angle then angle - two * pi else angle in
    let '(a0,a1,a2) := v3_div sa2v sa2 in
    (angle, a0, a1, a2).

(** ** Rotation <- angle/axis *)
Definition setFromAngleAboutUnitVector (R:Mat33 T) (angle:T) (u:Vec3 T) : Mat33 T :=
  k27_fromQuat K R (quatFromAngleAxis angle u).
Definition setFromAngleAboutNonUnitVector (R:Mat33 T) (angle:T) (v:Vec3 T) : Mat33 T :=
  setFromAngleAboutUnitVector R angle (unitvec v).

(** ** convertRotationToQuaternion (Spurrier-style selection) *)
Definition rotToQuatRaw (R:Mat33 T) : Vec4 T :=
  let e := m33_e R in
  let tr := e 0%nat 0%nat + e 1%nat 1%nat + e 2%nat 2%nat in
  if andb (andb (nleb K (e 0%nat 0%nat) tr) (nleb K (e 1%nat 1%nat) tr)) (nleb K (e 2%nat 2%nat) tr) then
    (r1 + tr, e 2%nat 1%nat - e 1%nat 2%nat, e 0%nat 2%nat - e 2%nat 0%nat, e 1%nat 0%nat - e 0%nat 1%nat)
  else if andb (nleb K (e 1%nat 1%nat) (e 0%nat 0%nat)) (nleb K (e 2%nat 2%nat) (e 0%nat 0%nat)) then
    (e 2%nat 1%nat - e 1%nat 2%nat, r1 - (tr - two * e 0%nat 0%nat), e 0%nat 1%nat + e 1%nat 0%nat, e 0%nat 2%nat + e 2%nat 0%nat)
  else if nleb K (e 2%nat 2%nat) (e 1%nat 1%nat) then
    (e 0%nat 2%nat - e 2%nat 0%nat, e 0%nat 1%nat + e 1%nat 0%nat, r1 - (tr - two * e 1%nat 1%nat), e 1%nat 2%nat + e 2%nat 1%nat)
  else
    (e 1%nat 0%nat - e 0%nat 1%nat, e 0%nat 2%nat + e 2%nat 0%nat, e 1%nat 2%nat + e 2%nat 1%nat, r1 - (tr - two * e 2%nat 2%nat)).
Definition rotToQuat (R:Mat33 T) : Vec4 T :=
  let q := rotToQuatRaw R in
  let scale := v4_norm q in
  let scale := if nltb K (v4_0 q) r0 then - scale else scale in
  v4_div q scale.
Definition rotToAngleAxis (eps2 pi:T) (R:Mat33 T) : Vec4 T := quatToAngleAxis eps2 pi (rotToQuat R).
(** setRotationFromApproximateMat33 *)
Definition setFromApproximateMat33 (R m:Mat33 T) : Mat33 T := k27_fromQuat K R (rotToQuat m).

(** ** UnitVec::perp, setRotationFromOneAxis, setRotationFromTwoAxes *)
Definition unit_axis (a:nat) : Vec3 T := v3_set (r0,r0,r0) a r1.
Definition perp (u:Vec3 T) : Vec3 T :=
  let '(u0,u1,u2) := u in
  let a0 := nabs K u0 in let a1 := nabs K u1 in let a2 := nabs K u2 in
  let minAxis := if nleb K a0 a1 then (if nleb K a0 a2 then 0%nat else 2%nat)
                 else (if nleb K a1 a2 then 1%nat else 2%nat) in
  unitvec (v3_cross K u (unit_axis minAxis)).
Definition setFromOneAxis (R:Mat33 T) (uveci:Vec3 T) (axisi:nat) : Mat33 T :=
  let uvecj := perp uveci in
  let uveck := unitvec (v3_cross K uveci uvecj) in
  let axisj := ax_next axisi in let axisk := ax_next axisj in
  let R := m33_setcol R axisi uveci in
  let R := m33_setcol R axisj uvecj in
  let R := m33_setcol R axisk uveck in
  R.
Definition setFromTwoAxes (sqrtEps:T) (R:Mat33 T) (uveci:Vec3 T) (axisi:nat) (vecjApprox:Vec3 T) (axisjApprox:nat) : Mat33 T :=
  let magnitudeOfVecjApprox := v3_normSqr K vecjApprox in
  if orb (andb (nleb K magnitudeOfVecjApprox r0) (nleb K r0 magnitudeOfVecjApprox)) (ax_same axisi axisjApprox)
  then setFromOneAxis R uveci axisi
  else
    let veck := v3_cross K uveci vecjApprox in
    let magnitudeOfVeck := v3_normSqr K veck in
    if nltb K magnitudeOfVeck (sqrtEps * magnitudeOfVecjApprox) then setFromOneAxis R uveci axisi
    else
      let uveck := unitvec veck in
      let uvecj := unitvec (v3_cross K uveck uveci) in
      let uveck := unitvec (v3_cross K uveci uvecj) in      (* re-orthogonalised against uveci (fix f480eb94) *)
      let axisj := ax_next axisi in let axisk := ax_next axisj in
      let '(axisj, axisk, uveck) :=
        if negb (ax_same axisj axisjApprox) then (axisk, axisj, v3_neg K uveck) else (axisj, axisk, uveck) in
      let R := m33_setcol R axisi uveci in
      let R := m33_setcol R axisj uvecj in
      let R := m33_setcol R axisk uveck in
      R.

(** ** reexpressSymMat33 (Rotation_ and InverseRotation_ share this text; R is the matrix asMat33() shows) *)
Definition reexpressSymMat33 (R:Mat33 T) (S_BB:SymMat33 T) : SymMat33 T :=
  let '((a,b,c),(d,e,f)) := S_BB in
  let '((R00,R01,R02),(R10,R11,R12),(R20,R21,R22)) := R in
  (* L = [a-c d; d b-c; 2e 2f]  (3x2), columns L(0), L(1) *)
  let L00 := a - c in let L01 := d in let L10 := d in let L11 := b - c in let L20 := two * e in let L21 := two * f in
  (* Y = [R[1]*L(0) R[1]*L(1); R[2]*L(0) R[2]*L(1)]  (Row3 * Vec3 = sum left to right) *)
  let Y00 := R10*L00 + R11*L10 + R12*L20 in let Y01 := R10*L01 + R11*L11 + R12*L21 in
  let Y10 := R20*L00 + R21*L10 + R22*L20 in let Y11 := R20*L01 + R21*L11 + R22*L21 in
  (* Zij = Y[i] * ~RR[j], RR = first two columns of R *)
  let Z10 := Y00*R00 + Y01*R01 in let Z11 := Y00*R10 + Y01*R11 in
  let Z20 := Y10*R00 + Y11*R01 in let Z21 := Y10*R10 + Y11*R11 in let Z22 := Y10*R20 + Y11*R21 in
  let Z00 := (L00 + L11) - (Z11 + Z22) in
  let Rv0 := R01*e - R00*f in let Rv1 := R11*e - R10*f in let Rv2 := R21*e - R20*f in
  (* SymMat33P(Z00+c, Z10+Rv2, Z11+c, Z20-Rv1, Z21+Rv0, Z22+c) : lower triangle by rows *)
  ((Z00 + c, Z11 + c, Z22 + c), (Z10 + Rv2, Z20 - Rv1, Z21 + Rv0)).

(** ** Rotation products: operator*(R1,R2) = Rotation(R1) *= R2; InverseRotation shows the transpose of its storage *)
Definition rot_mul (R1 R2:Mat33 T) : Mat33 T := m33_mul K R1 R2.
Definition rot_mul_inv (R1 R2s:Mat33 T) : Mat33 T := m33_mul K R1 (m33_T R2s).       (* R1 * ~R2 *)
Definition inv_mul_rot (R1s R2:Mat33 T) : Mat33 T := m33_mul K (m33_T R1s) R2.       (* ~R1 * R2 *)
Definition rot_div (R1 R2:Mat33 T) : Mat33 T := m33_mul K R1 (m33_T R2).              (* R1 / R2 = R1 * ~R2 *)

(** ** Transform_ (R_BF,p_BF) and InverseTransform_ (same storage (R_FB,p_FB), different reading) *)
Definition X_compose (X Y:Transform T) : Transform T :=
  (m33_mul K (fst X) (fst Y), v3_add K (snd X) (m33_mulv K (fst X) (snd Y))).
Definition IX_R (Xi:Transform T) : Mat33 T := m33_T (fst Xi).                                  (* ~R_FB *)
Definition IX_p (Xi:Transform T) : Vec3 T := v3_neg K (m33_mulv K (m33_T (fst Xi)) (snd Xi)).  (* -(~R_FB*p_FB) *)
Definition X_composeInv (X Yi:Transform T) : Transform T :=
  (m33_mul K (fst X) (IX_R Yi), v3_add K (snd X) (m33_mulv K (fst X) (IX_p Yi))).
Definition IX_compose (Xi Y:Transform T) : Transform T :=
  (m33_mul K (m33_T (fst Xi)) (fst Y), m33_mulv K (m33_T (fst Xi)) (v3_sub K (snd Y) (snd Xi))).
Definition IX_composeInv (Xi Yi:Transform T) : Transform T :=
  (m33_mul K (m33_T (fst Xi)) (IX_R Yi), m33_mulv K (m33_T (fst Xi)) (v3_sub K (IX_p Yi) (snd Xi))).
Definition X_xformFrameVecToBase (X:Transform T) (v:Vec3 T) := m33_mulv K (fst X) v.
Definition X_xformBaseVecToFrame (X:Transform T) (v:Vec3 T) := m33_mulv K (m33_T (fst X)) v.
Definition X_shiftFrameStationToBase (X:Transform T) (s:Vec3 T) := v3_add K (snd X) (X_xformFrameVecToBase X s).
Definition X_shiftBaseStationToFrame (X:Transform T) (s:Vec3 T) := X_xformBaseVecToFrame X (v3_sub K s (snd X)).
Definition X_pInv (X:Transform T) : Vec3 T := v3_neg K (m33_mulv K (m33_T (fst X)) (snd X)).
Definition IX_shiftFrameStationToBase (Xi:Transform T) (s:Vec3 T) := m33_mulv K (m33_T (fst Xi)) (v3_sub K s (snd Xi)).
Definition IX_shiftBaseStationToFrame (Xi:Transform T) (s:Vec3 T) := v3_add K (m33_mulv K (fst Xi) s) (snd Xi).
(** Transform_(const InverseTransform_&) / operator=(InverseTransform): the explicit inverse *)
Definition IX_toTransform (Xi:Transform T) : Transform T := (IX_R Xi, IX_p Xi).
(** InverseTransform_::operator=(const Transform_&): storage that reads as X *)
Definition IX_ofTransform (X:Transform T) : Transform T := (m33_T (fst X), X_pInv X).

(** ** matrix -> angles (all through atan2: executed by the correspondence only) *)
Definition sq (x:T) := x * x.
Definition sgn1 (x:T) : T := if nltb K r0 x then r1 else - r1.
Definition convertOneAxisToOneAngle (R:Mat33 T) (axis1:nat) : T :=
  let axis2 := ax_next axis1 in let axis3 := ax_next axis2 in
  let j := axis2 in let k := axis3 in let e := m33_e R in
  let sinTheta := (e k j - e j k) / two in
  let cosTheta := (e j j + e k k) / two in
  natan2 K sinTheta cosTheta.
Definition convertTwoAxesBFToTwoAngles (R:Mat33 T) (axis1 axis2:nat) : Vec2 T :=
  let axis3 := ax_third axis1 axis2 in
  let i := axis1 in let j := axis2 in let k := axis3 in let e := m33_e R in
  let sinTheta1Direct := e k j in
  let sinTheta1Alternate := sgn1 sinTheta1Direct * nsqrt K (sq (e j i) + sq (e j k)) in
  let sinTheta1 := (sinTheta1Direct + sinTheta1Alternate) / two in
  let cosTheta1Direct := e j j in
  let cosTheta1Alternate := sgn1 cosTheta1Direct * nsqrt K (sq (e k i) + sq (e k k)) in
  let cosTheta1 := (cosTheta1Direct + cosTheta1Alternate) / two in
  let theta1 := natan2 K sinTheta1 cosTheta1 in
  let sinTheta2Direct := e i k in
  let sinTheta2Alternate := sgn1 sinTheta2Direct * nsqrt K (sq (e j i) + sq (e k i)) in
  let sinTheta2 := (sinTheta2Direct + sinTheta2Alternate) / two in
  let cosTheta2Direct := e i i in
  let cosTheta2Alternate := sgn1 cosTheta2Direct * nsqrt K (sq (e j k) + sq (e k k)) in
  let cosTheta2 := (cosTheta2Direct + cosTheta2Alternate) / two in
  let theta2 := natan2 K sinTheta2 cosTheta2 in
  if ax_isRev axis1 axis2 then (- theta1, - theta2) else (theta1, theta2).
Definition convertTwoAxesToTwoAngles (R:Mat33 T) (space:bool) (axis1In axis2In:nat) : Vec2 T :=
  if ax_same axis1In axis2In then let theta := convertOneAxisToOneAngle R axis1In / two in (theta, theta)
  else
    let '(axis1, axis2) := if space then (axis2In, axis1In) else (axis1In, axis2In) in
    let ans := convertTwoAxesBFToTwoAngles R axis1 axis2 in
    if space then (snd ans, fst ans) else ans.
Definition convertTwoAxesBFToThreeAngles (eps4:T) (R:Mat33 T) (axis1 axis2:nat) : Vec3 T :=
  let axis3 := ax_third axis1 axis2 in
  let i := axis1 in let j := axis2 in let k := axis3 in let e := m33_e R in
  let '(plusMinus, minusPlus) := if ax_isRev axis1 axis2 then (- r1, r1) else (r1, - r1) in
  let Rsum := nsqrt K ((sq (e i j) + sq (e i k) + sq (e j i) + sq (e k i)) / two) in
  let theta2 := natan2 K Rsum (e i i) in
  if nltb K eps4 Rsum then
    (natan2 K (e j i) (minusPlus * e k i), theta2, natan2 K (e i j) (plusMinus * e i k))
  else if nltb K r0 (e i i) then
    let spos := plusMinus * e k j + minusPlus * e j k in
    let cpos := e j j + e k k in
    (natan2 K spos cpos, theta2, r0)
  else
    let sneg := plusMinus * e k j + plusMinus * e j k in
    let cneg := e j j - e k k in
    (natan2 K sneg cneg, theta2, r0).
Definition convertThreeAxesBFToThreeAngles (eps4:T) (R:Mat33 T) (axis1 axis2 axis3:nat) : Vec3 T :=
  let i := axis1 in let j := axis2 in let k := axis3 in let e := m33_e R in
  let '(plusMinus, minusPlus) := if ax_isRev axis1 axis2 then (- r1, r1) else (r1, - r1) in
  let Rsum := nsqrt K ((sq (e i i) + sq (e i j) + sq (e j k) + sq (e k k)) / two) in
  let theta2 := natan2 K (plusMinus * e i k) Rsum in
  if nltb K eps4 Rsum then
    (natan2 K (minusPlus * e j k) (e k k), theta2, natan2 K (minusPlus * e i j) (e i i))
  else if nltb K r0 (plusMinus * e i k) then
    let spos := e j i + plusMinus * e k j in
    let cpos := e j j + minusPlus * e k i in
    (natan2 K spos cpos, theta2, r0)
  else
    let sneg := plusMinus * (e k j + minusPlus * e j i) in
    let cneg := e j j + plusMinus * e k i in
    (natan2 K sneg cneg, theta2, r0).
Definition convertThreeAxesToThreeAngles (eps4:T) (R:Mat33 T) (space:bool) (axis1In axis2 axis3In:nat) : Vec3 T :=
  if andb (ax_same axis1In axis2) (ax_same axis1In axis3In) then
    let theta := convertOneAxisToOneAngle R axis1In / nofZ K 3%Z in (theta, theta, theta)
  else if ax_same axis2 axis1In then
    let xz := convertTwoAxesToTwoAngles R space axis1In axis3In in
    let theta := fst xz / two in (theta, theta, snd xz)
  else if ax_same axis2 axis3In then
    let xz := convertTwoAxesToTwoAngles R space axis1In axis3In in
    let theta := snd xz / two in (fst xz, theta, theta)
  else
    let '(axis1, axis3) := if space then (axis3In, axis1In) else (axis1In, axis3In) in
    let ans := if ax_same axis1 axis3 then convertTwoAxesBFToThreeAngles eps4 R axis1 axis2
               else convertThreeAxesBFToThreeAngles eps4 R axis1 axis2 axis3 in
    if space then let '(a,b,c) := ans in (c,b,a) else ans.

(** ** reference objects the theorems compare with (not code) *)
Definition Relem (axis:nat) (c s:T) : Mat33 T :=                  (* right-handed rotation about a coordinate axis *)
  match axis with
  | O   => ((r1, r0, r0), (r0, c, - s), (r0, s, c))
  | S O => ((c, r0, s), (r0, r1, r0), (- s, r0, c))
  | _   => ((c, - s, r0), (s, c, r0), (r0, r0, r1))
  end.
Definition Rang (axis:nat) (q:T) : Mat33 T := Relem axis (ncos K q) (nsin K q).
Definition is_ortho (R:Mat33 T) : Prop := m33_mul K R (m33_T R) = m33_id K /\ m33_mul K (m33_T R) R = m33_id K.
Definition is_rotation (R:Mat33 T) : Prop := is_ortho R /\ m33_det K R = r1.
Definition sym_RSRt (R:Mat33 T) (S:SymMat33 T) : Mat33 T := m33_mul K (m33_mul K R (sym_to_m33 S)) (m33_T R).
End M.
