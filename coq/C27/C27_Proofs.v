(** C27 proofs.  Definitions: Gen/rot27_gen.v (regenerated from Rotation.h/Rotation.cpp on every run) and
    C27/C27_Model.v (hand model, tied by the correspondence run).  All theorems are over the reals (ROps). *)
From Coq Require Import ZArith Arith Reals Lra Lia Psatz Nsatz Bool.
Require Import Num Vec Tactics rot27_gen C27_Model.
Local Open Scope R_scope.

Ltac unf27 := cbv [k27_setX k27_setY k27_setZ k27_bodyXYZ k27_fromQuat k27_trustMe
  ax_next ax_prev ax_same ax_third ax_isRev Nat.modulo Nat.divmod Nat.eqb Nat.add negb andb orb
  v3_set m33_set m33_setcol v3_e v3_div v4_div v4_norm unitvec two sq
  setFromAngleAboutAxis setTwoAngleTwoAxesBF setThreeAngleTwoAxesBF setThreeAngleThreeAxesBF
  setFromTwoAnglesTwoAxes setFromThreeAnglesThreeAxes setToBodyFixedXY setToBodyFixedXYZ
  quatFromAngleAxis quatMulRaw setFromAngleAboutUnitVector setFromAngleAboutNonUnitVector
  setFromApproximateMat33 unit_axis
  reexpressSymMat33 rot_mul rot_mul_inv inv_mul_rot rot_div
  X_compose IX_R IX_p X_composeInv IX_compose IX_composeInv X_xformFrameVecToBase X_xformBaseVecToFrame
  X_shiftFrameStationToBase X_shiftBaseStationToFrame X_pInv IX_shiftFrameStationToBase IX_shiftBaseStationToFrame
  IX_toTransform IX_ofTransform Relem Rang is_ortho is_rotation sym_RSRt]; vunf.

Definition I33 : Mat33 R := ((1,0,0),(0,1,0),(0,0,1)).
Notation mm := (m33_mul ROps).
Notation tr33 := (@m33_T R).
Ltac fin3 i := destruct i as [|[|[|i]]]; try lia.
Ltac dmat A := destruct A as [[[[? ?] ?] [[? ?] ?]] [[? ?] ?]].
Ltac dvec v := destruct v as [[? ?] ?].

Lemma sc1 x : sin x * sin x + cos x * cos x = 1.
Proof. generalize (sin2_cos2 x); unfold Rsqr; lra. Qed.

(** ** generic matrix facts used to compose results *)
Lemma mm_assoc A B C : mm (mm A B) C = mm A (mm B C).
Proof. dmat A; dmat B; dmat C. vunf. teq; ring. Qed.
Lemma mm_T A B : tr33 (mm A B) = mm (tr33 B) (tr33 A).
Proof. dmat A; dmat B. vunf. teq; ring. Qed.
Lemma T_T A : tr33 (tr33 A) = A.
Proof. dmat A. reflexivity. Qed.
Lemma mm_id_l A : mm (m33_id ROps) A = A.
Proof. dmat A. vunf. teq; ring. Qed.
Lemma mm_id_r A : mm A (m33_id ROps) = A.
Proof. dmat A. vunf. teq; ring. Qed.
Lemma det_mm A B : m33_det ROps (mm A B) = m33_det ROps A * m33_det ROps B.
Proof. dmat A; dmat B. vunf. ring. Qed.
Lemma det_T A : m33_det ROps (tr33 A) = m33_det ROps A.
Proof. dmat A. vunf. ring. Qed.
Lemma id_is_I33 : m33_id ROps = I33.
Proof. reflexivity. Qed.

(** the product of two proper rotations is a proper rotation; so is the transpose *)
Lemma rotation_mul A B : is_rotation ROps A -> is_rotation ROps B -> is_rotation ROps (mm A B).
Proof. intros [[A1 A2] A3] [[B1 B2] B3]. repeat split.
  - rewrite mm_T, mm_assoc, <- (mm_assoc B), B1, mm_id_l. exact A1.
  - rewrite mm_T, mm_assoc, <- (mm_assoc (tr33 A)), A2, mm_id_l. exact B2.
  - rewrite det_mm, A3, B3. cbn. ring. Qed.
Lemma rotation_T A : is_rotation ROps A -> is_rotation ROps (tr33 A).
Proof. intros [[A1 A2] A3]. repeat split; rewrite ?T_T, ?det_T; auto. Qed.
Lemma rotation_id : is_rotation ROps (m33_id ROps).
Proof. repeat split; vunf; teq; ring. Qed.

(** ** one-angle setters (translated): the result does not depend on the previous contents and is the
       elementary rotation about that axis *)
Lemma setX_is_Relem R0 c s : k27_setX ROps R0 c s = Relem ROps 0 c s.
Proof. dmat R0. reflexivity. Qed.
Lemma setY_is_Relem R0 c s : k27_setY ROps R0 c s = Relem ROps 1 c s.
Proof. dmat R0. reflexivity. Qed.
Lemma setZ_is_Relem R0 c s : k27_setZ ROps R0 c s = Relem ROps 2 c s.
Proof. dmat R0. reflexivity. Qed.
Lemma Relem_rotation (a:nat) c s : (a < 3)%nat -> s*s + c*c = 1 -> is_rotation ROps (Relem ROps a c s).
Proof. intros Ha H. fin3 a; unf27; repeat split; teq; rfield. Qed.
Lemma Rang_rotation (a:nat) q : (a < 3)%nat -> is_rotation ROps (Rang ROps a q).
Proof. intros. apply Relem_rotation; auto. apply sc1. Qed.
Lemma setFromAngleAboutAxis_is_Rang R0 q (a:nat) : (a < 3)%nat -> setFromAngleAboutAxis ROps R0 q a = Rang ROps a q.
Proof. intros Ha. dmat R0. fin3 a; reflexivity. Qed.
Lemma setFromAngleAboutAxis_rotation R0 q (a:nat) : (a < 3)%nat -> is_rotation ROps (setFromAngleAboutAxis ROps R0 q a).
Proof. intros. rewrite setFromAngleAboutAxis_is_Rang; auto. apply Rang_rotation; auto. Qed.

(** ** two- and three-angle sequences, all axis combinations, body- and space-fixed:
       the closed forms written by the code equal the product of the elementary rotations *)
Definition seq2 (space:bool) (a1:R) (i:nat) (a2:R) (j:nat) : Mat33 R :=
  if space then mm (Rang ROps j a2) (Rang ROps i a1) else mm (Rang ROps i a1) (Rang ROps j a2).
Definition seq3 (space:bool) (a1:R) (i:nat) (a2:R) (j:nat) (a3:R) (k:nat) : Mat33 R :=
  if space then mm (mm (Rang ROps k a3) (Rang ROps j a2)) (Rang ROps i a1)
  else mm (mm (Rang ROps i a1) (Rang ROps j a2)) (Rang ROps k a3).
Ltac trig := repeat (rewrite cos_neg || rewrite sin_neg || rewrite cos_plus || rewrite sin_plus).

Lemma two_angles_is_product R0 space a1 (i:nat) a2 (j:nat) : (i < 3)%nat -> (j < 3)%nat ->
  setFromTwoAnglesTwoAxes ROps R0 space a1 i a2 j = seq2 space a1 i a2 j.
Proof. intros Hi Hj. dmat R0. fin3 i; fin3 j; destruct space; cbv [seq2]; unf27; cbv [Nat.sub]; trig; teq; ring. Qed.

Lemma three_angles_is_product R0 space a1 (i:nat) a2 (j:nat) a3 (k:nat) : (i < 3)%nat -> (j < 3)%nat -> (k < 3)%nat ->
  setFromThreeAnglesThreeAxes ROps R0 space a1 i a2 j a3 k = seq3 space a1 i a2 j a3 k.
Proof. intros Hi Hj Hk. dmat R0. fin3 i; fin3 j; fin3 k; destruct space; cbv [seq3]; unf27; cbv [Nat.sub]; trig; teq; ring. Qed.

Lemma seq2_rotation space a1 (i:nat) a2 (j:nat) : (i < 3)%nat -> (j < 3)%nat -> is_rotation ROps (seq2 space a1 i a2 j).
Proof. intros. unfold seq2. destruct space; apply rotation_mul; apply Rang_rotation; auto. Qed.
Lemma seq3_rotation space a1 (i:nat) a2 (j:nat) a3 (k:nat) : (i < 3)%nat -> (j < 3)%nat -> (k < 3)%nat ->
  is_rotation ROps (seq3 space a1 i a2 j a3 k).
Proof. intros. unfold seq3. destruct space; repeat apply rotation_mul; apply Rang_rotation; auto. Qed.

Lemma two_angles_rotation R0 space a1 (i:nat) a2 (j:nat) : (i < 3)%nat -> (j < 3)%nat ->
  is_rotation ROps (setFromTwoAnglesTwoAxes ROps R0 space a1 i a2 j).
Proof. intros. rewrite two_angles_is_product; auto. apply seq2_rotation; auto. Qed.
Lemma three_angles_rotation R0 space a1 (i:nat) a2 (j:nat) a3 (k:nat) : (i < 3)%nat -> (j < 3)%nat -> (k < 3)%nat ->
  is_rotation ROps (setFromThreeAnglesThreeAxes ROps R0 space a1 i a2 j a3 k).
Proof. intros. rewrite three_angles_is_product; auto. apply seq3_rotation; auto. Qed.

(** the private closed-form writers themselves, for any (cos,sin) pairs: with forward-cyclical axes they are the
    product of elementary rotations; with reverse-cyclical axes the product for the negated angles (which is how
    the dispatchers call them) *)
Lemma twoBF_is_product R0 c1 s1 (i:nat) c2 s2 (j:nat) : (i < 3)%nat -> (j < 3)%nat -> i <> j ->
  setTwoAngleTwoAxesBF ROps R0 c1 s1 i c2 s2 j =
  if ax_isRev i j then mm (Relem ROps i c1 (-s1)) (Relem ROps j c2 (-s2)) else mm (Relem ROps i c1 s1) (Relem ROps j c2 s2).
Proof. intros Hi Hj Hd. dmat R0. fin3 i; fin3 j; try congruence; unf27; cbv [Nat.sub]; teq; ring. Qed.
Lemma threeBF2_is_product R0 c1 s1 (i:nat) c2 s2 (j:nat) c3 s3 : (i < 3)%nat -> (j < 3)%nat -> i <> j ->
  setThreeAngleTwoAxesBF ROps R0 c1 s1 i c2 s2 j c3 s3 =
  if ax_isRev i j then mm (mm (Relem ROps i c1 (-s1)) (Relem ROps j c2 (-s2))) (Relem ROps i c3 (-s3))
  else mm (mm (Relem ROps i c1 s1) (Relem ROps j c2 s2)) (Relem ROps i c3 s3).
Proof. intros Hi Hj Hd. dmat R0. fin3 i; fin3 j; try congruence; unf27; cbv [Nat.sub]; teq; ring. Qed.
Lemma threeBF3_is_product R0 c1 s1 (i:nat) c2 s2 (j:nat) c3 s3 (k:nat) : (i < 3)%nat -> (j < 3)%nat -> (k < 3)%nat ->
  i <> j -> j <> k -> i <> k ->
  setThreeAngleThreeAxesBF ROps R0 c1 s1 i c2 s2 j c3 s3 k =
  if ax_isRev i j then mm (mm (Relem ROps i c1 (-s1)) (Relem ROps j c2 (-s2))) (Relem ROps k c3 (-s3))
  else mm (mm (Relem ROps i c1 s1) (Relem ROps j c2 s2)) (Relem ROps k c3 s3).
Proof. intros Hi Hj Hk H1 H2 H3. dmat R0. fin3 i; fin3 j; fin3 k; try congruence; unf27; cbv [Nat.sub]; teq; ring. Qed.

(** setRotationToBodyFixedXYZ: the angle version goes through the generic sequence code, the (cos,sin) version is translated *)
Lemma bodyXYZ_cs_is_product R0 c0 c1 c2 s0 s1 s2 :
  k27_bodyXYZ ROps R0 (c0,c1,c2) (s0,s1,s2) = mm (mm (Relem ROps 0 c0 s0) (Relem ROps 1 c1 s1)) (Relem ROps 2 c2 s2).
Proof. dmat R0. unf27. teq; ring. Qed.
Lemma bodyXYZ_cs_rotation R0 c0 c1 c2 s0 s1 s2 : s0*s0+c0*c0 = 1 -> s1*s1+c1*c1 = 1 -> s2*s2+c2*c2 = 1 ->
  is_rotation ROps (k27_bodyXYZ ROps R0 (c0,c1,c2) (s0,s1,s2)).
Proof. intros. rewrite bodyXYZ_cs_is_product. repeat apply rotation_mul; apply Relem_rotation; auto. Qed.
Lemma bodyXYZ_angles_agree R0 R1 q0 q1 q2 :
  setToBodyFixedXYZ ROps R0 (q0,q1,q2) = k27_bodyXYZ ROps R1 (cos q0, cos q1, cos q2) (sin q0, sin q1, sin q2).
Proof. unfold setToBodyFixedXYZ. cbv [v3_0 v3_1 v3_2]. rewrite three_angles_is_product by lia. rewrite bodyXYZ_cs_is_product. reflexivity. Qed.
Lemma bodyXYZ_rotation R0 q0 q1 q2 : is_rotation ROps (setToBodyFixedXYZ ROps R0 (q0,q1,q2)).
Proof. unfold setToBodyFixedXYZ. apply three_angles_rotation; lia. Qed.
Lemma bodyXY_rotation R0 q0 q1 : is_rotation ROps (setToBodyFixedXY ROps R0 (q0,q1)).
Proof. unfold setToBodyFixedXY. apply two_angles_rotation; lia. Qed.
