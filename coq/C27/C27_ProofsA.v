(** C27 proofs, part A: UnitVec::perp, setRotationFromOneAxis, setRotationFromTwoAxes (all branches). *)
From Coq Require Import ZArith Arith Reals Lra Lia Psatz Nsatz Bool.
Require Import Num Vec Tactics rot27_gen C27_Model C27_Proofs.
Local Open Scope R_scope.

(** ** UnitVec::perp, setRotationFromOneAxis, setRotationFromTwoAxes *)
Notation nsq := (v3_normSqr ROps).
Notation dot3 := (v3_dot ROps).
Notation cross3 := (v3_cross ROps).
Lemma nsq_nonneg v : 0 <= nsq v.
Proof. dvec v. vunf. nra. Qed.
Lemma unitvec_spec w n : n * n = nsq w -> 0 < n -> unitvec ROps w = v3_div ROps w n.
Proof. intros H Hn. unfold unitvec, v3_norm. cbn [nsqrt ROps]. rewrite <- H. rewrite sqrt_square by lra. reflexivity. Qed.
Lemma unitvec_of_unit w : nsq w = 1 -> unitvec ROps w = w.
Proof. intros H. rewrite (unitvec_spec w 1) by lra. dvec w. cbv [v3_div ndiv ROps]. teq; field. Qed.
Lemma cross_unit_perp a b : nsq a = 1 -> nsq b = 1 -> dot3 a b = 0 -> nsq (cross3 a b) = 1.
Proof. dvec a; dvec b. vunf. intros. nsatz_or_fail. Qed.
Lemma div_unit w n : n * n = nsq w -> 0 < n -> nsq (v3_div ROps w n) = 1.
Proof. dvec w. cbv [v3_div]. vunf. intros H Hn. field_simplify_eq; [|lra]. cbv [Rpow_def.pow]. clear Hn. nsatz_or_fail. Qed.

Definition col3 (M:Mat33 R) (j:nat) : Vec3 R := (m33_e M 0 j, m33_e M 1 j, m33_e M 2 j).
(** three columns a, b, a x b (a, b orthonormal) placed at axes i, next i, next next i, in either order of the last two
    assignments, form a proper rotation, whatever the previous contents were *)
Lemma cols_rotation R0 (i:nat) a b : (i < 3)%nat -> nsq a = 1 -> nsq b = 1 -> dot3 a b = 0 ->
  let c := cross3 a b in
  let j := ax_next i in let k := ax_next j in
  let M1 := m33_setcol (m33_setcol (m33_setcol R0 i a) j b) k c in
  let M2 := m33_setcol (m33_setcol (m33_setcol R0 i a) k c) j b in
  is_rotation ROps M1 /\ M2 = M1 /\ col3 M1 i = a /\ col3 M1 j = b /\ col3 M1 k = c.
Proof. intros Hi Ha Hb Hab. dmat R0; dvec a; dvec b. revert Ha Hb Hab. fin3 i; unf27; cbv [Nat.sub]; intros Ha Hb Hab;
  (split; [repeat split; teq; nsatz_or_fail | repeat split; reflexivity]). Qed.

(** perp(u) is a unit vector perpendicular to u (u unit) *)
Lemma perp_spec u : nsq u = 1 -> nsq (perp ROps u) = 1 /\ dot3 u (perp ROps u) = 0.
Proof. dvec u. rename r into u0, r0 into u1, r1 into u2. intros H. unfold perp. cbn [nabs nleb ROps].
  cbv [Rleb]. destruct (Rle_dec (Rabs u0) (Rabs u1)) as [A|A]; [destruct (Rle_dec (Rabs u0) (Rabs u2)) as [B|B] | destruct (Rle_dec (Rabs u1) (Rabs u2)) as [B|B]].
  all: try apply Rnot_le_lt in A; try apply Rnot_le_lt in B.
  all: try (apply Rsqr_le_abs_1 in A); try (apply Rsqr_le_abs_1 in B); try (apply Rlt_le in A; apply Rsqr_le_abs_1 in A); try (apply Rlt_le in B; apply Rsqr_le_abs_1 in B);
       unfold Rsqr in *; cbv [v3_normSqr v3_dot nadd nmul ROps] in H; cbv iota.
  all: match goal with |- context[unitvec ROps ?w] =>
         let n := fresh "n" in set (n := sqrt (nsq w));
         assert (Hnn : n * n = nsq w) by (subst n; apply sqrt_sqrt; apply nsq_nonneg);
         assert (Hn : 0 < n) by (subst n; apply sqrt_lt_R0; cbv [unit_axis v3_set]; vunf; nra);
         rewrite (unitvec_spec w n Hnn Hn); revert Hnn; clearbody n end.
  all: cbv [unit_axis v3_set v3_div]; vunf; intros Hnn; split; (field_simplify_eq; [|lra]); cbv [Rpow_def.pow]; clear -H Hnn; nsatz_or_fail.
Qed.

Lemma cross_unit_perp_dot a b : nsq a = 1 -> nsq b = 1 -> dot3 a b = 0 ->
  dot3 a (cross3 a b) = 0 /\ dot3 b (cross3 a b) = 0.
Proof. dvec a; dvec b. vunf. intros. split; ring. Qed.

(** setRotationFromOneAxis: for a unit vector the result is a proper rotation whose column axisi is that vector *)
Lemma oneAxis_rotation R0 u (i:nat) : (i < 3)%nat -> nsq u = 1 ->
  let M := setFromOneAxis ROps R0 u i in is_rotation ROps M /\ col3 M i = u.
Proof. intros Hi Hu. destruct (perp_spec u Hu) as [P1 P2]. cbv zeta. unfold setFromOneAxis.
  set (b := perp ROps u) in *. clearbody b.
  rewrite (unitvec_of_unit (cross3 u b)) by (apply cross_unit_perp; auto).
  destruct (cols_rotation R0 i u b Hi Hu P1 P2) as [A [_ [C _]]]. cbv zeta in A, C. split; auto. Qed.

(** setRotationFromTwoAxes, main branch (the code's guards as hypotheses): proper rotation, column axisi is u,
    column axisj points towards vecjApprox *)
Lemma twoAxes_rotation_main se R0 u v (i j:nat) : (i < 3)%nat -> (j < 3)%nat -> i <> j -> nsq u = 1 ->
  0 < nsq v -> 0 < nsq (cross3 u v) -> se * nsq v <= nsq (cross3 u v) ->
  let M := setFromTwoAxes ROps se R0 u i v j in
  is_rotation ROps M /\ col3 M i = u /\ 0 < dot3 (col3 M j) v.
Proof. intros Hi Hj Hij Hu Hv Hw Hse. cbv zeta. unfold setFromTwoAxes. cbn [nleb nltb nmul n0 ROps].
  replace (Rleb (nsq v) 0) with false by (symmetry; apply Rleb_false; lra). cbn [andb orb].
  replace (ax_same i j) with false by (symmetry; apply Nat.eqb_neq; auto).
  replace (Rltb (nsq (cross3 u v)) (se * nsq v)) with false by (symmetry; apply Rltb_false; lra).
  set (w := cross3 u v) in *. set (n := sqrt (nsq w)).
  assert (Hnn : n * n = nsq w) by (subst n; apply sqrt_sqrt; apply nsq_nonneg).
  assert (Hn : 0 < n) by (subst n; apply sqrt_lt_R0; auto).
  rewrite (unitvec_spec w n Hnn Hn). set (k := v3_div ROps w n).
  assert (K1 : nsq k = 1) by (apply div_unit; auto).
  assert (K2 : dot3 k u = 0).
  { subst k w. dvec u; dvec v. cbv [v3_div]. vunf. field. lra. }
  assert (K3 : 0 < dot3 (cross3 k u) v).
  { subst k w. dvec u; dvec v. revert Hnn. cbv [v3_div]. vunf. intros Hnn.
    match goal with |- 0 < ?e => replace e with n by (field_simplify_eq; [|lra]; cbv [Rpow_def.pow]; clear -Hnn; nsatz_or_fail) end. exact Hn. }
  rewrite (unitvec_of_unit (cross3 k u)) by (apply cross_unit_perp; auto).
  set (b := cross3 k u) in *.
  assert (B1 : nsq b = 1) by (apply cross_unit_perp; auto).
  assert (B2 : dot3 u b = 0) by (subst b; dvec u; dvec k; vunf; ring).
  assert (B3 : cross3 u b = k).
  { subst b. dvec u; dvec k. revert Hu K2. vunf. intros Hu K2. teq; nsatz_or_fail. }
  (* the code recomputes uveck := unit(u x uvecj): over the reals that is k again *)
  rewrite (unitvec_of_unit (cross3 u b)) by (apply cross_unit_perp; auto). rewrite B3.
  assert (N1 : nsq (v3_neg ROps k) = 1) by (dvec k; revert K1; vunf; intros K1; nsatz_or_fail).
  assert (N2 : dot3 u (v3_neg ROps k) = 0) by (dvec k; dvec u; revert K2; vunf; intros K2; nsatz_or_fail).
  assert (B4 : cross3 u (v3_neg ROps k) = b) by (subst b; dvec u; dvec k; vunf; teq; ring).
  clearbody b k. clear Hnn Hn n w Hw Hse Hv.
  fin3 i; fin3 j; try congruence; cbv [ax_next ax_same Nat.modulo Nat.divmod Nat.eqb Nat.add negb fst snd Nat.sub].
  (* no swap: columns (i, next i, next next i) = (u, b, u x b = k);  swap: (u, -k, u x (-k) = b) assigned in the other order *)
  all: match goal with
       | |- is_rotation _ (m33_setcol (m33_setcol (m33_setcol _ ?i _) _ _) _ (v3_neg _ _)) /\ _ =>
           pose proof (cols_rotation R0 i u (v3_neg ROps k) ltac:(lia) Hu N1 N2) as P; cbv zeta in P; rewrite B4 in P;
           cbv [ax_next Nat.modulo Nat.divmod Nat.add fst snd Nat.sub] in P; destruct P as [A [E [C1 [_ C3]]]];
           rewrite E; split; [exact A | split; [exact C1 | rewrite C3; exact K3]]
       | |- is_rotation _ (m33_setcol (m33_setcol (m33_setcol _ ?i _) _ _) _ _) /\ _ =>
           pose proof (cols_rotation R0 i u b ltac:(lia) Hu B1 B2) as P; cbv zeta in P; rewrite B3 in P;
           cbv [ax_next Nat.modulo Nat.divmod Nat.add fst snd Nat.sub] in P; destruct P as [A [_ [C1 [C2 _]]]];
           split; [exact A | split; [exact C1 | rewrite C2; exact K3]]
       end.
Qed.

(** ... and on every branch: for a unit first vector, any second vector and any axes the result is a proper
    rotation with column axisi equal to the first vector (se = SqrtEps > 0) *)
Lemma twoAxes_rotation se R0 u v (i j:nat) : (i < 3)%nat -> (j < 3)%nat -> nsq u = 1 -> 0 < se ->
  let M := setFromTwoAxes ROps se R0 u i v j in is_rotation ROps M /\ col3 M i = u.
Proof. intros Hi Hj Hu Hse. cbv zeta.
  destruct (orb (andb (Rleb (nsq v) 0) (Rleb 0 (nsq v))) (ax_same i j)) eqn:E1.
  - unfold setFromTwoAxes. cbn [nleb n0 ROps]. rewrite E1. apply oneAxis_rotation; auto.
  - destruct (Rltb (nsq (cross3 u v)) (se * nsq v)) eqn:E2.
    + unfold setFromTwoAxes. cbn [nleb nltb nmul n0 ROps]. rewrite E1, E2. apply oneAxis_rotation; auto.
    + apply orb_false_iff in E1. destruct E1 as [E1 E3]. apply Nat.eqb_neq in E3. apply Rltb_false in E2.
      assert (Hv : 0 < nsq v).
      { generalize (nsq_nonneg v); intros P. destruct (Rle_dec (nsq v) 0) as [L|L]; [|lra].
        exfalso. rewrite (proj2 (Rleb_true _ _) L), (proj2 (Rleb_true _ _) P) in E1. discriminate. }
      assert (Hw : 0 < nsq (cross3 u v)) by nra.
      destruct (twoAxes_rotation_main se R0 u v i j Hi Hj E3 Hu Hv Hw E2) as [A [B _]]. split; auto.
Qed.
