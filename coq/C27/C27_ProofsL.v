(** C27 proofs, part L: sin/cos of atan2; three-angle sequences exactly at gimbal lock round-trip (both lock branches, all 12 axis orders, body and space). *)
From Coq Require Import ZArith Arith Reals Lra Lia Psatz Nsatz Bool.
Require Import Num Vec Tactics rot27_gen C27_Model C27_Proofs C27_ProofsT.
Local Open Scope R_scope.
(** ** sin and cos of atan2 *)
Lemma sincos_Ratan2 s c : s*s + c*c = 1 -> sin (Ratan2 s c) = s /\ cos (Ratan2 s c) = c.
Proof. intros H. assert (Hc : -1 <= c <= 1) by (split; nra).
  generalize (acos_bound c) (cos_acos c Hc) (sin_acos c Hc) PI_RGT_0; intros B Cc Sc Hpi.
  assert (Sq : sqrt (1 - c²) = Rabs s).
  { replace (1 - c²) with (Rsqr s) by (unfold Rsqr; lra). apply sqrt_Rsqr_abs. }
  destruct (Rle_dec 0 s) as [P|N].
  - assert (E : Ratan2 s c = acos c).
    { rewrite <- Cc at 1. replace s with (sin (acos c)) at 1 by (rewrite Sc, Sq, Rabs_right; lra). apply Ratan2_sin_cos. lra. }
    rewrite E. split; auto. rewrite Sc, Sq, Rabs_right; lra.
  - apply Rnot_le_lt in N.
    assert (Hlt : acos c < PI).
    { destruct (Rlt_dec (acos c) PI); auto. exfalso. assert (acos c = PI) by lra. rewrite H0 in Cc. rewrite cos_PI in Cc. subst c. nra. }
    assert (E : Ratan2 s c = - acos c).
    { replace c with (cos (- acos c)) at 1 by (rewrite cos_neg; auto).
      replace s with (sin (- acos c)) at 1 by (rewrite sin_neg, Sc, Sq, Rabs_left; lra). apply Ratan2_sin_cos. lra. }
    rewrite E. rewrite sin_neg, cos_neg. split; auto. rewrite Sc, Sq, Rabs_left; lra.
Qed.
Lemma Ratan2_scale k y x : 0 < k -> Ratan2 (k * y) (k * x) = Ratan2 y x.
Proof. intros Hk. unfold Ratan2.
  assert (D : x <> 0 -> k * y / (k * x) = y / x) by (intros; field; split; lra).
  repeat match goal with |- context[Rlt_dec ?a ?b] => destruct (Rlt_dec a b) | |- context[Rle_dec ?a ?b] => destruct (Rle_dec a b) end;
  try (exfalso; nra); try rewrite D by lra; try reflexivity.
Qed.
Lemma sincos_Ratan2_r y x r : 0 < r -> y*y + x*x = r*r -> sin (Ratan2 y x) = y / r /\ cos (Ratan2 y x) = x / r.
Proof. intros Hr H. replace (Ratan2 y x) with (Ratan2 (y / r) (x / r)).
  apply sincos_Ratan2. field_simplify_eq; [|lra]. cbv [Rpow_def.pow]. clear Hr. nsatz_or_fail.
  rewrite <- (Ratan2_scale r) by auto. f_equal; field; lra. Qed.
Lemma Ratan2_y_0 y : (0 < y -> Ratan2 y 0 = PI/2) /\ (y < 0 -> Ratan2 y 0 = - (PI/2)).
Proof. unfold Ratan2. split; intros; repeat match goal with |- context[Rlt_dec ?a ?b] => destruct (Rlt_dec a b) end; lra. Qed.

Lemma Ratan2_0_x x : (0 < x -> Ratan2 0 x = 0) /\ (x < 0 -> Ratan2 0 x = PI).
Proof. unfold Ratan2. split; intros; repeat match goal with |- context[Rlt_dec ?a ?b] => destruct (Rlt_dec a b) | |- context[Rle_dec ?a ?b] => destruct (Rle_dec a b) end; try lra;
  unfold Rdiv; rewrite Rmult_0_l, atan_0; lra. Qed.

(** ** three-angle sequences exactly at gimbal lock: angles -> matrix -> angles -> matrix reproduces the matrix, in both lock
       branches of the code (the extracted angles are a closed form of the entries there) *)
Ltac dispatch := cbv [setFromThreeAnglesThreeAxes setFromTwoAnglesTwoAxes convertThreeAxesToThreeAngles convertTwoAxesToTwoAngles
  setThreeAngleThreeAxesBF setThreeAngleTwoAxesBF setTwoAngleTwoAxesBF setFromAngleAboutAxis
  ax_same ax_isRev ax_prev ax_next ax_third Nat.eqb Nat.modulo Nat.divmod Nat.add fst snd Nat.sub negb andb m33_set v3_set
  v3_0 v3_1 v3_2 k27_setX k27_setY k27_setZ].
Ltac trigc := repeat (rewrite cos_neg || rewrite sin_neg || rewrite cos_PI2 || rewrite sin_PI2 || rewrite cos_0 || rewrite sin_0 || rewrite cos_PI || rewrite sin_PI).
Ltac lock_tac eps4 a1 a3 :=
  dispatch; cbn [ncos nsin nopp nmul nadd nsub n0 n1 ROps]; trigc;
  cbv [convertThreeAxesBFToThreeAngles convertTwoAxesBFToThreeAngles ax_isRev ax_prev ax_third ax_next ax_same negb Nat.eqb Nat.modulo Nat.divmod Nat.add fst snd Nat.sub
       m33_e m33_r0 m33_r1 m33_r2 v3_0 v3_1 v3_2 sq two];
  cbn [nsqrt natan2 nltb ndiv ncos nsin nopp nmul nadd nsub nofZ n0 n1 ROps];
  repeat match goal with |- context[sqrt ?a] => replace a with 0 by (field || ring); rewrite sqrt_0 end;
  replace (Rltb eps4 0) with false by (symmetry; apply Rltb_false; lra);
  repeat match goal with |- context[Rltb 0 ?x] =>
    first [replace (Rltb 0 x) with true by (symmetry; apply Rltb_true; lra) | replace (Rltb 0 x) with false by (symmetry; apply Rltb_false; lra)] end;
  cbv beta iota zeta;
  repeat match goal with
    | |- context[Ratan2 ?y 0] => first [rewrite (proj1 (Ratan2_y_0 y)) by lra | rewrite (proj2 (Ratan2_y_0 y)) by lra]
    | |- context[Ratan2 0 ?x] => first [rewrite (proj1 (Ratan2_0_x x)) by lra | rewrite (proj2 (Ratan2_0_x x)) by lra] end;
  let S1 := fresh "S1" in let S3 := fresh "S3" in generalize (sc1 a1) (sc1 a3); intros S1 S3;
  match goal with |- context[Ratan2 ?y ?x] =>
    let Hs := fresh "Hs" in let Hc := fresh "Hc" in
    destruct (sincos_Ratan2_r y x 2) as [Hs Hc]; [lra | clear -S1 S3; nsatz_or_fail | ];
    trigc; rewrite ?Hs, ?Hc; trigc end;
  teq; clear -S1 S3; (field_simplify_eq; cbv [Rpow_def.pow]; nsatz_or_fail).

Lemma three_angle_lock_roundtrip_ijk eps4 R0 R1 space (sg:bool) (i j k:nat) a1 a3 :
  (i < 3)%nat -> (j < 3)%nat -> (k < 3)%nat -> i <> j -> j <> k -> i <> k -> 0 <= eps4 ->
  let a2 := if sg then PI/2 else - (PI/2) in
  let M := setFromThreeAnglesThreeAxes ROps R0 space a1 i a2 j a3 k in
  let ang := convertThreeAxesToThreeAngles ROps eps4 M space i j k in
  setFromThreeAnglesThreeAxes ROps R1 space (v3_0 ang) i (v3_1 ang) j (v3_2 ang) k = M.
Proof. intros Hi Hj Hk H1 H2 H3 He a2 M ang. subst ang M a2. dmat R0; dmat R1.
  fin3 i; fin3 j; fin3 k; try congruence; destruct space; destruct sg; lock_tac eps4 a1 a3. Qed.

Lemma three_angle_lock_roundtrip_iji eps4 R0 R1 space (sg:bool) (i j:nat) a1 a3 :
  (i < 3)%nat -> (j < 3)%nat -> i <> j -> 0 <= eps4 ->
  let a2 := if sg then 0 else PI in
  let M := setFromThreeAnglesThreeAxes ROps R0 space a1 i a2 j a3 i in
  let ang := convertThreeAxesToThreeAngles ROps eps4 M space i j i in
  setFromThreeAnglesThreeAxes ROps R1 space (v3_0 ang) i (v3_1 ang) j (v3_2 ang) i = M.
Proof. intros Hi Hj H1 He a2 M ang. subst ang M a2. dmat R0; dmat R1.
  fin3 i; fin3 j; try congruence; destruct space; destruct sg; lock_tac eps4 a1 a3. Qed.
