(** C27 proofs, part Q: quaternion <-> rotation, angle-axis.  Definitions as in C27_Proofs.v. *)
From Coq Require Import ZArith Arith Reals Lra Lia Psatz Nsatz Bool.
Require Import Num Vec Tactics rot27_gen C27_Model C27_Proofs.
Local Open Scope R_scope.

(** ** quaternion -> rotation (translated) *)
Lemma fromQuat_rotation R0 e0 e1 e2 e3 : e0*e0+e1*e1+e2*e2+e3*e3 = 1 ->
  is_rotation ROps (k27_fromQuat ROps R0 (e0,e1,e2,e3)).
Proof. intros H. dmat R0. unf27. repeat split; teq; nsatz_or_fail. Qed.
Lemma fromQuat_neg R0 R1 e0 e1 e2 e3 :
  k27_fromQuat ROps R0 (v4_neg ROps (e0,e1,e2,e3)) = k27_fromQuat ROps R1 (e0,e1,e2,e3).
Proof. dmat R0; dmat R1. unf27. teq; ring. Qed.

(** ** angle-axis -> quaternion -> rotation *)
Lemma quatFromAngleAxis_unit a u0 u1 u2 : u0*u0+u1*u1+u2*u2 = 1 ->
  v4_normSqr ROps (quatFromAngleAxis ROps a (u0,u1,u2)) = 1.
Proof. intros H. generalize (sc1 (a / 2)); intros S. unf27. cbv [Rltb].
  set (s := sin (a/2)) in *; set (c := cos (a/2)) in *; clearbody s c.
  destruct (Rlt_dec c 0); clear -H S; nsatz_or_fail. Qed.
Lemma quatFromAngleAxis_canonical a u0 u1 u2 : 0 <= v4_0 (quatFromAngleAxis ROps a (u0,u1,u2)).
Proof. unf27. cbv [Rltb]. destruct (Rlt_dec (cos (a / 2)) 0); cbn; lra. Qed.
Lemma angleAxis_rotation R0 a u0 u1 u2 : u0*u0+u1*u1+u2*u2 = 1 ->
  is_rotation ROps (setFromAngleAboutUnitVector ROps R0 a (u0,u1,u2)).
Proof. intros H. unfold setFromAngleAboutUnitVector.
  generalize (quatFromAngleAxis_unit a u0 u1 u2 H). destruct (quatFromAngleAxis ROps a (u0,u1,u2)) as [[[e0 e1] e2] e3].
  cbv [v4_normSqr v4_dot]. cbn [nadd nmul ROps]. apply fromQuat_rotation. Qed.
(** Rodrigues' formula: R = I + sin a [u]x + (1 - cos a) [u]x [u]x *)
Definition rodrigues (a:R) (u:Vec3 R) : Mat33 R :=
  let ux := m33_crossMat ROps u in
  m33_add ROps (m33_add ROps I33 (m33_scale ROps (sin a) ux)) (m33_scale ROps (1 - cos a) (mm ux ux)).
Lemma angleAxis_is_rodrigues R0 a u0 u1 u2 : u0*u0+u1*u1+u2*u2 = 1 ->
  setFromAngleAboutUnitVector ROps R0 a (u0,u1,u2) = rodrigues a (u0,u1,u2).
Proof. intros H. dmat R0. generalize (sc1 (a / 2)); intros S.
  assert (Hs : sin a = 2 * sin (a/2) * cos (a/2)) by (rewrite <- sin_2a; f_equal; field).
  assert (Hc : cos a = 1 - 2 * sin (a/2) * sin (a/2)) by (rewrite <- cos_2a_sin; f_equal; field).
  unfold rodrigues, I33. rewrite Hs, Hc. unf27. cbv [Rltb].
  set (s := sin (a/2)) in *; set (c := cos (a/2)) in *; clearbody s c.
  destruct (Rlt_dec c 0); clear -H S; teq; nsatz_or_fail. Qed.
(** ** rotation -> quaternion (Spurrier-style selection) after quaternion -> rotation *)
(** normalising k*q (k<>0, |q|=1) with the code's sign rule gives q or -q, with non-negative scalar part *)
Lemma normalize_scaled k e0 e1 e2 e3 : e0*e0+e1*e1+e2*e2+e3*e3 = 1 -> k <> 0 ->
  let q' : Vec4 R := (k*e0, k*e1, k*e2, k*e3) in
  let r := v4_div ROps q' (if Rltb (k*e0) 0 then - v4_norm ROps q' else v4_norm ROps q') in
  (r = (e0,e1,e2,e3) \/ r = v4_neg ROps (e0,e1,e2,e3)) /\ 0 <= v4_0 r.
Proof. intros H Hk q' r. subst r q'.
  assert (Hn : v4_norm ROps (k*e0, k*e1, k*e2, k*e3) = Rabs k).
  { cbv [v4_norm v4_normSqr v4_dot]. cbn [nsqrt nadd nmul ROps].
    replace (k*e0*(k*e0) + k*e1*(k*e1) + k*e2*(k*e2) + k*e3*(k*e3)) with (Rsqr k) by (unfold Rsqr; nsatz_or_fail).
    apply sqrt_Rsqr_abs. }
  rewrite Hn. cbv [Rltb]. destruct (Rlt_dec (k*e0) 0) as [L|L]; unfold Rabs; destruct (Rcase_abs k) as [Kn|Kp].
  - (* k<0, k e0 < 0: scale = k *) split; [left|]; cbv [v4_div v4_0 ndiv ROps]; [teq; field; lra|]. replace (k*e0/ - - k) with e0 by (field; lra). nra.
  - (* k>0, k e0 <0 : scale = -k *) split; [right|]; cbv [v4_div v4_neg v4_0 ndiv nopp ROps]; [teq; field; lra|]. replace (k*e0/ - k) with (- e0) by (field; lra). nra.
  - split; [right|]; cbv [v4_div v4_neg v4_0 ndiv nopp ROps]; [teq; field; lra|]. replace (k*e0/ - k) with (- e0) by (field; lra). nra.
  - split; [left|]; cbv [v4_div v4_0 ndiv ROps]; [teq; field; lra|]. replace (k*e0/ k) with e0 by (field; lra). nra.
Qed.

(** the code's branch guards, as it evaluates them on the matrix *)
Definition tr_ (M:Mat33 R) : R := m33_e M 0 0 + m33_e M 1 1 + m33_e M 2 2.
Definition guard0 (M:Mat33 R) : Prop := m33_e M 0 0 <= tr_ M /\ m33_e M 1 1 <= tr_ M /\ m33_e M 2 2 <= tr_ M.
Definition guard1 (M:Mat33 R) : Prop := m33_e M 1 1 <= m33_e M 0 0 /\ m33_e M 2 2 <= m33_e M 0 0.
Definition guard2 (M:Mat33 R) : Prop := m33_e M 2 2 <= m33_e M 1 1.
Definition sv4 (k:R) (q:Vec4 R) : Vec4 R := v4_scale ROps k q.

Ltac raw_cases := cbv [rotToQuatRaw tr_ guard0 guard1 guard2 m33_e m33_r0 m33_r1 m33_r2 v3_0 v3_1 v3_2 Rleb sv4 v4_scale
     nleb nadd nsub nmul n1 two nofZ ROps k27_fromQuat v4_0 v4_1 v4_2 v4_3] in *;
  repeat match goal with |- context[Rle_dec ?a ?b] => destruct (Rle_dec a b) end; cbn [andb];
  try (exfalso; tauto).

Lemma raw_branch0 R0 e0 e1 e2 e3 : e0*e0+e1*e1+e2*e2+e3*e3 = 1 ->
  let M := k27_fromQuat ROps R0 (e0,e1,e2,e3) in guard0 M ->
  rotToQuatRaw ROps M = sv4 (4*e0) (e0,e1,e2,e3) /\ e0 <> 0.
Proof. intros H M G. subst M. dmat R0. split.
  - raw_cases; clear -H; teq; nsatz_or_fail.
  - cbv [tr_ guard0 m33_e m33_r0 m33_r1 m33_r2 v3_0 v3_1 v3_2 nadd nsub nmul nofZ ROps k27_fromQuat v4_0 v4_1 v4_2 v4_3] in G.
    intro Z; subst e0. nra. Qed.
Ltac unfG G := cbv [tr_ guard0 guard1 guard2 m33_e m33_r0 m33_r1 m33_r2 v3_0 v3_1 v3_2 nadd nsub nmul nofZ ROps k27_fromQuat v4_0 v4_1 v4_2 v4_3] in G.
Lemma raw_branch1 R0 e0 e1 e2 e3 : e0*e0+e1*e1+e2*e2+e3*e3 = 1 ->
  let M := k27_fromQuat ROps R0 (e0,e1,e2,e3) in ~ guard0 M -> guard1 M ->
  rotToQuatRaw ROps M = sv4 (4*e1) (e0,e1,e2,e3) /\ e1 <> 0.
Proof. intros H M G0 G1. subst M. dmat R0. split.
  - raw_cases; clear -H; teq; nsatz_or_fail.
  - unfG G0; unfG G1. intro Z; subst e1. apply G0. repeat split; nra. Qed.
Lemma raw_branch2 R0 e0 e1 e2 e3 : e0*e0+e1*e1+e2*e2+e3*e3 = 1 ->
  let M := k27_fromQuat ROps R0 (e0,e1,e2,e3) in ~ guard0 M -> ~ guard1 M -> guard2 M ->
  rotToQuatRaw ROps M = sv4 (4*e2) (e0,e1,e2,e3) /\ e2 <> 0.
Proof. intros H M G0 G1 G2. subst M. dmat R0. split.
  - raw_cases; clear -H; teq; nsatz_or_fail.
  - unfG G0; unfG G1; unfG G2. intro Z; subst e2. apply G0. repeat split; try nra.
    all: apply Rnot_lt_le; intro L; apply G1; split; nra. Qed.
Lemma raw_branch3 R0 e0 e1 e2 e3 : e0*e0+e1*e1+e2*e2+e3*e3 = 1 ->
  let M := k27_fromQuat ROps R0 (e0,e1,e2,e3) in ~ guard0 M -> ~ guard1 M -> ~ guard2 M ->
  rotToQuatRaw ROps M = sv4 (4*e3) (e0,e1,e2,e3) /\ e3 <> 0.
Proof. intros H M G0 G1 G2. subst M. dmat R0. split.
  - raw_cases; clear -H; teq; nsatz_or_fail.
  - unfG G0; unfG G1; unfG G2. intro Z; subst e3. apply G2. nra. Qed.

Lemma quat_of_raw k e0 e1 e2 e3 M : e0*e0+e1*e1+e2*e2+e3*e3 = 1 ->
  rotToQuatRaw ROps M = sv4 k (e0,e1,e2,e3) -> k <> 0 ->
  let r := rotToQuat ROps M in (r = (e0,e1,e2,e3) \/ r = v4_neg ROps (e0,e1,e2,e3)) /\ 0 <= v4_0 r.
Proof. intros H Hraw Hk. cbv zeta. unfold rotToQuat. rewrite Hraw. cbv [sv4 v4_scale].
  cbn [nmul nltb nopp n0 ROps v4_0]. apply (normalize_scaled k e0 e1 e2 e3 H Hk). Qed.

Definition pm_q (r q:Vec4 R) : Prop := (r = q \/ r = v4_neg ROps q) /\ 0 <= v4_0 r.

(** quaternion -> rotation -> quaternion returns +-q in canonical form, in each branch of the code's selection
    (hypotheses = the guards the code evaluates) *)
Lemma quat_rot_quat_branch0 R0 e0 e1 e2 e3 : e0*e0+e1*e1+e2*e2+e3*e3 = 1 ->
  let M := k27_fromQuat ROps R0 (e0,e1,e2,e3) in guard0 M -> pm_q (rotToQuat ROps M) (e0,e1,e2,e3).
Proof. intros H M G. destruct (raw_branch0 R0 e0 e1 e2 e3 H G) as [A B]. apply (quat_of_raw (4*e0)); auto; try lra. Qed.
Lemma quat_rot_quat_branch1 R0 e0 e1 e2 e3 : e0*e0+e1*e1+e2*e2+e3*e3 = 1 ->
  let M := k27_fromQuat ROps R0 (e0,e1,e2,e3) in ~ guard0 M -> guard1 M -> pm_q (rotToQuat ROps M) (e0,e1,e2,e3).
Proof. intros H M G0 G1. destruct (raw_branch1 R0 e0 e1 e2 e3 H G0 G1) as [A B]. apply (quat_of_raw (4*e1)); auto; try lra. Qed.
Lemma quat_rot_quat_branch2 R0 e0 e1 e2 e3 : e0*e0+e1*e1+e2*e2+e3*e3 = 1 ->
  let M := k27_fromQuat ROps R0 (e0,e1,e2,e3) in ~ guard0 M -> ~ guard1 M -> guard2 M -> pm_q (rotToQuat ROps M) (e0,e1,e2,e3).
Proof. intros H M G0 G1 G2. destruct (raw_branch2 R0 e0 e1 e2 e3 H G0 G1 G2) as [A B]. apply (quat_of_raw (4*e2)); auto; try lra. Qed.
Lemma quat_rot_quat_branch3 R0 e0 e1 e2 e3 : e0*e0+e1*e1+e2*e2+e3*e3 = 1 ->
  let M := k27_fromQuat ROps R0 (e0,e1,e2,e3) in ~ guard0 M -> ~ guard1 M -> ~ guard2 M -> pm_q (rotToQuat ROps M) (e0,e1,e2,e3).
Proof. intros H M G0 G1 G2. destruct (raw_branch3 R0 e0 e1 e2 e3 H G0 G1 G2) as [A B]. apply (quat_of_raw (4*e3)); auto; try lra. Qed.

Lemma guard0_dec M : {guard0 M} + {~ guard0 M}.
Proof. unfold guard0. destruct (Rle_dec (m33_e M 0 0) (tr_ M)), (Rle_dec (m33_e M 1 1) (tr_ M)), (Rle_dec (m33_e M 2 2) (tr_ M)); try (left; tauto); right; tauto. Qed.
Lemma guard1_dec M : {guard1 M} + {~ guard1 M}.
Proof. unfold guard1. destruct (Rle_dec (m33_e M 1 1) (m33_e M 0 0)), (Rle_dec (m33_e M 2 2) (m33_e M 0 0)); try (left; tauto); right; tauto. Qed.
(** ... hence for every unit quaternion *)
Lemma quat_rot_quat R0 e0 e1 e2 e3 : e0*e0+e1*e1+e2*e2+e3*e3 = 1 ->
  pm_q (rotToQuat ROps (k27_fromQuat ROps R0 (e0,e1,e2,e3))) (e0,e1,e2,e3).
Proof. intros H. set (M := k27_fromQuat ROps R0 (e0,e1,e2,e3)).
  destruct (guard0_dec M) as [G0|G0]; [apply quat_rot_quat_branch0; auto|].
  destruct (guard1_dec M) as [G1|G1]; [apply quat_rot_quat_branch1; auto|].
  destruct (Rle_dec (m33_e M 2 2) (m33_e M 1 1)) as [G2|G2]; [apply quat_rot_quat_branch2; auto|apply quat_rot_quat_branch3; auto]. Qed.
(** so rotation -> quaternion -> rotation is the identity on every rotation that comes from a unit quaternion *)
Lemma rot_quat_rot R0 R1 e0 e1 e2 e3 : e0*e0+e1*e1+e2*e2+e3*e3 = 1 ->
  let M := k27_fromQuat ROps R0 (e0,e1,e2,e3) in k27_fromQuat ROps R1 (rotToQuat ROps M) = M.
Proof. intros H M. destruct (quat_rot_quat R0 e0 e1 e2 e3 H) as [[E|E] _]; fold M in E; rewrite E.
  - subst M. dmat R0; dmat R1. reflexivity.
  - apply fromQuat_neg. Qed.
(** setRotationFromApproximateMat33 leaves such a rotation unchanged *)
Lemma approximate_fixes_rotation R0 R1 e0 e1 e2 e3 : e0*e0+e1*e1+e2*e2+e3*e3 = 1 ->
  let M := k27_fromQuat ROps R0 (e0,e1,e2,e3) in setFromApproximateMat33 ROps R1 M = M.
Proof. intros H M. unfold setFromApproximateMat33. apply (rot_quat_rot R0 R1); auto. Qed.

(** ** non-vacuity of the four branch hypotheses: each branch of the code's selection is taken by some unit quaternion *)
Ltac gsimp := cbv [tr_ guard0 guard1 guard2 m33_e m33_r0 m33_r1 m33_r2 v3_0 v3_1 v3_2 nadd nsub nmul nofZ ROps k27_fromQuat v4_0 v4_1 v4_2 v4_3].
Example ex_branch0_taken : guard0 (k27_fromQuat ROps I33 (1/2,1/2,1/2,1/2)).
Proof. gsimp. lra. Qed.
Example ex_branch1_taken : let M := k27_fromQuat ROps I33 (0,1,0,0) in ~ guard0 M /\ guard1 M.
Proof. gsimp. lra. Qed.
Example ex_branch2_taken : let M := k27_fromQuat ROps I33 (0,0,1,0) in ~ guard0 M /\ ~ guard1 M /\ guard2 M.
Proof. gsimp. lra. Qed.
Example ex_branch3_taken : let M := k27_fromQuat ROps I33 (0,0,0,1) in ~ guard0 M /\ ~ guard1 M /\ ~ guard2 M.
Proof. gsimp. lra. Qed.
