(** C27 proofs, part R: rotation -> quaternion -> rotation for every proper rotation. *)
From Coq Require Import ZArith Arith Reals Lra Lia Psatz Nsatz Bool.
Require Import Num Vec Tactics rot27_gen C27_Model C27_Proofs C27_ProofsQ.
Local Open Scope R_scope.

(** ** rotation -> quaternion -> rotation is the identity on EVERY proper rotation, from the orthogonality
       equations and det = 1 directly.  For each of the four un-normalised quaternions q' the code may form:
       Rq(q') = |q'|^2 M and |q'|^2 = 4 * (the component that the branch guards make positive). *)
Lemma fromQuat_div R0 q s : s <> 0 ->
  k27_fromQuat ROps R0 (v4_div ROps q s) = m33_scale ROps (1 / (s * s)) (k27_fromQuat ROps R0 q).
Proof. intros Hs. dmat R0. destruct q as [[[q0 q1] q2] q3]. unf27. teq; field; auto. Qed.

Section Raw. Variables a00 a01 a02 a10 a11 a12 a20 a21 a22 : R.
Let M : Mat33 R := ((a00,a01,a02),(a10,a11,a12),(a20,a21,a22)).
Let tr := a00 + a11 + a22.
Hypothesis HM : is_rotation ROps M.
Ltac hyps := destruct HM as [[A B] D]; subst M tr; revert A B D; unf27; intros A B D;
  injection A as A1 A2 A3 A4 A5 A6 A7 A8 A9; injection B as B1 B2 B3 B4 B5 B6 B7 B8 B9.
Ltac alg := split; [ teq; nsatz_or_fail | nsatz_or_fail ].
Lemma raw0_alg R1 : let q := (1 + tr, a21 - a12, a02 - a20, a10 - a01) in
  k27_fromQuat ROps R1 q = m33_scale ROps (v4_normSqr ROps q) M /\ v4_normSqr ROps q = 4 * (1 + tr).
Proof. dmat R1. hyps. alg. Qed.
Lemma raw1_alg R1 : let q := (a21 - a12, 1 - (tr - 2 * a00), a01 + a10, a02 + a20) in
  k27_fromQuat ROps R1 q = m33_scale ROps (v4_normSqr ROps q) M /\ v4_normSqr ROps q = 4 * (1 - (tr - 2 * a00)).
Proof. dmat R1. hyps. alg. Qed.
Lemma raw2_alg R1 : let q := (a02 - a20, a01 + a10, 1 - (tr - 2 * a11), a12 + a21) in
  k27_fromQuat ROps R1 q = m33_scale ROps (v4_normSqr ROps q) M /\ v4_normSqr ROps q = 4 * (1 - (tr - 2 * a11)).
Proof. dmat R1. hyps. alg. Qed.
Lemma raw3_alg R1 : let q := (a10 - a01, a02 + a20, a12 + a21, 1 - (tr - 2 * a22)) in
  k27_fromQuat ROps R1 q = m33_scale ROps (v4_normSqr ROps q) M /\ v4_normSqr ROps q = 4 * (1 - (tr - 2 * a22)).
Proof. dmat R1. hyps. alg. Qed.
Lemma diag_bounds : -1 <= a00 /\ -1 <= a11 /\ -1 <= a22.
Proof. hyps. repeat split; nra. Qed.
End Raw.

Lemma raw_spec M R1 : is_rotation ROps M ->
  let q := rotToQuatRaw ROps M in
  k27_fromQuat ROps R1 q = m33_scale ROps (v4_normSqr ROps q) M /\ 0 < v4_normSqr ROps q.
Proof. intros HM. destruct M as [[[[a00 a01] a02] [[a10 a11] a12]] [[a20 a21] a22]].
  destruct (diag_bounds _ _ _ _ _ _ _ _ _ HM) as [L0 [L1 L2]].
  destruct (raw0_alg _ _ _ _ _ _ _ _ _ HM R1) as [E0 N0]. destruct (raw1_alg _ _ _ _ _ _ _ _ _ HM R1) as [E1 N1].
  destruct (raw2_alg _ _ _ _ _ _ _ _ _ HM R1) as [E2 N2]. destruct (raw3_alg _ _ _ _ _ _ _ _ _ HM R1) as [E3 N3].
  cbv zeta. cbv [rotToQuatRaw m33_e m33_r0 m33_r1 m33_r2 v3_0 v3_1 v3_2 Rleb nleb nadd nsub nmul n1 two nofZ ROps] in *.
  repeat match goal with |- context[Rle_dec ?a ?b] => destruct (Rle_dec a b) end; cbn [andb].
  all: first [ split; [exact E0 | rewrite N0; lra] | split; [exact E1 | rewrite N1; lra]
             | split; [exact E2 | rewrite N2; lra] | split; [exact E3 | rewrite N3; lra] ].
Qed.

(** rotation -> quaternion -> rotation: identity on every proper rotation *)
Lemma rot_quat_rot_any M R1 : is_rotation ROps M -> k27_fromQuat ROps R1 (rotToQuat ROps M) = M.
Proof. intros HM. destruct (raw_spec M R1 HM) as [E N]. cbv zeta in E, N. unfold rotToQuat.
  set (q := rotToQuatRaw ROps M) in *. set (nn := v4_normSqr ROps q) in *.
  assert (Hs : v4_norm ROps q * v4_norm ROps q = nn) by (unfold v4_norm; cbn [nsqrt ROps]; apply sqrt_sqrt; subst nn; lra).
  assert (Hp : 0 < v4_norm ROps q) by (unfold v4_norm; cbn [nsqrt ROps]; apply sqrt_lt_R0; exact N).
  cbn [nltb nopp n0 ROps]. destruct (Rltb (v4_0 q) 0).
  - rewrite fromQuat_div by (apply Rlt_not_eq; lra). replace (- v4_norm ROps q * - v4_norm ROps q) with nn by (rewrite <- Hs; ring).
    rewrite E. dmat M. vunf. teq; field; lra.
  - rewrite fromQuat_div by (apply Rgt_not_eq; lra). rewrite Hs. rewrite E. dmat M. vunf. teq; field; lra.
Qed.
(** the extracted quaternion of a proper rotation is a unit quaternion in canonical form *)
Lemma rotToQuat_unit_canonical M : is_rotation ROps M ->
  v4_normSqr ROps (rotToQuat ROps M) = 1 /\ 0 <= v4_0 (rotToQuat ROps M).
Proof. intros HM. destruct (raw_spec M M HM) as [_ N]. cbv zeta in N. unfold rotToQuat.
  set (q := rotToQuatRaw ROps M) in *. set (nn := v4_normSqr ROps q) in *.
  assert (Hs : v4_norm ROps q * v4_norm ROps q = nn) by (unfold v4_norm; cbn [nsqrt ROps]; apply sqrt_sqrt; subst nn; lra).
  assert (Hp : 0 < v4_norm ROps q) by (unfold v4_norm; cbn [nsqrt ROps]; apply sqrt_lt_R0; exact N).
  set (n := v4_norm ROps q) in *. clearbody n. subst nn. destruct q as [[[q0 q1] q2] q3]. revert Hs. vunf. cbv [Rltb v4_div ndiv]. intros Hs.
  destruct (Rlt_dec q0 0) as [L|L]; cbn [v4_0]; vunf; split.
  - field_simplify_eq; [|lra]. cbv [Rpow_def.pow]. clear -Hs. nsatz_or_fail.
  - assert (0 < / n) by (apply Rinv_0_lt_compat; lra). replace (q0 / - n) with ((- q0) * / n) by (field; lra). nra.
  - field_simplify_eq; [|lra]. cbv [Rpow_def.pow]. clear -Hs. nsatz_or_fail.
  - apply Rnot_lt_le in L. assert (0 < / n) by (apply Rinv_0_lt_compat; lra). unfold Rdiv. nra.
Qed.
(** setRotationFromApproximateMat33 leaves every proper rotation unchanged *)
Lemma approximate_fixes_any_rotation R1 M : is_rotation ROps M -> setFromApproximateMat33 ROps R1 M = M.
Proof. intros H. unfold setFromApproximateMat33. apply rot_quat_rot_any; auto. Qed.
