(** C27 proofs, part T: angles -> matrix -> angles for the one- and two-angle sequences (atan2 (sin q) (cos q) = q). *)
From Coq Require Import ZArith Arith Reals Lra Lia Psatz Nsatz Bool.
Require Import Num Vec Tactics rot27_gen C27_Model C27_Proofs.
Local Open Scope R_scope.

(** ** the one case of matrix -> angle that the installed real-number library can decide: atan2 (sin q) (cos q) = q *)
Lemma Ratan2_sin_cos q : - PI < q <= PI -> Ratan2 (sin q) (cos q) = q.
Proof. intros [Hl Hu]. unfold Ratan2. generalize PI_RGT_0; intros Hpi.
  destruct (Rlt_dec 0 (cos q)) as [C|C].
  - (* |q| < pi/2 *)
    assert (- (PI/2) < q < PI/2).
    { split.
      - destruct (Rlt_dec (- (PI/2)) q); auto. exfalso. assert (cos q <= 0); [|lra].
        replace q with (- (- q)) by ring. rewrite cos_neg. apply cos_le_0; lra.
      - destruct (Rlt_dec q (PI/2)); auto. exfalso. assert (cos q <= 0); [|lra]. apply cos_le_0; lra. }
    change (sin q / cos q) with (tan q). apply atan_tan; auto.
  - destruct (Rlt_dec (cos q) 0) as [C2|C2].
    + destruct (Rle_dec 0 (sin q)) as [S|S].
      * (* q in (pi/2, pi] *)
        assert (Hq : PI/2 < q).
        { destruct (Rlt_dec (PI/2) q); auto. exfalso.
          destruct (Rle_dec 0 q). assert (0 <= cos q) by (apply cos_ge_0; lra). lra.
          assert (sin q < 0) by (apply sin_lt_0_var; lra). lra. }
        replace (sin q / cos q) with (tan (q - PI)).
        rewrite atan_tan by lra. ring.
        unfold tan. replace (sin (q - PI)) with (- sin q). replace (cos (q - PI)) with (- cos q). field; lra.
        rewrite cos_minus, cos_PI, sin_PI; ring.
        rewrite sin_minus, cos_PI, sin_PI; ring.
      * (* q in (-pi, -pi/2) *)
        apply Rnot_le_lt in S.
        assert (Hq : q < - (PI/2)).
        { destruct (Rlt_dec q (- (PI/2))); auto. exfalso.
          destruct (Rle_dec q 0). assert (0 <= cos q) by (apply cos_ge_0; lra). lra.
          assert (0 <= sin q) by (apply sin_ge_0; lra). lra. }
        replace (sin q / cos q) with (tan (q + PI)).
        rewrite atan_tan by lra. ring.
        unfold tan. rewrite neg_sin, neg_cos. field; lra.
    + (* cos q = 0 *)
      assert (C0 : cos q = 0) by lra.
      destruct (Rlt_dec 0 (sin q)) as [S|S].
      * destruct (Rtotal_order q (PI/2)) as [L|[E|G]]; auto; exfalso.
        -- destruct (Rlt_dec (- (PI/2)) q). assert (0 < cos q) by (apply cos_gt_0; lra). lra.
           assert (sin q < 0) by (apply sin_lt_0_var; lra). lra.
        -- assert (cos q < 0) by (apply cos_lt_0; lra). lra.
      * destruct (Rlt_dec (sin q) 0) as [S2|S2].
        -- destruct (Rtotal_order q (- (PI/2))) as [L|[E|G]]; try lra; exfalso.
           ++ assert (cos q < 0). { replace q with (- (- q)) by ring. rewrite cos_neg. apply cos_lt_0; lra. } lra.
           ++ destruct (Rlt_dec q (PI/2)). assert (0 < cos q) by (apply cos_gt_0; lra). lra.
              assert (0 <= sin q) by (apply sin_ge_0; lra). lra.
        -- exfalso. assert (sin q = 0) by lra. generalize (sin2_cos2 q). unfold Rsqr. rewrite C0, H. lra.
Qed.

(** angle -> matrix -> angle for the one-angle constructors, any coordinate axis, any angle in (-pi, pi] *)
Lemma one_angle_roundtrip R0 (a:nat) q : (a < 3)%nat -> - PI < q <= PI ->
  convertOneAxisToOneAngle ROps (setFromAngleAboutAxis ROps R0 q a) a = q.
Proof. intros Ha Hq. rewrite setFromAngleAboutAxis_is_Rang by auto.
  fin3 a; cbv [convertOneAxisToOneAngle Rang Relem ax_next Nat.modulo Nat.divmod Nat.add fst snd Nat.sub m33_e m33_r0 m33_r1 m33_r2 v3_0 v3_1 v3_2 two];
  cbn [natan2 ndiv nsub nadd nopp nofZ ncos nsin ROps];
  (replace ((sin q - - sin q) / 2) with (sin q) by field); (replace ((cos q + cos q) / 2) with (cos q) by field);
  apply Ratan2_sin_cos; auto. Qed.

(** ** two-angle sequences: angles -> matrix -> angles (distinct axes, angles in (-pi, pi)) *)
Lemma sgn1_sqrt x y : y = x * x -> sgn1 ROps x * sqrt y = x.
Proof. intros ->. replace (x * x) with (Rsqr x) by reflexivity. rewrite sqrt_Rsqr_abs. unfold sgn1. cbn [nltb n0 n1 nopp ROps].
  unfold Rltb. destruct (Rlt_dec 0 x). rewrite Rabs_right by lra. ring.
  rewrite Rabs_left1 by lra. ring. Qed.

(** what convertTwoAxesBodyFixedRotationToTwoAngles returns on a matrix having the entries the body-fixed forward-cyclical
    two-angle writer produces from (c1,s1), (c2,s2) *)
Lemma conv2BF_spec (M:Mat33 R) (i j:nat) c1 s1 c2 s2 : s1*s1 + c1*c1 = 1 -> s2*s2 + c2*c2 = 1 ->
  let k := ax_third i j in let e := m33_e M in
  e k j = s1 -> e j j = c1 -> e j i = s2 * s1 -> e j k = - s1 * c2 -> e k i = - s2 * c1 -> e k k = c1 * c2 -> e i k = s2 -> e i i = c2 ->
  convertTwoAxesBFToTwoAngles ROps M i j =
  if ax_isRev i j then (- Ratan2 s1 c1, - Ratan2 s2 c2) else (Ratan2 s1 c1, Ratan2 s2 c2).
Proof. intros H1 H2 k e E1 E2 E3 E4 E5 E6 E7 E8. unfold convertTwoAxesBFToTwoAngles. fold k. fold e.
  rewrite E1, E2, E3, E4, E5, E6, E7, E8. cbv [sq two]. cbn [nadd nmul nsub ndiv nopp nsqrt natan2 nofZ ROps].
  rewrite (sgn1_sqrt s1) by nsatz_or_fail. rewrite (sgn1_sqrt c1) by nsatz_or_fail.
  rewrite (sgn1_sqrt s2) by nsatz_or_fail. rewrite (sgn1_sqrt c2) by nsatz_or_fail.
  replace ((s1 + s1) / 2) with s1 by field. replace ((c1 + c1) / 2) with c1 by field.
  replace ((s2 + s2) / 2) with s2 by field. replace ((c2 + c2) / 2) with c2 by field. reflexivity. Qed.

Lemma two_angle_roundtrip R0 space (i j:nat) a1 a2 : (i < 3)%nat -> (j < 3)%nat -> i <> j ->
  - PI < a1 < PI -> - PI < a2 < PI ->
  convertTwoAxesToTwoAngles ROps (setFromTwoAnglesTwoAxes ROps R0 space a1 i a2 j) space i j = (a1, a2).
Proof. intros Hi Hj Hij H1 H2. dmat R0. fin3 i; fin3 j; try congruence; destruct space;
  cbv [setFromTwoAnglesTwoAxes convertTwoAxesToTwoAngles ax_same ax_isRev ax_prev Nat.eqb Nat.modulo Nat.divmod Nat.add fst snd Nat.sub];
  cbn [ncos nsin nopp ROps];
  match goal with |- context[convertTwoAxesBFToTwoAngles _ (setTwoAngleTwoAxesBF _ ?R ?c1 ?s1 ?i ?c2 ?s2 ?j) ?i ?j] =>
    rewrite (conv2BF_spec (setTwoAngleTwoAxesBF ROps R c1 s1 i c2 s2 j) i j c1 s1 c2 s2) by (first [apply sc1 | reflexivity]) end;
  cbv [ax_isRev ax_prev Nat.eqb Nat.modulo Nat.divmod Nat.add fst snd Nat.sub];
  rewrite !Ratan2_sin_cos by lra; cbn [fst snd]; teq; ring.
Qed.
