(** C27 proofs, part X: reexpressSymMat33, Rotation/InverseRotation products, Transform/InverseTransform laws. *)
From Coq Require Import ZArith Arith Reals Lra Lia Psatz Nsatz Bool.
Require Import Num Vec Tactics rot27_gen C27_Model C27_Proofs.
Local Open Scope R_scope.

(** ** reexpressSymMat33 = R S R^T for every proper rotation R (the algorithm uses trace invariance and
       R [v]x R^T = [R v]x, so orthonormality and det = +1 are both needed) *)
Lemma reexpress_is_R_S_Rt M xx yy zz xy xz yz : is_rotation ROps M ->
  sym_to_m33 (reexpressSymMat33 ROps M ((xx,yy,zz),(xy,xz,yz))) = sym_RSRt ROps M ((xx,yy,zz),(xy,xz,yz)).
Proof. intros [[A B] D]. dmat M. revert A B D. unf27. intros A B D.
  injection A as A1 A2 A3 A4 A5 A6 A7 A8 A9. injection B as B1 B2 B3 B4 B5 B6 B7 B8 B9.
  teq; nsatz_or_fail. Qed.

(** ** Rotation * InverseRotation, Rotation / Rotation *)
Lemma rot_mul_inv_self M : is_ortho ROps M -> rot_mul_inv ROps M M = I33.
Proof. intros [A B]. exact A. Qed.
Lemma inv_mul_rot_self M : is_ortho ROps M -> inv_mul_rot ROps M M = I33.
Proof. intros [A B]. exact B. Qed.
Lemma rot_div_self M : is_ortho ROps M -> rot_div ROps M M = I33.
Proof. intros [A B]. exact A. Qed.
Lemma rot_mul_rotation A B : is_rotation ROps A -> is_rotation ROps B -> is_rotation ROps (rot_mul ROps A B).
Proof. apply rotation_mul. Qed.
Lemma rot_mul_inv_rotation A B : is_rotation ROps A -> is_rotation ROps B -> is_rotation ROps (rot_mul_inv ROps A B).
Proof. intros. apply rotation_mul; auto. apply rotation_T; auto. Qed.
Lemma inv_mul_rot_rotation A B : is_rotation ROps A -> is_rotation ROps B -> is_rotation ROps (inv_mul_rot ROps A B).
Proof. intros. apply rotation_mul; auto. apply rotation_T; auto. Qed.
Lemma rot_mulv_preserves_norm M v : is_ortho ROps M -> v3_normSqr ROps (m33_mulv ROps M v) = v3_normSqr ROps v.
Proof. intros [A B]. dmat M; dvec v. revert A B. unf27. intros A B.
  injection A as A1 A2 A3 A4 A5 A6 A7 A8 A9. injection B as B1 B2 B3 B4 B5 B6 B7 B8 B9. nsatz_or_fail. Qed.
Lemma rot_inv_mulv_inverts M v : is_ortho ROps M -> m33_mulv ROps (tr33 M) (m33_mulv ROps M v) = v.
Proof. intros [A B]. dmat M; dvec v. revert A B. unf27. intros A B.
  injection B as B1 B2 B3 B4 B5 B6 B7 B8 B9. teq; nsatz_or_fail. Qed.

(** ** Transform_ / InverseTransform_ *)
Definition Xid : Transform R := (I33, (0,0,0)).
Ltac dxf X := let M := fresh "M" in let p := fresh "p" in destruct X as [M p]; dmat M; dvec p.
Ltac orthohyps A B := revert A B; unf27; intros A B;
  injection A as ?A ?A ?A ?A ?A ?A ?A ?A ?A; injection B as ?B ?B ?B ?B ?B ?B ?B ?B ?B.
Ltac orthoA A B := revert A; clear B; unf27; intros A; injection A as ?A ?A ?A ?A ?A ?A ?A ?A ?A.   (* M M^T = I only *)
Ltac orthoB A B := revert B; clear A; unf27; intros B; injection B as ?B ?B ?B ?B ?B ?B ?B ?B ?B.   (* M^T M = I only *)

Lemma X_compose_assoc X Y Z : X_compose ROps (X_compose ROps X Y) Z = X_compose ROps X (X_compose ROps Y Z).
Proof. dxf X; dxf Y; dxf Z. unf27. teq; ring. Qed.
Lemma X_compose_acts X Y s :
  X_shiftFrameStationToBase ROps (X_compose ROps X Y) s = X_shiftFrameStationToBase ROps X (X_shiftFrameStationToBase ROps Y s).
Proof. dxf X; dxf Y; dvec s. unf27. teq; ring. Qed.
Lemma X_compose_id_l X : X_compose ROps Xid X = X.
Proof. dxf X. unfold Xid, I33. unf27. teq; ring. Qed.
Lemma X_compose_id_r X : X_compose ROps X Xid = X.
Proof. dxf X. unfold Xid, I33. unf27. teq; ring. Qed.
(** the formulas InverseTransform_ uses agree with composing the explicit inverse (no orthogonality needed) *)
Lemma X_composeInv_agrees X Yi : X_composeInv ROps X Yi = X_compose ROps X (IX_toTransform ROps Yi).
Proof. reflexivity. Qed.
Lemma IX_compose_agrees Xi Y : IX_compose ROps Xi Y = X_compose ROps (IX_toTransform ROps Xi) Y.
Proof. dxf Xi; dxf Y. unf27. teq; ring. Qed.
Lemma IX_composeInv_agrees Xi Yi : IX_composeInv ROps Xi Yi = X_compose ROps (IX_toTransform ROps Xi) (IX_toTransform ROps Yi).
Proof. dxf Xi; dxf Yi. unf27. teq; ring. Qed.
Lemma IX_shiftFrameStationToBase_agrees Xi s :
  IX_shiftFrameStationToBase ROps Xi s = X_shiftFrameStationToBase ROps (IX_toTransform ROps Xi) s.
Proof. dxf Xi; dvec s. unf27. teq; ring. Qed.
(** compose then invert = identity, both orders, for a transform whose rotation part is orthogonal *)
Lemma X_times_inverse X : is_ortho ROps (fst X) -> X_composeInv ROps X X = Xid.
Proof. intros [A B]. dxf X. cbn [fst] in A, B. orthoA A B. unfold Xid, I33. teq; nsatz_or_fail. Qed.
Lemma inverse_times_X X : is_ortho ROps (fst X) -> IX_compose ROps X X = Xid.
Proof. intros [A B]. dxf X. cbn [fst] in A, B. orthoB A B. unfold Xid, I33. teq; nsatz_or_fail. Qed.
Lemma inverse_of_compose X Y : is_ortho ROps (fst X) -> is_ortho ROps (fst Y) ->
  IX_toTransform ROps (X_compose ROps X Y) = X_compose ROps (IX_toTransform ROps Y) (IX_toTransform ROps X).
Proof. intros [A B] _. dxf X; dxf Y. cbn [fst] in A, B. orthoB A B. teq; nsatz_or_fail. Qed.
(** action on points: ~X undoes X and vice versa *)
Lemma shift_base_frame_roundtrip X s : is_ortho ROps (fst X) ->
  X_shiftBaseStationToFrame ROps X (X_shiftFrameStationToBase ROps X s) = s.
Proof. intros [A B]. dxf X; dvec s. cbn [fst] in A, B. orthoB A B. teq; nsatz_or_fail. Qed.
Lemma shift_frame_base_roundtrip X s : is_ortho ROps (fst X) ->
  X_shiftFrameStationToBase ROps X (X_shiftBaseStationToFrame ROps X s) = s.
Proof. intros [A B]. dxf X; dvec s. cbn [fst] in A, B. orthoA A B. teq; nsatz_or_fail. Qed.
Lemma IX_shift_is_inverse X s : is_ortho ROps (fst X) ->
  IX_shiftFrameStationToBase ROps X (X_shiftFrameStationToBase ROps X s) = s /\
  IX_shiftBaseStationToFrame ROps X (IX_shiftFrameStationToBase ROps X s) = s /\
  IX_shiftFrameStationToBase ROps X s = X_shiftBaseStationToFrame ROps X s.
Proof. intros [A B]. dxf X; dvec s. cbn [fst] in A, B. orthohyps A B. repeat split; teq; nsatz_or_fail. Qed.
Lemma X_pInv_is_inverse_translation X : X_pInv ROps X = snd (IX_toTransform ROps X).
Proof. reflexivity. Qed.
Lemma IX_ofTransform_reads_back X : is_ortho ROps (fst X) -> IX_toTransform ROps (IX_ofTransform ROps X) = X.
Proof. intros [A B]. dxf X. cbn [fst] in A, B. orthoA A B. teq; nsatz_or_fail. Qed.
Lemma X_compose_rotation X Y : is_rotation ROps (fst X) -> is_rotation ROps (fst Y) -> is_rotation ROps (fst (X_compose ROps X Y)).
Proof. intros. cbn [fst X_compose]. apply rotation_mul; auto. Qed.

(** ** statements named after the property's round trips.  Proved: angles -> matrix is the product of elementary
       rotations and a proper rotation, for all 27 axis triples, body- and space-fixed.  NOT proved (no atan2 theory is
       installed): that convert*RotationTo*Angles returns angles reproducing the matrix; that direction is executed by the
       correspondence run only (model vs code on the same matrices, and the code's own round trip in the search harness). *)
Lemma three_angle_roundtrip_partial R0 space a1 (i:nat) a2 (j:nat) a3 (k:nat) : (i < 3)%nat -> (j < 3)%nat -> (k < 3)%nat ->
  let M := setFromThreeAnglesThreeAxes ROps R0 space a1 i a2 j a3 k in
  M = seq3 space a1 i a2 j a3 k /\ is_rotation ROps M.
Proof. intros. split; [apply three_angles_is_product|apply three_angles_rotation]; auto. Qed.
Lemma two_angle_roundtrip_partial R0 space a1 (i:nat) a2 (j:nat) : (i < 3)%nat -> (j < 3)%nat ->
  let M := setFromTwoAnglesTwoAxes ROps R0 space a1 i a2 j in
  M = seq2 space a1 i a2 j /\ is_rotation ROps M.
Proof. intros. split; [apply two_angles_is_product|apply two_angles_rotation]; auto. Qed.

(** ** non-vacuity: the hypotheses used above are satisfiable on concrete non-trivial inputs *)
Example ex_unit_cs : (4/5)*(4/5) + (3/5)*(3/5) = 1.
Proof. lra. Qed.
Example ex_rotation_exists : is_rotation ROps (Relem ROps 2 (3/5) (4/5)) /\ Relem ROps 2 (3/5) (4/5) <> I33.
Proof. split. apply Relem_rotation; [lia|lra]. unfold I33; cbn. intro E. injection E. intros. lra. Qed.
Example ex_unit_quat : (1/2)*(1/2)+(1/2)*(1/2)+(1/2)*(1/2)+(1/2)*(1/2) = 1.
Proof. lra. Qed.
