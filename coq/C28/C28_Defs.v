(** C28: hand-written reference objects the theorems relate the translated helpers to:
    the body-fixed X-Y-Z rotation matrix and the quaternion rotation matrix, as documented
    in Rotation.h.  (The helpers themselves are in Gen/rot_gen.v, regenerated from source.) *)
From Coq Require Import Reals.
Require Import Num Vec.

Section D. Context {T:Type} (K:NumOps T).
Local Notation "x + y" := (nadd K x y). Local Notation "x * y" := (nmul K x y). Local Notation "x - y" := (nsub K x y).
Local Notation "- x" := (nopp K x).
Definition Rx (c s:T) : Mat33 T := ((n1 K, n0 K, n0 K),(n0 K, c, -s),(n0 K, s, c)).
Definition Ry (c s:T) : Mat33 T := ((c, n0 K, s),(n0 K, n1 K, n0 K),(-s, n0 K, c)).
Definition Rz (c s:T) : Mat33 T := ((c, -s, n0 K),(s, c, n0 K),(n0 K, n0 K, n1 K)).
(** body-fixed x-y-z: R_PB = Rx(q0) * Ry(q1) * Rz(q2) *)
Definition Rxyz (q:Vec3 T) : Mat33 T :=
  let '(q0,q1,q2) := q in
  m33_mul K (m33_mul K (Rx (ncos K q0) (nsin K q0)) (Ry (ncos K q1) (nsin K q1))) (Rz (ncos K q2) (nsin K q2)).
(** rotation matrix of a (unit) quaternion (e0,e1,e2,e3), scalar first *)
Definition Rquat (e:Vec4 T) : Mat33 T :=
  let '(e0,e1,e2,e3) := e in
  let two := n1 K + n1 K in
  ((e0*e0+e1*e1-e2*e2-e3*e3, two*(e1*e2-e0*e3), two*(e1*e3+e0*e2)),
   (two*(e1*e2+e0*e3), e0*e0-e1*e1+e2*e2-e3*e3, two*(e2*e3-e0*e1)),
   (two*(e1*e3-e0*e2), two*(e2*e3+e0*e1), e0*e0-e1*e1-e2*e2+e3*e3)).
End D.
