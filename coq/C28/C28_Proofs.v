(** C28 proofs, all over the definitions *generated from Rotation.h* (Gen/rot_gen.v). *)
From Coq Require Import ZArith Reals Lra Lia Psatz Nsatz.
From Coquelicot Require Import Coquelicot.
Require Import Num Vec Tactics rot_gen C28_Defs.
Local Open Scope R_scope.

Ltac unf := cbv [cNB cNP cNInvB cNInvP cNDotB cNDotP cNQ cNInvQ cNDotQ mulNP mulNTP mulNInvP mulNInvTP
  angVelB2qdot qdot2angVelB angAccB2qdd angVel2qdotQ qdotQ2angVel angAcc2qddQ angVelP2qdot angAccP2qdd
  cNB_q cNP_q cNDotB_q cNDotP_q cNInvB_q cNInvP_q angVelB2qdot_q qdot2angVelB_q angAccB2qdd_q
  angVel2qdot321 qdot3212angVel angAcc2qdd321 Rx Ry Rz Rxyz Rquat]; vunf.

Definition I33 : Mat33 R := ((1,0,0),(0,1,0),(0,0,1)).

(** ** N and NInv are inverses (body frame and parent frame), given c1 <> 0 *)
Lemma NInvB_NB c0 s0 c1 s1 c2 s2 : c1 <> 0 -> s2*s2 + c2*c2 = 1 ->
  m33_mul ROps (cNInvB ROps (c0,c1,c2) (s0,s1,s2)) (cNB ROps (c0,c1,c2) (s0,s1,s2)) = I33.
Proof. intros H1 H2. unf. unfold I33. teq; rfield. Qed.
Lemma NB_NInvB c0 s0 c1 s1 c2 s2 : c1 <> 0 -> s2*s2 + c2*c2 = 1 ->
  m33_mul ROps (cNB ROps (c0,c1,c2) (s0,s1,s2)) (cNInvB ROps (c0,c1,c2) (s0,s1,s2)) = I33.
Proof. intros H1 H2. unf. unfold I33. teq; rfield. Qed.
Lemma NInvP_NP c0 s0 c1 s1 c2 s2 : c1 <> 0 -> s0*s0 + c0*c0 = 1 ->
  m33_mul ROps (cNInvP ROps (c0,c1,c2) (s0,s1,s2)) (cNP ROps (c0,c1,c2) (s0,s1,s2)) = I33.
Proof. intros H1 H2. unf. unfold I33. teq; rfield. Qed.
Lemma NP_NInvP c0 s0 c1 s1 c2 s2 : c1 <> 0 -> s0*s0 + c0*c0 = 1 ->
  m33_mul ROps (cNP ROps (c0,c1,c2) (s0,s1,s2)) (cNInvP ROps (c0,c1,c2) (s0,s1,s2)) = I33.
Proof. intros H1 H2. unf. unfold I33. teq; rfield. Qed.

(** the angle overloads: same statements with genuine sines and cosines *)
Lemma sc1 x : sin x * sin x + cos x * cos x = 1.
Proof. generalize (sin2_cos2 x); unfold Rsqr; lra. Qed.
Lemma NInvB_NB_q q0 q1 q2 : cos q1 <> 0 ->
  m33_mul ROps (cNInvB_q ROps (q0,q1,q2)) (cNB_q ROps (q0,q1,q2)) = I33.
Proof. intros H. generalize (sc1 q2); intros H2. cbv [cNInvB_q cNB_q]; vunf.
  apply (NInvB_NB 0 0 (cos q1) (sin q1) (cos q2) (sin q2)); auto. Qed.
Lemma NInvP_NP_q q0 q1 q2 : cos q1 <> 0 ->
  m33_mul ROps (cNInvP_q ROps (q0,q1,q2)) (cNP_q ROps (q0,q1,q2)) = I33.
Proof. intros H. generalize (sc1 q0); intros H2. cbv [cNInvP_q cNP_q]; vunf.
  apply (NInvP_NP (cos q0) (sin q0) (cos q1) (sin q1) 0 0); auto. Qed.

(** ** the fast products are the matrix products, and mutual adjoints *)
Lemma mulNP_is_NP c0 s0 c1 s1 c2 s2 w0 w1 w2 : c1 <> 0 ->
  mulNP ROps (c0,c1) (s0,s1) (1/c1) (w0,w1,w2) = m33_mulv ROps (cNP ROps (c0,c1,c2) (s0,s1,s2)) (w0,w1,w2).
Proof. intros H. unf. teq; field; auto. Qed.
Lemma mulNTP_is_NPT c0 s0 c1 s1 c2 s2 w0 w1 w2 : c1 <> 0 ->
  mulNTP ROps (c0,c1) (s0,s1) (1/c1) (w0,w1,w2) = m33_Tmulv ROps (cNP ROps (c0,c1,c2) (s0,s1,s2)) (w0,w1,w2).
Proof. intros H. unf. teq; field; auto. Qed.
Lemma mulNInvP_is_NInvP c0 s0 c1 s1 c2 s2 w0 w1 w2 :
  mulNInvP ROps (c0,c1) (s0,s1) (w0,w1,w2) = m33_mulv ROps (cNInvP ROps (c0,c1,c2) (s0,s1,s2)) (w0,w1,w2).
Proof. unf. teq; ring. Qed.
Lemma mulNInvTP_is_NInvPT c0 s0 c1 s1 c2 s2 w0 w1 w2 :
  mulNInvTP ROps (c0,c1) (s0,s1) (w0,w1,w2) = m33_Tmulv ROps (cNInvP ROps (c0,c1,c2) (s0,s1,s2)) (w0,w1,w2).
Proof. unf. teq; ring. Qed.
Lemma mulNTP_adjoint c0 s0 c1 s1 oo w0 w1 w2 f0 f1 f2 :
  v3_dot ROps (f0,f1,f2) (mulNP ROps (c0,c1) (s0,s1) oo (w0,w1,w2)) =
  v3_dot ROps (mulNTP ROps (c0,c1) (s0,s1) oo (f0,f1,f2)) (w0,w1,w2).
Proof. unf. ring. Qed.
Lemma mulNInvTP_adjoint c0 s0 c1 s1 w0 w1 w2 f0 f1 f2 :
  v3_dot ROps (f0,f1,f2) (mulNInvP ROps (c0,c1) (s0,s1) (w0,w1,w2)) =
  v3_dot ROps (mulNInvTP ROps (c0,c1) (s0,s1) (f0,f1,f2)) (w0,w1,w2).
Proof. unf. ring. Qed.
Lemma mulNInvP_mulNP c0 s0 c1 s1 w0 w1 w2 : c1 <> 0 -> s0*s0 + c0*c0 = 1 ->
  mulNInvP ROps (c0,c1) (s0,s1) (mulNP ROps (c0,c1) (s0,s1) (1/c1) (w0,w1,w2)) = (w0,w1,w2).
Proof. intros H1 H2. unf. teq; rfield. Qed.

(** ** quaternion blocks *)
Lemma NInvQ_NQ e0 e1 e2 e3 w0 w1 w2 :
  m34_mulv ROps (cNInvQ ROps (e0,e1,e2,e3)) (m43_mulv ROps (cNQ ROps (e0,e1,e2,e3)) (w0,w1,w2))
  = v3_scale ROps (e0*e0+e1*e1+e2*e2+e3*e3) (w0,w1,w2).
Proof. unf. teq; field. Qed.
(** N NInv is the projector onto the tangent space of the unit sphere at q (for |q|=1) *)
Lemma NQ_NInvQ e0 e1 e2 e3 d0 d1 d2 d3 : e0*e0+e1*e1+e2*e2+e3*e3 = 1 -> e0*d0+e1*d1+e2*d2+e3*d3 = 0 ->
  m43_mulv ROps (cNQ ROps (e0,e1,e2,e3)) (m34_mulv ROps (cNInvQ ROps (e0,e1,e2,e3)) (d0,d1,d2,d3)) = (d0,d1,d2,d3).
Proof. intros H1 H2. unf. teq; field_simplify_eq; cbv [Rpow_def.pow]; nsatz_or_fail. Qed.
Lemma angVel2qdotQ_is_N e0 e1 e2 e3 w0 w1 w2 :
  angVel2qdotQ ROps (e0,e1,e2,e3) (w0,w1,w2) = m43_mulv ROps (cNQ ROps (e0,e1,e2,e3)) (w0,w1,w2).
Proof. reflexivity. Qed.
Lemma qdotQ2angVel_inverts e0 e1 e2 e3 w0 w1 w2 : e0*e0+e1*e1+e2*e2+e3*e3 = 1 ->
  qdotQ2angVel ROps (e0,e1,e2,e3) (angVel2qdotQ ROps (e0,e1,e2,e3) (w0,w1,w2)) = (w0,w1,w2).
Proof. intros H. unf. teq; field_simplify_eq; cbv [Rpow_def.pow]; nsatz_or_fail. Qed.
(** the quaternion derivative produced from an angular velocity is tangent to the unit sphere *)
Lemma angVel2qdotQ_tangent e0 e1 e2 e3 w0 w1 w2 :
  v4_dot ROps (e0,e1,e2,e3) (angVel2qdotQ ROps (e0,e1,e2,e3) (w0,w1,w2)) = 0.
Proof. unf. field. Qed.

(** ** NDot is the time derivative of N along q(t) = q + t qd *)
Definition e33 (i j : nat) (m : Mat33 R) : R := m33_e m i j.
Ltac fin3 i := destruct i as [|[|[|i]]]; try lia.
Ltac jet := auto_derive; [ repeat split; auto; rewrite ?Rmult_0_l, ?Rplus_0_r; auto
                         | rewrite ?Rmult_0_l, ?Rplus_0_r; try (field; auto) ].

Lemma NDotB_is_jet (i j : nat) q0 q1 q2 d0 d1 d2 : (i < 3)%nat -> (j < 3)%nat -> cos q1 <> 0 ->
  is_derive (fun t => e33 i j (cNB_q ROps (q0+t*d0, q1+t*d1, q2+t*d2))) 0 (e33 i j (cNDotB_q ROps (q0,q1,q2) (d0,d1,d2))).
Proof. intros Hi Hj Hc. fin3 i; fin3 j; unfold e33; unf; jet. Qed.
Lemma NDotP_is_jet (i j : nat) q0 q1 q2 d0 d1 d2 : (i < 3)%nat -> (j < 3)%nat -> cos q1 <> 0 ->
  is_derive (fun t => e33 i j (cNP_q ROps (q0+t*d0, q1+t*d1, q2+t*d2))) 0 (e33 i j (cNDotP_q ROps (q0,q1,q2) (d0,d1,d2))).
Proof. intros Hi Hj Hc. fin3 i; fin3 j; unfold e33; unf; jet. Qed.
(** quaternion N is linear in q, so its derivative along qd is N(qd) = NDot(qd) *)
Lemma NDotQ_is_N_of_qdot d0 d1 d2 d3 : cNDotQ ROps (d0,d1,d2,d3) = cNQ ROps (d0,d1,d2,d3).
Proof. reflexivity. Qed.
Lemma NQ_linear e0 e1 e2 e3 d0 d1 d2 d3 t w0 w1 w2 :
  m43_mulv ROps (cNQ ROps (e0+t*d0,e1+t*d1,e2+t*d2,e3+t*d3)) (w0,w1,w2) =
  v4_add ROps (m43_mulv ROps (cNQ ROps (e0,e1,e2,e3)) (w0,w1,w2)) (v4_scale ROps t (m43_mulv ROps (cNDotQ ROps (d0,d1,d2,d3)) (w0,w1,w2))).
Proof. unf. teq; field. Qed.

(** ** coordinate rates are the true rates of a rotation moving with the given angular velocity *)
(** body-fixed XYZ, angular velocity expressed in the parent: d/dt R = [w]x R *)
Lemma qdotP_moves_R_with_w (i j:nat) q0 q1 q2 w0 w1 w2 : (i < 3)%nat -> (j < 3)%nat -> cos q1 <> 0 ->
  let qd := m33_mulv ROps (cNP_q ROps (q0,q1,q2)) (w0,w1,w2) in
  is_derive (fun t => e33 i j (Rxyz ROps (q0+t*v3_0 qd, q1+t*v3_1 qd, q2+t*v3_2 qd))) 0
            (e33 i j (m33_mul ROps (m33_crossMat ROps (w0,w1,w2)) (Rxyz ROps (q0,q1,q2)))).
Proof. intros Hi Hj Hc qd. subst qd. generalize (sc1 q0) (sc1 q1) (sc1 q2); intros S0 S1 S2.
  fin3 i; fin3 j; unfold e33; unf; (auto_derive; [ repeat split; auto | rewrite ?Rmult_0_l, ?Rplus_0_r;
    field_simplify_eq; auto; cbv [Rpow_def.pow]; nsatz_or_fail ]). Qed.
(** same with the angular velocity expressed in the body: d/dt R = R [w_B]x *)
Lemma qdotB_moves_R_with_w (i j:nat) q0 q1 q2 w0 w1 w2 : (i < 3)%nat -> (j < 3)%nat -> cos q1 <> 0 ->
  let qd := angVelB2qdot_q ROps (q0,q1,q2) (w0,w1,w2) in
  is_derive (fun t => e33 i j (Rxyz ROps (q0+t*v3_0 qd, q1+t*v3_1 qd, q2+t*v3_2 qd))) 0
            (e33 i j (m33_mul ROps (Rxyz ROps (q0,q1,q2)) (m33_crossMat ROps (w0,w1,w2)))).
Proof. intros Hi Hj Hc qd. subst qd. generalize (sc1 q0) (sc1 q1) (sc1 q2); intros S0 S1 S2.
  fin3 i; fin3 j; unfold e33; unf; (auto_derive; [ repeat split; auto | rewrite ?Rmult_0_l, ?Rplus_0_r;
    field_simplify_eq; auto; cbv [Rpow_def.pow]; nsatz_or_fail ]). Qed.
(** quaternion, |q| = 1, angular velocity in the parent *)
Lemma qdotQ_moves_R_with_w (i j:nat) e0 e1 e2 e3 w0 w1 w2 : (i < 3)%nat -> (j < 3)%nat -> e0*e0+e1*e1+e2*e2+e3*e3 = 1 ->
  let qd := angVel2qdotQ ROps (e0,e1,e2,e3) (w0,w1,w2) in
  is_derive (fun t => e33 i j (Rquat ROps (e0+t*v4_0 qd, e1+t*v4_1 qd, e2+t*v4_2 qd, e3+t*v4_3 qd))) 0
            (e33 i j (m33_mul ROps (m33_crossMat ROps (w0,w1,w2)) (Rquat ROps (e0,e1,e2,e3)))).
Proof. intros Hi Hj Hn qd. subst qd.
  fin3 i; fin3 j; unfold e33; unf; (auto_derive; [ repeat split; auto | rewrite ?Rmult_0_l, ?Rplus_0_r;
    field_simplify_eq; auto; cbv [Rpow_def.pow]; nsatz_or_fail ]). Qed.

(** ** second-derivative helpers are the time derivatives of the first-order ones *)
Definition e3 (i:nat) (v:Vec3 R) : R := match i with O => v3_0 v | S O => v3_1 v | _ => v3_2 v end.
Definition e4 (i:nat) (v:Vec4 R) : R := match i with O => v4_0 v | S O => v4_1 v | S (S O) => v4_2 v | _ => v4_3 v end.
(** body frame: qdot(t) = N_B(q(t)) w(t), q' = qdot, w' = b  ==>  qdotdot = helper(q, w, b) *)
Lemma angAccB2qdd_is_jet (i:nat) q0 q1 q2 w0 w1 w2 b0 b1 b2 : (i < 3)%nat -> cos q1 <> 0 ->
  let qd := angVelB2qdot_q ROps (q0,q1,q2) (w0,w1,w2) in
  is_derive (fun t => e3 i (angVelB2qdot_q ROps (q0+t*v3_0 qd, q1+t*v3_1 qd, q2+t*v3_2 qd) (w0+t*b0, w1+t*b1, w2+t*b2))) 0
            (e3 i (angAccB2qdd_q ROps (q0,q1,q2) (w0,w1,w2) (b0,b1,b2))).
Proof. intros Hi Hc qd. subst qd. fin3 i; unfold e3; unf; jet. Qed.
Lemma angAcc2qdd321_is_jet (i:nat) q0 q1 q2 w0 w1 w2 b0 b1 b2 : (i < 3)%nat -> cos q1 <> 0 ->
  let qd := angVel2qdot321 ROps (q0,q1,q2) (w0,w1,w2) in
  is_derive (fun t => e3 i (angVel2qdot321 ROps (q0+t*v3_0 qd, q1+t*v3_1 qd, q2+t*v3_2 qd) (w0+t*b0, w1+t*b1, w2+t*b2))) 0
            (e3 i (angAcc2qdd321 ROps (q0,q1,q2) (w0,w1,w2) (b0,b1,b2))).
Proof. intros Hi Hc qd. subst qd. fin3 i; unfold e3; unf; jet. Qed.
Lemma angAcc2qddQ_is_jet (i:nat) e0 e1 e2 e3' w0 w1 w2 b0 b1 b2 : (i < 4)%nat ->
  let qd := angVel2qdotQ ROps (e0,e1,e2,e3') (w0,w1,w2) in
  is_derive (fun t => e4 i (angVel2qdotQ ROps (e0+t*v4_0 qd, e1+t*v4_1 qd, e2+t*v4_2 qd, e3'+t*v4_3 qd) (w0+t*b0, w1+t*b1, w2+t*b2))) 0
            (e4 i (angAcc2qddQ ROps (e0,e1,e2,e3') (w0,w1,w2) (b0,b1,b2))).
Proof. intros Hi qd. subst qd. destruct i as [|[|[|[|i]]]]; try lia; unfold e4; unf; jet. Qed.
(** parent frame second-order helper equals N b + NDot NInv qdot *)
Lemma angAccP_formula c0 s0 c1 s1 q0 q1 q2 b0 b1 b2 : c1 <> 0 -> s0*s0 + c0*c0 = 1 -> s1*s1 + c1*c1 = 1 ->
  angAccP2qdd ROps (c0,c1) (s0,s1) (1/c1) (q0,q1,q2) (b0,b1,b2) =
  v3_add ROps (m33_mulv ROps (cNP ROps (c0,c1,0) (s0,s1,0)) (b0,b1,b2))
              (m33_mulv ROps (cNDotP ROps (c0,c1) (s0,s1) (1/c1) (q0,q1,q2))
                             (m33_mulv ROps (cNInvP ROps (c0,c1,0) (s0,s1,0)) (q0,q1,q2))).
Proof. intros H1 H2 H3. unf. teq; rfield. Qed.
(** 3-2-1 helpers are mutually inverse *)
Lemma qdot321_roundtrip q0 q1 q2 w0 w1 w2 : cos q1 <> 0 ->
  qdot3212angVel ROps (q0,q1,q2) (angVel2qdot321 ROps (q0,q1,q2) (w0,w1,w2)) = (w0,w1,w2).
Proof. intros H. generalize (sc1 q1) (sc1 q2); intros S1 S2. unf. teq; rfield. Qed.
Lemma qdotB_roundtrip q0 q1 q2 w0 w1 w2 : cos q1 <> 0 ->
  qdot2angVelB_q ROps (q0,q1,q2) (angVelB2qdot_q ROps (q0,q1,q2) (w0,w1,w2)) = (w0,w1,w2).
Proof. intros H. generalize (sc1 q1) (sc1 q2); intros S1 S2. unf. teq; rfield. Qed.

(** non-vacuity: the hypotheses are satisfiable at a concrete non-trivial orientation *)
Example hyps_satisfiable : cos (PI/3) <> 0 /\ (1/2)*(1/2)+(sqrt 3/2)*(sqrt 3/2) = 1.
Proof. split. rewrite cos_PI3; lra. generalize (sqrt_sqrt 3); intros; nra. Qed.
