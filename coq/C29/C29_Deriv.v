(** C29: the acceleration shift is the time derivative of the velocity shift (Coquelicot), kept apart from C29_Proofs.v *)
From Coq Require Import ZArith Reals Lra Lia.
From Coquelicot Require Import Coquelicot.
Require Import Num Vec Tactics c29sa_gen.
Local Open Scope R_scope.
Definition e3 (i:nat) (v:Vec3 R) : R := match i with O => v3_0 v | S O => v3_1 v | _ => v3_2 v end.
Ltac fin3 i := destruct i as [|[|[|i]]]; try lia.
Ltac jet := auto_derive; [ repeat split; auto | rewrite ?Rmult_0_l, ?Rplus_0_r; try (field; auto) ].
Ltac unfsa := cbv [sa_shiftVelocityBy sa_shiftAccelerationBy e3]; vunf.
(** a body moves with angular velocity w(t) = w + t b and origin velocity v(t) = v + t a; a body-fixed point Q at offset r(t)
    from the origin moves with r' = w x r.  Along every such motion the velocity of Q (shiftVelocityBy) has the time
    derivative given by shiftAccelerationBy. *)
Lemma shiftAcceleration_is_derivative_of_shiftVelocity (i:nat) w0 w1 w2 v0 v1 v2 b0 b1 b2 a0 a1 a2 r0 r1 r2 : (i < 3)%nat ->
  let rd := v3_cross ROps (w0,w1,w2) (r0,r1,r2) in
  is_derive (fun t => e3 i (snd (sa_shiftVelocityBy ROps ((w0+t*b0, w1+t*b1, w2+t*b2),(v0+t*a0, v1+t*a1, v2+t*a2))
                                   (r0+t*v3_0 rd, r1+t*v3_1 rd, r2+t*v3_2 rd)))) 0
            (e3 i (snd (sa_shiftAccelerationBy ROps ((b0,b1,b2),(a0,a1,a2)) (w0,w1,w2) (r0,r1,r2)))).
Proof. intros Hi rd. subst rd. fin3 i; unfsa; jet. Qed.
(** and the velocity shift is the derivative of the position of Q = origin + r *)
Lemma shiftVelocity_is_derivative_of_position (i:nat) w0 w1 w2 v0 v1 v2 x0 x1 x2 r0 r1 r2 : (i < 3)%nat ->
  let rd := v3_cross ROps (w0,w1,w2) (r0,r1,r2) in
  is_derive (fun t => e3 i (v3_add ROps (x0+t*v0, x1+t*v1, x2+t*v2) (r0+t*v3_0 rd, r1+t*v3_1 rd, r2+t*v3_2 rd))) 0
            (e3 i (snd (sa_shiftVelocityBy ROps ((w0,w1,w2),(v0,v1,v2)) (r0,r1,r2)))).
Proof. intros Hi rd. subst rd. fin3 i; unfsa; jet. Qed.
