(** C29 hand-written part of the model (DESIGN 5 C29).  Built ON TOP of the kernels that
    translate/sk2coq.py regenerates from MassProperties.h / SpatialAlgebra.h on every run
    (Gen/c29in_gen.v: Inertia_::pointMassAt, isValidInertiaMatrix, shiftTo/FromMassCenter;
     Gen/c29si_gen.v: SpatialInertia_::operator*(SpatialVec), calcMassMoment;
     Gen/c29sa_gen.v: shiftVelocityBy/ForceBy/AccelerationBy, ...FromTo, findRelative...InF).
    What is written by hand here are the member functions that mutate *this or live outside the
    translatable subset; each is tied to the compiled C++ by the correspondence run of checks/C29.py:
      crossMatSq (SmallMatrixMixed.h), UnitInertia_::pointMassAt/shiftTo/FromCentroid,
      Rotation_/InverseRotation_::reexpressSymMat33 (Rotation.cpp), Inertia_::reexpress,
      SpatialInertia_::shift/reexpress/transform/operator+=,
      MassProperties_::setMassProperties/calcCentralInertia/calcShiftedInertia/calcTransformedInertia/
        calcShiftedMassProps/calcTransformedMassProps/reexpress,
      ArticulatedInertia_(SpatialInertia), ::shift (MassProperties.cpp, with halfCrossDiff and Vec3 % SymMat33), ::operator*.
    No proofs in this file. *)
From Coq Require Import ZArith.
Require Import Num Vec c29in_gen c29si_gen c29sa_gen.

Section M. Context {T:Type} (K:NumOps T).
Local Notation "x + y" := (nadd K x y). Local Notation "x * y" := (nmul K x y). Local Notation "x - y" := (nsub K x y).
Local Notation "- x" := (nopp K x).
Let two : T := nofZ K 2%Z.
Let zero : T := nofZ K 0%Z.

(** SmallMatrixMixed.h crossMatSq(v): S(v) = |v|^2 I - v v^T, elementwise as in the source *)
Definition crossMatSq (v:Vec3 T) : SymMat33 T :=
  let xx := v3_0 v * v3_0 v in let yy := v3_1 v * v3_1 v in let zz := v3_2 v * v3_2 v in
  let nx := - (v3_0 v) in let ny := - (v3_1 v) in
  ((yy+zz, xx+zz, xx+yy), (nx * v3_1 v, nx * v3_2 v, ny * v3_2 v)).

(** UnitInertia_ *)
Definition ui_pointMassAt (p:Vec3 T) : SymMat33 T := crossMatSq p.
Definition ui_shiftToCentroid (G:SymMat33 T) (CF:Vec3 T) : SymMat33 T := sym_sub K G (ui_pointMassAt CF).
Definition ui_shiftFromCentroid (G:SymMat33 T) (p:Vec3 T) : SymMat33 T := sym_add K G (ui_pointMassAt p).

(** Rotation.cpp Rotation_<P>::reexpressSymMat33(S_BB) with [R] the rotation's Mat33 (57-flop formula;
    equals R S R^T only when R is orthogonal: Z00 is obtained from the trace) *)
Definition reexpressSymMat33 (R:Mat33 T) (S:SymMat33 T) : SymMat33 T :=
  let a := v3_0 (fst S) in let b := v3_1 (fst S) in let c := v3_2 (fst S) in
  let d := v3_0 (snd S) in let e := v3_1 (snd S) in let f := v3_2 (snd S) in
  let L0 : Vec3 T := (a - c, d, two * e) in       (* columns of the 3x2 matrix L *)
  let L1 : Vec3 T := (d, b - c, two * f) in
  let R0 := m33_r0 R in let R1 := m33_r1 R in let R2 := m33_r2 R in
  let Y00 := v3_dot K R1 L0 in let Y01 := v3_dot K R1 L1 in
  let Y10 := v3_dot K R2 L0 in let Y11 := v3_dot K R2 L1 in
  let Z10 := Y00 * v3_0 R0 + Y01 * v3_1 R0 in
  let Z11 := Y00 * v3_0 R1 + Y01 * v3_1 R1 in
  let Z20 := Y10 * v3_0 R0 + Y11 * v3_1 R0 in
  let Z21 := Y10 * v3_0 R1 + Y11 * v3_1 R1 in
  let Z22 := Y10 * v3_0 R2 + Y11 * v3_1 R2 in
  let Z00 := (v3_0 L0 + v3_1 L1) - (Z11 + Z22) in
  let Rv0 := v3_1 R0 * e - v3_0 R0 * f in
  let Rv1 := v3_1 R1 * e - v3_0 R1 * f in
  let Rv2 := v3_1 R2 * e - v3_0 R2 * f in
  ((Z00 + c, Z11 + c, Z22 + c), (Z10 + Rv2, Z20 - Rv1, Z21 + Rv0)).

(** Inertia_::reexpress(R_FB) = (~R_FB).reexpressSymMat33(I_OF_F); the InverseRotation_ version is the same
    formula reading the transposed storage *)
Definition in_reexpress (I:SymMat33 T) (R_FB:Mat33 T) : SymMat33 T := reexpressSymMat33 (m33_T R_FB) I.

(** the full symmetric congruence R S R^T written out (reference object for the theorems) *)
Definition sym_congr (R:Mat33 T) (S:SymMat33 T) : Mat33 T := m33_mul K (m33_mul K R (sym_to_m33 S)) (m33_T R).

(** SpatialInertia_ = (mass m, mass centre p, unit inertia G about the origin) *)
Definition SpatialInertia := (T * Vec3 T * SymMat33 T)%type.
Definition si_m (M:SpatialInertia) : T := fst (fst M).
Definition si_p (M:SpatialInertia) : Vec3 T := snd (fst M).
Definition si_G (M:SpatialInertia) : SymMat33 T := snd M.
Definition si_mul (M:SpatialInertia) (v:SpatialVec T) : SpatialVec T := si_mulSV K (si_m M) (si_p M) (si_G M) v.
(** shiftInPlace(S): G.shiftToCentroidInPlace(p); pNew = p-S; G.shiftFromCentroidInPlace(pNew); p = pNew *)
Definition si_shift (M:SpatialInertia) (S:Vec3 T) : SpatialInertia :=
  let G1 := ui_shiftToCentroid (si_G M) (si_p M) in
  let pNew := v3_sub K (si_p M) S in
  (si_m M, pNew, ui_shiftFromCentroid G1 pNew).
(** reexpressInPlace(R_FB): p = (~R_FB)*p; G.reexpressInPlace(R_FB) *)
Definition si_reexpress (M:SpatialInertia) (R_FB:Mat33 T) : SpatialInertia :=
  (si_m M, m33_Tmulv K R_FB (si_p M), in_reexpress (si_G M) R_FB).
(** transformInPlace(X_FB): shiftInPlace(X_FB.p()); reexpressInPlace(X_FB.R()) *)
Definition si_transform (M:SpatialInertia) (X:Transform T) : SpatialInertia :=
  si_reexpress (si_shift M (snd X)) (fst X).
(** operator+= *)
Definition si_add (A B:SpatialInertia) : SpatialInertia :=
  let mtot := si_m A + si_m B in let oomtot := ndiv K (n1 K) mtot in
  (mtot, v3_scale K oomtot (v3_add K (si_calcMassMoment K (si_m A) (si_p A) (si_G A)) (si_calcMassMoment K (si_m B) (si_p B) (si_G B))),
   sym_scale K oomtot (sym_add K (sym_scale K (si_m A) (si_G A)) (sym_scale K (si_m B) (si_G B)))).

(** MassProperties_ = (mass, comInB, unitInertia_OB_B) *)
Definition MassProps := (T * Vec3 T * SymMat33 T)%type.
Definition sym_zero : SymMat33 T := ((zero,zero,zero),(zero,zero,zero)).
(** setMassProperties(m, com, Inertia): unit inertia = inertia*(1/m), or 0 when m == 0 *)
Definition mp_ofInertia (m:T) (com:Vec3 T) (I:SymMat33 T) : MassProps :=
  if andb (nleb K m zero) (nleb K zero m) then (m, com, sym_zero)
  else (m, com, sym_scale K (ndiv K (n1 K) m) I).
Definition mp_calcInertia (B:MassProps) : SymMat33 T := sym_scale K (si_m B) (si_G B).
Definition mp_calcCentralInertia (B:MassProps) : SymMat33 T :=
  sym_sub K (sym_scale K (si_m B) (si_G B)) (in_pointMassAt K (si_p B) (si_m B)).
Definition mp_calcShiftedInertia (B:MassProps) (newO:Vec3 T) : SymMat33 T :=
  sym_add K (mp_calcCentralInertia B) (in_pointMassAt K (v3_sub K newO (si_p B)) (si_m B)).
Definition mp_calcTransformedInertia (B:MassProps) (X:Transform T) : SymMat33 T :=
  in_reexpress (mp_calcShiftedInertia B (snd X)) (fst X).
Definition mp_calcShiftedMassProps (B:MassProps) (newO:Vec3 T) : MassProps :=
  mp_ofInertia (si_m B) (v3_sub K (si_p B) newO) (mp_calcShiftedInertia B newO).
(** ~X_BC*comInB = ~R*(com - p) *)
Definition mp_calcTransformedMassProps (B:MassProps) (X:Transform T) : MassProps :=
  mp_ofInertia (si_m B) (m33_Tmulv K (fst X) (v3_sub K (si_p B) (snd X))) (mp_calcTransformedInertia B X).
Definition mp_reexpress (B:MassProps) (R_BC:Mat33 T) : MassProps :=
  (si_m B, m33_Tmulv K R_BC (si_p B), in_reexpress (si_G B) R_BC).

(** ArticulatedInertia_ = (M mass distribution, F first-moment matrix, J inertia) *)
Definition ArtInertia := (SymMat33 T * Mat33 T * SymMat33 T)%type.
Definition ai_M (P:ArtInertia) := fst (fst P). Definition ai_F (P:ArtInertia) := snd (fst P). Definition ai_J (P:ArtInertia) := snd P.
(** explicit ArticulatedInertia_(rbi): M(rbi.getMass()), J(rbi.calcInertia()), F(crossMat(rbi.calcMassMoment())) *)
Definition ai_ofSI (R:SpatialInertia) : ArtInertia :=
  (((si_m R, si_m R, si_m R),(zero,zero,zero)),
   m33_crossMat K (si_calcMassMoment K (si_m R) (si_p R) (si_G R)),
   sym_scale K (si_m R) (si_G R)).
(** SmallMatrixMixed.h cross(Vec3 v, SymMat33 s) = [v]x * s, elementwise as in the source *)
Definition v3_cross_sym (v:Vec3 T) (s:SymMat33 T) : Mat33 T :=
  let x := v3_0 v in let y := v3_1 v in let z := v3_2 v in
  let a := v3_0 (fst s) in let d := v3_1 (fst s) in let f := v3_2 (fst s) in
  let b := v3_0 (snd s) in let c := v3_1 (snd s) in let e := v3_2 (snd s) in
  let xe := x*e in let yc := y*c in let zb := z*b in
  ((yc-zb, y*e-z*d, y*f-z*e), (z*a-x*c, zb-xe, z*c-x*f), (x*b-y*a, x*d-y*b, xe-yc)).
(** MassProperties.cpp halfCrossDiff(v,F,G): lower half of [v]x F - G [v]x *)
Definition halfCrossDiff (v:Vec3 T) (F G:Mat33 T) : SymMat33 T :=
  let v0 := v3_0 v in let v1 := v3_1 v in let v2 := v3_2 v in
  let f i j := m33_e F i j in let g i j := m33_e G i j in
  let s00 := v1*(f 2 0 + g 0 2) - v2*(f 1 0 + g 0 1) in
  let s10 := v2*(f 0 0 - g 1 1) - v0*(f 2 0) + v1*(g 1 2) in
  let s11 := v2*(f 0 1 + g 1 0) - v0*(f 2 1 + g 1 2) in
  let s20 := v0*(f 1 0) - v2*(g 2 1) - v1*(f 0 0 - g 2 2) in
  let s21 := v0*(f 1 1 - g 2 2) - v1*(f 0 1) + v2*(g 2 0) in
  let s22 := v0*(f 1 2 + g 2 1) - v1*(f 0 2 + g 2 0) in
  ((s00, s11, s22), (s10, s20, s21)).
(** ArticulatedInertia_::shift(s): Fp = F + s % M; Jp = J + halfCrossDiff(s, ~F, Fp) *)
Definition ai_shift (P:ArtInertia) (s:Vec3 T) : ArtInertia :=
  let Fp := m33_add K (ai_F P) (v3_cross_sym s (ai_M P)) in
  let Jp := sym_add K (ai_J P) (halfCrossDiff s (m33_T (ai_F P)) Fp) in
  (ai_M P, Fp, Jp).
(** operator*(SpatialVec): (J*v0 + F*v1, ~F*v0 + M*v1) *)
Definition ai_mul (P:ArtInertia) (v:SpatialVec T) : SpatialVec T :=
  (v3_add K (sym_mulv K (ai_J P) (fst v)) (m33_mulv K (ai_F P) (snd v)),
   v3_add K (m33_Tmulv K (ai_F P) (fst v)) (sym_mulv K (ai_M P) (snd v))).

(** re-expression of a spatial vector in frame B given R_FB (both halves multiplied by ~R_FB) *)
Definition sv_reexpress (V:SpatialVec T) (R_FB:Mat33 T) : SpatialVec T := (m33_Tmulv K R_FB (fst V), m33_Tmulv K R_FB (snd V)).

(** invariants of a symmetric matrix (coefficients of the characteristic polynomial) *)
Definition sym_trace (S:SymMat33 T) : T := v3_0 (fst S) + v3_1 (fst S) + v3_2 (fst S).
Definition sym_inv2 (S:SymMat33 T) : T :=
  let a := v3_0 (fst S) in let b := v3_1 (fst S) in let c := v3_2 (fst S) in
  let d := v3_0 (snd S) in let e := v3_1 (snd S) in let f := v3_2 (snd S) in
  a*b + a*c + b*c - d*d - e*e - f*f.
Definition sym_det (S:SymMat33 T) : T := m33_det K (sym_to_m33 S).
(** quadratic form u^T S u *)
Definition sym_quad (S:SymMat33 T) (u:Vec3 T) : T := v3_dot K u (sym_mulv K S u).

(** inertia of a cloud of point masses about the origin: sum of Inertia_::pointMassAt *)
Fixpoint cloud_inertia (pts : list (Vec3 T * T)) : SymMat33 T :=
  match pts with nil => sym_zero | cons (p,m) r => sym_add K (in_pointMassAt K p m) (cloud_inertia r) end.

(** packing of (m,p,G) into a Mat43 so the generic correspondence harness can print it: rows (m,0,0), p, moments, products *)
Definition pack10 (M:SpatialInertia) : Mat43 T := ((si_m M, zero, zero), si_p M, fst (si_G M), snd (si_G M)).
End M.

(** flat-argument wrappers run by the correspondence (one per compared C++ call) *)
Section W. Context {T:Type} (K:NumOps T).
Definition w_sig : T := ndiv K (nofZ K (6369051672525773)%Z) (nofZ K (316912650057057350374175801344)%Z).
Definition w_crossMatSq (v:Vec3 T) := crossMatSq K v.
Definition w_ui_shiftToCentroid (G:SymMat33 T) (c:Vec3 T) := ui_shiftToCentroid K G c.
Definition w_ui_shiftFromCentroid (G:SymMat33 T) (c:Vec3 T) := ui_shiftFromCentroid K G c.
Definition w_reexpressSymMat33 (R:Mat33 T) (S:SymMat33 T) := reexpressSymMat33 K R S.
Definition w_in_reexpress (I:SymMat33 T) (R:Mat33 T) := in_reexpress K I R.
Definition w_si_shift (m:T) (p:Vec3 T) (G:SymMat33 T) (S:Vec3 T) := pack10 K (si_shift K (m,p,G) S).
Definition w_si_reexpress (m:T) (p:Vec3 T) (G:SymMat33 T) (R:Mat33 T) := pack10 K (si_reexpress K (m,p,G) R).
Definition w_si_transform (m:T) (p:Vec3 T) (G:SymMat33 T) (R:Mat33 T) (x:Vec3 T) := pack10 K (si_transform K (m,p,G) (R,x)).
Definition w_si_add (m:T) (p:Vec3 T) (G:SymMat33 T) (m2:T) (p2:Vec3 T) (G2:SymMat33 T) := pack10 K (si_add K (m,p,G) (m2,p2,G2)).
Definition w_mp_ofInertia (m:T) (c:Vec3 T) (I:SymMat33 T) := pack10 K (mp_ofInertia K m c I).
Definition w_mp_calcInertia (m:T) (c:Vec3 T) (G:SymMat33 T) := mp_calcInertia K (m,c,G).
Definition w_mp_calcCentralInertia (m:T) (c:Vec3 T) (G:SymMat33 T) := mp_calcCentralInertia K (m,c,G).
Definition w_mp_calcShiftedInertia (m:T) (c:Vec3 T) (G:SymMat33 T) (o:Vec3 T) := mp_calcShiftedInertia K (m,c,G) o.
Definition w_mp_calcTransformedInertia (m:T) (c:Vec3 T) (G:SymMat33 T) (R:Mat33 T) (x:Vec3 T) := mp_calcTransformedInertia K (m,c,G) (R,x).
Definition w_mp_calcShiftedMassProps (m:T) (c:Vec3 T) (G:SymMat33 T) (o:Vec3 T) := pack10 K (mp_calcShiftedMassProps K (m,c,G) o).
Definition w_mp_calcTransformedMassProps (m:T) (c:Vec3 T) (G:SymMat33 T) (R:Mat33 T) (x:Vec3 T) := pack10 K (mp_calcTransformedMassProps K (m,c,G) (R,x)).
Definition w_mp_reexpress (m:T) (c:Vec3 T) (G:SymMat33 T) (R:Mat33 T) := pack10 K (mp_reexpress K (m,c,G) R).
Definition w_ai_ofSI_F (m:T) (p:Vec3 T) (G:SymMat33 T) := ai_F (ai_ofSI K (m,p,G)).
Definition w_ai_ofSI_J (m:T) (p:Vec3 T) (G:SymMat33 T) := ai_J (ai_ofSI K (m,p,G)).
Definition w_ai_ofSI_M (m:T) (p:Vec3 T) (G:SymMat33 T) := ai_M (ai_ofSI K (m,p,G)).
Definition w_ai_shift_F (M:SymMat33 T) (F:Mat33 T) (J:SymMat33 T) (s:Vec3 T) := ai_F (ai_shift K (M,F,J) s).
Definition w_ai_shift_J (M:SymMat33 T) (F:Mat33 T) (J:SymMat33 T) (s:Vec3 T) := ai_J (ai_shift K (M,F,J) s).
Definition w_ai_shift_M (M:SymMat33 T) (F:Mat33 T) (J:SymMat33 T) (s:Vec3 T) := ai_M (ai_shift K (M,F,J) s).
Definition w_ai_mul (M:SymMat33 T) (F:Mat33 T) (J:SymMat33 T) (v:SpatialVec T) := ai_mul K (M,F,J) v.
End W.

Section W2. Context {T:Type} (K:NumOps T).
(** aliases: second C++ entry points that must compute the same function *)
Definition w_ui_pointMassAt (p:Vec3 T) := ui_pointMassAt K p.
Definition w_in_reexpress_inv (I:SymMat33 T) (R:Mat33 T) := in_reexpress K I R.
Definition w_invrot_reexpressSymMat33 (R:Mat33 T) (S:SymMat33 T) := reexpressSymMat33 K R S.
Definition w_ai_shiftInPlace_F (M:SymMat33 T) (F:Mat33 T) (J:SymMat33 T) (s:Vec3 T) := ai_F (ai_shift K (M,F,J) s).
Definition w_ai_shiftInPlace_J (M:SymMat33 T) (F:Mat33 T) (J:SymMat33 T) (s:Vec3 T) := ai_J (ai_shift K (M,F,J) s).
Definition w_in_shiftToMassCenterInPlace (I:SymMat33 T) (c:Vec3 T) (m:T) := in_shiftToMassCenter K I c m.
Definition w_in_shiftFromMassCenterInPlace (I:SymMat33 T) (c:Vec3 T) (m:T) := in_shiftFromMassCenter K I c m.
Definition w_si_transform_inv (m:T) (p:Vec3 T) (G:SymMat33 T) (R:Mat33 T) (x:Vec3 T) := pack10 K (si_transform K (m,p,G) (R,x)).
End W2.
