(** C29 proofs.  The kernels in_pointMassAt, in_isValid, in_shiftTo/FromMassCenter, si_mulSV, si_calcMassMoment,
    sa_shift...By are the definitions GENERATED from MassProperties.h / SpatialAlgebra.h (Gen/c29*_gen.v);
    the remaining functions are the hand model C29_Model.v (tied by the correspondence run). All over the reals. *)
From Coq Require Import ZArith Reals Lra Lia Psatz Nsatz List QArith.
Require Import Num Vec Tactics c29in_gen c29si_gen c29sa_gen C29_Model.
Local Open Scope R_scope.

Ltac unf := cbv [in_pointMassAt in_shiftToMassCenter in_shiftFromMassCenter si_mulSV si_calcMassMoment
  sa_shiftVelocityBy sa_shiftVelocityFromTo sa_shiftForceBy sa_shiftForceFromTo sa_shiftAccelerationBy sa_shiftAccelerationFromTo
  sa_findRelativeVelocityInF sa_findRelativeAccelerationInF
  crossMatSq ui_pointMassAt ui_shiftToCentroid ui_shiftFromCentroid reexpressSymMat33 in_reexpress sym_congr
  si_m si_p si_G si_mul si_shift si_reexpress si_transform si_add sym_zero
  mp_calcInertia mp_calcCentralInertia mp_calcShiftedInertia mp_calcTransformedInertia mp_reexpress
  ai_M ai_F ai_J ai_ofSI v3_cross_sym halfCrossDiff ai_shift ai_mul sv_reexpress
  sym_trace sym_inv2 sym_det sym_quad pack10]; vunf.

(** a matrix is orthogonal: R R^T = I and R^T R = I (both hold for every rotation matrix) *)
Definition I33 : Mat33 R := ((1,0,0),(0,1,0),(0,0,1)).
Definition orthogonal (M:Mat33 R) : Prop := m33_mul ROps M (m33_T M) = I33 /\ m33_mul ROps (m33_T M) M = I33.

Ltac orth_hyps H :=
  let H1 := fresh "O" in let H2 := fresh "O" in destruct H as [H1 H2];
  cbv [I33] in H1, H2; vunf; cbv [m33_mul m33_T m33_c0 m33_c1 m33_c2 v3_dot v3_0 v3_1 v3_2 ROps nadd nmul] in H1, H2;
  injection H1; injection H2; clear H1 H2; intros.

(** ** A. shifting to and from the mass centre *)
Lemma shift_to_from_inverse I c m : in_shiftFromMassCenter ROps (in_shiftToMassCenter ROps I c m) c m = I.
Proof. destruct I as [[[a b] c0] [[d e] f]], c as [[x y] z]. unf. teq; ring. Qed.
Lemma shift_from_to_inverse I c m : in_shiftToMassCenter ROps (in_shiftFromMassCenter ROps I c m) c m = I.
Proof. destruct I as [[[a b] c0] [[d e] f]], c as [[x y] z]. unf. teq; ring. Qed.
(** the point-mass inertia is m (|p|^2 I - p p^T): the parallel-axis term *)
Lemma pointMass_is_parallel_axis_term x y z m :
  sym_to_m33 (in_pointMassAt ROps (x,y,z) m) =
  m33_scale ROps m (m33_sub ROps (m33_scale ROps (v3_normSqr ROps (x,y,z)) I33) (m33_outer ROps (x,y,z) (x,y,z))).
Proof. unf. cbv [I33]. teq; ring. Qed.
(** going from the central inertia to a point p and from there (through the mass centre) to a point q is the
    same as going to q directly *)
Lemma shift_additive Ic p q m :
  in_shiftFromMassCenter ROps (in_shiftToMassCenter ROps (in_shiftFromMassCenter ROps Ic p m) p m) q m
  = in_shiftFromMassCenter ROps Ic q m.
Proof. rewrite shift_from_to_inverse. reflexivity. Qed.
Lemma crossMatSq_is_unit_point_mass x y z : crossMatSq ROps (x,y,z) = in_pointMassAt ROps (x,y,z) 1.
Proof. unf. teq; ring. Qed.

(** ** spatial inertia shifts (hand model of SpatialInertia_::shiftInPlace) *)
Ltac d3 v := let a := fresh v "x" in let b := fresh v "y" in let c := fresh v "z" in destruct v as [[a b] c].
Ltac dsym s := let a := fresh s "xx" in let b := fresh s "yy" in let c := fresh s "zz" in
  let d := fresh s "xy" in let e := fresh s "xz" in let f := fresh s "yz" in destruct s as [[[a b] c] [[d e] f]].
Ltac dsv v := let a := fresh v "w" in let b := fresh v "v" in destruct v as [a b]; d3 a; d3 b.
Ltac dm33 r := let a := fresh r "0" in let b := fresh r "1" in let c := fresh r "2" in destruct r as [[a b] c]; d3 a; d3 b; d3 c.

Lemma si_shift_zero m p G : si_shift ROps (m,p,G) (0,0,0) = (m,p,G).
Proof. d3 p; dsym G. unf. teq; ring. Qed.
Lemma si_shift_additive m p G a b :
  si_shift ROps (si_shift ROps (m,p,G) a) b = si_shift ROps (m,p,G) (v3_add ROps a b).
Proof. d3 p; dsym G; d3 a; d3 b. unf. teq; ring. Qed.
Lemma si_shift_inverse m p G a : si_shift ROps (si_shift ROps (m,p,G) a) (v3_neg ROps a) = (m,p,G).
Proof. d3 p; dsym G; d3 a. unf. teq; ring. Qed.
(** the spatial-inertia shift is the parallel axis theorem through the mass centre, written with the translated
    Inertia_ kernels: m*G' = shiftFromMassCenter (shiftToMassCenter (m*G) p m) (p-S) m *)
Lemma si_shift_is_parallel_axis m p G S :
  sym_scale ROps m (si_G (si_shift ROps (m,p,G) S)) =
  in_shiftFromMassCenter ROps (in_shiftToMassCenter ROps (sym_scale ROps m G) p m) (v3_sub ROps p S) m.
Proof. d3 p; dsym G; d3 S. unf. teq; ring. Qed.

(** ** spatial vectors: shifts are additive, FromTo = By (to - from) *)
Lemma shiftVelocity_additive V a b :
  sa_shiftVelocityBy ROps (sa_shiftVelocityBy ROps V a) b = sa_shiftVelocityBy ROps V (v3_add ROps a b).
Proof. dsv V; d3 a; d3 b. unf. teq; ring. Qed.
Lemma shiftForce_additive F a b :
  sa_shiftForceBy ROps (sa_shiftForceBy ROps F a) b = sa_shiftForceBy ROps F (v3_add ROps a b).
Proof. dsv F; d3 a; d3 b. unf. teq; ring. Qed.
Lemma shiftAcceleration_additive A w a b :
  sa_shiftAccelerationBy ROps (sa_shiftAccelerationBy ROps A w a) w b = sa_shiftAccelerationBy ROps A w (v3_add ROps a b).
Proof. dsv A; d3 w; d3 a; d3 b. unf. teq; ring. Qed.
Lemma shiftVelocity_zero V : sa_shiftVelocityBy ROps V (0,0,0) = V.
Proof. dsv V. unf. teq; ring. Qed.
Lemma shiftForce_zero F : sa_shiftForceBy ROps F (0,0,0) = F.
Proof. dsv F. unf. teq; ring. Qed.
Lemma shiftFromTo_is_By V F A w p q :
  sa_shiftVelocityFromTo ROps V p q = sa_shiftVelocityBy ROps V (v3_sub ROps q p) /\
  sa_shiftForceFromTo ROps F p q = sa_shiftForceBy ROps F (v3_sub ROps q p) /\
  sa_shiftAccelerationFromTo ROps A w p q = sa_shiftAccelerationBy ROps A w (v3_sub ROps q p).
Proof. repeat split. Qed.

(** ** F. power <F,V> and kinetic energy are invariant under a consistent shift *)
Lemma power_invariant_under_shift F V r :
  sv_dot ROps (sa_shiftForceBy ROps F r) (sa_shiftVelocityBy ROps V r) = sv_dot ROps F V.
Proof. dsv F; dsv V; d3 r. unf. ring. Qed.
(** spatial momentum M V shifts like a spatial force *)
Lemma momentum_shifts_like_force m p G V S :
  si_mul ROps (si_shift ROps (m,p,G) S) (sa_shiftVelocityBy ROps V S) = sa_shiftForceBy ROps (si_mul ROps (m,p,G) V) S.
Proof. d3 p; dsym G; dsv V; d3 S. unf. teq; ring. Qed.
Lemma ke_invariant_under_shift m p G V S :
  sv_dot ROps (sa_shiftVelocityBy ROps V S) (si_mul ROps (si_shift ROps (m,p,G) S) (sa_shiftVelocityBy ROps V S))
  = sv_dot ROps V (si_mul ROps (m,p,G) V).
Proof. d3 p; dsym G; dsv V; d3 S. unf. ring. Qed.
