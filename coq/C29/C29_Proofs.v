(** C29 proofs.  The kernels in_pointMassAt, in_isValid, in_shiftTo/FromMassCenter, si_mulSV, si_calcMassMoment,
    sa_shift...By are the definitions GENERATED from MassProperties.h / SpatialAlgebra.h (Gen/c29*_gen.v);
    the remaining functions are the hand model C29_Model.v (tied by the correspondence run). All over the reals. *)
From Coq Require Import ZArith Reals Lra Lia Psatz Nsatz List QArith.
Require Import Num Vec Tactics c29in_gen c29si_gen c29sa_gen C29_Model.
Local Open Scope R_scope.

Ltac unf := cbv [in_pointMassAt in_shiftToMassCenter in_shiftFromMassCenter si_mulSV si_calcMassMoment
  sa_shiftVelocityBy sa_shiftVelocityFromTo sa_shiftForceBy sa_shiftForceFromTo sa_shiftAccelerationBy sa_shiftAccelerationFromTo
  sa_findRelativeVelocityInF sa_findRelativeAccelerationInF
  crossMatSq ui_pointMassAt ui_shiftToCentroid ui_shiftFromCentroid reexpressSymMat33 in_reexpress sym_congr
  si_m si_p si_G si_mul si_shift si_reexpress si_transform si_add sym_zero
  mp_calcInertia mp_calcCentralInertia mp_calcShiftedInertia mp_calcTransformedInertia mp_reexpress
  ai_M ai_F ai_J ai_ofSI v3_cross_sym halfCrossDiff ai_shift ai_mul sv_reexpress
  sym_trace sym_inv2 sym_det sym_quad pack10]; vunf.

(** a matrix is orthogonal: R R^T = I and R^T R = I (both hold for every rotation matrix) *)
Definition I33 : Mat33 R := ((1,0,0),(0,1,0),(0,0,1)).
Definition orthogonal (M:Mat33 R) : Prop := m33_mul ROps M (m33_T M) = I33 /\ m33_mul ROps (m33_T M) M = I33.

Ltac orth_hyps H :=
  let H1 := fresh "O" in let H2 := fresh "O" in destruct H as [H1 H2];
  cbv [I33] in H1, H2; vunf; cbv [m33_mul m33_T m33_c0 m33_c1 m33_c2 v3_dot v3_0 v3_1 v3_2 ROps nadd nmul] in H1, H2;
  injection H1; injection H2; clear H1 H2; intros.

(** ** A. shifting to and from the mass centre *)
Lemma shift_to_from_inverse I c m : in_shiftFromMassCenter ROps (in_shiftToMassCenter ROps I c m) c m = I.
Proof. destruct I as [[[a b] c0] [[d e] f]], c as [[x y] z]. unf. teq; ring. Qed.
Lemma shift_from_to_inverse I c m : in_shiftToMassCenter ROps (in_shiftFromMassCenter ROps I c m) c m = I.
Proof. destruct I as [[[a b] c0] [[d e] f]], c as [[x y] z]. unf. teq; ring. Qed.
(** the point-mass inertia is m (|p|^2 I - p p^T): the parallel-axis term *)
Lemma pointMass_is_parallel_axis_term x y z m :
  sym_to_m33 (in_pointMassAt ROps (x,y,z) m) =
  m33_scale ROps m (m33_sub ROps (m33_scale ROps (v3_normSqr ROps (x,y,z)) I33) (m33_outer ROps (x,y,z) (x,y,z))).
Proof. unf. cbv [I33]. teq; ring. Qed.
(** going from the central inertia to a point p and from there (through the mass centre) to a point q is the
    same as going to q directly *)
Lemma shift_additive Ic p q m :
  in_shiftFromMassCenter ROps (in_shiftToMassCenter ROps (in_shiftFromMassCenter ROps Ic p m) p m) q m
  = in_shiftFromMassCenter ROps Ic q m.
Proof. rewrite shift_from_to_inverse. reflexivity. Qed.
Lemma crossMatSq_is_unit_point_mass x y z : crossMatSq ROps (x,y,z) = in_pointMassAt ROps (x,y,z) 1.
Proof. unf. teq; ring. Qed.

(** ** spatial inertia shifts (hand model of SpatialInertia_::shiftInPlace) *)
Ltac d3 v := let a := fresh v "x" in let b := fresh v "y" in let c := fresh v "z" in destruct v as [[a b] c].
Ltac dsym s := let a := fresh s "xx" in let b := fresh s "yy" in let c := fresh s "zz" in
  let d := fresh s "xy" in let e := fresh s "xz" in let f := fresh s "yz" in destruct s as [[[a b] c] [[d e] f]].
Ltac dsv v := let a := fresh v "w" in let b := fresh v "v" in destruct v as [a b]; d3 a; d3 b.
Ltac dm33 r := let a := fresh r "0" in let b := fresh r "1" in let c := fresh r "2" in destruct r as [[a b] c]; d3 a; d3 b; d3 c.

Lemma si_shift_zero m p G : si_shift ROps (m,p,G) (0,0,0) = (m,p,G).
Proof. d3 p; dsym G. unf. teq; ring. Qed.
Lemma si_shift_additive m p G a b :
  si_shift ROps (si_shift ROps (m,p,G) a) b = si_shift ROps (m,p,G) (v3_add ROps a b).
Proof. d3 p; dsym G; d3 a; d3 b. unf. teq; ring. Qed.
Lemma si_shift_inverse m p G a : si_shift ROps (si_shift ROps (m,p,G) a) (v3_neg ROps a) = (m,p,G).
Proof. d3 p; dsym G; d3 a. unf. teq; ring. Qed.
(** the spatial-inertia shift is the parallel axis theorem through the mass centre, written with the translated
    Inertia_ kernels: m*G' = shiftFromMassCenter (shiftToMassCenter (m*G) p m) (p-S) m *)
Lemma si_shift_is_parallel_axis m p G S :
  sym_scale ROps m (si_G (si_shift ROps (m,p,G) S)) =
  in_shiftFromMassCenter ROps (in_shiftToMassCenter ROps (sym_scale ROps m G) p m) (v3_sub ROps p S) m.
Proof. d3 p; dsym G; d3 S. unf. teq; ring. Qed.

(** ** spatial vectors: shifts are additive, FromTo = By (to - from) *)
Lemma shiftVelocity_additive V a b :
  sa_shiftVelocityBy ROps (sa_shiftVelocityBy ROps V a) b = sa_shiftVelocityBy ROps V (v3_add ROps a b).
Proof. dsv V; d3 a; d3 b. unf. teq; ring. Qed.
Lemma shiftForce_additive F a b :
  sa_shiftForceBy ROps (sa_shiftForceBy ROps F a) b = sa_shiftForceBy ROps F (v3_add ROps a b).
Proof. dsv F; d3 a; d3 b. unf. teq; ring. Qed.
Lemma shiftAcceleration_additive A w a b :
  sa_shiftAccelerationBy ROps (sa_shiftAccelerationBy ROps A w a) w b = sa_shiftAccelerationBy ROps A w (v3_add ROps a b).
Proof. dsv A; d3 w; d3 a; d3 b. unf. teq; ring. Qed.
Lemma shiftVelocity_zero V : sa_shiftVelocityBy ROps V (0,0,0) = V.
Proof. dsv V. unf. teq; ring. Qed.
Lemma shiftForce_zero F : sa_shiftForceBy ROps F (0,0,0) = F.
Proof. dsv F. unf. teq; ring. Qed.
Lemma shiftFromTo_is_By V F A w p q :
  sa_shiftVelocityFromTo ROps V p q = sa_shiftVelocityBy ROps V (v3_sub ROps q p) /\
  sa_shiftForceFromTo ROps F p q = sa_shiftForceBy ROps F (v3_sub ROps q p) /\
  sa_shiftAccelerationFromTo ROps A w p q = sa_shiftAccelerationBy ROps A w (v3_sub ROps q p).
Proof. repeat split. Qed.

(** ** F. power <F,V> and kinetic energy are invariant under a consistent shift *)
Lemma power_invariant_under_shift F V r :
  sv_dot ROps (sa_shiftForceBy ROps F r) (sa_shiftVelocityBy ROps V r) = sv_dot ROps F V.
Proof. dsv F; dsv V; d3 r. unf. ring. Qed.
(** spatial momentum M V shifts like a spatial force *)
Lemma momentum_shifts_like_force m p G V S :
  si_mul ROps (si_shift ROps (m,p,G) S) (sa_shiftVelocityBy ROps V S) = sa_shiftForceBy ROps (si_mul ROps (m,p,G) V) S.
Proof. d3 p; dsym G; dsv V; d3 S. unf. teq; ring. Qed.
Lemma ke_invariant_under_shift m p G V S :
  sv_dot ROps (sa_shiftVelocityBy ROps V S) (si_mul ROps (si_shift ROps (m,p,G) S) (sa_shiftVelocityBy ROps V S))
  = sv_dot ROps V (si_mul ROps (m,p,G) V).
Proof. d3 p; dsym G; dsv V; d3 S. unf. ring. Qed.

(** ** B. re-expression.  Rotation_::reexpressSymMat33 is a 57-flop formula that is R S R^T only for a proper
    rotation: it takes one diagonal entry from the trace (needs R^T R = I) and the cross terms from
    (R v)x = R [v]x R^T (needs det R = +1). *)
Definition rotation (M:Mat33 R) : Prop := orthogonal M /\ m33_det ROps M = 1.
Lemma rot_cofactor a b c d e f g h i : rotation ((a,b,c),(d,e,f),(g,h,i)) ->
  (g = b*f - c*e /\ h = c*d - a*f /\ i = a*e - b*d) /\
  (a = e*i - f*h /\ b = f*g - d*i /\ c = d*h - e*g) /\
  (d = h*c - i*b /\ e = i*a - g*c /\ f = g*b - h*a).
Proof. intros [H D]. orth_hyps H. revert D; unf; intros D. repeat split; nsatz_or_fail. Qed.
Lemma reexpress_is_congruence R S : rotation R ->
  sym_to_m33 (reexpressSymMat33 ROps R S) = sym_congr ROps R S.
Proof. intros H. dm33 R; dsym S. generalize (rot_cofactor _ _ _ _ _ _ _ _ _ H).
  intros [[C1 [C2 C3]] [[C4 [C5 C6]] [C7 [C8 C9]]]]. destruct H as [H _]. orth_hyps H. unf.
  teq. all: nsatz_or_fail. Qed.

(** generic 3x3 facts *)
Definition tr33 (M:Mat33 R) : R := m33_e M 0 0 + m33_e M 1 1 + m33_e M 2 2.
Definition inv2_33 (M:Mat33 R) : R :=
  m33_e M 0 0 * m33_e M 1 1 - m33_e M 0 1 * m33_e M 1 0 + (m33_e M 0 0 * m33_e M 2 2 - m33_e M 0 2 * m33_e M 2 0)
  + (m33_e M 1 1 * m33_e M 2 2 - m33_e M 1 2 * m33_e M 2 1).
Lemma m33_mul_assoc (A B C : Mat33 R) : m33_mul ROps (m33_mul ROps A B) C = m33_mul ROps A (m33_mul ROps B C).
Proof. dm33 A; dm33 B; dm33 C. vunf. teq; ring. Qed.
Lemma m33_mul_I_r (A : Mat33 R) : m33_mul ROps A I33 = A.
Proof. dm33 A. cbv [I33]; vunf. teq; ring. Qed.
Lemma m33_mul_I_l (A : Mat33 R) : m33_mul ROps I33 A = A.
Proof. dm33 A. cbv [I33]; vunf. teq; ring. Qed.
Lemma m33_det_mul (A B : Mat33 R) : m33_det ROps (m33_mul ROps A B) = m33_det ROps A * m33_det ROps B.
Proof. dm33 A; dm33 B. vunf. ring. Qed.
Lemma m33_det_T (A : Mat33 R) : m33_det ROps (m33_T A) = m33_det ROps A.
Proof. dm33 A. vunf. ring. Qed.
Lemma tr33_comm (A B : Mat33 R) : tr33 (m33_mul ROps A B) = tr33 (m33_mul ROps B A).
Proof. dm33 A; dm33 B. cbv [tr33]; vunf. ring. Qed.
Lemma inv2_via_trace A : 2 * inv2_33 A = tr33 A * tr33 A - tr33 (m33_mul ROps A A).
Proof. dm33 A. cbv [tr33 inv2_33]; vunf. ring. Qed.
Lemma m33_T_T (A : Mat33 R) : m33_T (m33_T A) = A.
Proof. dm33 A. reflexivity. Qed.
Lemma rotation_T M : rotation M -> rotation (m33_T M).
Proof. intros [[H1 H2] D]. split; [split|]. - rewrite m33_T_T; exact H2. - rewrite m33_T_T; exact H1.
  - rewrite m33_det_T; exact D. Qed.
Lemma sym_invariants_of_m33 (S : SymMat33 R) : sym_trace ROps S = tr33 (sym_to_m33 S) /\ sym_inv2 ROps S = inv2_33 (sym_to_m33 S).
Proof. dsym S. cbv [tr33 inv2_33]; unf. split; ring. Qed.
(** invariants of a congruence by an orthogonal matrix *)
Lemma congr_invariants M A : orthogonal M ->
  let B := m33_mul ROps (m33_mul ROps M A) (m33_T M) in
  tr33 B = tr33 A /\ inv2_33 B = inv2_33 A /\ m33_det ROps B = m33_det ROps A * (m33_det ROps M * m33_det ROps M).
Proof. intros [H1 H2] B.
  assert (T1 : tr33 B = tr33 A).
  { unfold B. rewrite tr33_comm, <- m33_mul_assoc, H2, m33_mul_I_l. reflexivity. }
  assert (BB : m33_mul ROps B B = m33_mul ROps (m33_mul ROps M (m33_mul ROps A A)) (m33_T M)).
  { unfold B. rewrite !m33_mul_assoc. rewrite <- (m33_mul_assoc (m33_T M) M). rewrite H2, m33_mul_I_l. reflexivity. }
  assert (T2 : tr33 (m33_mul ROps B B) = tr33 (m33_mul ROps A A)).
  { rewrite BB. rewrite tr33_comm, <- m33_mul_assoc, H2, m33_mul_I_l. reflexivity. }
  split; [exact T1|split].
  - generalize (inv2_via_trace B) (inv2_via_trace A). rewrite T1, T2. lra.
  - unfold B. rewrite !m33_det_mul, m33_det_T. ring. Qed.

(** re-expression preserves trace, second invariant and determinant, i.e. the characteristic polynomial,
    i.e. the principal moments *)
Lemma reexpressSymMat33_preserves_charpoly R S : rotation R ->
  sym_trace ROps (reexpressSymMat33 ROps R S) = sym_trace ROps S /\
  sym_inv2 ROps (reexpressSymMat33 ROps R S) = sym_inv2 ROps S /\
  sym_det ROps (reexpressSymMat33 ROps R S) = sym_det ROps S.
Proof. intros H. generalize (reexpress_is_congruence R S H); intros E.
  destruct (sym_invariants_of_m33 (reexpressSymMat33 ROps R S)) as [A1 A2].
  destruct (sym_invariants_of_m33 S) as [B1 B2]. destruct H as [O D].
  destruct (congr_invariants R (sym_to_m33 S) O) as [C1 [C2 C3]].
  unfold sym_det. rewrite A1, A2, B1, B2, E. unfold sym_congr. rewrite C1, C2, C3, D. repeat split; ring. Qed.
Lemma reexpress_preserves_trace_and_charpoly I R_FB : rotation R_FB ->
  sym_trace ROps (in_reexpress ROps I R_FB) = sym_trace ROps I /\
  sym_inv2 ROps (in_reexpress ROps I R_FB) = sym_inv2 ROps I /\
  sym_det ROps (in_reexpress ROps I R_FB) = sym_det ROps I.
Proof. intros H. apply reexpressSymMat33_preserves_charpoly, rotation_T, H. Qed.
(** Inertia_::reexpress(R_FB) is R_FB^T I R_FB *)
Lemma in_reexpress_is_congruence I R_FB : rotation R_FB ->
  sym_to_m33 (in_reexpress ROps I R_FB) = m33_mul ROps (m33_mul ROps (m33_T R_FB) (sym_to_m33 I)) R_FB.
Proof. intros H. unfold in_reexpress. rewrite (reexpress_is_congruence _ _ (rotation_T _ H)).
  unfold sym_congr. rewrite m33_T_T. reflexivity. Qed.
