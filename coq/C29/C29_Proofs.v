(** C29 proofs.  The kernels in_pointMassAt, in_isValid, in_shiftTo/FromMassCenter, si_mulSV, si_calcMassMoment,
    sa_shift...By are the definitions GENERATED from MassProperties.h / SpatialAlgebra.h (Gen/c29*_gen.v);
    the remaining functions are the hand model C29_Model.v (tied by the correspondence run). All over the reals. *)
From Coq Require Import ZArith Reals Lra Lia Psatz Nsatz List QArith.
Require Import Num Vec Tactics c29in_gen c29si_gen c29sa_gen C29_Model.
Local Open Scope R_scope.

Ltac unf := cbv [in_pointMassAt in_shiftToMassCenter in_shiftFromMassCenter si_mulSV si_calcMassMoment
  sa_shiftVelocityBy sa_shiftVelocityFromTo sa_shiftForceBy sa_shiftForceFromTo sa_shiftAccelerationBy sa_shiftAccelerationFromTo
  sa_findRelativeVelocityInF sa_findRelativeAccelerationInF
  crossMatSq ui_pointMassAt ui_shiftToCentroid ui_shiftFromCentroid reexpressSymMat33 in_reexpress sym_congr
  si_m si_p si_G si_mul si_shift si_reexpress si_transform si_add sym_zero
  mp_calcInertia mp_calcCentralInertia mp_calcShiftedInertia mp_calcTransformedInertia mp_reexpress
  ai_M ai_F ai_J ai_ofSI v3_cross_sym halfCrossDiff ai_shift ai_mul sv_reexpress
  sym_trace sym_inv2 sym_det sym_quad pack10]; vunf.

(** a matrix is orthogonal: R R^T = I and R^T R = I (both hold for every rotation matrix) *)
Definition I33 : Mat33 R := ((1,0,0),(0,1,0),(0,0,1)).
Definition orthogonal (M:Mat33 R) : Prop := m33_mul ROps M (m33_T M) = I33 /\ m33_mul ROps (m33_T M) M = I33.

Ltac orth_hyps H :=
  let H1 := fresh "O" in let H2 := fresh "O" in destruct H as [H1 H2];
  cbv [I33] in H1, H2; vunf; cbv [m33_mul m33_T m33_c0 m33_c1 m33_c2 v3_dot v3_0 v3_1 v3_2 ROps nadd nmul] in H1, H2;
  injection H1; injection H2; clear H1 H2; intros.

(** ** A. shifting to and from the mass centre *)
Lemma shift_to_from_inverse I c m : in_shiftFromMassCenter ROps (in_shiftToMassCenter ROps I c m) c m = I.
Proof. destruct I as [[[a b] c0] [[d e] f]], c as [[x y] z]. unf. teq; ring. Qed.
Lemma shift_from_to_inverse I c m : in_shiftToMassCenter ROps (in_shiftFromMassCenter ROps I c m) c m = I.
Proof. destruct I as [[[a b] c0] [[d e] f]], c as [[x y] z]. unf. teq; ring. Qed.
(** the point-mass inertia is m (|p|^2 I - p p^T): the parallel-axis term *)
Lemma pointMass_is_parallel_axis_term x y z m :
  sym_to_m33 (in_pointMassAt ROps (x,y,z) m) =
  m33_scale ROps m (m33_sub ROps (m33_scale ROps (v3_normSqr ROps (x,y,z)) I33) (m33_outer ROps (x,y,z) (x,y,z))).
Proof. unf. cbv [I33]. teq; ring. Qed.
(** going from the central inertia to a point p and from there (through the mass centre) to a point q is the
    same as going to q directly *)
Lemma shift_additive Ic p q m :
  in_shiftFromMassCenter ROps (in_shiftToMassCenter ROps (in_shiftFromMassCenter ROps Ic p m) p m) q m
  = in_shiftFromMassCenter ROps Ic q m.
Proof. rewrite shift_from_to_inverse. reflexivity. Qed.
Lemma crossMatSq_is_unit_point_mass x y z : crossMatSq ROps (x,y,z) = in_pointMassAt ROps (x,y,z) 1.
Proof. unf. teq; ring. Qed.

(** ** spatial inertia shifts (hand model of SpatialInertia_::shiftInPlace) *)
Ltac d3 v := let a := fresh v "x" in let b := fresh v "y" in let c := fresh v "z" in destruct v as [[a b] c].
Ltac dsym s := let a := fresh s "xx" in let b := fresh s "yy" in let c := fresh s "zz" in
  let d := fresh s "xy" in let e := fresh s "xz" in let f := fresh s "yz" in destruct s as [[[a b] c] [[d e] f]].
Ltac dsv v := let a := fresh v "w" in let b := fresh v "v" in destruct v as [a b]; d3 a; d3 b.
Ltac dm33 r := let a := fresh r "0" in let b := fresh r "1" in let c := fresh r "2" in destruct r as [[a b] c]; d3 a; d3 b; d3 c.

Lemma si_shift_zero m p G : si_shift ROps (m,p,G) (0,0,0) = (m,p,G).
Proof. d3 p; dsym G. unf. teq; ring. Qed.
Lemma si_shift_additive m p G a b :
  si_shift ROps (si_shift ROps (m,p,G) a) b = si_shift ROps (m,p,G) (v3_add ROps a b).
Proof. d3 p; dsym G; d3 a; d3 b. unf. teq; ring. Qed.
Lemma si_shift_inverse m p G a : si_shift ROps (si_shift ROps (m,p,G) a) (v3_neg ROps a) = (m,p,G).
Proof. d3 p; dsym G; d3 a. unf. teq; ring. Qed.
(** the spatial-inertia shift is the parallel axis theorem through the mass centre, written with the translated
    Inertia_ kernels: m*G' = shiftFromMassCenter (shiftToMassCenter (m*G) p m) (p-S) m *)
Lemma si_shift_is_parallel_axis m p G S :
  sym_scale ROps m (si_G (si_shift ROps (m,p,G) S)) =
  in_shiftFromMassCenter ROps (in_shiftToMassCenter ROps (sym_scale ROps m G) p m) (v3_sub ROps p S) m.
Proof. d3 p; dsym G; d3 S. unf. teq; ring. Qed.

(** ** spatial vectors: shifts are additive, FromTo = By (to - from) *)
Lemma shiftVelocity_additive V a b :
  sa_shiftVelocityBy ROps (sa_shiftVelocityBy ROps V a) b = sa_shiftVelocityBy ROps V (v3_add ROps a b).
Proof. dsv V; d3 a; d3 b. unf. teq; ring. Qed.
Lemma shiftForce_additive F a b :
  sa_shiftForceBy ROps (sa_shiftForceBy ROps F a) b = sa_shiftForceBy ROps F (v3_add ROps a b).
Proof. dsv F; d3 a; d3 b. unf. teq; ring. Qed.
Lemma shiftAcceleration_additive A w a b :
  sa_shiftAccelerationBy ROps (sa_shiftAccelerationBy ROps A w a) w b = sa_shiftAccelerationBy ROps A w (v3_add ROps a b).
Proof. dsv A; d3 w; d3 a; d3 b. unf. teq; ring. Qed.
Lemma shiftVelocity_zero V : sa_shiftVelocityBy ROps V (0,0,0) = V.
Proof. dsv V. unf. teq; ring. Qed.
Lemma shiftForce_zero F : sa_shiftForceBy ROps F (0,0,0) = F.
Proof. dsv F. unf. teq; ring. Qed.
Lemma shiftFromTo_is_By V F A w p q :
  sa_shiftVelocityFromTo ROps V p q = sa_shiftVelocityBy ROps V (v3_sub ROps q p) /\
  sa_shiftForceFromTo ROps F p q = sa_shiftForceBy ROps F (v3_sub ROps q p) /\
  sa_shiftAccelerationFromTo ROps A w p q = sa_shiftAccelerationBy ROps A w (v3_sub ROps q p).
Proof. repeat split. Qed.

(** ** F. power <F,V> and kinetic energy are invariant under a consistent shift *)
Lemma power_invariant_under_shift F V r :
  sv_dot ROps (sa_shiftForceBy ROps F r) (sa_shiftVelocityBy ROps V r) = sv_dot ROps F V.
Proof. dsv F; dsv V; d3 r. unf. ring. Qed.
(** spatial momentum M V shifts like a spatial force *)
Lemma momentum_shifts_like_force m p G V S :
  si_mul ROps (si_shift ROps (m,p,G) S) (sa_shiftVelocityBy ROps V S) = sa_shiftForceBy ROps (si_mul ROps (m,p,G) V) S.
Proof. d3 p; dsym G; dsv V; d3 S. unf. teq; ring. Qed.
Lemma ke_invariant_under_shift m p G V S :
  sv_dot ROps (sa_shiftVelocityBy ROps V S) (si_mul ROps (si_shift ROps (m,p,G) S) (sa_shiftVelocityBy ROps V S))
  = sv_dot ROps V (si_mul ROps (m,p,G) V).
Proof. d3 p; dsym G; dsv V; d3 S. unf. ring. Qed.

(** ** B. re-expression.  Rotation_::reexpressSymMat33 is a 57-flop formula that is R S R^T only for a proper
    rotation: it takes one diagonal entry from the trace (needs R^T R = I) and the cross terms from
    (R v)x = R [v]x R^T (needs det R = +1). *)
Definition rotation (M:Mat33 R) : Prop := orthogonal M /\ m33_det ROps M = 1.
Lemma rot_cofactor a b c d e f g h i : rotation ((a,b,c),(d,e,f),(g,h,i)) ->
  (g = b*f - c*e /\ h = c*d - a*f /\ i = a*e - b*d) /\
  (a = e*i - f*h /\ b = f*g - d*i /\ c = d*h - e*g) /\
  (d = h*c - i*b /\ e = i*a - g*c /\ f = g*b - h*a).
Proof. intros [H D]. orth_hyps H. revert D; unf; intros D. repeat split; nsatz_or_fail. Qed.
Lemma reexpress_is_congruence R S : rotation R ->
  sym_to_m33 (reexpressSymMat33 ROps R S) = sym_congr ROps R S.
Proof. intros H. dm33 R; dsym S. generalize (rot_cofactor _ _ _ _ _ _ _ _ _ H).
  intros [[C1 [C2 C3]] _]. destruct H as [[H _] _].
  cbv [I33] in H; vunf; cbv [m33_mul m33_T m33_c0 m33_c1 m33_c2 v3_dot v3_0 v3_1 v3_2 ROps nadd nmul] in H.
  (* third row := first x second; what remains of orthogonality is |r0| = |r1| = 1, r0.r1 = 0 *)
  injection H; clear H; intros _ _ _ _ N1 _ _ N01 N0. subst. unf.
  teq. all: nsatz_or_fail. Qed.

(** generic 3x3 facts *)
Definition tr33 (M:Mat33 R) : R := m33_e M 0 0 + m33_e M 1 1 + m33_e M 2 2.
Definition inv2_33 (M:Mat33 R) : R :=
  m33_e M 0 0 * m33_e M 1 1 - m33_e M 0 1 * m33_e M 1 0 + (m33_e M 0 0 * m33_e M 2 2 - m33_e M 0 2 * m33_e M 2 0)
  + (m33_e M 1 1 * m33_e M 2 2 - m33_e M 1 2 * m33_e M 2 1).
Lemma m33_mul_assoc (A B C : Mat33 R) : m33_mul ROps (m33_mul ROps A B) C = m33_mul ROps A (m33_mul ROps B C).
Proof. dm33 A; dm33 B; dm33 C. vunf. teq; ring. Qed.
Lemma m33_mul_I_r (A : Mat33 R) : m33_mul ROps A I33 = A.
Proof. dm33 A. cbv [I33]; vunf. teq; ring. Qed.
Lemma m33_mul_I_l (A : Mat33 R) : m33_mul ROps I33 A = A.
Proof. dm33 A. cbv [I33]; vunf. teq; ring. Qed.
Lemma m33_det_mul (A B : Mat33 R) : m33_det ROps (m33_mul ROps A B) = m33_det ROps A * m33_det ROps B.
Proof. dm33 A; dm33 B. vunf. ring. Qed.
Lemma m33_det_T (A : Mat33 R) : m33_det ROps (m33_T A) = m33_det ROps A.
Proof. dm33 A. vunf. ring. Qed.
Lemma tr33_comm (A B : Mat33 R) : tr33 (m33_mul ROps A B) = tr33 (m33_mul ROps B A).
Proof. dm33 A; dm33 B. cbv [tr33]; vunf. ring. Qed.
Lemma inv2_via_trace A : 2 * inv2_33 A = tr33 A * tr33 A - tr33 (m33_mul ROps A A).
Proof. dm33 A. cbv [tr33 inv2_33]; vunf. ring. Qed.
Lemma m33_T_T (A : Mat33 R) : m33_T (m33_T A) = A.
Proof. dm33 A. reflexivity. Qed.
Lemma rotation_T M : rotation M -> rotation (m33_T M).
Proof. intros [[H1 H2] D]. split; [split|]. - rewrite m33_T_T; exact H2. - rewrite m33_T_T; exact H1.
  - rewrite m33_det_T; exact D. Qed.
Lemma sym_invariants_of_m33 (S : SymMat33 R) : sym_trace ROps S = tr33 (sym_to_m33 S) /\ sym_inv2 ROps S = inv2_33 (sym_to_m33 S).
Proof. dsym S. cbv [tr33 inv2_33]; unf. split; ring. Qed.
(** invariants of a congruence by an orthogonal matrix *)
Lemma congr_invariants M A : orthogonal M ->
  let B := m33_mul ROps (m33_mul ROps M A) (m33_T M) in
  tr33 B = tr33 A /\ inv2_33 B = inv2_33 A /\ m33_det ROps B = m33_det ROps A * (m33_det ROps M * m33_det ROps M).
Proof. intros [H1 H2] B.
  assert (T1 : tr33 B = tr33 A).
  { unfold B. rewrite tr33_comm, <- m33_mul_assoc, H2, m33_mul_I_l. reflexivity. }
  assert (BB : m33_mul ROps B B = m33_mul ROps (m33_mul ROps M (m33_mul ROps A A)) (m33_T M)).
  { unfold B. rewrite !m33_mul_assoc. rewrite <- (m33_mul_assoc (m33_T M) M). rewrite H2, m33_mul_I_l. reflexivity. }
  assert (T2 : tr33 (m33_mul ROps B B) = tr33 (m33_mul ROps A A)).
  { rewrite BB. rewrite tr33_comm, <- m33_mul_assoc, H2, m33_mul_I_l. reflexivity. }
  split; [exact T1|split].
  - generalize (inv2_via_trace B) (inv2_via_trace A). rewrite T1, T2. lra.
  - unfold B. rewrite !m33_det_mul, m33_det_T. ring. Qed.

(** re-expression preserves trace, second invariant and determinant, i.e. the characteristic polynomial,
    i.e. the principal moments *)
Lemma reexpressSymMat33_preserves_charpoly R S : rotation R ->
  sym_trace ROps (reexpressSymMat33 ROps R S) = sym_trace ROps S /\
  sym_inv2 ROps (reexpressSymMat33 ROps R S) = sym_inv2 ROps S /\
  sym_det ROps (reexpressSymMat33 ROps R S) = sym_det ROps S.
Proof. intros H. generalize (reexpress_is_congruence R S H); intros E.
  destruct (sym_invariants_of_m33 (reexpressSymMat33 ROps R S)) as [A1 A2].
  destruct (sym_invariants_of_m33 S) as [B1 B2]. destruct H as [O D].
  destruct (congr_invariants R (sym_to_m33 S) O) as [C1 [C2 C3]].
  unfold sym_det. rewrite A1, A2, B1, B2, E. unfold sym_congr. rewrite C1, C2, C3, D. repeat split; ring. Qed.
Lemma reexpress_preserves_trace_and_charpoly I R_FB : rotation R_FB ->
  sym_trace ROps (in_reexpress ROps I R_FB) = sym_trace ROps I /\
  sym_inv2 ROps (in_reexpress ROps I R_FB) = sym_inv2 ROps I /\
  sym_det ROps (in_reexpress ROps I R_FB) = sym_det ROps I.
Proof. intros H. apply reexpressSymMat33_preserves_charpoly, rotation_T, H. Qed.
(** Inertia_::reexpress(R_FB) is R_FB^T I R_FB *)
Lemma in_reexpress_is_congruence I R_FB : rotation R_FB ->
  sym_to_m33 (in_reexpress ROps I R_FB) = m33_mul ROps (m33_mul ROps (m33_T R_FB) (sym_to_m33 I)) R_FB.
Proof. intros H. unfold in_reexpress. rewrite (reexpress_is_congruence _ _ (rotation_T _ H)).
  unfold sym_congr. rewrite m33_T_T. reflexivity. Qed.

(** ** F (continued). power, momentum and kinetic energy under re-expression and under a full transform *)
Lemma power_invariant_under_reexpress F V R_FB : orthogonal R_FB ->
  sv_dot ROps (sv_reexpress ROps F R_FB) (sv_reexpress ROps V R_FB) = sv_dot ROps F V.
Proof. intros H. dm33 R_FB; dsv F; dsv V. orth_hyps H. unf. nsatz_or_fail. Qed.
Lemma m33_mulv_mul (A B:Mat33 R) x : m33_mulv ROps (m33_mul ROps A B) x = m33_mulv ROps A (m33_mulv ROps B x).
Proof. dm33 A; dm33 B; d3 x. vunf. teq; ring. Qed.
Lemma sym_mulv_m33 (S:SymMat33 R) x : sym_mulv ROps S x = m33_mulv ROps (sym_to_m33 S) x.
Proof. reflexivity. Qed.
Lemma rot_mulv_Tmulv M x : orthogonal M -> m33_mulv ROps M (m33_Tmulv ROps M x) = x.
Proof. intros H. dm33 M; d3 x. orth_hyps H. vunf. teq; nsatz_or_fail. Qed.
Lemma rot_cross M a b : rotation M ->
  v3_cross ROps (m33_Tmulv ROps M a) (m33_Tmulv ROps M b) = m33_Tmulv ROps M (v3_cross ROps a b).
Proof. intros H. dm33 M; d3 a; d3 b. generalize (rot_cofactor _ _ _ _ _ _ _ _ _ H).
  intros [[C1 [C2 C3]] [[C4 [C5 C6]] [C7 [C8 C9]]]]. clear H. vunf. teq; nsatz_or_fail. Qed.
Lemma momentum_reexpresses m p G V R_FB : rotation R_FB ->
  si_mul ROps (si_reexpress ROps (m,p,G) R_FB) (sv_reexpress ROps V R_FB) = sv_reexpress ROps (si_mul ROps (m,p,G) V) R_FB.
Proof. intros H. cbv [si_mul si_reexpress si_m si_p si_G fst snd si_mulSV sv_reexpress].
  rewrite !sym_mulv_m33, (in_reexpress_is_congruence G R_FB H).
  rewrite !m33_mulv_mul. change (m33_mulv ROps (m33_T R_FB)) with (m33_Tmulv ROps R_FB).
  rewrite (rot_mulv_Tmulv R_FB _ (proj1 H)). rewrite !(rot_cross R_FB _ _ H).
  dm33 R_FB; d3 p; dsym G; dsv V. vunf. teq; ring. Qed.
Lemma ke_invariant_under_reexpress m p G V R_FB : rotation R_FB ->
  sv_dot ROps (sv_reexpress ROps V R_FB) (si_mul ROps (si_reexpress ROps (m,p,G) R_FB) (sv_reexpress ROps V R_FB))
  = sv_dot ROps V (si_mul ROps (m,p,G) V).
Proof. intros H. rewrite (momentum_reexpresses _ _ _ _ _ H). apply power_invariant_under_reexpress, H. Qed.
Lemma ke_invariant_under_transform m p G V R_FB x : rotation R_FB ->
  let V' := sv_reexpress ROps (sa_shiftVelocityBy ROps V x) R_FB in
  sv_dot ROps V' (si_mul ROps (si_transform ROps (m,p,G) (R_FB,x)) V') = sv_dot ROps V (si_mul ROps (m,p,G) V).
Proof. intros H V'. unfold V', si_transform. cbv [fst snd].
  destruct (si_shift ROps (m,p,G) x) as [[m1 p1] G1] eqn:E.
  rewrite (ke_invariant_under_reexpress _ _ _ _ _ H). rewrite <- E. apply ke_invariant_under_shift. Qed.


(** ** C. inertias of point-mass clouds *)
Lemma pointMass_quadratic_form p m u :
  sym_quad ROps (in_pointMassAt ROps p m) u = m * v3_normSqr ROps (v3_cross ROps p u).
Proof. d3 p; d3 u. unf. ring. Qed.
Lemma Rabs_le_iff x b : Rabs x <= b <-> - b <= x <= b.
Proof. unfold Rabs; destruct (Rcase_abs x); split; intros; lra. Qed.
Lemma v3_normSqr_nonneg (v:Vec3 R) : 0 <= v3_normSqr ROps v.
Proof. d3 v. vunf. nra. Qed.
Definition masses_nonneg (pts : list (Vec3 R * R)) : Prop := Forall (fun pm => 0 <= snd pm) pts.
Lemma sym_quad_add (A B:SymMat33 R) u : sym_quad ROps (sym_add ROps A B) u = sym_quad ROps A u + sym_quad ROps B u.
Proof. dsym A; dsym B; d3 u. unf. ring. Qed.
Lemma cloud_psd pts u : masses_nonneg pts -> 0 <= sym_quad ROps (cloud_inertia ROps pts) u.
Proof. induction 1 as [|[p m] r Hm Hr IH]; simpl.
  - d3 u. unf. lra.
  - rewrite sym_quad_add, pointMass_quadratic_form. simpl in Hm.
    generalize (v3_normSqr_nonneg (v3_cross ROps p u)); intros. nra. Qed.
(** exact triangle inequalities, nonnegative moments and Mitiguy's product bounds for every cloud *)
Definition triangle_and_product_bounds (S:SymMat33 R) (slop:R) : Prop :=
  let '((a,b,c),(d,e,f)) := S in
  (0 <= a /\ 0 <= b /\ 0 <= c) /\
  (c <= a + b + slop /\ b <= a + c + slop /\ a <= b + c + slop) /\
  (Rabs (2*f) <= a + slop /\ Rabs (2*e) <= b + slop /\ Rabs (2*d) <= c + slop).
Lemma cloud_triangle pts : masses_nonneg pts -> triangle_and_product_bounds (cloud_inertia ROps pts) 0.
Proof. induction 1 as [|[p m] r Hm Hr IH]; simpl.
  - cbv [triangle_and_product_bounds]; unf. rewrite !Rmult_0_r. rewrite Rabs_R0. repeat split; lra.
  - simpl in Hm. destruct (cloud_inertia ROps r) as [[[a b] c] [[d e] f]]. d3 p.
    revert IH. cbv [triangle_and_product_bounds]; unf. intros [[A1 [A2 A3]] [[B1 [B2 B3]] [C1 [C2 C3]]]].
    assert (Q: forall x y, 0 <= x*x + y*y - 2*(x*y) /\ 0 <= x*x + y*y + 2*(x*y)) by (intros x y; split; [replace (x*x + y*y - 2*(x*y)) with (Rsqr (x-y)) by (unfold Rsqr; ring) | replace (x*x + y*y + 2*(x*y)) with (Rsqr (x+y)) by (unfold Rsqr; ring)]; apply Rle_0_sqr).
    generalize (Q px py) (Q px pz) (Q py pz). intros [Q1 Q2] [Q3 Q4] [Q5 Q6].
    rewrite Rabs_le_iff in C1, C2, C3. rewrite !Rabs_le_iff.
    repeat split; nra. Qed.

(** ** D. the acceptance test Inertia_::isValidInertiaMatrix (translated) *)
Definition sigR : R := 6369051672525773 / 316912650057057350374175801344.   (* NTraits<double>::getSignificant() *)
Definition slopR (S:SymMat33 R) : R := Rmax (sym_trace ROps S) 1 * sigR.
Lemma sigR_pos : 0 < sigR.
Proof. unfold sigR. apply Rdiv_lt_0_compat; lra. Qed.
Lemma slopR_pos S : 0 < slopR S.
Proof. unfold slopR. apply Rmult_lt_0_compat; [|apply sigR_pos]. generalize (Rmax_r (sym_trace ROps S) 1); lra. Qed.
Lemma Rmax_if t : (if Rleb t 1 then 1 else t) = Rmax t 1.
Proof. unfold Rleb, Rmax. destruct (Rle_dec t 1); reflexivity. Qed.
(** the test accepts exactly the symmetric matrices with nonnegative diagonal that satisfy the triangle
    inequalities and the product bounds up to Slop = max(trace,1)*Significant: nothing else is rejected, nothing else accepted *)
Lemma isValid_iff m : in_isValid ROps m = true <-> triangle_and_product_bounds m (slopR m).
Proof. dsym m. cbv [in_isValid triangle_and_product_bounds slopR sigR]; unf.
  rewrite Rmax_if. set (s := Rmax _ 1 * _).
  split.
  - intros H.
    repeat match type of H with context[Rleb ?x ?y] => destruct (Rleb x y) eqn:?; cbn [negb andb] in H; try discriminate end.
    rewrite ?Rleb_true in *. repeat split; lra.
  - intros [[A1 [A2 A3]] [[B1 [B2 B3]] [C1 [C2 C3]]]].
    rewrite <- Rleb_true in *.
    repeat match goal with H : Rleb _ _ = true |- _ => rewrite H; clear H end. reflexivity. Qed.
Lemma valid_implies_triangle a b c d e f : in_isValid ROps ((a,b,c),(d,e,f)) = true ->
  let s := slopR ((a,b,c),(d,e,f)) in
  (0 <= a /\ 0 <= b /\ 0 <= c) /\ (c <= a + b + s /\ b <= a + c + s /\ a <= b + c + s).
Proof. intros H. apply isValid_iff in H. cbv [triangle_and_product_bounds] in H. tauto. Qed.
(** rejection: a negative moment, a triangle violation beyond Slop, or an oversized product is rejected *)
Lemma invalid_rejected a b c d e f : let s := slopR ((a,b,c),(d,e,f)) in
  (a < 0 \/ b < 0 \/ c < 0 \/ a + b + s < c \/ a + c + s < b \/ b + c + s < a \/
   a + s < Rabs (2*f) \/ b + s < Rabs (2*e) \/ c + s < Rabs (2*d)) ->
  in_isValid ROps ((a,b,c),(d,e,f)) = false.
Proof. intros s H. destruct (in_isValid ROps ((a,b,c),(d,e,f))) eqn:E; [|reflexivity].
  apply isValid_iff in E. cbv [triangle_and_product_bounds] in E. fold s in E. exfalso. lra. Qed.
(** completeness for genuine inertias: every point-mass cloud with nonnegative masses is accepted *)
Lemma cloud_accepted pts : masses_nonneg pts -> in_isValid ROps (cloud_inertia ROps pts) = true.
Proof. intros H. apply isValid_iff. generalize (cloud_triangle pts H) (slopR_pos (cloud_inertia ROps pts)).
  destruct (cloud_inertia ROps pts) as [[[a b] c] [[d e] f]]. cbv [triangle_and_product_bounds]. intros; lra. Qed.
(** ... but acceptance does not imply positive semidefiniteness: the accepted matrix with moments (1,2,2),
    products xy=1, xz=-1, yz=1/2 has determinant -5/4 and u^T I u = -1 for u = (-2,1,-1) *)
Definition witnessR : SymMat33 R := ((1,2,2),(1,-1,1/2)).
Lemma valid_implies_psd_refuted :
  exists (m:SymMat33 R) (u:Vec3 R), in_isValid ROps m = true /\ sym_quad ROps m u < 0 /\ sym_det ROps m < 0.
Proof. exists witnessR, (-2,1,-1). split; [|split].
  - apply isValid_iff. generalize (slopR_pos witnessR). cbv [triangle_and_product_bounds witnessR]. intros.
    rewrite !Rabs_le_iff. lra.
  - cbv [witnessR]; unf. lra.
  - cbv [witnessR]; unf. lra. Qed.
(** the same witness on the exact-rational instance of the translated test, by computation *)
Lemma valid_implies_psd_refuted_Q :
  in_isValid QOps ((1,2,2),(1,-1,1#2))%Q = true /\
  (sym_quad QOps ((1,2,2),(1,-1,1#2)) (-2,1,-1) == -1)%Q /\ (sym_det QOps ((1,2,2),(1,-1,1#2)) == -5#4)%Q.
Proof. repeat split; vm_compute; reflexivity. Qed.

(** ** E. MassProperties_ against SpatialInertia_ (two separately written code paths) *)
Lemma Rleb_eq0 m : m <> 0 -> andb (Rleb m 0) (Rleb 0 m) = false.
Proof. intros H. destruct (Rleb m 0) eqn:A, (Rleb 0 m) eqn:B; try reflexivity.
  apply Rleb_true in A, B. exfalso; lra. Qed.
Lemma mp_ofInertia_nonzero m c I : m <> 0 -> mp_ofInertia ROps m c I = (m, c, sym_scale ROps (1/m) I).
Proof. intros H. cbv [mp_ofInertia]. change (nleb ROps) with Rleb. change (nofZ ROps 0%Z) with 0.
  rewrite (Rleb_eq0 m H). reflexivity. Qed.
Lemma massprops_shift_agrees_with_spatial_inertia m p G S : m <> 0 ->
  mp_calcShiftedMassProps ROps (m,p,G) S = si_shift ROps (m,p,G) S.
Proof. intros H. cbv [mp_calcShiftedMassProps]. cbv [si_m si_p si_G fst snd]. rewrite (mp_ofInertia_nonzero _ _ _ H).
  d3 p; dsym G; d3 S. unf. teq; field; exact H. Qed.
Lemma in_reexpress_linear (I:SymMat33 R) Rm s : in_reexpress ROps (sym_scale ROps s I) Rm = sym_scale ROps s (in_reexpress ROps I Rm).
Proof. dsym I; dm33 Rm. unf. teq; ring. Qed.
Lemma spatial_inertia_transform_agrees_with_massprops m p G X : m <> 0 ->
  mp_calcTransformedMassProps ROps (m,p,G) X = si_transform ROps (m,p,G) X.
Proof. intros H. destruct X as [Rm x]. cbv [mp_calcTransformedMassProps si_transform mp_calcTransformedInertia]. cbv [si_m si_p si_G fst snd].
  rewrite (mp_ofInertia_nonzero _ _ _ H), <- in_reexpress_linear.
  generalize (massprops_shift_agrees_with_spatial_inertia m p G x H).
  cbv [mp_calcShiftedMassProps]. cbv [si_m si_p si_G fst snd]. rewrite (mp_ofInertia_nonzero _ _ _ H).
  intros E. rewrite <- E. cbv [si_reexpress si_m si_p si_G fst snd]. reflexivity. Qed.
(** for a massless body MassProperties stores a zero unit inertia, so the two agree on the physical inertia m*G only *)
Lemma massless_transform_agrees_on_inertia p G X :
  mp_calcInertia ROps (mp_calcTransformedMassProps ROps (0,p,G) X) = sym_scale ROps 0 (si_G (si_transform ROps (0,p,G) X)).
Proof. cbv [mp_calcTransformedMassProps mp_ofInertia]. cbv [si_m fst snd]. change (nleb ROps) with Rleb. change (nofZ ROps 0%Z) with 0.
  assert (E: Rleb 0 0 = true) by (apply Rleb_true; lra). rewrite E. cbn [andb].
  destruct (si_G (si_transform ROps (0,p,G) X)) as [[[a b] c] [[d e] f]]. unf. teq; ring. Qed.
Lemma mp_reexpress_is_si_reexpress m p G Rm : mp_reexpress ROps (m,p,G) Rm = si_reexpress ROps (m,p,G) Rm.
Proof. reflexivity. Qed.
(** MassProperties_::calcCentralInertia / calcShiftedInertia are the translated Inertia_ shifts *)
Lemma mp_calcShiftedInertia_is_shift m p G o :
  mp_calcShiftedInertia ROps (m,p,G) o =
  in_shiftFromMassCenter ROps (in_shiftToMassCenter ROps (mp_calcInertia ROps (m,p,G)) p m) (v3_sub ROps o p) m.
Proof. reflexivity. Qed.

(** ** articulated-body inertia: rigid shift *)
Lemma ai_mul_ofSI m p G V : ai_mul ROps (ai_ofSI ROps (m,p,G)) V = si_mul ROps (m,p,G) V.
Proof. d3 p; dsym G; dsv V. unf. teq; ring. Qed.
(** ArticulatedInertia_::shift(s) of a rigid body's inertia is SpatialInertia_::shift(-s) (documented sign) *)
Lemma ai_shift_of_rigid m p G s :
  ai_shift ROps (ai_ofSI ROps (m,p,G)) s = ai_ofSI ROps (si_shift ROps (m,p,G) (v3_neg ROps s)).
Proof. d3 p; dsym G; d3 s. unf. teq; ring. Qed.
Ltac dai P := let M := fresh P "M" in let F := fresh P "F" in let J := fresh P "J" in destruct P as [[M F] J]; dsym M; dm33 F; dsym J.
(** general ABI: P' = Phi P Phi^T with Phi = [1 sx; 0 1]; as an operator identity and for the quadratic form *)
Lemma ai_shift_momentum P s V :
  ai_mul ROps (ai_shift ROps P s) V = sa_shiftForceBy ROps (ai_mul ROps P (sa_shiftVelocityBy ROps V s)) (v3_neg ROps s).
Proof. dai P; d3 s; dsv V. unf. teq; ring. Qed.
Lemma sv_dot_comm (A B:SpatialVec R) : sv_dot ROps A B = sv_dot ROps B A.
Proof. dsv A; dsv B. vunf. ring. Qed.
Lemma ai_shift_quadratic_form P s V :
  sv_dot ROps V (ai_mul ROps (ai_shift ROps P s) V)
  = sv_dot ROps (sa_shiftVelocityBy ROps V s) (ai_mul ROps P (sa_shiftVelocityBy ROps V s)).
Proof. rewrite ai_shift_momentum. set (V' := sa_shiftVelocityBy ROps V s). set (X := ai_mul ROps P V').
  assert (E: V = sa_shiftVelocityBy ROps V' (v3_neg ROps s)).
  { unfold V'. rewrite shiftVelocity_additive. d3 s.
    replace (v3_add ROps (sx,sy,sz) (v3_neg ROps (sx,sy,sz))) with (0,0,0) by (vunf; teq; ring).
    now rewrite shiftVelocity_zero. }
  rewrite E at 1. rewrite sv_dot_comm, power_invariant_under_shift. apply sv_dot_comm. Qed.
Lemma ai_shift_additive P a b : ai_shift ROps (ai_shift ROps P a) b = ai_shift ROps P (v3_add ROps a b).
Proof. destruct (ai_shift ROps P a) as [[M1 F1] J1] eqn:E. dai P; d3 a; d3 b. dsym M1; dm33 F1; dsym J1.
  revert E. unf. intros E. injection E; clear E; intros; subst. teq; ring. Qed.
Lemma ai_shift_zero P : ai_shift ROps P (0,0,0) = P.
Proof. dai P. unf. teq; ring. Qed.


(** ** G. shifting IS recomputing about the new origin: parallel-axis theorem for every point-mass cloud *)
Fixpoint cloud_mass (pts : list (Vec3 R * R)) : R := match pts with nil => 0 | (p,m) :: r => m + cloud_mass r end.
Fixpoint cloud_moment (pts : list (Vec3 R * R)) : Vec3 R :=
  match pts with nil => (0,0,0) | (p,m) :: r => v3_add ROps (v3_scale ROps m p) (cloud_moment r) end.
Definition cloud_translate (s:Vec3 R) (pts : list (Vec3 R * R)) : list (Vec3 R * R) :=
  map (fun pm => (v3_sub ROps (fst pm) s, snd pm)) pts.
(** 2(a.b) I - a b^T - b a^T *)
Definition sym_cross_term (a b:Vec3 R) : SymMat33 R :=
  let '(a0,a1,a2) := a in let '(b0,b1,b2) := b in
  ((2*(a1*b1+a2*b2), 2*(a0*b0+a2*b2), 2*(a0*b0+a1*b1)), (-(a0*b1+a1*b0), -(a0*b2+a2*b0), -(a1*b2+a2*b1))).
Lemma cloud_inertia_translate pts s :
  cloud_inertia ROps (cloud_translate s pts) =
  sym_add ROps (sym_sub ROps (cloud_inertia ROps pts) (sym_cross_term (cloud_moment pts) s)) (in_pointMassAt ROps s (cloud_mass pts)).
Proof. induction pts as [|[p m] r IH]; cbn [cloud_translate map cloud_inertia cloud_mass cloud_moment fst snd].
  - d3 s. cbv [sym_cross_term]; unf. teq; ring.
  - fold (cloud_translate s r). rewrite IH.
    destruct (cloud_inertia ROps r) as [[[a b] c] [[d e] f]]. destruct (cloud_moment r) as [[mx my] mz]. d3 p; d3 s.
    cbv [sym_cross_term]; unf. teq; ring. Qed.
Lemma cloud_mass_moment_translate pts s :
  cloud_mass (cloud_translate s pts) = cloud_mass pts /\
  cloud_moment (cloud_translate s pts) = v3_sub ROps (cloud_moment pts) (v3_scale ROps (cloud_mass pts) s).
Proof. induction pts as [|[p m] r [IH1 IH2]]; cbn [cloud_translate map cloud_mass cloud_moment fst snd].
  - d3 s. split; [reflexivity|]. vunf. teq; ring.
  - fold (cloud_translate s r). rewrite IH1, IH2. split; [reflexivity|].
    destruct (cloud_moment r) as [[mx my] mz]. d3 p; d3 s. vunf. teq; ring. Qed.
(** the inertia of the cloud about the point s, computed from scratch, is what the translated kernels
    shiftToMassCenter / shiftFromMassCenter produce from the inertia about the origin *)
Lemma cloud_shift_is_parallel_axis pts s com : v3_scale ROps (cloud_mass pts) com = cloud_moment pts ->
  cloud_inertia ROps (cloud_translate s pts) =
  in_shiftFromMassCenter ROps (in_shiftToMassCenter ROps (cloud_inertia ROps pts) com (cloud_mass pts)) (v3_sub ROps com s) (cloud_mass pts).
Proof. intros H. rewrite cloud_inertia_translate, <- H.
  destruct (cloud_inertia ROps pts) as [[[a b] c] [[d e] f]]. d3 com; d3 s. set (M := cloud_mass pts).
  cbv [sym_cross_term]; unf. teq; ring. Qed.
(** ... and what SpatialInertia_::shift produces: mass, first moment and inertia of the shifted spatial
    inertia are those of the cloud re-measured from the new origin *)
Lemma cloud_si_shift pts m p G S :
  m = cloud_mass pts -> v3_scale ROps m p = cloud_moment pts -> sym_scale ROps m G = cloud_inertia ROps pts ->
  let M' := si_shift ROps (m,p,G) S in
  si_m M' = cloud_mass (cloud_translate S pts) /\
  v3_scale ROps (si_m M') (si_p M') = cloud_moment (cloud_translate S pts) /\
  sym_scale ROps (si_m M') (si_G M') = cloud_inertia ROps (cloud_translate S pts).
Proof. intros Hm Hp HG M'. destruct (cloud_mass_moment_translate pts S) as [E1 E2].
  split; [|split].
  - rewrite E1. exact Hm.
  - rewrite E2, <- Hp, <- Hm. d3 p; d3 S. unfold M'. unf. teq; ring.
  - unfold M'. change (si_m (si_shift ROps (m,p,G) S)) with m. rewrite si_shift_is_parallel_axis, HG.
    rewrite (cloud_shift_is_parallel_axis pts S p); rewrite <- Hm; [reflexivity|exact Hp]. Qed.

(** kinetic energy of a rigid cloud: V.(M V) = sum m |v + w x p|^2 >= 0, so the spatial inertia of every
    point-mass cloud with nonnegative masses is positive semidefinite as a 6x6 form *)
Fixpoint cloud_ke2 (pts : list (Vec3 R * R)) (V:SpatialVec R) : R :=
  match pts with nil => 0 | (p,m) :: r => m * v3_normSqr ROps (v3_add ROps (snd V) (v3_cross ROps (fst V) p)) + cloud_ke2 r V end.
Lemma si_quadratic_form_of_cloud pts m p G V :
  m = cloud_mass pts -> v3_scale ROps m p = cloud_moment pts -> sym_scale ROps m G = cloud_inertia ROps pts ->
  sv_dot ROps V (si_mul ROps (m,p,G) V) = cloud_ke2 pts V.
Proof. intros Hm Hp HG.
  assert (Q : sv_dot ROps V (si_mul ROps (m,p,G) V) =
              sym_quad ROps (sym_scale ROps m G) (fst V) + 2 * v3_dot ROps (v3_scale ROps m p) (v3_cross ROps (snd V) (fst V))
              + m * v3_normSqr ROps (snd V)).
  { d3 p; dsym G; dsv V. unf. ring. }
  rewrite Q, Hp, HG, Hm. clear. induction pts as [|[q mq] r IH]; cbn [cloud_mass cloud_moment cloud_inertia cloud_ke2].
  - dsv V. unf. ring.
  - rewrite <- IH. destruct (cloud_inertia ROps r) as [[[a b] c] [[d e] f]]. destruct (cloud_moment r) as [[mx my] mz].
    d3 q; dsv V. unf. ring. Qed.
Lemma cloud_ke2_nonneg pts V : masses_nonneg pts -> 0 <= cloud_ke2 pts V.
Proof. induction 1 as [|[p m] r Hm Hr IH]; cbn [cloud_ke2]. - lra.
  - simpl in Hm. generalize (v3_normSqr_nonneg (v3_add ROps (snd V) (v3_cross ROps (fst V) p))). intros. nra. Qed.
Lemma cloud_spatial_inertia_psd pts m p G V : masses_nonneg pts ->
  m = cloud_mass pts -> v3_scale ROps m p = cloud_moment pts -> sym_scale ROps m G = cloud_inertia ROps pts ->
  0 <= sv_dot ROps V (si_mul ROps (m,p,G) V).
Proof. intros H Hm Hp HG. rewrite (si_quadratic_form_of_cloud pts m p G V Hm Hp HG). apply cloud_ke2_nonneg, H. Qed.

(** ** relative velocity / acceleration in F (translated from SpatialAlgebra.h): the composition laws they invert *)
Lemma findRelativeVelocityInF_composes p VA VB :
  VB = sv_add ROps (sa_shiftVelocityBy ROps VA p) (sa_findRelativeVelocityInF ROps p VA VB).
Proof. d3 p; dsv VA; dsv VB. unf. teq; ring. Qed.
(** a_B = a_A + b_A x p + w_A x (w_A x p) + 2 w_A x v_AB + a_AB,  b_B = b_A + w_A x w_AB + b_AB *)
Lemma findRelativeAccelerationInF_composes p VA AA VB AB :
  let Vrel := sa_findRelativeVelocityInF ROps p VA VB in
  let Arel := sa_findRelativeAccelerationInF ROps p VA AA VB AB in
  AB = sv_add ROps (sa_shiftAccelerationBy ROps AA (fst VA) p)
         (sv_add ROps Arel (v3_cross ROps (fst VA) (fst Vrel), v3_scale ROps 2 (v3_cross ROps (fst VA) (snd Vrel)))).
Proof. d3 p; dsv VA; dsv AA; dsv VB; dsv AB. unf. teq; ring. Qed.

(** ** non-vacuity: the hypotheses used above are satisfiable on concrete non-trivial inputs *)
Example rotation_example : rotation ((2/3,-1/3,2/3),(2/3,2/3,-1/3),(-1/3,2/3,2/3)).
Proof. split; [split|]; cbv [I33]; vunf; [teq; field | teq; field | field]. Qed.
Example cloud_example :
  masses_nonneg (((1,2,0),3) :: ((0,-1,1),2) :: nil) /\
  cloud_inertia ROps (((1,2,0),3) :: ((0,-1,1),2) :: nil) = ((16,5,17),(-6,0,2)).
Proof. split. - repeat constructor; simpl; lra. - cbn [cloud_inertia]; unf. teq; ring. Qed.
Example valid_example : in_isValid ROps ((16,5,17),(-6,0,2)) = true.
Proof. apply isValid_iff. generalize (slopR_pos ((16,5,17),(-6,0,2))). cbv [triangle_and_product_bounds]. intros.
  rewrite !Rabs_le_iff. lra. Qed.
Example invalid_example : in_isValid ROps ((1,1,3),(0,0,0)) = false.
Proof. apply invalid_rejected. right; right; right; left. cbv [slopR sigR]; unf.
  assert (E: Rmax (1+1+3) 1 = 1+1+3) by (apply Rmax_left; lra). rewrite E. lra. Qed.
Example cloud_translate_example :
  cloud_mass (((1,2,0),3) :: ((0,-1,1),2) :: nil) = 5 /\ cloud_moment (((1,2,0),3) :: ((0,-1,1),2) :: nil) = (3,4,2) /\
  v3_scale ROps 5 (3/5,4/5,2/5) = cloud_moment (((1,2,0),3) :: ((0,-1,1),2) :: nil).
Proof. cbn [cloud_mass cloud_moment]; vunf. repeat split; try (teq; field); ring. Qed.
