From Coq Require Import ZArith Reals Lra Lia Psatz Nsatz List.
Require Import Num Vec Tactics c29in_gen c29si_gen c29sa_gen C29_Model C29_Proofs.
Local Open Scope R_scope.
Lemma power_invariant_under_reexpress F V R_FB : orthogonal R_FB ->
  sv_dot ROps (sv_reexpress ROps F R_FB) (sv_reexpress ROps V R_FB) = sv_dot ROps F V.
Proof. intros H. dm33 R_FB; dsv F; dsv V. orth_hyps H. unf. nsatz_or_fail. Qed.
Lemma m33_mulv_mul (A B:Mat33 R) x : m33_mulv ROps (m33_mul ROps A B) x = m33_mulv ROps A (m33_mulv ROps B x).
Proof. dm33 A; dm33 B; d3 x. vunf. teq; ring. Qed.
Lemma sym_mulv_m33 (S:SymMat33 R) x : sym_mulv ROps S x = m33_mulv ROps (sym_to_m33 S) x.
Proof. reflexivity. Qed.
Lemma rot_mulv_Tmulv M x : orthogonal M -> m33_mulv ROps M (m33_Tmulv ROps M x) = x.
Proof. intros H. dm33 M; d3 x. orth_hyps H. vunf. teq; nsatz_or_fail. Qed.
Lemma rot_cross M a b : rotation M ->
  v3_cross ROps (m33_Tmulv ROps M a) (m33_Tmulv ROps M b) = m33_Tmulv ROps M (v3_cross ROps a b).
Proof. intros H. dm33 M; d3 a; d3 b. generalize (rot_cofactor _ _ _ _ _ _ _ _ _ H).
  intros [[C1 [C2 C3]] [[C4 [C5 C6]] [C7 [C8 C9]]]]. clear H. vunf. teq; nsatz_or_fail. Qed.
Lemma momentum_reexpresses m p G V R_FB : rotation R_FB ->
  si_mul ROps (si_reexpress ROps (m,p,G) R_FB) (sv_reexpress ROps V R_FB) = sv_reexpress ROps (si_mul ROps (m,p,G) V) R_FB.
Proof. intros H. cbv [si_mul si_reexpress si_m si_p si_G fst snd si_mulSV sv_reexpress].
  rewrite !sym_mulv_m33, (in_reexpress_is_congruence G R_FB H).
  rewrite !m33_mulv_mul. change (m33_mulv ROps (m33_T R_FB)) with (m33_Tmulv ROps R_FB).
  rewrite (rot_mulv_Tmulv R_FB _ (proj1 H)). rewrite !(rot_cross R_FB _ _ H).
  dm33 R_FB; d3 p; dsym G; dsv V. vunf. teq; ring. Qed.
Lemma ke_invariant_under_reexpress m p G V R_FB : rotation R_FB ->
  sv_dot ROps (sv_reexpress ROps V R_FB) (si_mul ROps (si_reexpress ROps (m,p,G) R_FB) (sv_reexpress ROps V R_FB))
  = sv_dot ROps V (si_mul ROps (m,p,G) V).
Proof. intros H. rewrite (momentum_reexpresses _ _ _ _ _ H). apply power_invariant_under_reexpress, H. Qed.
Lemma ke_invariant_under_transform m p G V R_FB x : rotation R_FB ->
  let V' := sv_reexpress ROps (sa_shiftVelocityBy ROps V x) R_FB in
  sv_dot ROps V' (si_mul ROps (si_transform ROps (m,p,G) (R_FB,x)) V') = sv_dot ROps V (si_mul ROps (m,p,G) V).
Proof. intros H V'. unfold V', si_transform. cbv [fst snd].
  destruct (si_shift ROps (m,p,G) x) as [[m1 p1] G1] eqn:E.
  rewrite (ke_invariant_under_reexpress _ _ _ _ _ H). rewrite <- E. apply ke_invariant_under_shift. Qed.
