(** C29: the unit-inertia shape factories of UnitInertia_ (Gen/c29ui_gen.v, regenerated from MassProperties.h) produce, for
    ALL real dimensions including the degenerate limits (r = 0 thin rod, h = 0 thin disc, zero-size point), matrices that the
    translated acceptance test accepts and that are positive semidefinite. *)
From Coq Require Import ZArith Reals Lra Lia Psatz.
Require Import Num Vec Tactics c29in_gen c29ui_gen C29_Model C29_Proofs.
Local Open Scope R_scope.

Ltac unfui := cbv [ui_sphere ui_cylinderAlongZ ui_cylinderAlongY ui_cylinderAlongX ui_brick ui_ellipsoid]; vunf.
Lemma sq_nonneg x : 0 <= x * x. Proof. nra. Qed.
(** a diagonal matrix with nonnegative entries satisfying the exact triangle inequalities is accepted and PSD *)
Lemma diag_accepted a b c : 0 <= a -> 0 <= b -> 0 <= c -> c <= a + b -> b <= a + c -> a <= b + c ->
  in_isValid ROps ((a,b,c),(0,0,0)) = true /\ forall u, 0 <= sym_quad ROps ((a,b,c),(0,0,0)) u.
Proof. intros. split.
  - apply isValid_iff. generalize (slopR_pos ((a,b,c),(0,0,0))). cbv [triangle_and_product_bounds]. intros.
    rewrite !Rabs_le_iff. lra.
  - intros [[x y] z]. cbv [sym_quad]; vunf. generalize (sq_nonneg x) (sq_nonneg y) (sq_nonneg z). nra. Qed.
Ltac shape := unfui; apply diag_accepted; nra.
Lemma sphere_accepted_psd r : in_isValid ROps (ui_sphere ROps r) = true /\ forall u, 0 <= sym_quad ROps (ui_sphere ROps r) u.
Proof. generalize (sq_nonneg r); intros. shape. Qed.
Lemma cylinderAlongZ_accepted_psd r h :
  in_isValid ROps (ui_cylinderAlongZ ROps r h) = true /\ forall u, 0 <= sym_quad ROps (ui_cylinderAlongZ ROps r h) u.
Proof. generalize (sq_nonneg r) (sq_nonneg h); intros. shape. Qed.
Lemma cylinderAlongY_accepted_psd r h :
  in_isValid ROps (ui_cylinderAlongY ROps r h) = true /\ forall u, 0 <= sym_quad ROps (ui_cylinderAlongY ROps r h) u.
Proof. generalize (sq_nonneg r) (sq_nonneg h); intros. shape. Qed.
Lemma cylinderAlongX_accepted_psd r h :
  in_isValid ROps (ui_cylinderAlongX ROps r h) = true /\ forall u, 0 <= sym_quad ROps (ui_cylinderAlongX ROps r h) u.
Proof. generalize (sq_nonneg r) (sq_nonneg h); intros. shape. Qed.
Lemma brick_accepted_psd hx hy hz :
  in_isValid ROps (ui_brick ROps hx hy hz) = true /\ forall u, 0 <= sym_quad ROps (ui_brick ROps hx hy hz) u.
Proof. generalize (sq_nonneg hx) (sq_nonneg hy) (sq_nonneg hz); intros. shape. Qed.
Lemma ellipsoid_accepted_psd hx hy hz :
  in_isValid ROps (ui_ellipsoid ROps hx hy hz) = true /\ forall u, 0 <= sym_quad ROps (ui_ellipsoid ROps hx hy hz) u.
Proof. generalize (sq_nonneg hx) (sq_nonneg hy) (sq_nonneg hz); intros. shape. Qed.
(** the limits named in the property: thin rod (r = 0) sits exactly on the triangle boundary, thin disc (h = 0) too *)
Example thin_rod_on_boundary h : ui_cylinderAlongZ ROps 0 h = ((h*h/3, h*h/3, 0),(0,0,0)).
Proof. unfui. teq; field. Qed.
Example thin_disc_on_boundary r : let d := fst (ui_cylinderAlongZ ROps r 0) in v3_0 d + v3_1 d = v3_2 d.
Proof. unfui. field. Qed.
