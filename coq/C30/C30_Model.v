(** C30 hand-written executable model (no proofs) of
      SimTKcommon/Polynomial/src/PolynomialRootFinder.cpp
        findRoots(const Vec<3,T>&, Vec<2,complex<T>>&)            -> [quad_real]
        findRoots(const Vec<3,complex<T>>&, Vec<2,complex<T>>&)   -> [quad_cplx]
    statement by statement (same operation order, same branch tests), polymorphic in [NumOps T];
    complex numbers are pairs [(re, im)].  [None] = the ZeroLeadingCoefficient exception.
    The machine epsilon NTraits<T>::getEps() is the parameter [eps] (2^-52 for double, 2^-23 for float).

    The cubic / general-degree overloads call RPoly/CPoly (rpoly.cpp, cpoly.cpp: third-party iterative
    Jenkins-Traub code) -- they are NOT modelled.  What is modelled for them is the CERTIFICATE that the
    property demands of their output: [vieta_check] (the coefficient list equals lead * (-1)^k e_k(roots),
    to a tolerance), [vieta_maxresid] and [conj_closed_check]; these run, extracted, on the roots the C++ returns. *)
From Coq Require Import ZArith List Bool.
Require Import Num.
Import ListNotations.

Section Model.
Context {T : Type} (K : NumOps T).

Definition cx : Type := (T * T)%type.
Definition neqb (x y : T) : bool := nleb K x y && nleb K y x.          (* x == y *)
Definition c0 : cx := (n0 K, n0 K).
Definition c1 : cx := (n1 K, n0 K).
Definition cofr (x : T) : cx := (x, n0 K).                              (* complex<T>(x) *)
Definition cadd (z w : cx) : cx := (nadd K (fst z) (fst w), nadd K (snd z) (snd w)).
Definition csub (z w : cx) : cx := (nsub K (fst z) (fst w), nsub K (snd z) (snd w)).
Definition cneg (z : cx) : cx := (nopp K (fst z), nopp K (snd z)).
Definition cconj (z : cx) : cx := (fst z, nopp K (snd z)).
(** complex*complex as libstdc++/libgcc evaluate it for finite operands: (ac - bd, ad + bc) *)
Definition cmul (z w : cx) : cx :=
  (nsub K (nmul K (fst z) (fst w)) (nmul K (snd z) (snd w)),
   nadd K (nmul K (fst z) (snd w)) (nmul K (snd z) (fst w))).
Definition cscale (s : T) (z : cx) : cx := (nmul K s (fst z), nmul K s (snd z)).   (* T * complex<T> *)
Definition cdivr (z : cx) (s : T) : cx := (ndiv K (fst z) s, ndiv K (snd z) s).    (* complex<T> / T *)
Definition raddc (s : T) (z : cx) : cx := (nadd K s (fst z), snd z).               (* T + complex<T> *)
(** complex/complex: the textbook formula ((ac+bd) + i(bc-ad)) / (c^2+d^2)
    (libgcc's __divdc3 differs from it by scaling against overflow, i.e. by rounding only) *)
Definition cdiv (z w : cx) : cx :=
  let d := nadd K (nmul K (fst w) (fst w)) (nmul K (snd w) (snd w)) in
  (ndiv K (nadd K (nmul K (fst z) (fst w)) (nmul K (snd z) (snd w))) d,
   ndiv K (nsub K (nmul K (snd z) (fst w)) (nmul K (fst z) (snd w))) d).
Definition ceqr0 (z : cx) : bool := neqb (fst z) (n0 K) && neqb (snd z) (n0 K).    (* z == (T)0.0 *)
(** principal square root, libstdc++'s __complex_sqrt (glibc csqrt agrees with it to rounding):
      x == 0 : t = sqrt(|y|/2);            (t, copysign(t,y))
      else     t = sqrt(2(|z|+|x|)), u=t/2; x>0 ? (u, y/t) : (|y|/t, copysign(u,y))
    (the sign of a zero imaginary part selects the side of the branch cut, as in glibc) *)
Definition two : T := nofZ K 2.
(** |z| with the scaling of libstdc++'s __complex_abs (no spurious under/overflow of x^2+y^2):
      s = max(|x|,|y|); s == 0 ? s : s * sqrt((x/s)^2 + (y/s)^2) *)
Definition cabs (z : cx) : T :=
  let ax := nabs K (fst z) in let ay := nabs K (snd z) in
  let s := if nltb K ax ay then ay else ax in
  if neqb s (n0 K) then s
  else let x := ndiv K (fst z) s in let y := ndiv K (snd z) s in
       nmul K s (nsqrt K (nadd K (nmul K x x) (nmul K y y))).
(** sign bit of y as glibc's csqrt reads it (copysign): y < 0, or y is a negative zero (1/y = -inf < 0).
    Over the reals the second alternative never holds (1/0 = 0 in Coq), so [sneg ROps y = (y <? 0)]. *)
Definition sneg (y : T) : bool := nltb K y (n0 K) || (neqb y (n0 K) && nltb K (ndiv K (n1 K) y) (n0 K)).
Definition csqrt (z : cx) : cx :=
  let x := fst z in let y := snd z in
  if neqb x (n0 K) then
    let t := nsqrt K (ndiv K (nabs K y) two) in
    (t, if sneg y then nopp K t else t)
  else
    let t := nsqrt K (nmul K two (nadd K (cabs z) (nabs K x))) in
    let u := ndiv K t two in
    if nltb K (n0 K) x then (u, ndiv K y t)
    else (ndiv K (nabs K y) t, if sneg y then nopp K u else u).

(** *** findRoots(const Vec<3,T>& coefficients, Vec<2,complex<T>>& roots) *)
Definition quad_real (eps a b c : T) : option (cx * cx) :=
  if neqb a (n0 K) then None else                                   (* SimTK_THROW(ZeroLeadingCoefficient) *)
  let b2 := nmul K b b in
  let disc := nsub K b2 (nmul K (nmul K (nofZ K 4) a) c) in         (* b2 - (T)4.0*a*c *)
  let tol := nmul K (nmul K two eps) b2 in                          (* (T)2.0*getEps()*b2 *)
  if nltb K disc tol && nltb K (nopp K tol) disc then               (* discriminant < tol && discriminant > -tol *)
    let root := ndiv K (nopp K b) (nmul K two a) in                 (* -b/((T)2.0*a) *)
    Some (cofr root, cofr root)
  else if neqb b (n0 K) then
    if nleb K (n0 K) disc then                                      (* discriminant >= 0.0 *)
      let root := ndiv K (nsqrt K disc) (nmul K two a) in           (* std::sqrt(discriminant)/((T)2.0*a) *)
      Some (cofr root, cofr (nopp K root))
    else
      let root := ndiv K (nsqrt K (nopp K disc)) (nmul K two a) in
      Some ((n0 K, root), (n0 K, nopp K root))
  else
    let sq := csqrt (cofr disc) in
    let mhalf := nopp K (ndiv K (n1 K) two) in                      (* (T)-0.5 *)
    let q := cscale mhalf (raddc b (if nltb K (n0 K) b then sq else cneg sq)) in
    Some (cdivr q a, cdiv (cofr c) q).                              (* q/a ; c/q *)

(** *** findRoots(const Vec<3,complex<T>>& coefficients, Vec<2,complex<T>>& roots) *)
Definition quad_cplx (a b c : cx) : option (cx * cx) :=
  if ceqr0 a then None else
  let b2 := cmul b b in
  let disc := csub b2 (cmul (cscale (nofZ K 4) a) c) in             (* b2 - ((T)4.0)*a*c *)
  if ceqr0 b then
    let root := cdiv (csqrt disc) (cscale two a) in                 (* std::sqrt(discriminant)/(((T)2.0)*a) *)
    Some (root, cneg root)
  else
    let sq := csqrt disc in
    let temp := fst (cmul (cconj b) sq) in                          (* (conj(b)*sqrt(discriminant)).real() *)
    let mhalf := nopp K (ndiv K (n1 K) two) in
    let q := cscale mhalf (cadd b (if nltb K (n0 K) temp then sq else cneg sq)) in
    Some (cdiv q a, cdiv c q).

(** *** polynomials with complex coefficients, leading coefficient first (order of decreasing powers) *)
Fixpoint chorner (acc : cx) (cs : list cx) (x : cx) : cx :=
  match cs with [] => acc | c :: cs' => chorner (cadd (cmul acc x) c) cs' x end.
Definition ceval (cs : list cx) (x : cx) : cx := chorner c0 cs x.

(** coefficients of p(x)*(x - r) from those of p (leading first):  (p ++ [0]) - (0 :: r*p) *)
Fixpoint csub_list (p q : list cx) : list cx :=
  match p, q with
  | a :: p', b :: q' => csub a b :: csub_list p' q'
  | _, _ => []
  end.
Definition mul_lin (p : list cx) (r : cx) : list cx :=
  csub_list (p ++ [c0]) (c0 :: map (cmul r) p).
(** monic polynomial with the given roots: its k-th coefficient is (-1)^k e_k(roots) (proved: [expand_nth_vieta]) *)
Fixpoint expand (roots : list cx) : list cx :=
  match roots with [] => [c1] | r :: l => mul_lin (expand l) r end.

(** *** the certificate checkers run on the implementation's output *)
Definition cnorm1 (z : cx) : T := nadd K (nabs K (fst z)) (nabs K (snd z)).
(** Vieta residuals  c_k - c_0 * (-1)^k e_k(roots),  k = 0..n *)
Definition vieta_resid (coeffs roots : list cx) : list cx :=
  match coeffs with
  | [] => []
  | lead :: _ => csub_list coeffs (map (cmul lead) (expand roots))
  end.
Definition vieta_check (tol : T) (coeffs roots : list cx) : bool :=
  Nat.eqb (length coeffs) (S (length roots)) &&
  forallb (fun d => nleb K (cnorm1 d) tol) (vieta_resid coeffs roots).
(** largest Vieta residual (1-norm of the complex difference); the driver divides it by the coefficient scale *)
Definition tmax (x y : T) : T := if nleb K x y then y else x.
Definition vieta_maxresid (coeffs roots : list cx) : T :=
  fold_right (fun d m => tmax (cnorm1 d) m) (n0 K) (vieta_resid coeffs roots).
(** conjugate closure: every root's conjugate is (to [tol] in the 1-norm) again in the list *)
Definition conj_closed_check (tol : T) (roots : list cx) : bool :=
  forallb (fun r => existsb (fun s => nleb K (cnorm1 (csub s (cconj r))) tol) roots) roots.
Definition all_real (cs : list cx) : bool := forallb (fun c => neqb (snd c) (n0 K)) cs.

End Model.
