(** C30 proofs (over the reals, complex numbers as pairs = Coquelicot's C).
    Part 1: bridge between the NumOps-generic complex operations of C30_Model.v at ROps and Coquelicot's field C;
            the modelled principal square root squares to its argument.
    Part 2: the real and complex quadratic overloads of PolynomialRootFinder::findRoots: every branch returns
            roots satisfying Vieta's relations (and what exactly the "discriminant is zero to machine precision"
            branch returns).
    Part 3: general degree: the Vieta certificate ([vieta_check], run on the implementation's output) implies
            p(x) = lead * prod (x - r_i), every r_i is a root (exactly for tolerance 0, with an explicit residual
            bound for tolerance > 0), and for real coefficients the root list is closed under conjugation. *)
From Coq Require Import ZArith Reals Lra Lia Psatz Nsatz List Bool.
From Coquelicot Require Import Complex.
Require Import Num Tactics C30_Model.
Import ListNotations.
Local Open Scope R_scope.


(* ---------------------------------------------------------------- *)

Notation Cx := (cx (T:=R)).
Lemma cadd_C (z w : C) : cadd ROps z w = Cplus z w. Proof. reflexivity. Qed.
Lemma cmul_C (z w : C) : cmul ROps z w = Cmult z w. Proof. reflexivity. Qed.
Lemma csub_C (z w : C) : csub ROps z w = Cminus z w. Proof. reflexivity. Qed.
Lemma cneg_C (z : C) : cneg ROps z = Copp z. Proof. reflexivity. Qed.
Lemma cconj_C (z : C) : cconj ROps z = Cconj z. Proof. reflexivity. Qed.
Lemma cofr_C (x : R) : cofr ROps x = RtoC x. Proof. reflexivity. Qed.
Lemma c0_C : c0 ROps = RtoC 0. Proof. reflexivity. Qed.
Lemma c1_C : c1 ROps = RtoC 1. Proof. reflexivity. Qed.
Lemma cscale_C (s : R) (z : C) : cscale ROps s z = Cmult (RtoC s) z.
Proof. destruct z; unfold cscale, Cmult, RtoC; cbn. f_equal; ring. Qed.
Lemma norm2_pos (x y : R) : (x, y) <> RtoC 0 -> x * x + y * y <> 0.
Proof. intros H E. apply H. assert (x = 0) by nra. assert (y = 0) by nra. subst; reflexivity. Qed.
Lemma cdiv_C (z w : C) : w <> RtoC 0 -> cdiv ROps z w = Cdiv z w.
Proof. destruct z as [a b], w as [c d]; intros H. pose proof (norm2_pos _ _ H).
  unfold cdiv, Cdiv, Cmult, Cinv; cbn. f_equal; field; nra. Qed.
Lemma cdivr_C (z : C) (s : R) : s <> 0 -> cdivr ROps z s = Cdiv z (RtoC s).
Proof. destruct z as [a b]; intros H. unfold cdivr, Cdiv, Cmult, Cinv, RtoC; cbn. f_equal; field; auto. Qed.
Lemma raddc_C (s : R) (z : C) : raddc ROps s z = Cplus (RtoC s) z.
Proof. destruct z; unfold raddc, Cplus, RtoC; cbn. f_equal; ring. Qed.

Lemma neqb_true (x y : R) : neqb ROps x y = true <-> x = y.
Proof. unfold neqb; cbn. rewrite andb_true_iff, !Rleb_true. split; [intros []; lra | intros ->; lra]. Qed.
Lemma neqb_false (x y : R) : neqb ROps x y = false <-> x <> y.
Proof. rewrite <- neqb_true. destruct (neqb ROps x y); split; congruence. Qed.

Lemma cabs_sqrt (x y : R) : cabs ROps (x, y) = sqrt (x * x + y * y).
Proof.
  unfold cabs. cbn [fst snd].
  cbn [ROps n0 n1 nadd nsub nmul ndiv nopp nsqrt nabs nofZ nleb nltb].
  set (s := if Rltb (Rabs x) (Rabs y) then Rabs y else Rabs x).
  assert (Hs : 0 <= s /\ Rabs x <= s /\ Rabs y <= s).
  { unfold s. pose proof (Rabs_pos x). pose proof (Rabs_pos y).
    destruct (Rltb (Rabs x) (Rabs y)) eqn:E; [apply Rltb_true in E | apply Rltb_false in E]; lra. }
  destruct Hs as (Hs0 & Hsx & Hsy). clearbody s.
  destruct (neqb ROps s 0) eqn:E.
  - apply neqb_true in E. subst s.
    assert (x = 0) by (apply Rabs_eq_0 || (destruct (Req_dec x 0); auto; pose proof (Rabs_pos_lt x); lra)).
    assert (y = 0) by (destruct (Req_dec y 0); auto; pose proof (Rabs_pos_lt y); lra).
    subst. replace (0 * 0 + 0 * 0) with 0 by ring. symmetry. apply sqrt_0.
  - apply neqb_false in E. assert (0 < s) by lra.
    rewrite <- (sqrt_square s) at 1 by lra. rewrite <- sqrt_mult_alt by nra.
    f_equal. field. lra.
Qed.

Lemma sneg_R (y : R) : sneg ROps y = Rltb y 0.
Proof.
  unfold sneg. cbn [ROps n0 n1 ndiv nltb]. destruct (Rltb y 0) eqn:E; cbn [orb]; auto.
  destruct (neqb ROps y 0) eqn:E0; cbn [andb]; auto.
  apply neqb_true in E0. subst y. apply Rltb_false. unfold Rdiv. rewrite Rinv_0. lra.
Qed.

Lemma csqrt_sqr (z : C) : Cmult (csqrt ROps z) (csqrt ROps z) = z.
Proof.
  destruct z as [x y]. unfold csqrt. cbn [fst snd]. rewrite !sneg_R.
  destruct (neqb ROps x (n0 ROps)) eqn:Ex.
  - apply neqb_true in Ex; cbn in Ex; subst x. cbn.
    assert (Ht : sqrt (Rabs y / 2) * sqrt (Rabs y / 2) = Rabs y / 2).
    { apply sqrt_sqrt. pose proof (Rabs_pos y); lra. }
    set (t := sqrt (Rabs y / 2)) in *.
    destruct (Rltb y 0) eqn:Ey; unfold Cmult; cbn [fst snd].
    + apply Rltb_true in Ey. rewrite Rabs_left in Ht by lra. f_equal; nra.
    + apply Rltb_false in Ey. rewrite Rabs_right in Ht by lra. f_equal; nra.
  - apply neqb_false in Ex; cbn in Ex. cbn.
    rewrite cabs_sqrt. set (m := sqrt (x * x + y * y)).
    assert (Hm : m * m = x * x + y * y) by (apply sqrt_sqrt; nra).
    assert (Hm0 : 0 <= m) by apply sqrt_pos.
    assert (Hmx : Rabs x <= m).
    { apply Rsqr_incr_0_var; auto. unfold Rsqr. rewrite <- Rabs_mult. rewrite Rabs_right by nra. nra. }
    assert (Hax : 0 < Rabs x) by (apply Rabs_pos_lt; auto).
    set (t := sqrt (2 * (m + Rabs x))).
    assert (Ht : t * t = 2 * (m + Rabs x)) by (apply sqrt_sqrt; lra).
    assert (Ht0 : 0 < t) by (apply sqrt_lt_R0; lra).
    clearbody t m.
    destruct (Rltb 0 x) eqn:Epos.
    + apply Rltb_true in Epos. rewrite Rabs_right in * by lra.
      unfold Cmult; cbn [fst snd]. f_equal.
      * field_simplify_eq; [|lra]. cbv [Rpow_def.pow]. clear - Hm Ht. solve [nsatz].
      * field; lra.
    + apply Rltb_false in Epos. assert (x < 0) by lra. rewrite (Rabs_left x) in * by lra.
      destruct (Rltb y 0) eqn:Ey.
      * apply Rltb_true in Ey. rewrite Rabs_left by lra. unfold Cmult; cbn [fst snd]. f_equal.
        -- field_simplify_eq; [|lra]. cbv [Rpow_def.pow]. clear - Hm Ht. solve [nsatz].
        -- field; lra.
      * apply Rltb_false in Ey. rewrite Rabs_right by lra. unfold Cmult; cbn [fst snd]. f_equal.
        -- field_simplify_eq; [|lra]. cbv [Rpow_def.pow]. clear - Hm Ht. solve [nsatz].
        -- field; lra.
Qed.


(* ---------------------------------------------------------------- *)

Lemma C2_neq0 : (1 + 1 <> 0)%C.
Proof. intros H. apply (f_equal fst) in H. cbn in H. lra. Qed.
Lemma RtoC_2 : RtoC 2 = (1 + 1)%C. Proof. unfold RtoC, Cplus; cbn. f_equal; ring. Qed.
Lemma RtoC_4 : RtoC 4 = ((1 + 1) * (1 + 1))%C. Proof. unfold RtoC, Cplus, Cmult; cbn. f_equal; ring. Qed.
Lemma RtoC_mhalf : RtoC (- (1 / 2)) = (- (1 / (1 + 1)))%C.
Proof. unfold RtoC, Cplus, Copp, Cdiv, Cmult, Cinv; cbn. f_equal; field. Qed.

Ltac cside := repeat split; auto; try (let HH := fresh in intros HH; apply (f_equal fst) in HH; cbn in HH; lra).
Section Core.
Local Open Scope C_scope.
Lemma quad_core (a b c w q : C) : a <> 0 -> w * w = b * b - (1+1)*(1+1) * a * c ->
  q = - (1 / (1+1)) * (b + w) -> q <> 0 ->
  a * ((q / a) * (q / a)) + b * (q / a) + c = 0 /\ a * ((c / q) * (c / q)) + b * (c / q) + c = 0 /\
  q / a + c / q = - b / a /\ (q / a) * (c / q) = c / a.
Proof.
  intros Ha Hw Hq Hq0.
  assert (Hc : c = (b * b - w * w) / ((1+1)*(1+1) * a)).
  { rewrite Hw. field. cside. }
  clear Hw. subst c. rewrite Hq in Hq0. subst q.
  pose proof C2_neq0.
  assert (Hbw : b + w <> 0) by (intros E; apply Hq0; rewrite E; ring).
  repeat split; field; cside.
Qed.

(** the b = 0 branches: roots r and -r with r*r = -c/a *)
Lemma quad_b0_core (a c r : C) : a <> 0 -> a * (r * r) + c = 0 ->
  a * (r * r) + 0 * r + c = 0 /\ a * ((- r) * (- r)) + 0 * (- r) + c = 0 /\ r + - r = - 0 / a /\ r * - r = c / a.
Proof.
  intros Ha H. assert (Hc : c = - (a * (r * r))) by (rewrite <- (Cplus_0_l (- _)), <- H; ring).
  subst c. repeat split; try ring; field; auto.
Qed.
End Core.


(* ---------------------------------------------------------------- *)

Definition is_root (cs : list C) (r : C) : Prop := ceval ROps cs r = RtoC 0.

Lemma ceval3 (a b c r : C) : ceval ROps [a; b; c] r = (a * (r * r) + b * r + c)%C.
Proof. unfold ceval; cbn [chorner]. change (cadd ROps) with Cplus. change (cmul ROps) with Cmult. change (c0 ROps) with (RtoC 0). match goal with |- ?l = ?r => change (@eq C l r) end. ring. Qed.

Lemma RtoC_neq0 (x : R) : x <> 0 -> RtoC x <> RtoC 0.
Proof. intros H E. apply H. apply (f_equal fst) in E. exact E. Qed.

Lemma csqrt_re_nonneg (z : C) : 0 <= fst (csqrt ROps z).
Proof.
  destruct z as [x y]. unfold csqrt. cbn [fst snd]. rewrite !sneg_R.
  destruct (neqb ROps x (n0 ROps)); cbn.
  - apply sqrt_pos.
  - set (t := sqrt _). assert (0 <= t) by apply sqrt_pos.
    destruct (Rltb 0 x); cbn.
    + lra.
    + destruct (Rle_lt_or_eq_dec 0 t H) as [Hp| <-].
      * apply Rmult_le_pos. apply Rabs_pos. left. apply Rinv_0_lt_compat; auto.
      * unfold Rdiv. rewrite Rinv_0. lra.
Qed.

Lemma Cmult_opp_opp (w : C) : (- w * - w = w * w)%C. Proof. ring. Qed.

(** general branch of the real quadratic: q = -(b + sgn(b) sqrt(disc))/2 is non-zero when b <> 0 *)
Lemma quad_real_q_neq0 (b : R) (sq : C) : b <> 0 -> 0 <= fst sq ->
  cscale ROps (- (1 / 2)) (raddc ROps b (if Rltb 0 b then sq else cneg ROps sq)) <> RtoC 0.
Proof.
  intros Hb Hs E. apply (f_equal fst) in E. destruct sq as [sr si]. cbn in Hs.
  destruct (Rltb 0 b) eqn:Eb; cbn in E.
  - apply Rltb_true in Eb. lra.
  - apply Rltb_false in Eb. lra.
Qed.

Theorem quad_real_defined eps a b c : quad_real ROps eps a b c = None <-> a = 0.
Proof.
  unfold quad_real. destruct (neqb ROps a (n0 ROps)) eqn:Ea.
  - apply neqb_true in Ea. cbn in Ea. tauto.
  - apply neqb_false in Ea. cbn in Ea.
    split; [|tauto]. repeat match goal with |- context [if ?c then _ else _] => destruct c end; discriminate.
Qed.

Definition near_double (eps a b c : R) : Prop :=
  b * b - 4 * a * c < 2 * eps * (b * b) /\ - (2 * eps * (b * b)) < b * b - 4 * a * c.

Theorem quad_real_roots eps a b c r1 r2 :
  quad_real ROps eps a b c = Some (r1, r2) -> ~ near_double eps a b c ->
  is_root [RtoC a; RtoC b; RtoC c] r1 /\ is_root [RtoC a; RtoC b; RtoC c] r2 /\
  (r1 + r2 = - RtoC b / RtoC a)%C /\ (r1 * r2 = RtoC c / RtoC a)%C.
Proof.
  unfold quad_real, is_root. rewrite !ceval3.
  destruct (neqb ROps a (n0 ROps)) eqn:Ea; [discriminate|]. apply neqb_false in Ea; cbn in Ea.
  cbn [ROps n0 n1 nadd nsub nmul ndiv nopp nsqrt nofZ nleb nltb two].
  set (disc := b * b - 4 * a * c). set (tol := 2 * eps * (b * b)).
  pose proof (RtoC_neq0 a Ea) as HaC.
  destruct (Rltb disc tol && Rltb (- tol) disc) eqn:End.
  { intros _ H. exfalso. apply H. apply andb_true_iff in End. destruct End as [H1 H2].
    apply Rltb_true in H1, H2. split; assumption. }
  clear End. destruct (neqb ROps b 0) eqn:Eb.
  - apply neqb_true in Eb. subst b.
    assert (Hd : disc = - (4 * a * c)) by (unfold disc; ring).
    destruct (Rleb 0 disc) eqn:Ed; intros H _; injection H as <- <-.
    + apply Rleb_true in Ed.
      assert (Hs : sqrt disc * sqrt disc = disc) by (apply sqrt_sqrt; auto).
      set (s := sqrt disc) in *. clearbody s disc.
      replace (cofr ROps (- (s / (2 * a)))) with (Copp (cofr ROps (s / (2 * a)))) by (unfold Copp, cofr; cbn; f_equal; ring).
      apply quad_b0_core; auto.
      unfold cofr, Cmult, Cplus, RtoC; cbn. f_equal; [|ring].
      field_simplify_eq; auto. cbv [Rpow_def.pow]. clear - Hs Hd. solve [nsatz].
    + apply Rleb_false in Ed.
      assert (Hs : sqrt (- disc) * sqrt (- disc) = - disc) by (apply sqrt_sqrt; lra).
      set (s := sqrt (- disc)) in *. clearbody s disc.
      replace (0, - (s / (2 * a))) with (Copp (0, s / (2 * a))) by (unfold Copp; cbn; f_equal; ring).
      apply quad_b0_core; auto.
      unfold Cmult, Cplus, RtoC; cbn. f_equal; [|ring].
      field_simplify_eq; auto. cbv [Rpow_def.pow]. clear - Hs Hd. solve [nsatz].
  - apply neqb_false in Eb. intros H _; injection H as <- <-.
    set (sq := csqrt ROps (cofr ROps disc)).
    set (w := if Rltb 0 b then sq else cneg ROps sq).
    assert (Hq0 : cscale ROps (- (1 / 2)) (raddc ROps b w) <> RtoC 0)
      by (apply quad_real_q_neq0; auto; apply csqrt_re_nonneg).
    rewrite cdivr_C by auto. rewrite cdiv_C by auto. change (cofr ROps c) with (RtoC c).
    apply (quad_core (RtoC a) (RtoC b) (RtoC c) w); auto.
    + assert (Hsq : (sq * sq)%C = cofr ROps disc) by apply csqrt_sqr.
      replace (w * w)%C with (sq * sq)%C by (unfold w; destruct (Rltb 0 b); [|rewrite cneg_C, Cmult_opp_opp]; reflexivity).
      rewrite Hsq. unfold disc, cofr, Cminus; unfold Cmult, Cplus, Copp, RtoC; cbn. f_equal; ring.
    + rewrite cscale_C, raddc_C, RtoC_mhalf. reflexivity.
Qed.

(** the "discriminant is zero to machine precision" branch: both roots are -b/(2a); it is a root up to -disc/(4a) *)
Theorem quad_real_near_double_residual eps a b c r1 r2 :
  quad_real ROps eps a b c = Some (r1, r2) -> near_double eps a b c ->
  r1 = RtoC (- b / (2 * a)) /\ r2 = r1 /\
  ceval ROps [RtoC a; RtoC b; RtoC c] r1 = RtoC (- (b * b - 4 * a * c) / (4 * a)) /\
  Rabs (- (b * b - 4 * a * c) / (4 * a)) < eps * (b * b) / (2 * Rabs a) /\
  (r1 + r2 = - RtoC b / RtoC a)%C.
Proof.
  unfold quad_real, near_double. rewrite !ceval3.
  destruct (neqb ROps a (n0 ROps)) eqn:Ea; [discriminate|]. apply neqb_false in Ea; cbn in Ea.
  cbn [ROps n0 n1 nadd nsub nmul ndiv nopp nsqrt nofZ nleb nltb two].
  set (disc := b * b - 4 * a * c). set (tol := 2 * eps * (b * b)).
  intros H [H1 H2].
  assert (E : Rltb disc tol && Rltb (- tol) disc = true).
  { apply andb_true_iff; split; apply Rltb_true; auto. }
  rewrite E in H. injection H as <- <-.
  assert (Hpa : 0 < Rabs a) by (apply Rabs_pos_lt; auto).
  repeat split.
  - unfold cofr, RtoC, Cmult, Cplus; cbn. f_equal; [|ring]. unfold disc. field; auto.
  - unfold Rdiv. rewrite Rabs_mult, Rabs_Ropp, Rabs_inv, Rabs_mult, (Rabs_right 4) by lra.
    assert (Rabs disc < tol) by (apply Rabs_def1; lra).
    unfold tol in *. apply Rmult_lt_reg_r with (4 * Rabs a); [lra|]. field_simplify; lra.
  - unfold cofr, Cdiv; unfold Cinv, Cmult, Cplus, Copp, RtoC; cbn. f_equal; field; auto.
Qed.

Theorem quad_real_exact_double_root eps a b c r1 r2 :
  quad_real ROps eps a b c = Some (r1, r2) -> near_double eps a b c -> b * b - 4 * a * c = 0 ->
  is_root [RtoC a; RtoC b; RtoC c] r1 /\ r2 = r1.
Proof.
  intros H Hn Hd. destruct (quad_real_near_double_residual _ _ _ _ _ _ H Hn) as (_ & E2 & E3 & _).
  split; auto. unfold is_root. rewrite E3, Hd. f_equal. unfold Rdiv. ring.
Qed.

(** in exact arithmetic (eps = 0) the near-double branch is empty: every output is a pair of exact roots *)
Theorem quad_real_roots_eps0 a b c r1 r2 :
  quad_real ROps 0 a b c = Some (r1, r2) ->
  is_root [RtoC a; RtoC b; RtoC c] r1 /\ is_root [RtoC a; RtoC b; RtoC c] r2 /\
  (r1 + r2 = - RtoC b / RtoC a)%C /\ (r1 * r2 = RtoC c / RtoC a)%C.
Proof. intros H. apply (quad_real_roots 0 a b c); auto. unfold near_double. lra. Qed.

(** real coefficients: the two returned roots are both real or complex conjugates of each other *)
Theorem quad_real_conjugate_pair eps a b c r1 r2 :
  quad_real ROps eps a b c = Some (r1, r2) ->
  (snd r1 = 0 /\ snd r2 = 0) \/ r2 = Cconj r1.
Proof.
  intros H. destruct (Rlt_dec (b * b - 4 * a * c) (2 * eps * (b * b))) as [L1|L1];
  [destruct (Rlt_dec (- (2 * eps * (b * b))) (b * b - 4 * a * c)) as [L2|L2]|].
  - destruct (quad_real_near_double_residual _ _ _ _ _ _ H (conj L1 L2)) as (-> & -> & _). left; split; reflexivity.
  - assert (Ha : a <> 0) by (intros E; apply (quad_real_defined eps a b c) in E; congruence).
    destruct (quad_real_roots _ _ _ _ _ _ H) as (_ & _ & Hs & Hp); [unfold near_double; tauto|].
    destruct r1 as [x1 y1], r2 as [x2 y2]. cbn [fst snd].
    apply (f_equal snd) in Hs, Hp. unfold Cplus, Cmult, Cdiv, Cinv, Copp, RtoC in Hs, Hp. cbn in Hs, Hp.
    assert (Hs' : y1 + y2 = 0) by (rewrite Hs; field; auto).
    assert (Hp' : x1 * y2 + y1 * x2 = 0) by (rewrite Hp; field; auto).
    destruct (Req_dec y1 0) as [E|E].
    + left. split; lra.
    + right. unfold Cconj; cbn. assert (x2 = x1) by nra. f_equal; lra.
  - assert (Ha : a <> 0) by (intros E; apply (quad_real_defined eps a b c) in E; congruence).
    destruct (quad_real_roots _ _ _ _ _ _ H) as (_ & _ & Hs & Hp); [unfold near_double; tauto|].
    destruct r1 as [x1 y1], r2 as [x2 y2]. cbn [fst snd].
    apply (f_equal snd) in Hs, Hp. unfold Cplus, Cmult, Cdiv, Cinv, Copp, RtoC in Hs, Hp. cbn in Hs, Hp.
    assert (Hs' : y1 + y2 = 0) by (rewrite Hs; field; auto).
    assert (Hp' : x1 * y2 + y1 * x2 = 0) by (rewrite Hp; field; auto).
    destruct (Req_dec y1 0) as [E|E].
    + left. split; lra.
    + right. unfold Cconj; cbn. assert (x2 = x1) by nra. f_equal; lra.
Qed.


(* ---------------------------------------------------------------- *)

Lemma ceqr0_true (z : C) : ceqr0 ROps z = true <-> z = RtoC 0.
Proof.
  destruct z as [x y]. unfold ceqr0. cbn [fst snd]. rewrite andb_true_iff, !neqb_true. cbn.
  split; [intros [-> ->]; reflexivity | intros E; injection E; auto].
Qed.
Lemma ceqr0_false (z : C) : ceqr0 ROps z = false <-> z <> RtoC 0.
Proof. rewrite <- ceqr0_true. destruct (ceqr0 ROps z); split; congruence. Qed.

(** general branch of the complex quadratic: the sign is chosen so that Re(conj(b) * (+-sq)) >= 0, hence b +- sq <> 0 *)
Lemma quad_cplx_q_neq0 (b sq : C) : b <> RtoC 0 ->
  cscale ROps (- (1 / 2)) (cadd ROps b (if Rltb 0 (fst (cmul ROps (cconj ROps b) sq)) then sq else cneg ROps sq)) <> RtoC 0.
Proof.
  intros Hb E. destruct b as [br bi], sq as [sr si].
  pose proof (norm2_pos _ _ Hb) as Hn.
  destruct (Rltb 0 (fst (cmul ROps (cconj ROps (br, bi)) (sr, si)))) eqn:Et.
  - apply Rltb_true in Et. cbn in Et.
    pose proof (f_equal fst E) as E1. pose proof (f_equal snd E) as E2. cbn in E1, E2.
    assert (sr = - br) by lra. assert (si = - bi) by lra. subst. nra.
  - apply Rltb_false in Et. cbn in Et.
    pose proof (f_equal fst E) as E1. pose proof (f_equal snd E) as E2. cbn in E1, E2.
    assert (sr = br) by lra. assert (si = bi) by lra. subst. nra.
Qed.

Theorem quad_cplx_defined a b c : quad_cplx ROps a b c = None <-> a = RtoC 0.
Proof.
  unfold quad_cplx. destruct (ceqr0 ROps a) eqn:Ea.
  - apply ceqr0_true in Ea. tauto.
  - apply ceqr0_false in Ea. split; [|tauto]. destruct (ceqr0 ROps b); discriminate.
Qed.

Theorem quad_cplx_roots (a b c r1 r2 : C) :
  quad_cplx ROps a b c = Some (r1, r2) ->
  is_root [a; b; c] r1 /\ is_root [a; b; c] r2 /\ (r1 + r2 = - b / a)%C /\ (r1 * r2 = c / a)%C.
Proof.
  unfold quad_cplx, is_root. rewrite !ceval3.
  destruct (ceqr0 ROps a) eqn:Ea; [discriminate|]. apply ceqr0_false in Ea.
  cbn [ROps n0 n1 nadd nsub nmul ndiv nopp nsqrt nofZ nleb nltb two].
  set (disc := csub ROps (cmul ROps b b) (cmul ROps (cscale ROps 4 a) c)).
  assert (Hdisc : disc = (b * b - (1 + 1) * (1 + 1) * a * c)%C).
  { unfold disc. rewrite cscale_C, RtoC_4. reflexivity. }
  pose proof (csqrt_sqr disc) as Hsq. set (sq := csqrt ROps disc) in *.
  destruct (ceqr0 ROps b) eqn:Eb.
  - apply ceqr0_true in Eb. subst b. intros H; injection H as <- <-.
    assert (H2a : cscale ROps 2 a <> RtoC 0).
    { rewrite cscale_C, RtoC_2. apply Cmult_neq_0; auto using C2_neq0. }
    rewrite cdiv_C by auto. rewrite cneg_C.
    apply quad_b0_core; auto.
    rewrite cscale_C, RtoC_2.
    assert (Hc : c = (- (sq * sq) / ((1 + 1) * (1 + 1) * a))%C).
    { rewrite Hsq, Hdisc. field. pose proof C2_neq0. cside. }
    clearbody sq disc. rewrite Hc. field. pose proof C2_neq0. cside.
  - apply ceqr0_false in Eb. intros H; injection H as <- <-.
    set (w := if Rltb 0 (fst (cmul ROps (cconj ROps b) sq)) then sq else cneg ROps sq).
    assert (Hq0 : cscale ROps (- (1 / 2)) (cadd ROps b w) <> RtoC 0) by (apply quad_cplx_q_neq0; auto).
    rewrite !cdiv_C by auto.
    apply (quad_core a b c w); auto.
    + replace (w * w)%C with (sq * sq)%C
        by (unfold w; destruct (Rltb 0 _); [|rewrite cneg_C, Cmult_opp_opp]; reflexivity).
      rewrite Hsq. exact Hdisc.
    + rewrite cscale_C, RtoC_mhalf. reflexivity.
Qed.


(* ---------------------------------------------------------------- *)

(** elementary symmetric polynomials e_k(l) *)
Fixpoint esym (k : nat) (l : list C) : C :=
  match k, l with
  | O, _ => RtoC 1
  | S _, [] => RtoC 0
  | S k', r :: l' => Cplus (esym k l') (Cmult r (esym k' l'))
  end.
Fixpoint Cpow (x : C) (n : nat) : C := match n with O => RtoC 1 | S n' => Cmult x (Cpow x n') end.
Definition sgn (k : nat) : C := Cpow (Copp (RtoC 1)) k.
Fixpoint prodlin (l : list C) (x : C) : C :=
  match l with [] => RtoC 1 | r :: l' => Cmult (prodlin l' x) (Cminus x r) end.
(** sum_k c_k x^(n-k) *)
Fixpoint pe (cs : list C) (x : C) : C :=
  match cs with [] => RtoC 0 | c :: cs' => Cplus (Cmult c (Cpow x (length cs'))) (pe cs' x) end.

Local Open Scope C_scope.
Ltac ceq := match goal with |- ?l = ?r => change (@eq C l r) end.
Ltac cfold := change (cadd ROps) with Cplus in *; change (cmul ROps) with Cmult in *; change (csub ROps) with Cminus in *;
  change (c0 ROps) with (RtoC 0) in *; change (c1 ROps) with (RtoC 1) in *; change (@cx R) with C in *.

Lemma chorner_pe (cs : list C) (acc x : C) : chorner ROps acc cs x = acc * Cpow x (length cs) + pe cs x.
Proof.
  revert acc. induction cs as [|c cs IH]; intros acc; cbn [chorner pe length Cpow].
  - ceq. ring.
  - rewrite IH. cfold. ring.
Qed.
Lemma ceval_pe (cs : list C) (x : C) : ceval ROps cs x = pe cs x.
Proof. unfold ceval. rewrite chorner_pe. cfold. ring. Qed.

Lemma csub_list_length (p q : list C) : length p = length q -> length (csub_list ROps p q) = length p.
Proof. revert q. induction p as [|a p IH]; destruct q as [|b q]; cbn; intros H; try discriminate; auto. Qed.
Lemma pe_csub_list (p q : list C) x : length p = length q -> pe (csub_list ROps p q) x = pe p x - pe q x.
Proof.
  revert q. induction p as [|a p IH]; destruct q as [|b q]; cbn [csub_list pe length]; intros H; try discriminate.
  - ring.
  - injection H as H. rewrite IH by auto. rewrite csub_list_length by auto. rewrite H. cfold. ring.
Qed.
Lemma pe_app0 (p : list C) x : pe (p ++ [RtoC 0]) x = pe p x * x.
Proof.
  induction p as [|a p IH]; cbn [app pe length Cpow].
  - ring.
  - rewrite IH. rewrite app_length. cbn [length]. rewrite Nat.add_1_r. cbn [Cpow]. ring.
Qed.
Lemma pe_map_mul (p : list C) r x : pe (map (Cmult r) p) x = r * pe p x.
Proof. induction p as [|a p IH]; cbn [map pe]. ring. rewrite IH, map_length. ring. Qed.

Lemma mul_lin_length p r : length (mul_lin ROps p r) = S (length p).
Proof. unfold mul_lin. rewrite csub_list_length; rewrite app_length; cbn [length]. lia. rewrite map_length. lia. Qed.
Lemma pe_mul_lin p r x : pe (mul_lin ROps p r) x = pe p x * (x - r).
Proof.
  unfold mul_lin. rewrite pe_csub_list.
  - cfold. rewrite pe_app0. cbn [pe]. rewrite pe_map_mul, map_length. ring.
  - rewrite app_length. cbn [length]. rewrite map_length. lia.
Qed.
Lemma expand_length l : length (expand ROps l) = S (length l).
Proof. induction l; cbn [expand length]; auto. rewrite mul_lin_length, IHl. reflexivity. Qed.

(** the expanded polynomial evaluates to the product of the linear factors *)
Lemma expand_eval l x : ceval ROps (expand ROps l) x = prodlin l x.
Proof.
  rewrite ceval_pe. induction l as [|r l IH]; cbn [expand prodlin].
  - cbn [pe length Cpow]. cfold. ring.
  - rewrite pe_mul_lin, IH. reflexivity.
Qed.

Lemma esym_beyond k l : (length l < k)%nat -> esym k l = 0.
Proof.
  revert k. induction l as [|r l IH]; intros k H; destruct k; cbn in *; try lia; auto.
  rewrite !IH by lia. ring.
Qed.
Lemma nth_csub_list k (p q : list C) : length p = length q ->
  nth k (csub_list ROps p q) (RtoC 0) = nth k p (RtoC 0) - nth k q (RtoC 0).
Proof.
  revert k q. induction p as [|a p IH]; destruct q as [|b q]; intros H; try discriminate.
  - destruct k; cbn [csub_list nth]; ceq; ring.
  - destruct k; cbn [csub_list nth]. reflexivity. apply IH. injection H; auto.
Qed.
Lemma nth_map_mul k r (p : list C) : nth k (map (Cmult r) p) (RtoC 0) = r * nth k p (RtoC 0).
Proof. revert k; induction p; destruct k; cbn [map nth]; auto; ceq; ring. Qed.
Lemma nth_app0 k (p : list C) : nth k (p ++ [RtoC 0]) (RtoC 0) = nth k p (RtoC 0).
Proof. revert k; induction p; destruct k; cbn; auto. destruct k; auto. Qed.
Lemma sgn_S k : sgn (S k) = - sgn k. Proof. unfold sgn. cbn [Cpow]. ring. Qed.

Lemma esym_0 l : esym 0 l = RtoC 1.
Proof. destruct l; reflexivity. Qed.
(** Vieta: the k-th coefficient of prod (x - r_i) is (-1)^k e_k(r) *)
Lemma expand_nth_vieta l k : nth k (expand ROps l) (RtoC 0) = sgn k * esym k l.
Proof.
  revert k. induction l as [|r l IH]; intros k.
  - destruct k; cbn [expand nth esym sgn Cpow]; cfold. ring. destruct k; ring.
  - cbn [expand]. unfold mul_lin. rewrite nth_csub_list.
    + cfold. rewrite nth_app0. destruct k.
      * rewrite IH. cbn [nth sgn Cpow]. rewrite !esym_0. ring.
      * rewrite IH. cbn [nth esym]. rewrite nth_map_mul, !IH, sgn_S. ring.
    + rewrite app_length. cbn [length]. rewrite map_length. lia.
Qed.

Lemma pe_map_mul_l (p : list C) a x : pe (map (Cmult a) p) x = a * pe p x.
Proof. apply pe_map_mul. Qed.

Lemma prodlin_root l r : In r l -> prodlin l r = 0.
Proof.
  induction l as [|s l IH]; cbn; intros H. tauto.
  destruct H as [->|H]. ring. rewrite IH by auto. ring.
Qed.

(** *** if the coefficients are lead * (-1)^k e_k(roots) then p = lead * prod (x - r_i) and every r_i is a root *)
Theorem vieta_implies_roots (coeffs roots : list C) (lead : C) :
  length coeffs = S (length roots) ->
  (forall k, (k <= length roots)%nat -> nth k coeffs (RtoC 0) = lead * (sgn k * esym k roots)) ->
  (forall x, ceval ROps coeffs x = lead * prodlin roots x) /\
  (forall r, In r roots -> is_root coeffs r).
Proof.
  intros Hlen Hv.
  assert (E : coeffs = map (Cmult lead) (expand ROps roots)).
  { apply (nth_ext _ _ (RtoC 0) (RtoC 0)).
    - rewrite map_length, expand_length. auto.
    - intros k Hk. rewrite nth_map_mul, expand_nth_vieta. apply Hv. lia. }
  assert (Hx : forall x, ceval ROps coeffs x = lead * prodlin roots x).
  { intros x. rewrite E at 1. rewrite ceval_pe, pe_map_mul, <- ceval_pe, expand_eval. reflexivity. }
  split; auto. intros r Hr. unfold is_root. rewrite Hx, prodlin_root by auto. ceq. ring.
Qed.


(* ---------------------------------------------------------------- *)

Local Close Scope C_scope.
Ltac cgen := repeat match goal with
  | |- context [ceval ROps ?cs ?x] => let e := fresh "e" in set (e := (ceval ROps cs x : C)) in *; clearbody e
  | |- context [@hd ?T ?d ?cs] => let e := fresh "h" in set (e := (@hd T d cs : C)) in *; clearbody e end.
Ltac cring := cgen; match goal with |- @eq _ ?l ?r => change (@eq C l r) end; ring.
Lemma Cminus_eq_0_inv (u v : C) : (u - v)%C = RtoC 0 -> u = v.
Proof. intros H. replace u with ((u - v) + v)%C by ring. rewrite H. ring. Qed.
(** sum_{j<n} t^j *)
Fixpoint gsum (n : nat) (t : R) : R := match n with O => 0 | S n' => t ^ n' + gsum n' t end.

Lemma Cmod_Cpow x n : Cmod (Cpow x n) = Cmod x ^ n.
Proof. induction n; cbn [Cpow pow]. apply Cmod_1. rewrite Cmod_mult, IHn. reflexivity. Qed.
Lemma Cmod_le_norm1 (d : C) : Cmod d <= cnorm1 ROps d.
Proof.
  destruct d as [a b]. unfold Cmod, cnorm1; cbn.
  apply Rsqr_incr_0_var.
  - rewrite Rsqr_sqrt by nra. unfold Rsqr.
    pose proof (Rabs_pos a). pose proof (Rabs_pos b).
    assert (Rabs a * Rabs a = a * a) by (rewrite <- Rabs_mult; apply Rabs_right; nra).
    assert (Rabs b * Rabs b = b * b) by (rewrite <- Rabs_mult; apply Rabs_right; nra).
    nra.
  - pose proof (Rabs_pos a). pose proof (Rabs_pos b). lra.
Qed.
Lemma gsum_pos n t : 0 <= t -> 0 <= gsum n t.
Proof. intros Ht. induction n; cbn [gsum]. lra. pose proof (pow_le t n Ht). lra. Qed.

Lemma pe_bound (ds : list C) (tol : R) (x : C) :
  Forall (fun d => cnorm1 ROps d <= tol) ds -> Cmod (pe ds x) <= tol * gsum (length ds) (Cmod x).
Proof.
  induction 1 as [|d ds Hd Hds IH]; cbn [pe length gsum].
  - rewrite Cmod_0. lra.
  - eapply Rle_trans. apply Cmod_triangle. rewrite Cmod_mult, Cmod_Cpow.
    pose proof (Cmod_le_norm1 d). pose proof (Cmod_ge_0 d).
    pose proof (pow_le (Cmod x) (length ds) (Cmod_ge_0 x)).
    assert (Cmod d * Cmod x ^ length ds <= tol * Cmod x ^ length ds) by (apply Rmult_le_compat_r; lra).
    rewrite Rmult_plus_distr_l. apply Rplus_le_compat; assumption.
Qed.

Lemma vieta_check_spec tol coeffs roots : vieta_check ROps tol coeffs roots = true <->
  length coeffs = S (length roots) /\ Forall (fun d => cnorm1 ROps d <= tol) (vieta_resid ROps coeffs roots).
Proof.
  unfold vieta_check. rewrite andb_true_iff, Nat.eqb_eq, forallb_forall, Forall_forall.
  split; intros [H1 H2]; split; auto; intros d Hd; apply Rleb_true; apply (H2 d Hd).
Qed.

(** *** what the extracted certificate checker establishes, for any tolerance:
        |p(x) - lead * prod (x - r_i)| <= tol * (1 + |x| + ... + |x|^n)  for every complex x *)
Theorem vieta_check_residual_bound tol coeffs roots :
  vieta_check ROps tol coeffs roots = true ->
  forall x, Cmod (ceval ROps coeffs x - hd (RtoC 0) coeffs * prodlin roots x)%C <= tol * gsum (S (length roots)) (Cmod x).
Proof.
  intros H x. apply vieta_check_spec in H. destruct H as [Hlen Hres].
  destruct coeffs as [|lead cs]; [discriminate|]. cbn [hd]. unfold vieta_resid in Hres.
  set (M := map (cmul ROps lead) (expand ROps roots)) in *.
  assert (HM : length (lead :: cs) = length M) by (unfold M; rewrite map_length, expand_length; auto).
  replace (ceval ROps (lead :: cs) x - lead * prodlin roots x)%C with (pe (csub_list ROps (lead :: cs) M) x).
  - replace (S (length roots)) with (length (csub_list ROps (lead :: cs) M)) by (rewrite csub_list_length; auto).
    apply pe_bound; auto.
  - rewrite pe_csub_list by auto. rewrite <- ceval_pe. unfold M. change (cmul ROps lead) with (Cmult lead).
    rewrite pe_map_mul, <- ceval_pe, expand_eval. reflexivity.
Qed.

Theorem vieta_check_root_residual tol coeffs roots r :
  vieta_check ROps tol coeffs roots = true -> In r roots ->
  Cmod (ceval ROps coeffs r) <= tol * gsum (S (length roots)) (Cmod r).
Proof.
  intros H Hr. pose proof (vieta_check_residual_bound _ _ _ H r) as B.
  rewrite prodlin_root in B by auto.
  replace (ceval ROps coeffs r - hd (RtoC 0) coeffs * 0)%C with (ceval ROps coeffs r) in B; auto.
  cring.
Qed.

(** tolerance 0: the checker accepts exactly when p = lead * prod (x - r_i); every listed root is then a root *)
Theorem vieta_check_exact_implies_roots coeffs roots :
  vieta_check ROps 0 coeffs roots = true ->
  (forall x, ceval ROps coeffs x = (hd (RtoC 0) coeffs * prodlin roots x)%C) /\
  (forall r, In r roots -> is_root coeffs r).
Proof.
  intros H.
  assert (Hx : forall x, ceval ROps coeffs x = (hd (RtoC 0) coeffs * prodlin roots x)%C).
  { intros x. pose proof (vieta_check_residual_bound _ _ _ H x) as B. rewrite Rmult_0_l in B.
    assert (E : (ceval ROps coeffs x - hd (RtoC 0) coeffs * prodlin roots x)%C = RtoC 0).
    { apply Cmod_eq_0. pose proof (Cmod_ge_0 (ceval ROps coeffs x - hd (RtoC 0) coeffs * prodlin roots x)%C). lra. }
    apply Cminus_eq_0_inv; exact E. }
  split; auto. intros r Hr. unfold is_root. rewrite Hx, prodlin_root by auto.
  cring.
Qed.

(** *** conjugate closure from real Vieta data *)
Lemma Cconj_plus (a b : C) : Cconj (a + b)%C = (Cconj a + Cconj b)%C.
Proof. destruct a, b; unfold Cconj, Cplus; cbn. f_equal; ring. Qed.
Lemma Cconj_mult (a b : C) : Cconj (a * b)%C = (Cconj a * Cconj b)%C.
Proof. destruct a, b; unfold Cconj, Cmult; cbn. f_equal; ring. Qed.
Lemma all_real_spec cs : all_real ROps cs = true <-> Forall (fun c => snd c = 0) cs.
Proof. unfold all_real. rewrite forallb_forall, Forall_forall. split; intros H c Hc; apply neqb_true; apply (H c Hc). Qed.
Lemma chorner_conj cs acc x : Forall (fun c : C => snd c = 0) cs ->
  chorner ROps (Cconj acc) cs (Cconj x) = Cconj (chorner ROps acc cs x).
Proof.
  intros H. revert acc. induction H as [|c cs Hc Hcs IH]; intros acc; cbn [chorner]. reflexivity.
  rewrite <- IH. f_equal. change (cadd ROps) with Cplus. change (cmul ROps) with Cmult.
  rewrite Cconj_plus, Cconj_mult. f_equal. destruct c as [cr ci]. cbn in Hc. subst ci. unfold Cconj; cbn. f_equal; ring.
Qed.
Lemma ceval_conj cs x : Forall (fun c : C => snd c = 0) cs -> ceval ROps cs (Cconj x) = Cconj (ceval ROps cs x).
Proof.
  intros H. unfold ceval. rewrite <- chorner_conj by auto. f_equal. unfold Cconj, c0; cbn. f_equal; ring.
Qed.
Lemma prodlin_zero l x : prodlin l x = RtoC 0 -> In x l.
Proof.
  induction l as [|r l IH]; cbn [prodlin]; intros H.
  - exfalso. apply (f_equal fst) in H. cbn in H. lra.
  - destruct (Ceq_dec (x - r)%C (RtoC 0)) as [E|E].
    + left. match goal with |- ?l = ?r => change (@eq C l r) end.
      replace x with ((x - r) + r)%C by ring. rewrite E. ring.
    + right. apply IH. destruct (Ceq_dec (prodlin l x) (RtoC 0)) as [E'|E']; auto.
      exfalso. exact (Cmult_neq_0 _ _ E' E H).
Qed.

Theorem conjugate_closed_from_real_vieta coeffs roots :
  all_real ROps coeffs = true -> hd (RtoC 0) coeffs <> RtoC 0 ->
  vieta_check ROps 0 coeffs roots = true ->
  forall r, In r roots -> In (Cconj r) roots.
Proof.
  intros Hreal Hlead Hv r Hr. apply all_real_spec in Hreal.
  destruct (vieta_check_exact_implies_roots _ _ Hv) as [Hx Hroot].
  apply prodlin_zero.
  pose proof (Hx (Cconj r)) as E. rewrite ceval_conj in E by auto. rewrite (Hroot r Hr) in E.
  destruct (Ceq_dec (prodlin roots (Cconj r)) (RtoC 0)) as [Z|Z]; auto.
  exfalso. apply (Cmult_neq_0 _ _ Hlead Z). rewrite <- E. unfold Cconj, RtoC; cbn. f_equal. ring.
Qed.

Lemma conj_closed_check_exact roots :
  conj_closed_check ROps 0 roots = true <-> (forall r, In r roots -> In (Cconj r) roots).
Proof.
  unfold conj_closed_check. rewrite forallb_forall. split; intros H r Hr.
  - specialize (H r Hr). apply existsb_exists in H. destruct H as [s [Hs Hle]].
    apply Rleb_true in Hle. change (cconj ROps r) with (Cconj r) in Hle. change (csub ROps) with Cminus in Hle.
    pose proof (Cmod_le_norm1 (s - Cconj r)%C). pose proof (Cmod_ge_0 (s - Cconj r)%C).
    assert (E : (s - Cconj r)%C = RtoC 0) by (apply Cmod_eq_0; cbn in *; lra).
    replace (Cconj r) with s; auto.
    match goal with |- ?l = ?r => change (@eq C l r) end.
    replace s with ((s - Cconj r) + Cconj r)%C by ring. rewrite E. ring.
  - apply existsb_exists. exists (Cconj r). split; [apply H; auto|]. apply Rleb_true.
    change (cconj ROps r) with (Cconj r). destruct r as [x y]. unfold cnorm1, csub, Cconj; cbn.
    replace (x - x) with 0 by ring. replace (- y - - y) with 0 by ring. rewrite Rabs_R0. lra.
Qed.


(* ---------------------------------------------------------------- *)

Lemma Rltb_f x y : y <= x -> Rltb x y = false. Proof. apply Rltb_false. Qed.
Lemma Rltb_t x y : x < y -> Rltb x y = true. Proof. apply Rltb_true. Qed.
Lemma Rleb_t x y : x <= y -> Rleb x y = true. Proof. apply Rleb_true. Qed.
Lemma Rleb_f x y : y < x -> Rleb x y = false.
Proof. apply Rleb_false. Qed.

(** regression witness of the repaired defect (fixed: f39a78dd): 2x^2 - 8 has the roots +-2 (the old code returned +-8) *)
Example quad_real_2xx_minus_8 eps : quad_real ROps eps 2 0 (-8) = Some (RtoC 2, RtoC (-2)).
Proof.
  unfold quad_real. cbn [ROps n0 n1 nadd nsub nmul ndiv nopp nsqrt nofZ nleb nltb two neqb].
  replace (neqb ROps 2 0) with false by (symmetry; apply neqb_false; lra).
  replace (neqb ROps 0 0) with true by (symmetry; apply neqb_true; lra).
  replace (0 * 0 - 4 * 2 * -8) with 64 by ring. replace (2 * eps * (0 * 0)) with 0 by ring.
  rewrite (Rltb_f 64 0) by lra. cbn [andb].
  rewrite (Rleb_t 0 64) by lra.
  replace 64 with (8 * 8) by ring. rewrite sqrt_square by lra.
  unfold cofr, RtoC. cbn. repeat f_equal; field.
Qed.

Example quad_real_general_nonvacuous :
  exists r1 r2, quad_real ROps 0 1 (-3) 2 = Some (r1, r2) /\ ~ near_double 0 1 (-3) 2.
Proof.
  destruct (quad_real ROps 0 1 (-3) 2) as [[r1 r2]|] eqn:E.
  - exists r1, r2. split; auto. unfold near_double. lra.
  - apply quad_real_defined in E. lra.
Qed.

Example quad_real_near_double_nonvacuous :
  near_double (1 / 1000) 1 2 1 /\ quad_real ROps (1 / 1000) 1 2 1 = Some (RtoC (-1), RtoC (-1)).
Proof.
  assert (N : near_double (1 / 1000) 1 2 1) by (unfold near_double; lra).
  split; auto.
  destruct (quad_real ROps (1 / 1000) 1 2 1) as [[r1 r2]|] eqn:E.
  - destruct (quad_real_near_double_residual _ _ _ _ _ _ E N) as (-> & -> & _).
    repeat f_equal; field.
  - apply quad_real_defined in E. lra.
Qed.

Example quad_cplx_nonvacuous : exists r1 r2, quad_cplx ROps (0, 1) (1, 1) (2, -1) = Some (r1, r2).
Proof.
  destruct (quad_cplx ROps (0, 1) (1, 1) (2, -1)) as [[r1 r2]|] eqn:E.
  - exists r1, r2; auto.
  - apply quad_cplx_defined in E. apply (f_equal snd) in E. cbn in E. lra.
Qed.

(** x^2 - 3x + 2 = (x-1)(x-2): the Vieta checker accepts with tolerance 0 *)
Example vieta_check_example :
  vieta_check ROps 0 [RtoC 1; RtoC (-3); RtoC 2] [RtoC 1; RtoC 2] = true.
Proof.
  apply vieta_check_spec. split; [reflexivity|].
  unfold vieta_resid, expand, mul_lin. cbn [app map csub_list].
  repeat apply Forall_cons; try apply Forall_nil; unfold cnorm1, csub, cmul, c0, c1, RtoC; cbn.
  all: match goal with |- Rabs ?a + Rabs ?b <= 0 => replace a with 0 by ring; replace b with 0 by ring end;
  rewrite Rabs_R0; lra.
Qed.
Example conjugate_example :
  all_real ROps [RtoC 1; RtoC 0; RtoC 1] = true /\ vieta_check ROps 0 [RtoC 1; RtoC 0; RtoC 1] [(0, 1); (0, -1)] = true.
Proof.
  split.
  - apply all_real_spec. repeat constructor.
  - apply vieta_check_spec. split; [reflexivity|].
    unfold vieta_resid, expand, mul_lin. cbn [app map csub_list].
    repeat apply Forall_cons; try apply Forall_nil; unfold cnorm1, csub, cmul, c0, c1, RtoC; cbn.
    all: match goal with |- Rabs ?a + Rabs ?b <= 0 => replace a with 0 by ring; replace b with 0 by ring end;
    rewrite Rabs_R0; lra.
Qed.
