(** C31 helper lemmas about the binary64 part of the model (Flocq): [to_res53], the Uniform
    expression min + r*range, floor.  No property statements here. *)
From Coq Require Import NArith ZArith Reals Lia Lra List.
From Flocq Require Import Core.Core IEEE754.BinarySingleNaN.
From Coq Require Import SpecFloat.
Require Import C31_Model.
Local Open Scope R_scope.

Notation fexp64 := (SpecFloat.fexp prec emax).
Definition rnd (x : R) : R := round radix2 fexp64 ZnearestE x.

Global Instance fexp64_valid : Valid_exp fexp64.
Proof. apply (fexp_correct prec emax Hprec). Qed.

Lemma fexp64_eq e : fexp64 e = Z.max (e - 53) (-1074).
Proof. reflexivity. Qed.

Lemma bpow_m53 : bpow radix2 (-53) = / 9007199254740992.
Proof. reflexivity. Qed.
Lemma bpow_m64 : bpow radix2 (-64) = / 18446744073709551616.
Proof. reflexivity. Qed.

Lemma fmt_1 : generic_format radix2 fexp64 1.
Proof. change 1 with (bpow radix2 0). apply generic_format_bpow. rewrite fexp64_eq. lia. Qed.

Lemma fmt_0 : generic_format radix2 fexp64 0.
Proof. apply generic_format_0. Qed.

Definition u1 : R := 1 - bpow radix2 (-53).

Lemma mag_u1 : mag radix2 u1 = 0%Z :> Z.
Proof.
  apply mag_unique. unfold u1. rewrite bpow_m53.
  change (bpow radix2 (0-1)) with (/2). change (bpow radix2 0) with 1.
  rewrite Rabs_pos_eq; lra.
Qed.

Lemma u1_F2R : u1 = F2R (Float radix2 9007199254740991 (-53)).
Proof. unfold u1, F2R. cbn [Fnum Fexp]. rewrite bpow_m53. lra. Qed.

Lemma fmt_u1 : generic_format radix2 fexp64 u1.
Proof.
  rewrite u1_F2R. apply generic_format_F2R. intros _. rewrite <- u1_F2R.
  unfold cexp. rewrite mag_u1. rewrite fexp64_eq. lia.
Qed.

Lemma succ_u1 : succ radix2 fexp64 u1 = 1.
Proof.
  assert (H0 : 0 < u1) by (unfold u1; rewrite bpow_m53; lra).
  rewrite succ_eq_pos by lra. rewrite ulp_neq_0 by lra.
  unfold cexp. rewrite mag_u1. rewrite fexp64_eq. change (Z.max (0 - 53) (-1074)) with (-53)%Z.
  unfold u1. lra.
Qed.
Lemma rnd_le_generic x y : generic_format radix2 fexp64 y -> x <= y -> rnd x <= y.
Proof. intros. apply round_le_generic; auto with typeclass_instances. Qed.
Lemma rnd_ge_generic x y : generic_format radix2 fexp64 x -> x <= y -> x <= rnd y.
Proof. intros. apply round_ge_generic; auto with typeclass_instances. Qed.
Lemma rnd_le x y : x <= y -> rnd x <= rnd y.
Proof. intros. apply round_le; auto with typeclass_instances. Qed.
Lemma rnd_generic x : generic_format radix2 fexp64 x -> rnd x = x.
Proof. intros. apply round_generic; auto with typeclass_instances. Qed.
Lemma rnd_format x : generic_format radix2 fexp64 (rnd x).
Proof. apply generic_format_round; auto with typeclass_instances. Qed.

Definition unit_of (v : N) : R := IZR (Z.of_N v) * bpow radix2 (-64).

Lemma unit_of_bounds v : (v < 2 ^ 64)%N -> 0 <= unit_of v < 1.
Proof.
  intros H. unfold unit_of. rewrite bpow_m64.
  assert (0 <= Z.of_N v < 18446744073709551616)%Z as [H1 H2] by lia.
  apply IZR_le in H1. apply IZR_lt in H2. lra.
Qed.

Lemma res53_spec v : (v < 2 ^ 64)%N ->
  B2R (res53 v) = rnd (unit_of v) /\ is_finite (res53 v) = true.
Proof.
  intros H. pose proof (unit_of_bounds v H) as [H0 H1].
  unfold res53, fofZ2.
  pose proof (binary_normalize_correct prec emax Hprec Hemax mode_NE (Z.of_N v) (-64) false) as C.
  cbv zeta in C. change (round_mode mode_NE) with ZnearestE in C.
  change (F2R (Float radix2 (Z.of_N v) (-64))) with (unit_of v) in C.
  fold (rnd (unit_of v)) in C.
  rewrite Rlt_bool_true in C.
  - destruct C as (C1 & C2 & _). split; assumption.
  - assert (0 <= rnd (unit_of v) <= 1).
    { split; [apply rnd_ge_generic; [apply fmt_0 | lra] | apply rnd_le_generic; [apply fmt_1 | lra]]. }
    rewrite Rabs_pos_eq by lra. apply Rle_lt_trans with 1; [lra|].
    change 1 with (bpow radix2 0). apply bpow_lt. reflexivity.
Qed.

Lemma res53_unit_closed v : (v < 2 ^ 64)%N -> 0 <= B2R (res53 v) <= 1.
Proof.
  intros H. destruct (res53_spec v H) as [E _]. rewrite E.
  pose proof (unit_of_bounds v H).
  split; [apply rnd_ge_generic; [apply fmt_0 | lra] | apply rnd_le_generic; [apply fmt_1 | lra]].
Qed.

Lemma res53_below_one v : (v < 2 ^ 64 - 2 ^ 10)%N -> B2R (res53 v) <= 1 - bpow radix2 (-53).
Proof.
  intros H. assert (H' : (v < 2 ^ 64)%N) by lia.
  destruct (res53_spec v H') as [E _]. rewrite E. fold u1.
  apply round_N_le_midp; auto with typeclass_instances. apply fmt_u1.
  rewrite succ_u1. unfold u1, unit_of. rewrite bpow_m53, bpow_m64.
  assert (Z.of_N v <= 18446744073709550591)%Z as H2 by lia.
  apply IZR_le in H2. lra.
Qed.

Lemma res53_top_is_one : B2R (res53 18446744073709551615) = 1.
Proof.
  rewrite <- SF2R_B2SF.
  replace (B2SF (res53 18446744073709551615)) with (S754_finite false 4503599627370496 (-52)) by (vm_compute; reflexivity).
  unfold SF2R, F2R. cbn [Fnum Fexp cond_Zopp]. change (bpow radix2 (-52)) with (/ 4503599627370496). field.
Qed.
(* ---------------- integers are binary64 numbers; the operations on bounded values do not overflow *)
Lemma fmt_IZR a : (Z.abs a < 2 ^ 53)%Z -> generic_format radix2 fexp64 (IZR a).
Proof.
  intros H. replace (IZR a) with (F2R (Float radix2 a 0)) by (unfold F2R; cbn [Fnum Fexp bpow]; lra).
  apply generic_format_F2R. intros Ha.
  replace (F2R (Float radix2 a 0)) with (IZR a) by (unfold F2R; cbn [Fnum Fexp bpow]; lra).
  unfold cexp. rewrite fexp64_eq.
  assert (mag radix2 (IZR a) <= 53)%Z.
  { apply mag_le_bpow. now apply IZR_neq. rewrite <- abs_IZR.
    change (bpow radix2 53) with (IZR (2 ^ 53)). now apply IZR_lt. }
  lia.
Qed.

Lemma no_ovf x : Rabs x <= bpow radix2 62 -> Rlt_bool (Rabs (rnd x)) (bpow radix2 emax) = true.
Proof.
  intros H. apply Rlt_bool_true. apply Rle_lt_trans with (bpow radix2 62).
  - apply abs_round_le_generic; auto with typeclass_instances.
    apply generic_format_bpow. rewrite fexp64_eq. lia.
  - apply bpow_lt. reflexivity.
Qed.

Lemma fofZ_spec a : (Z.abs a < 2 ^ 53)%Z -> B2R (fofZ a) = IZR a /\ is_finite (fofZ a) = true.
Proof.
  intros H. unfold fofZ, fofZ2.
  pose proof (binary_normalize_correct prec emax Hprec Hemax mode_NE a 0 false) as C.
  cbv zeta in C. change (round_mode mode_NE) with ZnearestE in C.
  replace (F2R (Float radix2 a 0)) with (IZR a) in C by (unfold F2R; cbn [Fnum Fexp bpow]; lra).
  fold (rnd (IZR a)) in C.
  rewrite no_ovf in C.
  - destruct C as (C1 & C2 & _). rewrite rnd_generic in C1 by now apply fmt_IZR. auto.
  - rewrite <- abs_IZR. change (bpow radix2 62) with (IZR (2 ^ 62)). apply IZR_le. lia.
Qed.

(* the real-number meaning of Uniform::getValue() for integer bounds *)
Definition uniform_R (a b : Z) (r : R) : R := rnd (IZR a + rnd (r * IZR (b - a))).

Lemma uniform_value_raw_spec a b v :
  (- 2 ^ 31 <= a)%Z -> (a < b)%Z -> (b <= 2 ^ 31)%Z -> (v < 2 ^ 64)%N ->
  B2R (uniform_value_raw (fofZ a) (fofZ b) v) = uniform_R a b (B2R (res53 v)) /\
  is_finite (uniform_value_raw (fofZ a) (fofZ b) v) = true.
Proof.
  intros Ha Hab Hb Hv.
  destruct (fofZ_spec a) as [Ea Fa]; [lia|]. destruct (fofZ_spec b) as [Eb Fb]; [lia|].
  destruct (res53_spec v Hv) as [_ Fr]. pose proof (res53_unit_closed v Hv) as Hr.
  assert (Hba : 0 < IZR (b - a) <= 4294967296).
  { split; [apply IZR_lt; lia | apply IZR_le; lia]. }
  assert (Ha' : -2147483648 <= IZR a <= 2147483648).
  { split; apply IZR_le; lia. }
  assert (B62 : bpow radix2 62 = 4611686018427387904) by reflexivity.
  unfold uniform_value_raw, uniform_raw, uniform_R.
  (* range = max - min *)
  pose proof (Bminus_correct prec emax Hprec Hemax mode_NE (fofZ b) (fofZ a) Fb Fa) as C.
  change (round_mode mode_NE) with ZnearestE in C. rewrite Ea, Eb, <- minus_IZR in C.
  fold (rnd (IZR (b - a))) in C. rewrite no_ovf in C
    by (rewrite Rabs_pos_eq by lra; rewrite B62; lra).
  destruct C as (Er & Frg & _). rewrite rnd_generic in Er by (apply fmt_IZR; lia).
  fold (fsub (fofZ b) (fofZ a)) in Er, Frg.
  (* r * range *)
  pose proof (Bmult_correct prec emax Hprec Hemax mode_NE (res53 v) (fsub (fofZ b) (fofZ a))) as C.
  change (round_mode mode_NE) with ZnearestE in C. rewrite Er in C.
  fold (rnd (B2R (res53 v) * IZR (b - a))) in C.
  assert (Hp : 0 <= B2R (res53 v) * IZR (b - a) <= IZR (b - a)) by nra.
  rewrite no_ovf in C by (rewrite Rabs_pos_eq by lra; rewrite B62; lra).
  destruct C as (Em & Fm & _). rewrite Fr, Frg in Fm. cbn [andb] in Fm.
  fold (fmul (res53 v) (fsub (fofZ b) (fofZ a))) in Em, Fm.
  assert (Ht : 0 <= rnd (B2R (res53 v) * IZR (b - a)) <= IZR (b - a)).
  { split; [apply rnd_ge_generic; [apply fmt_0 | lra] | apply rnd_le_generic; [apply fmt_IZR; lia | lra]]. }
  (* min + ... *)
  pose proof (Bplus_correct prec emax Hprec Hemax mode_NE (fofZ a) _ Fa Fm) as C.
  change (round_mode mode_NE) with ZnearestE in C. rewrite Ea, Em in C.
  fold (rnd (IZR a + rnd (B2R (res53 v) * IZR (b - a)))) in C.
  rewrite no_ovf in C by (rewrite B62; apply Rabs_le; lra).
  destruct C as (Es & Fs & _). split; assumption.
Qed.

Lemma floorZ_spec (x : b64) : is_finite x = true -> floorZ x = Zfloor (B2R x).
Proof.
  destruct x as [s| | |s m e Hb]; cbn [is_finite floorZ B2R]; try discriminate; intros _.
  - now rewrite Zfloor_IZR.
  - unfold F2R. cbn [Fnum Fexp].
    destruct (Z.leb_spec 0 e) as [He|He].
    + rewrite <- IZR_Zpower by assumption. rewrite <- mult_IZR, Zfloor_IZR. reflexivity.
    + replace (bpow radix2 e) with (/ IZR (2 ^ (- e))).
      * apply eq_sym. apply Zfloor_div. apply Z.pow_nonzero; lia.
      * rewrite (IZR_Zpower radix2) by lia. rewrite <- bpow_opp. f_equal. lia.
Qed.
(* ---------------- integer mode *)
Lemma uniform_int_raw_spec a b v :
  (- 2 ^ 31 <= a)%Z -> (a < b)%Z -> (b <= 2 ^ 31)%Z -> (v < 2 ^ 64)%N ->
  uniform_int_raw (fofZ a) (fofZ b) v = Zfloor (uniform_R a b (B2R (res53 v))).
Proof.
  intros. destruct (uniform_value_raw_spec a b v) as [E F]; auto.
  unfold uniform_int_raw. rewrite floorZ_spec by assumption. now rewrite E.
Qed.

Lemma uniform_R_mono a b r1 r2 : (a < b)%Z -> r1 <= r2 -> uniform_R a b r1 <= uniform_R a b r2.
Proof.
  intros Hab Hr. unfold uniform_R. apply rnd_le. apply Rplus_le_compat_l. apply rnd_le.
  apply Rmult_le_compat_r; [apply IZR_le; lia | assumption].
Qed.

Lemma res53_mono v1 v2 : (v1 <= v2)%N -> (v2 < 2 ^ 64)%N -> B2R (res53 v1) <= B2R (res53 v2).
Proof.
  intros H12 H2. assert (H1 : (v1 < 2 ^ 64)%N) by lia.
  destruct (res53_spec v1 H1) as [E1 _]. destruct (res53_spec v2 H2) as [E2 _]. rewrite E1, E2.
  apply rnd_le. unfold unit_of. apply Rmult_le_compat_r; [apply bpow_ge_0 | apply IZR_le; lia].
Qed.

Lemma uniform_R_ge_min a b r : (Z.abs a < 2 ^ 53)%Z -> (a < b)%Z -> 0 <= r -> IZR a <= uniform_R a b r.
Proof.
  intros Ha Hab Hr. unfold uniform_R. apply rnd_ge_generic; [now apply fmt_IZR|].
  assert (0 <= rnd (r * IZR (b - a))).
  { apply rnd_ge_generic; [apply fmt_0|]. apply Rmult_le_pos; [assumption | apply IZR_le; lia]. }
  lra.
Qed.

(* rounding x <= m*(1-2^-53) never reaches a binary64 number m >= 1 *)
Lemma pred_1 : pred radix2 fexp64 1 = u1.
Proof. rewrite <- succ_u1. apply pred_succ; auto with typeclass_instances. apply fmt_u1. Qed.

Lemma rnd_below m x : generic_format radix2 fexp64 m -> 1 <= m -> x <= m * u1 -> rnd x < m.
Proof.
  intros Fm Hm Hx.
  set (p := pred radix2 fexp64 m).
  assert (Fp : generic_format radix2 fexp64 p) by (apply generic_format_pred; auto with typeclass_instances).
  assert (Hp1 : u1 <= p).
  { rewrite <- pred_1. apply pred_le; auto with typeclass_instances. apply fmt_1. }
  assert (Hu1 : / 2 <= u1) by (unfold u1; rewrite bpow_m53; lra).
  assert (Hpm : p < m) by (apply pred_lt_id; lra).
  assert (Hpu : p + ulp radix2 fexp64 p = m) by (apply pred_plus_ulp; auto with typeclass_instances; lra).
  assert (Hulp : ulp radix2 fexp64 p <= Rabs p * bpow radix2 (1 - 53)).
  { apply (ulp_FLT_le radix2 (-1074) 53). rewrite Rabs_pos_eq by lra.
    apply Rle_trans with (/2); [|lra].
    change (/2) with (bpow radix2 (-1)). apply bpow_le. lia. }
  rewrite Rabs_pos_eq in Hulp by lra.
  change (bpow radix2 (1 - 53)) with (/ 4503599627370496) in Hulp.
  apply Rle_lt_trans with p; [|assumption].
  apply round_N_le_midp; auto with typeclass_instances.
  replace (succ radix2 fexp64 p) with m
    by (unfold p; symmetry; apply succ_pred; auto with typeclass_instances).
  unfold u1 in Hx. rewrite bpow_m53 in Hx.
  assert (ulp radix2 fexp64 p < m / 4503599627370496) by nra.
  lra.
Qed.

(* exactly the 1024 largest inputs are mapped to 1.0 *)
Lemma res53_tie_is_one : B2R (res53 (2 ^ 64 - 2 ^ 10)) = 1.
Proof.
  rewrite <- SF2R_B2SF.
  replace (B2SF (res53 (2 ^ 64 - 2 ^ 10))) with (S754_finite false 4503599627370496 (-52)) by (vm_compute; reflexivity).
  unfold SF2R, F2R. cbn [Fnum Fexp cond_Zopp]. change (bpow radix2 (-52)) with (/ 4503599627370496). field.
Qed.

Lemma res53_one_iff v : (v < 2 ^ 64)%N -> (B2R (res53 v) = 1 <-> (2 ^ 64 - 2 ^ 10 <= v)%N).
Proof.
  intros Hv. split.
  - intros H1. destruct (N.le_gt_cases (2 ^ 64 - 2 ^ 10) v) as [L|G]; [assumption|]. exfalso.
    pose proof (res53_below_one v G) as B. rewrite bpow_m53 in B. lra.
  - intros L. destruct (N.eq_dec v (2 ^ 64 - 2 ^ 10)) as [->|NE]; [apply res53_tie_is_one|].
    apply Rle_antisym; [apply res53_unit_closed; assumption|].
    destruct (res53_spec v Hv) as [E _]. rewrite E.
    apply round_N_ge_midp; auto with typeclass_instances. apply fmt_1.
    rewrite pred_1. unfold u1, unit_of. rewrite bpow_m53, bpow_m64.
    assert (18446744073709550593 <= Z.of_N v)%Z as H2 by lia. apply IZR_le in H2. lra.
Qed.


(* ---------------- the clamped expression of commit 181ff92a *)
Lemma uniform_R_bounds a b r : (- 2 ^ 31 <= a)%Z -> (a < b)%Z -> (b <= 2 ^ 31)%Z -> 0 <= r <= 1 ->
  IZR a <= uniform_R a b r <= IZR b.
Proof.
  intros Ha Hab Hb Hr. split; [apply uniform_R_ge_min; [lia | assumption | tauto]|].
  unfold uniform_R. apply rnd_le_generic; [apply fmt_IZR; lia|].
  assert (L : 0 < IZR (b - a)) by (apply IZR_lt; lia).
  assert (rnd (r * IZR (b - a)) <= IZR (b - a)).
  { apply rnd_le_generic; [apply fmt_IZR; lia | nra]. }
  rewrite minus_IZR in *. lra.
Qed.

Lemma uniform_value_clamped_spec a b v :
  (- 2 ^ 31 <= a)%Z -> (a < b)%Z -> (b <= 2 ^ 31)%Z -> (v < 2 ^ 64)%N ->
  is_finite (uniform_value (fofZ a) (fofZ b) v) = true /\
  IZR a <= B2R (uniform_value (fofZ a) (fofZ b) v) < IZR b /\
  (uniform_R a b (B2R (res53 v)) < IZR b ->
     B2R (uniform_value (fofZ a) (fofZ b) v) = uniform_R a b (B2R (res53 v))).
Proof.
  intros Ha Hab Hb Hv.
  destruct (uniform_value_raw_spec a b v Ha Hab Hb Hv) as [E Fin].
  destruct (fofZ_spec a) as [Ea Fa]; [lia|]. destruct (fofZ_spec b) as [Eb Fb]; [lia|].
  pose proof (uniform_R_bounds a b _ Ha Hab Hb (res53_unit_closed v Hv)) as Bd.
  unfold uniform_value, uniform_expr. fold (uniform_value_raw (fofZ a) (fofZ b) v).
  unfold fleb, fltb. rewrite Bleb_correct, Bltb_correct by assumption. rewrite Ea, Eb, E.
  assert (Lt : Rlt_bool (IZR a) (IZR b) = true) by (apply Rlt_bool_true, IZR_lt; assumption).
  rewrite Lt, Bool.andb_true_r.
  destruct (Rle_bool_spec (IZR b) (uniform_R a b (B2R (res53 v)))) as [Hge|Hlt].
  - (* clamp: the largest binary64 number below max *)
    pose proof (Bpred_correct prec emax Hprec Hemax (fofZ b) Fb) as P. rewrite Eb in P.
    assert (Fmb : generic_format radix2 fexp64 (IZR b)) by (apply fmt_IZR; lia).
    assert (Fma : generic_format radix2 fexp64 (IZR a)) by (apply fmt_IZR; lia).
    assert (Hp : IZR a <= pred radix2 fexp64 (IZR b)).
    { apply pred_ge_gt; auto with typeclass_instances. apply IZR_lt; assumption. }
    assert (Hp2 : pred radix2 fexp64 (IZR b) < IZR b).
    { destruct (Z.eq_dec b 0) as [->|Nb].
      - rewrite pred_0. change (ulp radix2 fexp64 0) with (ulp radix2 (FLT_exp (-1074) 53) 0).
        rewrite (@ulp_FLT_0 radix2 (-1074) 53 Hprec).
        pose proof (bpow_gt_0 radix2 (-1074)). lra.
      - apply pred_lt_id. now apply not_0_IZR. }
    rewrite Rlt_bool_true in P.
    + destruct P as (P1 & P2 & _). unfold fpred. rewrite P1, P2.
      split; [reflexivity|]. split; [split; assumption|]. intros C. lra.
    + apply Rlt_le_trans with (IZR a); [|assumption].
      assert (Ha' : -2147483648 <= IZR a) by (apply (IZR_le (-2147483648) a); lia).
      apply Rlt_le_trans with (- bpow radix2 62).
      * apply Ropp_lt_contravar, bpow_lt. reflexivity.
      * change (bpow radix2 62) with 4611686018427387904. lra.
  - split; [assumption|]. rewrite E. split; [split; [tauto | assumption]|]. reflexivity.
Qed.
